package main

// C04: purity. Reference results come from fresh child processes (one detection each, no history); the parent
// then runs long random histories (same goroutine and across goroutines), changes bytes past the limit,
// and checks that the caller's buffer (including its spare capacity) is never written.

import (
	"bufio"
	"bytes"
	"crypto/sha256"
	"fmt"
	"os"
	"os/exec"
	"strconv"
	"strings"
	"sync"

	"github.com/gabriel-vasile/mimetype"
	mjson "github.com/gabriel-vasile/mimetype/internal/json"
)

type c04in struct {
	data  []byte
	limit uint32
}

func cmdC04Ref(args []string) {
	// stdin: lines "<hex> <limit>"; one detection per PROCESS is not needed: a fresh process with a clean pool
	// and no earlier detection of a *different* input suffices, so each line is answered by re-exec'ing when
	// asked with --one; here: answer a single case
	x, _ := hexDecode(strings.Replace(args[0], "-", "", 1))
	l, _ := strconv.Atoi(args[1])
	m, pan := detectAt(x, uint32(l))
	if pan != nil || m == nil {
		fmt.Println("PANIC")
		return
	}
	fmt.Println(chainFull(m))
}

func runC04(c *runCtx) {
	r := c.rng
	self, _ := os.Executable()
	big := []byte("{\"a\":[" + strings.Repeat("{\"k\":[1,2,{\"z\":null}]},", 400) + "1]}")
	inputs := []c04in{
		{[]byte(`{"type":"Feature","geometry":null}`), 3072}, {[]byte(`{"a":1}`), 3072}, {[]byte(`{"a":{"b":[{"c":`), 3072}, {[]byte(`{"a":{"b":[{"c":`), 16},
		{[]byte(`{"log":{"entries":[]}}`), 3072}, {[]byte(`{"asset":{"version":"2.0"}}`), 3072}, {[]byte(`{"accessors":[1],"asset":{"version":"2.0"}}`), 0},
		{big, 3072}, {big, 0}, {big[:3072], 3072}, {[]byte(strings.Repeat("[", 300) + "x"), 3072}, {[]byte("[" + strings.Repeat("[", 5000)), 0},
		{[]byte("a,b,c,d,e,f,g\n1,2,3,4,5,6,7\n1,2,3,4,5,6,7\n"), 3072}, {[]byte("a,b\n1,2\n3,4\n"), 3072}, {[]byte("a,b,c\n1,2\n3,4,5\n"), 3072}, {[]byte("a\tb\n1\t2\n"), 3072},
		{[]byte("\"q\"\"x\",\"y\"\n\"1\",\"2\"\n"), 3072}, {[]byte("{\"a\":1}\n{\"b\":2}\n"), 3072}, {[]byte("{\"a\":1}\n{\n"), 3072}, {[]byte("{\"a\":1}\n{\"b\":\n"), 3072},
		{[]byte("<html><meta charset=\"KOI8-R\"></html>"), 3072}, {[]byte("<?xml version=\"1.0\" encoding=\"ISO-8859-2\"?><a/>"), 3072}, {[]byte("plain text"), 3072}, {[]byte("caf\xc3\xa9"), 3072},
		{[]byte("%PDF-1.4"), 3072}, {[]byte{}, 3072}, {[]byte("["), 0}, {[]byte("{"), 1}, {[]byte(" [ "), 3072},
		// readers that stop in the middle of their input (a field-count error long before the end, in both the CSV and
		// the TSV check) and tables whose verdict depends on what the next reader sees
		{[]byte("a,b\tc\n1\np,q,r,s\nz,z\tz\n"), 3072}, {[]byte("k,v\n1,2\n3,4\n"), 3072}, {[]byte("k\tv\n1\t2\n3\t4\n"), 3072},
		{[]byte("x,y,z\n1,2\n" + strings.Repeat("7,8,9\n", 700)), 3072}, {[]byte("h1\th2\n1\n" + strings.Repeat("a\tb\n", 900)), 0},
	}
	aborters := []int{2, 3, 11, 14} // indices above: parses / reads that end early
	// parses abandoned with a long path on the scanner's stack, and a document nested beyond the depth cap examined in
	// full: the cap is the same before and after any of them
	inputs = append(inputs, c04in{[]byte(strings.Repeat("[", 5000) + strings.Repeat("]", 5000)), 0}, c04in{[]byte(strings.Repeat("{\"k\":", 200)), 3072},
		c04in{[]byte(strings.Repeat("[", 200)), 3072}, c04in{[]byte(strings.Repeat("{\"k\":[", 2100) + "1" + strings.Repeat("]}", 2100)), 0})
	aborters = append(aborters, len(inputs)-4, len(inputs)-3, len(inputs)-2, len(inputs)-1)
	// inputs whose lines never reach a token (empty, white space only): nothing of an earlier parse may stand in
	inputs = append(inputs, c04in{[]byte("\n1\n2\n"), 3072}, c04in{[]byte("{\"a\":1}\n \n{\"b\":2}\n"), 3072}, c04in{[]byte("\n\n"), 3072}, c04in{[]byte(" \n[1]\n{\"a\":2}\n"), 0},
		c04in{[]byte("1"), 3072}, c04in{[]byte("\"s\""), 3072}, c04in{[]byte("{}"), 3072}, c04in{[]byte("[[],{}]"), 3072})
	for i := range inputs {
		if bytes.HasPrefix(inputs[i].data, []byte("a,b\tc\n1\n")) || bytes.HasPrefix(inputs[i].data, []byte("x,y,z\n1,2\n")) || bytes.HasPrefix(inputs[i].data, []byte("h1\th2\n1\n")) {
			aborters = append(aborters, i)
		}
	}
	nFixed := len(inputs)
	for i := 0; i < 12; i++ {
		d := []byte((&jgen{c}).doc())
		inputs = append(inputs, c04in{d, 3072}, c04in{d, uint32(1 + r.Intn(len(d)))})
	}
	// reference: every (input, limit) detected alone in a fresh process
	ref := make([]string, len(inputs))
	var wg sync.WaitGroup
	sem := make(chan struct{}, 16)
	for i := range inputs {
		wg.Add(1)
		go func(i int) {
			defer wg.Done()
			sem <- struct{}{}
			defer func() { <-sem }()
			out, err := exec.Command(self, "c04-ref", hx(inputs[i].data), strconv.Itoa(int(inputs[i].limit))).Output()
			if err != nil {
				ref[i] = "CHILD-ERROR"
				return
			}
			ref[i] = strings.TrimSpace(string(out))
		}(i)
	}
	wg.Wait()
	check := func(i int, where string) {
		in := inputs[i]
		buf := make([]byte, len(in.data), len(in.data)+32)
		copy(buf, in.data)
		for k := len(in.data); k < cap(buf); k++ {
			buf[:cap(buf)][k] = 0xA5
		}
		before := sha256.Sum256(buf[:cap(buf)])
		m, pan := detectAt(buf, in.limit)
		got := "PANIC"
		if pan == nil && m != nil {
			got = chainFull(m)
		}
		after := sha256.Sum256(buf[:cap(buf)])
		c.stats.Evaluations++
		if got != ref[i] {
			c.propfail("C04", fmt.Sprintf("result depends on the history (%s): alone in a fresh process %q, now %q; limit=%d input=%s", where, ref[i], got, in.limit, hx(in.data[:min(len(in.data), 80)])))
		}
		if before != after {
			c.propfail("C04", fmt.Sprintf("the caller's buffer (or its spare capacity) was modified (%s): limit=%d input=%s", where, in.limit, hx(in.data[:min(len(in.data), 80)])))
		}
	}
	rounds := 40
	if c.tier == "thorough" {
		rounds = 1500
	}
	// every early-ending detection followed by every other input, and sandwiched: t, a, t
	for _, a := range aborters {
		for t := 0; t < nFixed; t++ {
			check(t, fmt.Sprintf("before input #%d", a))
			check(a, "the early-ending input itself")
			check(t, fmt.Sprintf("right after the early-ending input #%d", a))
		}
	}
	// single-goroutine histories (the pool hands back the state the previous detection used)
	for h := 0; h < rounds; h++ {
		n := 2 + r.Intn(29)
		seq := make([]int, n)
		for k := range seq {
			seq[k] = r.Intn(len(inputs))
		}
		c.stats.note("history", []byte(fmt.Sprint(seq)), n, true)
		for k, i := range seq {
			if r.Intn(5) == 0 {
				mjson.VerifPutDirty(r.Intn(100000), [][]byte{[]byte("type"), {'['}, []byte("asset"), []byte("log")}[:r.Intn(5)], 1<<uint(r.Intn(8)), r.Intn(2) == 0)
			}
			check(i, fmt.Sprintf("step %d of history %v", k, seq))
		}
	}
	c.stats.sample(fmt.Sprintf("c04: %d single-goroutine histories of 2-30 detections over %d inputs (geojson/har/gltf, aborted deep parses, 9 kB documents, cut documents, wide and narrow CSV, ragged CSV, quoted CSV, NDJSON, HTML/XML with declared charsets), dirty recycled states injected at random; each result compared with the same detection alone in a fresh process; caller buffer + 32 bytes of spare capacity hashed before/after", rounds, len(inputs)))
	// across goroutines
	var wg2 sync.WaitGroup
	var mu sync.Mutex
	for g := 0; g < 8; g++ {
		wg2.Add(1)
		go func(g int) {
			defer wg2.Done()
			for k := 0; k < rounds*4; k++ {
				i := (g*7 + k*13) % len(inputs)
				in := inputs[i]
				if in.limit != 3072 {
					continue // SetLimit is global: concurrent goroutines use one limit
				}
				m, _ := detectAtNoSet(in.data)
				got := "NIL"
				if m != nil {
					got = chainFull(m)
				}
				if got != ref[i] {
					mu.Lock()
					c.propfail("C04", fmt.Sprintf("result depends on detections running on other goroutines: alone %q, now %q; input=%s", ref[i], got, hx(in.data[:min(len(in.data), 80)])))
					mu.Unlock()
				}
			}
		}(g)
	}
	detectAt(nil, 3072)
	wg2.Wait()
	// bytes past the limit never matter
	for i, in := range inputs {
		if in.limit == 0 || int(in.limit) >= len(in.data) {
			continue
		}
		y := append([]byte{}, in.data...)
		for k := int(in.limit); k < len(y); k++ {
			y[k] ^= 0xFF
		}
		m, _ := detectAt(y, in.limit)
		got := "NIL"
		if m != nil {
			got = chainFull(m)
		}
		c.stats.note("flip-past-limit", y, len(y), true)
		if got != ref[i] {
			c.propfail("C04", fmt.Sprintf("bytes beyond the limit change the result: %q vs %q; limit=%d input=%s", ref[i], got, in.limit, hx(in.data[:min(len(in.data), 80)])))
		}
	}
	pastLimit(c)
	// every kind of content (a positive of nearly every format): the caller's slice and its spare capacity are never
	// written, and the same slice examined again gives the same answer
	for _, sd := range allSeeds(c.rng, "/repo") {
		if len(sd.data) == 0 {
			continue
		}
		for _, lim := range []uint32{3072, 0} {
			buf := make([]byte, len(sd.data), len(sd.data)+32)
			copy(buf, sd.data)
			for k := len(sd.data); k < cap(buf); k++ {
				buf[:cap(buf)][k] = 0xA5
			}
			before := sha256.Sum256(buf[:cap(buf)])
			m1, p1 := detectAt(buf, lim)
			after := sha256.Sum256(buf[:cap(buf)])
			m2, p2 := detectAt(buf, lim)
			c.stats.note("seed-twice", append([]byte{byte(lim)}, sd.data...), len(sd.data), true)
			if before != after {
				c.propfail("C04", fmt.Sprintf("the caller's buffer (or its spare capacity) was modified by a detection: kind=%s limit=%d input=%s", sd.kind, lim, hx(sd.data[:min(len(sd.data), 80)])))
			}
			if p1 == nil && p2 == nil && m1 != nil && m2 != nil && chainFull(m1) != chainFull(m2) {
				c.propfail("C04", fmt.Sprintf("repeating a detection on the same slice changes the answer: %q then %q; kind=%s limit=%d input=%s", chainFull(m1), chainFull(m2), sd.kind, lim, hx(sd.data[:min(len(sd.data), 80)])))
			}
		}
	}
	// reader detections under changing limits (recycled read buffers): each must answer like Detect on its own header
	for i, sd := range allSeeds(c.rng, "/repo") {
		if i%5 == 0 && len(sd.data) > 0 {
			c.agree(sd.kind, sd.data, []uint32{16, 64, 512, 3072, 7}[i/5%5], i%40 == 0)
		}
	}
	c.emit("c04done", strconv.Itoa(int(c.stats.Evaluations)))
	_ = bufio.ScanLines
}

// bytes past the limit never matter: for header-mode documents and limits placed at every newline, quote, bracket and
// separator (and next to them), the result for the exact-capacity header must equal the result when arbitrary bytes
// follow in the caller's slice - the original tail, its inversion, NULs, newlines, quotes, closing brackets, a zip
// header.  (A detector that peeks into the spare capacity, or a reader that over-reads, shows up here.)
func pastLimit(c *runCtx) {
	docs := [][]byte{
		[]byte("a,b\n1,2\n3,4\n5,6\n7,8,9,10\n11,12\n"), []byte("a\tb\r\n1\t2\r\n3\t4\r\n5\t6\t7\r\n"),
		[]byte("{\"a\":1}\n{\"b\":[2]}\n{\"c\":3}\n{\"d\":\n"), []byte("[1,2,3]\n[4]\n\n[5,6\n"),
		[]byte(`{"type":"Feature","geometry":{"type":"Point","coordinates":[1,2]},"properties":{"a":"b\\"c"}}`),
		[]byte(`{"log":{"version":"1.2","creator":{"name":"x"},"entries":[{"t":1},{"t":2}]}}`),
		[]byte("<html><head><meta charset=\"koi8-r\"><title>t</title></head><body>x</body></html>"),
		[]byte("<?xml version=\"1.0\" encoding=\"iso-8859-2\"?>\n<rss><channel/></rss>\n"),
		[]byte("plain text with caf\xc3\xa9 and more caf\xc3\xa9 text\nsecond line\n"),
		[]byte("#!/usr/bin/env python\nprint('x')\n"), []byte("%PDF-1.4\n%\xe2\xe3\xcf\xd3\n1 0 obj\n"),
	}
	for i := 0; i < 4; i++ {
		docs = append(docs, []byte((&jgen{c}).doc()))
	}
	tails := func(orig []byte) [][]byte {
		inv := append([]byte{}, orig...)
		for k := range inv {
			inv[k] ^= 0xFF
		}
		rep := func(b byte) []byte { return []byte(strings.Repeat(string([]byte{b}), len(orig)+8)) }
		return [][]byte{orig, inv, rep(0), rep('\n'), rep('"'), rep(']'), rep('}'), rep(','), rep(' '), append([]byte("PK\x03\x04"), rep('A')...), []byte("\r\n\r\n"), {0x80}, {'\n'}}
	}
	for _, d := range docs {
		lims := map[int]bool{}
		for k, b := range d {
			if b == '\n' || b == '\r' || b == '"' || b == ',' || b == ']' || b == '}' || b == '[' || b == '{' || b == ':' || b == '>' || b >= 0x80 {
				for _, dk := range []int{-1, 0, 1} {
					if k+dk > 0 && k+dk < len(d) {
						lims[k+dk] = true
					}
				}
			}
		}
		for L := range lims {
			exact := make([]byte, L)
			copy(exact, d[:L])
			m0, _ := detectAt(exact, uint32(L))
			want := "NIL"
			if m0 != nil {
				want = chainFull(m0)
			}
			for ti, t := range tails(d[L:]) {
				y := append(append(make([]byte, 0, L+len(t)+32), d[:L]...), t...)
				m, _ := detectAt(y, uint32(L))
				got := "NIL"
				if m != nil {
					got = chainFull(m)
				}
				c.stats.note("past-limit", append([]byte{byte(ti)}, y...), len(y), true)
				if got != want {
					c.propfail("C04", fmt.Sprintf("bytes beyond the limit change the result: header alone %q, followed by tail #%d (%s...) %q; limit=%d header=%s", want, ti, hx(t[:min(len(t), 8)]), got, L, hx(d[:L])))
				}
				// the same header through a reader: what follows must not be consumed into the decision either
				mimetype.SetLimit(uint32(L))
				mr, err := mimetype.DetectReader(bytes.NewReader(y))
				if err == nil && mr != nil && chainFull(mr) != want {
					c.propfail("C04", fmt.Sprintf("bytes beyond the limit change the result of DetectReader: header alone %q, with tail #%d %q; limit=%d header=%s", want, ti, chainFull(mr), L, hx(d[:L])))
				}
			}
		}
	}
	mimetype.SetLimit(3072)
}

func init() {
	commands["c04-ref"] = cmdC04Ref
	commands["run-c04"] = func(args []string) {
		c := parseRunArgs(args)
		if c.shard == 0 {
			runC04(c)
		} else {
			c.emit("c04done", "0")
		}
		c.finish()
	}
}
