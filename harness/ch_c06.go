package main

// C06: concurrent use. `c06-seq` prints the sequential oracle (result of every probe under every tree
// version and limit); `run-c06` executes the same writers concurrently with readers (built with -race)
// and checks that every result is one the sequential execution produces for some version and limit.

import (
	"time"
	"bytes"
	"fmt"
	"os"
	"os/exec"
	"strconv"
	"strings"
	"sync"

	"github.com/gabriel-vasile/mimetype"
)

type extOp struct {
	parent  string // "" = package level Extend; else Lookup(parent).Extend
	mime    string
	ext     string
	prefix  string
	aliases []string
	acap    int
}

var c06Ops = []extOp{
	{"", "application/x-verif-a", ".va", "VERIFA", []string{"application/x-verif-a-alias"}, 8},
	{"text/plain", "text/x-verif-b", ".vb", "verifb:", []string{"text/x-verif-b1", "text/x-verif-b2"}, 2},
	{"application/zip", "application/x-verif-c", ".vc", "PK\x03\x04VC", nil, 0},
	{"application/x-verif-a", "application/x-verif-d", ".vd", "VERIFAD", []string{"application/x-verif-d-alias"}, 2},
	{"", "application/x-verif-e", ".ve", "%PDF-VE", []string{"a/e1", "a/e2", "a/e3"}, 8},
	{"application/json", "application/x-verif-f", ".vf", "{\"verif\"", []string{"a/f1"}, 4},
}
var c06Limits = []uint32{3072, 8, 0, 64}
var c06Probes = [][]byte{
	[]byte("VERIFA rest"), []byte("VERIFAD rest"), []byte("verifb: hello"), []byte("PK\x03\x04VC...."), []byte("%PDF-VE 1.4"), []byte("%PDF-1.4"),
	[]byte("{\"verif\":1}"), []byte("{\"a\":1}"), []byte("plain text that is long enough to be cut by the limit 8"), {0x89, 'P', 'N', 'G', 0x0D, 0x0A, 0x1A, 0x0A, 0, 0},
	[]byte("<html><body>x</body></html>"), {}, []byte("a,b\n1,2\n3,4\n"),
	[]byte("{\"a\":1,\"b\":2,\"c\":[1,2,3]}"), []byte("a,b,c\n1,2,3\n4,5,6\n7,8,9\n10,11,12\n"), []byte("{\"a\":1}\n{\"b\":2}\n{\"c\":3}\n{\"d\":4}\n"),
	[]byte("[1,2,3,4,5,6,7,8,9,10,11,12,13,14,15,16,17,18,19,20,21,22,23,24,25,26,27,28,29,30,31,32]"),
	// scratch state shared through pools: parses that abort deep inside nested containers, followed (on whichever
	// goroutine gets the recycled state) by documents whose verdict depends on the key path and on the CSV reader
	[]byte("{\"log\":{\"pages\":[{\"id\":1,"), []byte("{\"a\":{\"b\":{\"c\":[[[{\"d\":"), []byte("{\"type\":\"Point\",\"coordinates\":[102.0,0.5]}"),
	[]byte("{\"log\":{\"version\":\"1.2\",\"entries\":[]}}"), []byte("{\"asset\":{\"version\":\"2.0\"},\"scenes\":[]}"),
	[]byte("a,b\tc\n1\np,q,r,s\n"), []byte("k,v\n1,2\n3,4\n"), []byte("k\tv\n1\t2\n3\t4\n"),
	// verdicts that depend on every flag of the recycled scanner state being reset: a lone opener (not JSON when the
	// whole input was examined), openers behind white space, a stream whose last line is a lone opener, complete
	// documents in between (they leave `complete` / `firstToken` / the path behind)
	[]byte("{"), []byte("["), []byte(" \n{"), []byte("{\"a\":1}\n{\n"), []byte("{}"), []byte("[1,2,3]"), []byte("1"), []byte("\"s\""), []byte("[\n"),
	// lines that never reach a token (empty, white space only) between and in front of values
	[]byte("\n1\n2\n"), []byte("{\"a\":1}\n \n{\"b\":2}\n"), []byte("\n\n"), []byte(" \n[1]\n{\"a\":2}\n"), []byte("\n{\"a\":1}\n"),
}
var c06Names = []string{"application/x-verif-a", "application/x-verif-a-alias", "text/x-verif-b2", "application/x-verif-d-alias", "a/e3", "a/f1", "application/zip", "text/plain", "application/json", "nope/nope"}

func applyOp(o extOp) {
	p := o.prefix
	det := func(raw []byte, limit uint32) bool { return bytes.HasPrefix(raw, []byte(p)) }
	var al []string
	if o.aliases != nil {
		al = make([]string, len(o.aliases), o.acap) // caller-owned slice, possibly with spare capacity
		copy(al, o.aliases)
	}
	if o.parent == "" {
		mimetype.Extend(det, o.mime, o.ext, al...)
	} else {
		mimetype.Lookup(o.parent).Extend(det, o.mime, o.ext, al...)
	}
}

func resString(m *mimetype.MIME) string {
	if m == nil {
		return "NIL"
	}
	return chainFull(m)
}

func chainFull(m *mimetype.MIME) string {
	var parts []string
	for p := m; p != nil; p = p.Parent() {
		parts = append(parts, p.String()+"|"+p.Extension())
	}
	return strings.Join(parts, ";")
}

func lookupString(name string) string {
	m := mimetype.Lookup(name)
	if m == nil {
		return "NIL"
	}
	par := "-"
	if m.Parent() != nil {
		par = m.Parent().String()
	}
	return m.String() + "|" + m.Extension() + "|" + par + "|" + fmt.Sprint(m.Is(name))
}

// sequential oracle: for every version (number of ops applied) and limit, the result of every probe - each one
// computed in a process of its own (a fresh pool, no earlier detection), so that state leaking between
// detections cannot enter the table
func cmdC06One(args []string) {
	v, _ := strconv.Atoi(args[0])
	l, _ := strconv.Atoi(args[1])
	pi, _ := strconv.Atoi(args[2])
	for k := 0; k < v; k++ {
		applyOp(c06Ops[k])
	}
	mimetype.SetLimit(uint32(l))
	p := c06Probes[pi]
	if args[3] == "D" {
		fmt.Printf("D\t%d\t%d\t%s\n", pi, l, resString(mimetype.Detect(p)))
		return
	}
	r, err := mimetype.DetectReader(bytes.NewReader(p))
	if err != nil {
		fmt.Printf("D\t%d\t%d\tERR\n", pi, l)
	} else {
		fmt.Printf("D\t%d\t%d\t%s\n", pi, l, resString(r))
	}
}

func cmdC06Seq(args []string) {
	self, _ := os.Executable()
	var mu sync.Mutex
	var wg sync.WaitGroup
	sem := make(chan struct{}, 16)
	lines := map[string]bool{}
	for v := 0; v <= len(c06Ops); v++ {
		for _, l := range c06Limits {
			for pi := range c06Probes {
				for _, mode := range []string{"D", "R"} {
					wg.Add(1)
					sem <- struct{}{}
					go func(v int, l uint32, pi int, mode string) {
						defer wg.Done()
						defer func() { <-sem }()
						out, err := exec.Command(self, "c06-one", strconv.Itoa(v), strconv.Itoa(int(l)), strconv.Itoa(pi), mode).Output()
						mu.Lock()
						if err != nil {
							lines[fmt.Sprintf("!oracle-child-failed\t%d\t%d\t%d\t%v", v, l, pi, err)] = true
						} else {
							lines[strings.TrimSpace(string(out))] = true
						}
						mu.Unlock()
					}(v, l, pi, mode)
				}
			}
		}
	}
	wg.Wait()
	for ln := range lines {
		fmt.Println(ln)
	}
	// Lookup results per version (no scratch state involved): one sequential pass
	for v := 0; v <= len(c06Ops); v++ {
		if v > 0 {
			applyOp(c06Ops[v-1])
		}
		for ni, n := range c06Names {
			fmt.Printf("L\t%d\t%s\n", ni, lookupString(n))
		}
	}
}

func cmdRunC06(args []string) {
	c := parseRunArgs(args)
	oracle := map[string]bool{}
	// the oracle table is produced by a fresh sequential process: path given after the property id
	tbl := ""
	for i, a := range args {
		if a == "--oracle" && i+1 < len(args) {
			tbl = args[i+1]
		}
	}
	data, err := os.ReadFile(tbl)
	if err != nil {
		fmt.Println("!propfail\tC06\tharness: no sequential oracle")
		os.Exit(2)
	}
	oracleFixed := map[string]bool{} // results at the default limit only (phase with no SetLimit caller)
	for _, line := range strings.Split(string(data), "\n") {
		if line == "" {
			continue
		}
		f := strings.SplitN(line, "\t", 4)
		if f[0] == "D" && len(f) == 4 {
			oracle["D\t"+f[1]+"\t"+f[3]] = true
			if f[2] == "3072" {
				oracleFixed["D\t"+f[1]+"\t"+f[3]] = true
			}
		} else {
			oracle[line] = true
			oracleFixed[line] = true
		}
	}
	rounds := 300
	if c.tier == "thorough" {
		rounds = 6000
	}
	var wg sync.WaitGroup
	var mu sync.Mutex
	bad := map[string]bool{}
	var nres int64
	check := func(kind string, idx int, got string) {
		key := fmt.Sprintf("%s\t%d\t%s", kind, idx, got)
		mu.Lock()
		nres++
		if !oracle[key] {
			bad[key] = true
		}
		mu.Unlock()
	}
	// phase 0: the limit stays at its default (nobody calls SetLimit), readers run against each other only: every
	// result must be the one the sequential execution returns at that limit - a result that is legitimate only
	// under some other limit is a failure here (scratch state leaking between detections shows up this way)
	mimetype.SetLimit(3072)
	var wg0 sync.WaitGroup
	for g := 0; g < 6; g++ {
		wg0.Add(1)
		go func(g int) {
			defer wg0.Done()
			for i := 0; i < rounds; i++ {
				pi := (i*(1+g%3) + g) % len(c06Probes)
				var got string
				if g%2 == 0 {
					got = resString(mimetype.Detect(c06Probes[pi]))
				} else if m, err := mimetype.DetectReader(bytes.NewReader(c06Probes[pi])); err != nil {
					got = "ERR"
				} else {
					got = resString(m)
				}
				key := fmt.Sprintf("D\t%d\t%s", pi, got)
				mu.Lock()
				nres++
				if !oracleFixed[key] {
					bad["(limit fixed at 3072) "+key] = true
				}
				mu.Unlock()
			}
		}(g)
	}
	wg0.Wait()
	start := make(chan struct{})
	// writers
	wg.Add(2)
	go func() {
		defer wg.Done()
		<-start
		for _, o := range c06Ops {
			applyOp(o)
			for i := 0; i < rounds/len(c06Ops); i++ {
				mimetype.Lookup("text/plain")
			}
		}
	}()
	go func() {
		defer wg.Done()
		<-start
		for i := 0; i < rounds; i++ {
			mimetype.SetLimit(c06Limits[i%len(c06Limits)])
		}
	}()
	// a second limit writer: any number of goroutines may call SetLimit (also with the value already in force)
	wg.Add(1)
	go func() {
		defer wg.Done()
		<-start
		for i := 0; i < rounds; i++ {
			mimetype.SetLimit(c06Limits[(i/2)%len(c06Limits)])
		}
	}()
	// results shared between goroutines: a fresh result is handed to four goroutines that call its accessors at once
	// (first use included); every one of them must see the finished value
	wg.Add(1)
	go func() {
		defer wg.Done()
		<-start
		for i := 0; i < rounds/2; i++ {
			pi := i % len(c06Probes)
			var m *mimetype.MIME
			if i%2 == 0 {
				m = mimetype.Detect(c06Probes[pi])
			} else {
				m, _ = mimetype.DetectReader(bytes.NewReader(c06Probes[pi]))
			}
			if m == nil {
				continue
			}
			var sw sync.WaitGroup
			seen := make([]string, 4)
			for a := 0; a < 4; a++ {
				sw.Add(1)
				go func(a int) {
					defer sw.Done()
					s := m.String()
					_ = m.Is(s)
					_ = m.Extension()
					if p := m.Parent(); p != nil {
						_ = p.String()
					}
					seen[a] = resString(m)
				}(a)
			}
			sw.Wait()
			for a := 1; a < 4; a++ {
				if seen[a] != seen[0] || seen[a] == "" {
					mu.Lock()
					bad[fmt.Sprintf("(one result read by four goroutines) probe %d: %q vs %q", pi, seen[0], seen[a])] = true
					mu.Unlock()
				}
			}
			check("D", pi, seen[0])
		}
	}()
	// concurrent Extend calls on one node by several goroutines: formats nobody probes for (never matching),
	// so the sequential oracle is unaffected, but every one of them must be found afterwards
	var extra []string
	for w := 0; w < 4; w++ {
		for k := 0; k < 6; k++ {
			extra = append(extra, fmt.Sprintf("application/x-verif-extra-%d-%d", w, k))
		}
	}
	for w := 0; w < 4; w++ {
		wg.Add(1)
		go func(w int) {
			defer wg.Done()
			<-start
			for k := 0; k < 6; k++ {
				mimetype.Lookup("application/pdf").Extend(func([]byte, uint32) bool { return false }, extra[w*6+k], ".vx")
			}
		}(w)
	}
	// readers
	for g := 0; g < 6; g++ {
		wg.Add(1)
		go func(g int) {
			defer wg.Done()
			<-start
			for i := 0; i < rounds; i++ {
				pi := (i + g) % len(c06Probes)
				switch g % 3 {
				case 0:
					m := mimetype.Detect(c06Probes[pi])
					_ = m.Is(m.String())
					check("D", pi, resString(m))
				case 1:
					m, err := mimetype.DetectReader(bytes.NewReader(c06Probes[pi]))
					if err != nil {
						check("D", pi, "ERR")
					} else {
						check("D", pi, resString(m))
					}
				default:
					ni := (i + g) % len(c06Names)
					check("L", ni, lookupString(c06Names[ni]))
				}
			}
		}(g)
	}
	close(start)
	wg.Wait()
	c.stats.Evaluations = nres
	c.stats.Distinct = int64(len(oracle))
	c.stats.DistinctNontriv = int64(len(oracle))
	c.stats.Extra["goroutines"] = 8
	c.stats.Extra["rounds"] = rounds
	c.stats.sample(fmt.Sprintf("c06: 6 reader goroutines (Detect, DetectReader, Lookup+accessors) x %d rounds against 2 writers (6 Extend calls with caller-owned alias slices of spare capacity; SetLimit cycling %v); %d results checked against the sequential oracle of %d entries", rounds, c06Limits, nres, len(oracle)))
	for _, n := range extra {
		if m := mimetype.Lookup(n); m == nil || m.Parent() == nil || m.Parent().String() != "application/pdf" {
			c.propfail("C06", "an extension registered concurrently with other Extend calls on the same node is lost: "+n)
		}
	}
	for k := range bad {
		c.propfail("C06", "result under concurrency is not one a sequential execution produces for any version/limit: "+strings.ReplaceAll(k, "\t", " "))
	}
	if f := limitStress(800 * time.Millisecond); f != "" {
		c.propfail("C06", f)
	}
	c.emit("c06done", fmt.Sprint(nres))
	c.finish()
}

func init() {
	commands["c06-seq"] = cmdC06Seq
	commands["c06-one"] = cmdC06One
	commands["run-c06"] = cmdRunC06
}
