package main

// Seed inputs for the detector-level channels: one positive per signature derived from the
// literals of /repo's sources, the repository's testdata files, and structured documents
// produced by standard writers.

import (
	"archive/tar"
	"archive/zip"
	"bytes"
	"encoding/binary"
	"fmt"
	"go/ast"
	"go/parser"
	"go/token"
	"strconv"
	"math/rand"
	"os"
	"path/filepath"
	"sort"
	"strings"
)

type seed struct {
	kind string
	data []byte
}

func randBytes(r *rand.Rand, n int) []byte {
	b := make([]byte, n)
	for i := range b {
		b[i] = byte(r.Intn(256))
	}
	return b
}

func randText(r *rand.Rand, n int) []byte {
	const al = "abcdefghijklmnopqrstuvwxyz ABCDEFGHIJKLMNOPQRSTUVWXYZ0123456789\n\t,.;:{}[]\"'<>/=-_"
	b := make([]byte, n)
	for i := range b {
		b[i] = al[r.Intn(len(al))]
	}
	return b
}

func randCase(r *rand.Rand, s []byte) []byte {
	o := append([]byte{}, s...)
	for i, c := range o {
		if 'A' <= c && c <= 'Z' && r.Intn(2) == 0 {
			o[i] = c + 32
		}
	}
	return o
}

func cat(parts ...[]byte) []byte {
	var o []byte
	for _, p := range parts {
		o = append(o, p...)
	}
	return o
}

func sigSeeds(r *rand.Rand, repo string) []seed {
	sigs, lits, ints := parseMagic(repo)
	var names []string
	for n := range sigs {
		names = append(names, n)
	}
	sort.Strings(names)
	var out []seed
	ws := [][]byte{{}, {' '}, {'\n', '\t'}, {'\r', '\n', ' ', '\f'}}
	for _, n := range names {
		sd := sigs[n]
		tail := randBytes(r, 40)
		switch sd.kind {
		case "Prefix":
			for _, s := range sd.sigs {
				out = append(out, seed{"sig:" + n, cat(s, tail)})
			}
		case "Offset":
			out = append(out, seed{"sig:" + n, cat(randBytes(r, int(sd.off)), sd.sigs[0], tail)})
			out = append(out, seed{"sig:" + n, cat(make([]byte, int(sd.off)), sd.sigs[0])})
		case "CiPrefix":
			for _, s := range sd.sigs {
				out = append(out, seed{"sig:" + n, cat(randCase(r, s), []byte("x"), randText(r, 30))})
			}
		case "Markup":
			for i, s := range sd.sigs {
				pre := ws[i%len(ws)]
				if i%3 == 1 {
					pre = cat([]byte{0xEF, 0xBB, 0xBF}, pre)
				}
				end := []byte{' '}
				if i%2 == 0 {
					end = []byte{'>'}
				}
				out = append(out, seed{"sig:" + n, cat(pre, randCase(r, s), end, randText(r, 60))})
			}
		case "Ftyp":
			for _, s := range sd.sigs {
				out = append(out, seed{"sig:" + n, cat([]byte{0, 0, 0, 0x18}, []byte("ftyp"), s, tail)})
			}
		case "Jpeg2k":
			out = append(out, seed{"sig:" + n, cat([]byte{0, 0, 0, 12}, []byte("jP  "), []byte{13, 10, 0x87, 10, 0, 0, 0, 0x14, 'f', 't', 'y', 'p'}, sd.sigs[0], tail)})
			out = append(out, seed{"sig:" + n, cat([]byte{0, 0, 0, 12}, []byte("jP2 "), randBytes(r, 12), sd.sigs[0])})
		case "Shebang":
			for i, s := range sd.sigs {
				out = append(out, seed{"sig:" + n, cat([]byte("#!"), ws[i%2], s, ws[(i+1)%2], []byte("\nprint 1\n"))})
			}
		case "Xml":
			for i, x := range sd.xml {
				doc := cat(ws[i%len(ws)], []byte("<?xml version=\"1.0\" encoding=\"UTF-8\"?>\n"), x[0])
				if len(x[0]) == 0 {
					doc = cat(doc, []byte("<root"))
				}
				doc = cat(doc, []byte(" "), x[1], []byte(" a=\"b\">text</x>"))
				out = append(out, seed{"sig:" + n, doc})
			}
		case "Func":
			ls := lits[n]
			is := ints[n]
			offs := []int{0}
			size := 64
			for _, v := range is {
				if v >= 0 && v <= 8192 {
					offs = append(offs, int(v))
					if int(v)+48 > size {
						size = int(v) + 48
					}
				}
			}
			for variant := 0; variant < 4; variant++ {
				var buf []byte
				if variant%2 == 0 {
					buf = make([]byte, size)
				} else {
					buf = randBytes(r, size)
				}
				if len(ls) > 0 {
					// paste a few literals at offsets taken from the function's integer constants
					perm := r.Perm(len(ls))
					for k := 0; k < len(perm) && k < 3; k++ {
						l := ls[perm[k]]
						o := offs[r.Intn(len(offs))]
						if variant == 0 && k == 0 {
							o = 0
						}
						if o+len(l) <= len(buf) {
							copy(buf[o:], l)
						}
					}
				}
				out = append(out, seed{"func:" + n, buf})
			}
		}
	}
	return out
}

func fileSeeds(repo string) []seed {
	var out []seed
	ents, _ := os.ReadDir(filepath.Join(repo, "testdata"))
	for _, e := range ents {
		b, err := os.ReadFile(filepath.Join(repo, "testdata", e.Name()))
		if err == nil {
			if len(b) > 8192 {
				b = b[:8192]
			}
			out = append(out, seed{"file:" + e.Name(), b})
		}
	}
	return out
}

func mkTar(r *rand.Rand, format tar.Format, name string, body []byte) []byte {
	var buf bytes.Buffer
	w := tar.NewWriter(&buf)
	h := &tar.Header{Name: name, Mode: int64(r.Intn(0o7777)), Uid: r.Intn(70000), Gid: r.Intn(70000), Size: int64(len(body)), Typeflag: tar.TypeReg, Format: format}
	if err := w.WriteHeader(h); err != nil {
		return nil
	}
	w.Write(body)
	w.Close()
	return buf.Bytes()
}

type zipEntry struct {
	name    string
	body    []byte
	deflate bool
}

func mkZip(entries []zipEntry) []byte {
	var buf bytes.Buffer
	w := zip.NewWriter(&buf)
	for _, e := range entries {
		m := zip.Store
		if e.deflate {
			m = zip.Deflate
		}
		f, err := w.CreateHeader(&zip.FileHeader{Name: e.name, Method: m})
		if err != nil {
			continue
		}
		f.Write(e.body)
	}
	w.Close()
	return buf.Bytes()
}

// mkOle builds a compound-file-looking buffer whose root CLSID sits where matchOleClsid looks.
func mkOle(clsid []byte, v4 bool, firstSec uint32, extra int) []byte {
	sector := 512
	if v4 {
		sector = 4096
	}
	off := sector*(1+int(firstSec)) + 80
	buf := make([]byte, off+len(clsid)+extra)
	copy(buf, []byte{0xD0, 0xCF, 0x11, 0xE0, 0xA1, 0xB1, 0x1A, 0xE1})
	if v4 {
		buf[26], buf[27] = 4, 0
	} else {
		buf[26], buf[27] = 3, 0
	}
	binary.LittleEndian.PutUint32(buf[48:], firstSec)
	copy(buf[off:], clsid)
	return buf
}

func structuredSeeds(r *rand.Rand) []seed {
	var out []seed
	add := func(k string, b []byte) {
		if b != nil {
			out = append(out, seed{k, b})
		}
	}
	// tar
	for _, f := range []tar.Format{tar.FormatUSTAR, tar.FormatPAX, tar.FormatGNU} {
		add("gen:tar", mkTar(r, f, "dir/file-"+fmt.Sprint(r.Intn(1000))+".txt", randText(r, 100)))
	}
	add("gen:tar", mkTar(r, tar.FormatPAX, "nöm-ünï/"+strings.Repeat("x", 120), []byte("abc")))
	// zip families
	ct := zipEntry{"[Content_Types].xml", []byte("<Types/>"), false}
	add("gen:zip", mkZip([]zipEntry{{"a.txt", []byte("hello"), false}}))
	add("gen:docx", mkZip([]zipEntry{ct, {"_rels/.rels", randText(r, 80), true}, {"word/document.xml", randText(r, 200), true}}))
	add("gen:xlsx", mkZip([]zipEntry{ct, {"docProps/app.xml", randText(r, 80), false}, {"xl/workbook.xml", randText(r, 100), false}}))
	add("gen:pptx", mkZip([]zipEntry{ct, {"ppt/presentation.xml", randText(r, 100), true}}))
	add("gen:jar", mkZip([]zipEntry{{"META-INF/MANIFEST.MF", []byte("Manifest-Version: 1.0\n"), false}, {"A.class", randBytes(r, 60), true}}))
	add("gen:apk", mkZip([]zipEntry{{"AndroidManifest.xml", randBytes(r, 60), true}, {"classes.dex", randBytes(r, 60), true}}))
	add("gen:apkjar", mkZip([]zipEntry{{"META-INF/MANIFEST.MF", []byte("Manifest-Version: 1.0\n"), false}, {"classes.dex", randBytes(r, 60), false}}))
	for _, mt := range []string{"application/vnd.oasis.opendocument.text", "application/vnd.oasis.opendocument.text-template", "application/epub+zip",
		"application/vnd.oasis.opendocument.spreadsheet", "application/vnd.oasis.opendocument.graphics-template", "application/vnd.sun.xml.calc"} {
		add("gen:odf", mkZip([]zipEntry{{"mimetype", []byte(mt), false}, {"content.xml", randText(r, 50), true}}))
	}
	add("gen:crx", cat([]byte("Cr24"), []byte{2, 0, 0, 0, 4, 0, 0, 0, 3, 0, 0, 0}, randBytes(r, 7), mkZip([]zipEntry{{"manifest.json", []byte("{}"), false}})))
	// Chrome extension headers with the zip signature stamped at every offset an arithmetic slip could look at:
	// 16, 16+key, 16+sig, 16+key+sig - alone and in pairs (the real payload offset is the last one)
	for _, ks := range [][2]int{{294, 128}, {20, 8}, {8, 20}, {0, 12}, {12, 0}, {300, 300}} {
		key, sg := ks[0], ks[1]
		offs := []int{16, 16 + key, 16 + sg, 16 + key + sg}
		for mask := 1; mask < 16; mask++ {
			h := cat([]byte("Cr24"), []byte{2, 0, 0, 0}, le32(uint32(key)), le32(uint32(sg)), bytes.Repeat([]byte{0x41}, key+sg+40))
			for bi, o := range offs {
				if mask&(1<<bi) != 0 && o+4 <= len(h) {
					copy(h[o:], "PK\x03\x04")
				}
			}
			add("gen:crx-layout", h)
		}
	}
	// the fat magic shared by Java class files and Mach-O fat binaries, with every kind of eighth byte
	for _, b7 := range []byte{0x00, 0x01, 0x13, 0x14, 0x19, 0x1E, 0x1F, 0x20, 0x34, 0x41, 0xFF} {
		add("gen:cafebabe", []byte{0xCA, 0xFE, 0xBA, 0xBE, 0, 0, 0, b7, 0, 0x10, 0, 0, 0, 0, 0, 0})
	}
	// OLE
	clsids := map[string][]byte{
		"doc": {0x06, 0x09, 0x02, 0x00, 0x00, 0x00, 0x00, 0x00, 0xc0, 0x00, 0x00, 0x00, 0x00, 0x00, 0x00, 0x46},
		"xls": {0x10, 0x08, 0x02, 0x00, 0x00, 0x00, 0x00, 0x00},
		"ppt": {0x10, 0x8d, 0x81, 0x64, 0x9b, 0x4f, 0xcf, 0x11, 0x86, 0xea, 0x00, 0xaa, 0x00, 0xb9, 0x29, 0xe8},
		"msi": {0x84, 0x10, 0x0C, 0x00, 0x00, 0x00, 0x00, 0x00, 0xC0, 0x00, 0x00, 0x00, 0x00, 0x00, 0x00, 0x46},
		"msg": {0x0B, 0x0D, 0x02, 0x00, 0x00, 0x00, 0x00, 0x00, 0xC0, 0x00, 0x00, 0x00, 0x00, 0x00, 0x00, 0x46},
		"pub": {0x01, 0x12, 0x02, 0x00, 0x00, 0x00, 0x00, 0x00, 0x00, 0xC0, 0x00, 0x00, 0x00, 0x00, 0x00, 0x46},
	}
	var ck []string
	for k := range clsids {
		ck = append(ck, k)
	}
	sort.Strings(ck)
	for i, k := range ck {
		add("gen:ole-"+k, mkOle(clsids[k], i%2 == 1, uint32(i%3), 1+i))
	}
	ole := mkOle(make([]byte, 16), false, 3, 2000)
	copy(ole[512:], []byte{0xFD, 0xFF, 0xFF, 0xFF, 0x10})
	add("gen:ole-xls-sub", ole)
	ole2 := mkOle(make([]byte, 16), false, 3, 2000)
	copy(ole2[1300:], []byte("P\x00o\x00w\x00e\x00r\x00P\x00o\x00i\x00n\x00t\x00 D\x00o\x00c\x00u\x00m\x00e\x00n\x00t"))
	add("gen:ole-ppt-str", ole2)
	hugeSec := mkOle(make([]byte, 16), true, 0, 10)
	binary.LittleEndian.PutUint32(hugeSec[48:], 0xFFFFFFFF)
	add("gen:ole-hugesec", hugeSec)
	// matroska
	mk := cat([]byte{0x1A, 0x45, 0xDF, 0xA3, 0x9F}, []byte{0x42, 0x86, 0x81, 0x01}, []byte{0x42, 0x82, 0x88}, []byte("matroska"), randBytes(r, 20))
	add("gen:mkv", mk)
	add("gen:webm", cat([]byte{0x1A, 0x45, 0xDF, 0xA3, 0x01, 0, 0, 0, 0, 0, 0, 0x1F}, []byte{0x42, 0x82, 0x84}, []byte("webm"), randBytes(r, 10)))
	// zip with hostile compressed size
	hz := mkZip([]zipEntry{{"[Content_Types].xml", []byte("x"), false}, {"word/a", []byte("y"), false}})
	for _, v := range []uint32{0xFFFFFFF0, 0xFFFFFFCF, 0xFFFFFFCE, 0, 1 << 31} {
		h := append([]byte{}, hz...)
		binary.LittleEndian.PutUint32(h[18:], v)
		add("gen:zip-hostile", h)
	}
	// CRX with hostile lengths
	for _, pk := range [][2]uint32{{0xFFFFFFF0, 0x10}, {0xFFFFFFFF, 0xFFFFFFFF}, {0, 0}, {4, 0xFFFFFFEC}, {8, 8}} {
		h := cat([]byte("Cr24"), []byte{3, 0, 0, 0}, make([]byte, 8), []byte("PK\x03\x04rest"))
		binary.LittleEndian.PutUint32(h[8:], pk[0])
		binary.LittleEndian.PutUint32(h[12:], pk[1])
		add("gen:crx-hostile", h)
	}
	// text family
	add("gen:json", []byte(`{"a": [1, 2.5e3, true, null], "b": {"c": "dé\n"}}`))
	add("gen:geojson", []byte(`{"type":"Feature","geometry":{"type":"Point","coordinates":[1,2]}}`))
	add("gen:har", []byte(`{"log":{"version":"1.2","creator":{},"entries":[]}}`))
	add("gen:gltf", []byte(`{"asset":{"version":"2.0"},"scenes":[]}`))
	add("gen:ndjson", []byte("{\"a\":1}\n{\"b\":2}\n[3]\n"))
	add("gen:csv", []byte("a,b,c\n1,2,3\n4,5,6\n"))
	add("gen:tsv", []byte("a\tb\tc\r\n1\t2\t3\r\n4\t5\t6\r\n"))
	add("gen:html", []byte("<!DOCTYPE html><html><head><meta charset=\"iso-8859-2\"><title>x</title></head><body></body></html>"))
	add("gen:xml", []byte("<?xml version=\"1.0\" encoding=\"UTF-8\"?><rss version=\"2.0\"></rss>"))
	add("gen:svg", []byte("<svg xmlns=\"http://www.w3.org/2000/svg\"></svg>"))
	add("gen:srt", []byte("1\n00:02:16,612 --> 00:02:19,376\nHello\n\n"))
	add("gen:vtt", []byte("WEBVTT\n\n00:01.000 --> 00:04.000\nHi\n"))
	add("gen:rtf", []byte("{\\rtf1\\ansi hello}"))
	add("gen:php", []byte("<?php echo 1; ?>"))
	add("gen:vcard", []byte("BEGIN:VCARD\r\nVERSION:3.0\r\nEND:VCARD\r\n"))
	add("gen:text-utf8", []byte("Plain tëxt with ünicode — and more.\n"))
	add("gen:text-latin1", []byte("caf\xe9 cr\xe8me\n"))
	add("gen:text-bom16", cat([]byte{0xFF, 0xFE}, []byte("h\x00i\x00")))
	add("gen:text-bom32", cat([]byte{0xFF, 0xFE, 0, 0}, []byte("h\x00\x00\x00")))
	add("gen:text-ctrl", []byte("abc\x01def"))
	add("gen:empty", []byte{})
	// declared-charset documents, well-formed and malformed (the sniffers run on every text/html, text/xml result)
	frags := []string{"charset", "=", " ", "\"", "'", ";", "utf-8", "x", "text/html", "CHARSET", "\t", "charse", "encoding=", "encoding", "?", ">", "<"}
	for i := 0; i < 40; i++ {
		var fb strings.Builder
		for k := 1 + r.Intn(8); k > 0; k-- {
			fb.WriteString(frags[r.Intn(len(frags))])
		}
		f := fb.String()
		add("gen:html-meta-frag", []byte("<html><head><meta http-equiv=\"Content-Type\" content=\""+strings.ReplaceAll(f, "\"", "")+"\"></head><body>x</body></html>"))
		add("gen:html-meta-frag", []byte("<!DOCTYPE html><meta charset="+f+"><title>t</title>"))
		add("gen:xml-decl-frag", []byte("<?xml version=\"1.0\" "+f+"?><a/>"))
	}
	add("gen:html-meta-noeq", []byte("<html><meta http-equiv=\"Content-Type\" content=\"text/html; charset utf-8\"></html>"))
	add("gen:html-meta-noeq", []byte("<html><meta content=\"charset charset charset\" http-equiv=content-type></html>"))
	// tar archives with several members, special names later
	for _, second := range []string{"b.txt", "pkg/gpkg-1", "x/gpkg-1", "BM.bmp"} {
		var tb bytes.Buffer
		tw := tar.NewWriter(&tb)
		for _, nm := range []string{"first-member.txt", second, "third"} {
			body := randText(r, 20)
			tw.WriteHeader(&tar.Header{Name: nm, Mode: 0o644, Size: int64(len(body)), Typeflag: tar.TypeReg, Format: tar.FormatUSTAR})
			tw.Write(body)
		}
		tw.Close()
		add("gen:tar-multi", tb.Bytes())
	}
	for _, first := range []string{"BMW-manual.txt", "ID3-notes.txt", "GIF89a-sample", "MThd.bin", "%PDF-like.txt", "PK\x03\x04name"} {
		add("gen:tar-magic-name", mkTar(r, tar.FormatUSTAR, first, randText(r, 30)))
	}
	// OOXML packages that also carry JAR / APK marker names
	add("gen:docx+jar", mkZip([]zipEntry{ct, {"_rels/.rels", randText(r, 40), false}, {"META-INF/MANIFEST.MF", []byte("Manifest-Version: 1.0\n"), false}, {"word/document.xml", randText(r, 80), true}}))
	add("gen:xlsx+jar", mkZip([]zipEntry{ct, {"META-INF/MANIFEST.MF", []byte("Manifest-Version: 1.0\n"), false}, {"xl/workbook.xml", randText(r, 80), false}}))
	add("gen:pptx+apk", mkZip([]zipEntry{ct, {"_rels/.rels", randText(r, 40), false}, {"docProps/app.xml", randText(r, 40), false}, {"ppt/presentation.xml", randText(r, 80), true}, {"resources.arsc", randBytes(r, 40), false}}))
	add("gen:marc", cat([]byte("00714cam a2200205 a 4500"), []byte("001001300000"), []byte{0x1E}, randText(r, 30)))
	add("gen:ttf-ace", cat([]byte{0, 1, 0, 0}, []byte("Standard ACE DB"), randBytes(r, 10)))
	add("gen:ttf-jet", cat([]byte{0, 1, 0, 0}, []byte("Standard Jet DB"), randBytes(r, 10)))
	add("gen:ttf", cat([]byte{0, 1, 0, 0}, randBytes(r, 30)))
	return out
}

func allSeeds(r *rand.Rand, repo string) []seed {
	s := sigSeeds(r, repo)
	s = append(s, fileSeeds(repo)...)
	s = append(s, structuredSeeds(r)...)
	s = append(s, testLiteralSeeds(repo)...)
	s = append(s, witnessSeeds(repo)...)
	return s
}

// the samples the library's own tests are written with: every string literal of the *_test.go files that looks like
// data (the unit-test tables hold a positive for nearly every format, among them the function detectors that have no
// signature literal - dBase, MARC, shapefile ...), plus offset(n, "...") calls evaluated
var testLitCache []seed

func testLiteralSeeds(repo string) []seed {
	if testLitCache != nil {
		return testLitCache
	}
	seen := map[string]bool{}
	var out []seed
	add := func(b []byte) {
		if len(b) < 2 || len(b) > 4096 || seen[string(b)] {
			return
		}
		ascii := true
		for _, x := range b {
			if x < 0x20 || x > 0x7E {
				ascii = false
			}
		}
		if ascii && len(b) < 64 && !bytes.ContainsAny(b, "<{[%#\n") && (bytes.Count(b, []byte("/")) == 1 || !bytes.ContainsAny(b, " \\")) && !bytes.HasPrefix(b, []byte("PK")) {
			return // names, MIME types, messages
		}
		seen[string(b)] = true
		out = append(out, seed{"testlit", append([]byte{}, b...)})
	}
	files, _ := filepath.Glob(filepath.Join(repo, "*_test.go"))
	more, _ := filepath.Glob(filepath.Join(repo, "internal", "*", "*_test.go"))
	for _, f := range append(files, more...) {
		fset := token.NewFileSet()
		af, err := parser.ParseFile(fset, f, nil, 0)
		if err != nil {
			continue
		}
		ast.Inspect(af, func(n ast.Node) bool {
			switch x := n.(type) {
			case *ast.BasicLit:
				if x.Kind == token.STRING {
					if v, err := strconv.Unquote(x.Value); err == nil {
						add([]byte(v))
					}
				}
			case *ast.CallExpr:
				if id, ok := x.Fun.(*ast.Ident); ok && id.Name == "offset" && len(x.Args) == 2 {
					nl, ok1 := x.Args[0].(*ast.BasicLit)
					sl, ok2 := x.Args[1].(*ast.BasicLit)
					if ok1 && ok2 && sl.Kind == token.STRING {
						k, e1 := strconv.Atoi(nl.Value)
						v, e2 := strconv.Unquote(sl.Value)
						if e1 == nil && e2 == nil && k < 4096 {
							add(append(make([]byte, k), v...))
						}
					}
				}
			}
			return true
		})
	}
	sort.Slice(out, func(i, j int) bool { return string(out[i].data) < string(out[j].data) })
	testLitCache = out
	return out
}

// boundary lengths for truncation: every small length, then lengths around powers/constants
func cutPoints(n int, dense int) []int {
	seen := map[int]bool{}
	var out []int
	add := func(k int) {
		if k >= 0 && k <= n && !seen[k] {
			seen[k] = true
			out = append(out, k)
		}
	}
	for k := 0; k <= dense; k++ {
		add(k)
	}
	for _, c := range []int{60, 68, 100, 112, 128, 131, 132, 148, 156, 257, 263, 511, 512, 513, 519, 520, 521, 1151, 1152, 1153, 2047, 2048, 2049, 3071, 3072, 3073, 4095, 4096, 4097} {
		add(c - 1)
		add(c)
		add(c + 1)
	}
	add(n - 1)
	add(n)
	sort.Ints(out)
	return out
}

func le32(v uint32) []byte { return []byte{byte(v), byte(v >> 8), byte(v >> 16), byte(v >> 24)} }
