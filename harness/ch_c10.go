package main

import (
	stdjson "encoding/json"
	"fmt"
	"strconv"
	"strings"
)

// C10: objects built from arbitrary sibling members x positions of the deciding member x layouts x limits.

type member struct{ k, v string }

func (c *runCtx) c10Case(kind string, x []byte, limit uint32) {
	if !c.mine(x, []byte(strconv.Itoa(int(limit)))) {
		return
	}
	hdr := header(x, limit)
	m, pan := detectAt(x, limit)
	head := "PANIC"
	if pan == nil && m != nil {
		head = bareType(m.String()) + "|" + m.Extension()
	}
	c.stats.note(kind, append([]byte(strconv.Itoa(int(limit))+":"), hdr...), len(hdr), head != "application/json|.json")
	c.stats.Results[head]++
	c.emit("c10", hx(hdr), strconv.Itoa(int(limit)), head, kind)
	if c.stats.Evaluations%173 == 1 {
		c.stats.sample(fmt.Sprintf("c10 kind=%s limit=%d input=%q result=%s", kind, limit, string(hdr), head))
	}
}

func runC10(c *runCtx) {
	r := c.rng
	geo := []string{"Feature", "FeatureCollection", "Point", "LineString", "Polygon", "MultiPoint", "MultiLineString", "MultiPolygon", "GeometryCollection"}
	scalars := []string{`1`, `"x"`, `true`, `null`, `-2.5e3`, `"type"`, `"Feature"`, `""`, `"a,b"`, `"}"`}
	arrays := []string{`[]`, `[1]`, `[1,2,3]`, `["Feature"]`, `[[]]`, `[{"type":"Feature"}]`, `[{"version":"2.0"}]`, `[ ]`, `[null, {"a":[1]}]`}
	objects := []string{`{}`, `{"type":"Feature"}`, `{"log":{"version":1}}`, `{"version":"2.0"}`, `{"asset":{"version":"2.0"}}`, `{"a":[1],"b":{"c":[2]}}`, `{"x":{"type":"Point"}}`}
	keys := []string{"a", "b", "id", "Type", "types", "typ", "type ", "LOG", "logs", "assets", "version", "creator", "entries", "accessors", "x"}
	sibling := func() member {
		k := keys[r.Intn(len(keys))]
		switch r.Intn(3) {
		case 0:
			return member{k, scalars[r.Intn(len(scalars))]}
		case 1:
			return member{k, arrays[r.Intn(len(arrays))]}
		default:
			return member{k, objects[r.Intn(len(objects))]}
		}
	}
	deciders := []member{}
	for _, g := range geo {
		deciders = append(deciders, member{"type", `"` + g + `"`})
	}
	deciders = append(deciders,
		member{"log", `{"version":"1.2"}`}, member{"log", `{"creator":{"name":"x"}}`}, member{"log", `{"entries":[]}`}, member{"log", `{"pages":[],"entries":[{"a":[1]}]}`},
		member{"asset", `{"version":"2.0"}`}, member{"asset", `{"version":"1.0"}`}, member{"asset", `{"generator":"g","version":"2.0"}`}, member{"asset", `{"extras":[1],"version":"2.0"}`},
	)
	nearMiss := []member{
		{"type", `["Feature"]`}, {"type", `"feature"`}, {"type", `{"type":"Feature"}`}, {"type", `"Feature "`}, {"type", `1`}, {"Type", `"Feature"`},
		{"log", `[{"version":1}]`}, {"log", `{"x":{"version":1}}`}, {"log", `"version"`}, {"log", `{}`},
		{"type", `{"name":"Point"}`}, {"type", `{"a":{"b":"Feature"}}`}, {"asset", `{"version":{"min":"2.0"}}`}, {"asset", `{"version":["2.0"]}`}, {"log", `{"x":{"entries":[]}}`},
		{"asset", `{"version":2.0}`}, {"asset", `{"version":"3.0"}`}, {"asset", `[{"version":"2.0"}]`}, {"asset", `{"x":{"version":"2.0"}}`}, {"version", `"2.0"`},
	}
	ws := []string{"", " ", "\n  ", "\t", "\r\n", "\r", " \r\n\t"}
	render := func(ms []member, lay int) (string, []int) {
		// returns the text and, per member, the offset just past its value
		var sb strings.Builder
		w := func(i int) string {
			if lay == 0 {
				return ""
			}
			return ws[(lay+i)%len(ws)]
		}
		ends := make([]int, len(ms))
		sb.WriteString(w(0) + "{" + w(1))
		for i, m := range ms {
			if i > 0 {
				sb.WriteString("," + w(i))
			}
			sb.WriteString(`"` + m.k + `"` + w(i+2) + ":" + w(i+3) + m.v)
			ends[i] = sb.Len()
			sb.WriteString(w(i + 1))
		}
		sb.WriteString("}" + w(2))
		return sb.String(), ends
	}
	n := 1500
	if c.tier == "thorough" {
		n = 40000
	}
	for it := 0; it < n; it++ {
		ns := r.Intn(7)
		ms := make([]member, 0, ns+2)
		for i := 0; i < ns; i++ {
			ms = append(ms, sibling())
		}
		mode := r.Intn(11)
		pos := -1
		switch {
		case mode == 10: // the deciding key occurs twice: once with an accepted value, once with another one, in either order
			d := deciders[r.Intn(len(deciders))]
			var other []member
			for _, nm := range nearMiss {
				if nm.k == d.k {
					other = append(other, nm)
				}
			}
			other = append(other, member{d.k, scalars[r.Intn(len(scalars))]}, member{d.k, `"other"`}, member{d.k, `{}`})
			o := other[r.Intn(len(other))]
			p1 := r.Intn(len(ms) + 1)
			ms = append(ms[:p1], append([]member{d}, ms[p1:]...)...)
			p2 := r.Intn(len(ms) + 1)
			ms = append(ms[:p2], append([]member{o}, ms[p2:]...)...)
		case mode < 6: // one deciding member at a random position
			pos = r.Intn(len(ms) + 1)
			d := deciders[r.Intn(len(deciders))]
			ms = append(ms[:pos], append([]member{d}, ms[pos:]...)...)
		case mode < 8: // near miss only
			p := r.Intn(len(ms) + 1)
			ms = append(ms[:p], append([]member{nearMiss[r.Intn(len(nearMiss))]}, ms[p:]...)...)
		case mode < 9: // two deciders of different families (priority geo > har > gltf), duplicates
			d1, d2 := deciders[r.Intn(len(deciders))], deciders[r.Intn(len(deciders))]
			ms = append(ms, d1)
			ms = append([]member{d2}, ms...)
		}
		txt, ends := render(ms, r.Intn(8))
		x := []byte(txt)
		kind := "other"
		if stdjson.Valid(x) && !strings.Contains(txt, "<svg") {
			kind = "whole"
		}
		c.c10Case(kind, x, 0)
		c.c10Case(kind, x, uint32(len(x)+1))
		if it%3 == 0 {
			// the same object written on one line, with line breaks around it only (one line of a line-oriented format
			// to a careless reader, still a single document)
			flat, _ := render(ms, 0)
			for _, sur := range [][2]string{{"\n", ""}, {"", "\n\n"}, {"\r\n", "\r\n"}, {"\n\n", "\n"}, {" \n", "\n \n"}} {
				c.c10Case(kind, []byte(sur[0]+flat+sur[1]), 0)
			}
		}
		if pos >= 0 && pos < len(ends) {
			// cut right after the deciding member's value, and somewhere later
			c.c10Case("cut", x, uint32(ends[pos]))
			// ... and at every byte of the layout (white space, the comma) between this member and the next
			for k := ends[pos]; k < len(x) && strings.IndexByte(" \t\r\n,", x[k]) >= 0; k++ {
				c.c10Case("cut", x, uint32(k+1))
			}
			// ... and right after a later complete member (no member is cut in the middle, so no
			// potentially deciding member is partially inside the header)
			if pos+1 < len(ends) {
				c.c10Case("cut", x, uint32(ends[pos+1+r.Intn(len(ends)-pos-1)]))
			}
		}
	}
}

func init() {
	commands["run-c10"] = func(args []string) {
		c := parseRunArgs(args)
		runC10(c)
		c.finish()
	}
}
