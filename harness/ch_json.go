package main

import (
	stdjson "encoding/json"
	"fmt"
	"strconv"
	"strings"

	mjson "github.com/gabriel-vasile/mimetype/internal/json"
	"github.com/gabriel-vasile/mimetype/internal/magic"
)

var jsonAlphabet = []byte("[]{},:\"\\a1-.e tu0n")

func jbits(s []byte) byte {
	v := byte('0')
	if magic.JSON(s, 0) {
		v |= 1
	}
	if magic.JSON(s, uint32(len(s))) {
		v |= 2
	}
	return v
}

// exhaustive enumeration: every string over the alphabet up to length n, grouped by prefix
func runJSONExh(c *runCtx, n int) {
	al := jsonAlphabet
	var total, acceptedW, acceptedT int64
	emitGroup := func(prefix []byte, k int) {
		if !c.mine(prefix, []byte{byte(k)}) {
			return
		}
		cnt := 1
		for i := 0; i < k; i++ {
			cnt *= len(al)
		}
		bits := make([]byte, cnt)
		buf := make([]byte, len(prefix)+k)
		copy(buf, prefix)
		idx := make([]int, k)
		for j := 0; j < cnt; j++ {
			for t := 0; t < k; t++ {
				buf[len(prefix)+t] = al[idx[t]]
			}
			b := jbits(buf)
			bits[j] = b
			if b&1 != 0 {
				acceptedW++
			}
			if b&2 != 0 {
				acceptedT++
			}
			for t := k - 1; t >= 0; t-- {
				idx[t]++
				if idx[t] < len(al) {
					break
				}
				idx[t] = 0
			}
		}
		total += int64(cnt)
		c.emit("jexh", hx(al), hx(prefix), strconv.Itoa(k), string(bits))
	}
	for L := 0; L <= n; L++ {
		if L <= 3 {
			emitGroup(nil, L)
			continue
		}
		pl := L - 3
		pidx := make([]int, pl)
		pre := make([]byte, pl)
		for {
			for t := 0; t < pl; t++ {
				pre[t] = al[pidx[t]]
			}
			emitGroup(append([]byte{}, pre...), 3)
			t := pl - 1
			for ; t >= 0; t-- {
				pidx[t]++
				if pidx[t] < len(al) {
					break
				}
				pidx[t] = 0
			}
			if t < 0 {
				break
			}
		}
	}
	c.stats.Evaluations += total * 2
	c.stats.Distinct += total * 2
	c.stats.DistinctNontriv += acceptedW + acceptedT
	c.stats.Extra["exhaustive_max_len"] = n
	c.stats.Extra["alphabet"] = string(al)
	c.stats.Extra["strings"] = total
	c.stats.Extra["accepted_whole"] = acceptedW
	c.stats.Extra["accepted_truncated"] = acceptedT
	c.stats.sample(fmt.Sprintf("jexh: all %d strings over %q of length <= %d in this shard, whole (limit 0) and truncated (limit = len) mode; accepted whole=%d truncated=%d", total, string(al), n, acceptedW, acceptedT))
}

// ---- structured documents ---------------------------------------------------------------------

type jgen struct {
	c *runCtx
}

func (g *jgen) ws() string {
	r := g.c.rng
	switch r.Intn(6) {
	case 0:
		return " "
	case 1:
		return "\n\t"
	case 2:
		return "\r\n  "
	default:
		return ""
	}
}

func (g *jgen) str() string {
	r := g.c.rng
	pieces := []string{"a", "type", "Feature", ",", "}", "]", "{", "[", ":", " ", "\\\"", "\\\\", "\\/", "\\b", "\\f", "\\n", "\\r", "\\t", "\\u00e9", "\\uD83D\\uDE00", "é", "日本", "\x7f", "log", "version", "asset", "1.0", "2.0", "x y"}
	n := r.Intn(4)
	var sb strings.Builder
	sb.WriteByte('"')
	for i := 0; i < n; i++ {
		sb.WriteString(pieces[r.Intn(len(pieces))])
	}
	sb.WriteByte('"')
	return sb.String()
}

func (g *jgen) num() string {
	r := g.c.rng
	l := []string{"0", "-0", "1", "-12", "3.25", "1e5", "1E+5", "2.5e-3", "-0.1E10", "123456789012345678901234567890", "0.0"}
	return l[r.Intn(len(l))]
}

func (g *jgen) val(depth int) string {
	r := g.c.rng
	k := r.Intn(10)
	if depth <= 0 && k >= 6 {
		k = r.Intn(6)
	}
	switch k {
	case 0:
		return g.str()
	case 1:
		return g.num()
	case 2:
		return "true"
	case 3:
		return "false"
	case 4:
		return "null"
	case 5:
		return g.str()
	case 6, 7:
		return g.arr(depth - 1)
	default:
		return g.obj(depth - 1)
	}
}

func (g *jgen) arr(depth int) string {
	n := g.c.rng.Intn(4)
	var sb strings.Builder
	sb.WriteString("[" + g.ws())
	for i := 0; i < n; i++ {
		if i > 0 {
			sb.WriteString("," + g.ws())
		}
		sb.WriteString(g.val(depth) + g.ws())
	}
	sb.WriteString("]")
	return sb.String()
}

func (g *jgen) obj(depth int) string {
	n := g.c.rng.Intn(4)
	var sb strings.Builder
	sb.WriteString("{" + g.ws())
	for i := 0; i < n; i++ {
		if i > 0 {
			sb.WriteString("," + g.ws())
		}
		sb.WriteString(g.str() + g.ws() + ":" + g.ws() + g.val(depth) + g.ws())
	}
	sb.WriteString("}")
	return sb.String()
}

func (g *jgen) doc() string {
	d := 1 + g.c.rng.Intn(4)
	s := ""
	if g.c.rng.Intn(2) == 0 {
		s = g.arr(d)
	} else {
		s = g.obj(d)
	}
	return g.ws() + s + g.ws()
}

var queryNames = []string{mjson.QueryNone, mjson.QueryGeo, mjson.QueryHAR, mjson.QueryGLTF}
var queryKeys = []string{"none", "geo", "har", "gltf"}

// jsonCase: Parse with all four queries after putting dirty recycled states into the pool, and the four
// JSON-family detectors at the given limit.
func (c *runCtx) jsonCase(kind string, raw []byte, limit uint32) {
	if !c.mine(raw, []byte(strconv.Itoa(int(limit)))) {
		return
	}
	c.watch(fmt.Sprintf("json kind=%s limit=%d input=%s", kind, limit, hx(raw)))
	var obs []string
	for qi, q := range queryNames {
		// a recycled state as an earlier (possibly aborted) parse could have left it
		mjson.VerifPutDirty(c.rng.Intn(5000), [][]byte{[]byte("type"), {'['}, []byte("log")}[:c.rng.Intn(4)], 1<<uint(c.rng.Intn(8)), c.rng.Intn(2) == 0)
		p, i, ft, qs := mjson.Parse(q, raw)
		obs = append(obs, fmt.Sprintf("%s:%d,%d,%d,%v", queryKeys[qi], p, i, ft, qs))
	}
	dets := ""
	for _, f := range []func([]byte, uint32) bool{magic.JSON, magic.GeoJSON, magic.HAR, magic.GLTF, magic.NdJSON} {
		if f(raw, limit) {
			dets += "1"
		} else {
			dets += "0"
		}
	}
	c.started.Store(0)
	c.stats.note(kind, append([]byte(strconv.Itoa(int(limit))+":"), raw...), len(raw), dets != "00000")
	c.emit("json", hx(raw), strconv.Itoa(int(limit)), strings.Join(obs, ";"), dets, kind)
	if c.stats.Evaluations%211 == 1 {
		c.stats.sample(fmt.Sprintf("json kind=%s limit=%d input=%q parse=%s dets(JSON,Geo,HAR,GLTF,NdJSON)=%s", kind, limit, string(raw), strings.Join(obs, ";"), dets))
	}
}

func mutateTokens(c *runCtx, s string) string {
	r := c.rng
	b := []byte(s)
	if len(b) == 0 {
		return s
	}
	switch r.Intn(5) {
	case 0: // delete a byte
		p := r.Intn(len(b))
		return string(append(append([]byte{}, b[:p]...), b[p+1:]...))
	case 1: // duplicate a byte
		p := r.Intn(len(b))
		return string(append(append(append([]byte{}, b[:p+1]...), b[p]), b[p+1:]...))
	case 2: // swap two bytes
		p, q := r.Intn(len(b)), r.Intn(len(b))
		b[p], b[q] = b[q], b[p]
		return string(b)
	case 3: // replace by a structural byte
		b[r.Intn(len(b))] = "[]{},:\"\\"[r.Intn(8)]
		return string(b)
	default: // insert a structural byte
		p := r.Intn(len(b) + 1)
		return string(append(append(append([]byte{}, b[:p]...), "[]{},:\"\\ "[r.Intn(9)]), b[p:]...))
	}
}

func runJSONDocs(c *runCtx) {
	g := &jgen{c}
	nd := 250
	if c.tier == "thorough" {
		nd = 8000
	}
	fixed := []string{
		`{"type":"Feature"}`, `{"a":[1],"type":"Point"}`, `{"accessors":[1],"asset":{"version":"2.0"}}`, `{"log":{"x":[1],"version":1}}`,
		`[",x"]`, `["}"]`, `{"k":"]"}`, `[{]`, `{"a":[}`, `[`, `{`, `[1 true]`, `[1,]`, `{"a":1,}`, `[,]`, `{,}`, `[[]]`, `[{}]`, ` [ ] `, "\n{\n}\n",
		`{"a":{"type":"Feature"}}`, `{"type":["Feature"]}`, `{"type":"feature"}`, `{"type" : "Polygon" }`, `{"asset":{"version":2.0}}`, `{"log":[{"version":1}]}`,
		`{"log":{"entries":[]}}`, `{"log":{"creator":{}}}`, `{"asset":{"version":"1.0"}}`, `{"asset":{"version":"3.0"}}`, `["a","type","Feature"]`,
		`{"a":"é\ud83d"}`, `{"a":"\x"}`, `{"a":1e}`, `{"a":-}`, `{"a":.5}`, `{"a":5.}`, `[1e+]`, `[--1]`, `[tru]`, `[nul]`, `[truee]`, "[\"\x01\x1f\"]", "[\"\xff\xfe\"]",
	}
	for _, s := range fixed {
		for k := 0; k <= len(s); k++ {
			c.jsonCase("fixed-cut", []byte(s[:k]), uint32(k))
		}
		c.jsonCase("fixed", []byte(s), 0)
		c.jsonCase("fixed", []byte(s), uint32(len(s)+1))
	}
	for i := 0; i < nd; i++ {
		d := g.doc()
		kw, kc := "doc", "doc-cut"
		if stdjson.Valid([]byte(d)) { // well-formed by construction, confirmed by encoding/json
			kw, kc = "valid", "valid-cut"
		} else {
			c.stats.Kinds["generator-produced-invalid"]++
		}
		c.jsonCase(kw, []byte(d), 0)
		c.jsonCase(kw, []byte(d), uint32(len(d)+1))
		open := strings.IndexAny(d, "[{")
		step := 1
		if len(d) > 120 {
			step = 1 + len(d)/120
		}
		for k := open + 1; k <= len(d); k += step {
			c.jsonCase(kc, []byte(d[:k]), uint32(k))
			// the same cut made by the library itself (the whole document handed to the entry points under limit k)
			if (i+k)%7 == 0 && k < len(d) {
				c.agree(kc, []byte(d), uint32(k), false)
			}
		}
		// the whole document through every entry point, also behind runs of white space of awkward lengths
		if i%5 == 0 {
			c.agree(kw, []byte(d), 0, i%40 == 0)
			for _, n := range []int{63, 64, 65, 200, 3071, 3100} {
				pd := []byte(strings.Repeat([]string{" ", "\r\n", "\t", "\n"}[(i+n)%4], n)[:n] + d)
				if n <= 200 { // (the model's unary arithmetic makes kilobytes of padding expensive: those go through the entry points only)
					for _, lim := range []uint32{0, uint32(len(pd) + 1)} {
						c.jsonCase(kw, pd, lim)
					}
				} else if kw == "valid" {
					if m, pan := detectAt(pd, 0); pan == nil && m != nil && (!strings.Contains(m.String(), "json") || strings.Contains(m.String(), "ndjson")) {
						c.propfail("C08", fmt.Sprintf("valid document behind %d bytes of white space not reported as JSON when examined in full: %s", n, m.String()))
					}
				}
				c.agree(kw+"-padded", pd, 0, false)
				c.agree(kw+"-padded", pd, 3072, false)
			}
		}
		// the same document pretty-printed with runs of 8 and 16 blanks between its tokens, examined whole and in
		// truncated mode at every few bytes (white space is counted byte by byte like everything else)
		if kw == "valid" && i%6 == 0 && len(d) < 400 {
			for _, ind := range []string{"        ", "                ", "\n        ", "\t\t\t\t\t\t\t\t\t"} {
				pd := strings.NewReplacer(",", ","+ind, ":", ":"+ind, "[", "["+ind, "{", "{"+ind).Replace(d)
				if !stdjson.Valid([]byte(pd)) {
					continue
				}
				c.jsonCase("valid", []byte(pd), 0)
				ob := strings.IndexAny(pd, "[{") // (a cut counts only when it includes the opening bracket)
				for k := len(pd); ob >= 0 && k > ob+1 && k > len(pd)-200; k -= 7 {
					c.jsonCase("valid-cut", []byte(pd[:k]), uint32(k))
				}
				c.agree("valid-indented", []byte(pd), uint32(len(pd)), false)
			}
		}
		// malformed in whole mode: no entry point may read it as truncated
		if kw == "valid" && i%4 == 0 && len(d) > 3 {
			bad := []byte(d[:len(d)-1-i%3])
			if !stdjson.Valid(bad) {
				c.jsonCase("doc-mut", bad, 0)
				c.agree("doc-mut", bad, 0, i%32 == 0)
			}
		}
		for k := 1; k <= open; k++ {
			c.jsonCase("doc-cut", []byte(d[:k]), uint32(k))
		}
		for m := 0; m < 3; m++ {
			md := mutateTokens(c, d)
			c.jsonCase("doc-mut", []byte(md), 0)
			c.jsonCase("doc-mut", []byte(md), uint32(len(md)))
		}
	}
}

// long runs of numbers whose separators are damaged (a fast path over "number, number, ..." must still check them):
// arrays of 20-200 elements with one or all commas replaced by a blank, '-', '.', 'e' or nothing, whole and cut
func runJSONNumberRuns(c *runCtx) {
	r := c.rng
	n := 24
	if c.tier == "thorough" {
		n = 400
	}
	for it := 0; it < n; it++ {
		cnt := 20 + r.Intn(180)
		elems := make([]string, cnt)
		for i := range elems {
			elems[i] = []string{"10", "-2", "3.5", "1e3", "0", "20", "7"}[r.Intn(7)]
		}
		good := "[" + strings.Join(elems, ",") + "]"
		c.jsonCase("numrun-valid", []byte(good), 0)
		for _, bad := range []string{" ", "-", ".", "e", "", ",,"} {
			// one separator damaged somewhere behind the first 64 bytes, and all of them
			pos := cnt/2 + r.Intn(cnt/2-1)
			one := "[" + strings.Join(elems[:pos], ",") + bad + strings.Join(elems[pos:], ",") + "]"
			all := "[" + strings.Join(elems, bad+",")[0:] + "]"
			if bad == "" || bad == " " || bad == "-" {
				all = "[" + strings.Join(elems, bad) + "]"
			}
			for _, d := range []string{one, all, `{"type":"Feature","coordinates":` + one + `}`} {
				if stdjson.Valid([]byte(d)) {
					continue
				}
				c.jsonCase("numrun-damaged", []byte(d), 0)
				c.jsonCase("numrun-damaged", []byte(d), uint32(len(d)+1))
				if it%6 == 0 {
					c.agree("numrun-damaged", []byte(d), 0, false)
				}
			}
		}
	}
}

// deep but legal nesting (the property promises depth up to 4096)
func runJSONDeep(c *runCtx) {
	type dd struct {
		shape string
		depth int
	}
	cases := []dd{{"obj", 2049}, {"arr", 4096}, {"mixed", 3000}, {"obj", 4096}}
	if c.tier != "thorough" {
		cases = cases[:3]
	}
	for _, d := range cases {
		x := closed(d.shape, d.depth)
		if !stdjson.Valid(x) {
			c.stats.Kinds["deep-generator-invalid"]++
			continue
		}
		for ci, lim := range []uint32{0, uint32(len(x) / 2)} {
			if !c.mine() {
				continue
			}
			hdr := header(x, lim)
			v := "0"
			if magic.JSON(hdr, lim) {
				v = "1"
			}
			kind := "valid"
			if ci == 1 {
				kind = "valid-cut"
			}
			c.stats.note("deep-"+d.shape, []byte(fmt.Sprintf("%s:%d:%d", d.shape, d.depth, ci)), len(hdr), true)
			c.stats.sample(fmt.Sprintf("deep %s document, depth %d, %d bytes, limit %d -> JSON=%s", d.shape, d.depth, len(hdr), lim, v))
			c.emit("jdeep", hx(hdr), strconv.Itoa(int(lim)), v, fmt.Sprintf("%s depth=%d %s", d.shape, d.depth, kind), kind)
		}
	}
}

func init() {
	commands["run-json-deep"] = func(args []string) {
		c := parseRunArgs(args)
		runJSONDeep(c)
		c.finish()
	}
	commands["run-json-exh"] = func(args []string) {
		c := parseRunArgs(args)
		n := 5
		if c.tier == "thorough" {
			n = 6
		}
		runJSONExh(c, n)
		c.finish()
	}
	commands["run-json"] = func(args []string) {
		c := parseRunArgs(args)
		runJSONDocs(c)
		runJSONNumberRuns(c)
		c.finish()
	}
}
