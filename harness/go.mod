module github.com/gabriel-vasile/mimetype/verifh

go 1.23.0

require github.com/gabriel-vasile/mimetype v0.0.0

require golang.org/x/net v0.39.0

replace github.com/gabriel-vasile/mimetype => /repo
