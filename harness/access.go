package main

// tools/access: static extraction of the synchronisation-relevant actions of every exported entry point of
// package mimetype (mutex calls incl. defer, sync/atomic calls, reads and writes of the shared locations
// readLimit, root, MIME.children / aliases / mime / extension / detector / parent), with calls to functions
// and methods of the same package inlined.  Output: coq/Gen/Access.v.
//
// Conventions: `append(x.f, ...)` whose first argument is a field of a shared node counts as a WRITE to that
// field's backing array; writes to fields of a node built in the same function (composite literal) before it is
// stored into a children slice count as pre-publication and are not recorded.

import (
	"fmt"
	"go/ast"
	"go/parser"
	"go/token"
	"path/filepath"
	"sort"
	"strings"
)

type accExtractor struct {
	funcs   map[string]*ast.FuncDecl // "Name" or "(*MIME).Name"
	actions []string
	stack   map[string]bool
	fresh   map[string]bool // local variables holding nodes built in this function
	shadow  map[string]bool // identifiers declared locally (parameters) that shadow package-level names
}

var sharedFields = map[string]string{"children": "LChildren", "aliases": "LAliases", "mime": "LMime", "extension": "LExtension", "detector": "LDetector", "parent": "LParent"}

func (x *accExtractor) emit(a string) { x.actions = append(x.actions, a) }

func isAtomicCall(call *ast.CallExpr) (string, bool) {
	if sel, ok := call.Fun.(*ast.SelectorExpr); ok {
		if id, ok := sel.X.(*ast.Ident); ok && id.Name == "atomic" {
			return sel.Sel.Name, true
		}
	}
	return "", false
}

func (x *accExtractor) expr(e ast.Expr, write bool) {
	switch v := e.(type) {
	case nil:
	case *ast.Ident:
		if v.Name == "readLimit" && !x.shadow[v.Name] {
			if write {
				x.emit("Write LLimit")
			} else {
				x.emit("Read LLimit")
			}
		}
	case *ast.SelectorExpr:
		if loc, ok := sharedFields[v.Sel.Name]; ok {
			if id, ok := v.X.(*ast.Ident); ok && x.fresh[id.Name] {
				return // field of a node not yet published
			}
			x.expr(v.X, false)
			if write {
				x.emit("Write " + loc)
			} else {
				x.emit("Read " + loc)
			}
			return
		}
		x.expr(v.X, false)
	case *ast.CallExpr:
		x.call(v)
	case *ast.UnaryExpr:
		x.expr(v.X, write)
	case *ast.BinaryExpr:
		x.expr(v.X, false)
		x.expr(v.Y, false)
	case *ast.ParenExpr:
		x.expr(v.X, write)
	case *ast.StarExpr:
		x.expr(v.X, write)
	case *ast.IndexExpr:
		x.expr(v.X, write)
		x.expr(v.Index, false)
	case *ast.SliceExpr:
		x.expr(v.X, write)
	case *ast.CompositeLit:
		for _, el := range v.Elts {
			if kv, ok := el.(*ast.KeyValueExpr); ok {
				x.expr(kv.Value, false)
			} else {
				x.expr(el, false)
			}
		}
	case *ast.FuncLit:
		// closures defined inline (detectors): body is not part of the entry point's synchronisation skeleton
	case *ast.TypeAssertExpr:
		x.expr(v.X, false)
	case *ast.KeyValueExpr:
		x.expr(v.Value, false)
	}
}

func (x *accExtractor) call(c *ast.CallExpr) {
	if name, ok := isAtomicCall(c); ok {
		switch {
		case strings.HasPrefix(name, "Load"):
			x.emit("ARead LLimit")
		case strings.HasPrefix(name, "Store"), strings.HasPrefix(name, "Add"), strings.HasPrefix(name, "Swap"), strings.HasPrefix(name, "CompareAndSwap"):
			x.emit("AWrite LLimit")
		}
		for _, a := range c.Args[1:] {
			x.expr(a, false)
		}
		return
	}
	if sel, ok := c.Fun.(*ast.SelectorExpr); ok {
		if id, ok := sel.X.(*ast.Ident); ok && id.Name == "mu" {
			switch sel.Sel.Name {
			case "Lock":
				x.emit("Lock")
			case "Unlock":
				x.emit("Unlock")
			case "RLock":
				x.emit("RLock")
			case "RUnlock":
				x.emit("RUnlock")
			}
			return
		}
	}
	if id, ok := c.Fun.(*ast.Ident); ok && id.Name == "append" && len(c.Args) > 0 {
		// append(first, rest...): first is written (backing array) when it is a shared field
		x.expr(c.Args[0], true)
		for _, a := range c.Args[1:] {
			x.expr(a, false)
		}
		return
	}
	for _, a := range c.Args {
		x.expr(a, false)
	}
	// inline same-package callees
	switch f := c.Fun.(type) {
	case *ast.Ident:
		if fd, ok := x.funcs[f.Name]; ok {
			x.inline(f.Name, fd)
		}
	case *ast.SelectorExpr:
		if _, shared := sharedFields[f.Sel.Name]; shared {
			x.expr(f, false)
			return
		}
		x.expr(f.X, false)
		if fd, ok := x.funcs["(*MIME)."+f.Sel.Name]; ok {
			// only when the receiver is not a package (mime.X, io.X ...)
			if id, ok := f.X.(*ast.Ident); ok && (id.Name == "mime" || id.Name == "io" || id.Name == "os" || id.Name == "charset" || id.Name == "magic") && id.Obj == nil {
				return
			}
			x.inline("(*MIME)."+f.Sel.Name, fd)
		}
	}
}

func (x *accExtractor) inline(name string, fd *ast.FuncDecl) {
	if x.stack[name] {
		return // recursion (match, lookup, flatten): the body was already accounted for once
	}
	x.stack[name] = true
	saved, savedSh := x.fresh, x.shadow
	x.fresh = map[string]bool{}
	x.shadow = paramNames(fd)
	x.block(fd.Body)
	x.fresh, x.shadow = saved, savedSh
	delete(x.stack, name)
}

func (x *accExtractor) block(b *ast.BlockStmt) {
	if b == nil {
		return
	}
	var deferred []ast.Expr
	for _, s := range b.List {
		x.stmt(s, &deferred)
	}
	for i := len(deferred) - 1; i >= 0; i-- {
		x.expr(deferred[i], false)
	}
}

func (x *accExtractor) stmt(s ast.Stmt, deferred *[]ast.Expr) {
	switch v := s.(type) {
	case *ast.ExprStmt:
		x.expr(v.X, false)
	case *ast.DeferStmt:
		*deferred = append(*deferred, v.Call)
	case *ast.AssignStmt:
		for _, r := range v.Rhs {
			x.expr(r, false)
		}
		for i, l := range v.Lhs {
			// x := &MIME{...}: a fresh node
			if id, ok := l.(*ast.Ident); ok && i < len(v.Rhs) {
				if ce, ok := v.Rhs[i].(*ast.CallExpr); ok {
					if se, ok := ce.Fun.(*ast.SelectorExpr); ok && se.Sel.Name == "clone" {
						x.fresh[id.Name] = true // clone returns a node nobody else can name yet
					}
				}
				if rid, ok := v.Rhs[i].(*ast.Ident); ok && x.fresh[rid.Name] {
					x.fresh[id.Name] = true
				}
				if u, ok := v.Rhs[i].(*ast.UnaryExpr); ok {
					if cl, ok := u.X.(*ast.CompositeLit); ok {
						if t, ok := cl.Type.(*ast.Ident); ok && t.Name == "MIME" {
							x.fresh[id.Name] = true
						}
					}
				}
				continue
			}
			x.expr(l, true)
		}
	case *ast.ReturnStmt:
		for _, r := range v.Results {
			x.expr(r, false)
		}
	case *ast.IfStmt:
		x.stmt(v.Init, deferred)
		x.expr(v.Cond, false)
		x.blockNoDefer(v.Body, deferred)
		if v.Else != nil {
			x.stmt(v.Else, deferred)
		}
	case *ast.ForStmt:
		x.stmt(v.Init, deferred)
		x.expr(v.Cond, false)
		x.blockNoDefer(v.Body, deferred)
		x.stmt(v.Post, deferred)
	case *ast.RangeStmt:
		x.expr(v.X, false)
		x.blockNoDefer(v.Body, deferred)
	case *ast.BlockStmt:
		x.blockNoDefer(v, deferred)
	case *ast.DeclStmt:
		if gd, ok := v.Decl.(*ast.GenDecl); ok {
			for _, sp := range gd.Specs {
				if vs, ok := sp.(*ast.ValueSpec); ok {
					for _, e := range vs.Values {
						x.expr(e, false)
					}
				}
			}
		}
	case *ast.IncDecStmt:
		x.expr(v.X, true)
	case *ast.SwitchStmt:
		x.stmt(v.Init, deferred)
		x.expr(v.Tag, false)
		x.blockNoDefer(v.Body, deferred)
	case *ast.CaseClause:
		for _, e := range v.List {
			x.expr(e, false)
		}
		for _, st := range v.Body {
			x.stmt(st, deferred)
		}
	case nil:
	}
}

func (x *accExtractor) blockNoDefer(b *ast.BlockStmt, deferred *[]ast.Expr) {
	if b == nil {
		return
	}
	for _, s := range b.List {
		x.stmt(s, deferred)
	}
}

func paramNames(fd *ast.FuncDecl) map[string]bool {
	out := map[string]bool{}
	if fd.Type.Params != nil {
		for _, p := range fd.Type.Params.List {
			for _, n := range p.Names {
				out[n.Name] = true
			}
		}
	}
	return out
}

func genAccess(repo, outDir string) bool {
	fset := token.NewFileSet()
	funcs := map[string]*ast.FuncDecl{}
	for _, fn := range []string{"mimetype.go", "mime.go", "tree.go"} {
		f, err := parser.ParseFile(fset, filepath.Join(repo, fn), nil, 0)
		if err != nil {
			genFail("parse %s: %v", fn, err)
		}
		for _, d := range f.Decls {
			if fd, ok := d.(*ast.FuncDecl); ok && fd.Body != nil {
				name := fd.Name.Name
				if fd.Recv != nil {
					name = "(*MIME)." + name
				}
				funcs[name] = fd
			}
		}
	}
	var entries []string
	for n, fd := range funcs {
		if ast.IsExported(fd.Name.Name) {
			entries = append(entries, n)
		}
	}
	sort.Strings(entries)
	var sb strings.Builder
	sb.WriteString("(* GENERATED by /verif/harness gen (access extraction) from /repo/{mimetype,mime,tree}.go. Do not edit. *)\n")
	sb.WriteString("From Verif Require Import Base.Bytes Model.Conc.\nLocal Open Scope string_scope.\n\n")
	sb.WriteString("Definition programs : list (string * list action) := [\n")
	for i, n := range entries {
		x := &accExtractor{funcs: funcs, stack: map[string]bool{n: true}, fresh: map[string]bool{}, shadow: paramNames(funcs[n])}
		x.block(funcs[n].Body)
		sep := ";"
		if i == len(entries)-1 {
			sep = ""
		}
		body := "(@nil action)"
		if len(x.actions) > 0 {
			body = "[" + strings.Join(x.actions, "; ") + "]"
		}
		fmt.Fprintf(&sb, "  (\"%s\", %s)%s\n", n, body, sep)
	}
	sb.WriteString("].\n")
	return writeIfChanged(filepath.Join(outDir, "Access.v"), []byte(sb.String()))
}
