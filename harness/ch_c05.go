package main

import (
	"time"
	"bytes"
	"errors"
	"fmt"
	"io"
	"os"
	"path/filepath"
	"strconv"
	"strings"

	"github.com/gabriel-vasile/mimetype"
)

type rstep struct {
	fail bool
	k    int
	ewd  bool // deliver the last bytes together with io.EOF
	code int
}

type scriptReader struct {
	rem       []byte
	steps     []rstep
	delivered int
	calls     int
	maxAsk    int
}

type injected struct{ code int }

func (e injected) Error() string { return "injected read error " + strconv.Itoa(e.code) }

func (r *scriptReader) Read(p []byte) (int, error) {
	r.calls++
	if len(p) > r.maxAsk {
		r.maxAsk = len(p)
	}
	if len(r.steps) > 0 {
		s := r.steps[0]
		r.steps = r.steps[1:]
		if s.fail {
			return 0, injected{s.code}
		}
		if len(r.rem) == 0 {
			return 0, io.EOF
		}
		n := s.k
		if n > len(p) {
			n = len(p)
		}
		if n > len(r.rem) {
			n = len(r.rem)
		}
		copy(p, r.rem[:n])
		last := n == len(r.rem) && n > 0
		r.rem = r.rem[n:]
		r.delivered += n
		if s.ewd && last {
			return n, io.EOF
		}
		return n, nil
	}
	if len(r.rem) == 0 {
		return 0, io.EOF
	}
	n := len(p)
	if n > len(r.rem) {
		n = len(r.rem)
	}
	copy(p, r.rem[:n])
	r.rem = r.rem[n:]
	r.delivered += n
	return n, nil
}

func encScript(st []rstep) string {
	if len(st) == 0 {
		return "-"
	}
	parts := make([]string, len(st))
	for i, s := range st {
		if s.fail {
			parts[i] = "f" + strconv.Itoa(s.code)
		} else if s.ewd {
			parts[i] = "c" + strconv.Itoa(s.k) + "e"
		} else {
			parts[i] = "c" + strconv.Itoa(s.k) + "n"
		}
	}
	return strings.Join(parts, ",")
}

var spyHeader []byte
var spyLimit uint32
var spyCalled bool

func installSpy() {
	mimetype.Extend(func(raw []byte, limit uint32) bool {
		spyHeader = append([]byte{}, raw...)
		spyLimit = limit
		spyCalled = true
		return false
	}, "application/x-verif-spy", ".spy")
}

func (c *runCtx) readerCase(kind string, x []byte, limit uint32, st []rstep) {
	if !c.mine(x, []byte(strconv.Itoa(int(limit))), []byte(encScript(st))) {
		return
	}
	mimetype.SetLimit(limit)
	spyCalled = false
	spyHeader = nil
	rd := &scriptReader{rem: append([]byte{}, x...), steps: append([]rstep{}, st...)}
	c.watch(fmt.Sprintf("reader kind=%s limit=%d script=%s input=%s", kind, limit, encScript(st), hx(x)))
	m, err := mimetype.DetectReader(rd)
	c.started.Store(0)
	hdrS, limS := "NONE", "0"
	if spyCalled {
		hdrS, limS = hx(spyHeader), strconv.Itoa(int(spyLimit))
	}
	errS := "nil"
	var inj injected
	if errors.As(err, &inj) {
		errS = "E" + strconv.Itoa(inj.code)
	} else if err != nil {
		errS = "other:" + strings.ReplaceAll(err.Error(), "\t", " ")
	}
	chain := "NIL"
	if m != nil {
		chain = chainOf(m)
	}
	d, _ := detectAt(x, limit)
	dchain := "NIL"
	if d != nil {
		dchain = chainOf(d)
	}
	c.stats.note(kind, []byte(fmt.Sprintf("%d:%s:%s", limit, encScript(st), hx(x))), len(x), len(st) > 0)
	c.emit("rd", hx(x), strconv.Itoa(int(limit)), encScript(st), hdrS, limS, strconv.Itoa(rd.delivered), errS, chain, dchain, kind)
	if c.stats.Evaluations%301 == 1 {
		c.stats.sample(fmt.Sprintf("rd kind=%s len=%d limit=%d script=%s -> delivered=%d err=%s chain=%s", kind, len(x), limit, encScript(st), rd.delivered, errS, chain))
	}
}

func runC05(c *runCtx) {
	installSpy()
	r := c.rng
	inputs := [][]byte{{}, []byte("a"), []byte("%PDF-1.4 rest of the file"), []byte("{\"a\":[1,2,3]}"), []byte("a,b\n1,2\n3,4\n"), []byte("<html><head><meta charset=\"koi8-r\"></head></html>"),
		{0x89, 'P', 'N', 'G', 0x0D, 0x0A, 0x1A, 0x0A, 0, 0, 0, 13}, randBytes(r, 40), randText(r, 300), cat([]byte("PK\x03\x04"), make([]byte, 26), []byte("META-INF/MANIFEST.MF"), randBytes(r, 50))}
	// small line-format documents whose verdict depends on whether they were examined whole or cut (no final newline,
	// an incomplete or ragged last line): a file shorter than the limit is examined whole by every entry point
	for _, s := range []string{"a,b\n1,2", "a,b\n1,2\n3", "a,b\r\n1,2\r\n3,4", "a\tb\n1\t2", "{\"a\":1}\n{\"b\":2}", "{\"a\":1}\n{\"b\":", "[1]\n[2]\n[3",
		"id,name,qty\n1,bolt,10\n2,nut,20\nragged", "id,name,qty\n1,bolt,10\n2,nut,20\nragged\n", "{\"type\":\"Feature\"", "[1,2", "{\"a\":1}"} {
		inputs = append(inputs, []byte(s))
	}
	for _, s := range fileSeeds("/repo") {
		d := s.data
		if len(d) > 4000 {
			d = d[:4000]
		}
		inputs = append(inputs, d)
	}
	nrand := 4
	if c.tier == "thorough" {
		nrand = 60
	}
	for _, x := range inputs {
		n := len(x)
		limits := []uint32{0, 3072, 1, uint32(n + 1), 1 << 22}
		if n > 0 {
			limits = append(limits, uint32(n))
		}
		if n > 1 {
			limits = append(limits, uint32(n-1), uint32(n/2))
		}
		for _, l := range limits {
			// conforming readers: chunk schedules
			c.readerCase("plain", x, l, nil)
			one := make([]rstep, 0, n+2)
			for i := 0; i < n && i < 400; i++ {
				one = append(one, rstep{k: 1})
			}
			c.readerCase("1-byte", x, l, one)
			c.readerCase("3-byte", x, l, repeatStep(rstep{k: 3}, n/3+2))
			c.readerCase("zero-reads", x, l, []rstep{{k: 0}, {k: 2}, {k: 0}, {k: 0}, {k: 5}})
			c.readerCase("data+EOF", x, l, []rstep{{k: 5000, ewd: true}})
			c.readerCase("data+EOF-chunks", x, l, repeatStep(rstep{k: 7, ewd: true}, n/7+2))
			fib := []rstep{}
			for a, b2 := 1, 1; a < 5000 && len(fib) < 20; a, b2 = b2, a+b2 {
				fib = append(fib, rstep{k: a})
			}
			c.readerCase("fibonacci", x, l, fib)
			for t := 0; t < nrand; t++ {
				var st []rstep
				for k := r.Intn(8); k > 0; k-- {
					st = append(st, rstep{k: r.Intn(12), ewd: r.Intn(3) == 0})
				}
				c.readerCase("random", x, l, st)
			}
			// an injected error at every byte offset 0..min(len,limit) (and just past it)
			hl := n
			if l > 0 && int(l) < n {
				hl = int(l)
			}
			offs := []int{}
			for o := 0; o <= hl+1 && o <= 40; o++ {
				offs = append(offs, o)
			}
			if hl > 40 {
				offs = append(offs, hl-1, hl, hl+1)
			}
			for _, o := range offs {
				st := []rstep{}
				if o > 0 {
					st = append(st, rstep{k: o})
				}
				st = append(st, rstep{fail: true, code: 7 + o%3})
				c.readerCase("error-at", x, l, st)
				if o > 2 {
					c.readerCase("error-at-chunked", x, l, append(repeatStep(rstep{k: 2}, o/2), rstep{fail: true, code: 5}))
				}
			}
		}
	}
	// DetectFile
	dir, err := os.MkdirTemp("", "verif-c05-")
	if err == nil {
		defer os.RemoveAll(dir)
		for i, x := range inputs {
			p := filepath.Join(dir, fmt.Sprintf("f%d.bin", i))
			os.WriteFile(p, x, 0o644)
			for _, l := range []uint32{0, 3072, 5, uint32(len(x)), uint32(len(x) + 1)} {
				if !c.mine(x, []byte("file"), []byte(strconv.Itoa(int(l)))) {
					continue
				}
				mimetype.SetLimit(l)
				m, err := mimetype.DetectFile(p)
				d, _ := detectAt(x, l)
				c.stats.note("file", []byte(fmt.Sprintf("file:%d:%s", l, hx(x))), len(x), true)
				if err != nil || m == nil || d == nil || chainFull(m) != chainFull(d) {
					c.propfail("C05", fmt.Sprintf("DetectFile disagrees with Detect: limit=%d err=%v file=%s bytes=%s", l, err, chainOf(m), chainOf(d)))
				}
			}
		}
		// error paths under every kind of limit (unlimited, default, tiny, huge): a missing path, a directory, an
		// unreadable file
		locked := filepath.Join(dir, "locked.txt")
		os.WriteFile(locked, []byte("plain text, unreadable"), 0o000)
		paths := []string{filepath.Join(dir, "missing"), dir, filepath.Join(dir, "f0.bin", "below-a-file")}
		if f, e := os.Open(locked); e != nil {
			paths = append(paths, locked)
		} else {
			f.Close() // running as root: permissions do not bite
		}
		for _, l := range []uint32{3072, 0, 1, 1 << 22} {
			for _, p := range paths {
				mimetype.SetLimit(l)
				m, err := mimetype.DetectFile(p)
				c.stats.note("file-error", []byte(fmt.Sprintf("%s:%d", p, l)), 0, true)
				if err == nil || m == nil || m.String() != "application/octet-stream" || m.Parent() != nil || m.Extension() != "" {
					c.propfail(c.errProp(), fmt.Sprintf("DetectFile on %s at limit %d: expected exactly application/octet-stream together with the error, got %v (parent %v) / err=%v", filepath.Base(p), l, m, parentOf(m), err))
				}
			}
		}
		mimetype.SetLimit(3072)
	}
	// every input through a pipe (an *os.File that is not a regular file), written in two parts
	for i, x := range inputs {
		if len(x) < 2 || !c.mine(x, []byte("pipe")) {
			continue
		}
		for _, l := range []uint32{3072, 0, uint32(len(x))} {
			cut := 1 + (i*7)%(len(x)-1)
			mimetype.SetLimit(l)
			m, err, ok := pipeDetect(x, cut, 3*time.Millisecond)
			if !ok {
				continue
			}
			d, _ := detectAt(x, l)
			c.stats.note("pipe", []byte(fmt.Sprintf("pipe:%d:%s", l, hx(x))), len(x), true)
			if err != nil || m == nil || d == nil || chainFull(m) != chainFull(d) {
				c.propfail("C05", fmt.Sprintf("DetectReader over a pipe written in two parts (%d + %d bytes) disagrees with Detect: limit=%d err=%v pipe=%s bytes=%s", cut, len(x)-cut, l, err, chainOf(m), chainOf(d)))
			}
		}
	}
	mimetype.SetLimit(3072)
	// limits and inputs beyond a megabyte: the three entry points still examine the same header
	if c.shard == 0 {
		var js bytes.Buffer
		js.WriteString("{\"k\":[")
		for js.Len() < 3<<19 {
			js.WriteString("123456789,")
		}
		js.WriteString("0]}")
		txt := bytes.Repeat([]byte("plain text line, nothing else\n"), 1<<16)
		late := append(append([]byte{}, txt[:1<<20+4096]...), 0x00, 0x01, 0x02)
		late = append(late, txt[:1<<18]...)
		for _, big := range []struct {
			kind string
			x    []byte
		}{{"big-json", js.Bytes()}, {"big-text", txt}, {"big-text-late-binary", late}} {
			for _, l := range []uint32{2 << 20, 1572928, 1 << 20, 1<<20 + 1, 0} {
				c.stats.note("big", []byte(fmt.Sprintf("%s:%d", big.kind, l)), len(big.x), true)
				c.agree(big.kind, big.x, l, true)
			}
		}
		mimetype.SetLimit(3072)
	}
}

func repeatStep(s rstep, n int) []rstep {
	out := make([]rstep, n)
	for i := range out {
		out[i] = s
	}
	return out
}

func init() {
	commands["run-c05"] = func(args []string) {
		c := parseRunArgs(args)
		runC05(c)
		c.finish()
	}
}

func parentOf(m *mimetype.MIME) string {
	if m == nil || m.Parent() == nil {
		return "nil"
	}
	return m.Parent().String()
}

// the property the error-path cases are reported under: C02 when this stream runs for C02, else C05
func (c *runCtx) errProp() string {
	if c.prop == "C02" {
		return "C02"
	}
	return "C05"
}
