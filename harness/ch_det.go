package main

import (
	"time"
	"sort"
	"bytes"
	"fmt"
	"io"
	"strconv"
	"strings"

	"github.com/gabriel-vasile/mimetype"
)

// obsCase observes the implementation on (x, limit): detector verdict vector on the examined header
// (exact-capacity and poisoned-capacity runs), the chain Detect reports, and emits an `obs` line.
func (c *runCtx) obsCase(kind string, x []byte, limit uint32) {
	if !c.mine(x, []byte(strconv.Itoa(int(limit)))) {
		return
	}
	c.obsBody(kind, x, limit)
}

// sameNameHistories: several nodes of the tree carry the same type string (json / har, quicktime / mqv, the root /
// aaf, ...).  Inputs that end on such nodes are detected one after the other in one process, in both orders: the
// result of each is the walk of that input, whatever was detected before (run by every shard: a handful of cases).
func (c *runCtx) sameNameHistories(seeds []seed) {
	count := map[string]int{}
	for _, n := range c.nodes {
		count[n.MIME]++
	}
	var pick []seed
	perName := map[string]int{}
	for _, s := range seeds {
		if len(s.data) == 0 || len(s.data) > 1<<16 {
			continue
		}
		m, pan := detectAt(s.data, 3072)
		if pan != nil || m == nil {
			continue
		}
		key := bareType(m.String()) + m.Extension()
		if count[bareType(m.String())] > 1 && perName[key] < 2 {
			perName[key]++
			pick = append(pick, s)
		}
	}
	for pass := 0; pass < 2; pass++ {
		for i := range pick {
			s := pick[i]
			if pass == 1 {
				s = pick[len(pick)-1-i]
			}
			c.obsBody("same-name-"+s.kind, s.data, 3072)
			c.obsBody("same-name-"+s.kind, s.data, 0)
		}
	}
}

func (c *runCtx) obsBody(kind string, x []byte, limit uint32) {
	hdr := header(x, limit)
	c.watch(fmt.Sprintf("kind=%s limit=%d input=%s", kind, limit, hx(x)))
	vec, same := c.verdictVector(hdr, limit)
	if !same {
		c.propfail("C01", fmt.Sprintf("detector verdicts depend on bytes past len(header): limit=%d input=%s", limit, hx(hdr)))
	}
	if i := strings.IndexByte(vec, 'P'); i >= 0 {
		c.propfail("C01", fmt.Sprintf("detector of node %d (%s) panics: limit=%d header=%s", i, c.nodes[i].MIME, limit, hx(hdr)))
	}
	m, pan := detectAt(x, limit)
	// the same bytes handed over as a prefix of a larger poisoned buffer: bytes between len and cap are not input
	if pan == nil && m != nil {
		big := make([]byte, len(x), len(x)+4200)
		copy(big, x)
		ext := big[:cap(big)]
		for i := len(x); i < len(ext); i++ {
			ext[i] = "%PDF-1.7 {\"a\":1}\x00<html>"[i%22]
		}
		if m2, pan2 := detectAt(big, limit); pan2 == nil && m2 != nil && chainFull(m2) != chainFull(m) {
			c.propfail("C01", fmt.Sprintf("Detect reads bytes beyond len(input) (inside the slice's capacity): result %q for the exact slice, %q with spare capacity; limit=%d input=%s", chainFull(m), chainFull(m2), limit, hx(x)))
		}
	}
	chain := "PANIC"
	if pan != nil {
		c.propfail("C01", fmt.Sprintf("Detect panics (%v): limit=%d input=%s", pan, limit, hx(x)))
	} else if m == nil {
		chain = "NIL"
		c.propfail("C01", fmt.Sprintf("Detect returns nil: limit=%d input=%s", limit, hx(x)))
	} else {
		chain = chainOf(m)
	}
	if pan == nil && m != nil && (c.caseNo%16 == 3 || len(x) == 0) {
		c.agree(kind, x, limit, c.caseNo%128 == 3 || len(x) == 0)
	}
	c.watch("")
	c.started.Store(0)
	fired := strings.Count(vec, "1")
	key := append([]byte(strconv.Itoa(int(limit))+":"), hdr...)
	if c.stats.note(kind, key, len(hdr), fired > 1) { // root always fires; non-trivial = some other detector fired too
		if i := strings.IndexByte(chain, ';'); i > 0 {
			c.stats.Results[chain[:i]]++
		} else {
			c.stats.Results[chain]++
		}
		for i := 1; i < len(vec); i++ {
			if vec[i] == '1' {
				c.stats.Fired[c.nodes[i].MIME+c.nodes[i].Extension]++
			}
		}
	}
	c.emit("obs", hx(hdr), strconv.Itoa(int(limit)), vec, chain, kind)
	if c.stats.Evaluations%97 == 1 {
		c.stats.sample(fmt.Sprintf("obs kind=%s limit=%d len=%d header=%s chain=%s", kind, limit, len(hdr), hx(hdr), chain))
	}
}

// limitFlipReader changes the global limit while DetectReader is reading: the call must still behave as one
// detection at the limit that was in force when it started (C03: one walk, one limit; C06: some instant).
type limitFlipReader struct {
	data []byte
	to   uint32
	done bool
}

func (r *limitFlipReader) Read(p []byte) (int, error) {
	if !r.done {
		mimetype.SetLimit(r.to)
		r.done = true
	}
	if len(r.data) == 0 {
		return 0, io.EOF
	}
	n := copy(p, r.data)
	r.data = r.data[n:]
	return n, nil
}

func (c *runCtx) flipCase(kind string, x []byte, limit, to uint32) {
	if !c.mine(x, []byte(strconv.Itoa(int(limit))), []byte(strconv.Itoa(int(to)))) {
		return
	}
	hdr := header(x, limit)
	vec, _ := c.verdictVector(hdr, limit)
	mimetype.SetLimit(limit)
	m, err := mimetype.DetectReader(&limitFlipReader{data: append([]byte{}, x...), to: to})
	chain := "NIL"
	if m != nil && err == nil {
		chain = chainOf(m)
	}
	c.stats.note(kind, append([]byte(fmt.Sprintf("%d>%d:", limit, to)), x...), len(hdr), strings.Count(vec, "1") > 1)
	c.emit("obs", hx(hdr), strconv.Itoa(int(limit)), vec, chain, kind)
}

func limitsFor(n int) []uint32 {
	l := []uint32{0, 3072, 1<<32 - 1, uint32(n + 1)}
	if n > 0 {
		l = append(l, uint32(n))
	}
	if n > 1 {
		l = append(l, uint32(n-1), 1)
	}
	return l
}

// C01/C03 stream: every seed, truncated at boundary lengths, under several limits, plus mutations.
func runDetStream(c *runCtx) {
	seeds := allSeeds(c.rng, "/repo")
	dense := 40
	if c.tier == "thorough" {
		dense = 600
	}
	c.stats.Extra["seeds"] = len(seeds)
	c.sameNameHistories(seeds)
	// every 1-byte input, and all pairs / triples over the bytes that steer the walk (BOM parts, UTF-8 lead and
	// continuation bytes, control bytes, the first bytes of the common signatures)
	al := []byte{0, 1, 0x0B, 0x1A, 0x1B, ' ', '\n', '<', '{', '[', '"', 'P', 'K', 3, 0x7F, 0x80, 0xBF, 0xC3, 0xE2, 0xEF, 0xBB, 0xFE, 0xFF, 0x1F, 0x8B, 0xCA}
	for b := 0; b < 256; b++ {
		for _, l := range []uint32{3072, 0, 1} {
			c.obsCase("tiny", []byte{byte(b)}, l)
		}
	}
	for _, a := range al {
		for _, b := range al {
			c.obsCase("tiny", []byte{a, b}, 3072)
			c.obsCase("tiny", []byte{a, b}, 2)
			for _, d := range al[:14] {
				c.obsCase("tiny", []byte{a, b, d}, 3072)
			}
		}
	}
	// every byte-order mark followed by one and two bytes of the steering alphabet (a mark is a mark whatever follows:
	// FF FE 00 xx is UTF-16LE text that starts with a U+xx00 character, not half of the UTF-32 mark)
	for _, bm := range [][]byte{{0xEF, 0xBB, 0xBF}, {0xFE, 0xFF}, {0xFF, 0xFE}, {0x00, 0x00, 0xFE, 0xFF}, {0xFF, 0xFE, 0x00, 0x00}} {
		c.obsCase("bom", bm, 3072)
		for _, a := range al {
			c.obsCase("bom", cat(bm, []byte{a}), 3072)
			for _, b := range al {
				c.obsCase("bom", cat(bm, []byte{a, b}), 3072)
				c.obsCase("bom", cat(bm, []byte{a, b, 'x', 0}), 3072)
			}
		}
	}
	if f := limitStress(250 * time.Millisecond); f != "" {
		c.propfail("C01", f)
	}
	for _, s := range seeds {
		for _, k := range cutPoints(len(s.data), dense) {
			x := s.data[:k]
			c.obsCase(s.kind, x, 3072)
			c.obsCase(s.kind, x, uint32(k)) // truncated mode: len == limit
			c.obsCase(s.kind, x, 0)
		}
		// whole seed under all limit shapes
		for _, l := range limitsFor(len(s.data)) {
			c.obsCase(s.kind, s.data, l)
		}
		// byte mutations
		nm := 6
		if c.tier == "thorough" {
			nm = 60
		}
		for i := 0; i < nm && len(s.data) > 0; i++ {
			y := append([]byte{}, s.data...)
			p := c.rng.Intn(len(y))
			if i%2 == 0 && len(y) > 64 {
				p = c.rng.Intn(64)
			}
			y[p] = byte(c.rng.Intn(256))
			c.obsCase(s.kind+"+mut", y, 3072)
		}
	}
	// inputs synthesised from the translated terms of the current source (witness.go)
	c.witnessStream("/repo")
	c.siblingStream("/repo")
	// the byte right behind an occurrence of a signature literal is where length / width / count fields live: boundary
	// values there (all values in the thorough tier) - a loop or an index driven by such a field shows up as a hang
	// (watchdog) or a panic
	{
		_, lits, _ := parseMagic("/repo")
		var pool [][]byte
		seenLit := map[string]bool{}
		for _, ls := range lits {
			for _, l := range ls {
				if len(l) >= 2 && len(l) <= 16 && !seenLit[string(l)] {
					seenLit[string(l)] = true
					pool = append(pool, l)
				}
			}
		}
		sort.Slice(pool, func(i, j int) bool { return string(pool[i]) < string(pool[j]) })
		vals := []byte{0x00, 0x01, 0x7F, 0x80, 0xFF}
		if c.tier == "thorough" {
			vals = vals[:0]
			for v := 0; v < 256; v++ {
				vals = append(vals, byte(v))
			}
		}
		for _, s := range seeds {
			x := s.data
			if len(x) < 4 || len(x) > 6000 {
				continue
			}
			win := x
			if len(win) > 4200 {
				win = win[:4200]
			}
			npos := 0
			donePos := map[int]bool{}
			for _, l := range pool {
				if npos >= 4 {
					break
				}
				if i := bytes.Index(win, l); i >= 0 && i+len(l) < len(x) && !donePos[i+len(l)] {
					p := i + len(l)
					donePos[p] = true
					npos++
					for _, v := range vals {
						if x[p] == v {
							continue
						}
						y := append([]byte{}, x...)
						y[p] = v
						c.obsCase(s.kind+"+after-lit", y, 3072)
					}
				}
			}
		}
	}
	// a byte-order mark in front of every kind of content: only the three text types may carry a charset
	for i, s := range seeds {
		if i%3 != 0 || len(s.data) > 3000 {
			continue
		}
		for _, bm := range [][]byte{{0xEF, 0xBB, 0xBF}, {0xFF, 0xFE}, {0xFE, 0xFF}} {
			c.obsCase(s.kind+"+bom", cat(bm, s.data), 3072)
		}
	}
	// multi-match inputs (several siblings / levels accept at once)
	multi := [][]byte{
		cat([]byte("PK\x03\x04"), make([]byte, 26), []byte("META-INF/MANIFEST.MF")),
		cat([]byte("PK\x03\x04"), make([]byte, 26), []byte("AndroidManifest.xml")),
		cat([]byte("PK\x03\x04"), make([]byte, 26), []byte("mimetypeapplication/vnd.oasis.opendocument.text-template")),
		[]byte(`{"type":"Feature","log":{"version":1},"asset":{"version":"2.0"}}`),
		[]byte(`{"log":{"version":1},"asset":{"version":"2.0"}}`),
		[]byte("{\"a\":1}\n{\"b\":2}\n"),
		[]byte("[1,2\n,3]"),
		[]byte("<?xml version=\"1.0\"?><svg xmlns=\"http://www.w3.org/2000/svg\"><rss/></svg>"),
		[]byte("<html><svg></svg></html>"),
		[]byte("#!/usr/bin/env php\n<?php"),
		cat([]byte("RIFF"), make([]byte, 4), []byte("WAVE"), make([]byte, 10)),
		cat([]byte("RIFF"), make([]byte, 4), []byte("AVI LIST"), make([]byte, 10)),
		cat([]byte{0, 0, 0, 0x18}, []byte("ftypheic"), make([]byte, 20)),
		cat([]byte{0, 0, 0, 0x18}, []byte("ftypqt  "), make([]byte, 20)),
		cat([]byte("OggS\x00"), make([]byte, 23), []byte("\x01vorbis"), make([]byte, 10)),
		cat([]byte{0x7f, 'E', 'L', 'F'}, make([]byte, 12), []byte{3, 0}, make([]byte, 10)),
		cat([]byte("!<arch>\ndebian-binary"), make([]byte, 10)),
		cat([]byte{0x89, 'P', 'N', 'G', 0x0D, 0x0A, 0x1A, 0x0A}, make([]byte, 29), []byte("acTL"), make([]byte, 4)),
		cat([]byte{0, 0, 0x27, 0x0A}, make([]byte, 120)),
	}
	// small documents that exercise the hand-written text scanners (shebang lines, the meta prescan, the XML
	// declaration); every single-byte deletion and duplication of each is tried as well: dropping a closing quote, a
	// separator or the only non-blank byte is how an unguarded index into an empty or quote-less remainder shows
	edge := [][]byte{
		[]byte("<html><head><meta http-equiv=\"Content-Type\" content=\"text/html; charset='utf-8'\"></head></html>"),
		[]byte("<html><head><meta http-equiv=\"Content-Type\" content='text/html; charset=\"koi8-r\"'></head></html>"),
		[]byte("<html><meta http-equiv=content-type content=\"text/html;charset=x\"><meta charset=\"y\"></html>"),
		[]byte("<!DOCTYPE html><meta charset='z'>"),
		[]byte("<?xml version=\"1.0\" encoding=\"latin1\"?><a/>"),
		[]byte("<?xml version='1.0' encoding = 'x' standalone='yes'?><a/>"),
		[]byte("#!/usr/bin/env python\nprint(1)\n"),
		[]byte("#! /bin/sh -e\n"),
		[]byte("#!/usr/bin/php\n<?php echo 1;"),
	}
	for _, ws := range []string{" ", "\t", "\r", "\x0c", " \t\r\x0c"} {
		for n := 0; n <= 26; n++ {
			line := "#!" + strings.Repeat(ws, n)
			edge = append(edge, []byte(line)[:min(len(line), 2+n)], []byte(line[:min(len(line), 2+n)]+"\nrest\n"))
		}
	}
	for _, m := range edge {
		c.obsCase("edge", m, 3072)
		c.obsCase("edge", m, uint32(len(m)))
		if len(m) > 120 || (len(m) > 2 && m[1] == '!' && bytes.Count(m, []byte("/")) == 0) {
			continue
		}
		for i := 0; i < len(m); i++ {
			c.obsCase("edge+del", cat(m[:i], m[i+1:]), 3072)
			c.obsCase("edge+dup", cat(m[:i+1], m[i:]), 3072)
		}
	}
	for _, m := range multi {
		for _, l := range limitsFor(len(m)) {
			c.obsCase("multi", m, l)
		}
		for k := 0; k <= len(m); k++ {
			c.obsCase("multi", m[:k], 3072)
		}
	}
	// the limit changes while the reader is being read
	for _, x := range [][]byte{[]byte("{\"a\":1,\"b\":[1,2,3],\"c\":\"" + strings.Repeat("x", 100) + "\"}"), []byte("a,b,c\n1,2,3\n4,5,6\n7,8,9\n"), []byte("{\"a\":1}\n{\"b\":2}\n{\"c\":3}\n"),
		[]byte("<html><head><meta charset=\"koi8-r\"></head></html>"), cat([]byte("PK\x03\x04"), make([]byte, 26), []byte("META-INF/MANIFEST.MF"))} {
		for _, pr := range [][2]uint32{{10, 3072}, {3072, 10}, {16, 0}, {0, 16}, {uint32(len(x)), 3072}, {3072, uint32(len(x))}} {
			c.flipCase("limit-flip", x, pr[0], pr[1])
		}
	}
	// random short strings
	nr := 2000
	if c.tier == "thorough" {
		nr = 100000
	}
	for i := 0; i < nr; i++ {
		n := c.rng.Intn(24)
		var x []byte
		if i%2 == 0 {
			x = randBytes(c.rng, n)
		} else {
			x = randText(c.rng, n)
		}
		c.obsCase("random", x, []uint32{0, 3072, uint32(n), 5}[i%4])
	}
}

func init() {
	commands["run-det"] = func(args []string) {
		c := parseRunArgs(args)
		runDetStream(c)
		c.finish()
	}
}
