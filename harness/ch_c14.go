package main

// C14: Extend histories. Each history runs in a fresh child process (the tree is global and Extend is
// irreversible); the child applies the operations one by one, dumps the real pointer graph after each and
// probes Detect / Lookup; the parent (which never extends) supplies the "before" results.

import (
	"bufio"
	"bytes"
	"fmt"
	"mime"
	"sync"
	"time"
	"os"
	"os/exec"
	"strconv"
	"strings"

	"github.com/gabriel-vasile/mimetype"
)

type predSpec struct {
	kind string // prefix, byteat, minlen, always, never
	arg  []byte
	off  int
}

func (p predSpec) enc() string {
	return p.kind + ":" + hx(p.arg) + ":" + strconv.Itoa(p.off)
}

func decPred(s string) predSpec {
	f := strings.Split(s, ":")
	var arg []byte
	if f[1] != "-" {
		arg, _ = hexDecode(f[1])
	}
	o, _ := strconv.Atoi(f[2])
	return predSpec{f[0], arg, o}
}

func hexDecode(s string) ([]byte, error) {
	out := make([]byte, len(s)/2)
	for i := range out {
		v, err := strconv.ParseUint(s[2*i:2*i+2], 16, 8)
		if err != nil {
			return nil, err
		}
		out[i] = byte(v)
	}
	return out, nil
}

func (p predSpec) fn() func([]byte, uint32) bool {
	switch p.kind {
	case "prefix":
		return func(raw []byte, _ uint32) bool { return bytes.HasPrefix(raw, p.arg) }
	case "byteat":
		return func(raw []byte, _ uint32) bool { return len(raw) > p.off && raw[p.off] == p.arg[0] }
	case "minlen":
		return func(raw []byte, _ uint32) bool { return len(raw) >= p.off }
	case "always":
		return func([]byte, uint32) bool { return true }
	case "whole": // a detector that looks at its limit argument, as the JSON / CSV detectors do
		return func(raw []byte, limit uint32) bool { return limit == 0 || len(raw) < int(limit) }
	case "cut":
		return func(raw []byte, limit uint32) bool { return limit != 0 && len(raw) >= int(limit) }
	}
	return func([]byte, uint32) bool { return false }
}

type c14op struct {
	parent  string // "" = package-level Extend; otherwise Lookup(parent).Extend
	mime    string
	ext     string
	aliases []string
	pred    predSpec
}

func (o c14op) enc() string {
	return strings.Join([]string{hx([]byte(o.parent)), hx([]byte(o.mime)), hx([]byte(o.ext)), hx([]byte(strings.Join(o.aliases, ","))), o.pred.enc()}, "/")
}

func decOp(s string) c14op {
	f := strings.Split(s, "/")
	g := func(i int) string {
		if f[i] == "-" {
			return ""
		}
		b, _ := hexDecode(f[i])
		return string(b)
	}
	var al []string
	if a := g(3); a != "" {
		al = strings.Split(a, ",")
	}
	return c14op{g(0), g(1), g(2), al, decPred(f[4])}
}

func dumpTree() string {
	d := mimetype.VerifDump()
	parts := make([]string, len(d))
	for i, n := range d {
		cs := make([]string, len(n.Children))
		for k, c := range n.Children {
			cs[k] = strconv.Itoa(c)
		}
		parts[i] = fmt.Sprintf("%s|%s|%d|%s", hx([]byte(n.MIME)), hx([]byte(n.Extension)), n.Parent, strings.Join(cs, "."))
	}
	return strings.Join(parts, ";")
}

// child: apply ops; after each op dump the tree; then probe
func cmdC14Child(args []string) {
	ops := strings.Split(args[0], "+")
	probesHex := strings.Split(args[1], ",")
	out := bufio.NewWriter(os.Stdout)
	defer out.Flush()
	// results taken before any extension, to be re-read at the end
	// every name and alias that is going to be registered is looked up BEFORE (a miss now must not be remembered)
	for _, os_ := range ops {
		o := decOp(os_)
		for _, name := range append([]string{o.mime}, o.aliases...) {
			_ = mimetype.Lookup(name)
		}
	}
	pre := mimetype.Detect([]byte("{\"a\":1}"))
	preStr := chainFull(pre) + "#" + fmt.Sprint(pre.Is("application/json"))
	for i, os_ := range ops {
		o := decOp(os_)
		var al []string
		if o.aliases != nil {
			al = make([]string, len(o.aliases), len(o.aliases)+i%3)
			copy(al, o.aliases)
		}
		if o.parent == "" {
			mimetype.Extend(o.pred.fn(), o.mime, o.ext, al...)
		} else if strings.HasPrefix(o.parent, "@") {
			// Extend on a value handed out by Detect (a copy, not a node of the tree): the tree must not change
			x, _ := hexDecode(o.parent[1:])
			mimetype.Detect(x).Extend(o.pred.fn(), o.mime, o.ext, al...)
		} else if strings.HasPrefix(o.parent, "^") {
			// ... and on an ancestor of such a value (Parent() of a result is a copy too)
			x, _ := hexDecode(o.parent[1:])
			if anc := mimetype.Detect(x).Parent(); anc != nil {
				anc.Extend(o.pred.fn(), o.mime, o.ext, al...)
			}
		} else {
			p := mimetype.Lookup(o.parent)
			if p == nil {
				fmt.Fprintf(out, "!propfail\tC14\tLookup(%q) returned nil before Extend\n", o.parent)
				return
			}
			p.Extend(o.pred.fn(), o.mime, o.ext, al...)
		}
		fmt.Fprintf(out, "ext\t%s\t%d\t%s\n", args[0], i+1, dumpTree())
	}
	nodes := mimetype.VerifDump()
	for _, ph := range probesHex {
		x := []byte{}
		if ph != "-" {
			x, _ = hexDecode(ph)
		}
		for _, l := range []uint32{3072, 0, 9} {
			hdr := header(x, l)
			var sb strings.Builder
			for _, n := range nodes {
				sb.WriteByte(callDet(n.Detector, hdr, l))
			}
			m, pan := detectAt(x, l)
			chain := "PANIC"
			if pan == nil && m != nil {
				chain = chainOf(m)
			}
			fmt.Fprintf(out, "extp\t%s\t%s\t%d\t%s\t%s\n", args[0], hx(hdr), l, sb.String(), chain)
			if pan == nil && m != nil {
				// the reader entry point walks the same enlarged tree; results stay well-formed (C02)
				mimetype.SetLimit(l)
				if r, err := mimetype.DetectReader(bytes.NewReader(x)); err != nil || r == nil || chainOf(r) != chain {
					got := "NIL"
					if r != nil {
						got = chainOf(r)
					}
					fmt.Fprintf(out, "!propfail\tC14\tafter the Extend calls DetectReader and Detect disagree: Detect=%s DetectReader=%s err=%v input=%s limit=%d history=%s\n", chain, got, err, hx(x), l, args[0])
				}
				// rooted, finite, parameter-free ancestry - also for results below extensions of any depth
				if parts := strings.Split(chain, ";"); !strings.HasPrefix(parts[len(parts)-1], "application/octet-stream|") || parts[len(parts)-1] == "CYCLE" {
					fmt.Fprintf(out, "!propfail\tC02\tthe Parent() chain of the result does not end at application/octet-stream after Extend calls: chain=%s input=%s limit=%d history=%s\n", chain, hx(x), l, args[0])
				}
				for p, k := m.Parent(), 0; p != nil && k < 64; p, k = p.Parent(), k+1 {
					if strings.Contains(p.String(), ";") {
						fmt.Fprintf(out, "!propfail\tC02\tancestor %q of the result %q carries a parameter; input=%s history=%s\n", p.String(), m.String(), hx(x), args[0])
					}
				}
				if mt, params, perr := mime.ParseMediaType(m.String()); perr != nil {
					fmt.Fprintf(out, "!propfail\tC02\tresult %q is not accepted by mime.ParseMediaType after Extend calls (%v); input=%s history=%s\n", m.String(), perr, hx(x), args[0])
				} else if len(params) > 0 {
					_, onlyCharset := params["charset"]
					if len(params) != 1 || !onlyCharset || !(mt == "text/plain" || mt == "text/html" || mt == "text/xml") {
						fmt.Fprintf(out, "!propfail\tC02\tresult %q carries a parameter although it is not one of text/plain, text/html, text/xml (or a parameter other than charset); input=%s history=%s\n", m.String(), hx(x), args[0])
					}
				}
				// a result (and every ancestor it reports) answers to the aliases of the format it stands for
				for p := m; p != nil; p = p.Parent() {
					if l := mimetype.Lookup(bareType(p.String())); l != nil && l.Extension() == p.Extension() {
						for _, n := range nodes {
							if n.Node == l {
								for _, a := range n.Aliases {
									if norm, _, err := mime.ParseMediaType(a); err == nil && norm == a && !p.Is(a) {
										fmt.Fprintf(out, "!propfail\tC14\ta detection result for %q does not answer Is(%q), an alias of the format it stands for (after Extend calls); input=%s history=%s\n", p.String(), a, hx(x), args[0])
									}
								}
							}
						}
					}
				}
				for p := m; p != nil; p = p.Parent() {
					// every element of the chain names a registered format, spelled as it was registered
					if l := mimetype.Lookup(bareType(p.String())); l == nil {
						fmt.Fprintf(out, "!propfail\tC02\tthe chain of a result names %q, which Lookup does not find among the registered formats (names are reported as registered); result=%q input=%s history=%s\n", bareType(p.String()), m.String(), hx(x), args[0])
					}
					if p != m && strings.Contains(p.String(), ";") {
						fmt.Fprintf(out, "!propfail\tC02\tan ancestor in the Parent() chain carries a parameter after Extend calls: %q in chain of %q; input=%s history=%s\n", p.String(), m.String(), hx(x), args[0])
					}
				}
			}
		}
	}
	// Lookup of every extension name and alias
	for _, os_ := range ops {
		o := decOp(os_)
		for _, name := range append([]string{o.mime}, o.aliases...) {
			m := mimetype.Lookup(name)
			got := "NIL"
			if m != nil {
				par := "-"
				if m.Parent() != nil {
					par = m.Parent().String()
				}
				isv := "true" // Is normalises its argument: only asked for names that are in normal form already
				if norm, _, err := mime.ParseMediaType(name); err == nil && norm == name {
					isv = fmt.Sprint(m.Is(name))
				}
				got = m.String() + "|" + m.Extension() + "|" + par + "|" + isv
			}
			fmt.Fprintf(out, "extl\t%s\t%s\t%s\n", args[0], hx([]byte(name)), hx([]byte(got)))
		}
	}
	post := chainFull(pre) + "#" + fmt.Sprint(pre.Is("application/json"))
	if post != preStr {
		fmt.Fprintf(out, "!propfail\tC14\ta result returned before the Extend calls changed afterwards: before=%s after=%s history=%s\n", preStr, post, args[0])
	}
	// overlapping Extend calls on one parent while a detection holds the read lock: none may be lost
	{
		mimetype.SetLimit(3072) // (the probes above leave a small limit behind: the blocking input must fit the header)
		gate := make(chan struct{})
		entered := make(chan struct{}, 1)
		mimetype.Extend(func(raw []byte, _ uint32) bool {
			if bytes.HasPrefix(raw, []byte("VERIF-BLOCK")) {
				select {
				case entered <- struct{}{}:
				default:
				}
				<-gate
			}
			return false
		}, "application/x-verif-block", ".blk")
		done := make(chan struct{})
		go func() { mimetype.Detect([]byte("VERIF-BLOCK")); close(done) }()
		<-entered
		var wg sync.WaitGroup
		names := []string{"application/x-verif-par-0", "application/x-verif-par-1", "application/x-verif-par-2", "application/x-verif-par-3"}
		for _, n := range names {
			wg.Add(1)
			go func(n string) {
				defer wg.Done()
				mimetype.Lookup("application/pdf").Extend(func([]byte, uint32) bool { return false }, n, ".par")
			}(n)
		}
		time.Sleep(150 * time.Millisecond)
		close(gate)
		wg.Wait()
		<-done
		for _, n := range names {
			if l := mimetype.Lookup(n); l == nil || l.Parent() == nil || l.Parent().String() != "application/pdf" {
				fmt.Fprintf(out, "!propfail\tC14\tan Extend call that overlapped other Extend calls on the same parent was lost: Lookup(%q) = %v; history=%s\n", n, l, args[0])
			}
		}
	}
	fmt.Fprintf(out, "extdone\t%s\n", args[0])
}

func runC14(c *runCtx) {
	r := c.rng
	self, _ := os.Executable()
	parents := []string{"", "", "text/plain", "application/zip", "application/json", "application/x-ole-storage", "video/mp4", "text/xml", "application/geo+json", "image/png", "application/pdf", "application/vnd.oasis.opendocument.text"}
	probeBase := [][]byte{{}, []byte("hello world"), []byte("{\"a\":1}"), []byte("{\"type\":\"Feature\"}"), []byte("%PDF-1.4"), cat([]byte("PK\x03\x04"), make([]byte, 30)), {0x89, 'P', 'N', 'G', 0x0D, 0x0A, 0x1A, 0x0A, 0, 0},
		[]byte("<?xml version=\"1.0\"?><a/>"), []byte("<html></html>"), cat([]byte{0, 0, 0, 0x18}, []byte("ftypisom"), make([]byte, 8)), []byte("a,b\n1,2\n3,4\n"), cat([]byte{0xD0, 0xCF, 0x11, 0xE0, 0xA1, 0xB1, 0x1A, 0xE1}, make([]byte, 600))}
	nh := 24
	if c.tier == "thorough" {
		nh = 400
	}
	for h := 0; h < nh; h++ {
		nops := 1 + r.Intn(8)
		if h%4 == 1 && nops < 3 {
			nops = 3
		}
		chain := h%4 == 3 // a chain of extensions, each registered under the previous one, all accepting the same probe
		if chain {
			nops = 3 + r.Intn(5)
		}
		var ops []c14op
		var extNames []string
		probes := append([][]byte{}, probeBase...)
		for i := 0; i < nops; i++ {
			par := parents[r.Intn(len(parents))]
			if len(extNames) > 0 && r.Intn(3) == 0 {
				par = extNames[r.Intn(len(extNames))]
			}
			name := fmt.Sprintf("application/x-verif-%d-%d", h, i)
			if r.Intn(6) == 0 {
				name = fmt.Sprintf("Application/X-Verif-%d-%d.macroEnabled", h, i) // registered, reported and looked up verbatim
			}
			if len(extNames) > 0 && r.Intn(5) == 0 {
				name = extNames[r.Intn(len(extNames))] // the same name registered again
			}
			if h%4 == 1 && i == nops-1 && len(ops) > 0 {
				// the first extension's name is registered once more, under the same parent, after the others
				name, par = ops[0].mime, ops[0].parent
			}
			if h%4 == 2 && i == 0 {
				// the receiver is a detection result whose type string is shared by two formats (har / json), or a leaf
				recv := [][]byte{[]byte(`{"log":{"version":"1.2","entries":[]}}`), []byte(`{"a":1}`), []byte(`{"type":"Point"}`), []byte("GIF89a......."), []byte("plain text")}
				par = "@" + hx(recv[(h/4)%len(recv)])
			}
			if chain {
				name = fmt.Sprintf("application/x-verif-%d-%d", h, i)
				if len(extNames) > 0 {
					par = extNames[len(extNames)-1]
				} else {
					par = []string{"application/geo+json", "application/json", "text/plain", ""}[h/4%4]
				}
			}
			var pred predSpec
			sel := r.Intn(8)
			if chain {
				sel = []int{0, 4, 5}[r.Intn(3)]
			}
			switch sel {
			case 6:
				pred = predSpec{"whole", nil, 0}
			case 7:
				pred = predSpec{"cut", nil, 0}
			case 0:
				pred = predSpec{"always", nil, 0}
			case 1:
				pred = predSpec{"never", nil, 0}
			case 2:
				pred = predSpec{"minlen", nil, r.Intn(12)}
			case 3:
				pred = predSpec{"byteat", []byte{"{%<Pa\x89h"[r.Intn(7)]}, r.Intn(3)}
			default:
				pb := probeBase[1+r.Intn(len(probeBase)-1)]
				if chain {
					pb = probeBase[3] // the geojson probe reaches application/geo+json: every link of the chain accepts it
				}
				k := 1 + r.Intn(4)
				if k > len(pb) {
					k = len(pb)
				}
				pred = predSpec{"prefix", append([]byte{}, pb[:k]...), 0}
			}
			var al []string
			for a := r.Intn(3); a > 0; a-- {
				al = append(al, fmt.Sprintf("application/x-verif-alias-%d-%d-%d", h, i, a))
			}
			// names are registered as given: an alias in mixed case, or carrying a parameter, is found by Lookup under
			// exactly that spelling
			switch r.Intn(4) {
			case 0:
				al = append(al, fmt.Sprintf("Application/X-Verif-Alias-%d-%d", h, i))
			case 1:
				al = append(al, fmt.Sprintf("application/x-verif-alias-%d-%d; version=2", h, i))
			}
			ops = append(ops, c14op{par, name, fmt.Sprintf(".v%d", i), al, pred})
			if !strings.HasPrefix(par, "@") && !strings.HasPrefix(par, "^") { // registered on a copy: not a node of the tree, cannot be a parent later
				extNames = append(extNames, name)
			}
		}
		if h%16 == 5 {
			// the same (name, extension) pair registered again under the same parent, with another accepting format
			// registered in between: the newest registration goes in front of both
			par := parents[r.Intn(len(parents))]
			nm := func(k int) string { return fmt.Sprintf("application/x-verif-again-%d-%d", h, k) }
			acc := predSpec{"always", nil, 0}
			if r.Intn(2) == 0 {
				acc = predSpec{"minlen", nil, 1}
			}
			ops = []c14op{{par, nm(0), ".ag", nil, acc}, {par, nm(1), ".ag1", nil, acc}, {par, nm(0), ".ag", nil, acc}}
			if r.Intn(2) == 0 {
				ops = append(ops, c14op{par, nm(2), ".ag2", nil, acc}, c14op{par, nm(1), ".ag1", []string{nm(1) + "-alias"}, acc})
			}
			extNames = nil
		}
		if h%8 == 4 {
			// real registrations on a node, each followed by an Extend on a detection result that is a copy of that very
			// node (the root for binary junk, text/plain for text): the copy shares nothing with the tree
			nv := predSpec{"never", nil, 0}
			bin := "@" + hx([]byte{0, 1, 2, 3})
			txt := "@" + hx([]byte("plain text"))
			nm := func(k int) string { return fmt.Sprintf("application/x-verif-copy-%d-%d", h, k) }
			ops = []c14op{
				{"", nm(0), ".c0", nil, nv}, {bin, nm(1), ".c1", nil, nv},
				{"text/plain", nm(2), ".c2", nil, nv}, {txt, nm(3), ".c3", []string{nm(3) + "-alias"}, nv},
				{"", nm(4), ".c4", nil, nv}, {bin, nm(5), ".c5", nil, predSpec{"always", nil, 0}},
				{"application/json", nm(6), ".c6", nil, nv}, {"@" + hx([]byte(`{"a":1}`)), nm(7), ".c7", nil, nv},
				{"^" + hx([]byte("plain text")), nm(8), ".c8", nil, predSpec{"always", nil, 0}}, {"^" + hx([]byte(`{"type":"Feature"}`)), nm(9), ".c9", []string{nm(9) + "-alias"}, predSpec{"always", nil, 0}},
				{"^" + hx([]byte("%PDF-1.4")), nm(10), ".c10", nil, predSpec{"always", nil, 0}},
			}
			nops = len(ops)
		}
		if h%8 == 6 {
			// one name registered at two places of the tree, each registration followed by a child under that name
			// (Lookup finds the one that comes first in the tree order), every link accepting its parent's probe: the
			// two same-named nodes keep their own parents and ancestors, whichever is detected first
			pairs := [][2]int{{5, 11}, {11, 5}, {4, 5}, {5, 4}, {2, 11}, {9, 5}}
			pr := pairs[(h/8)%len(pairs)]
			pa := []string{"", "", "", "", "application/pdf", "application/zip", "", "", "", "text/html", "", "application/x-ole-storage"}
			px := []int{0, 0, 2, 0, 4, 5, 0, 0, 0, 8, 0, 11} // index into probeBase reaching that parent
			if pr[0] == 2 {
				pa[2] = "application/json"
			}
			nm := fmt.Sprintf("application/x-verif-twin-%d", h)
			al := predSpec{"always", nil, 0}
			ops = []c14op{
				{pa[pr[0]], nm, ".t1", nil, al},
				{nm, nm + "-child-a", ".ca", nil, al},
				{pa[pr[1]], nm, ".t2", []string{nm + "-alias"}, al},
				{nm, nm + "-child-b", ".cb", nil, al},
			}
			// detection order matters for anything remembered between detections: both orders
			probes = [][]byte{probeBase[px[pr[0]]], probeBase[px[pr[1]]], probeBase[px[pr[0]]], probeBase[1], probeBase[px[pr[1]]]}
			nops = len(ops)
		}
		if h%8 == 2 {
			// extensions carrying one of the three charset-carrying names as an alias, below a charset-carrying node and
			// at the root: the result has the extension's own name and no parameter
			doc := []byte("<html><head><meta charset=\"iso-8859-2\"/></head><body>x</body></html>")
			xml := []byte("<?xml version=\"1.0\" encoding=\"windows-1250\"?><schema/>")
			ops = append(ops,
				c14op{"text/html", fmt.Sprintf("application/x-verif-xhtml-%d", h), ".xh", []string{"text/html"}, predSpec{"prefix", []byte("<html><head><meta"), 0}},
				c14op{"text/xml", fmt.Sprintf("application/x-verif-xsd-%d", h), ".xs", []string{"text/xml"}, predSpec{"prefix", []byte("<?xml version=\"1.0\" enc"), 0}},
				c14op{"", fmt.Sprintf("application/x-verif-log-%d", h), ".lg", []string{"text/plain"}, predSpec{"prefix", []byte("LOG "), 0}})
			probes = append(probes, doc, xml, []byte("LOG plain ascii text"))
			nops = len(ops)
		}
		encs := make([]string, len(ops))
		for i, o := range ops {
			encs[i] = o.enc()
		}
		hist := strings.Join(encs, "+")
		if !c.mine([]byte(hist)) {
			continue
		}
		for k := 0; k < 6; k++ {
			probes = append(probes, randText(r, r.Intn(20)))
		}
		ph := make([]string, len(probes))
		for i, p := range probes {
			ph[i] = hx(p)
		}
		cmd := exec.Command(self, "c14-child", hist, strings.Join(ph, ","))
		outb, err := cmd.Output()
		if err != nil {
			c.emit("!propfail", "C14", fmt.Sprintf("child process failed (%v) on history %s", err, hist))
			continue
		}
		c.stats.note("history", []byte(hist), nops, true)
		c.stats.Evaluations += int64(len(probes)*2 + nops)
		c.stats.sample(fmt.Sprintf("history of %d Extend calls: parents=%v preds=%v", nops, parentsOf(ops), predsOf(ops)))
		// before-results (this process has no extensions)
		for _, line := range strings.Split(string(outb), "\n") {
			if line == "" {
				continue
			}
			if strings.HasPrefix(line, "extp\t") {
				f := strings.Split(line, "\t")
				x, _ := hexDecode(strings.Replace(f[2], "-", "", 1))
				lim, _ := strconv.Atoi(f[3])
				m, _ := detectAt(x, uint32(lim))
				before := "NIL"
				if m != nil {
					before = chainOf(m)
				}
				line += "\t" + before
			}
			if c.prop == "C03" && strings.HasPrefix(line, "!propfail\tC14\tafter the Extend calls DetectReader and Detect disagree") {
				line = strings.Replace(line, "!propfail\tC14\t", "!propfail\tC03\t", 1) // one walk for every entry point
			}
			c.out.WriteString(line + "\n")
		}
	}
}

func parentsOf(ops []c14op) []string {
	o := make([]string, len(ops))
	for i, x := range ops {
		o[i] = x.parent
	}
	return o
}
func predsOf(ops []c14op) []string {
	o := make([]string, len(ops))
	for i, x := range ops {
		o[i] = x.pred.kind
	}
	return o
}

func init() {
	commands["c14-child"] = cmdC14Child
	commands["run-c14"] = func(args []string) {
		c := parseRunArgs(args)
		runC14(c)
		c.finish()
	}
}
