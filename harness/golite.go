package main

// TRANSLATOR, part 3: bodies of the loop-free function detectors of internal/magic -> GoLite terms
// (coq/Gen/FuncTerms.v).  Only what can be rendered faithfully is translated: `return e`, `if c { return
// true|false|e }`, local definitions of binary.X.UintNN(raw[..]) values, calls of same-package helpers whose
// body is a single return, and the atoms len(raw) cmp K, raw[K] cmp v, bytes.HasPrefix, bytes.Equal,
// bytes.Contains over a min(..) window, binary.X.Uint16/32 cmp v.  Anything else makes the whole function
// "not translated" (it keeps its hand-written term, tied by correspondence only).

import (
	"fmt"
	"go/ast"
	"go/token"
	"path/filepath"
	"sort"
	"strconv"
	"strings"
)

type glEnv struct {
	raw     string                     // name of the []byte parameter
	u       map[string]string          // local name -> "BU32 BE 0" style partial atom (endian, width, offset)
	lits    map[string][]byte          // local / package names bound to byte-slice literals
	ints    map[string]int64           // local / package integer constants
	helpers map[string]*ast.FuncDecl   // same-package functions
	depth   int
}

type glFail struct{ why string }

func glf(format string, a ...any) { panic(glFail{fmt.Sprintf(format, a...)}) }

func glBytes(b []byte) string {
	if len(b) == 0 {
		return "(@nil N)"
	}
	parts := make([]string, len(b))
	for i, x := range b {
		parts[i] = strconv.Itoa(int(x))
	}
	return "[" + strings.Join(parts, ";") + "]%N"
}

func (e *glEnv) intOf(x ast.Expr) (int64, bool) {
	switch v := x.(type) {
	case *ast.ParenExpr:
		return e.intOf(v.X)
	case *ast.BasicLit:
		if v.Kind == token.CHAR {
			s, err := strconv.Unquote(v.Value)
			if err == nil && len(s) == 1 {
				return int64(s[0]), true
			}
			return 0, false
		}
		return intLit(v)
	case *ast.Ident:
		n, ok := e.ints[v.Name]
		return n, ok
	case *ast.BinaryExpr:
		a, ok1 := e.intOf(v.X)
		c, ok2 := e.intOf(v.Y)
		if ok1 && ok2 {
			switch v.Op {
			case token.ADD:
				return a + c, true
			case token.SUB:
				return a - c, true
			case token.MUL:
				return a * c, true
			}
		}
	case *ast.CallExpr: // byte(0x..), uint32(K), int(K)
		if id, ok := v.Fun.(*ast.Ident); ok && len(v.Args) == 1 && (id.Name == "byte" || id.Name == "uint32" || id.Name == "uint16" || id.Name == "int" || id.Name == "uint8") {
			return e.intOf(v.Args[0])
		}
	}
	return 0, false
}

func (e *glEnv) litOf(x ast.Expr) ([]byte, bool) {
	if bs, ok := byteSliceLit(x); ok {
		return bs, true
	}
	if id, ok := x.(*ast.Ident); ok {
		b, ok := e.lits[id.Name]
		return b, ok
	}
	return nil, false
}

func (e *glEnv) isRaw(x ast.Expr) bool {
	id, ok := x.(*ast.Ident)
	return ok && id.Name == e.raw
}

// raw, raw[A:], raw[A:B], raw[:B]  ->  (lo, hi, hasHi)
func (e *glEnv) sliceOf(x ast.Expr) (int64, int64, bool, bool) {
	if e.isRaw(x) {
		return 0, 0, false, true
	}
	s, ok := x.(*ast.SliceExpr)
	if !ok || !e.isRaw(s.X) || s.Slice3 {
		return 0, 0, false, false
	}
	lo, hi := int64(0), int64(0)
	hasHi := false
	if s.Low != nil {
		v, ok := e.intOf(s.Low)
		if !ok {
			return 0, 0, false, false
		}
		lo = v
	}
	if s.High != nil {
		v, ok := e.intOf(s.High)
		if !ok {
			return 0, 0, false, false
		}
		hi, hasHi = v, true
	}
	return lo, hi, hasHi, true
}

var cmpNames = map[token.Token]string{token.EQL: "CEq", token.NEQ: "CNe", token.LSS: "CLt", token.LEQ: "CLe", token.GTR: "CGt", token.GEQ: "CGe"}
var cmpMirror = map[token.Token]token.Token{token.EQL: token.EQL, token.NEQ: token.NEQ, token.LSS: token.GTR, token.LEQ: token.GEQ, token.GTR: token.LSS, token.GEQ: token.LEQ}

// binary.BigEndian.Uint32(raw[A:B]) etc. -> "BU32 BE A"
func (e *glEnv) uintAtom(x ast.Expr) (string, bool) {
	if id, ok := x.(*ast.Ident); ok {
		a, ok := e.u[id.Name]
		return a, ok
	}
	c, ok := x.(*ast.CallExpr)
	if !ok || len(c.Args) != 1 {
		return "", false
	}
	sel, ok := c.Fun.(*ast.SelectorExpr)
	if !ok {
		return "", false
	}
	in, ok := sel.X.(*ast.SelectorExpr)
	if !ok {
		return "", false
	}
	pk, ok := in.X.(*ast.Ident)
	if !ok || pk.Name != "binary" {
		return "", false
	}
	en := map[string]string{"BigEndian": "BE", "LittleEndian": "LE"}[in.Sel.Name]
	w := map[string]int64{"Uint16": 2, "Uint32": 4}[sel.Sel.Name]
	if en == "" || w == 0 {
		return "", false
	}
	lo, hi, hasHi, ok := e.sliceOf(c.Args[0])
	if !ok || (hasHi && hi < lo+w) {
		return "", false
	}
	// raw[A:] and raw[A:B] with B >= A+w read the same w bytes; Go panics when fewer than w are there, as BUxx does
	if hasHi && hi != lo+w {
		return "", false // the slice bound check differs from BUxx's: keep it out
	}
	if !hasHi && lo != 0 {
		return "", false // raw[A:] panics when A > len even if unused: only the exact forms are taken
	}
	return fmt.Sprintf("BU%d %s %d", w*8, en, lo), true
}

func (e *glEnv) bexp(x ast.Expr) string {
	switch v := x.(type) {
	case *ast.ParenExpr:
		return e.bexp(v.X)
	case *ast.Ident:
		if v.Name == "true" {
			return "(BConst true)"
		}
		if v.Name == "false" {
			return "(BConst false)"
		}
	case *ast.UnaryExpr:
		if v.Op == token.NOT {
			return "(BNot " + e.bexp(v.X) + ")"
		}
	case *ast.BinaryExpr:
		switch v.Op {
		case token.LAND:
			return "(BAnd " + e.bexp(v.X) + " " + e.bexp(v.Y) + ")"
		case token.LOR:
			return "(BOr " + e.bexp(v.X) + " " + e.bexp(v.Y) + ")"
		}
		if _, ok := cmpNames[v.Op]; ok {
			if s, ok := e.cmpAtom(v.X, v.Op, v.Y); ok {
				return s
			}
			if s, ok := e.cmpAtom(v.Y, cmpMirror[v.Op], v.X); ok {
				return s
			}
		}
	case *ast.CallExpr:
		if sel, ok := v.Fun.(*ast.SelectorExpr); ok {
			if pk, ok := sel.X.(*ast.Ident); ok && pk.Name == "bytes" {
				switch sel.Sel.Name {
				case "HasPrefix":
					if len(v.Args) == 2 {
						lo, _, hasHi, ok1 := e.sliceOf(v.Args[0])
						lit, ok2 := e.litOf(v.Args[1])
						if ok1 && ok2 && !hasHi {
							return fmt.Sprintf("(BPrefixAt %d %s)", lo, glBytes(lit))
						}
					}
				case "Equal":
					if len(v.Args) == 2 {
						lo, hi, hasHi, ok1 := e.sliceOf(v.Args[0])
						lit, ok2 := e.litOf(v.Args[1])
						if ok1 && ok2 && hasHi {
							return fmt.Sprintf("(BEqualSlice %d %d %s)", lo, hi, glBytes(lit))
						}
					}
				case "Contains":
					// bytes.Contains(raw[:min(N, len(raw))], lit)
					if len(v.Args) == 2 {
						if s, ok := v.Args[0].(*ast.SliceExpr); ok && e.isRaw(s.X) && s.High != nil && !s.Slice3 {
							lo := int64(0)
							okLo := true
							if s.Low != nil {
								lo, okLo = e.intOf(s.Low)
							}
							if mc, ok := s.High.(*ast.CallExpr); ok && okLo && len(mc.Args) == 2 {
								if mi, ok := mc.Fun.(*ast.Ident); ok && mi.Name == "min" {
									n, ok1 := e.intOf(mc.Args[0])
									lc, ok2 := mc.Args[1].(*ast.CallExpr)
									lit, ok3 := e.litOf(v.Args[1])
									if ok1 && ok2 && ok3 && e.isLen(lc) {
										return fmt.Sprintf("(BContainsWin %d %d %s)", lo, n, glBytes(lit))
									}
								}
							}
						}
					}
				}
			}
		}
		// same-package helper with a single-return body, called on raw
		if id, ok := v.Fun.(*ast.Ident); ok && len(v.Args) >= 1 && e.isRaw(v.Args[0]) {
			if h, ok := e.helpers[id.Name]; ok && e.depth < 3 && h.Body != nil && len(h.Body.List) == 1 {
				if rs, ok := h.Body.List[0].(*ast.ReturnStmt); ok && len(rs.Results) == 1 && len(h.Type.Params.List) >= 1 && len(h.Type.Params.List[0].Names) >= 1 {
					sub := &glEnv{raw: h.Type.Params.List[0].Names[0].Name, u: map[string]string{}, lits: e.lits, ints: e.ints, helpers: e.helpers, depth: e.depth + 1}
					return sub.bexp(rs.Results[0])
				}
			}
		}
	}
	glf("expression not in the fragment: %T", x)
	return ""
}

func (e *glEnv) isLen(c *ast.CallExpr) bool {
	id, ok := c.Fun.(*ast.Ident)
	return ok && id.Name == "len" && len(c.Args) == 1 && e.isRaw(c.Args[0])
}

func (e *glEnv) cmpAtom(l ast.Expr, op token.Token, r ast.Expr) (string, bool) {
	k, ok := e.intOf(r)
	if !ok || k < 0 {
		return "", false
	}
	if p, ok := l.(*ast.ParenExpr); ok {
		l = p.X
	}
	if c, ok := l.(*ast.CallExpr); ok && e.isLen(c) {
		return fmt.Sprintf("(BLen %s %d)", cmpNames[op], k), true
	}
	if ix, ok := l.(*ast.IndexExpr); ok && e.isRaw(ix.X) {
		if i, ok := e.intOf(ix.Index); ok && i >= 0 {
			return fmt.Sprintf("(BByte %d %s %d)", i, cmpNames[op], k), true
		}
	}
	if a, ok := e.uintAtom(l); ok {
		return fmt.Sprintf("(%s %s %d)", a, cmpNames[op], k), true
	}
	return "", false
}

func (e *glEnv) prog(stmts []ast.Stmt) string {
	if len(stmts) == 0 {
		glf("function body falls off the end")
	}
	switch s := stmts[0].(type) {
	case *ast.ReturnStmt:
		if len(s.Results) != 1 {
			glf("return with %d results", len(s.Results))
		}
		return "(PRet " + e.bexp(s.Results[0]) + ")"
	case *ast.IfStmt:
		if s.Init != nil || s.Else != nil || len(s.Body.List) != 1 {
			glf("if statement with init / else / several statements")
		}
		rs, ok := s.Body.List[0].(*ast.ReturnStmt)
		if !ok || len(rs.Results) != 1 {
			glf("if body is not a single return")
		}
		c := e.bexp(s.Cond)
		rest := e.prog(stmts[1:])
		if id, ok := rs.Results[0].(*ast.Ident); ok && (id.Name == "true" || id.Name == "false") {
			return fmt.Sprintf("(PIfRet %s %s %s)", c, id.Name, rest)
		}
		v := e.bexp(rs.Results[0])
		return fmt.Sprintf("(PIfRet (BAnd %s %s) true (PIfRet %s false %s))", c, v, c, rest)
	case *ast.AssignStmt:
		if s.Tok == token.DEFINE && len(s.Lhs) == 1 && len(s.Rhs) == 1 {
			if id, ok := s.Lhs[0].(*ast.Ident); ok {
				if a, ok := e.uintAtom(s.Rhs[0]); ok {
					e.u[id.Name] = a
					return e.prog(stmts[1:])
				}
				if b, ok := e.litOf(s.Rhs[0]); ok {
					e.lits[id.Name] = b
					return e.prog(stmts[1:])
				}
				if n, ok := e.intOf(s.Rhs[0]); ok {
					e.ints[id.Name] = n
					return e.prog(stmts[1:])
				}
			}
		}
		glf("assignment outside the fragment")
	case *ast.DeclStmt:
		if gd, ok := s.Decl.(*ast.GenDecl); ok && gd.Tok == token.CONST {
			for _, sp := range gd.Specs {
				vs := sp.(*ast.ValueSpec)
				for i, n := range vs.Names {
					if i < len(vs.Values) {
						if v, ok := e.intOf(vs.Values[i]); ok {
							e.ints[n.Name] = v
							continue
						}
					}
					glf("constant declaration outside the fragment")
				}
			}
			return e.prog(stmts[1:])
		}
		glf("declaration outside the fragment")
	}
	glf("statement not in the fragment: %T", stmts[0])
	return ""
}

// translateFuncs returns name -> Coq term for the translatable detector functions, and name -> reason for the rest
func translateFuncs(repo string) (map[string]string, map[string]string) {
	_, files := parseDir(filepath.Join(repo, "internal", "magic"))
	helpers := map[string]*ast.FuncDecl{}
	pkgLits := map[string][]byte{}
	pkgInts := map[string]int64{}
	for _, f := range files {
		for _, d := range f.Decls {
			switch dd := d.(type) {
			case *ast.FuncDecl:
				if dd.Recv == nil {
					helpers[dd.Name.Name] = dd
				}
			case *ast.GenDecl:
				for _, sp := range dd.Specs {
					if vs, ok := sp.(*ast.ValueSpec); ok {
						for i, n := range vs.Names {
							if i < len(vs.Values) {
								if b, ok := byteSliceLit(vs.Values[i]); ok {
									pkgLits[n.Name] = b
								} else if bl, ok := vs.Values[i].(*ast.BasicLit); ok {
									if v, ok := intLit(bl); ok {
										pkgInts[n.Name] = v
									}
								}
							}
						}
					}
				}
			}
		}
	}
	done := map[string]string{}
	failed := map[string]string{}
	for name, fd := range helpers {
		if !ast.IsExported(name) || !isDetectorSig(fd.Type) || fd.Body == nil {
			continue
		}
		if len(fd.Type.Params.List) == 0 || len(fd.Type.Params.List[0].Names) == 0 {
			failed[name] = "unnamed parameter"
			continue
		}
		func() {
			defer func() {
				if r := recover(); r != nil {
					if gf, ok := r.(glFail); ok {
						failed[name] = gf.why
						return
					}
					panic(r)
				}
			}()
			lits := map[string][]byte{}
			for k, v := range pkgLits {
				lits[k] = v
			}
			ints := map[string]int64{}
			for k, v := range pkgInts {
				ints[k] = v
			}
			env := &glEnv{raw: fd.Type.Params.List[0].Names[0].Name, u: map[string]string{}, lits: lits, ints: ints, helpers: helpers}
			done[name] = env.prog(fd.Body.List)
		}()
	}
	return done, failed
}

func writeFuncTerms(repo, outDir string) bool {
	done, failed := translateFuncs(repo)
	var sb strings.Builder
	sb.WriteString("(* GENERATED by verifh gen from /repo/internal/magic/*.go - function bodies in the GoLite fragment. *)\n")
	sb.WriteString("From Verif Require Import Base.Bytes Model.Types Model.GoLite.\nLocal Open Scope string_scope.\n\n")
	names := make([]string, 0, len(done))
	for n := range done {
		names = append(names, n)
	}
	sort.Strings(names)
	sb.WriteString("Definition gen_func_terms : list (string * prog) := [\n")
	for i, n := range names {
		sep := ";"
		if i == len(names)-1 {
			sep = ""
		}
		fmt.Fprintf(&sb, "  (%q, %s)%s\n", n, natify(done[n]), sep)
	}
	sb.WriteString("].\n\n")
	fn := make([]string, 0, len(failed))
	for n := range failed {
		fn = append(fn, n)
	}
	sort.Strings(fn)
	sb.WriteString("(* not translated (body outside the fragment): *)\nDefinition gen_untranslated : list (string * string) := [\n")
	for i, n := range fn {
		sep := ";"
		if i == len(fn)-1 {
			sep = ""
		}
		fmt.Fprintf(&sb, "  (%q, %q)%s\n", n, failed[n], sep)
	}
	sb.WriteString("].\n")
	return writeIfChanged(filepath.Join(outDir, "FuncTerms.v"), []byte(sb.String()))
}

// numbers inside the term: nat for lengths / indices / offsets, N for byte and integer values.  The printer above
// emits plain decimals; GoLite's constructors take nat for positions and N for values, so positions get %nat and
// values %N according to the constructor they follow.
func natify(t string) string {
	toks := strings.Fields(strings.NewReplacer("(", " ( ", ")", " ) ").Replace(t))
	var out []string
	// argument kinds per constructor: n = nat, v = N, c = cmp/endian/other (left as is)
	kinds := map[string]string{"BLen": "cn", "BByte": "ncv", "BPrefixAt": "n", "BEqualSlice": "nn", "BU16": "cncv", "BU32": "cncv", "BContainsWin": "nn"}
	for i := 0; i < len(toks); i++ {
		out = append(out, toks[i])
		if k, ok := kinds[toks[i]]; ok {
			for j := 0; j < len(k) && i+1+j < len(toks); j++ {
				a := toks[i+1+j]
				switch k[j] {
				case 'n':
					a += "%nat"
				case 'v':
					a += "%N"
				}
				out = append(out, a)
			}
			i += len(k)
		}
	}
	s := strings.Join(out, " ")
	s = strings.NewReplacer("( ", "(", " )", ")").Replace(s)
	return s
}
