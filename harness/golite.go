package main

// TRANSLATOR, part 3: bodies of the loop-free function detectors of internal/magic -> GoLite terms
// (coq/Gen/FuncTerms.v).  Only what can be rendered faithfully is translated: `return e`, `if c { return
// true|false|e }`, local definitions of binary.X.UintNN(raw[..]) values, calls of same-package helpers whose
// body is a single return, and the atoms len(raw) cmp K, raw[K] cmp v, bytes.HasPrefix, bytes.Equal,
// bytes.Contains over a min(..) window, binary.X.Uint16/32 cmp v.  Anything else makes the whole function
// "not translated" (it keeps its hand-written term, tied by correspondence only).

import (
	"go/printer"
	"bytes"
	"debug/macho"
	"fmt"
	"go/ast"
	"go/token"
	"path/filepath"
	"sort"
	"strconv"
	"strings"
)

type glEnv struct {
	raw     string                     // name of the []byte parameter
	u       map[string]string          // local name -> "BU32 BE 0" style partial atom (endian, width, offset)
	lits    map[string][]byte          // local / package names bound to byte-slice literals
	ints    map[string]int64           // local / package integer constants
	helpers map[string]*ast.FuncDecl   // same-package functions
	hvars   map[string]string          // package-level detectors built by offset(..) / prefix(..): name -> bexp over raw
	tabB    map[string][][]byte        // local tables of byte slices ([][]byte{...})
	tabI    map[string][]int64         // local tables of integers ([]int{...})
	depth   int
}

// constants of the standard library the detectors name; the values are the linked library's own
var stdConsts = map[string]int64{
	"macho.Magic32":  int64(macho.Magic32),
	"macho.Magic64":  int64(macho.Magic64),
	"macho.MagicFat": int64(macho.MagicFat),
}

type glFail struct{ why string }

func glf(format string, a ...any) { panic(glFail{fmt.Sprintf(format, a...)}) }

func glBytes(b []byte) string {
	if len(b) == 0 {
		return "(@nil N)"
	}
	parts := make([]string, len(b))
	for i, x := range b {
		parts[i] = strconv.Itoa(int(x))
	}
	return "[" + strings.Join(parts, ";") + "]%N"
}

func (e *glEnv) intOf(x ast.Expr) (int64, bool) {
	switch v := x.(type) {
	case *ast.ParenExpr:
		return e.intOf(v.X)
	case *ast.BasicLit:
		if v.Kind == token.CHAR {
			s, err := strconv.Unquote(v.Value)
			if err == nil && len(s) == 1 {
				return int64(s[0]), true
			}
			return 0, false
		}
		return intLit(v)
	case *ast.Ident:
		n, ok := e.ints[v.Name]
		return n, ok
	case *ast.SelectorExpr:
		if pk, ok := v.X.(*ast.Ident); ok {
			n, ok := stdConsts[pk.Name+"."+v.Sel.Name]
			return n, ok
		}
	case *ast.BinaryExpr:
		a, ok1 := e.intOf(v.X)
		c, ok2 := e.intOf(v.Y)
		if ok1 && ok2 {
			switch v.Op {
			case token.ADD:
				return a + c, true
			case token.SUB:
				return a - c, true
			case token.MUL:
				return a * c, true
			}
		}
	case *ast.CallExpr: // byte(0x..), uint32(K), int(K)
		if id, ok := v.Fun.(*ast.Ident); ok && len(v.Args) == 1 && (id.Name == "byte" || id.Name == "uint32" || id.Name == "uint16" || id.Name == "int" || id.Name == "uint8") {
			return e.intOf(v.Args[0])
		}
	}
	return 0, false
}

func (e *glEnv) litOf(x ast.Expr) ([]byte, bool) {
	if bs, ok := byteSliceLit(x); ok {
		return bs, true
	}
	if id, ok := x.(*ast.Ident); ok {
		b, ok := e.lits[id.Name]
		return b, ok
	}
	return nil, false
}

func (e *glEnv) isRaw(x ast.Expr) bool {
	id, ok := x.(*ast.Ident)
	return ok && id.Name == e.raw
}

// raw, raw[A:], raw[A:B], raw[:B]  ->  (lo, hi, hasHi)
func (e *glEnv) sliceOf(x ast.Expr) (int64, int64, bool, bool) {
	if e.isRaw(x) {
		return 0, 0, false, true
	}
	s, ok := x.(*ast.SliceExpr)
	if !ok || !e.isRaw(s.X) || s.Slice3 {
		return 0, 0, false, false
	}
	lo, hi := int64(0), int64(0)
	hasHi := false
	if s.Low != nil {
		v, ok := e.intOf(s.Low)
		if !ok {
			return 0, 0, false, false
		}
		lo = v
	}
	if s.High != nil {
		v, ok := e.intOf(s.High)
		if !ok {
			return 0, 0, false, false
		}
		hi, hasHi = v, true
	}
	return lo, hi, hasHi, true
}

var cmpNames = map[token.Token]string{token.EQL: "CEq", token.NEQ: "CNe", token.LSS: "CLt", token.LEQ: "CLe", token.GTR: "CGt", token.GEQ: "CGe"}
var cmpMirror = map[token.Token]token.Token{token.EQL: token.EQL, token.NEQ: token.NEQ, token.LSS: token.GTR, token.LEQ: token.GEQ, token.GTR: token.LSS, token.GEQ: token.LEQ}

// binary.BigEndian.Uint32(raw[A:B]) etc. -> "BU32 BE A"
func (e *glEnv) uintAtom(x ast.Expr) (string, bool) {
	if id, ok := x.(*ast.Ident); ok {
		a, ok := e.u[id.Name]
		return a, ok
	}
	c, ok := x.(*ast.CallExpr)
	if !ok || len(c.Args) != 1 {
		return "", false
	}
	sel, ok := c.Fun.(*ast.SelectorExpr)
	if !ok {
		return "", false
	}
	in, ok := sel.X.(*ast.SelectorExpr)
	if !ok {
		return "", false
	}
	pk, ok := in.X.(*ast.Ident)
	if !ok || pk.Name != "binary" {
		return "", false
	}
	en := map[string]string{"BigEndian": "BE", "LittleEndian": "LE"}[in.Sel.Name]
	w := map[string]int64{"Uint16": 2, "Uint32": 4}[sel.Sel.Name]
	if en == "" || w == 0 {
		return "", false
	}
	lo, hi, hasHi, ok := e.sliceOf(c.Args[0])
	if !ok || (hasHi && hi < lo+w) {
		return "", false
	}
	// raw[A:] and raw[A:B] with B >= A+w read the same w bytes; Go panics when fewer than w are there, as BUxx does
	if hasHi && hi != lo+w {
		return "", false // the slice bound check differs from BUxx's: keep it out
	}
	if !hasHi && lo != 0 {
		return "", false // raw[A:] panics when A > len even if unused: only the exact forms are taken
	}
	return fmt.Sprintf("BU%d %s %d", w*8, en, lo), true
}

func (e *glEnv) bexp(x ast.Expr) string {
	switch v := x.(type) {
	case *ast.ParenExpr:
		return e.bexp(v.X)
	case *ast.Ident:
		if v.Name == "true" {
			return "(BConst true)"
		}
		if v.Name == "false" {
			return "(BConst false)"
		}
	case *ast.UnaryExpr:
		if v.Op == token.NOT {
			return "(BNot " + e.bexp(v.X) + ")"
		}
	case *ast.BinaryExpr:
		switch v.Op {
		case token.LAND:
			return "(BAnd " + e.bexp(v.X) + " " + e.bexp(v.Y) + ")"
		case token.LOR:
			return "(BOr " + e.bexp(v.X) + " " + e.bexp(v.Y) + ")"
		}
		if _, ok := cmpNames[v.Op]; ok {
			if s, ok := e.cmpAtom(v.X, v.Op, v.Y); ok {
				return s
			}
			if s, ok := e.cmpAtom(v.Y, cmpMirror[v.Op], v.X); ok {
				return s
			}
		}
	case *ast.CallExpr:
		if sel, ok := v.Fun.(*ast.SelectorExpr); ok {
			if pk, ok := sel.X.(*ast.Ident); ok && pk.Name == "bytes" {
				switch sel.Sel.Name {
				case "HasPrefix":
					if len(v.Args) == 2 {
						lo, _, hasHi, ok1 := e.sliceOf(v.Args[0])
						lit, ok2 := e.litOf(v.Args[1])
						if ok1 && ok2 && !hasHi {
							return fmt.Sprintf("(BPrefixAt %d %s)", lo, glBytes(lit))
						}
					}
				case "Equal":
					if len(v.Args) == 2 {
						lo, hi, hasHi, ok1 := e.sliceOf(v.Args[0])
						lit, ok2 := e.litOf(v.Args[1])
						if ok1 && ok2 && hasHi {
							return fmt.Sprintf("(BEqualSlice %d %d %s)", lo, hi, glBytes(lit))
						}
					}
				case "Contains":
					// bytes.Contains(raw[:min(N, len(raw))], lit)
					if len(v.Args) == 2 {
						if s, ok := v.Args[0].(*ast.SliceExpr); ok && e.isRaw(s.X) && s.High != nil && !s.Slice3 {
							lo := int64(0)
							okLo := true
							if s.Low != nil {
								lo, okLo = e.intOf(s.Low)
							}
							if mc, ok := s.High.(*ast.CallExpr); ok && okLo && len(mc.Args) == 2 {
								if mi, ok := mc.Fun.(*ast.Ident); ok && mi.Name == "min" {
									n, ok1 := e.intOf(mc.Args[0])
									lc, ok2 := mc.Args[1].(*ast.CallExpr)
									lit, ok3 := e.litOf(v.Args[1])
									if ok1 && ok2 && ok3 && e.isLen(lc) {
										return fmt.Sprintf("(BContainsWin %d %d %s)", lo, n, glBytes(lit))
									}
								}
							}
						}
					}
				}
			}
		}
		if len(v.Args) == 2 && e.isRaw(v.Args[0]) {
			if lits, ok := e.litOf(v.Args[1]); ok {
				if sel, ok := v.Fun.(*ast.SelectorExpr); ok && sel.Sel.Name == "Equal" {
					if pk, ok := sel.X.(*ast.Ident); ok && pk.Name == "bytes" {
						// bytes.Equal(raw, L): same length and L a prefix
						return fmt.Sprintf("(BAnd (BLen CEq %d) (BPrefixAt 0 %s))", len(lits), glBytes(lits))
					}
				}
			}
		}
		// same-package helper called on raw: a single return is taken as an expression, a longer body is translated
		// as a program and inlined through GoLite.inl (proved to evaluate like the program, Panic included)
		if id, ok := v.Fun.(*ast.Ident); ok && len(v.Args) >= 1 && e.isRaw(v.Args[0]) {
			if hv, ok := e.hvars[id.Name]; ok {
				return hv
			}
			if h, ok := e.helpers[id.Name]; ok && e.depth < 3 && h.Body != nil && len(h.Type.Params.List) >= 1 && len(h.Type.Params.List[0].Names) >= 1 {
				sub := &glEnv{raw: h.Type.Params.List[0].Names[0].Name, u: map[string]string{}, lits: copyMap(e.pkgLits()), ints: copyMap(e.pkgInts()), helpers: e.helpers, hvars: e.hvars,
					tabB: map[string][][]byte{}, tabI: map[string][]int64{}, depth: e.depth + 1}
				if len(h.Body.List) == 1 {
					if rs, ok := h.Body.List[0].(*ast.ReturnStmt); ok && len(rs.Results) == 1 {
						return sub.bexp(rs.Results[0])
					}
				}
				return "(inl " + sub.prog(h.Body.List) + ")"
			}
		}
	}
	glf("expression not in the fragment: %T", x)
	return ""
}

func (e *glEnv) isLen(c *ast.CallExpr) bool {
	id, ok := c.Fun.(*ast.Ident)
	return ok && id.Name == "len" && len(c.Args) == 1 && e.isRaw(c.Args[0])
}

func stripConv(l ast.Expr) ast.Expr {
	for {
		switch v := l.(type) {
		case *ast.ParenExpr:
			l = v.X
			continue
		case *ast.CallExpr:
			// value-preserving conversions of an unsigned 8/16/32-bit value on a 64-bit platform
			if id, ok := v.Fun.(*ast.Ident); ok && len(v.Args) == 1 && (id.Name == "int" || id.Name == "uint" || id.Name == "int64" || id.Name == "uint64" || id.Name == "uint32") {
				if _, isInt := v.Args[0].(*ast.BasicLit); !isInt {
					l = v.Args[0]
					continue
				}
			}
		}
		return l
	}
}

// atomOf renders the left side of a comparison: "BLen", "BByte 3", "BU32 BE 0"; width is the value's bit width
func (e *glEnv) atomOf(l ast.Expr) (string, int, bool) {
	l = stripConv(l)
	if c, ok := l.(*ast.CallExpr); ok && e.isLen(c) {
		return "BLen", 0, true
	}
	if ix, ok := l.(*ast.IndexExpr); ok && e.isRaw(ix.X) {
		if i, ok := e.intOf(ix.Index); ok && i >= 0 {
			return fmt.Sprintf("BByte %d", i), 8, true
		}
	}
	if a, ok := e.uintAtom(l); ok {
		w := 32
		if strings.HasPrefix(a, "BU16") {
			w = 16
		}
		return a, w, true
	}
	return "", 0, false
}

func (e *glEnv) cmpAtom(l ast.Expr, op token.Token, r ast.Expr) (string, bool) {
	k, ok := e.intOf(r)
	if !ok || k < 0 {
		return "", false
	}
	l = stripConv(l)
	// (x & M) == K  /  != K with few free bits: the disjunction over the values of x that the mask maps to K.
	// Every disjunct reads the same bytes, so the Panic behaviour is that of the single masked read.
	if be, ok := l.(*ast.BinaryExpr); ok && be.Op == token.AND && (op == token.EQL || op == token.NEQ) {
		x, mexp := be.X, be.Y
		m, okm := e.intOf(mexp)
		if !okm {
			x, mexp = be.Y, be.X
			m, okm = e.intOf(mexp)
		}
		if a, w, oka := e.atomOf(x); okm && oka && w > 0 && m >= 0 {
			full := int64(1)<<uint(w) - 1
			free := full &^ m
			var freeBits []int64
			for b := int64(1); b <= full; b <<= 1 {
				if free&b != 0 {
					freeBits = append(freeBits, b)
				}
			}
			if len(freeBits) > 4 {
				return "", false
			}
			var vals []int64
			if k&^m == 0 && k <= full {
				for sub := 0; sub < 1<<uint(len(freeBits)); sub++ {
					v := k
					for j, b := range freeBits {
						if sub&(1<<uint(j)) != 0 {
							v |= b
						}
					}
					vals = append(vals, v)
				}
			}
			sort.Slice(vals, func(i, j int) bool { return vals[i] < vals[j] })
			out := "(BConst false)"
			for i := len(vals) - 1; i >= 0; i-- {
				at := fmt.Sprintf("(%s CEq %d)", a, vals[i])
				if i == len(vals)-1 {
					out = at
				} else {
					out = "(BOr " + at + " " + out + ")"
				}
			}
			if len(vals) == 0 {
				// the read still happens: keep its Panic behaviour with a comparison that is never true
				return "", false
			}
			if op == token.NEQ {
				out = "(BNot " + out + ")"
			}
			return out, true
		}
		return "", false
	}
	if a, _, ok := e.atomOf(l); ok {
		return fmt.Sprintf("(%s %s %d)", a, cmpNames[op], k), true
	}
	return "", false
}

func copyMap[K comparable, V any](m map[K]V) map[K]V {
	out := map[K]V{}
	for k, v := range m {
		out[k] = v
	}
	return out
}

var glPkgLits map[string][]byte
var glPkgInts map[string]int64

func (e *glEnv) pkgLits() map[string][]byte { return glPkgLits }
func (e *glEnv) pkgInts() map[string]int64  { return glPkgInts }

func (e *glEnv) prog(stmts []ast.Stmt) string {
	return e.progK(stmts, func() string { glf("function body falls off the end"); return "" })
}

// if c { if d { return v } }  ->  (c && d, return v)
func (e *glEnv) ifRet(s *ast.IfStmt) (string, *ast.ReturnStmt) {
	if s.Init != nil || s.Else != nil || len(s.Body.List) != 1 {
		glf("if statement with init / else / several statements")
	}
	c := e.bexp(s.Cond)
	switch b := s.Body.List[0].(type) {
	case *ast.ReturnStmt:
		if len(b.Results) != 1 {
			glf("if body is not a single return")
		}
		return c, b
	case *ast.IfStmt:
		c2, rs := e.ifRet(b)
		return "(BAnd " + c + " " + c2 + ")", rs
	}
	glf("if body is not a single return")
	return "", nil
}

// tableOf: the elements of a literal table a loop ranges over, as integers or as byte slices
func (e *glEnv) tableOf(x ast.Expr) ([]int64, [][]byte, bool) {
	if id, ok := x.(*ast.Ident); ok {
		if t, ok := e.tabI[id.Name]; ok {
			return t, nil, true
		}
		if t, ok := e.tabB[id.Name]; ok {
			return nil, t, true
		}
		if b, ok := e.lits[id.Name]; ok {
			t := make([]int64, len(b))
			for i, v := range b {
				t[i] = int64(v)
			}
			return t, nil, true
		}
	}
	return nil, nil, false
}

func (e *glEnv) tableLit(x ast.Expr) ([]int64, [][]byte, bool) {
	cl, ok := x.(*ast.CompositeLit)
	if !ok {
		return nil, nil, false
	}
	at, ok := cl.Type.(*ast.ArrayType)
	if !ok || at.Len != nil {
		return nil, nil, false
	}
	if id, ok := at.Elt.(*ast.Ident); ok && (id.Name == "int" || id.Name == "uint32" || id.Name == "uint16" || id.Name == "int64") {
		var out []int64
		for _, el := range cl.Elts {
			v, ok := e.intOf(el)
			if !ok {
				return nil, nil, false
			}
			out = append(out, v)
		}
		return out, nil, true
	}
	if in, ok := at.Elt.(*ast.ArrayType); ok && in.Len == nil {
		if id, ok := in.Elt.(*ast.Ident); ok && id.Name == "byte" {
			var out [][]byte
			for _, el := range cl.Elts {
				b, ok := byteSliceLit(el)
				if !ok {
					return nil, nil, false
				}
				out = append(out, b)
			}
			return nil, out, true
		}
	}
	return nil, nil, false
}

func setVar(m map[string]int64, id ast.Expr, v int64) {
	if i, ok := id.(*ast.Ident); ok && i.Name != "_" {
		m[i.Name] = v
	}
}

// progK translates a statement list; k renders what follows it
func (e *glEnv) progK(stmts []ast.Stmt, k func() string) string {
	if len(stmts) == 0 {
		return k()
	}
	rest := func() string { return e.progK(stmts[1:], k) }
	switch s := stmts[0].(type) {
	case *ast.ReturnStmt:
		if len(s.Results) != 1 {
			glf("return with %d results", len(s.Results))
		}
		return "(PRet " + e.bexp(s.Results[0]) + ")"
	case *ast.IfStmt:
		c, rs := e.ifRet(s)
		if id, ok := rs.Results[0].(*ast.Ident); ok && (id.Name == "true" || id.Name == "false") {
			return fmt.Sprintf("(PIfRet %s %s %s)", c, id.Name, rest())
		}
		v := e.bexp(rs.Results[0])
		return fmt.Sprintf("(PIfRet (BAnd %s %s) true (PIfRet %s false %s))", c, v, c, rest())
	case *ast.RangeStmt:
		// for i, v := range TABLE { .. }: unrolled over the literal table, the variables bound to constants
		ti, tb, ok := e.tableOf(s.X)
		if !ok || s.Tok != token.DEFINE && s.Key != nil {
			glf("range over something that is not a literal table")
		}
		n := len(ti) + len(tb)
		if n > 64 {
			glf("table too long to unroll")
		}
		var iter func(i int) string
		iter = func(i int) string {
			if i == n {
				return rest()
			}
			if s.Key != nil {
				setVar(e.ints, s.Key, int64(i))
			}
			if s.Value != nil {
				if vid, ok := s.Value.(*ast.Ident); ok && vid.Name != "_" {
					if ti != nil {
						e.ints[vid.Name] = ti[i]
						delete(e.lits, vid.Name)
					} else {
						e.lits[vid.Name] = tb[i]
						delete(e.ints, vid.Name)
					}
				}
			}
			return e.progK(s.Body.List, func() string { return iter(i + 1) })
		}
		return iter(0)
	case *ast.ForStmt:
		// for i := A; i < B; i++ { .. } with constant bounds: unrolled
		as, ok1 := s.Init.(*ast.AssignStmt)
		cond, ok2 := s.Cond.(*ast.BinaryExpr)
		post, ok3 := s.Post.(*ast.IncDecStmt)
		if !ok1 || !ok2 || !ok3 || as.Tok != token.DEFINE || len(as.Lhs) != 1 || len(as.Rhs) != 1 || post.Tok != token.INC {
			glf("for statement outside the fragment")
		}
		iv, okv := as.Lhs[0].(*ast.Ident)
		a, oka := e.intOf(as.Rhs[0])
		ci, okc := cond.X.(*ast.Ident)
		pi, okp := post.X.(*ast.Ident)
		b, okb := e.intOf(cond.Y)
		if !okv || !oka || !okc || !okp || !okb || ci.Name != iv.Name || pi.Name != iv.Name || (cond.Op != token.LSS && cond.Op != token.LEQ) {
			glf("for statement outside the fragment")
		}
		if cond.Op == token.LEQ {
			b++
		}
		if b-a > 64 {
			glf("loop too long to unroll")
		}
		var iter func(i int64) string
		iter = func(i int64) string {
			if i >= b {
				delete(e.ints, iv.Name)
				return rest()
			}
			e.ints[iv.Name] = i
			return e.progK(s.Body.List, func() string { return iter(i + 1) })
		}
		return iter(a)
	case *ast.SwitchStmt:
		// switch TAG { case K..: return true|false }: one test per clause, in order; no default, no fallthrough
		if s.Init != nil || s.Tag == nil {
			glf("switch statement outside the fragment")
		}
		var tests []string
		for _, cs := range s.Body.List {
			cc := cs.(*ast.CaseClause)
			if cc.List == nil || len(cc.Body) != 1 {
				glf("switch clause outside the fragment")
			}
			rs, ok := cc.Body[0].(*ast.ReturnStmt)
			if !ok || len(rs.Results) != 1 {
				glf("switch clause outside the fragment")
			}
			id, ok := rs.Results[0].(*ast.Ident)
			if !ok || (id.Name != "true" && id.Name != "false") {
				glf("switch clause outside the fragment")
			}
			c := ""
			for i := len(cc.List) - 1; i >= 0; i-- {
				a, ok := e.cmpAtom(s.Tag, token.EQL, cc.List[i])
				if !ok {
					glf("switch tag or case value outside the fragment")
				}
				if c == "" {
					c = a
				} else {
					c = "(BOr " + a + " " + c + ")"
				}
			}
			tests = append(tests, fmt.Sprintf("(PIfRet %s %s ", c, id.Name))
		}
		return strings.Join(tests, "") + rest() + strings.Repeat(")", len(tests))
	case *ast.AssignStmt:
		if s.Tok == token.DEFINE && len(s.Lhs) == 1 && len(s.Rhs) == 1 {
			if id, ok := s.Lhs[0].(*ast.Ident); ok {
				if a, ok := e.uintAtom(s.Rhs[0]); ok {
					e.u[id.Name] = a
					return rest()
				}
				if b, ok := e.litOf(s.Rhs[0]); ok {
					e.lits[id.Name] = b
					return rest()
				}
				if n, ok := e.intOf(s.Rhs[0]); ok {
					e.ints[id.Name] = n
					return rest()
				}
				if ti, tb, ok := e.tableLit(s.Rhs[0]); ok {
					if tb != nil {
						e.tabB[id.Name] = tb
					} else {
						e.tabI[id.Name] = ti
					}
					return rest()
				}
			}
		}
		glf("assignment outside the fragment")
	case *ast.DeclStmt:
		if gd, ok := s.Decl.(*ast.GenDecl); ok && gd.Tok == token.CONST {
			for _, sp := range gd.Specs {
				vs := sp.(*ast.ValueSpec)
				for i, n := range vs.Names {
					if i < len(vs.Values) {
						if v, ok := e.intOf(vs.Values[i]); ok {
							e.ints[n.Name] = v
							continue
						}
					}
					glf("constant declaration outside the fragment")
				}
			}
			return rest()
		}
		glf("declaration outside the fragment")
	}
	glf("statement not in the fragment: %T", stmts[0])
	return ""
}

// translateFuncs returns name -> Coq term for the translatable detector functions, and name -> reason for the rest
// combTerms: package-level detectors built by a combinator whose closure body lies in the fragment (prefix, offset,
// ftyp, jpeg2k), translated from the closure body with the combinator's parameters bound to the literal arguments
// of that use.  name -> Coq term
var glCombTerms map[string]string
var glCombFailed map[string]string

func translateFuncs(repo string) (map[string]string, map[string]string) {
	_, files := parseDir(filepath.Join(repo, "internal", "magic"))
	helpers := map[string]*ast.FuncDecl{}
	pkgLits := map[string][]byte{}
	pkgInts := map[string]int64{}
	for _, f := range files {
		for _, d := range f.Decls {
			switch dd := d.(type) {
			case *ast.FuncDecl:
				if dd.Recv == nil {
					helpers[dd.Name.Name] = dd
				}
			case *ast.GenDecl:
				for _, sp := range dd.Specs {
					if vs, ok := sp.(*ast.ValueSpec); ok {
						for i, n := range vs.Names {
							if i < len(vs.Values) {
								if b, ok := byteSliceLit(vs.Values[i]); ok {
									pkgLits[n.Name] = b
								} else if bl, ok := vs.Values[i].(*ast.BasicLit); ok {
									if v, ok := intLit(bl); ok {
										pkgInts[n.Name] = v
									}
								}
							}
						}
					}
				}
			}
		}
	}
	glPkgLits, glPkgInts = pkgLits, pkgInts
	// package-level detectors built by the offset / prefix combinators, as other functions call them:
	//   offset(sig, K)  = len(raw) > K && bytes.HasPrefix(raw[K:], sig)      prefix(s1..sn) = HasPrefix(raw, s1) || ..
	hvars := map[string]string{}
	for _, f := range files {
		for _, d := range f.Decls {
			gd, ok := d.(*ast.GenDecl)
			if !ok || gd.Tok != token.VAR {
				continue
			}
			for _, sp := range gd.Specs {
				vs, ok := sp.(*ast.ValueSpec)
				if !ok {
					continue
				}
				for i, n := range vs.Names {
					if i >= len(vs.Values) {
						continue
					}
					c, ok := vs.Values[i].(*ast.CallExpr)
					if !ok {
						continue
					}
					fn, ok := c.Fun.(*ast.Ident)
					if !ok {
						continue
					}
					switch fn.Name {
					case "offset":
						if len(c.Args) == 2 {
							sig, ok1 := byteSliceLit(c.Args[0])
							off, ok2 := intLit(c.Args[1])
							if ok1 && ok2 && off >= 0 {
								hvars[n.Name] = fmt.Sprintf("(BAnd (BLen CGt %d) (BPrefixAt %d %s))", off, off, glBytes(sig))
							}
						}
					case "prefix":
						out := ""
						okAll := len(c.Args) > 0
						for j := len(c.Args) - 1; j >= 0; j-- {
							sig, ok := byteSliceLit(c.Args[j])
							if !ok {
								okAll = false
								break
							}
							at := fmt.Sprintf("(BPrefixAt 0 %s)", glBytes(sig))
							if out == "" {
								out = at
							} else {
								out = "(BOr " + at + " " + out + ")"
							}
						}
						if okAll {
							hvars[n.Name] = out
						}
					}
				}
			}
		}
	}
	glCombTerms = map[string]string{}
	glCombFailed = map[string]string{}
	for _, f := range files {
		for _, d := range f.Decls {
			gd, ok := d.(*ast.GenDecl)
			if !ok || gd.Tok != token.VAR {
				continue
			}
			for _, sp := range gd.Specs {
				vs, ok := sp.(*ast.ValueSpec)
				if !ok {
					continue
				}
				for i, n := range vs.Names {
					if i >= len(vs.Values) {
						continue
					}
					c, ok := vs.Values[i].(*ast.CallExpr)
					if !ok {
						continue
					}
					fn, ok := c.Fun.(*ast.Ident)
					if !ok || !(fn.Name == "prefix" || fn.Name == "offset" || fn.Name == "ftyp" || fn.Name == "jpeg2k") {
						continue
					}
					comb, ok := helpers[fn.Name]
					if !ok || comb.Body == nil || len(comb.Body.List) != 1 {
						glCombFailed[n.Name] = "combinator " + fn.Name + " is not a single return of a closure"
						continue
					}
					rs, ok := comb.Body.List[0].(*ast.ReturnStmt)
					if !ok || len(rs.Results) != 1 {
						glCombFailed[n.Name] = "combinator " + fn.Name + " is not a single return of a closure"
						continue
					}
					fl, ok := rs.Results[0].(*ast.FuncLit)
					if !ok || !isDetectorSig(fl.Type) || len(fl.Type.Params.List) == 0 || len(fl.Type.Params.List[0].Names) == 0 {
						glCombFailed[n.Name] = "combinator " + fn.Name + " does not return a detector closure"
						continue
					}
					func() {
						defer func() {
							if r := recover(); r != nil {
								if gf, ok := r.(glFail); ok {
									glCombFailed[n.Name] = gf.why
									return
								}
								panic(r)
							}
						}()
						env := &glEnv{raw: fl.Type.Params.List[0].Names[0].Name, u: map[string]string{}, lits: copyMap(pkgLits), ints: copyMap(pkgInts), helpers: helpers, hvars: hvars,
							tabB: map[string][][]byte{}, tabI: map[string][]int64{}}
						// bind the combinator's parameters to this use's literal arguments
						ai := 0
						for _, fld := range comb.Type.Params.List {
							for _, pn := range fld.Names {
								switch ft := fld.Type.(type) {
								case *ast.Ellipsis:
									var tb [][]byte
									for ; ai < len(c.Args); ai++ {
										b, ok := byteSliceLit(c.Args[ai])
										if !ok {
											glf("argument %d of %s is not a byte literal", ai, fn.Name)
										}
										tb = append(tb, b)
									}
									env.tabB[pn.Name] = tb
									if tb == nil {
										env.tabB[pn.Name] = [][]byte{}
									}
								case *ast.ArrayType:
									if ai >= len(c.Args) {
										glf("missing argument of %s", fn.Name)
									}
									b, ok := byteSliceLit(c.Args[ai])
									if !ok {
										glf("argument %d of %s is not a byte literal", ai, fn.Name)
									}
									env.lits[pn.Name] = b
									ai++
								case *ast.Ident:
									if ai >= len(c.Args) || ft.Name != "int" {
										glf("parameter %s of %s outside the fragment", pn.Name, fn.Name)
									}
									v, ok := intLit(c.Args[ai])
									if !ok {
										glf("argument %d of %s is not an integer literal", ai, fn.Name)
									}
									env.ints[pn.Name] = v
									ai++
								default:
									glf("parameter %s of %s outside the fragment", pn.Name, fn.Name)
								}
							}
						}
						glCombTerms[n.Name] = env.prog(fl.Body.List)
					}()
				}
			}
		}
	}
	done := map[string]string{}
	failed := map[string]string{}
	for name, fd := range helpers {
		if !ast.IsExported(name) || !isDetectorSig(fd.Type) || fd.Body == nil {
			continue
		}
		if len(fd.Type.Params.List) == 0 || len(fd.Type.Params.List[0].Names) == 0 {
			failed[name] = "unnamed parameter"
			continue
		}
		func() {
			defer func() {
				if r := recover(); r != nil {
					if gf, ok := r.(glFail); ok {
						failed[name] = gf.why
						return
					}
					panic(r)
				}
			}()
			lits := map[string][]byte{}
			for k, v := range pkgLits {
				lits[k] = v
			}
			ints := map[string]int64{}
			for k, v := range pkgInts {
				ints[k] = v
			}
			env := &glEnv{raw: fd.Type.Params.List[0].Names[0].Name, u: map[string]string{}, lits: lits, ints: ints, helpers: helpers, hvars: hvars,
				tabB: map[string][][]byte{}, tabI: map[string][]int64{}}
			done[name] = env.prog(fd.Body.List)
		}()
	}
	return done, failed
}

// callShapes: detector functions whose whole body is `return helper(args...)` with a same-package helper that lies
// outside the GoLite fragment (jsonHelper, sv, ...): the helper's name and the arguments as written.  The model
// dispatches such detectors to its model of the helper with these arguments (Model/Detectors.call_terms).
func callShapes(repo string) map[string][]string {
	fset, files := parseDir(filepath.Join(repo, "internal", "magic"))
	out := map[string][]string{}
	for _, f := range files {
		for _, d := range f.Decls {
			fd, ok := d.(*ast.FuncDecl)
			if !ok || fd.Recv != nil || fd.Body == nil || !ast.IsExported(fd.Name.Name) || !isDetectorSig(fd.Type) || len(fd.Body.List) != 1 {
				continue
			}
			rs, ok := fd.Body.List[0].(*ast.ReturnStmt)
			if !ok || len(rs.Results) != 1 {
				continue
			}
			c, ok := rs.Results[0].(*ast.CallExpr)
			if !ok {
				continue
			}
			id, ok := c.Fun.(*ast.Ident)
			if !ok || ast.IsExported(id.Name) {
				continue
			}
			shape := []string{id.Name}
			for _, a := range c.Args {
				var b bytes.Buffer
				printer.Fprint(&b, fset, a)
				shape = append(shape, strings.Join(strings.Fields(b.String()), " "))
			}
			out[fd.Name.Name] = shape
		}
	}
	return out
}

func writeFuncTerms(repo, outDir string) bool {
	done, failed := translateFuncs(repo)
	var sb strings.Builder
	sb.WriteString("(* GENERATED by verifh gen from /repo/internal/magic/*.go - function bodies in the GoLite fragment. *)\n")
	sb.WriteString("From Verif Require Import Base.Bytes Model.Types Model.GoLite.\nLocal Open Scope string_scope.\n\n")
	names := make([]string, 0, len(done))
	for n := range done {
		names = append(names, n)
	}
	sort.Strings(names)
	sb.WriteString("Definition gen_func_terms : list (string * prog) := [\n")
	for i, n := range names {
		sep := ";"
		if i == len(names)-1 {
			sep = ""
		}
		fmt.Fprintf(&sb, "  (%q, %s)%s\n", n, natify(done[n]), sep)
	}
	sb.WriteString("].\n\n")
	fn := make([]string, 0, len(failed))
	for n := range failed {
		fn = append(fn, n)
	}
	sort.Strings(fn)
	sb.WriteString("(* not translated (body outside the fragment): *)\nDefinition gen_untranslated : list (string * string) := [\n")
	for i, n := range fn {
		sep := ";"
		if i == len(fn)-1 {
			sep = ""
		}
		fmt.Fprintf(&sb, "  (%q, %q)%s\n", n, failed[n], sep)
	}
	sb.WriteString("].\n\n")
	cn := make([]string, 0, len(glCombTerms))
	for n := range glCombTerms {
		cn = append(cn, n)
	}
	sort.Strings(cn)
	sb.WriteString("(* detectors built by prefix / offset / ftyp / jpeg2k: the combinator's closure body with its parameters bound to\n   the literal arguments of the use *)\nDefinition gen_comb_terms : list (string * prog) := [\n")
	for i, n := range cn {
		sep := ";"
		if i == len(cn)-1 {
			sep = ""
		}
		fmt.Fprintf(&sb, "  (%q, %s)%s\n", n, natify(glCombTerms[n]), sep)
	}
	sb.WriteString("].\n\n")
	cf := make([]string, 0, len(glCombFailed))
	for n := range glCombFailed {
		cf = append(cf, n)
	}
	sort.Strings(cf)
	shapes := callShapes(repo)
	sn := make([]string, 0, len(shapes))
	for n := range shapes {
		if _, translated := done[n]; !translated {
			sn = append(sn, n)
		}
	}
	sort.Strings(sn)
	sb.WriteString("(* detectors outside the fragment whose body is a single call of a same-package helper: helper name and the\n   arguments as written in the current source *)\nDefinition gen_call_shapes : list (string * list string) := [\n")
	for i, n := range sn {
		sep := ";"
		if i == len(sn)-1 {
			sep = ""
		}
		parts := make([]string, len(shapes[n]))
		for k, a := range shapes[n] {
			parts[k] = fmt.Sprintf("%q", strings.ReplaceAll(a, "\"", "'"))
		}
		fmt.Fprintf(&sb, "  (%q, [%s])%s\n", n, strings.Join(parts, "; "), sep)
	}
	sb.WriteString("].\n\n")
	sb.WriteString("Definition gen_comb_untranslated : list (string * string) := [\n")
	for i, n := range cf {
		sep := ";"
		if i == len(cf)-1 {
			sep = ""
		}
		fmt.Fprintf(&sb, "  (%q, %q)%s\n", n, glCombFailed[n], sep)
	}
	sb.WriteString("].\n")
	return writeIfChanged(filepath.Join(outDir, "FuncTerms.v"), []byte(sb.String()))
}

// numbers inside the term: nat for lengths / indices / offsets, N for byte and integer values.  The printer above
// emits plain decimals; GoLite's constructors take nat for positions and N for values, so positions get %nat and
// values %N according to the constructor they follow.
func natify(t string) string {
	toks := strings.Fields(strings.NewReplacer("(", " ( ", ")", " ) ").Replace(t))
	var out []string
	// argument kinds per constructor: n = nat, v = N, c = cmp/endian/other (left as is)
	kinds := map[string]string{"BLen": "cn", "BByte": "ncv", "BPrefixAt": "n", "BEqualSlice": "nn", "BU16": "cncv", "BU32": "cncv", "BContainsWin": "nn"}
	for i := 0; i < len(toks); i++ {
		out = append(out, toks[i])
		if k, ok := kinds[toks[i]]; ok {
			for j := 0; j < len(k) && i+1+j < len(toks); j++ {
				a := toks[i+1+j]
				switch k[j] {
				case 'n':
					a += "%nat"
				case 'v':
					a += "%N"
				}
				out = append(out, a)
			}
			i += len(k)
		}
	}
	s := strings.Join(out, " ")
	s = strings.NewReplacer("( ", "(", " )", ")").Replace(s)
	return s
}
