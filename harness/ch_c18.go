package main

import (
	"strconv"
	"time"
	"archive/tar"
	"bytes"
	"fmt"
	"strings"
)

func (c *runCtx) c18Case(kind string, x []byte) {
	if !c.mine(x) {
		return
	}
	hdr := header(x, 3072)
	vec, _ := c.verdictVector(hdr, 3072)
	m, pan := detectAt(x, 3072)
	chain := "PANIC"
	if pan == nil && m != nil {
		chain = chainOf(m)
	}
	c.stats.note(kind, x, len(x), strings.HasPrefix(chain, "application/x-tar|"))
	if i := strings.IndexByte(chain, ';'); i > 0 {
		c.stats.Results[chain[:i]]++
	}
	c.emit("c18", hx(hdr), vec, chain, kind)
	if kind == "writer" && pan == nil && m != nil {
		// the same slice examined again (a detection must not have changed it), through the reader, and under limits at
		// and around the record size
		before := append([]byte{}, x...)
		m2, _ := detectAt(x, 3072)
		if !bytes.Equal(before, x) || m2 == nil || chainOf(m2) != chain {
			got := "NIL"
			if m2 != nil {
				got = chainOf(m2)
			}
			c.propfail("C18", fmt.Sprintf("examining the same archive twice gives %s then %s (buffer modified by the first detection: %v); first block %s", chain, got, !bytes.Equal(before, x), hx(x[:min(len(x), 512)])))
			copy(x, before)
		}
		for _, l := range []uint32{512, 513, 1024, 0, 511} {
			h2 := header(x, l)
			v2, _ := c.verdictVector(h2, l)
			ml, panl := detectAt(x, l)
			ch2 := "PANIC"
			if panl == nil && ml != nil {
				ch2 = chainOf(ml)
			}
			k2 := kind
			if len(h2) < 512 {
				k2 = "short" // fewer than 512 bytes examined: nothing is promised
			}
			c.stats.note(k2+"-limit", append([]byte(strconv.Itoa(int(l))+":"), h2...), len(h2), strings.HasPrefix(ch2, "application/x-tar|"))
			c.emit("c18", hx(h2), v2, ch2, k2)
		}
		if c.caseNo%4 == 1 {
			c.agree(kind, x, 3072, c.caseNo%16 == 1)
			c.agree(kind, x, 512, false)
		}
	}
	if c.stats.Evaluations%401 == 1 {
		h := hdr
		if len(h) > 160 {
			h = h[:160]
		}
		c.stats.sample(fmt.Sprintf("c18 kind=%s first160=%s chain=%s", kind, hx(h), chain))
	}
}

func runC18(c *runCtx) {
	r := c.rng
	names := []string{"a.txt", "dir/", "dir/file.bin", "nöm-ünï/ß.txt", strings.Repeat("long/", 30) + "x", "日本語/ファイル", "file with spaces", "-dash", "0", "x/gpkg-1", "pkg/gpkg-1", "gpkg-1", "a/gpkg-10", "./", strings.Repeat("n", 100), strings.Repeat("m", 99),
		"BMW-service-manual.txt", "ID3-tagging-notes.txt", "BZh-samples/readme", "MThd-dump.bin", "GIF89a", "%PDF-notes", "RIFF", "II*", "fLaC", "OggS", "070707", "Rar!", "7z", "wOFF", "#!AMR"}
	formats := []tar.Format{tar.FormatUSTAR, tar.FormatPAX, tar.FormatGNU}
	types := []byte{tar.TypeReg, tar.TypeDir, tar.TypeSymlink, tar.TypeLink, tar.TypeFifo, tar.TypeChar}
	nw := 200
	if c.tier == "thorough" {
		nw = 4000
	}
	var archives [][]byte
	for i := 0; i < nw; i++ {
		var buf bytes.Buffer
		w := tar.NewWriter(&buf)
		name := names[r.Intn(len(names))]
		if r.Intn(3) == 0 {
			name = string(randText(r, 1+r.Intn(60)))
			name = strings.Map(func(x rune) rune {
				if x == '\n' || x == '\t' || x == 0 {
					return '_'
				}
				return x
			}, name)
		}
		ty := types[r.Intn(len(types))]
		h := &tar.Header{Name: name, Mode: int64(r.Intn(0o7777)), Uid: r.Intn(2000000), Gid: r.Intn(70000), Typeflag: ty, Format: formats[r.Intn(3)],
			Uname: []string{"", "root", "üser"}[r.Intn(3)], Gname: []string{"", "wheel"}[r.Intn(2)]}
		body := []byte{}
		if ty == tar.TypeReg {
			body = randBytes(r, r.Intn(300))
			h.Size = int64(len(body))
		}
		if ty == tar.TypeSymlink || ty == tar.TypeLink {
			h.Linkname = names[r.Intn(len(names))]
		}
		if h.Format == tar.FormatUSTAR && (len(name) > 100 || !isASCII(name) || !isASCII(h.Uname) || h.Uid > 0o7777777 || len(h.Linkname) > 100 || !isASCII(h.Linkname)) {
			h.Format = tar.FormatPAX
		}
		if h.Format == tar.FormatGNU && (!isASCII(name) || !isASCII(h.Uname) || !isASCII(h.Linkname)) && i%2 == 0 {
			h.Format = tar.FormatPAX // (every other time: the GNU format takes such names as they are)
		}
		if err := w.WriteHeader(h); err != nil {
			c.stats.Kinds["writer-refused"]++
			continue
		}
		w.Write(body)
		w.Close()
		a := buf.Bytes()
		archives = append(archives, a)
		c.c18Case("writer", a)
	}
	// heavy headers: GNU-format members whose name and link target are long runs of non-ASCII bytes, so that the byte
	// sum of the first block needs all six octal digits of the checksum field (0100000 and more)
	var heavy [][]byte
	for i := 0; i < 24; i++ {
		var buf bytes.Buffer
		w := tar.NewWriter(&buf)
		fill := []string{"日本語ファイル名", "\xff", "\xfe\xfd", "é", "ÿþ"}[i%5]
		long := strings.Repeat(fill, 100/len(fill))
		h := &tar.Header{Name: long[:len(long)-i%7], Linkname: long[:len(long)-i%5], Typeflag: []byte{tar.TypeSymlink, tar.TypeLink}[i%2], Mode: 0o777, Format: tar.FormatGNU,
			Uname: []string{"", "üser"}[i%2], Uid: []int{0, 1 << 30}[i/2%2], Gid: []int{0, 1 << 30}[i/4%2]}
		if err := w.WriteHeader(h); err != nil {
			c.stats.Kinds["writer-refused"]++
			continue
		}
		w.Close()
		a := append([]byte{}, buf.Bytes()...)
		if len(a) >= 512 {
			heavy = append(heavy, a)
			c.c18Case("writer", a)
		}
	}
	// extreme numeric fields: sizes of 8 GiB and more (GNU base-256 / PAX records), huge ids, old and far-future times,
	// device numbers - headers only (the first block is all that is examined)
	for i := 0; i < 120; i++ {
		var buf bytes.Buffer
		w := tar.NewWriter(&buf)
		f := formats[i%3]
		h := &tar.Header{Name: names[r.Intn(6)], Mode: 0o644, Typeflag: tar.TypeReg, Format: f,
			Size:    []int64{1 << 33, 1<<33 - 1, 1 << 40, 1<<63 - 1, 077777777777, 0100000000000, 12345}[i%7],
			Uid:     []int{0, 1 << 21, 1<<31 - 1, 2097151, 2097152}[i%5],
			Gid:     []int{0, 1 << 24, 65534}[i%3],
			ModTime: time.Unix([]int64{0, -1, 1 << 33, 1 << 36, 1700000000}[i%5], 0)}
		if i%11 == 0 {
			h.Typeflag, h.Size, h.Devmajor, h.Devminor = tar.TypeChar, 0, int64(1<<21+i), int64(i)
		}
		if f == tar.FormatUSTAR && (h.Size > 077777777777 || h.Uid > 2097151 || h.Gid > 2097151 || h.ModTime.Unix() < 0 || h.ModTime.Unix() > 077777777777 || h.Devmajor > 2097151) {
			h.Format = tar.FormatPAX
		}
		if err := w.WriteHeader(h); err != nil {
			c.stats.Kinds["writer-refused"]++
			continue
		}
		a := append([]byte{}, buf.Bytes()...) // header block(s) only
		if len(a) >= 512 {
			c.c18Case("writer", a)
		}
	}
	// the checksum field in the other layouts conforming writers use (archive/tar and GNU tar write six digits, NUL,
	// space): seven digits + NUL (Solaris tar, pax, star), six digits + space + NUL, six digits + NUL + NUL, leading
	// spaces instead of leading zeros.  The recorded value is the same, the header stays a tar header.
	for ai, a := range archives {
		if ai >= 40 || len(a) < 512 {
			break
		}
		var v int
		if _, err := fmt.Sscanf(strings.TrimRight(string(a[148:154]), " \x00"), "%o", &v); err != nil {
			continue
		}
		for _, lay := range []string{fmt.Sprintf("%07o\x00", v), fmt.Sprintf("%06o \x00", v), fmt.Sprintf("%06o\x00\x00", v), fmt.Sprintf("%6o\x00 ", v), fmt.Sprintf("%7o ", v), fmt.Sprintf("%07o ", v)} {
			if len(lay) != 8 {
				continue
			}
			y := append([]byte{}, a...)
			copy(y[148:156], lay)
			c.c18Case("layout", y)
		}
	}
	// single-byte corruptions of the first block outside the checksum field
	nvals := 6
	nh := 12
	if c.tier == "thorough" {
		nvals = 255
		nh = 24
	}
	// the sweep covers ordinary headers and heavy ones (for those the signed and the unsigned sum differ widely)
	sweep := append([][]byte{}, archives[:min(len(archives), nh)]...)
	sweep = append(sweep, heavy[:min(len(heavy), nh/3)]...)
	for _, a := range sweep {
		if len(a) < 512 {
			continue
		}
		for p := 0; p < 512; p++ {
			if p >= 148 && p < 156 {
				continue
			}
			for k := 0; k < nvals; k++ {
				v := byte(0)
				if nvals == 255 {
					v = byte(int(a[p]) + 1 + k)
				} else {
					v = []byte{a[p] + 1, a[p] - 1, a[p] ^ 0x80, a[p] + 8, a[p] ^ 0xFF, byte(r.Intn(256))}[k]
				}
				if v == a[p] {
					continue
				}
				y := append([]byte{}, a...)
				y[p] = v
				c.c18Case("corrupt", y)
			}
		}
	}
}

func isASCII(s string) bool {
	for i := 0; i < len(s); i++ {
		if s[i] >= 0x80 {
			return false
		}
	}
	return true
}

func init() {
	commands["run-c18"] = func(args []string) {
		c := parseRunArgs(args)
		runC18(c)
		c.finish()
	}
}
