package main

// Translator: /repo sources (go/ast) + runtime dump (verif hooks) -> coq/Gen/*.v
// Regenerated on every run; files are rewritten only when their content changes.

import (
	"bytes"
	"fmt"
	"go/ast"
	"go/parser"
	"go/token"
	"os"
	"path/filepath"
	"sort"
	"strconv"
	"strings"

	"github.com/gabriel-vasile/mimetype"
	"github.com/gabriel-vasile/mimetype/internal/charset"
	mjson "github.com/gabriel-vasile/mimetype/internal/json"
)

type nodeDecl struct {
	varName  string
	mime     string
	ext      string
	det      string // "magic.Xz" -> "Xz"; root/errMIME closures -> "RootTrue"/"ErrFalse"
	children []string
	aliases  []string
}

func genFail(format string, a ...any) {
	fmt.Fprintf(os.Stderr, "GEN-FAIL: "+format+"\n", a...)
	os.Exit(3)
}

func strLit(e ast.Expr) (string, bool) {
	bl, ok := e.(*ast.BasicLit)
	if !ok || bl.Kind != token.STRING {
		return "", false
	}
	s, err := strconv.Unquote(bl.Value)
	if err != nil {
		return "", false
	}
	return s, true
}

func intLit(e ast.Expr) (int64, bool) {
	switch v := e.(type) {
	case *ast.BasicLit:
		switch v.Kind {
		case token.INT:
			n, err := strconv.ParseInt(v.Value, 0, 64)
			if err != nil {
				u, err2 := strconv.ParseUint(v.Value, 0, 64)
				if err2 != nil {
					return 0, false
				}
				return int64(u), true
			}
			return n, true
		case token.CHAR:
			s, err := strconv.Unquote(v.Value)
			if err != nil || len(s) == 0 {
				return 0, false
			}
			r := []rune(s)
			return int64(r[0]), true
		}
	case *ast.ParenExpr:
		return intLit(v.X)
	}
	return 0, false
}

// byteSliceLit evaluates []byte{...} and []byte("...") expressions.
func byteSliceLit(e ast.Expr) ([]byte, bool) {
	switch v := e.(type) {
	case *ast.CompositeLit:
		// []byte{...} or untyped {..} inside [][]byte
		if v.Type != nil {
			at, ok := v.Type.(*ast.ArrayType)
			if !ok {
				return nil, false
			}
			id, ok := at.Elt.(*ast.Ident)
			if !ok || id.Name != "byte" {
				return nil, false
			}
		}
		out := []byte{}
		for _, el := range v.Elts {
			n, ok := intLit(el)
			if !ok || n < 0 || n > 255 {
				return nil, false
			}
			out = append(out, byte(n))
		}
		return out, true
	case *ast.CallExpr:
		at, ok := v.Fun.(*ast.ArrayType)
		if !ok || len(v.Args) != 1 {
			return nil, false
		}
		id, ok := at.Elt.(*ast.Ident)
		if !ok || id.Name != "byte" {
			return nil, false
		}
		s, ok := strLit(v.Args[0])
		if !ok {
			return nil, false
		}
		return []byte(s), true
	}
	return nil, false
}

func parseDir(dir string) (*token.FileSet, []*ast.File) {
	fset := token.NewFileSet()
	ents, err := os.ReadDir(dir)
	if err != nil {
		genFail("readdir %s: %v", dir, err)
	}
	var files []*ast.File
	var names []string
	for _, e := range ents {
		n := e.Name()
		if e.IsDir() || !strings.HasSuffix(n, ".go") || strings.HasSuffix(n, "_test.go") || strings.HasPrefix(n, "verif_") {
			continue
		}
		names = append(names, n)
	}
	sort.Strings(names)
	for _, n := range names {
		f, err := parser.ParseFile(fset, filepath.Join(dir, n), nil, 0)
		if err != nil {
			genFail("parse %s: %v", n, err)
		}
		files = append(files, f)
	}
	return fset, files
}

// ---- tree.go -------------------------------------------------------------------------------

func parseNewMIME(varName string, e ast.Expr) (*nodeDecl, bool) {
	// peel .alias(...)
	var aliases []string
	call, ok := e.(*ast.CallExpr)
	if !ok {
		return nil, false
	}
	if sel, ok := call.Fun.(*ast.SelectorExpr); ok && sel.Sel.Name == "alias" {
		for _, a := range call.Args {
			s, ok := strLit(a)
			if !ok {
				genFail("alias of %s is not a string literal", varName)
			}
			aliases = append(aliases, s)
		}
		call, ok = sel.X.(*ast.CallExpr)
		if !ok {
			return nil, false
		}
	}
	id, ok := call.Fun.(*ast.Ident)
	if !ok || id.Name != "newMIME" || len(call.Args) < 3 {
		return nil, false
	}
	nd := &nodeDecl{varName: varName, aliases: aliases}
	var ok1, ok2 bool
	nd.mime, ok1 = strLit(call.Args[0])
	nd.ext, ok2 = strLit(call.Args[1])
	if !ok1 || !ok2 {
		genFail("newMIME(%s): mime/extension not string literals", varName)
	}
	switch d := call.Args[2].(type) {
	case *ast.SelectorExpr:
		nd.det = d.Sel.Name
	case *ast.FuncLit:
		// root: return true ; errMIME: return false
		nd.det = "Closure"
		if len(d.Body.List) == 1 {
			if r, ok := d.Body.List[0].(*ast.ReturnStmt); ok && len(r.Results) == 1 {
				if id, ok := r.Results[0].(*ast.Ident); ok {
					if id.Name == "true" {
						nd.det = "RootTrue"
					} else if id.Name == "false" {
						nd.det = "ErrFalse"
					}
				}
			}
		}
	default:
		genFail("newMIME(%s): unsupported detector expression", varName)
	}
	for _, c := range call.Args[3:] {
		id, ok := c.(*ast.Ident)
		if !ok {
			genFail("newMIME(%s): child is not an identifier", varName)
		}
		nd.children = append(nd.children, id.Name)
	}
	return nd, true
}

func parseTree(repo string) map[string]*nodeDecl {
	fset := token.NewFileSet()
	f, err := parser.ParseFile(fset, filepath.Join(repo, "tree.go"), nil, 0)
	if err != nil {
		genFail("parse tree.go: %v", err)
	}
	decls := map[string]*nodeDecl{}
	for _, d := range f.Decls {
		gd, ok := d.(*ast.GenDecl)
		if !ok || gd.Tok != token.VAR {
			continue
		}
		for _, sp := range gd.Specs {
			vs := sp.(*ast.ValueSpec)
			if len(vs.Names) != 1 || len(vs.Values) != 1 {
				continue
			}
			if nd, ok := parseNewMIME(vs.Names[0].Name, vs.Values[0]); ok {
				decls[nd.varName] = nd
			}
		}
	}
	return decls
}

// ---- internal/magic -------------------------------------------------------------------------

type sigDecl struct {
	name string
	kind string // Prefix, Offset, CiPrefix, Xml, Markup, Ftyp, Shebang, Jpeg2k, Func
	sigs [][]byte
	xml  [][2][]byte
	off  int64
}

func parseMagic(repo string) (map[string]*sigDecl, map[string][][]byte, map[string][]int64) {
	_, files := parseDir(filepath.Join(repo, "internal", "magic"))
	out := map[string]*sigDecl{}
	lits := map[string][][]byte{}
	ints := map[string][]int64{}
	for _, f := range files {
		for _, d := range f.Decls {
			switch dd := d.(type) {
			case *ast.FuncDecl:
				if dd.Recv != nil || dd.Body == nil {
					continue
				}
				name := dd.Name.Name
				var ls [][]byte
				var is []int64
				ast.Inspect(dd.Body, func(n ast.Node) bool {
					if e, ok := n.(ast.Expr); ok {
						if bs, ok := byteSliceLit(e); ok {
							ls = append(ls, bs)
							return false
						}
						if bl, ok := e.(*ast.BasicLit); ok {
							if bl.Kind == token.STRING {
								if s, err := strconv.Unquote(bl.Value); err == nil {
									ls = append(ls, []byte(s))
								}
							} else if v, ok := intLit(bl); ok {
								is = append(is, v)
							}
						}
					}
					return true
				})
				lits[name] = ls
				ints[name] = is
				if isDetectorSig(dd.Type) && ast.IsExported(name) {
					out[name] = &sigDecl{name: name, kind: "Func"}
				}
			case *ast.GenDecl:
				if dd.Tok != token.VAR {
					continue
				}
				for _, sp := range dd.Specs {
					vs := sp.(*ast.ValueSpec)
					if len(vs.Names) != 1 || len(vs.Values) != 1 {
						continue
					}
					call, ok := vs.Values[0].(*ast.CallExpr)
					if !ok {
						continue
					}
					id, ok := call.Fun.(*ast.Ident)
					if !ok {
						continue
					}
					name := vs.Names[0].Name
					sd := &sigDecl{name: name}
					switch id.Name {
					case "prefix", "ciPrefix", "markup", "ftyp", "shebang":
						sd.kind = map[string]string{"prefix": "Prefix", "ciPrefix": "CiPrefix", "markup": "Markup", "ftyp": "Ftyp", "shebang": "Shebang"}[id.Name]
						for _, a := range call.Args {
							bs, ok := byteSliceLit(a)
							if !ok {
								genFail("magic.%s: argument of %s is not a byte-slice literal", name, id.Name)
							}
							sd.sigs = append(sd.sigs, bs)
						}
					case "offset":
						sd.kind = "Offset"
						if len(call.Args) != 2 {
							genFail("magic.%s: offset arity", name)
						}
						bs, ok := byteSliceLit(call.Args[0])
						n, ok2 := intLit(call.Args[1])
						if !ok || !ok2 {
							genFail("magic.%s: offset arguments not literal", name)
						}
						sd.sigs = [][]byte{bs}
						sd.off = n
					case "jpeg2k":
						sd.kind = "Jpeg2k"
						bs, ok := byteSliceLit(call.Args[0])
						if !ok {
							genFail("magic.%s: jpeg2k argument not literal", name)
						}
						sd.sigs = [][]byte{bs}
					case "xml":
						sd.kind = "Xml"
						for _, a := range call.Args {
							c, ok := a.(*ast.CallExpr)
							if !ok || len(c.Args) != 2 {
								genFail("magic.%s: xml argument is not newXMLSig(..)", name)
							}
							ln, ok1 := strLit(c.Args[0])
							ns, ok2 := strLit(c.Args[1])
							if !ok1 || !ok2 {
								genFail("magic.%s: newXMLSig arguments not literal", name)
							}
							// newXMLSig: localName becomes "<"+name when non-empty
							var lnb []byte
							if ln != "" {
								lnb = []byte("<" + ln)
							}
							sd.xml = append(sd.xml, [2][]byte{lnb, []byte(ns)})
						}
					default:
						continue
					}
					out[name] = sd
				}
			}
		}
	}
	return out, lits, ints
}

func isDetectorSig(ft *ast.FuncType) bool {
	if ft.Params == nil || ft.Results == nil || len(ft.Results.List) != 1 {
		return false
	}
	n := 0
	for _, p := range ft.Params.List {
		k := len(p.Names)
		if k == 0 {
			k = 1
		}
		n += k
	}
	if n != 2 {
		return false
	}
	r, ok := ft.Results.List[0].Type.(*ast.Ident)
	if !ok || r.Name != "bool" {
		return false
	}
	if at, ok := ft.Params.List[0].Type.(*ast.ArrayType); !ok || at.Len != nil {
		return false
	}
	return true
}

// ---- Coq emission ---------------------------------------------------------------------------

func coqBytes(bs []byte) string {
	printable := len(bs) > 0
	for _, c := range bs {
		if c < 0x20 || c > 0x7e || c == '"' {
			printable = false
			break
		}
	}
	if printable {
		return "(b \"" + string(bs) + "\")"
	}
	var sb strings.Builder
	sb.WriteString("[")
	for i, c := range bs {
		if i > 0 {
			sb.WriteString(";")
		}
		sb.WriteString(strconv.Itoa(int(c)))
	}
	sb.WriteString("]")
	if len(bs) == 0 {
		return "(@nil N)"
	}
	return sb.String()
}

func coqBytesList(l [][]byte) string {
	if len(l) == 0 {
		return "(@nil bytes)"
	}
	parts := make([]string, len(l))
	for i, x := range l {
		parts[i] = coqBytes(x)
	}
	return "[" + strings.Join(parts, "; ") + "]"
}

func coqStrList(l []string) string {
	bl := make([][]byte, len(l))
	for i, s := range l {
		bl[i] = []byte(s)
	}
	return coqBytesList(bl)
}

func coqNatList(l []int) string {
	if len(l) == 0 {
		return "(@nil nat)"
	}
	parts := make([]string, len(l))
	for i, x := range l {
		parts[i] = strconv.Itoa(x)
	}
	return "[" + strings.Join(parts, "; ") + "]"
}

func writeIfChanged(path string, content []byte) bool {
	old, err := os.ReadFile(path)
	if err == nil && bytes.Equal(old, content) {
		return false
	}
	if err := os.WriteFile(path, content, 0o644); err != nil {
		genFail("write %s: %v", path, err)
	}
	return true
}

func cmdGen(args []string) {
	repo, outDir := "/repo", "/verif/coq/Gen"
	if len(args) > 0 {
		repo = args[0]
	}
	if len(args) > 1 {
		outDir = args[1]
	}
	decls := parseTree(repo)
	rootD, ok := decls["root"]
	if !ok {
		genFail("tree.go: no root declaration")
	}
	errD, ok := decls["errMIME"]
	if !ok {
		genFail("tree.go: no errMIME declaration")
	}
	// flatten order (same recursion as (*MIME).flatten)
	type flatNode struct {
		d        *nodeDecl
		id       int
		parent   int
		children []int
	}
	var flat []*flatNode
	seen := map[string]bool{}
	var walk func(name string, parent int) int
	walk = func(name string, parent int) int {
		d, ok := decls[name]
		if !ok {
			genFail("tree.go: child %s has no newMIME declaration", name)
		}
		if seen[name] {
			genFail("tree.go: node %s occurs twice in the tree", name)
		}
		seen[name] = true
		fn := &flatNode{d: d, id: len(flat), parent: parent}
		flat = append(flat, fn)
		for _, c := range d.children {
			fn.children = append(fn.children, walk(c, fn.id))
		}
		return fn.id
	}
	walk("root", -1)

	// cross-check with the runtime tree (real pointers)
	dump := mimetype.VerifDump()
	if len(dump) != len(flat) {
		genFail("runtime tree has %d nodes, tree.go declares %d reachable from root", len(dump), len(flat))
	}
	for i, rn := range dump {
		fn := flat[i]
		if rn.MIME != fn.d.mime || rn.Extension != fn.d.ext || rn.Parent != fn.parent ||
			fmt.Sprint(rn.Children) != fmt.Sprint(fn.children) || fmt.Sprint(rn.Aliases) != fmt.Sprint(fn.d.aliases) {
			genFail("runtime node %d (%s,%s,parent %d,children %v,aliases %v) differs from tree.go node %s (%s,%s,parent %d,children %v,aliases %v)",
				i, rn.MIME, rn.Extension, rn.Parent, rn.Children, rn.Aliases, fn.d.varName, fn.d.mime, fn.d.ext, fn.parent, fn.children, fn.d.aliases)
		}
	}
	em := mimetype.VerifErrMIME()
	if em.String() != errD.mime || em.Extension() != errD.ext || em.Parent() != nil {
		genFail("runtime errMIME differs from tree.go")
	}

	sigs, lits, ints := parseMagic(repo)

	// ---- TreeData.v
	var sb strings.Builder
	sb.WriteString("(* GENERATED by /verif/harness gen from /repo/tree.go + runtime dump. Do not edit. *)\n")
	sb.WriteString("From Verif Require Import Base.Bytes Model.Types.\nLocal Open Scope N_scope.\nLocal Open Scope string_scope.\n\n")
	sb.WriteString("Definition nodes : list node := [\n")
	for i, fn := range flat {
		par := "None"
		if fn.parent >= 0 {
			par = fmt.Sprintf("(Some %d%%nat)", fn.parent)
		}
		sep := ";"
		if i == len(flat)-1 {
			sep = ""
		}
		fmt.Fprintf(&sb, "  mk_node %d%%nat %s %s %s %s (%s)%%nat \"%s\" \"%s\"%s\n", fn.id, coqBytes([]byte(fn.d.mime)), coqBytes([]byte(fn.d.ext)),
			coqStrList(fn.d.aliases), par, coqNatList(fn.children), fn.d.det, fn.d.varName, sep)
	}
	sb.WriteString("].\n\n")
	var emitTree func(id int, ind string)
	emitTree = func(id int, ind string) {
		fn := flat[id]
		if len(fn.children) == 0 {
			fmt.Fprintf(&sb, "%sT %d%%nat []", ind, id)
			return
		}
		fmt.Fprintf(&sb, "%sT %d%%nat [\n", ind, id)
		for k, c := range fn.children {
			emitTree(c, ind+" ")
			if k < len(fn.children)-1 {
				sb.WriteString(";\n")
			}
		}
		sb.WriteString("]")
	}
	sb.WriteString("Definition tree0 : tree :=\n")
	emitTree(0, " ")
	sb.WriteString(".\n\n")
	fmt.Fprintf(&sb, "Definition err_node : node := mk_node 0%%nat %s %s (@nil bytes) None (@nil nat) \"%s\" \"errMIME\".\n", coqBytes([]byte(errD.mime)), coqBytes([]byte(errD.ext)), errD.det)
	fmt.Fprintf(&sb, "Definition root_det : string := \"%s\".\n", rootD.det)
	fmt.Fprintf(&sb, "Definition default_limit : N := %d.\n", mimetype.VerifDefaultLimit())
	ch1 := writeIfChanged(filepath.Join(outDir, "TreeData.v"), []byte(sb.String()))

	// ---- SigData.v
	sb.Reset()
	sb.WriteString("(* GENERATED by /verif/harness gen from /repo/internal/magic/*.go. Do not edit. *)\n")
	sb.WriteString("From Verif Require Import Base.Bytes Model.Types.\nLocal Open Scope N_scope.\nLocal Open Scope string_scope.\n\n")
	var names []string
	for n := range sigs {
		names = append(names, n)
	}
	sort.Strings(names)
	sb.WriteString("Definition sigs : list (string * det) := [\n")
	for i, n := range names {
		sd := sigs[n]
		var t string
		switch sd.kind {
		case "Prefix":
			t = "DPrefix " + coqBytesList(sd.sigs)
		case "CiPrefix":
			t = "DCiPrefix " + coqBytesList(sd.sigs)
		case "Markup":
			t = "DMarkup " + coqBytesList(sd.sigs)
		case "Ftyp":
			t = "DFtyp " + coqBytesList(sd.sigs)
		case "Shebang":
			t = "DShebang " + coqBytesList(sd.sigs)
		case "Offset":
			t = fmt.Sprintf("DOffset %s %d%%nat", coqBytes(sd.sigs[0]), sd.off)
		case "Jpeg2k":
			t = "DJpeg2k " + coqBytes(sd.sigs[0])
		case "Xml":
			parts := make([]string, len(sd.xml))
			for k, x := range sd.xml {
				parts[k] = "(" + coqBytes(x[0]) + ", " + coqBytes(x[1]) + ")"
			}
			t = "DXml [" + strings.Join(parts, "; ") + "]"
		case "Func":
			t = "DFunc \"" + n + "\""
		}
		sep := ";"
		if i == len(names)-1 {
			sep = ""
		}
		fmt.Fprintf(&sb, "  (\"%s\", %s)%s\n", n, t, sep)
	}
	sb.WriteString("].\n\n")
	// literals of function bodies (source order)
	var fnames []string
	for n := range lits {
		fnames = append(fnames, n)
	}
	sort.Strings(fnames)
	sb.WriteString("Definition func_lits : list (string * list bytes) := [\n")
	for i, n := range fnames {
		sep := ";"
		if i == len(fnames)-1 {
			sep = ""
		}
		fmt.Fprintf(&sb, "  (\"%s\", %s)%s\n", n, coqBytesList(lits[n]), sep)
	}
	sb.WriteString("].\n\n")
	sb.WriteString("Definition func_ints : list (string * list Z) := [\n")
	for i, n := range fnames {
		sep := ";"
		if i == len(fnames)-1 {
			sep = ""
		}
		parts := make([]string, len(ints[n]))
		for k, v := range ints[n] {
			parts[k] = fmt.Sprintf("%d", v)
		}
		l := "(@nil Z)"
		if len(parts) > 0 {
			l = "[" + strings.Join(parts, "; ") + "]%Z"
		}
		fmt.Fprintf(&sb, "  (\"%s\", %s)%s\n", n, l, sep)
	}
	sb.WriteString("].\n")
	ch2 := writeIfChanged(filepath.Join(outDir, "SigData.v"), []byte(sb.String()))

	// ---- Tables.v (runtime dump through the hooks)
	sb.Reset()
	sb.WriteString("(* GENERATED by /verif/harness gen from the runtime tables of /repo (verif hooks). Do not edit. *)\n")
	sb.WriteString("From Verif Require Import Base.Bytes Model.Types.\nLocal Open Scope N_scope.\nLocal Open Scope string_scope.\n\n")
	sb.WriteString("Definition boms : list (bytes * bytes) := [\n")
	bs := charset.VerifBoms()
	for i, bm := range bs {
		sep := ";"
		if i == len(bs)-1 {
			sep = ""
		}
		fmt.Fprintf(&sb, "  (%s, %s)%s\n", coqBytes(bm.BOM), coqBytes([]byte(bm.Enc)), sep)
	}
	sb.WriteString("].\n\n")
	tc := charset.VerifTextChars()
	sb.WriteString("Definition text_chars : list N := [")
	for i, c := range tc {
		if i > 0 {
			sb.WriteString(";")
		}
		if i%32 == 0 {
			sb.WriteString("\n  ")
		}
		sb.WriteString(strconv.Itoa(int(c)))
	}
	sb.WriteString("].\n\n")
	fmt.Fprintf(&sb, "Definition tc_F : N := %d.\nDefinition tc_T : N := %d.\nDefinition tc_I : N := %d.\nDefinition tc_X : N := %d.\n\n", charset.F, charset.T, charset.I, charset.X)
	qs := mjson.VerifQueries()
	var qn []string
	for k := range qs {
		qn = append(qn, k)
	}
	sort.Strings(qn)
	sb.WriteString("Definition queries : list (string * list (list bytes * list bytes)) := [\n")
	for i, k := range qn {
		sep := ";"
		if i == len(qn)-1 {
			sep = ""
		}
		parts := make([]string, len(qs[k]))
		for j, q := range qs[k] {
			parts[j] = "(" + coqBytesList(q.SearchPath) + ", " + coqBytesList(q.SearchVals) + ")"
		}
		l := "(@nil (list bytes * list bytes))"
		if len(parts) > 0 {
			l = "[" + strings.Join(parts, "; ") + "]"
		}
		fmt.Fprintf(&sb, "  (\"%s\", %s)%s\n", k, l, sep)
	}
	sb.WriteString("].\n\n")
	fmt.Fprintf(&sb, "Definition max_recursion : N := %d.\n", mjson.VerifMaxRecursion())
	fmt.Fprintf(&sb, "Definition pool_max_recursion : N := %d.\n", mjson.VerifPoolMaxRecursion())
	fmt.Fprintf(&sb, "Definition tok_null : N := %d.\nDefinition tok_true : N := %d.\nDefinition tok_false : N := %d.\nDefinition tok_number : N := %d.\nDefinition tok_string : N := %d.\nDefinition tok_array : N := %d.\nDefinition tok_object : N := %d.\n",
		mjson.TokNull, mjson.TokTrue, mjson.TokFalse, mjson.TokNumber, mjson.TokString, mjson.TokArray, mjson.TokObject)
	fmt.Fprintf(&sb, "Definition query_names : list (string * bytes) := [(\"none\", %s); (\"geo\", %s); (\"har\", %s); (\"gltf\", %s)].\n",
		coqBytes([]byte(mjson.QueryNone)), coqBytes([]byte(mjson.QueryGeo)), coqBytes([]byte(mjson.QueryHAR)), coqBytes([]byte(mjson.QueryGLTF)))
	ch3 := writeIfChanged(filepath.Join(outDir, "Tables.v"), []byte(sb.String()))
	ch4 := genAccess(repo, outDir)
	ch5 := writeFuncTerms(repo, outDir)
	ch6 := writeInputWrites(repo, outDir)
	ch7 := writeSrcFuncs(repo, outDir)
	fmt.Printf("gen: nodes=%d sigs=%d changed=%v,%v,%v,%v,%v,%v,%v\n", len(flat), len(sigs), ch1, ch2, ch3, ch4, ch5, ch6, ch7)
}
