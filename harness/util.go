package main

import (
	"syscall"
	"sync"
	"path/filepath"
	"io"
	"errors"
	"bytes"
	"bufio"
	"crypto/sha256"
	"encoding/hex"
	"encoding/json"
	"fmt"
	"math/rand"
	"os"
	"sort"
	"strconv"
	"strings"
	"sync/atomic"
	"time"

	"github.com/gabriel-vasile/mimetype"
)

// ---- run context -----------------------------------------------------------------------------

type runCtx struct {
	prop    string
	tier    string
	seed    int64
	shard   int
	nshard  int
	rng     *rand.Rand
	out     *bufio.Writer
	stats   *stats
	caseNo  int64
	nodes   []mimetype.VerifNode
	current atomic.Value // string: description of the case being executed (for the watchdog)
	startedCPU atomic.Int64 // CPU time of the process when the case started
	started atomic.Int64
}

type stats struct {
	Evaluations      int64            `json:"evaluations"`
	Distinct         int64            `json:"distinct"`
	DistinctNontriv  int64            `json:"distinct_nontrivial"`
	LenHist          map[string]int64 `json:"length_histogram"`
	Fired            map[string]int64 `json:"detectors_fired"`
	Kinds            map[string]int64 `json:"case_kinds"`
	Results          map[string]int64 `json:"result_types"`
	Samples          []string         `json:"samples"`
	Extra            map[string]any   `json:"extra,omitempty"`
	seen             map[[16]byte]bool
	HarnessPropfails int64 `json:"harness_propfails"`
}

func newStats() *stats {
	return &stats{LenHist: map[string]int64{}, Fired: map[string]int64{}, Kinds: map[string]int64{}, Results: map[string]int64{},
		Extra: map[string]any{}, seen: map[[16]byte]bool{}}
}

func lenBucket(n int) string {
	switch {
	case n == 0:
		return "0"
	case n < 8:
		return "1-7"
	case n < 64:
		return "8-63"
	case n < 512:
		return "64-511"
	case n < 4096:
		return "512-4095"
	default:
		return "4096+"
	}
}

// note records one evaluated case; nontrivial per the caller's rule; returns true when the case is new.
func (s *stats) note(kind string, key []byte, n int, nontrivial bool) bool {
	s.Evaluations++
	s.Kinds[kind]++
	s.LenHist[lenBucket(n)]++
	h := sha256.Sum256(key)
	var k [16]byte
	copy(k[:], h[:16])
	if s.seen[k] {
		return false
	}
	s.seen[k] = true
	s.Distinct++
	if nontrivial {
		s.DistinctNontriv++
	}
	return true
}

func (s *stats) sample(x string) {
	if len(s.Samples) < 12 {
		if len(x) > 400 {
			x = x[:400] + "..."
		}
		s.Samples = append(s.Samples, x)
	}
}

func hx(b []byte) string {
	if len(b) == 0 {
		return "-"
	}
	return hex.EncodeToString(b)
}

func (c *runCtx) emit(fields ...string) {
	c.out.WriteString(strings.Join(fields, "\t"))
	c.out.WriteByte('\n')
}

// propfail: a property failure established by the harness on the implementation itself.
func (c *runCtx) propfail(prop, detail string) {
	c.stats.HarnessPropfails++
	c.emit("!propfail", prop, detail)
}

// mine reports whether the case identified by key belongs to this shard (by hash, so that
// duplicates meet in one shard and distinct counts add up across shards).
func (c *runCtx) mine(key ...[]byte) bool {
	c.caseNo++
	// every case restarts the watchdog: a case that does not return within 20 s is reported as a hang
	if len(key) > 0 {
		k := key[0]
		if len(k) > 200 {
			k = k[:200]
		}
		c.current.Store(c.prop + " case input(prefix)=" + hx(k))
	}
	c.startedCPU.Store(int64(cpuTime()))
	c.started.Store(time.Now().UnixNano())
	if c.nshard <= 1 {
		return true
	}
	if len(key) == 0 {
		return int(c.caseNo%int64(c.nshard)) == c.shard
	}
	h := sha256.New()
	for _, k := range key {
		h.Write(k)
		h.Write([]byte{0xff})
	}
	s := h.Sum(nil)
	return int(uint(s[0])|uint(s[1])<<8)%c.nshard == c.shard
}

func (c *runCtx) watch(desc string) {
	c.current.Store(desc)
	c.startedCPU.Store(int64(cpuTime()))
	c.started.Store(time.Now().UnixNano())
}

// user + system CPU time of this process
func cpuTime() time.Duration {
	var ru syscall.Rusage
	if err := syscall.Getrusage(syscall.RUSAGE_SELF, &ru); err != nil {
		return 0
	}
	return time.Duration(ru.Utime.Nano() + ru.Stime.Nano())
}

func (c *runCtx) startWatchdog() {
	c.current.Store("")
	watchCtx = c
	go func() {
		for {
			time.Sleep(500 * time.Millisecond)
			st := c.started.Load()
			// a hang is a case that has not returned after 20 s of wall-clock time during which this process itself
			// burnt at least 12 s of CPU (a spinning loop), or after 120 s whatever it did (a blocked call); wall-clock
			// time alone would turn a busy machine (other checks running next to this one) into a false alarm
			if st != 0 && time.Since(time.Unix(0, st)) > 20*time.Second &&
				(cpuTime()-time.Duration(c.startedCPU.Load()) > 12*time.Second || time.Since(time.Unix(0, st)) > 120*time.Second) {
				d, _ := c.current.Load().(string)
				c.out.Flush()
				fmt.Printf("!propfail\tC01\thang: no return after 20s: %s\n", d)
				os.Stdout.Sync()
				os.Exit(4)
			}
		}
	}()
}

func parseRunArgs(args []string) *runCtx {
	c := &runCtx{tier: "quick", seed: 1, nshard: 1}
	statsPath := ""
	for i := 0; i < len(args); i++ {
		switch args[i] {
		case "--tier":
			i++
			c.tier = args[i]
		case "--seed":
			i++
			c.seed, _ = strconv.ParseInt(args[i], 10, 64)
		case "--shard":
			i++
			fmt.Sscanf(args[i], "%d/%d", &c.shard, &c.nshard)
		case "--stats":
			i++
			statsPath = args[i]
		default:
			if c.prop == "" {
				c.prop = args[i]
			}
		}
	}
	c.rng = rand.New(rand.NewSource(c.seed*1000003 + int64(c.shard)*0)) // same stream in every shard; cases are dealt round-robin
	c.out = bufio.NewWriterSize(os.Stdout, 1<<20)
	c.stats = newStats()
	c.nodes = mimetype.VerifDump()
	c.startWatchdog()
	if statsPath != "" {
		defer func() {}()
		statsFile = statsPath
	}
	return c
}

var statsFile string

func (c *runCtx) finish() {
	c.started.Store(0)
	c.out.Flush()
	if statsFile != "" {
		// keep maps small and sorted for readability
		if len(c.stats.Fired) > 60 {
			type kv struct {
				k string
				v int64
			}
			var l []kv
			for k, v := range c.stats.Fired {
				l = append(l, kv{k, v})
			}
			sort.Slice(l, func(i, j int) bool { return l[i].v > l[j].v })
			c.stats.Extra["detectors_fired_total_kinds"] = len(l)
		}
		bs, _ := json.Marshal(c.stats)
		os.WriteFile(statsFile, bs, 0o644)
	}
}

// ---- observation of the implementation ---------------------------------------------------------

// verdictVector calls every node's detector on (hdr, limit) under recover.
// The header is handed over twice: as an exact-capacity copy and as a prefix of a larger poisoned
// buffer; a difference between the two runs means a detector looked past len(hdr).
func (c *runCtx) verdictVector(hdr []byte, limit uint32) (string, bool) {
	exact := make([]byte, len(hdr))
	copy(exact, hdr)
	big := make([]byte, len(hdr)+64)
	copy(big, hdr)
	p := byte(c.rng.Intn(256))
	for i := len(hdr); i < len(big); i++ {
		big[i] = p ^ byte(i*37)
	}
	a := c.callAll(exact, limit)
	b := c.callAll(big[:len(hdr)], limit)
	return a, a == b
}

func (c *runCtx) callAll(hdr []byte, limit uint32) string {
	var sb strings.Builder
	for i := range c.nodes {
		sb.WriteByte(callDet(c.nodes[i].Detector, hdr, limit))
	}
	return sb.String()
}

func callDet(f func([]byte, uint32) bool, hdr []byte, limit uint32) (r byte) {
	defer func() {
		if e := recover(); e != nil {
			r = 'P'
		}
	}()
	if f(hdr, limit) {
		return '1'
	}
	return '0'
}

func bareType(s string) string {
	if i := strings.IndexByte(s, ';'); i >= 0 {
		return s[:i]
	}
	return s
}

func chainOf(m *mimetype.MIME) string {
	var parts []string
	n := 0
	for p := m; p != nil; p = p.Parent() {
		parts = append(parts, bareType(p.String())+"|"+p.Extension())
		n++
		if n > 10000 {
			parts = append(parts, "CYCLE")
			break
		}
	}
	return strings.Join(parts, ";")
}

// detectAt runs Detect(x) at the given limit under recover. ok=false on panic / nil.
// every detection the harness makes is under the watchdog, also those made outside a numbered case (histories,
// probes, stress loops): when no case is being watched, the call itself is
var watchCtx *runCtx

func watchCall(x []byte, limit uint32) func() {
	w := watchCtx
	if w == nil {
		return func() {}
	}
	if st := w.started.Load(); st != 0 {
		// armed by a numbered case: a call that starts is progress, so an arm older than 5 s is renewed (the time
		// limit is about one call that does not return, not about long runs of calls behind one case number)
		if time.Since(time.Unix(0, st)) > 5*time.Second {
			w.startedCPU.Store(int64(cpuTime()))
			w.started.Store(time.Now().UnixNano())
		}
		return func() {}
	}
	k := x
	if len(k) > 300 {
		k = k[:300]
	}
	w.watch(fmt.Sprintf("Detect outside a numbered case: limit=%d input(prefix)=%s", limit, hx(k)))
	return func() { w.started.Store(0) }
}

func detectAt(x []byte, limit uint32) (m *mimetype.MIME, panicked any) {
	defer watchCall(x, limit)()
	defer func() {
		if e := recover(); e != nil {
			panicked = e
		}
	}()
	mimetype.SetLimit(limit)
	m = mimetype.Detect(x)
	return m, nil
}

func header(x []byte, limit uint32) []byte {
	if limit > 0 && len(x) > int(limit) {
		return x[:limit]
	}
	return x
}

func min(a, b int) int {
	if a < b {
		return a
	}
	return b
}

// detectAtNoSet runs Detect without touching the global limit.
func detectAtNoSet(x []byte) (m *mimetype.MIME, panicked any) {
	defer watchCall(x, 0)()
	defer func() {
		if e := recover(); e != nil {
			panicked = e
		}
	}()
	return mimetype.Detect(x), nil
}

// ---- entry points agree ------------------------------------------------------------------------------------
// The same (input, limit) through Detect, through DetectReader right after a reader detection made under a LARGER
// limit on a longer input (recycled buffers / state must not leak), through a reader that hands out the last bytes
// together with io.EOF, and (sampled) through DetectFile: all must answer like Detect on the exact header, must not
// be nil, and a read error must come with the bare root.  Failures are reported under the running property when it
// speaks about results at all, else under C05.
var agreeDir string
var agreeLong = bytes.Repeat([]byte("plain text line that fills the reader buffer, 0123456789 abcdefghijklmnopqrstuvwxyz\n"), 120)

type dataEOFReader struct {
	data []byte
	off  int
}

func (r *dataEOFReader) Read(p []byte) (int, error) {
	n := copy(p, r.data[r.off:])
	r.off += n
	if r.off >= len(r.data) {
		return n, io.EOF
	}
	return n, nil
}

type failAfterReader struct {
	data []byte
	off  int
	err  error
}

func (r *failAfterReader) Read(p []byte) (int, error) {
	if r.off >= len(r.data) {
		return 0, r.err
	}
	n := copy(p, r.data[r.off:])
	if n > 7 {
		n = 7
	}
	r.off += n
	return n, nil
}

func (c *runCtx) agreeProp() string {
	switch c.prop {
	case "C01", "C02", "C03", "C04", "C05", "C07", "C08", "C09", "C10", "C11", "C12", "C13", "C17", "C18", "C19":
		return c.prop
	}
	return "C05"
}

func (c *runCtx) agree(kind string, x []byte, limit uint32, withFile bool) {
	prop := c.agreeProp()
	exact := append(make([]byte, 0, len(header(x, limit))), header(x, limit)...)
	d, pan := detectAt(exact, limit)
	if pan != nil || d == nil {
		return // reported by the caller's own checks
	}
	want := chainFull(d)
	say := func(how, got string) {
		c.propfail(prop, fmt.Sprintf("entry points disagree (%s): Detect on the examined header says %q, %s says %q; limit=%d kind=%s input=%s", how, want, how, got, limit, kind, hx(x[:min(len(x), 120)])))
	}
	res := func(m *mimetype.MIME, err error) string {
		if m == nil {
			return "NIL"
		}
		if err != nil {
			return "ERR:" + chainFull(m)
		}
		return chainFull(m)
	}
	// Detect on the whole slice (the library truncates)
	if m, pan := detectAt(x, limit); pan == nil && res(m, nil) != want {
		say("Detect on the whole input", res(m, nil))
	}
	if limit > 1<<22 {
		return // DetectReader allocates `limit` bytes: not the place to ask for gigabytes
	}
	// reader after a detection under a larger limit
	big := limit*2 + 4096
	if limit == 0 {
		big = 8192
	}
	mimetype.SetLimit(big)
	mimetype.DetectReader(bytes.NewReader(agreeLong))
	mimetype.SetLimit(limit)
	if m, err := mimetype.DetectReader(bytes.NewReader(x)); res(m, err) != want {
		say("DetectReader after a reader detection under a larger limit", res(m, err))
	}
	if m, err := mimetype.DetectReader(&dataEOFReader{data: x}); res(m, err) != want {
		say("DetectReader over a reader returning its last bytes together with io.EOF", res(m, err))
	}
	// the limit is changed by someone else while the reader is being read: the call must behave as one detection under
	// the old or under the new limit - not as a mixture (a header cut for one limit judged under the other)
	if limit > 0 && len(x) > int(limit) {
		for _, to := range []uint32{0, limit*4 + 100} {
			mimetype.SetLimit(limit)
			m, err := mimetype.DetectReader(&limitFlipReader{data: append([]byte{}, x...), to: to})
			got := res(m, err)
			ex2 := append(make([]byte, 0, len(header(x, to))), header(x, to)...)
			d2, _ := detectAt(ex2, to)
			want2 := "NIL"
			if d2 != nil {
				want2 = chainFull(d2)
			}
			if got != want && got != want2 {
				c.propfail(prop, fmt.Sprintf("the limit changed from %d to %d while DetectReader was reading: the result %q is neither the one for the old limit (%q) nor the one for the new limit (%q); kind=%s input=%s", limit, to, got, want, want2, kind, hx(x[:min(len(x), 120)])))
			}
		}
		mimetype.SetLimit(limit)
	}
	// a failing reader: exactly the bare root, never nil, whatever the limit
	if len(x) > 0 {
		boom := errors.New("verif: injected read error")
		cut := len(x) / 2
		if limit > 0 && cut >= int(limit) {
			cut = int(limit) - 1
		}
		if cut >= 0 {
			m, err := mimetype.DetectReader(&failAfterReader{data: x[:cut], err: boom})
			if m == nil || err == nil || m.String() != "application/octet-stream" || m.Parent() != nil {
				c.propfail(prop, fmt.Sprintf("a read error before the header is complete must yield exactly application/octet-stream together with the error: got %s / err=%v; limit=%d failing after %d bytes of %s", res(m, nil), err, limit, cut, hx(x[:min(len(x), 80)])))
			}
		}
	}
	if withFile {
		if agreeDir == "" {
			agreeDir, _ = os.MkdirTemp("", "verif-agree-")
		}
		if agreeDir != "" {
			p := filepath.Join(agreeDir, "f.bin")
			if os.WriteFile(p, x, 0o644) == nil {
				if m, err := mimetype.DetectFile(p); res(m, err) != want {
					say("DetectFile", res(m, err))
				}
			}
			// an *os.File that is not a regular file: the read end of a pipe whose writer delivers the bytes in two
			// writes with a pause between them (a conforming reader that returns short reads)
			if len(x) > 1 {
				for _, cut := range []int{1, len(x) / 2} {
					if m, err, ok := pipeDetect(x, cut, 4*time.Millisecond); ok && res(m, err) != want {
						say(fmt.Sprintf("DetectReader over a pipe (*os.File) written in two parts, %d + %d bytes", cut, len(x)-cut), res(m, err))
					}
				}
			}
		}
	}
}

// pipeDetect runs DetectReader on the read end of an OS pipe; the writer sends x[:cut], pauses, sends the rest, closes
func pipeDetect(x []byte, cut int, pause time.Duration) (*mimetype.MIME, error, bool) {
	pr, pw, err := os.Pipe()
	if err != nil {
		return nil, nil, false
	}
	go func() {
		pw.Write(x[:cut])
		time.Sleep(pause)
		pw.Write(x[cut:])
		pw.Close()
	}()
	m, derr := mimetype.DetectReader(pr)
	io.Copy(io.Discard, pr)
	pr.Close()
	return m, derr, true
}

// limitStress: Detect on byte slices without spare capacity while another goroutine moves the limit between a value
// below their length and one far above their capacity.  Every call must return normally with one of the two results
// a sequential call gives under either limit (the truncation decision and the cut must come from one reading of the
// limit).  Returns a description of the first failure, or "".
func limitStress(d time.Duration) string {
	inputs := [][]byte{
		append(make([]byte, 0, 64), []byte("{\"a\":[1,2,3],\"b\":{\"c\":\"dddddddddddddddddddddddddddddddddddddd\"}}  ")[:64]...),
		append(make([]byte, 0, 48), []byte("a,b,c\n1,2,3\n4,5,6\n7,8,9\n10,11,12\n13,14,15\n16,17,18\n")[:48]...),
		append(make([]byte, 0, 40), []byte("%PDF-1.7 plain rest of a small document....")[:40]...),
	}
	lo, hi := uint32(4), uint32(1<<30)
	want := make([]map[string]bool, len(inputs))
	for i, x := range inputs {
		want[i] = map[string]bool{}
		for _, l := range []uint32{lo, hi} {
			if m, pan := detectAt(x, l); pan == nil && m != nil {
				want[i][chainFull(m)] = true
			}
		}
	}
	stop := make(chan struct{})
	var fail atomic.Value
	var wg sync.WaitGroup
	wg.Add(1)
	go func() {
		defer wg.Done()
		for {
			select {
			case <-stop:
				return
			default:
			}
			mimetype.SetLimit(lo)
			mimetype.SetLimit(hi)
		}
	}()
	for g := 0; g < 4; g++ {
		wg.Add(1)
		go func(g int) {
			defer wg.Done()
			defer func() {
				if e := recover(); e != nil {
					fail.CompareAndSwap(nil, fmt.Sprintf("Detect panics while SetLimit alternates between %d and %d: %v (input of %d bytes, capacity %d)", lo, hi, e, len(inputs[g%len(inputs)]), cap(inputs[g%len(inputs)])))
				}
			}()
			for {
				select {
				case <-stop:
					return
				default:
				}
				i := g % len(inputs)
				m := mimetype.Detect(inputs[i])
				if m == nil {
					fail.CompareAndSwap(nil, "Detect returns nil while SetLimit alternates")
					return
				}
				if got := chainFull(m); !want[i][got] {
					fail.CompareAndSwap(nil, fmt.Sprintf("while SetLimit alternates between %d and %d Detect returns %q, which a sequential call returns under neither limit (input %s)", lo, hi, got, hx(inputs[i])))
					return
				}
			}
		}(g)
	}
	time.Sleep(d)
	close(stop)
	wg.Wait()
	mimetype.SetLimit(3072)
	if f := fail.Load(); f != nil {
		return f.(string)
	}
	return ""
}
