package main

// TRANSLATOR, part 5: the offset-computing detectors of internal/magic (zipContains and its callers, CRX,
// matchOleClsid and the OLE family, the Matroska scan, Tar) -> Gallina functions in the res monad
// (coq/Gen/SrcFuncs.v).  A shallow translation: each Go statement becomes one binding of the emitted term, in
// source order; every index / slice expression and every binary.X.UintNN call becomes a partial operation of
// Model/GoRes.v (zget, zfrom, zto, zslice, zu32le: Go's run-time check, bound len) sequenced with Go's evaluation
// order (left to right, && and || short-circuit); uint32 / uint8 arithmetic is wrapped (u32, u8w), int arithmetic
// exact.  Control flow: `if` with and without else, early return, assignments to locals (shadowing), join points
// (a local continuation `let k := fun live-vars => rest`) where a block falls through or a loop is left by break,
// `for _, v := range LITERAL-TABLE` and `for i := 0; i < K; i++` unrolled, `if !b.advance(n) {..}` on a readBuf,
// `for i, c := range x` over an input slice as Model/GoRes.range_loop and `for cond {..}` over integer locals as
// while_loop with fuel.  Anything else makes the function "not translated" (reason recorded); the obligations of
// Proofs/SrcFuncsP.v then no longer check.

import (
	"fmt"
	"go/ast"
	"go/token"
	"path/filepath"
	"sort"
	"strconv"
	"strings"
)

type grTy int

const (
	tUnk grTy = iota
	tUntyped
	tInt
	tU32
	tByte
	tBytes
	tBool
	tBytesList // ...[]byte, [][]byte parameters
	tXml       // xmlSig{localName, xmlns}: a pair of byte strings
	tXmlList   // ...xmlSig
)

func (t grTy) coq() string {
	switch t {
	case tBytes:
		return "bytes"
	case tBool:
		return "bool"
	case tBytesList:
		return "(list bytes)"
	case tXml:
		return "(bytes * bytes)"
	case tXmlList:
		return "(list (bytes * bytes))"
	}
	return "Z"
}

type grFn struct {
	body    []ast.Stmt
	results *ast.FieldList
	decl   *ast.FuncDecl
	pnames []string
	ptys   []grTy
	rets   []grTy
}

type grEnv struct {
	ty     map[string]grTy
	consts map[string]int64
	tabs   map[string][][]byte
	cnt    *int
	brk    func() string
	cont   func() string
	ret    func(vals []string) string // how `return v..` is rendered (loop bodies wrap it)
	fns    map[string]*grFn
	golite map[string]string
	calls  map[string]bool
	rets   []grTy
}

func grf(format string, a ...any) { panic(glFail{fmt.Sprintf(format, a...)}) }

func vname(n string) string { return "v_" + n }

func (e *grEnv) fresh(p string) string {
	*e.cnt++
	return fmt.Sprintf("%s%d", p, *e.cnt)
}

func grTypeOf(x ast.Expr) grTy {
	switch v := x.(type) {
	case *ast.Ident:
		switch v.Name {
		case "int", "int64":
			return tInt
		case "uint32":
			return tU32
		case "byte", "uint8":
			return tByte
		case "bool":
			return tBool
		case "string", "readBuf":
			return tBytes
		case "xmlSig":
			return tXml
		}
	case *ast.ArrayType:
		if id, ok := v.Elt.(*ast.Ident); ok && v.Len == nil && id.Name == "byte" {
			return tBytes
		}
		if v.Len == nil && grTypeOf(v.Elt) == tBytes {
			return tBytesList
		}
	case *ast.Ellipsis:
		switch grTypeOf(v.Elt) {
		case tBytes:
			return tBytesList
		case tXml:
			return tXmlList
		}
	}
	return tUnk
}

func zlit(n int64) string {
	if n < 0 {
		return fmt.Sprintf("(%d)", n)
	}
	return strconv.FormatInt(n, 10)
}

// ---- pure expressions -------------------------------------------------------------------------------------

func (e *grEnv) pure(x ast.Expr) (string, grTy, bool) {
	switch v := x.(type) {
	case *ast.ParenExpr:
		return e.pure(v.X)
	case *ast.Ident:
		switch v.Name {
		case "true", "false":
			return v.Name, tBool, true
		}
		if n, ok := e.consts[v.Name]; ok {
			return zlit(n), tUntyped, true
		}
		if t, ok := e.ty[v.Name]; ok {
			return vname(v.Name), t, true
		}
		if b, ok := glPkgLits[v.Name]; ok {
			return glBytes(b), tBytes, true
		}
		if n, ok := glPkgInts[v.Name]; ok {
			return zlit(n), tUntyped, true
		}
		grf("unknown identifier %s", v.Name)
	case *ast.BasicLit:
		switch v.Kind {
		case token.INT:
			n, ok := intLit(v)
			if !ok {
				grf("integer literal %s", v.Value)
			}
			return zlit(n), tUntyped, true
		case token.CHAR:
			s, err := strconv.Unquote(v.Value)
			if err != nil || len(s) != 1 {
				grf("char literal %s", v.Value)
			}
			return zlit(int64(s[0])), tUntyped, true
		case token.STRING:
			s, err := strconv.Unquote(v.Value)
			if err != nil {
				grf("string literal %s", v.Value)
			}
			return glBytes([]byte(s)), tBytes, true
		}
	case *ast.CompositeLit:
		if b, ok := byteSliceLit(v); ok {
			return glBytes(b), tBytes, true
		}
		grf("composite literal outside the fragment")
	case *ast.UnaryExpr:
		a, t, ok := e.pure(v.X)
		if !ok {
			return "", tUnk, false
		}
		switch v.Op {
		case token.NOT:
			return "(negb " + a + ")", tBool, true
		case token.SUB:
			return "(- " + a + ")", t, true
		}
		grf("unary operator %s", v.Op)
	case *ast.BinaryExpr:
		a, ta, ok1 := e.pure(v.X)
		if !ok1 {
			return "", tUnk, false
		}
		c, tc, ok2 := e.pure(v.Y)
		if !ok2 {
			return "", tUnk, false
		}
		s, t := e.binop(v.Op, a, ta, c, tc)
		return s, t, true
	case *ast.CallExpr:
		if b, ok := byteSliceLit(v); ok {
			return glBytes(b), tBytes, true
		}
		if at, ok := v.Fun.(*ast.ArrayType); ok && grTypeOf(at) == tBytes && len(v.Args) == 1 { // []byte(s)
			return e.pure(v.Args[0])
		}
		args := make([]string, len(v.Args))
		tys := make([]grTy, len(v.Args))
		for i, a := range v.Args {
			s, t, ok := e.pure(a)
			if !ok {
				return "", tUnk, false
			}
			args[i], tys[i] = s, t
		}
		if s, t, ok := e.pureCall(v, args, tys); ok {
			return s, t, true
		}
		return "", tUnk, false
	case *ast.SelectorExpr:
		if id, ok := v.X.(*ast.Ident); ok && e.ty[id.Name] == tXml {
			switch v.Sel.Name {
			case "localName":
				return "(fst " + vname(id.Name) + ")", tBytes, true
			case "xmlns":
				return "(snd " + vname(id.Name) + ")", tBytes, true
			}
		}
		grf("selector outside the fragment")
	case *ast.IndexExpr, *ast.SliceExpr:
		return "", tUnk, false
	}
	grf("expression outside the fragment: %T", x)
	return "", tUnk, false
}

// calls without a run-time check of their own, on already translated arguments
func (e *grEnv) pureCall(v *ast.CallExpr, args []string, tys []grTy) (string, grTy, bool) {
	switch f := v.Fun.(type) {
	case *ast.Ident:
		switch f.Name {
		case "len":
			if len(args) == 1 && tys[0] == tBytes {
				return "(zlen " + args[0] + ")", tInt, true
			}
		case "min":
			if len(args) == 2 {
				return "(Z.min " + args[0] + " " + args[1] + ")", e.join(tys[0], tys[1]), true
			}
		case "max":
			if len(args) == 2 {
				return "(Z.max " + args[0] + " " + args[1] + ")", e.join(tys[0], tys[1]), true
			}
		case "int", "int64":
			if len(args) == 1 {
				return args[0], tInt, true // value-preserving from uint32 / byte / int (64-bit int)
			}
		case "uint32":
			if len(args) == 1 {
				if tys[0] == tU32 || tys[0] == tByte {
					return args[0], tU32, true
				}
				return "(u32 " + args[0] + ")", tU32, true
			}
		case "byte", "uint8":
			if len(args) == 1 {
				if tys[0] == tByte {
					return args[0], tByte, true
				}
				return "(u8w " + args[0] + ")", tByte, true
			}
		case "int8":
			if len(args) == 1 {
				return "(i8 " + args[0] + ")", tInt, true
			}
		case "readBuf":
			if len(args) == 1 && tys[0] == tBytes {
				return args[0], tBytes, true
			}
		}
	case *ast.SelectorExpr:
		pk, ok := f.X.(*ast.Ident)
		if !ok {
			return "", tUnk, false
		}
		name := pk.Name + "." + f.Sel.Name
		switch name {
		case "bytes.HasPrefix":
			return "(has_prefix " + args[1] + " " + args[0] + ")", tBool, true
		case "bytes.Equal":
			return "(beq " + args[0] + " " + args[1] + ")", tBool, true
		case "bytes.Contains":
			return "(contains " + args[1] + " " + args[0] + ")", tBool, true
		case "bytes.Index":
			return "(zindex " + args[0] + " " + args[1] + ")", tInt, true
		case "bytes.Trim":
			return "(ztrim " + args[0] + " " + args[1] + ")", tBytes, true
		case "charset.FromBOM":
			// the other package's table walk, read as Model/Text.from_bom over the regenerated BOM table (Gen/Tables.boms)
			return "(from_bom boms " + args[0] + ")", tBytes, true
		}
	}
	return "", tUnk, false
}

func (e *grEnv) join(a, c grTy) grTy {
	if a == tUntyped {
		return c
	}
	if c == tUntyped || a == c {
		return a
	}
	grf("operands of different types")
	return tUnk
}

func (e *grEnv) binop(op token.Token, a string, ta grTy, c string, tc grTy) (string, grTy) {
	switch op {
	case token.LAND:
		return "(" + a + " && " + c + ")", tBool
	case token.LOR:
		return "(" + a + " || " + c + ")", tBool
	case token.EQL, token.NEQ, token.LSS, token.LEQ, token.GTR, token.GEQ:
		if ta == tBytes && tc == tBytes && (op == token.EQL || op == token.NEQ) { // string comparison
			if op == token.EQL {
				return "(beq " + a + " " + c + ")", tBool
			}
			return "(negb (beq " + a + " " + c + "))", tBool
		}
		if ta == tBytes || tc == tBytes || ta == tBool || tc == tBool {
			grf("comparison of non-integers")
		}
		e.join(ta, tc)
		switch op {
		case token.EQL:
			return "(" + a + " =? " + c + ")", tBool
		case token.NEQ:
			return "(negb (" + a + " =? " + c + "))", tBool
		case token.LSS:
			return "(" + a + " <? " + c + ")", tBool
		case token.LEQ:
			return "(" + a + " <=? " + c + ")", tBool
		case token.GTR:
			return "(" + c + " <? " + a + ")", tBool
		default:
			return "(" + c + " <=? " + a + ")", tBool
		}
	}
	var t grTy
	var s string
	wrap := true
	switch op {
	case token.ADD:
		t, s = e.join(ta, tc), "("+a+" + "+c+")"
	case token.SUB:
		t, s = e.join(ta, tc), "("+a+" - "+c+")"
	case token.MUL:
		t, s = e.join(ta, tc), "("+a+" * "+c+")"
	case token.OR:
		t, s, wrap = e.join(ta, tc), "(Z.lor "+a+" "+c+")", false
	case token.AND:
		t, s, wrap = e.join(ta, tc), "(Z.land "+a+" "+c+")", false
	case token.SHL:
		t, s = ta, "(Z.shiftl "+a+" "+c+")"
	case token.SHR:
		t, s, wrap = ta, "(Z.shiftr "+a+" "+c+")", false
	default:
		grf("binary operator %s", op)
	}
	if wrap {
		switch t {
		case tU32:
			s = "(u32 " + s + ")"
		case tByte:
			s = "(u8w " + s + ")"
		}
	}
	return s, t
}

// ---- expressions with run-time checks: continuation-passing, Go's evaluation order ---------------------------

func (e *grEnv) bind(code string, t grTy, k func(string, grTy) string) string {
	n := e.fresh("t")
	return n + " <- " + code + " ;;\n  " + k(n, t)
}

func (e *grEnv) cexps(xs []ast.Expr, k func([]string, []grTy) string) string {
	var rec func(i int, acc []string, tys []grTy) string
	rec = func(i int, acc []string, tys []grTy) string {
		if i == len(xs) {
			return k(acc, tys)
		}
		return e.cexp(xs[i], func(s string, t grTy) string { return rec(i+1, append(append([]string{}, acc...), s), append(append([]grTy{}, tys...), t)) })
	}
	return rec(0, nil, nil)
}

func (e *grEnv) cexp(x ast.Expr, k func(string, grTy) string) string {
	if s, t, ok := e.pure(x); ok {
		return k(s, t)
	}
	switch v := x.(type) {
	case *ast.ParenExpr:
		return e.cexp(v.X, k)
	case *ast.IndexExpr:
		return e.cexp(v.X, func(xs string, tx grTy) string {
			if tx != tBytes {
				grf("index of a non-slice")
			}
			return e.cexp(v.Index, func(is string, _ grTy) string { return e.bind("zget "+xs+" "+is, tByte, k) })
		})
	case *ast.SliceExpr:
		if v.Slice3 {
			grf("three-index slice")
		}
		return e.cexp(v.X, func(xs string, tx grTy) string {
			if tx != tBytes {
				grf("slice of a non-slice")
			}
			switch {
			case v.Low == nil && v.High == nil:
				return k(xs, tBytes)
			case v.High == nil:
				return e.cexp(v.Low, func(lo string, _ grTy) string { return e.bind("zfrom "+xs+" "+lo, tBytes, k) })
			case v.Low == nil:
				return e.cexp(v.High, func(hi string, _ grTy) string { return e.bind("zto "+xs+" "+hi, tBytes, k) })
			}
			return e.cexp(v.Low, func(lo string, _ grTy) string {
				return e.cexp(v.High, func(hi string, _ grTy) string { return e.bind("zslice "+xs+" "+lo+" "+hi, tBytes, k) })
			})
		})
	case *ast.UnaryExpr:
		return e.cexp(v.X, func(a string, t grTy) string {
			switch v.Op {
			case token.NOT:
				return k("(negb "+a+")", tBool)
			case token.SUB:
				return k("(- "+a+")", t)
			}
			grf("unary operator %s", v.Op)
			return ""
		})
	case *ast.BinaryExpr:
		if v.Op == token.LAND || v.Op == token.LOR {
			if r, _, ok := e.pure(v.Y); ok {
				return e.cexp(v.X, func(a string, _ grTy) string {
					s, t := e.binop(v.Op, a, tBool, r, tBool)
					return k(s, t)
				})
			}
			inner := e.cexp(v.X, func(a string, _ grTy) string {
				right := e.cexp(v.Y, func(c string, _ grTy) string { return "Val " + c })
				if v.Op == token.LAND {
					return "if " + a + " then (" + right + ") else Val false"
				}
				return "if " + a + " then Val true else (" + right + ")"
			})
			return e.bind("("+inner+")", tBool, k)
		}
		return e.cexp(v.X, func(a string, ta grTy) string {
			return e.cexp(v.Y, func(c string, tc grTy) string {
				s, t := e.binop(v.Op, a, ta, c, tc)
				return k(s, t)
			})
		})
	case *ast.CallExpr:
		if at, ok := v.Fun.(*ast.ArrayType); ok && grTypeOf(at) == tBytes && len(v.Args) == 1 {
			return e.cexp(v.Args[0], k)
		}
		return e.cexps(v.Args, func(args []string, tys []grTy) string {
			if s, t, ok := e.pureCall(v, args, tys); ok {
				return k(s, t)
			}
			if sel, ok := v.Fun.(*ast.SelectorExpr); ok { // binary.LittleEndian.Uint32(x)
				if in, ok := sel.X.(*ast.SelectorExpr); ok {
					if pk, ok := in.X.(*ast.Ident); ok && pk.Name == "binary" && len(args) == 1 {
						switch in.Sel.Name + "." + sel.Sel.Name {
						case "LittleEndian.Uint32":
							return e.bind("zu32le "+args[0], tU32, k)
						case "BigEndian.Uint32":
							return e.bind("zu32be "+args[0], tU32, k)
						case "BigEndian.Uint16":
							return e.bind("zu16be "+args[0], tInt, k)
						}
					}
				}
			}
			if id, ok := v.Fun.(*ast.Ident); ok {
				code, rets := e.callOf(id.Name, args, tys)
				if len(rets) != 1 {
					grf("call of %s used as a single value", id.Name)
				}
				return e.bind(code, rets[0], k)
			}
			grf("call outside the fragment")
			return ""
		})
	}
	grf("expression outside the fragment: %T", x)
	return ""
}

// a call of a same-package function: a translated one (src_f, in the res monad) or one already in the GoLite fragment
func (e *grEnv) callOf(name string, args []string, tys []grTy) (string, []grTy) {
	if fn, ok := e.fns[name]; ok {
		if len(args) != len(fn.ptys) {
			grf("call of %s with %d arguments", name, len(args))
		}
		e.calls[name] = true
		return "src_" + name + " " + strings.Join(args, " "), fn.rets
	}
	// a package-level detector built by a translated combinator from literal signatures: phpPageF = ciPrefix(lit..)
	if ce, ok := grCombVars[name]; ok {
		if id, ok := ce.Fun.(*ast.Ident); ok {
			if fn, ok := e.fns[id.Name]; ok && len(fn.ptys) == len(args)+1 && fn.ptys[0] == tBytesList {
				var ls []string
				for _, a := range ce.Args {
					b, ok := byteSliceLit(a)
					if !ok {
						grf("%s is not built from literals", name)
					}
					ls = append(ls, glBytes(b))
				}
				e.calls[id.Name] = true
				return "src_" + id.Name + " [" + strings.Join(ls, "; ") + "] " + strings.Join(args, " "), fn.rets
			}
		}
	}
	if _, ok := e.golite[name]; ok && len(args) == 2 && tys[0] == tBytes {
		e.calls["golite:"+name] = true
		return "evalp srcp_" + name + " " + args[0], []grTy{tBool} // (raw, limit): GoLite terms do not read the limit
	}
	grf("call of %s, which is not translated", name)
	return "", nil
}

// ---- statements -------------------------------------------------------------------------------------------------

func terminates(stmts []ast.Stmt) bool {
	if len(stmts) == 0 {
		return false
	}
	switch s := stmts[len(stmts)-1].(type) {
	case *ast.ReturnStmt:
		return true
	case *ast.BranchStmt:
		return s.Tok == token.BREAK || s.Tok == token.CONTINUE
	case *ast.IfStmt:
		if s.Else == nil {
			return false
		}
		eb, ok := s.Else.(*ast.BlockStmt)
		return ok && terminates(s.Body.List) && terminates(eb.List)
	}
	return false
}

// locals (known before the statement) that a block may assign; a readBuf receiver of advance counts
func (e *grEnv) assigned(stmts []ast.Stmt) []string {
	set := map[string]bool{}
	note := func(x ast.Expr) {
		if id, ok := x.(*ast.Ident); ok {
			if _, known := e.ty[id.Name]; known {
				set[id.Name] = true
			}
		}
	}
	for _, s := range stmts {
		ast.Inspect(s, func(n ast.Node) bool {
			switch v := n.(type) {
			case *ast.AssignStmt:
				if v.Tok != token.DEFINE {
					for _, l := range v.Lhs {
						note(l)
					}
				}
			case *ast.IncDecStmt:
				note(v.X)
			case *ast.CallExpr:
				if sel, ok := v.Fun.(*ast.SelectorExpr); ok && sel.Sel.Name == "advance" {
					note(sel.X)
				}
			}
			return true
		})
	}
	var out []string
	for n := range set {
		out = append(out, n)
	}
	sort.Strings(out)
	return out
}

// a join point: `let kN := fun live => REST in BODY(call)`; REST is rendered once
func (e *grEnv) joinPoint(live []string, rest func() string, body func(call func() string) string) string {
	kn := e.fresh("k")
	var bs []string
	for _, n := range live {
		bs = append(bs, fmt.Sprintf("(%s : %s)", vname(n), e.ty[n].coq()))
	}
	if len(bs) == 0 {
		bs = []string{"(_ : unit)"}
	}
	call := func() string {
		if len(live) == 0 {
			return kn + " tt"
		}
		var as []string
		for _, n := range live {
			as = append(as, vname(n))
		}
		return kn + " " + strings.Join(as, " ")
	}
	r := rest()
	return "let " + kn + " := fun " + strings.Join(bs, " ") + " =>\n  " + r + " in\n  " + body(call)
}

func (e *grEnv) declare(name string, t grTy) {
	if t == tUntyped {
		t = tInt
	}
	e.ty[name] = t
}

func opOfAssign(t token.Token) (token.Token, bool) {
	switch t {
	case token.ADD_ASSIGN:
		return token.ADD, true
	case token.SUB_ASSIGN:
		return token.SUB, true
	case token.MUL_ASSIGN:
		return token.MUL, true
	case token.OR_ASSIGN:
		return token.OR, true
	case token.AND_ASSIGN:
		return token.AND, true
	case token.SHL_ASSIGN:
		return token.SHL, true
	case token.SHR_ASSIGN:
		return token.SHR, true
	}
	return 0, false
}

func (e *grEnv) comp(stmts []ast.Stmt, k func() string) string {
	if len(stmts) == 0 {
		if k == nil {
			grf("control reaches the end of the function")
		}
		return k()
	}
	s, rest := stmts[0], stmts[1:]
	next := func() string { return e.comp(rest, k) }
	switch v := s.(type) {
	case *ast.ReturnStmt:
		if len(v.Results) == 1 { // tail call of a translated function
			if c, ok := v.Results[0].(*ast.CallExpr); ok {
				if id, ok := c.Fun.(*ast.Ident); ok {
					_, isFn := e.fns[id.Name]
					_, isGl := e.golite[id.Name]
					if (isFn || isGl) && e.ret == nil {
						return e.cexps(c.Args, func(args []string, tys []grTy) string {
							code, _ := e.callOf(id.Name, args, tys)
							return code
						})
					}
				}
			}
		}
		if len(v.Results) == 0 { // named results
			grf("bare return")
		}
		return e.cexps(v.Results, func(vals []string, _ []grTy) string {
			if e.ret != nil {
				return e.ret(vals)
			}
			if len(vals) == 1 {
				return "Val " + vals[0]
			}
			return "Val (" + strings.Join(vals, ", ") + ")"
		})
	case *ast.DeclStmt:
		gd, ok := v.Decl.(*ast.GenDecl)
		if !ok {
			grf("declaration outside the fragment")
		}
		out := ""
		for _, sp := range gd.Specs {
			vs, ok := sp.(*ast.ValueSpec)
			if !ok {
				grf("declaration outside the fragment")
			}
			for i, n := range vs.Names {
				if gd.Tok == token.CONST && i < len(vs.Values) {
					if c, ok := (&glEnv{ints: e.consts}).intOf(vs.Values[i]); ok {
						e.consts[n.Name] = c
						continue
					}
				}
				if gd.Tok == token.VAR && len(vs.Values) == 0 && vs.Type != nil { // var x T: zero value
					t := grTypeOf(vs.Type)
					zero := map[grTy]string{tInt: "0", tU32: "0", tByte: "0", tBool: "false", tBytes: "(@nil N)"}[t]
					if zero == "" {
						grf("var of unsupported type")
					}
					e.declare(n.Name, t)
					out += "let " + vname(n.Name) + " := " + zero + " in\n  "
					continue
				}
				grf("declaration outside the fragment")
			}
		}
		return out + next()
	case *ast.AssignStmt:
		if op, ok := opOfAssign(v.Tok); ok && len(v.Lhs) == 1 {
			id, ok := v.Lhs[0].(*ast.Ident)
			if !ok {
				grf("assignment to a non-local")
			}
			t0, known := e.ty[id.Name]
			if !known {
				grf("assignment to unknown %s", id.Name)
			}
			return e.cexp(v.Rhs[0], func(r string, tr grTy) string {
				sv, _ := e.binop(op, vname(id.Name), t0, r, tr)
				return "let " + vname(id.Name) + " := " + sv + " in\n  " + next()
			})
		}
		if v.Tok != token.DEFINE && v.Tok != token.ASSIGN {
			grf("assignment operator %s", v.Tok)
		}
		// a table literal bound to a local
		if len(v.Lhs) == 1 && len(v.Rhs) == 1 && v.Tok == token.DEFINE {
			if _, tb, ok := (&glEnv{ints: e.consts}).tableLit(v.Rhs[0]); ok && tb != nil {
				e.tabs[v.Lhs[0].(*ast.Ident).Name] = tb
				return next()
			}
		}
		// x, y := f(..)  (several results)
		if len(v.Lhs) > 1 && len(v.Rhs) == 1 {
			c, ok := v.Rhs[0].(*ast.CallExpr)
			if !ok {
				grf("multi-assignment outside the fragment")
			}
			id, ok := c.Fun.(*ast.Ident)
			if !ok {
				grf("multi-assignment outside the fragment")
			}
			return e.cexps(c.Args, func(args []string, tys []grTy) string {
				code, rets := e.callOf(id.Name, args, tys)
				if len(rets) != len(v.Lhs) {
					grf("result count of %s", id.Name)
				}
				var pat []string
				for i, l := range v.Lhs {
					n := l.(*ast.Ident).Name
					if n == "_" {
						pat = append(pat, "_")
						continue
					}
					e.declare(n, rets[i])
					pat = append(pat, vname(n))
				}
				return "rbind (" + code + ") (fun '(" + strings.Join(pat, ", ") + ") =>\n  " + next() + ")"
			})
		}
		if len(v.Lhs) != len(v.Rhs) {
			grf("assignment outside the fragment")
		}
		// all right-hand sides first (Go evaluates them before assigning), then the bindings
		return e.cexps(v.Rhs, func(vals []string, tys []grTy) string {
			out := ""
			tmp := make([]string, len(vals))
			if len(vals) > 1 {
				for i := range vals {
					tmp[i] = e.fresh("a")
					out += "let " + tmp[i] + " := " + vals[i] + " in\n  "
				}
			} else {
				tmp = vals
			}
			for i, l := range v.Lhs {
				id, ok := l.(*ast.Ident)
				if !ok {
					grf("assignment to a non-local")
				}
				if id.Name == "_" {
					continue
				}
				if v.Tok == token.DEFINE {
					e.declare(id.Name, tys[i])
				} else if t0, known := e.ty[id.Name]; !known {
					grf("assignment to unknown %s", id.Name)
				} else if t0 != tys[i] && tys[i] != tUntyped {
					grf("assignment changes the type of %s", id.Name)
				}
				out += "let " + vname(id.Name) + " := " + tmp[i] + " in\n  "
			}
			return out + next()
		})
	case *ast.IncDecStmt:
		id, ok := v.X.(*ast.Ident)
		if !ok {
			grf("++ on a non-local")
		}
		op := token.ADD
		if v.Tok == token.DEC {
			op = token.SUB
		}
		sv, _ := e.binop(op, vname(id.Name), e.ty[id.Name], "1", tUntyped)
		return "let " + vname(id.Name) + " := " + sv + " in\n  " + next()
	case *ast.BranchStmt:
		if v.Label != nil {
			grf("labelled branch")
		}
		switch v.Tok {
		case token.BREAK:
			if e.brk == nil {
				grf("break outside a loop")
			}
			return e.brk()
		case token.CONTINUE:
			if e.cont == nil {
				grf("continue outside a loop")
			}
			return e.cont()
		}
		grf("branch statement %s", v.Tok)
	case *ast.IfStmt:
		if v.Init != nil { // the variable lives in the if statement only; names are unique enough for a shadowing let
			init := v.Init
			cp := *v
			cp.Init = nil
			return e.comp(append([]ast.Stmt{init, &cp}, rest...), k)
		}
		// if !b.advance(n) { .. }
		if u, ok := v.Cond.(*ast.UnaryExpr); ok && u.Op == token.NOT {
			if c, ok := u.X.(*ast.CallExpr); ok {
				if sel, ok := c.Fun.(*ast.SelectorExpr); ok && sel.Sel.Name == "advance" && len(c.Args) == 1 {
					recv, ok := sel.X.(*ast.Ident)
					if !ok || e.ty[recv.Name] != tBytes || v.Else != nil || !terminates(v.Body.List) {
						grf("advance outside the fragment")
					}
					return e.cexp(c.Args[0], func(n string, _ grTy) string {
						blk := e.comp(v.Body.List, nil)
						return "match zadvance " + vname(recv.Name) + " " + n + " with\n  | None => " + blk + "\n  | Some " + vname(recv.Name) + " =>\n  " + next() + "\n  end"
					})
				}
			}
		}
		var elseList []ast.Stmt
		if v.Else != nil {
			eb, ok := v.Else.(*ast.BlockStmt)
			if !ok {
				grf("else if")
			}
			elseList = eb.List
		}
		if terminates(v.Body.List) && (v.Else == nil || terminates(elseList)) {
			return e.cexp(v.Cond, func(c string, _ grTy) string {
				thn := e.comp(v.Body.List, nil)
				if v.Else != nil { // both branches leave: the rest is unreachable
					return "if " + c + " then " + thn + " else " + e.comp(elseList, nil)
				}
				return "if " + c + " then " + thn + " else\n  " + next()
			})
		}
		// a block of plain assignments of check-free values: x := if c then e else x
		if v.Else == nil {
			if lets, ok := e.pureAssignBlock(v.Body.List); ok {
				return e.cexp(v.Cond, func(c string, _ grTy) string {
					out := ""
					for _, l := range lets {
						out += "let " + vname(l[0]) + " := if " + c + " then " + l[1] + " else " + vname(l[0]) + " in\n  "
					}
					return out + next()
				})
			}
		}
		live := e.assigned(append(append([]ast.Stmt{}, v.Body.List...), elseList...))
		return e.joinPoint(live, next, func(call func() string) string {
			return e.cexp(v.Cond, func(c string, _ grTy) string {
				saved := copyMap(e.ty)
				thn := e.comp(v.Body.List, call)
				e.ty = copyMap(saved)
				els := call()
				if v.Else != nil {
					els = e.comp(elseList, call)
					e.ty = saved
				}
				return "if " + c + " then (" + thn + ") else (" + els + ")"
			})
		})
	case *ast.RangeStmt:
		if tb, ok := e.tableFor(v.X); ok {
			return e.unroll(len(tb), func(i int) string {
				if id, ok := v.Value.(*ast.Ident); ok && id.Name != "_" {
					e.declare(id.Name, tBytes)
					return "let " + vname(id.Name) + " := " + glBytes(tb[i]) + " in\n  "
				}
				return ""
			}, v.Key, v.Body.List, next)
		}
		if id, ok := v.X.(*ast.Ident); ok && (e.ty[id.Name] == tBytesList || e.ty[id.Name] == tXmlList) {
			return e.listLoop(v, id.Name, next)
		}
		return e.rangeLoop(v, next)
	case *ast.ForStmt:
		if n, iv, ok := e.constFor(v); ok {
			return e.unroll(int(n), func(i int) string {
				e.declare(iv, tInt)
				return "let " + vname(iv) + " := " + zlit(int64(i)) + " in\n  "
			}, nil, v.Body.List, next)
		}
		if v.Init == nil && v.Cond != nil {
			if _, _, pureCond := e.tryPure(v.Cond); !pureCond || v.Post != nil {
				return e.whileRes(v, next)
			}
		}
		return e.whileLoop(v, next)
	case *ast.ExprStmt:
		grf("expression statement")
	}
	grf("statement outside the fragment: %T", s)
	return ""
}

func (e *grEnv) pureAssignBlock(stmts []ast.Stmt) ([][2]string, bool) {
	var out [][2]string
	for _, s := range stmts {
		a, ok := s.(*ast.AssignStmt)
		if !ok || len(a.Lhs) != 1 || len(a.Rhs) != 1 {
			return nil, false
		}
		op, isOp := opOfAssign(a.Tok)
		if a.Tok != token.ASSIGN && !isOp {
			return nil, false
		}
		id, ok := a.Lhs[0].(*ast.Ident)
		if !ok {
			return nil, false
		}
		if _, known := e.ty[id.Name]; !known {
			return nil, false
		}
		// the value must not mention a variable assigned earlier in the block (simultaneous reading)
		for _, o := range out {
			bad := false
			ast.Inspect(a.Rhs[0], func(n ast.Node) bool {
				if i, ok := n.(*ast.Ident); ok && i.Name == o[0] {
					bad = true
				}
				return true
			})
			if bad || o[0] == id.Name {
				return nil, false
			}
		}
		r, tr, ok := e.pure(a.Rhs[0])
		if !ok {
			return nil, false
		}
		if isOp {
			r, _ = e.binop(op, vname(id.Name), e.ty[id.Name], r, tr)
		}
		out = append(out, [2]string{id.Name, r})
	}
	return out, len(out) > 0
}

func (e *grEnv) tableFor(x ast.Expr) ([][]byte, bool) {
	if id, ok := x.(*ast.Ident); ok {
		tb, ok := e.tabs[id.Name]
		return tb, ok
	}
	_, tb, ok := (&glEnv{ints: e.consts}).tableLit(x)
	return tb, ok && tb != nil
}

// for i := 0; i < K; i++ with K constant and i not assigned in the body
func (e *grEnv) constFor(v *ast.ForStmt) (int64, string, bool) {
	in, ok := v.Init.(*ast.AssignStmt)
	if !ok || in.Tok != token.DEFINE || len(in.Lhs) != 1 || len(in.Rhs) != 1 {
		return 0, "", false
	}
	iv := in.Lhs[0].(*ast.Ident).Name
	g := &glEnv{ints: e.consts}
	lo, ok := g.intOf(in.Rhs[0])
	if !ok || lo != 0 {
		return 0, "", false
	}
	c, ok := v.Cond.(*ast.BinaryExpr)
	if !ok || c.Op != token.LSS {
		return 0, "", false
	}
	if id, ok := c.X.(*ast.Ident); !ok || id.Name != iv {
		return 0, "", false
	}
	hi, ok := g.intOf(c.Y)
	if !ok || hi < 0 || hi > 64 {
		return 0, "", false
	}
	p, ok := v.Post.(*ast.IncDecStmt)
	if !ok || p.Tok != token.INC {
		return 0, "", false
	}
	if id, ok := p.X.(*ast.Ident); !ok || id.Name != iv {
		return 0, "", false
	}
	return hi, iv, true
}

// n rounds of a body, written out; break leaves through the join point after the loop
func (e *grEnv) unroll(n int, bindRound func(i int) string, key ast.Expr, body []ast.Stmt, next func() string) string {
	if key != nil {
		if id, ok := key.(*ast.Ident); !ok || id.Name != "_" {
			grf("range with an index over a literal table")
		}
	}
	live := e.assigned(body)
	return e.joinPoint(live, next, func(call func() string) string {
		savedB, savedC := e.brk, e.cont
		defer func() { e.brk, e.cont = savedB, savedC }()
		var round func(i int) string
		round = func(i int) string {
			if i == n {
				return call()
			}
			pre := bindRound(i)
			e.brk = call
			e.cont = func() string { return round(i + 1) }
			return pre + e.comp(body, func() string { return round(i + 1) })
		}
		return round(0)
	})
}

// for i, c := range x { body } over an input slice: Model/GoRes.range_loop; the state is the tuple of locals the
// body assigns; `return v` inside the body leaves the function with v, break leaves the loop
func (e *grEnv) rangeLoop(v *ast.RangeStmt, next func() string) string {
	if v.Tok != token.DEFINE {
		grf("range without :=")
	}
	return e.cexp(v.X, func(xs string, tx grTy) string {
		if tx != tBytes {
			grf("range over a non-slice")
		}
		iname, cname := e.fresh("i"), e.fresh("c")
		saved := copyMap(e.ty)
		live := e.assigned(v.Body.List)
		// the loop variables may shadow locals: they are declared after `live` is computed
		shadow := map[string]bool{}
		if id, ok := v.Key.(*ast.Ident); ok && id.Name != "_" {
			shadow[id.Name] = true
		}
		if v.Value != nil {
			if id, ok := v.Value.(*ast.Ident); ok && id.Name != "_" {
				shadow[id.Name] = true
			}
		}
		var lv []string
		for _, n := range live {
			if !shadow[n] {
				lv = append(lv, n)
			}
		}
		live = lv
		tup := func() string {
			if len(live) == 0 {
				return "tt"
			}
			var as []string
			for _, n := range live {
				as = append(as, vname(n))
			}
			if len(as) == 1 {
				return as[0]
			}
			return "(" + strings.Join(as, ", ") + ")"
		}
		pat := func() string {
			if len(live) == 0 {
				return "_"
			}
			var as []string
			for _, n := range live {
				as = append(as, vname(n))
			}
			if len(as) == 1 {
				return as[0]
			}
			return "'(" + strings.Join(as, ", ") + ")"
		}
		pre := ""
		if id, ok := v.Key.(*ast.Ident); ok && id.Name != "_" {
			e.ty[id.Name] = tInt
			pre += "let " + vname(id.Name) + " := " + iname + " in "
		}
		if v.Value != nil {
			if id, ok := v.Value.(*ast.Ident); ok && id.Name != "_" {
				e.ty[id.Name] = tByte
				pre += "let " + vname(id.Name) + " := " + cname + " in "
			}
		}
		sb, sc, sr := e.brk, e.cont, e.ret
		e.brk = func() string { return "Val (Break " + tup() + ")" }
		e.cont = func() string { return "Val (Next " + tup() + ")" }
		e.ret = func(vals []string) string {
			if len(vals) == 1 {
				return "Val (Return " + vals[0] + ")"
			}
			return "Val (Return (" + strings.Join(vals, ", ") + "))"
		}
		body := e.comp(v.Body.List, e.cont)
		e.brk, e.cont, e.ret = sb, sc, sr
		e.ty = saved
		after := next()
		retk := "Val r"
		if e.ret != nil {
			retk = e.ret([]string{"r"})
		}
		return "lr <- range_loop (fun " + iname + " " + cname + " " + pat() + " => " + pre + "\n    " + body + ") 0 " + xs + " " + tup() + " ;;\n  " +
			"match lr with\n  | Returned r => " + retk + "\n  | Done " + strings.TrimPrefix(pat(), "'") + " =>\n  " + after + "\n  end"
	})
}

// pure() without the failure for constructs outside the fragment
func (e *grEnv) tryPure(x ast.Expr) (s string, t grTy, ok bool) {
	defer func() {
		if r := recover(); r != nil {
			if _, isFail := r.(glFail); isFail {
				s, t, ok = "", tUnk, false
				return
			}
			panic(r)
		}
	}()
	return e.pure(x)
}

// for _, s := range LIST-PARAMETER { body }: Model/GoRes.list_loop over a list of byte strings (or of xmlSig pairs)
func (e *grEnv) listLoop(v *ast.RangeStmt, list string, next func() string) string {
	if v.Tok != token.DEFINE {
		grf("range without :=")
	}
	if id, ok := v.Key.(*ast.Ident); !ok || id.Name != "_" {
		grf("range with an index over a list parameter")
	}
	el := tBytes
	if e.ty[list] == tXmlList {
		el = tXml
	}
	saved := copyMap(e.ty)
	live := e.assigned(v.Body.List)
	vn := e.fresh("s")
	tup := func() string {
		if len(live) == 0 {
			return "tt"
		}
		var as []string
		for _, n := range live {
			as = append(as, vname(n))
		}
		if len(as) == 1 {
			return as[0]
		}
		return "(" + strings.Join(as, ", ") + ")"
	}
	pat := func() string {
		if len(live) == 0 {
			return "_"
		}
		if len(live) == 1 {
			return vname(live[0])
		}
		return "'" + tup()
	}
	pre := ""
	if id, ok := v.Value.(*ast.Ident); ok && id.Name != "_" {
		e.ty[id.Name] = el
		pre = "let " + vname(id.Name) + " := " + vn + " in "
	}
	sb, sc, sr := e.brk, e.cont, e.ret
	e.brk = func() string { return "Val (Break " + tup() + ")" }
	e.cont = func() string { return "Val (Next " + tup() + ")" }
	e.ret = func(vals []string) string {
		if len(vals) == 1 {
			return "Val (Return " + vals[0] + ")"
		}
		return "Val (Return (" + strings.Join(vals, ", ") + "))"
	}
	body := e.comp(v.Body.List, e.cont)
	e.brk, e.cont, e.ret = sb, sc, sr
	e.ty = saved
	after := next()
	retk := "Val r"
	if e.ret != nil {
		retk = e.ret([]string{"r"})
	}
	return "lr <- list_loop (fun " + vn + " " + pat() + " => " + pre + "\n    " + body + ") " + vname(list) + " " + tup() + " ;;\n  " +
		"match lr with\n  | Returned r => " + retk + "\n  | Done " + strings.TrimPrefix(pat(), "'") + " =>\n  " + after + "\n  end"
}

// for ; cond; post { body } where the condition indexes the input: Model/GoRes.while_res; the fuel is the total
// length of the byte slices in scope plus one (each of these loops moves an index over one of them); exhausted fuel
// is Panic and excluded by theorem
func (e *grEnv) whileRes(v *ast.ForStmt, next func() string) string {
	if v.Init != nil || v.Cond == nil {
		grf("for statement outside the fragment")
	}
	stmts := append([]ast.Stmt{}, v.Body.List...)
	if v.Post != nil {
		stmts = append(stmts, v.Post)
	}
	live := e.assigned(stmts)
	if len(live) == 0 {
		grf("loop without state")
	}
	tup := func() string {
		var as []string
		for _, n := range live {
			as = append(as, vname(n))
		}
		if len(as) == 1 {
			return as[0]
		}
		return "(" + strings.Join(as, ", ") + ")"
	}
	pat := tup()
	if len(live) > 1 {
		pat = "'" + pat
	}
	var lens []string
	var names []string
	for n, t := range e.ty {
		if t == tBytes {
			names = append(names, n)
		}
	}
	sort.Strings(names)
	for _, n := range names {
		lens = append(lens, "length "+vname(n))
	}
	fuel := "(S (" + strings.Join(lens, " + ") + "))%nat"
	if len(lens) == 0 {
		fuel = "64%nat"
	}
	sb, sc, sr := e.brk, e.cont, e.ret
	e.brk = func() string { grf("break in an indexed loop"); return "" }
	e.ret = func([]string) string { grf("return in an indexed loop"); return "" }
	cond := e.cexp(v.Cond, func(c string, _ grTy) string { return "Val " + c })
	e.cont = func() string { return "Val " + tup() }
	body := e.comp(stmts, e.cont)
	e.brk, e.cont, e.ret = sb, sc, sr
	return "wr <- while_res " + fuel + " (fun " + pat + " => " + cond + ") (fun " + pat + " =>\n    " + body + ") " + tup() + " ;;\n  " +
		"let " + pat + " := wr in\n  " + next()
}

// for cond { body } over integer locals: while_loop with fuel (the number of rounds the body can run is bounded
// by a constant of the function; exhausted fuel yields Panic here and is excluded by theorem)
func (e *grEnv) whileLoop(v *ast.ForStmt, next func() string) string {
	if v.Init != nil || v.Post != nil || v.Cond == nil {
		grf("for statement outside the fragment")
	}
	live := e.assigned(v.Body.List)
	if len(live) == 0 {
		grf("loop without state")
	}
	tup := func() string {
		var as []string
		for _, n := range live {
			as = append(as, vname(n))
		}
		if len(as) == 1 {
			return as[0]
		}
		return "(" + strings.Join(as, ", ") + ")"
	}
	pat := tup()
	if len(live) > 1 {
		pat = "'" + pat
	}
	c, _, ok := e.pure(v.Cond)
	if !ok {
		grf("loop condition with a run-time check")
	}
	sb, sc, sr := e.brk, e.cont, e.ret
	e.brk = func() string { grf("break in a while loop"); return "" }
	e.cont = func() string { return tup() }
	e.ret = func([]string) string { grf("return in a while loop"); return "" }
	body := e.compPure(v.Body.List, e.cont)
	e.brk, e.cont, e.ret = sb, sc, sr
	return "match while_loop 64 (fun " + pat + " => " + c + ") (fun " + pat + " =>\n    " + body + ") " + tup() + " with\n  | None => Panic\n  | Some " + strings.TrimPrefix(pat, "'") + " =>\n  " + next() + "\n  end"
}

// a loop body of check-free assignments only, as a pure term
func (e *grEnv) compPure(stmts []ast.Stmt, k func() string) string {
	out := ""
	for _, s := range stmts {
		switch v := s.(type) {
		case *ast.AssignStmt:
			if len(v.Lhs) != 1 || len(v.Rhs) != 1 {
				grf("loop body outside the fragment")
			}
			id := v.Lhs[0].(*ast.Ident)
			r, tr, ok := e.pure(v.Rhs[0])
			if !ok {
				grf("loop body with a run-time check")
			}
			if op, isOp := opOfAssign(v.Tok); isOp {
				r, _ = e.binop(op, vname(id.Name), e.ty[id.Name], r, tr)
			} else if v.Tok != token.ASSIGN {
				grf("loop body outside the fragment")
			}
			out += "let " + vname(id.Name) + " := " + r + " in "
		case *ast.IncDecStmt:
			id := v.X.(*ast.Ident)
			op := token.ADD
			if v.Tok == token.DEC {
				op = token.SUB
			}
			r, _ := e.binop(op, vname(id.Name), e.ty[id.Name], "1", tUntyped)
			out += "let " + vname(id.Name) + " := " + r + " in "
		default:
			grf("loop body outside the fragment")
		}
	}
	return out + k()
}

// ---- functions -----------------------------------------------------------------------------------------------

var grCombVars = map[string]*ast.CallExpr{}

var grWanted = []string{
	"matchOleClsid", "Doc", "Xls", "Ppt", "Pub", "Msg", "Msi",
	"zipContains", "Docx", "Xlsx", "Pptx", "Jar", "APK", "CRX",
	"vintWidth", "isFileTypeNamePresent", "isMatroskaFileTypeMatched", "Mkv", "WebM",
	"tarParseOctal", "tarChksum", "Tar",
	"Text", "Svg", "Php", "isWS", "trimLWS", "trimRWS", "firstLine", "ciCheck", "ciPrefix", "markupCheck", "markup", "xmlCheck", "xml", "shebangCheck", "shebang",
}

// a combinator `func f(outer..) Detector { return func(raw []byte, limit uint32) bool { BODY } }` is read as the
// function of the outer and the inner parameters with BODY as its body
func closureOf(fd *ast.FuncDecl) *ast.FuncLit {
	if fd.Body == nil || len(fd.Body.List) != 1 {
		return nil
	}
	r, ok := fd.Body.List[0].(*ast.ReturnStmt)
	if !ok || len(r.Results) != 1 {
		return nil
	}
	fl, _ := r.Results[0].(*ast.FuncLit)
	return fl
}

func grSignature(fd *ast.FuncDecl) (*grFn, string) {
	fn := &grFn{decl: fd}
	i := 0
	params := append([]*ast.Field{}, fd.Type.Params.List...)
	results := fd.Type.Results
	if fl := closureOf(fd); fl != nil {
		params = append(params, fl.Type.Params.List...)
		results = fl.Type.Results
		fn.body = fl.Body.List
	} else if fd.Body != nil {
		fn.body = fd.Body.List
	}
	fn.results = results
	for _, f := range params {
		t := grTypeOf(f.Type)
		if t == tUnk {
			return nil, "parameter type outside the fragment"
		}
		for _, n := range f.Names {
			i++
			name := n.Name
			if name == "_" {
				name = fmt.Sprintf("unused%d", i)
			}
			fn.pnames = append(fn.pnames, name)
			fn.ptys = append(fn.ptys, t)
		}
	}
	if results == nil {
		return nil, "no result"
	}
	for _, f := range results.List {
		t := grTypeOf(f.Type)
		if t == tUnk {
			return nil, "result type outside the fragment"
		}
		k := len(f.Names)
		if k == 0 {
			k = 1
		}
		for j := 0; j < k; j++ {
			fn.rets = append(fn.rets, t)
		}
	}
	return fn, ""
}

func writeSrcFuncs(repo, outDir string) bool {
	_, files := parseDir(filepath.Join(repo, "internal", "magic"))
	decls := map[string]*ast.FuncDecl{}
	for _, f := range files {
		for _, d := range f.Decls {
			if fd, ok := d.(*ast.FuncDecl); ok && fd.Recv == nil && fd.Body != nil {
				decls[fd.Name.Name] = fd
			}
		}
	}
	for _, f := range files {
		for _, d := range f.Decls {
			if gd, ok := d.(*ast.GenDecl); ok && gd.Tok == token.VAR {
				for _, sp := range gd.Specs {
					if vs, ok := sp.(*ast.ValueSpec); ok {
						for i, n := range vs.Names {
							if i < len(vs.Values) {
								if ce, ok := vs.Values[i].(*ast.CallExpr); ok {
									grCombVars[n.Name] = ce
								}
							}
						}
					}
				}
			}
		}
	}
	golite, _ := translateFuncs(repo) // sets glPkgLits / glPkgInts as well
	fns := map[string]*grFn{}
	why := map[string]string{}
	for _, n := range grWanted {
		fd, ok := decls[n]
		if !ok {
			why[n] = "no such function"
			continue
		}
		fn, w := grSignature(fd)
		if fn == nil {
			why[n] = w
			continue
		}
		fns[n] = fn
	}
	bodies := map[string]string{}
	deps := map[string][]string{}
	// a function that calls an untranslatable one is itself untranslatable: iterate to a fixed point
	for changed := true; changed; {
		changed = false
		for _, n := range grWanted {
			fn, ok := fns[n]
			if !ok {
				continue
			}
			if _, done := bodies[n]; done {
				// still valid only while all callees are translated
				for _, d := range deps[n] {
					if _, ok := fns[d]; !ok && !strings.HasPrefix(d, "golite:") {
						delete(bodies, n)
						delete(fns, n)
						why[n] = "calls " + d + ", which is not translated"
						changed = true
					}
				}
				continue
			}
			cnt := 0
			e := &grEnv{ty: map[string]grTy{}, consts: map[string]int64{}, tabs: map[string][][]byte{}, cnt: &cnt, fns: fns, golite: golite, calls: map[string]bool{}, rets: fn.rets}
			for i, p := range fn.pnames {
				e.ty[p] = fn.ptys[i]
			}
			body, failed := "", ""
			func() {
				defer func() {
					if r := recover(); r != nil {
						if gf, ok := r.(glFail); ok {
							failed = gf.why
							return
						}
						panic(r)
					}
				}()
				pre := ""
				// named results are locals initialised to the zero value
				if fn.results != nil {
					for _, f := range fn.results.List {
						for _, rn := range f.Names {
							t := grTypeOf(f.Type)
							e.ty[rn.Name] = t
							zero := map[grTy]string{tInt: "0", tU32: "0", tByte: "0", tBool: "false", tBytes: "(@nil N)"}[t]
							pre += "let " + vname(rn.Name) + " := " + zero + " in\n  "
						}
					}
				}
				body = pre + e.comp(fn.body, nil)
			}()
			if failed != "" {
				delete(fns, n)
				why[n] = failed
				changed = true
				continue
			}
			bodies[n] = body
			for c := range e.calls {
				deps[n] = append(deps[n], c)
			}
			sort.Strings(deps[n])
			changed = true
		}
	}
	// emission in dependency order
	var order []string
	seen := map[string]bool{}
	var visit func(n string)
	visit = func(n string) {
		if seen[n] {
			return
		}
		seen[n] = true
		for _, d := range deps[n] {
			if !strings.HasPrefix(d, "golite:") {
				visit(d)
			}
		}
		order = append(order, n)
	}
	for _, n := range grWanted {
		if _, ok := bodies[n]; ok {
			visit(n)
		}
	}
	var sb strings.Builder
	sb.WriteString("(* GENERATED by verifh gen from /repo/internal/magic/*.go - the offset-computing detectors as functions in the\n   res monad (translator harness/gores.go, prelude Model/GoRes.v). Do not edit. *)\n")
	sb.WriteString("From Verif Require Import Base.Bytes Model.GoLite Model.GoRes Model.Text Gen.Tables.\nLocal Open Scope string_scope.\nLocal Open Scope Z_scope.\n\n")
	gl := map[string]bool{}
	for _, n := range order {
		for _, d := range deps[n] {
			if strings.HasPrefix(d, "golite:") {
				gl[strings.TrimPrefix(d, "golite:")] = true
			}
		}
	}
	var gls []string
	for n := range gl {
		gls = append(gls, n)
	}
	sort.Strings(gls)
	for _, n := range gls {
		sb.WriteString("Definition srcp_" + n + " : prog := " + natify(golite[n]) + ".\n")
	}
	sb.WriteString("\n")
	for _, n := range order {
		fn := fns[n]
		var ps []string
		for i, p := range fn.pnames {
			ps = append(ps, fmt.Sprintf("(%s : %s)", vname(p), fn.ptys[i].coq()))
		}
		var rt []string
		for _, t := range fn.rets {
			rt = append(rt, t.coq())
		}
		r := strings.Join(rt, " * ")
		if len(rt) > 1 {
			r = "(" + r + ")"
		}
		sb.WriteString("Definition src_" + n + " " + strings.Join(ps, " ") + " : res " + r + " :=\n  " + bodies[n] + ".\n\n")
	}
	sb.WriteString("Definition src_translated : list string := [")
	for i, n := range order {
		if i > 0 {
			sb.WriteString("; ")
		}
		sb.WriteString(strconv.Quote(n))
	}
	sb.WriteString("].\n\n(* wanted but not translated (the obligations about them in Proofs/SrcFuncsP.v no longer check): *)\n")
	sb.WriteString("Definition src_untranslated : list (string * string) := [")
	first := true
	for _, n := range grWanted {
		if _, ok := bodies[n]; ok {
			continue
		}
		if !first {
			sb.WriteString(";")
		}
		first = false
		sb.WriteString("\n  (" + strconv.Quote(n) + ", " + strconv.Quote(why[n]) + ")")
	}
	sb.WriteString("\n].\n")
	return writeIfChanged(filepath.Join(outDir, "SrcFuncs.v"), []byte(sb.String()))
}
