package main

import (
	"fmt"
	"os"
)

func main() {
	if len(os.Args) < 2 {
		fmt.Fprintln(os.Stderr, "usage: verifh <gen|run> ...")
		os.Exit(2)
	}
	switch os.Args[1] {
	case "gen":
		cmdGen(os.Args[2:])
	default:
		if f, ok := commands[os.Args[1]]; ok {
			f(os.Args[2:])
			return
		}
		fmt.Fprintln(os.Stderr, "unknown command", os.Args[1])
		os.Exit(2)
	}
}

var commands = map[string]func([]string){}
