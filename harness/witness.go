package main

// Term-directed witnesses: for every detector whose body the translator renders as a GoLite term (37 functions, 93
// combinator signatures) inputs are synthesised FROM THE TERM: one per way of making it true (every disjunct, every
// early `return true`), a few that make it false by a single atom, and each of them cut / padded to the lengths the
// term's guards and indices mention (k-1, k, k+1).  The terms are read off the current source on every run, so an
// edited constant, index or guard moves the witnesses with it; the hand models and the source-translated functions
// are then compared with the implementation on exactly the inputs where such an edit shows.

import (
	"archive/tar"
	"bytes"
	"fmt"
	"sort"
	"strconv"
	"strings"
)

type wNode struct {
	op   string
	args []*wNode
	atom string // number, cmp, endian, bool
	lit  []byte
	isLit bool
}

type wParser struct {
	s string
	i int
}

func (p *wParser) ws() {
	for p.i < len(p.s) && (p.s[p.i] == ' ' || p.s[p.i] == '\n') {
		p.i++
	}
}

func (p *wParser) parse() *wNode {
	p.ws()
	if p.i >= len(p.s) {
		return nil
	}
	switch p.s[p.i] {
	case '(':
		p.i++
		p.ws()
		if strings.HasPrefix(p.s[p.i:], "@nil N") {
			p.i += len("@nil N")
			p.ws()
			p.i++ // )
			return &wNode{isLit: true}
		}
		j := p.i
		for j < len(p.s) && p.s[j] != ' ' && p.s[j] != ')' {
			j++
		}
		n := &wNode{op: p.s[p.i:j]}
		p.i = j
		for {
			p.ws()
			if p.i >= len(p.s) {
				return n
			}
			if p.s[p.i] == ')' {
				p.i++
				return n
			}
			n.args = append(n.args, p.parse())
		}
	case '[':
		j := strings.IndexByte(p.s[p.i:], ']')
		body := p.s[p.i+1 : p.i+j]
		p.i += j + 1
		if strings.HasPrefix(p.s[p.i:], "%N") {
			p.i += 2
		}
		n := &wNode{isLit: true}
		if strings.TrimSpace(body) != "" {
			for _, x := range strings.Split(body, ";") {
				v, _ := strconv.Atoi(strings.TrimSpace(x))
				n.lit = append(n.lit, byte(v))
			}
		}
		return n
	}
	j := p.i
	for j < len(p.s) && p.s[j] != ' ' && p.s[j] != ')' {
		j++
	}
	a := p.s[p.i:j]
	p.i = j
	a = strings.TrimSuffix(strings.TrimSuffix(a, "%nat"), "%N")
	return &wNode{atom: a}
}

// one atomic requirement on the input
type wReq struct {
	kind string // "len", "byte", "write", "avoid"
	cmp  string
	k    int
	off  int
	lit  []byte
	val  uint64
	w    int // width for numeric writes
	le   bool
}

func negCmp(c string) string {
	return map[string]string{"CEq": "CNe", "CNe": "CEq", "CLt": "CGe", "CGe": "CLt", "CGt": "CLe", "CLe": "CGt"}[c]
}

// a value satisfying `x cmp v` within [0, max]
func pick(cmp string, v uint64, max uint64) (uint64, bool) {
	switch cmp {
	case "CEq":
		return v, v <= max
	case "CNe":
		if v == 0 {
			return 1, true
		}
		return v - 1, true
	case "CLt":
		if v == 0 {
			return 0, false
		}
		return v - 1, true
	case "CLe":
		return v, v <= max
	case "CGt":
		return v + 1, v+1 <= max
	case "CGe":
		return v, v <= max
	}
	return 0, false
}

const wCap = 48

func wCross(a, b [][]wReq) [][]wReq {
	var out [][]wReq
	for _, x := range a {
		for _, y := range b {
			if len(out) >= wCap {
				return out
			}
			out = append(out, append(append([]wReq{}, x...), y...))
		}
	}
	return out
}

func wUnion(a, b [][]wReq) [][]wReq {
	out := append([][]wReq{}, a...)
	for _, y := range b {
		if len(out) >= wCap {
			break
		}
		out = append(out, y)
	}
	return out
}

func atoi(n *wNode) int {
	v, _ := strconv.Atoi(n.atom)
	return v
}

func atou(n *wNode) uint64 {
	v, _ := strconv.ParseUint(n.atom, 10, 64)
	return v
}

func wSolveB(n *wNode, want bool) [][]wReq {
	switch n.op {
	case "BConst":
		if (n.args[0].atom == "true") == want {
			return [][]wReq{{}}
		}
		return nil
	case "BLen":
		c := n.args[0].atom
		if !want {
			c = negCmp(c)
		}
		return [][]wReq{{{kind: "len", cmp: c, k: atoi(n.args[1])}}}
	case "BByte":
		c := n.args[1].atom
		if !want {
			c = negCmp(c)
		}
		v, ok := pick(c, atou(n.args[2]), 255)
		if !ok {
			return nil
		}
		return [][]wReq{{{kind: "write", off: atoi(n.args[0]), lit: []byte{byte(v)}}}}
	case "BPrefixAt", "BEqualSlice", "BContainsWin":
		off := atoi(n.args[0])
		lit := n.args[len(n.args)-1].lit
		if want {
			r := []wReq{{kind: "write", off: off, lit: lit}}
			if n.op == "BEqualSlice" {
				r = append(r, wReq{kind: "len", cmp: "CGe", k: atoi(n.args[1])})
			}
			return [][]wReq{r}
		}
		if len(lit) == 0 {
			return nil
		}
		bad := append([]byte{}, lit...)
		bad[len(bad)-1] ^= 0x01
		r := []wReq{{kind: "write", off: off, lit: bad}}
		if n.op == "BEqualSlice" {
			r = append(r, wReq{kind: "len", cmp: "CGe", k: atoi(n.args[1])})
		}
		return [][]wReq{r}
	case "BU16", "BU32":
		w := 2
		max := uint64(0xFFFF)
		if n.op == "BU32" {
			w, max = 4, 0xFFFFFFFF
		}
		c := n.args[2].atom
		if !want {
			c = negCmp(c)
		}
		v, ok := pick(c, atou(n.args[3]), max)
		if !ok {
			return nil
		}
		b := make([]byte, w)
		for i := 0; i < w; i++ {
			sh := uint(8 * i)
			if n.args[0].atom == "BE" {
				sh = uint(8 * (w - 1 - i))
			}
			b[i] = byte(v >> sh)
		}
		return [][]wReq{{{kind: "write", off: atoi(n.args[1]), lit: b}}}
	case "BNot":
		return wSolveB(n.args[0], !want)
	case "BAnd":
		if want {
			return wCross(wSolveB(n.args[0], true), wSolveB(n.args[1], true))
		}
		return wUnion(wSolveB(n.args[0], false), wCross(wSolveB(n.args[0], true), wSolveB(n.args[1], false)))
	case "BOr":
		if want {
			return wUnion(wSolveB(n.args[0], true), wCross(wSolveB(n.args[0], false), wSolveB(n.args[1], true)))
		}
		return wCross(wSolveB(n.args[0], false), wSolveB(n.args[1], false))
	case "inl":
		return wSolveP(n.args[0], want)
	}
	return nil
}

func wSolveP(n *wNode, want bool) [][]wReq {
	switch n.op {
	case "PRet":
		return wSolveB(n.args[0], want)
	case "PIfRet":
		v := n.args[1].atom == "true"
		rest := wCross(wSolveB(n.args[0], false), wSolveP(n.args[2], want))
		if v == want {
			return wUnion(wSolveB(n.args[0], true), rest)
		}
		return rest
	}
	return nil
}

// build an input from a requirement set; also the lengths its guards and indices mention
func wBuild(reqs []wReq, fill byte) ([]byte, []int) {
	need, exact, maxLen := 0, -1, -1
	marks := map[int]bool{}
	for _, r := range reqs {
		switch r.kind {
		case "len":
			marks[r.k] = true
			switch r.cmp {
			case "CGt":
				if r.k+1 > need {
					need = r.k + 1
				}
			case "CGe":
				if r.k > need {
					need = r.k
				}
			case "CEq":
				exact = r.k
			case "CLt":
				if maxLen < 0 || r.k-1 < maxLen {
					maxLen = r.k - 1
				}
			case "CLe":
				if maxLen < 0 || r.k < maxLen {
					maxLen = r.k
				}
			case "CNe":
				if need == r.k {
					need = r.k + 1
				}
			}
		case "write":
			marks[r.off] = true
			marks[r.off+len(r.lit)] = true
			if maxLen < 0 && r.off+len(r.lit) > need {
				need = r.off + len(r.lit)
			}
		}
	}
	n := need
	if exact >= 0 {
		n = exact
	}
	if maxLen >= 0 && n > maxLen {
		n = maxLen
	}
	if n > 1<<16 {
		n = 1 << 16
	}
	buf := make([]byte, n)
	for i := range buf {
		buf[i] = fill
	}
	for _, r := range reqs {
		if r.kind == "write" {
			for i, x := range r.lit {
				if r.off+i < len(buf) {
					buf[r.off+i] = x
				}
			}
		}
	}
	var ms []int
	for m := range marks {
		ms = append(ms, m)
	}
	sort.Ints(ms)
	return buf, ms
}

type witness struct {
	name  string
	data  []byte
	marks []int
	pos   bool
}

var witnessCache []witness

func termWitnesses(repo string) []witness {
	if witnessCache != nil {
		return witnessCache
	}
	terms, _ := translateFuncs(repo)
	all := map[string]string{}
	for n, t := range terms {
		all[n] = t
	}
	for n, t := range glCombTerms {
		all["comb:"+n] = t
	}
	var names []string
	for n := range all {
		names = append(names, n)
	}
	sort.Strings(names)
	var out []witness
	seen := map[string]bool{}
	for _, n := range names {
		p := &wParser{s: all[n]}
		root := p.parse()
		if root == nil {
			continue
		}
		for _, pol := range []bool{true, false} {
			sols := wSolveP(root, pol)
			if !pol && len(sols) > 12 {
				sols = sols[:12]
			}
			for _, reqs := range sols {
				for _, fill := range []byte{0x00, 0x20} {
					d, ms := wBuild(reqs, fill)
					key := n + "|" + string(d)
					if seen[key] {
						continue
					}
					seen[key] = true
					out = append(out, witness{name: n, data: d, marks: ms, pos: pol})
				}
			}
		}
	}
	// nodes below another node: the walk reaches them only when every ancestor accepts too, so the requirements of the
	// node's term are joined with the first way of satisfying each ancestor's term (ancestors without a term -
	// zip, text, json ... - are left to the structured seeds)
	termOf := func(det string) (*wNode, bool) {
		t, ok := all[det]
		if !ok {
			t, ok = all["comb:"+det]
		}
		if !ok {
			return nil, false
		}
		r := (&wParser{s: t}).parse()
		return r, r != nil
	}
	decls := parseTree(repo)
	parent := map[string]string{}
	var vars []string
	for v, d := range decls {
		vars = append(vars, v)
		for _, ch := range d.children {
			parent[ch] = v
		}
	}
	sort.Strings(vars)
	for _, v := range vars {
		own, ok := termOf(decls[v].det)
		if !ok {
			continue
		}
		var anc [][]wReq
		okAll, depth := true, 0
		for a := parent[v]; a != "" && decls[a] != nil && decls[a].det != "RootTrue"; a = parent[a] {
			at, ok := termOf(decls[a].det)
			if !ok {
				okAll = false
				break
			}
			sols := wSolveP(at, true)
			if len(sols) == 0 {
				okAll = false
				break
			}
			if anc == nil {
				anc = [][]wReq{sols[0]}
			} else {
				anc = wCross(anc, [][]wReq{sols[0]})
			}
			depth++
		}
		if !okAll || depth == 0 {
			continue
		}
		sols := wSolveP(own, true)
		if len(sols) > 8 {
			sols = sols[:8]
		}
		for _, reqs := range wCross(anc, sols) { // ancestor writes first, the node's own last (they win on overlap)
			d, ms := wBuild(reqs, 0x00)
			key := "node:" + v + "|" + string(d)
			if seen[key] {
				continue
			}
			seen[key] = true
			out = append(out, witness{name: "node:" + v, data: d, marks: ms, pos: true})
		}
	}
	witnessCache = out
	return out
}

// the positive witnesses as ordinary seeds (every channel that walks the seed corpus sees a positive for every
// disjunct of every translated detector)
func witnessSeeds(repo string) []seed {
	var out []seed
	seen := map[string]bool{}
	for _, w := range termWitnesses(repo) {
		if !w.pos || len(w.data) == 0 || len(w.data) > 4096 || seen[string(w.data)] {
			continue
		}
		// one fill per requirement set is enough here
		if len(w.data) > 0 && w.data[len(w.data)-1] == 0x20 {
			continue
		}
		seen[string(w.data)] = true
		out = append(out, seed{kind: "witness:" + w.name, data: w.data})
	}
	return out
}

// inputs that several sub-formats of one parent accept at once: for every pair of siblings with a term, the first ways
// of satisfying both terms (and the ancestors') joined; and tar archives (written by archive/tar) whose first member is
// named after the leading bytes another root format looks for.  Where two sub-formats accept, the priority order decides.
func (c *runCtx) siblingStream(repo string) {
	all := map[string]string{}
	terms, _ := translateFuncs(repo)
	for n, t := range terms {
		all[n] = t
	}
	for n, t := range glCombTerms {
		all["comb:"+n] = t
	}
	solsOf := func(det string) [][]wReq {
		t, ok := all[det]
		if !ok {
			t, ok = all["comb:"+det]
		}
		if !ok {
			return nil
		}
		r := (&wParser{s: t}).parse()
		if r == nil {
			return nil
		}
		sl := wSolveP(r, true)
		if len(sl) > 2 {
			sl = sl[:2]
		}
		return sl
	}
	decls := parseTree(repo)
	parent := map[string]string{}
	var vars []string
	for v, d := range decls {
		vars = append(vars, v)
		for _, ch := range d.children {
			parent[ch] = v
		}
	}
	sort.Strings(vars)
	n := 0
	for _, v := range vars {
		d := decls[v]
		var anc [][]wReq
		ok := true
		for a := v; a != "" && decls[a] != nil && decls[a].det != "RootTrue"; a = parent[a] {
			sl := solsOf(decls[a].det)
			if len(sl) == 0 {
				ok = false
				break
			}
			if anc == nil {
				anc = [][]wReq{sl[0]}
			} else {
				anc = wCross(anc, [][]wReq{sl[0]})
			}
		}
		if !ok {
			continue
		}
		if anc == nil {
			anc = [][]wReq{{}}
		}
		for i := 0; i < len(d.children); i++ {
			si := solsOf(decls[d.children[i]].det)
			if len(si) == 0 {
				continue
			}
			for j := i + 1; j < len(d.children); j++ {
				sj := solsOf(decls[d.children[j]].det)
				if len(sj) == 0 {
					continue
				}
				for _, reqs := range wCross(anc, wCross(sj, si)) { // the earlier sibling's bytes win where they overlap
					x, _ := wBuild(reqs, 0x00)
					c.obsCase("siblings:"+d.children[i]+"+"+d.children[j], x, 3072)
					n++
				}
			}
		}
	}
	// tar archives whose first member name starts with another format's leading bytes
	seenName := map[string]bool{}
	for _, w := range termWitnesses(repo) {
		if !w.pos || len(w.data) == 0 || len(w.data) > 90 || bytes.IndexByte(w.data, 0) >= 0 || seenName[string(w.data)] {
			continue
		}
		seenName[string(w.data)] = true
		var buf bytes.Buffer
		tw := tar.NewWriter(&buf)
		if err := tw.WriteHeader(&tar.Header{Name: string(w.data) + "data.bin", Mode: 0o644, Size: 3, Format: tar.FormatUSTAR}); err != nil {
			continue
		}
		tw.Write([]byte("abc"))
		tw.Close()
		c.obsCase("tar-named:"+w.name, buf.Bytes(), 3072)
		n++
	}
	c.stats.Extra["sibling_inputs"] = n
}

// the det stream over the witnesses: whole, and cut / padded to every length the term mentions
func (c *runCtx) witnessStream(repo string) {
	ws := termWitnesses(repo)
	c.stats.Extra["term_witnesses"] = len(ws)
	for _, w := range ws {
		kind := fmt.Sprintf("witness:%s", w.name)
		n := len(w.data)
		c.obsCase(kind, w.data, 3072)
		c.obsCase(kind, w.data, uint32(n))
		c.obsCase(kind, w.data, 0)
		lens := map[int]bool{}
		for _, m := range w.marks {
			for _, d := range []int{-1, 0, 1, 2} {
				if m+d >= 0 && m+d <= 70000 {
					lens[m+d] = true
				}
			}
		}
		lens[n+1] = true
		if n > 0 {
			lens[n-1] = true
		}
		var ls []int
		for l := range lens {
			ls = append(ls, l)
		}
		sort.Ints(ls)
		for _, l := range ls {
			var x []byte
			if l <= n {
				x = w.data[:l]
			} else {
				x = make([]byte, l)
				copy(x, w.data)
				for i := n; i < l; i++ {
					x[i] = byte(0x41 + i%7)
				}
			}
			c.obsCase(kind+"+len", x, 3072)
			c.obsCase(kind+"+len", x, uint32(l)) // truncated mode: len == limit
		}
	}
}
