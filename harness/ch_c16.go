package main

// C16: nesting bombs. Depths around the cap through Parse / the detectors (compared with the model),
// and very deep bombs through Detect in this process with a small maximum stack: a stack overflow is
// fatal (the process dies, the orchestrator sees no DONE line), a JSON verdict past the cap is a failure.

import (
	"bytes"
	"fmt"
	"os"
	"os/exec"
	"runtime/debug"
	"strconv"
	"strings"

	mjson "github.com/gabriel-vasile/mimetype/internal/json"
	"github.com/gabriel-vasile/mimetype/internal/magic"
)

func bomb(shape string, depth int) []byte {
	var sb bytes.Buffer
	switch shape {
	case "arr":
		sb.WriteString(strings.Repeat("[", depth))
	case "obj":
		sb.WriteString(strings.Repeat("{\"k\":", depth))
	case "mixed":
		for i := 0; i < depth; i++ {
			if i%2 == 0 {
				sb.WriteString("[")
			} else {
				sb.WriteString("{\"k\":")
			}
		}
	case "padded":
		sb.WriteString(strings.Repeat("[ \n", depth))
	}
	return sb.Bytes()
}

func closed(shape string, depth int) []byte {
	o := bomb(shape, depth)
	var sb bytes.Buffer
	sb.Write(o)
	switch shape {
	case "arr", "padded":
		sb.WriteString(strings.Repeat("]", depth))
	case "obj":
		sb.WriteString("1" + strings.Repeat("}", depth))
	case "mixed":
		if depth%2 == 0 && depth > 0 {
			sb.WriteString("1")
		}
		for i := depth - 1; i >= 0; i-- {
			if i%2 == 0 {
				sb.WriteString("]")
			} else {
				sb.WriteString("}")
			}
		}
	}
	return sb.Bytes()
}

func runC16(c *runCtx) {
	debug.SetMaxStack(16 << 20) // 16 MB: unbounded recursion on a multi-million-level bomb overflows this
	cap := mjson.VerifMaxRecursion()
	c.stats.Extra["max_recursion_constant"] = cap
	c.stats.Extra["pool_max_recursion"] = mjson.VerifPoolMaxRecursion()
	shapes := []string{"arr", "obj", "mixed", "padded"}
	// around the cap: the JSON verdict is compared with the model (light channel: one model parse per case)
	edgeShapes := []string{"arr", "obj"}
	if c.tier == "thorough" {
		edgeShapes = shapes
	}
	for _, sh := range edgeShapes {
		for d := cap; d <= cap+2; d++ {
			for ci, x := range [][]byte{closed(sh, d), bomb(sh, d)} {
				lim := uint32(0)
				if ci == 1 {
					lim = uint32(len(x))
				}
				if !c.mine() { // round-robin: these cases are expensive for the model, spread them evenly
					continue
				}
				v := "0"
				if magic.JSON(x, lim) {
					v = "1"
				}
				c.stats.note("depth-"+sh, []byte(fmt.Sprintf("%s:%d:%d", sh, d, ci)), len(x), true)
				c.stats.sample(fmt.Sprintf("depth shape=%s depth=%d closed=%v limit=%d len=%d -> JSON=%s", sh, d, ci == 0, lim, len(x), v))
				c.emit("jdepth", hx(x), strconv.Itoa(int(lim)), v, fmt.Sprintf("%s depth=%d closed=%v", sh, d, ci == 0))
			}
		}
	}
	for _, d := range []int{1, 2, 3, 10, 100} {
		c.jsonCase("depth-small", closed("mixed", d), 0)
	}
	runBombs(c, "C16")
}

// bombs: each one is detected in a child process (a Go stack overflow is fatal and cannot be recovered): the child
// prints the result, its death is the finding.  Also long runs of white space and of other single bytes in front
// of / inside a document (recursion anywhere outside the guarded scanner shows up the same way).
func runBombs(c *runCtx, prop string) {
	self, _ := os.Executable()
	shapes := []string{"arr", "obj", "mixed", "padded", "ws-pad", "nl-pad", "ws-inside", "sib-arr", "sib-obj", "wide-obj", "wide-arr", "arr-garbage", "deep-ok",
		"esc-val", "esc-key", "uni-esc", "long-str", "long-num", "deep-pad", "lines"}
	depths := []int{10000, 100000, 1000000}
	if c.tier == "thorough" {
		depths = append(depths, 10000000)
	}
	for _, sh := range shapes {
		for _, d := range depths {
			for _, cl := range []bool{false, true} {
				if !c.mine([]byte(sh), []byte(strconv.Itoa(d)), []byte(fmt.Sprint(cl))) {
					continue
				}
				for _, lim := range []int64{0, 1<<32 - 1, -1} { // -1: the limit is the length of the input (header mode)
					desc := fmt.Sprintf("shape=%s depth=%d closed=%v limit=%d", sh, d, cl, lim)
					c.watch("bomb " + desc)
					cmd := exec.Command(self, "bomb-child", sh, strconv.Itoa(d), fmt.Sprint(cl), strconv.Itoa(int(lim)))
					outb, err := cmd.Output()
					c.started.Store(0)
					res := strings.TrimSpace(string(outb))
					c.stats.note("bomb-"+sh, []byte(desc), d, true)
					c.stats.sample("bomb " + desc + " -> " + res)
					if err != nil || !strings.HasPrefix(res, "OK ") {
						tail := ""
						if ee, ok := err.(*exec.ExitError); ok {
							st := string(ee.Stderr)
							if i := strings.Index(st, "fatal error"); i >= 0 {
								st = st[i:]
							}
							tail = strings.SplitN(st, "\n", 2)[0]
						}
						c.propfail(prop, fmt.Sprintf("Detect kills the process on a nesting / padding bomb (%s): %v %s %s", desc, err, res, tail))
						continue
					}
					f := strings.Fields(res)
					wantJSON := (strings.HasSuffix(sh, "pad") && sh != "deep-pad") || sh == "ws-inside" || strings.HasPrefix(sh, "esc-") || sh == "uni-esc" || strings.HasPrefix(sh, "long-") || sh == "lines" || strings.HasPrefix(sh, "wide-") || sh == "deep-ok" // no nesting beyond the cap: valid documents
					if sh == "arr-garbage" && f[1] == "1" {
						c.propfail(c.garbageProp(), fmt.Sprintf("brackets followed by a mismatched closer and junk reported as JSON: %s result=%s", desc, f[2]))
						continue
					}
					isJSON := f[1] == "1"
					if isJSON && !wantJSON {
						c.propfail("C16", fmt.Sprintf("nesting bomb beyond the cap reported as JSON: %s result=%s", desc, f[2]))
					}
					if wantJSON && cl && lim == 0 && f[2] != "application/json" && f[2] != "application/geo+json" && f[2] != "model/gltf+json" && !(sh == "lines" && f[2] == "application/x-ndjson") {
						c.propfail("C08", fmt.Sprintf("valid document with %d bytes of padding not reported as JSON: %s result=%s", d, desc, f[2]))
					}
				}
			}
		}
	}
}

func (c *runCtx) garbageProp() string {
	if c.prop == "C09" {
		return "C09"
	}
	return "C16"
}

func bombInput(sh string, d int, cl bool) []byte {
	switch sh {
	case "sib-arr": // a completed sibling first, then the bomb
		if cl {
			return append(append([]byte("[0,"), closed("arr", d)...), ']')
		}
		return append([]byte("[0,"), bomb("arr", d)...)
	case "sib-obj":
		if cl {
			return append(append([]byte("{\"a\":0,\"b\":"), closed("obj", d)...), '}')
		}
		return append([]byte("{\"a\":0,\"b\":"), bomb("obj", d)...)
	case "wide-obj": // no nesting at all: d members side by side
		var sb bytes.Buffer
		sb.WriteString("{")
		for i := 0; i < d; i++ {
			if i > 0 {
				sb.WriteString(",")
			}
			sb.WriteString("\"k\":0")
		}
		if cl {
			sb.WriteString("}")
		}
		return sb.Bytes()
	case "wide-arr":
		s := "[" + strings.Repeat("0,", d) + "0"
		if cl {
			s += "]"
		}
		return []byte(s)
	case "arr-garbage": // malformed whatever the depth
		return []byte(strings.Repeat("[", d/100+4200) + "} this is not json")
	case "esc-val": // no nesting: one string value made of d two-byte escapes
		s := "[\"" + strings.Repeat("\\n", d)
		if cl {
			s += "\"]"
		}
		return []byte(s)
	case "esc-key":
		s := "{\"" + strings.Repeat("\\\"", d)
		if cl {
			s += "\":1}"
		}
		return []byte(s)
	case "uni-esc":
		s := "[\"" + strings.Repeat("\\u0041", d)
		if cl {
			s += "\"]"
		}
		return []byte(s)
	case "long-str":
		s := "{\"k\":\"" + strings.Repeat("a", d)
		if cl {
			s += "\"}"
		}
		return []byte(s)
	case "long-num":
		s := "[" + strings.Repeat("7", d)
		if cl {
			s += "]"
		}
		return []byte(s)
	case "deep-pad": // deeper than the cap, with d bytes of white space in the middle: the cap does not depend on the size
		return []byte(strings.Repeat("[", 6000) + strings.Repeat(" ", d) + strings.Repeat("]", 6000))
	case "lines": // d short lines, each a document of its own
		s := strings.Repeat("{\"a\":1}\n", d)
		if !cl {
			s += "{\"a\""
		}
		return []byte(s)
	case "deep-ok": // as deep as allowed, and not deeper
		return closed("arr", 4096)
	case "ws-pad":
		return []byte(strings.Repeat(" ", d) + "[{\"k\": [1, 2, 3]}]" + strings.Repeat(" ", d))
	case "nl-pad":
		return []byte(strings.Repeat("\n", d) + "{\"a\":1}" + strings.Repeat("\r\n", d/2))
	case "ws-inside":
		return []byte("[1," + strings.Repeat(" \t", d/2) + "2]")
	}
	if cl {
		return closed(sh, d)
	}
	return bomb(sh, d)
}

func cmdBombChild(args []string) {
	debug.SetMaxStack(16 << 20) // 16 MB: recursion that grows with the input overflows this
	d, _ := strconv.Atoi(args[1])
	lim, _ := strconv.Atoi(args[3])
	x := bombInput(args[0], d, args[2] == "true")
	if lim < 0 {
		lim = len(x)
	}
	m, pan := detectAt(x, uint32(lim))
	if pan != nil || m == nil {
		fmt.Printf("PANIC %v\n", pan)
		return
	}
	j := "0"
	if magic.JSON(x, uint32(lim)) || magic.NdJSON(x, uint32(lim)) || strings.Contains(m.String(), "json") {
		j = "1"
	}
	fmt.Printf("OK %s %s\n", j, bareType(m.String()))
}

func init() {
	commands["bomb-child"] = cmdBombChild
	commands["run-bombs"] = func(args []string) {
		c := parseRunArgs(args)
		runBombs(c, c.prop)
		c.finish()
	}
	commands["run-c16"] = func(args []string) {
		c := parseRunArgs(args)
		runC16(c)
		c.finish()
	}
}
