package main

// C16: nesting bombs. Depths around the cap through Parse / the detectors (compared with the model),
// and very deep bombs through Detect in this process with a small maximum stack: a stack overflow is
// fatal (the process dies, the orchestrator sees no DONE line), a JSON verdict past the cap is a failure.

import (
	"bytes"
	"fmt"
	"runtime/debug"
	"strconv"
	"strings"

	mjson "github.com/gabriel-vasile/mimetype/internal/json"
	"github.com/gabriel-vasile/mimetype/internal/magic"
)

func bomb(shape string, depth int) []byte {
	var sb bytes.Buffer
	switch shape {
	case "arr":
		sb.WriteString(strings.Repeat("[", depth))
	case "obj":
		sb.WriteString(strings.Repeat("{\"k\":", depth))
	case "mixed":
		for i := 0; i < depth; i++ {
			if i%2 == 0 {
				sb.WriteString("[")
			} else {
				sb.WriteString("{\"k\":")
			}
		}
	case "padded":
		sb.WriteString(strings.Repeat("[ \n", depth))
	}
	return sb.Bytes()
}

func closed(shape string, depth int) []byte {
	o := bomb(shape, depth)
	var sb bytes.Buffer
	sb.Write(o)
	switch shape {
	case "arr", "padded":
		sb.WriteString(strings.Repeat("]", depth))
	case "obj":
		sb.WriteString("1" + strings.Repeat("}", depth))
	case "mixed":
		if depth%2 == 0 && depth > 0 {
			sb.WriteString("1")
		}
		for i := depth - 1; i >= 0; i-- {
			if i%2 == 0 {
				sb.WriteString("]")
			} else {
				sb.WriteString("}")
			}
		}
	}
	return sb.Bytes()
}

func runC16(c *runCtx) {
	debug.SetMaxStack(16 << 20) // 16 MB: unbounded recursion on a multi-million-level bomb overflows this
	cap := mjson.VerifMaxRecursion()
	c.stats.Extra["max_recursion_constant"] = cap
	c.stats.Extra["pool_max_recursion"] = mjson.VerifPoolMaxRecursion()
	shapes := []string{"arr", "obj", "mixed", "padded"}
	// around the cap: the JSON verdict is compared with the model (light channel: one model parse per case)
	edgeShapes := []string{"arr", "obj"}
	if c.tier == "thorough" {
		edgeShapes = shapes
	}
	for _, sh := range edgeShapes {
		for d := cap; d <= cap+2; d++ {
			for ci, x := range [][]byte{closed(sh, d), bomb(sh, d)} {
				lim := uint32(0)
				if ci == 1 {
					lim = uint32(len(x))
				}
				if !c.mine() { // round-robin: these cases are expensive for the model, spread them evenly
					continue
				}
				v := "0"
				if magic.JSON(x, lim) {
					v = "1"
				}
				c.stats.note("depth-"+sh, []byte(fmt.Sprintf("%s:%d:%d", sh, d, ci)), len(x), true)
				c.stats.sample(fmt.Sprintf("depth shape=%s depth=%d closed=%v limit=%d len=%d -> JSON=%s", sh, d, ci == 0, lim, len(x), v))
				c.emit("jdepth", hx(x), strconv.Itoa(int(lim)), v, fmt.Sprintf("%s depth=%d closed=%v", sh, d, ci == 0))
			}
		}
	}
	for _, d := range []int{1, 2, 3, 10, 100} {
		c.jsonCase("depth-small", closed("mixed", d), 0)
	}
	// bombs
	depths := []int{10000, 100000, 1000000}
	if c.tier == "thorough" {
		depths = append(depths, 10000000)
	}
	for _, sh := range shapes {
		for _, d := range depths {
			for _, cl := range []bool{false, true} {
				var x []byte
				if cl {
					x = closed(sh, d)
				} else {
					x = bomb(sh, d)
				}
				if !c.mine(x[:64], []byte(strconv.Itoa(d)), []byte(sh)) {
					continue
				}
				for _, lim := range []uint32{0, 1<<32 - 1} {
					c.watch(fmt.Sprintf("bomb shape=%s depth=%d closed=%v limit=%d", sh, d, cl, lim))
					m, pan := detectAt(x, lim)
					c.started.Store(0)
					res := "PANIC"
					if pan == nil && m != nil {
						res = bareType(m.String())
					}
					isJSON := magic.JSON(x, lim) || magic.NdJSON(x, lim) || strings.Contains(res, "json")
					c.stats.note("bomb-"+sh, []byte(fmt.Sprintf("%s:%d:%v:%d", sh, d, cl, lim)), len(x), true)
					c.stats.sample(fmt.Sprintf("bomb shape=%s depth=%d closed=%v limit=%d -> %s", sh, d, cl, lim, res))
					if pan != nil {
						c.propfail("C16", fmt.Sprintf("Detect panics on a nesting bomb: shape=%s depth=%d closed=%v limit=%d: %v", sh, d, cl, lim, pan))
					}
					if isJSON {
						c.propfail("C16", fmt.Sprintf("nesting bomb beyond the cap reported as JSON: shape=%s depth=%d closed=%v limit=%d result=%s", sh, d, cl, lim, res))
					}
				}
			}
		}
	}
}

func init() {
	commands["run-c16"] = func(args []string) {
		c := parseRunArgs(args)
		runC16(c)
		c.finish()
	}
}
