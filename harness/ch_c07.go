package main

import (
	"bytes"
	"sort"
)

// C07: binary data bytes at every position of text seeds, inside and outside the limit; BOMs with
// binary tails; the empty input.  C17: every limit for every seed.

func runC07(c *runCtx) {
	bin := []byte{}
	for b := 0; b <= 0x1F; b++ {
		if b <= 8 || b == 0x0B || (0x0E <= b && b <= 0x1A) || (0x1C <= b && b <= 0x1F) {
			bin = append(bin, byte(b))
		}
	}
	nonbin := []byte{0x09, 0x0A, 0x0C, 0x0D, 0x1B, 0x20, 0x7F, 0x80, 0x85, 0xFF}
	texts := [][]byte{
		[]byte("hello world"), []byte("{\"a\":1}"), []byte("<html><body>x</body></html>"), []byte("a,b\n1,2\n3,4\n"),
		[]byte("#!/usr/bin/python\nprint(1)\n"), []byte("caf\xc3\xa9 au lait"), []byte("x"), []byte("<?xml version=\"1.0\"?><a/>"),
		[]byte("BEGIN:VCARD\nVERSION:3.0\n"), []byte("WEBVTT\n\n"), []byte("{\\rtf1 x}"),
	}
	nseeds := 60
	if c.tier == "thorough" {
		nseeds = 1500
	}
	for i := 0; i < nseeds; i++ {
		texts = append(texts, randText(c.rng, 1+c.rng.Intn(40)))
	}
	c.obsCase("empty", []byte{}, 3072)
	c.obsCase("empty", []byte{}, 0)
	c.obsCase("empty", nil, 1)
	for ti, t := range texts {
		positions := []int{0, len(t) / 2, len(t) - 1, len(t)}
		if ti < 11 || c.tier == "thorough" {
			positions = positions[:0]
			for p := 0; p <= len(t); p++ {
				positions = append(positions, p)
			}
		}
		for _, p := range positions {
			for _, b := range bin {
				y := cat(t[:p], []byte{b}, t[p:])
				c.obsCase("binbyte-inside", y, []uint32{3072, 0, uint32(len(y)), uint32(len(y) + 1), 1<<32 - 1}[(p+int(b))%5])
				if p == 0 || p == len(t) {
					c.obsCase("binbyte-inside", y, 0)
				}
				if p > 0 {
					c.obsCase("binbyte-outside", y, uint32(p))  // the binary byte lies just past the limit
					c.obsCase("binbyte-atlimit", y, uint32(p+1)) // the binary byte is the last examined byte
				}
			}
			nb := nonbin[(ti+p)%len(nonbin)]
			c.obsCase("nonbin", cat(t[:p], []byte{nb}, t[p:]), 3072)
		}
	}
	boms := [][]byte{{0xEF, 0xBB, 0xBF}, {0, 0, 0xFE, 0xFF}, {0xFF, 0xFE, 0, 0}, {0xFE, 0xFF}, {0xFF, 0xFE}}
	for _, bm := range boms {
		for _, b := range bin {
			for _, tail := range [][]byte{{}, {b}, {b, b}, cat([]byte("ab"), []byte{b}, []byte("cd"))} {
				x := cat(bm, tail)
				for _, l := range limitsFor(len(x)) {
					c.obsCase("bom+bin", x, l)
				}
				for k := 1; k <= len(x); k++ {
					c.obsCase("bom+bin-cut", x, uint32(k))
				}
			}
		}
		// the mark followed by one and two arbitrary bytes (NUL among them: FF FE 00 xx is UTF-16LE text, not half a UTF-32 mark)
		for _, a := range []byte{0, 1, 0x30, 'A', 0x7F, 0x80, 0xFE, 0xFF} {
			c.obsCase("bom+1", cat(bm, []byte{a}), 3072)
			for _, b2 := range []byte{0, 0x30, 'A', 0xFF} {
				c.obsCase("bom+2", cat(bm, []byte{a, b2}), 3072)
				c.obsCase("bom+2", cat(bm, []byte{a, b2, 'x', 0, 'y', 0}), 3072)
			}
		}
		// near-miss BOMs
		for k := 1; k < len(bm); k++ {
			c.obsCase("bom-prefix", cat(bm[:k], []byte{0}), 3072)
		}
	}
	// binary seeds that reach text sub-formats only through text: none may carry text/plain
	for _, s := range allSeeds(c.rng, "/repo") {
		c.obsCase(s.kind, s.data, 3072)
		if len(s.data) > 0 {
			y := append([]byte{}, s.data...)
			y[c.rng.Intn(len(y))] = bin[c.rng.Intn(len(bin))]
			c.obsCase(s.kind+"+bin", y, 3072)
		}
	}
}

func classOf(chain string) byte {
	// chain: result first, root last
	parts := splitChain(chain)
	if len(parts) < 2 {
		return 'U'
	}
	rc := parts[len(parts)-2]
	if len(rc) >= 11 && rc[:11] == "text/plain|" {
		return 'T'
	}
	return 'B'
}

func splitChain(chain string) []string {
	var out []string
	cur := ""
	for i := 0; i < len(chain); i++ {
		if chain[i] == ';' {
			out = append(out, cur)
			cur = ""
		} else {
			cur += string(chain[i])
		}
	}
	return append(out, cur)
}

func (c *runCtx) c17Case(kind string, x []byte) {
	if !c.mine(x) {
		return
	}
	cls := make([]byte, 0, len(x)+2)
	nb := 0
	for l := 1; l <= len(x)+1; l++ {
		// long inputs: every limit up to 600, then every 8th and the neighbourhood of every multiple of 512
		if l > 600 && l%8 != 0 && (l+1)%512 > 2 && l <= len(x)-1 {
			if len(cls) > 0 {
				cls = append(cls, cls[len(cls)-1]) // keep the string indexed by limit: repeat the previous class
			}
			continue
		}
		m, pan := detectAt(x, uint32(l))
		ch := byte('P')
		if pan == nil && m != nil {
			ch = classOf(chainOf(m))
		}
		if ch == 'B' {
			nb++
		}
		cls = append(cls, ch)
	}
	// limits far beyond the input (Detect slices, nothing is allocated): still "more bytes examined", not fewer
	for _, l := range []uint32{64<<20 + 1, 1 << 31, 1<<32 - 1} {
		m, pan := detectAt(x, l)
		ch := byte('P')
		if pan == nil && m != nil {
			ch = classOf(chainOf(m))
		}
		cls = append(cls, ch)
	}
	m, pan := detectAt(x, 0)
	ch := byte('P')
	if pan == nil && m != nil {
		ch = classOf(chainOf(m))
	}
	cls = append(cls, ch)
	c.stats.note(kind, x, len(x), nb > 0 && nb < len(cls)-1)
	c.stats.Evaluations += int64(len(cls) - 1)
	c.emit("c17", hx(x), string(cls))
	if c.stats.Evaluations%50 < int64(len(cls)) {
		c.stats.sample("c17 kind=" + kind + " input=" + hx(x) + " classes(limit 1..len+1, then 0)=" + string(cls))
	}
}

func runC17(c *runCtx) {
	seeds := allSeeds(c.rng, "/repo")
	maxLen := 1700
	reps := 1
	if c.tier == "thorough" {
		maxLen = 4200
		reps = 8
	}
	for rep := 0; rep < reps; rep++ {
		for _, s := range seeds {
			x := s.data
			if len(x) > maxLen {
				x = x[:maxLen]
			}
			c.c17Case(s.kind, x)
			// mutated variants: signatures shifted / damaged so that verdicts flip with the limit
			if len(x) > 4 {
				y := append([]byte{}, x...)
				y[c.rng.Intn(len(y))] = byte(c.rng.Intn(256))
				c.c17Case(s.kind+"+mut", y)
				z := cat(x[:c.rng.Intn(len(x))], randBytes(c.rng, 1+c.rng.Intn(8)), x)
				if len(z) > maxLen {
					z = z[:maxLen]
				}
				c.c17Case(s.kind+"+shift", z)
			}
		}
		seeds = allSeeds(c.rng, "/repo")
	}
	// foreign literals of any detector spliced in at later offsets: the verdict of a binary format must not
	// depend on what follows its signature
	_, lits, _ := parseMagic("/repo")
	var pool [][]byte
	for _, ls := range lits {
		for _, l := range ls {
			if len(l) >= 2 && len(l) <= 64 {
				pool = append(pool, l)
			}
		}
	}
	sort.Slice(pool, func(i, j int) bool { return string(pool[i]) < string(pool[j]) })
	ninj := 2
	if c.tier == "thorough" {
		ninj = 12
	}
	for _, s := range allSeeds(c.rng, "/repo") {
		x := s.data
		if len(x) < 4 || len(pool) == 0 {
			continue
		}
		if len(x) > maxLen {
			x = x[:maxLen]
		}
		for k := 0; k < ninj; k++ {
			l := pool[c.rng.Intn(len(pool))]
			off := 4 + c.rng.Intn(len(x))
			y := append([]byte{}, x...)
			for len(y) < off+len(l) {
				y = append(y, 0)
			}
			copy(y[off:], l)
			if len(y) > maxLen+80 {
				y = y[:maxLen+80]
			}
			c.c17Case(s.kind+"+inject", y)
		}
	}
	// short positives continued by arbitrary bytes: a detector that validates something at an offset it reads from the
	// content (a declared header size, a sector id) only "when the header was read that far" flips with the limit
	for _, s := range allSeeds(c.rng, "/repo") {
		x := s.data
		if len(x) < 2 || len(x) > 700 {
			continue
		}
		for k, fill := range [][]byte{randBytes(c.rng, 420), bytes.Repeat([]byte{0}, 420), bytes.Repeat([]byte{0xFF}, 420), bytes.Repeat([]byte("A\r\n"), 140)} {
			if k > 0 && c.tier != "thorough" && c.rng.Intn(3) != 0 {
				continue
			}
			c.c17Case(s.kind+"+junk", cat(x, fill))
		}
	}
	// ttf / access hand-over family
	for _, tail := range []string{"Standard ACE DB", "Standard Jet DB", "Standard ", "Standard ACE D", "Standard Jet DBx", "Stand", ""} {
		c.c17Case("ttf-family", cat([]byte{0, 1, 0, 0}, []byte(tail), randBytes(c.rng, 20)))
	}
	// formats that are identified only beyond the default limit: a Chrome extension whose key and signature push the
	// embedded zip past 3072 bytes
	for _, kl := range [][2]uint32{{2000, 2012}, {3000, 100}, {16, 3100}} {
		hdr := cat([]byte("Cr24"), []byte{2, 0, 0, 0}, []byte{byte(kl[0]), byte(kl[0] >> 8), 0, 0}, []byte{byte(kl[1]), byte(kl[1] >> 8), 0, 0})
		x := cat(hdr, bytes.Repeat([]byte{'k'}, int(kl[0]+kl[1])), []byte("PK\x03\x04"), make([]byte, 26), []byte("manifest.json"), []byte("{}"))
		c.c17Case("crx-deep", x)
	}
}

func init() {
	commands["run-c07"] = func(args []string) {
		c := parseRunArgs(args)
		runC07(c)
		c.finish()
	}
	commands["run-c17"] = func(args []string) {
		c := parseRunArgs(args)
		runC17(c)
		c.finish()
	}
}
