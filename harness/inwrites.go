package main

// TRANSLATOR, part 4: writes through input slices (coq/Gen/InputWrites.v).
// Detection must never modify the bytes it is given (C04).  This extractor lists every statement of the library
// that could write through a []byte (or readBuf) PARAMETER, or through a local derived from one: an element
// assignment x[i] = .. / x[i] op= .. / x[i]++, copy(x, ..), append(x, ..) (in place when x has spare capacity), and the
// standard-library calls that fill a buffer they are handed.  Taint is syntactic and conservative: a local becomes
// tainted when it is assigned an identifier, a slice expression or the result of a call that mentions a tainted
// name among its arguments (method receivers do not count; calls known to return no slice are exempt).  Buffers the
// library allocates itself (make, literals) are not tainted.  The obligation is that the list is empty.

import (
	"bytes"
	"fmt"
	"go/ast"
	"go/parser"
	"go/printer"
	"go/token"
	"os"
	"path/filepath"
	"sort"
	"strings"
)

var noSliceResult = map[string]bool{"len": true, "cap": true, "string": true, "int": true, "uint32": true, "uint16": true, "uint64": true, "int64": true, "byte": true,
	"HasPrefix": true, "HasSuffix": true, "Equal": true, "EqualFold": true, "Contains": true, "ContainsAny": true, "Index": true, "IndexByte": true, "IndexAny": true, "LastIndex": true, "LastIndexByte": true, "Count": true, "Compare": true,
	"Uint16": true, "Uint32": true, "Uint64": true, "Valid": true, "FullRune": true, "RuneStart": true, "DecodeRune": true, "DecodeLastRune": true, "ValidString": true}
var returnsCopy = map[string]bool{"ToLower": true, "ToUpper": true, "ToTitle": true, "Clone": true, "Repeat": true, "Replace": true, "ReplaceAll": true, "Join": true, "Map": true, "ToValidUTF8": true, "Runes": true}
var fillsBuffer = map[string]bool{"PutUint16": true, "PutUint32": true, "PutUint64": true, "EncodeRune": true, "Read": true, "ReadFull": true, "ReadAtLeast": true, "ReadAt": true}

func isByteSliceType(t ast.Expr) bool {
	switch v := t.(type) {
	case *ast.ArrayType:
		if v.Len != nil {
			return false
		}
		id, ok := v.Elt.(*ast.Ident)
		return ok && id.Name == "byte"
	case *ast.Ident:
		return v.Name == "readBuf"
	case *ast.StarExpr:
		return isByteSliceType(v.X)
	case *ast.Ellipsis:
		return false
	}
	return false
}

func baseIdent(e ast.Expr) string {
	for {
		switch v := e.(type) {
		case *ast.Ident:
			return v.Name
		case *ast.SliceExpr:
			e = v.X
		case *ast.IndexExpr:
			e = v.X
		case *ast.ParenExpr:
			e = v.X
		case *ast.StarExpr:
			e = v.X
		case *ast.CallExpr: // conversions readBuf(raw), []byte(x) keep the backing array only for readBuf / named slice types
			if len(v.Args) == 1 {
				if id, ok := v.Fun.(*ast.Ident); ok && id.Name == "readBuf" {
					e = v.Args[0]
					continue
				}
			}
			return ""
		default:
			return ""
		}
	}
}

func mentions(e ast.Expr, tainted map[string]bool) bool {
	found := false
	ast.Inspect(e, func(n ast.Node) bool {
		if id, ok := n.(*ast.Ident); ok && tainted[id.Name] {
			found = true
		}
		return !found
	})
	return found
}

// propagates: does assigning e hand on (part of) a tainted backing array?
func propagates(e ast.Expr, tainted map[string]bool) bool {
	switch v := e.(type) {
	case *ast.Ident:
		return tainted[v.Name]
	case *ast.ParenExpr:
		return propagates(v.X, tainted)
	case *ast.StarExpr:
		return propagates(v.X, tainted)
	case *ast.UnaryExpr:
		return v.Op == token.AND && propagates(v.X, tainted)
	case *ast.SliceExpr:
		return tainted[baseIdent(v)]
	case *ast.CallExpr:
		name := ""
		switch f := v.Fun.(type) {
		case *ast.Ident:
			name = f.Name
		case *ast.SelectorExpr:
			name = f.Sel.Name
		case *ast.ArrayType:
			return false // []byte("..") / []byte(string): a copy
		}
		if noSliceResult[name] || returnsCopy[name] || name == "make" || name == "new" {
			return false
		}
		if name == "append" { // the result shares the first argument's array (or is fresh): the appended elements are copied
			return len(v.Args) > 0 && tainted[baseIdent(v.Args[0])]
		}
		for _, a := range v.Args {
			if mentions(a, tainted) {
				return true
			}
		}
	}
	return false
}

func nodeText(fset *token.FileSet, n ast.Node) string {
	var b bytes.Buffer
	printer.Fprint(&b, fset, n)
	s := strings.Join(strings.Fields(b.String()), " ")
	if len(s) > 90 {
		s = s[:90] + "..."
	}
	return s
}

func inputWritesOf(fset *token.FileSet, fd *ast.FuncDecl, out *[][2]string) {
	if fd.Body == nil {
		return
	}
	tainted := map[string]bool{}
	addParams := func(ft *ast.FuncType) {
		if ft.Params == nil {
			return
		}
		for _, f := range ft.Params.List {
			if isByteSliceType(f.Type) {
				for _, n := range f.Names {
					if n.Name != "_" {
						tainted[n.Name] = true
					}
				}
			}
		}
	}
	addParams(fd.Type)
	if fd.Recv != nil {
		for _, f := range fd.Recv.List {
			if isByteSliceType(f.Type) {
				for _, n := range f.Names {
					tainted[n.Name] = true
				}
			}
		}
	}
	ast.Inspect(fd.Body, func(n ast.Node) bool {
		if fl, ok := n.(*ast.FuncLit); ok {
			addParams(fl.Type)
		}
		return true
	})
	// flow-insensitive closure
	for changed := true; changed; {
		changed = false
		mark := func(lhs ast.Expr) {
			if id, ok := lhs.(*ast.Ident); ok && id.Name != "_" && !tainted[id.Name] {
				tainted[id.Name] = true
				changed = true
			}
		}
		ast.Inspect(fd.Body, func(n ast.Node) bool {
			switch s := n.(type) {
			case *ast.AssignStmt:
				if len(s.Rhs) == 1 && len(s.Lhs) >= 1 {
					if propagates(s.Rhs[0], tainted) {
						for _, l := range s.Lhs {
							mark(l)
						}
					}
				} else {
					for i := range s.Rhs {
						if i < len(s.Lhs) && propagates(s.Rhs[i], tainted) {
							mark(s.Lhs[i])
						}
					}
				}
			case *ast.ValueSpec:
				for i, v := range s.Values {
					if i < len(s.Names) && propagates(v, tainted) {
						mark(s.Names[i])
					}
				}
			case *ast.RangeStmt:
				if propagates(s.X, tainted) && s.Value != nil {
					// ranging over a [][]byte derived from the input (bytes.Split, ..) yields tainted elements; over a []byte
					// it yields bytes (harmless to mark: a byte variable is never indexed)
					mark(s.Value)
				}
			}
			return true
		})
	}
	name := fd.Name.Name
	if fd.Recv != nil && len(fd.Recv.List) == 1 {
		name = "(" + nodeText(fset, fd.Recv.List[0].Type) + ")." + name
	}
	flag := func(n ast.Node, why string) {
		pos := fset.Position(n.Pos())
		*out = append(*out, [2]string{name, fmt.Sprintf("%s:%d: %s: %s", filepath.Base(pos.Filename), pos.Line, why, nodeText(fset, n))})
	}
	ast.Inspect(fd.Body, func(n ast.Node) bool {
		switch s := n.(type) {
		case *ast.AssignStmt:
			for _, l := range s.Lhs {
				if ix, ok := l.(*ast.IndexExpr); ok && tainted[baseIdent(ix.X)] {
					flag(s, "element assignment through an input slice")
				}
			}
		case *ast.IncDecStmt:
			if ix, ok := s.X.(*ast.IndexExpr); ok && tainted[baseIdent(ix.X)] {
				flag(s, "element update through an input slice")
			}
		case *ast.CallExpr:
			switch f := s.Fun.(type) {
			case *ast.Ident:
				if (f.Name == "copy" || f.Name == "append") && len(s.Args) >= 1 && tainted[baseIdent(s.Args[0])] {
					flag(s, f.Name+" into an input slice")
				}
				if f.Name == "clear" && len(s.Args) == 1 && tainted[baseIdent(s.Args[0])] {
					flag(s, "clear of an input slice")
				}
			case *ast.SelectorExpr:
				if fillsBuffer[f.Sel.Name] {
					for _, a := range s.Args {
						if tainted[baseIdent(a)] {
							flag(s, "a call that fills the buffer it is handed")
						}
					}
				}
			}
		}
		return true
	})
}

func writeInputWrites(repo, outDir string) bool {
	fset := token.NewFileSet()
	var files []string
	for _, pat := range []string{"mimetype.go", "mime.go", "tree.go", "internal/magic/*.go", "internal/json/*.go", "internal/charset/*.go"} {
		m, _ := filepath.Glob(filepath.Join(repo, pat))
		for _, f := range m {
			b := filepath.Base(f)
			if strings.HasSuffix(b, "_test.go") || strings.HasPrefix(b, "verif_") {
				continue
			}
			files = append(files, f)
		}
	}
	sort.Strings(files)
	var found [][2]string
	nfuncs := 0
	for _, f := range files {
		src, err := os.ReadFile(f)
		if err != nil {
			genFail("read %s: %v", f, err)
		}
		af, err := parser.ParseFile(fset, f, src, 0)
		if err != nil {
			genFail("parse %s: %v", f, err)
		}
		for _, d := range af.Decls {
			if fd, ok := d.(*ast.FuncDecl); ok {
				nfuncs++
				inputWritesOf(fset, fd, &found)
			}
		}
	}
	var sb strings.Builder
	sb.WriteString("(* GENERATED by verifh gen (harness/inwrites.go): statements of the library that could write through a []byte parameter\n   or a local derived from one.  Do not edit. *)\nFrom Coq Require Import List String.\nImport ListNotations.\nLocal Open Scope string_scope.\n\n")
	fmt.Fprintf(&sb, "Definition input_write_scope : list string := [")
	for i, f := range files {
		rel, _ := filepath.Rel(repo, f)
		if i > 0 {
			sb.WriteString("; ")
		}
		fmt.Fprintf(&sb, "%q", rel)
	}
	fmt.Fprintf(&sb, "].\nDefinition input_write_functions_scanned : nat := %d.\n\n", nfuncs)
	if len(found) == 0 {
		sb.WriteString("Definition input_writes : list (string * string) := [].\n")
	} else {
		sb.WriteString("Definition input_writes : list (string * string) := [\n")
		for i, w := range found {
			sep := ";"
			if i == len(found)-1 {
				sep = ""
			}
			fmt.Fprintf(&sb, "  (%q, %q)%s\n", w[0], strings.ReplaceAll(w[1], "\"", "'"), sep)
		}
		sb.WriteString("].\n")
	}
	return writeIfChanged(filepath.Join(outDir, "InputWrites.v"), []byte(sb.String()))
}
