package main

import (
	"strconv"
	"archive/zip"
	"bytes"
	"compress/flate"
	"encoding/binary"
	"fmt"
	"hash/crc32"
	"io"
	"strings"
)

type zspec struct {
	name    string
	body    []byte
	deflate bool
	noDesc  bool // written with CreateRaw: sizes in the local header, no data descriptor
	extra   []byte
}

func writeZip(es []zspec) []byte {
	var buf bytes.Buffer
	w := zip.NewWriter(&buf)
	for _, e := range es {
		m := zip.Store
		if e.deflate {
			m = zip.Deflate
		}
		fh := &zip.FileHeader{Name: e.name, Method: m, Extra: e.extra}
		if e.noDesc && !strings.HasSuffix(e.name, "/") {
			comp := e.body
			if e.deflate {
				var cb bytes.Buffer
				fw, _ := flate.NewWriter(&cb, flate.DefaultCompression)
				fw.Write(e.body)
				fw.Close()
				comp = cb.Bytes()
			}
			fh.CRC32 = crc32.ChecksumIEEE(e.body)
			fh.CompressedSize64 = uint64(len(comp))
			fh.UncompressedSize64 = uint64(len(e.body))
			f, err := w.CreateRaw(fh)
			if err != nil {
				continue
			}
			f.Write(comp)
			continue
		}
		f, err := w.CreateHeader(fh)
		if err != nil {
			continue
		}
		if !strings.HasSuffix(e.name, "/") {
			f.Write(e.body)
		}
	}
	w.Close()
	return buf.Bytes()
}

// entry layout read back with archive/zip: names in order and the footprint (bytes from the start of the
// name to the start of the next local header / central directory) of each entry
func readBack(a []byte) (names []string, foot []int, starts []int, ok bool) {
	r, err := zip.NewReader(bytes.NewReader(a), int64(len(a)))
	if err != nil {
		return nil, nil, nil, false
	}
	for _, f := range r.File {
		off, err := f.DataOffset()
		if err != nil {
			return nil, nil, nil, false
		}
		// local header starts 30 + len(name) + len(extra) before the data
		var lh [30]byte
		// find header start by scanning back: name length and extra length are in the local header
		hs := -1
		for cand := int(off) - 30 - len(f.Name); cand >= 0 && cand >= int(off)-30-len(f.Name)-65535; cand-- {
			if cand+30 <= len(a) && a[cand] == 'P' && a[cand+1] == 'K' && a[cand+2] == 3 && a[cand+3] == 4 {
				copy(lh[:], a[cand:cand+30])
				nl := int(binary.LittleEndian.Uint16(lh[26:]))
				el := int(binary.LittleEndian.Uint16(lh[28:]))
				if cand+30+nl+el == int(off) && nl == len(f.Name) {
					hs = cand
					break
				}
			}
		}
		if hs < 0 {
			return nil, nil, nil, false
		}
		names = append(names, f.Name)
		starts = append(starts, hs)
	}
	// central directory start
	cd := bytes.LastIndex(a, []byte("PK\x01\x02"))
	if len(r.File) > 0 {
		cd = bytes.Index(a[starts[len(starts)-1]:], []byte("PK\x01\x02")) + starts[len(starts)-1]
	}
	for i := range starts {
		next := cd
		if i+1 < len(starts) {
			next = starts[i+1]
		}
		foot = append(foot, next-(starts[i]+30))
	}
	return names, foot, starts, true
}

// the names the zip detectors look for (internal/magic/zip.go, ms_office.go)
var c19Markers = []string{"word/", "xl/", "ppt/", "META-INF/MANIFEST.MF", "AndroidManifest.xml", "META-INF/com/android/build/gradle/app-metadata.properties", "classes.dex", "resources.arsc", "res/drawable"}

// nameContinued: some entry name is a proper prefix of a marker and the bytes that follow the name in the archive
// (extra field, body) complete it, so that the raw bytes at the name offset spell a marker no entry name carries
func nameContinued(a []byte, names []string, starts []int) bool {
	for i, hs := range starts {
		nm := names[i]
		for _, mk := range c19Markers {
			if len(nm) > 0 && len(nm) < len(mk) && strings.HasPrefix(mk, nm) && hs+30+len(mk) <= len(a) && string(a[hs+30:hs+30+len(mk)]) == mk {
				return true
			}
		}
	}
	return false
}

func bodiesHaveSignature(a []byte, names []string) bool {
	// count local-header signatures: more than one per entry means a body embeds one
	return bytes.Count(a, []byte("PK\x03\x04")) != len(names)
}

func (c *runCtx) c19Case(kind string, es []zspec) {
	a := writeZip(es)
	if !c.mine(a) {
		return
	}
	names, foot, starts, ok := readBack(a)
	if !ok || len(names) == 0 {
		c.stats.Kinds["unreadable"]++
		return
	}
	if bodiesHaveSignature(a, names) {
		c.stats.Kinds["filtered-embedded-signature"]++
		return
	}
	m, pan := detectAt(a, 0)
	chain := "PANIC"
	if pan == nil && m != nil {
		chain = chainOf(m)
	}
	fs := make([]string, len(foot))
	for i, f := range foot {
		fs[i] = fmt.Sprint(f)
	}
	hn := make([]string, len(names))
	for i, n := range names {
		hn[i] = hx([]byte(n))
	}
	first := ""
	if len(es) > 0 && !es[0].deflate {
		first = hx(es[0].body)
	} else {
		first = "deflated"
	}
	c.stats.note(kind, a, len(a), !strings.HasPrefix(chain, "application/zip|"))
	if i := strings.IndexByte(chain, ';'); i > 0 {
		c.stats.Results[chain[:i]]++
	}
	k5 := "0"
	if nameContinued(a, names, starts) {
		k5 = "1"
	}
	c.emit("c19", strings.Join(hn, ","), strings.Join(fs, ","), first, chain, kind, hx(a[:min(len(a), 64)]), k5)
	if c.stats.Evaluations%301 == 1 {
		c.stats.sample(fmt.Sprintf("c19 kind=%s names=%q footprints=%v -> %s", kind, names, foot, chain))
	}
}


var _ = io.EOF

// archives without entries (a standard writer closed at once, with and without a comment): plain application/zip
func c19Empty(c *runCtx) {
	for i, comment := range []string{"", "no entries", strings.Repeat("c", 300)} {
		var buf bytes.Buffer
		w := zip.NewWriter(&buf)
		if comment != "" {
			w.SetComment(comment)
		}
		w.Close()
		a := buf.Bytes()
		if !c.mine(a, []byte("empty")) {
			continue
		}
		for _, lim := range []uint32{0, 3072} {
			m, pan := detectAt(a, lim)
			chain := "PANIC"
			if pan == nil && m != nil {
				chain = chainOf(m)
			}
			c.stats.note("empty-archive", append([]byte{byte(i), byte(lim)}, a...), len(a), true)
			if !strings.HasPrefix(chain, "application/zip|.zip;") {
				c.propfail("C19", fmt.Sprintf("archive without entries (comment of %d bytes) not reported as plain application/zip: limit=%d result=%s bytes=%s", len(comment), lim, chain, hx(a[:min(len(a), 40)])))
			}
		}
	}
}

// packages in which a large stored part (a thumbnail, embedded media) stands between the bookkeeping parts and the
// marker: examined whole, the walk must still reach the marker however far away the next local header is.  Judged here
// (a quarter of a megabyte is too much for the extracted model's unary arithmetic).
func c19BigEntry(c *runCtx) {
	kinds := []struct{ marker, want string }{{"word/document.xml", "application/vnd.openxmlformats-officedocument.wordprocessingml.document"},
		{"xl/workbook.xml", "application/vnd.openxmlformats-officedocument.spreadsheetml.sheet"},
		{"ppt/presentation.xml", "application/vnd.openxmlformats-officedocument.presentationml.presentation"}}
	for i, k := range kinds {
		for _, size := range []int{70 << 10, 100 << 10, 260 << 10} {
			big := make([]byte, size)
			for j := range big {
				big[j] = byte('a' + j%23)
			}
			es := []zspec{{name: "[Content_Types].xml", body: []byte("<Types/>")}, {name: "docProps/thumbnail.jpeg", body: big, noDesc: true}, {name: k.marker, body: []byte("<x/>")}}
			a := writeZip(es)
			if !c.mine(a[:64], []byte("big-entry"), []byte{byte(i)}, []byte(strconv.Itoa(size))) {
				continue
			}
			m, pan := detectAt(a, 0)
			head := "PANIC"
			if pan == nil && m != nil {
				head = bareType(m.String())
			}
			c.stats.note("big-entry", append([]byte{byte(i)}, []byte(strconv.Itoa(size))...), len(a), true)
			if head != k.want {
				c.propfail("C19", fmt.Sprintf("OOXML package examined whole (limit 0) whose second part is a stored entry of %d bytes and whose third part is %s reported as %s, not %s", size, k.marker, head, k.want))
			}
		}
	}
}

func runC19(c *runCtx) {
	c19Empty(c)
	c19BigEntry(c)
	r := c.rng
	bookkeeping := []string{"_rels/.rels", "docProps/app.xml", "docProps/core.xml", "customXml/item1.xml", "[trash]/0000.dat", "docProps/", "customXml/_rels/item1.xml.rels"}
	markers := map[string][]string{
		"docx": {"word/document.xml", "word/_rels/document.xml.rels", "word/styles.xml", "word/"},
		"xlsx": {"xl/workbook.xml", "xl/_rels/workbook.xml.rels", "xl/worksheets/sheet1.xml"},
		"pptx": {"ppt/presentation.xml", "ppt/slides/slide1.xml"},
	}
	nearMiss := []string{"word", "xl", "ppt", "words/a.xml", "xlx/b.xml", "META-INF/", "META-INF/container.xml", "meta-inf/manifest.mf", "content.xml", "a/word/document.xml", "readme.txt", "images/logo.png", "src/main/java/App.java", "Word/document.xml",
		// near misses of the APK / JAR markers: their directories and truncated or extended spellings
		"res/strings.properties", "res/readme.txt", "res/", "res/layout.json", "res/drawabl", "resources.ars", "resources/arsc", "classes.de", "classes/dex", "AndroidManifest.xm", "androidmanifest.xml",
		"META-INF/MANIFEST.M", "META-INF/MANIFEST", "META-INF/com/android/build/gradle/app-metadata.propertie", "notes.txt", "data/table.csv"}
	apk := []string{"AndroidManifest.xml", "classes.dex", "resources.arsc", "res/drawable/icon.png", "META-INF/com/android/build/gradle/app-metadata.properties"}
	odf := []string{"application/vnd.oasis.opendocument.text", "application/vnd.oasis.opendocument.text-template", "application/vnd.oasis.opendocument.spreadsheet", "application/vnd.oasis.opendocument.spreadsheet-template",
		"application/vnd.oasis.opendocument.presentation", "application/vnd.oasis.opendocument.presentation-template", "application/vnd.oasis.opendocument.graphics", "application/vnd.oasis.opendocument.graphics-template",
		"application/vnd.oasis.opendocument.formula", "application/vnd.oasis.opendocument.chart", "application/epub+zip", "application/vnd.sun.xml.calc"}
	body := func() []byte {
		n := r.Intn(200)
		if r.Intn(6) == 0 {
			n = 500 + r.Intn(1500)
		}
		return randText(r, n)
	}
	mk := func(name string) zspec {
		return zspec{name: name, body: body(), deflate: r.Intn(2) == 0, noDesc: r.Intn(3) == 0}
	}
	n := 500
	if c.tier == "thorough" {
		n = 12000
	}
	kinds := []string{"docx", "xlsx", "pptx"}
	for i := 0; i < n; i++ {
		switch r.Intn(7) {
		case 0, 1, 2: // OOXML: [Content_Types].xml first, marker among the first six entries at position 2..6
			k := kinds[r.Intn(3)]
			pos := 1 + r.Intn(5)
			es := []zspec{mk("[Content_Types].xml")}
			for len(es) < pos {
				es = append(es, mk(bookkeeping[r.Intn(len(bookkeeping))]))
			}
			es = append(es, mk(markers[k][r.Intn(len(markers[k]))]))
			for t := r.Intn(4); t > 0; t-- {
				es = append(es, mk(markers[k][r.Intn(len(markers[k]))]))
			}
			kindS := "ooxml-" + k
			if r.Intn(5) == 0 {
				// a JAR / APK marker name inside an OOXML package, before or after the OOXML part
				extra := mk(append([]string{"META-INF/MANIFEST.MF"}, apk...)[r.Intn(1+len(apk))])
				p := 1 + r.Intn(len(es))
				es = append(es[:p], append([]zspec{extra}, es[p:]...)...)
				kindS += "+java"
			}
			c.c19Case(kindS, es)
		case 3: // JAR / APK
			es := []zspec{mk("META-INF/MANIFEST.MF")}
			for t := r.Intn(5); t > 0; t-- {
				if r.Intn(4) == 0 {
					es = append(es, mk(apk[r.Intn(len(apk))]))
				} else {
					es = append(es, mk(nearMiss[r.Intn(len(nearMiss))]))
				}
			}
			c.c19Case("jar", es)
		case 4: // ODF / EPUB: stored mimetype entry first
			t := odf[r.Intn(len(odf))]
			es := []zspec{{name: "mimetype", body: []byte(t), deflate: false, noDesc: r.Intn(2) == 0}}
			for k := r.Intn(4); k > 0; k-- {
				es = append(es, mk([]string{"content.xml", "META-INF/manifest.xml", "styles.xml", "OEBPS/content.opf"}[r.Intn(4)]))
			}
			c.c19Case("odf", es)
		case 5: // no marker at all
			var es []zspec
			for t := 1 + r.Intn(6); t > 0; t-- {
				es = append(es, mk(nearMiss[r.Intn(len(nearMiss))]))
			}
			c.c19Case("plain", es)
		default: // marker late, or without [Content_Types].xml first, or apk-first
			var es []zspec
			switch r.Intn(3) {
			case 0:
				es = append(es, mk(apk[r.Intn(len(apk))]))
			case 1:
				es = append(es, mk(nearMiss[r.Intn(len(nearMiss))]))
				es = append(es, mk("[Content_Types].xml"))
				es = append(es, mk(markers["docx"][0]))
			default:
				es = append(es, mk("[Content_Types].xml"))
				for len(es) < 7+r.Intn(3) {
					es = append(es, mk(bookkeeping[r.Intn(4)]))
				}
				es = append(es, mk(markers[kinds[r.Intn(3)]][0]))
			}
			c.c19Case("other", es)
		}
	}
}

func init() {
	commands["run-c19"] = func(args []string) {
		c := parseRunArgs(args)
		runC19(c)
		c.finish()
	}
}
