package main

import (
	"unicode"
	"bytes"
	"encoding/hex"
	"fmt"
	"mime"
	"strings"

	"github.com/gabriel-vasile/mimetype/internal/charset"
	"golang.org/x/net/html"
)

// token dump: exactly the start / self-closing tags fromHTML looks at, in order
func dumpTokens(content []byte) string {
	z := html.NewTokenizer(bytes.NewReader(content))
	var parts []string
	for n := 0; n < 400; n++ {
		tt := z.Next()
		if tt == html.ErrorToken {
			break
		}
		if tt != html.StartTagToken && tt != html.SelfClosingTagToken {
			continue
		}
		name, hasAttr := z.TagName()
		var as []string
		nm := hex.EncodeToString(name)
		for hasAttr {
			var k, v []byte
			k, v, hasAttr = z.TagAttr()
			as = append(as, hex.EncodeToString(k)+"="+hex.EncodeToString(v))
		}
		parts = append(parts, nm+"("+strings.Join(as, ",")+")")
	}
	if len(parts) == 0 {
		return "-"
	}
	return strings.Join(parts, ";")
}

const labelChars = "abcdefghijklmnopqrstuvwxyzABCDEFGHIJKLMNOPQRSTUVWXYZ0123456789!#$%*+-.^_`|~"

func (c *runCtx) label() string {
	r := c.rng
	known := []string{"HZ-GB-2312", "X-MAC-CZECH", "ABCDEFGHIJKLMNOPQRSTUVWXYZ", "AZaz09", "Z", "UTF-8", "utf-8", "ISO-8859-2", "iso-8859-1", "windows-1251", "Shift_JIS", "KOI8-R", "EUC-KR", "GBK", "Big5", "UTF-16", "utf-16le", "UTF-16BE", "utf-16", "x-user-defined", "US-ASCII", "IBM866"}
	if r.Intn(3) == 0 {
		return known[r.Intn(len(known))]
	}
	n := 1 + r.Intn(18)
	b := make([]byte, n)
	for i := range b {
		b[i] = labelChars[r.Intn(len(labelChars))]
	}
	return string(b)
}

func detectCharset(x []byte, limit uint32) (typ, cs string) {
	m, pan := detectAt(x, limit)
	if pan != nil || m == nil {
		return "PANIC", ""
	}
	t, ps, err := mime.ParseMediaType(m.String())
	if err != nil {
		return "UNPARSABLE:" + m.String(), ""
	}
	return t, ps["charset"]
}

func randCaseStr(c *runCtx, s string) string {
	b := []byte(s)
	for i, ch := range b {
		if 'a' <= ch && ch <= 'z' && c.rng.Intn(2) == 0 {
			b[i] = ch - 32
		}
	}
	return string(b)
}

func runC12(c *runCtx) {
	r := c.rng
	var htmlTags []string
	if sg, _, _ := parseMagic("/repo"); sg["HTML"] != nil {
		for _, l := range sg["HTML"].sigs {
			u := strings.ToUpper(string(l))
			if u == "<SCRIPT" || u == "<STYLE" || u == "<TITLE" || u == "<IFRAME" || strings.ContainsAny(u, " -") {
				continue
			}
			htmlTags = append(htmlTags, string(l))
		}
	}
	n := 1500
	nx := 500
	if c.tier == "thorough" {
		n, nx = 40000, 12000
	}
	sp := func() string { return []string{"", " ", "  ", "\n", "\t"}[r.Intn(5)] }
	sp1 := func() string { return []string{" ", "  ", "\n", "\t "}[r.Intn(4)] }
	for i := 0; i < n; i++ {
		L := c.label()
		// prologue
		var sb strings.Builder
		starts := []string{"<!DOCTYPE html>", "<!doctype HTML>\n<html>", "<html>", "<HTML lang=\"en\">", "<head>", "<!DOCTYPE html><html><head>"}
		if r.Intn(5) == 0 {
			// white space in front of the markup (every kind the markup detector skips)
			sb.WriteString([]string{" ", "\n", "\t", "\r\n", "\x0c", " \t\n "}[r.Intn(6)])
		}
		if r.Intn(3) == 0 && len(htmlTags) > 0 {
			// the first tag in upper, lower and alternating case: the tag names of the library's HTML signature list
			// (those that do not open raw text), closed by '>' or followed by a blank
			t := htmlTags[r.Intn(len(htmlTags))]
			b := []byte(t)
			switch r.Intn(3) {
			case 0:
				b = bytes.ToUpper(b)
			case 1:
				b = bytes.ToLower(b)
			default:
				for k := range b {
					if k%2 == 0 {
						b[k] = byte(unicode.ToUpper(rune(b[k])))
					} else {
						b[k] = byte(unicode.ToLower(rune(b[k])))
					}
				}
			}
			sb.Write(b)
			sb.WriteString([]string{">", " id=x>", ">\n"}[r.Intn(3)])
		} else {
			sb.WriteString(starts[r.Intn(len(starts))])
		}
		for k := r.Intn(4); k > 0; k-- {
			switch r.Intn(8) {
			case 6: // the head is over before the declaration comes: the prescan does not care where a meta stands
				sb.WriteString("<head><title>t</title></head>")
			case 7:
				sb.WriteString("</head><body><p>text</p>")
			case 0:
				sb.WriteString("<!-- <meta charset=\"fake-comment\"> -->")
			case 1:
				sb.WriteString("<script>var s = '<meta charset=\"fake-script\">';</script>")
			case 2:
				sb.WriteString("<style>/* <meta charset=fake-style> */</style>")
			case 3:
				sb.WriteString("<title><meta charset=\"fake-title\"></title>")
			case 4:
				sb.WriteString("<meta name=\"viewport\" content=\"width=device-width\">")
			case 5:
				sb.WriteString("<meta name=\"description\" content=\"about charsets\">\n")
			}
		}
		if r.Intn(3) == 0 {
			// push the declaration deep into the header (still inside the default limit)
			pad := 200 + r.Intn(2200)
			sb.WriteString("<!-- " + strings.Repeat("padding ", pad/8) + "-->")
			if r.Intn(2) == 0 {
				sb.WriteString("<script>/* " + strings.Repeat("x", r.Intn(300)) + " */</script>")
			}
		}
		// the declaration
		q := []string{"\"", "'", ""}[r.Intn(3)]
		kind := ""
		metaTag := randCaseStr(c, "meta")
		switch r.Intn(4) {
		case 0, 1: // <meta charset=L>
			kind = "meta-charset"
			attr := randCaseStr(c, "charset") + sp() + "=" + sp() + q + L + q
			others := []string{"", " data-x=\"1\"", " id=m"}
			if q == "" {
				// unquoted value ends at whitespace or '>'
				sb.WriteString("<" + metaTag + others[r.Intn(3)] + sp1() + attr + sp1() + ">")
			} else {
				sb.WriteString("<" + metaTag + others[r.Intn(3)] + sp1() + attr + others[r.Intn(3)] + sp() + []string{">", "/>", " />"}[r.Intn(3)])
			}
		default: // http-equiv pragma
			kind = "meta-pragma"
			iq := []string{"", "'", "\""}[r.Intn(3)]
			oq := "\""
			if iq == "\"" {
				oq = "'"
			}
			// what may follow the label inside the content attribute: nothing, a ';', a further parameter, a blank
			after := []string{"", "", ";", "; x=y", " ;q=1", " "}[r.Intn(6)]
			content := randCaseStr(c, "content") + sp() + "=" + sp() + oq + "text/html;" + sp() + randCaseStr(c, "charset") + sp() + "=" + sp() + iq + L + iq + after + oq
			equiv := randCaseStr(c, "http-equiv") + "=" + []string{"\"Content-Type\"", "'content-type'", "CONTENT-TYPE"}[r.Intn(3)]
			if r.Intn(2) == 0 {
				sb.WriteString("<" + metaTag + sp1() + equiv + sp1() + content + sp() + ">")
			} else {
				sb.WriteString("<" + metaTag + sp1() + content + sp1() + equiv + sp() + ">")
			}
		}
		sb.WriteString("<title>t</title></head><body>caf\xe9 \xc3\xa9</body></html>")
		doc := []byte(sb.String())
		bom := ""
		if r.Intn(8) == 0 {
			// only the UTF-8 mark can precede single-byte markup that is still recognisable as HTML
			bom = "\xef\xbb\xbf"
			doc = append([]byte(bom), doc...)
			kind += "+bom"
		}
		if !c.mine(doc) {
			continue
		}
		limit := uint32(3072)
		if r.Intn(4) == 0 || len(doc) > 3000 {
			limit = []uint32{0, 0, 65536, uint32(len(doc) + 1)}[r.Intn(4)]
		}
		typ, cs := detectCharset(doc, limit)
		c.stats.note(kind, doc, len(doc), true)
		c.stats.Results[typ]++
		c.emit("c12h", hx(doc), dumpTokens(doc), hx([]byte(charset.VerifFromHTML(doc))), typ, hx([]byte(cs)), hx([]byte(L)), kind)
		if c.stats.Evaluations%199 == 1 {
			c.stats.sample(fmt.Sprintf("c12h kind=%s label=%q doc=%q -> %s; charset=%q", kind, L, string(doc), typ, cs))
		}
	}
	for i := 0; i < nx; i++ {
		L := c.label()
		q := []string{"\"", "'"}[r.Intn(2)]
		vq := []string{"\"", "'"}[r.Intn(2)]
		var sb strings.Builder
		sb.WriteString([]string{"", "", " ", "\n"}[r.Intn(4)])
		eq := "="
		if r.Intn(5) == 0 {
			eq = []string{" =", "= ", " = "}[r.Intn(3)] // XML 1.0: Eq ::= S? '=' S?
		}
		sb.WriteString("<?xml" + sp1() + "version=" + vq + "1.0" + vq + sp1() + "encoding" + eq + q + L + q)
		if r.Intn(3) == 0 {
			sb.WriteString(sp1() + "standalone=" + vq + "yes" + vq)
		}
		sb.WriteString(sp() + "?>" + sp() + "<root a=\"encoding='fake'\">caf\xe9</root>")
		doc := []byte(sb.String())
		if !c.mine(doc) {
			continue
		}
		typ, cs := detectCharset(doc, []uint32{3072, 0, 65536, uint32(len(doc)), 3072}[i%5])
		c.stats.note("xml-decl", doc, len(doc), true)
		c.stats.Results[typ]++
		c.emit("c12x", hx(doc), hx([]byte(charset.VerifFromXML(doc))), typ, hx([]byte(cs)), hx([]byte(L)), "xml-decl")
		if c.stats.Evaluations%199 == 1 {
			c.stats.sample(fmt.Sprintf("c12x label=%q doc=%q -> %s; charset=%q", L, string(doc), typ, cs))
		}
	}
	// fromMetaElement / xmlEncoding on attribute strings
	frag := []string{"charset", "=", " ", "\"", "'", ";", "utf-8", "x", "text/html", "CHARSET", "\t", "charse", "encoding=", "encoding", "?"}
	for i := 0; i < n; i++ {
		var sb strings.Builder
		for k := r.Intn(9); k > 0; k-- {
			sb.WriteString(frag[r.Intn(len(frag))])
		}
		s := sb.String()
		if !c.mine([]byte(s), []byte("frag")) {
			continue
		}
		c.stats.note("attr-fragments", []byte("f:"+s), len(s), strings.Contains(s, "charset") || strings.Contains(s, "encoding="))
		c.emit("c12f", hx([]byte(s)), hx([]byte(charset.VerifFromMetaElement(s))), hx([]byte(charset.VerifXMLEncoding(s))))
	}
}

func init() {
	commands["run-c12"] = func(args []string) {
		c := parseRunArgs(args)
		runC12(c)
		c.finish()
	}
}
