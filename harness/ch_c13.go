package main

import (
	"fmt"
	"strconv"
	"strings"

	"github.com/gabriel-vasile/mimetype/internal/magic"
)

func (c *runCtx) c13Case(kind string, x []byte, limit uint32, lineEnd2 int) {
	if !c.mine(x, []byte(strconv.Itoa(int(limit)))) {
		return
	}
	hdr := header(x, limit)
	m, pan := detectAt(x, limit)
	head := "PANIC"
	if pan == nil && m != nil {
		head = bareType(m.String())
	}
	sv := func(f func([]byte, uint32) bool) string {
		if f(hdr, limit) {
			return "1"
		}
		return "0"
	}
	c.stats.note(kind, append([]byte(strconv.Itoa(int(limit))+":"), hdr...), len(hdr), head != "text/plain")
	c.stats.Results[head]++
	c.emit("c13", hx(hdr), strconv.Itoa(int(limit)), sv(magic.Csv)+sv(magic.Tsv)+sv(magic.NdJSON), head, kind, strconv.Itoa(lineEnd2))
	if pan == nil && m != nil && (c.caseNo%8 == 5 || (len(x) <= 48 && limit == 0)) {
		c.agree(kind, x, limit, c.caseNo%64 == 5 || len(x) <= 48) // small files through DetectFile too: a file shorter than the limit is examined whole
	}
	if c.stats.Evaluations%499 == 1 {
		c.stats.sample(fmt.Sprintf("c13 kind=%s limit=%d header=%q -> %s", kind, limit, string(hdr), head))
	}
}

// very long lines (beyond any fixed scanner buffer), examined whole and under large limits; judged here (the model
// would spend minutes on 70 kB of unary arithmetic)
func c13Long(c *runCtx) {
	long := "{\"big\":\"" + strings.Repeat("a", 70000) + "\"}"
	streams := []struct {
		s    string
		want bool
	}{
		{"{\"id\":1}\n" + long + "\n{\"id\":3}\n[4]\n", true},
		{long + "\n{\"id\":2}\n", true},
		{"1\n" + long[:60000] + "\"}\n[3]\n", true},
		{"{\"id\":1}\n" + long + "\n{\"c\":\nthis line is not json\n", false},
		{long + "\nnope\n{\"x\":1}\n", false},
	}
	for _, st := range streams {
		x := []byte(st.s)
		for _, lim := range []uint32{0, 1 << 20, uint32(len(x) + 1)} {
			if !c.mine(x[:40], []byte(strconv.Itoa(int(lim))), []byte(strconv.Itoa(len(x)))) {
				continue
			}
			m, pan := detectAt(x, lim)
			head := "PANIC"
			if pan == nil && m != nil {
				head = bareType(m.String())
			}
			c.stats.note("long-line", append([]byte(strconv.Itoa(int(lim))), x[:60]...), len(x), head != "text/plain")
			if st.want && head != "application/x-ndjson" {
				c.propfail("C13", fmt.Sprintf("NDJSON stream with a line of %d bytes examined in full (limit %d) not reported as application/x-ndjson but %s", len(long), lim, head))
			}
			if !st.want && head == "application/x-ndjson" {
				c.propfail("C13", fmt.Sprintf("application/x-ndjson reported (limit %d) although a complete line behind a %d-byte line is damaged", lim, len(long)))
			}
		}
	}
}

func runC13(c *runCtx) {
	c13Long(c)
	r := c.rng
	cell := func() string {
		n := r.Intn(6)
		al := "abcxyz0123456789 -_."
		b := make([]byte, n)
		for i := range b {
			b[i] = al[r.Intn(len(al))]
		}
		if r.Intn(5) == 0 { // text beyond ASCII: a limit may fall inside a multi-byte sequence
			return string(b) + []string{"é", "€", "ï", "日本", "ß"}[r.Intn(5)]
		}
		return string(b)
	}
	jsonVal := func() string {
		l := []string{`{"a":1}`, `[1,2,3]`, `{"k":"café €","n":[1,2]}`, `{"k":"v","n":null}`, `[]`, `{}`, `"str"`, `12`, `true`, `{"nested":{"x":[1,{"y":2}]}}`, `[ {"a" : 1} , 2 ]`}
		return l[r.Intn(len(l))]
	}
	nt := 60
	if c.tier == "thorough" {
		nt = 1500
	}
	for it := 0; it < nt; it++ {
		nl := []string{"\n", "\r\n"}[r.Intn(2)]
		kindSel := r.Intn(3)
		var lines []string
		rows := 2 + r.Intn(6)
		if it%4 == 3 {
			rows = 9 + r.Intn(9) // longer tables: every complete line counts, not only the first few
		}
		cols := 2 + r.Intn(4)
		sep := ","
		kind := "csv"
		switch kindSel {
		case 1:
			sep, kind = "\t", "tsv"
		case 2:
			kind = "ndjson"
		}
		for i := 0; i < rows; i++ {
			if kind == "ndjson" {
				v := jsonVal()
				if i == 0 {
					v = `{"first":` + strconv.Itoa(it) + `}`
				}
				lines = append(lines, v)
			} else {
				cs := make([]string, cols)
				for k := range cs {
					cs[k] = cell()
				}
				if i == 0 {
					cs[0] = "h" + cs[0]
				}
				if strings.HasPrefix(cs[0], "#") || (cols == 1 && cs[0] == "") {
					cs[0] = "x" + cs[0]
				}
				lines = append(lines, strings.Join(cs, sep))
			}
		}
		txt := strings.Join(lines, nl)
		if r.Intn(2) == 0 {
			txt += nl
		}
		x := []byte(txt)
		end2 := len(lines[0]) + len(nl) + len(lines[1]) + len(nl) // end of the second complete line (incl. its newline)
		// (when the file has exactly two lines and no final newline there is no terminated second line:
		// end2 then lies past the end and only whole-mode limits are generated)
		c.c13Case(kind+"-whole", x, 0, end2)
		c.c13Case(kind+"-whole", x, uint32(len(x)+1), end2)
		for l := end2; l <= len(x)+2; l++ {
			c.c13Case(kind+"-cut", x, uint32(l), end2)
		}
		// converse: one damaged line (ragged / not a complete value), somewhere before the last line
		if rows >= 3 {
			d := 1 + r.Intn(rows-2)
			bad := append([]string{}, lines...)
			if kind == "ndjson" {
				bad[d] = []string{`{"a":`, `[1,2`, `{"a":1}}`, `nope`, `{"a" 1}`, `{`, `[`, `"`, `{"a":1} {"a":2}`, `[3,4]x`, `1 apple`,
					`{"b":"\u00G1"}`, `"\uZZZZ"`, `{"a":"\u12"}`, `["\x41"]`, `{"k\u00g0":1}`, `["\u00@0"]`, "[\"\\u00`0\"]", `{"a":tr}`, `{"a":nul}`,
					"\"abc\\", "\"\\", "\"a\\\\\\", "[\"x\\", "{\"k\":\"v\\", "\"abc", "\"a\\u12", "-", "1e", "1.", "tru"}[r.Intn(31)]
			} else {
				bad[d] = bad[d] + sep + "extra"
			}
			y := []byte(strings.Join(bad, nl) + nl)
			c.c13Case(kind+"-damaged", y, 0, 0)
			c.c13Case(kind+"-damaged", y, 3072, 0)
			c.c13Case(kind+"-damaged", y, uint32(len(y)), 0)
		}
		// comments and blank lines inside tables
		if kind != "ndjson" && rows >= 3 {
			cm := append([]string{}, lines...)
			cm[1+r.Intn(rows-1)] = "# a comment, with, commas\tand\ttabs"
			y := []byte(strings.Join(cm, nl) + nl)
			c.c13Case(kind+"-comment", y, 0, 0)
			c.c13Case(kind+"-comment", y, uint32(len(y)), 0)
			// a comment without any separator, or an empty line, in FRONT of the table (the reader skips both) and
			// at every other position
			for pos := 0; pos <= rows; pos += 1 + rows/3 {
				for _, extra := range []string{"# exported 2026-10-01", ""} {
					ins := append(append(append([]string{}, lines[:pos]...), extra), lines[pos:]...)
					z := []byte(strings.Join(ins, nl) + nl)
					c.c13Case(kind+"-comment", z, 0, 0)
					c.c13Case(kind+"-comment", z, uint32(len(z)), 0)
				}
			}
		}
		// single-record / single-column files must not be tables
		c.c13Case(kind+"-one-line", []byte(lines[0]+nl), 0, 0)
	}
	// blank and white-space-only lines at the start, in the middle and at the end of streams (the scanner state is
	// recycled from whatever was parsed before: a line without any value must not inherit anything from it)
	for _, blank := range []string{"", " ", "\t", "  \t "} {
		for _, body := range [][]string{{`{"a":1}`, `{"b":2}`}, {`[1]`, `[2]`, `[3]`}, {`"s"`, `"t"`}, {`1`, `2`}} {
			for pos := 0; pos <= len(body); pos++ {
				ls := append(append(append([]string{}, body[:pos]...), blank), body[pos:]...)
				for _, nl := range []string{"\n", "\r\n"} {
					x := []byte(strings.Join(ls, nl) + nl)
					c.c13Case("blank-line", x, 0, 0)
					c.c13Case("blank-line", x, uint32(len(x)), 0)
				}
			}
		}
		for _, only := range []string{blank + "\n", blank + "\n" + blank + "\n", blank + "\n" + blank + "\n" + blank + "\n"} {
			c.c13Case("blank-only", []byte(only), 0, 0)
			c.c13Case("blank-only", []byte(only), uint32(len(only)), 0)
		}
	}
	for _, s := range []string{"{\"a\":\n{\"b\":\n", "{\"a\":1}\n\n{\"b\":2}\n", "{\"a\":1}\n  \n[2]\n", "1\n2\n3\n", "{\"a\":1}\n", "a\n1\n2\n", "a,b\n", "a,b\n1,2", "a,b\n1,2\n3", "a,b\r\n1,2\r\n3,4", "\"a\",\"b\"\n\"1\",\"2\"\n"} {
		for _, l := range limitsFor(len(s)) {
			c.c13Case("fixed", []byte(s), l, 0)
		}
	}
}

func init() {
	commands["run-c13"] = func(args []string) {
		c := parseRunArgs(args)
		runC13(c)
		c.finish()
	}
}
