package main

import (
	"os"
	"bytes"
	"errors"
	"fmt"
	"mime"
	"sort"
	"strconv"
	"strings"

	"github.com/gabriel-vasile/mimetype"
)

// ---- C02: results are valid, registered, rooted ------------------------------------------------------

func hostileLabels(c *runCtx) []string {
	r := c.rng
	out := []string{"utf-8", "x; charset=y", "a;a=b;a=c", "charset=charset", "; q=1", "a\"; b=\"c", "a;b\"", "\"", "\\", "a b", "a;b", "x\"y\\z", "käse", "\xff\xfe", "\x00", "a\r\nb", "\x7f", "*", "'", "%41", "a=b", "(c)", "<>", "@", ",", "/", "[]", "?", "{}", "utf-8;q=1", strings.Repeat("x", 4096), "ütf-8", "é", " leading", "trailing ", "\t"}
	for b := 1; b < 256; b++ {
		out = append(out, string([]byte{byte(b)}))
	}
	// long labels of every kind the formatter treats differently (token, quoted, percent-encoded), around the lengths
	// where a cap on the formatted text would bite
	for _, n := range []int{60, 100, 200, 228, 230, 231, 232, 233, 236, 240, 250, 254, 255, 256, 300, 512, 1000, 2900} {
		out = append(out, strings.Repeat("a", n), "x y"+strings.Repeat("a", n), "x;y"+strings.Repeat("b", n), "q\\"+strings.Repeat("c", n), strings.Repeat("é", n/2), strings.Repeat("a b", n/3))
	}
	n := 400
	if c.tier == "thorough" {
		n = 20000
	}
	for i := 0; i < n; i++ {
		l := make([]byte, 1+r.Intn(6))
		for k := range l {
			if r.Intn(3) == 0 {
				l[k] = "\";\\ =*'%\r\n\x00\x7f\xff(),/"[r.Intn(17)]
			} else {
				l[k] = byte(1 + r.Intn(255))
			}
		}
		out = append(out, string(l))
	}
	return out
}

func paramsString(ps map[string]string) string {
	var ks []string
	for k := range ps {
		ks = append(ks, k)
	}
	sort.Strings(ks)
	parts := make([]string, len(ks))
	for i, k := range ks {
		parts[i] = hx([]byte(k)) + "=" + hx([]byte(ps[k]))
	}
	if len(parts) == 0 {
		return "-"
	}
	return strings.Join(parts, ";")
}

// resultLine describes a detection result completely: String(), Extension(), the Parent() chain, and what
// mime.ParseMediaType makes of every String().
func resultLine(m *mimetype.MIME) string {
	var parts []string
	n := 0
	for p := m; p != nil; p = p.Parent() {
		t, ps, err := mime.ParseMediaType(p.String())
		e := "ok"
		if err != nil {
			e = "err"
		}
		parts = append(parts, strings.Join([]string{hx([]byte(p.String())), hx([]byte(p.Extension())), e, hx([]byte(t)), paramsString(ps)}, "/"))
		n++
		if n > 1000 {
			parts = append(parts, "CYCLE")
			break
		}
	}
	return strings.Join(parts, ",")
}

type failingReader struct {
	data []byte
	err  error
}

func (f *failingReader) Read(p []byte) (int, error) {
	if len(f.data) == 0 {
		return 0, f.err
	}
	n := copy(p, f.data)
	f.data = f.data[n:]
	return n, nil
}

func runC02(c *runCtx) {
	labels := hostileLabels(c)
	// (a) the formatter round trip on every label, for the three types that may carry a charset
	for i, L := range labels {
		if !c.mine([]byte(L), []byte("fmt")) {
			continue
		}
		t := []string{"text/plain", "text/html", "text/xml"}[i%3]
		s := mime.FormatMediaType(t, map[string]string{"charset": L})
		pt, ps, err := mime.ParseMediaType(s)
		ok := err == nil && pt == t && len(ps) == 1 && ps["charset"] == L
		c.stats.note("format-parse", []byte("f:"+L), len(L), true)
		if !ok {
			c.propfail("C02", fmt.Sprintf("FormatMediaType/ParseMediaType do not round-trip the charset label %q: formatted %q parsed (%q, %v, %v)", L, s, pt, ps, err))
		}
	}
	// (b) end to end: documents declaring those labels
	for i, L := range labels {
		if strings.ContainsAny(L, "\"'>") && i%2 == 0 {
			continue
		}
		docs := [][]byte{
			[]byte("<!DOCTYPE html><html><head><meta charset=\"" + L + "\"></head><body>x</body></html>"),
			[]byte("<html><head><meta http-equiv=\"Content-Type\" content=\"text/html; charset=" + L + "\"></head></html>"),
			[]byte("<?xml version=\"1.0\" encoding=\"" + L + "\"?><root/>"),
			[]byte("<?xml version='1.0' encoding='" + L + "'?><rss version=\"2.0\"></rss>"),
		}
		d := docs[i%len(docs)]
		if !c.mine(d) {
			continue
		}
		lim := []uint32{3072, 0, 40}[i%3]
		m, pan := detectAt(d, lim)
		if pan != nil || m == nil {
			c.propfail("C02", fmt.Sprintf("Detect panics or returns nil on %q", string(d)))
			continue
		}
		c.stats.note("declared-label", d, len(d), strings.Contains(m.String(), "charset"))
		c.stats.Results[bareType(m.String())]++
		c.emit("c02", resultLine(m), "noerr", hx(d))
		if c.stats.Evaluations%151 == 1 {
			c.stats.sample(fmt.Sprintf("c02 label=%q -> %q (parents %s)", L, m.String(), chainOf(m)))
		}
	}
	// all detector seeds
	for _, s := range allSeeds(c.rng, "/repo") {
		if !c.mine(s.data, []byte("seed")) {
			continue
		}
		m, _ := detectAt(s.data, 3072)
		if m != nil {
			c.stats.note("seed", s.data, len(s.data), true)
			c.emit("c02", resultLine(m), "noerr", hx(s.data[:min(len(s.data), 48)]))
		}
		// the same content behind a byte-order mark (several binary formats tolerate one), and through the reader
		for bi, bm := range [][]byte{{0xEF, 0xBB, 0xBF}, {0xFF, 0xFE}, {0xFE, 0xFF}, {0, 0, 0xFE, 0xFF}} {
			if len(s.data) > 3000 {
				break
			}
			y := cat(bm, s.data)
			mimetype.SetLimit([]uint32{3072, 0, 64, 3072}[bi])
			if mb, err := mimetype.DetectReader(bytes.NewReader(y)); mb != nil && err == nil {
				c.stats.note("seed+bom", y, len(y), true)
				c.emit("c02", resultLine(mb), "noerr", hx(y[:min(len(y), 48)]))
			}
		}
		mimetype.SetLimit(3072)
	}
	// (c) error paths: the value must be exactly application/octet-stream
	for _, lim := range []uint32{3072, 0, 4} {
		for _, pre := range [][]byte{{}, []byte("%PDF-"), []byte("<html><meta charset=koi8-r>"), {0x89, 'P', 'N', 'G'}} {
			mimetype.SetLimit(lim)
			m, err := mimetype.DetectReader(&failingReader{data: append([]byte{}, pre...), err: errors.New("boom")})
			c.stats.note("error-path", append([]byte{byte(lim)}, pre...), len(pre), true)
			if m == nil {
				c.propfail("C02", "DetectReader returned nil with an error")
				continue
			}
			tag := "noerr"
			if err != nil {
				tag = "err"
			}
			c.emit("c02", resultLine(m), tag, hx(pre))
		}
	}
	// file errors under every kind of limit: missing path, a directory
	for _, lim := range []uint32{3072, 0, 1, 1 << 22} {
		for _, p := range []string{"/nonexistent/verif/file", "/", os.TempDir()} {
			mimetype.SetLimit(lim)
			m, err := mimetype.DetectFile(p)
			c.stats.note("error-path", []byte(fmt.Sprintf("file:%s:%d", p, lim)), 0, true)
			if m != nil && err != nil {
				c.emit("c02", resultLine(m), "err", "-")
				if m.Parent() != nil || m.String() != "application/octet-stream" {
					c.propfail("C02", fmt.Sprintf("DetectFile(%s) at limit %d returned an error together with %s (parent %v): must be exactly application/octet-stream", p, lim, m.String(), m.Parent()))
				}
			} else if err == nil {
				c.propfail("C02", fmt.Sprintf("DetectFile(%s) at limit %d returned no error", p, lim))
			}
		}
	}
	mimetype.SetLimit(3072)
}

// ---- C15: equality helpers -----------------------------------------------------------------------------

func decorate(c *runCtx, name string, k int) string {
	r := c.rng
	s := name
	switch k % 8 {
	case 0:
	case 1:
		s = strings.ToUpper(s)
	case 2:
		b := []byte(s)
		for i := range b {
			if r.Intn(2) == 0 && 'a' <= b[i] && b[i] <= 'z' {
				b[i] -= 32
			}
		}
		s = string(b)
	case 3:
		s = "  " + s + " \t"
	case 4:
		s = s + "; charset=utf-8"
	case 5:
		s = s + ";a=b; c=\"d e\\\"f\"; x*=utf-8''%41%c3%a9"
	case 6:
		s = " " + strings.ToUpper(s) + " ; Charset=\"x;y\""
	case 7:
		s = s + ";q=0.8;level=1 "
	}
	return s
}

func runC15(c *runCtx) {
	nodes := c.nodes
	type nm struct {
		name string
		node int
	}
	var names []nm
	for i, n := range nodes {
		names = append(names, nm{n.MIME, i})
		for _, a := range n.Aliases {
			names = append(names, nm{a, i})
		}
	}
	c.stats.Extra["registered_names"] = len(names)
	// every name x every decoration against the node that owns it, Lookup, EqualsAny
	for _, x := range names {
		for k := 0; k < 8; k++ {
			s := decorate(c, x.name, k)
			if !c.mine([]byte(s), []byte(strconv.Itoa(x.node))) {
				continue
			}
			norm, _, _ := mime.ParseMediaType(s)
			c.stats.note("is-own-name", []byte(fmt.Sprintf("%d:%s", x.node, s)), len(s), k > 0)
			c.emit("is", strconv.Itoa(x.node), hx([]byte(s)), hx([]byte(norm)), fmt.Sprint(nodes[x.node].Node.Is(s)), "own")
			ea := mimetype.EqualsAny(s, "x/y", x.name)
			ea2 := mimetype.EqualsAny(x.name, decorate(c, "x/y", k), s)
			if !ea || !ea2 {
				c.propfail("C15", fmt.Sprintf("EqualsAny does not ignore decoration: EqualsAny(%q, .., %q)=%v, reverse=%v", s, x.name, ea, ea2))
			}
		}
		l := mimetype.Lookup(x.name)
		if l == nil || !l.Is(x.name) {
			c.propfail("C15", fmt.Sprintf("Lookup(%q) does not resolve to a format that Is that name", x.name))
		}
	}
	// exactness: every node against every registered name
	for i := range nodes {
		for _, y := range names {
			if !c.mine([]byte(y.name), []byte("x"), []byte(strconv.Itoa(i))) {
				continue
			}
			c.stats.note("is-cross", []byte(fmt.Sprintf("x%d:%s", i, y.name)), len(y.name), y.node == i)
			c.emit("is", strconv.Itoa(i), hx([]byte(y.name)), hx([]byte(y.name)), fmt.Sprint(nodes[i].Node.Is(y.name)), "cross")
		}
	}
	// detection results, including those with quoted / RFC 2231 charset parameters
	docs := [][]byte{[]byte("plain"), []byte("<html><meta charset=\"x;y\">"), []byte("<html><meta charset=\"x; charset=y\">"), []byte("<html><meta charset=\"a;a=b;a=c\">"),
		[]byte("<html><meta charset='x\"; y=\"z'>"), []byte("<html><meta charset=\";\">"), []byte("<html><meta charset=\"=\">"), []byte("<html><meta charset=\"charset=charset\">"),
		[]byte("<?xml version=\"1.0\" encoding=\"x; charset=y\"?><a/>"), []byte("<html><meta charset=\"k\xc3\xa4se\">"), []byte("<html><meta charset='a b'>"), []byte("<?xml version=\"1.0\" encoding=\"a\\b\"?><a/>"), []byte("{\"a\":1}"), []byte("%PDF-1.4")}
	for _, s := range allSeeds(c.rng, "/repo") {
		docs = append(docs, s.data)
	}
	for _, d := range docs {
		if !c.mine(d, []byte("result")) {
			continue
		}
		m, _ := detectAt(d, 3072)
		if m == nil {
			continue
		}
		s := m.String()
		c.stats.note("result", d, len(d), strings.Contains(s, ";"))
		bare, _, _ := mime.ParseMediaType(s)
		l := mimetype.Lookup(bare)
		if !m.Is(s) || !mimetype.EqualsAny(s, s) || l == nil || !l.Is(s) {
			c.propfail("C15", fmt.Sprintf("result %q: Is(self)=%v EqualsAny(self,self)=%v Lookup(bare type %q).Is(self)=%v", s, m.Is(s), mimetype.EqualsAny(s, s), bare, l != nil && l.Is(s)))
		}
		// a detection result (and every ancestor it reports) answers Is exactly like the registered format it stands
		// for: true for the type and every alias in any decoration, false for other registered names
		k := 0
		for p := m; p != nil; p = p.Parent() {
			pb, _, _ := mime.ParseMediaType(p.String())
			for i, n := range nodes {
				if n.MIME != pb || n.Extension != p.Extension() {
					continue
				}
				for _, a := range append([]string{n.MIME}, n.Aliases...) {
					k++
					dec := decorate(c, a, k)
					if !p.Is(a) || !p.Is(dec) {
						c.propfail("C15", fmt.Sprintf("detection result %q (registered format #%d %s) does not answer Is(%q) / Is(%q): %v / %v", p.String(), i, n.MIME, a, dec, p.Is(a), p.Is(dec)))
					}
				}
				other := nodes[(i*7+3)%len(nodes)]
				if other.MIME != n.MIME && p.Is(other.MIME) {
					own := false
					for _, a := range n.Aliases {
						own = own || a == other.MIME
					}
					if !own {
						c.propfail("C15", fmt.Sprintf("detection result %q answers Is(%q), a different registered type", p.String(), other.MIME))
					}
				}
				break
			}
		}
	}
	// formats registered at run time (this process is about to end: the enlarged tree disturbs nothing): aliases in
	// the order the caller gives them, names that were looked up (and missed) before being registered, registration
	// through a node's Extend method
	if c.shard == 0 {
		never := func([]byte, uint32) bool { return false }
		for _, n := range []string{"application/x-verif-c15", "application/zz-c15", "application/mm-c15", "application/aa-c15", "text/x-verif-c15b", "text/x-verif-c15b-alias"} {
			if mimetype.Lookup(n) != nil {
				c.propfail("C15", fmt.Sprintf("Lookup(%q) finds something before the name is registered", n))
			}
		}
		// (registration through a node's method first, and checked before any package-level Extend runs: whatever one
		// path does to remembered look-ups, the other must do too)
		mimetype.Lookup("text/plain").Extend(never, "text/x-verif-c15b", ".b", "text/x-verif-c15b-alias")
		for _, n := range []string{"text/x-verif-c15b", "text/x-verif-c15b-alias"} {
			if l := mimetype.Lookup(n); l == nil || !l.Is(n) {
				c.propfail("C15", fmt.Sprintf("a name looked up (and missed) before it was registered through (*MIME).Extend does not resolve afterwards: Lookup(%q)=%v", n, l))
			}
		}
		mimetype.Extend(never, "application/x-verif-c15", ".c15", "application/zz-c15", "application/mm-c15", "application/aa-c15")
		for _, n := range []string{"application/x-verif-c15", "application/zz-c15", "application/mm-c15", "application/aa-c15", "text/x-verif-c15b", "text/x-verif-c15b-alias"} {
			l := mimetype.Lookup(n)
			c.stats.note("extended-name", []byte(n), len(n), true)
			if l == nil || !l.Is(n) || !l.Is(strings.ToUpper(n)) || !l.Is(" "+n+"; q=1") || !mimetype.EqualsAny(n, "x/y", strings.ToUpper(n)) {
				c.propfail("C15", fmt.Sprintf("a name registered through Extend does not resolve through Lookup to a format that Is that name: Lookup(%q)=%v", n, l))
			}
		}
	}
	// a format registered under a name that is not in normal form (mixed case), with a detector that matches: the
	// detection result carries the name as registered and Is itself, in every decoration
	if c.shard == 0 {
		name := "application/vnd.Verif-C15.sheet.macroEnabled.12"
		mimetype.Lookup("application/zip").Extend(func(raw []byte, _ uint32) bool { return bytes.HasPrefix(raw, []byte("PK\x03\x04verif-c15")) }, name, ".vc15", "Application/X-Verif-C15-Alias")
		mimetype.Extend(func(raw []byte, _ uint32) bool { return bytes.HasPrefix(raw, []byte("VERIF-C15-ROOT")) }, "Application/X-Verif-C15-Root", ".vr15")
		for _, probe := range []struct {
			x    []byte
			name string
		}{{[]byte("PK\x03\x04verif-c15 and more bytes"), name}, {[]byte("VERIF-C15-ROOT\x00\x01"), "Application/X-Verif-C15-Root"}} {
			for _, how := range []string{"Detect", "DetectReader"} {
				var d *mimetype.MIME
				if how == "Detect" {
					d, _ = detectAt(probe.x, 3072)
				} else {
					mimetype.SetLimit(3072)
					d, _ = mimetype.DetectReader(bytes.NewReader(probe.x))
				}
				c.stats.note("extended-mixed-case", append([]byte(how), probe.x...), len(probe.x), true)
				if d == nil {
					c.propfail("C15", "nil result for a run-time registration under a mixed-case name")
					continue
				}
				s := d.String()
				l := mimetype.Lookup(probe.name)
				if s != probe.name || !d.Is(s) || !d.Is(strings.ToLower(s)) || !d.Is(" "+strings.ToUpper(s)+" ; q=1") || !mimetype.EqualsAny(s, "x/y", s) || l == nil || !l.Is(s) || d.Is("application/zip") && probe.name != name {
					c.propfail("C15", fmt.Sprintf("%s result for a format registered as %q: String()=%q Is(self)=%v Is(lower)=%v Is(decorated)=%v EqualsAny(self,self)=%v Lookup(name).Is(self)=%v", how, probe.name, s, d.Is(s), d.Is(strings.ToLower(s)), d.Is(" "+strings.ToUpper(s)+" ; q=1"), mimetype.EqualsAny(s, "x/y", s), l != nil && l.Is(s)))
				}
			}
		}
	}
	_ = bytes.MinRead
}

func init() {
	commands["run-c02"] = func(args []string) {
		c := parseRunArgs(args)
		runC02(c)
		c.finish()
	}
	commands["run-c15"] = func(args []string) {
		c := parseRunArgs(args)
		runC15(c)
		c.finish()
	}
}
