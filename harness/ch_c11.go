package main

import (
	"fmt"
	"mime"
	"strconv"
	"strings"

	"github.com/gabriel-vasile/mimetype/internal/charset"
)

var c11Alphabet = []byte{0x61, 0x0A, 0x1B, 0x7F, 0x80, 0x85, 0x8F, 0x90, 0x9F, 0xA0, 0xBB, 0xBD, 0xBF, 0xC2, 0xDF, 0xE0, 0xE1, 0xED, 0xEF, 0xF0, 0xF4, 0xF5, 0xFE, 0xFF}

func csCode(s string) byte {
	switch s {
	case "utf-8":
		return 'u'
	case "windows-1252":
		return 'w'
	case "iso-8859-1":
		return 'i'
	case "":
		return '-'
	case "utf-16be":
		return 'B'
	case "utf-16le":
		return 'L'
	case "utf-32be":
		return 'C'
	case "utf-32le":
		return 'M'
	}
	return '?'
}

func runC11(c *runCtx) {
	al := c11Alphabet
	n := 4
	if c.tier == "thorough" {
		n = 5
	}
	var total int64
	hist := map[byte]int64{}
	group := func(prefix []byte, k int) {
		if !c.mine(prefix, []byte{byte(k)}) {
			return
		}
		cnt := 1
		for i := 0; i < k; i++ {
			cnt *= len(al)
		}
		codes := make([]byte, cnt)
		buf := make([]byte, len(prefix)+k)
		copy(buf, prefix)
		idx := make([]int, k)
		for j := 0; j < cnt; j++ {
			for t := 0; t < k; t++ {
				buf[len(prefix)+t] = al[idx[t]]
			}
			codes[j] = csCode(charset.FromPlain(buf))
			hist[codes[j]]++
			for t := k - 1; t >= 0; t-- {
				idx[t]++
				if idx[t] < len(al) {
					break
				}
				idx[t] = 0
			}
		}
		total += int64(cnt)
		c.emit("c11x", hx(al), hx(prefix), strconv.Itoa(k), string(codes))
	}
	for L := 0; L <= n; L++ {
		if L <= 2 {
			group(nil, L)
			continue
		}
		pl := L - 2
		pidx := make([]int, pl)
		pre := make([]byte, pl)
		for {
			for t := 0; t < pl; t++ {
				pre[t] = al[pidx[t]]
			}
			group(append([]byte{}, pre...), 2)
			t := pl - 1
			for ; t >= 0; t-- {
				pidx[t]++
				if pidx[t] < len(al) {
					break
				}
				pidx[t] = 0
			}
			if t < 0 {
				break
			}
		}
	}
	c.stats.Evaluations += total
	c.stats.Distinct += total
	c.stats.DistinctNontriv += total - hist['-']
	c.stats.Extra["exhaustive_max_len"] = n
	c.stats.Extra["alphabet_hex"] = hx(al)
	c.stats.Extra["strings"] = total
	for k, v := range hist {
		c.stats.Results[string([]byte{k})] += v
	}
	c.stats.sample(fmt.Sprintf("c11x: all %d strings over byte classes %s up to length %d in this shard; charset histogram %v", total, hx(al), n, hist))

	// real text cut at every limit, directly and through Detect's charset parameter
	texts := []string{
		"Plain ASCII text.\n", "café au lait — naïve façade", "日本語のテキストです。", "emoji 😀 here 👍", "Ünïcödé ßtraße", "Wait\x85", "caf\xe9", "\x93quoted\x94 text", "na\xefve caf\xe9", "\x85",
		"caf\xc3\xa9", "x\xf0\x9f\x98\x80", "a\xed\xa0\x80b", "a\xc0\xafb", "\xef\xbb\xbfBOM text", "\xff\xfeh\x00i\x00", "\xfe\xff\x00h", "\x00\x00\xfe\xffx", "\xff\xfe\x00\x00x\x00\x00\x00",
		"tab\tsep\x1bescape\x7fdel", "bell\x07 backspace\x08 formfeed\x0c",
		// undeclared text that merely talks about declarations: nothing in it is a declaration of its own encoding
		"notes on html: write <meta charset=\"windows-1252\"> caf\xc3\xa9 in the head", "latin text \x85 says <meta charset=\"iso-8859-1\"> here", "ascii only <meta charset=koi8-r> end",
		"x <?xml version=\"1.0\" encoding=\"koi8-r\"?> caf\xe9", "see <meta http-equiv=\"Content-Type\" content=\"text/html; charset=utf-16\"> d\xe9j\xe0 vu",
		"<?note encoding=\"UTF-8\"?>\ncaf\xe9 cr\xe8me\n", "<?pi encoding=\"koi8-r\"?> ascii only\n", " \n<?memo encoding='iso-8859-1'?>\nWait\x85\n", "<?x encoding=\"windows-1252\"?>caf\xc3\xa9",
		"caf\xef\xbf\xbd au lait (a real U+FFFD)\n", "price: 10 \xe2\x82\xac \xef\xbf\xbd\xef\xbf\xbd ok", "\xef\xbf\xbd", "\xef\xbf\xbe noncharacter \xf4\x8f\xbf\xbf",
	}
	// long texts whose charset-deciding bytes lie far behind the default limit, examined under larger limits
	pad := strings.Repeat("ascii filler line 0123456789\n", 110) // 3190 bytes
	for _, tail := range []string{"caf\xe9 au lait", "Wait\x85 d\xe9j\xe0", "\xc3\xa9 suite et fin", "tout en ascii", "caf\xc3\xa9 \xef\xbf\xbd"} {
		for _, padLen := range []int{3071, 3072, 3190, 5400} {
			b := []byte(strings.Repeat(pad, 2)[:padLen] + tail)
			for _, lim := range []uint32{0, 8192, uint32(len(b)), uint32(len(b) - 1), 3072} {
				if !c.mine(b, []byte("long"), []byte(strconv.Itoa(int(lim)))) {
					continue
				}
				m, pan := detectAt(b, lim)
				if pan == nil && m != nil && bareType(m.String()) == "text/plain" {
					_, ps, err := mime.ParseMediaType(m.String())
					dcs := ""
					if err == nil {
						dcs = ps["charset"]
					}
					h := header(b, lim)
					c.stats.note("long-text", append([]byte(strconv.Itoa(int(lim))+":"), b...), len(h), dcs != "")
					c.emit("c11", hx(h), dcs, "Detect")
				}
			}
		}
	}
	for _, t := range texts {
		b := []byte(t)
		for k := 0; k <= len(b); k++ {
			if !c.mine(b[:k], []byte("plain")) {
				continue
			}
			cs := charset.FromPlain(b[:k])
			c.stats.note("text-cut", append([]byte("p:"), b[:k]...), k, cs != "")
			c.emit("c11", hx(b[:k]), cs, "FromPlain")
			// through Detect: only results whose type is text/plain carry the sniffed charset of undeclared text
			m, pan := detectAt(b, uint32(k))
			if k > 0 && pan == nil && m != nil && bareType(m.String()) == "text/plain" {
				_, ps, err := mime.ParseMediaType(m.String())
				dcs := ""
				if err == nil {
					dcs = ps["charset"]
				}
				c.stats.note("text-cut-detect", append([]byte("d:"), b[:k]...), k, dcs != "")
				c.emit("c11", hx(b[:k]), dcs, "Detect")
			}
		}
	}
}

func init() {
	commands["run-c11"] = func(args []string) {
		c := parseRunArgs(args)
		runC11(c)
		c.finish()
	}
}
