(* Correspondence driver: reads case lines (tab separated) on stdin, evaluates the extracted Coq
   model and spec predicates, prints one line per disagreement:
     MISMATCH <channel> line=<n> <detail>        model and implementation differ
     PROPFAIL <property> line=<n> <detail>       implementation contradicts the spec predicate
   and a final  DONE lines=<n> mismatches=<m> propfails=<p>  line. *)
type ostr = string
module OL = List
open Model
module List = OL

(* ---- conversions ---- *)
let rec pos_of_int n = if n = 1 then XH else if n land 1 = 1 then XI (pos_of_int (n lsr 1)) else XO (pos_of_int (n lsr 1))
let n_of_int n = if n = 0 then N0 else Npos (pos_of_int n)
let rec int_of_pos = function XH -> 1 | XO p -> 2 * int_of_pos p | XI p -> 2 * int_of_pos p + 1
let int_of_n = function N0 -> 0 | Npos p -> int_of_pos p
let int_of_z = function Z0 -> 0 | Zpos p -> int_of_pos p | Zneg p -> - (int_of_pos p)
let rec nat_of_int n = let rec go acc k = if k = 0 then acc else go (S acc) (k - 1) in go O n
let int_of_nat n = let rec go acc = function O -> acc | S m -> go (acc + 1) m in go 0 n
let byte_tbl = Array.init 256 n_of_int
let hexval c = match c with '0'..'9' -> Char.code c - 48 | 'a'..'f' -> Char.code c - 87 | 'A'..'F' -> Char.code c - 55 | _ -> failwith "hex"
let bytes_of_hex (s : ostr) : n list =
  let len = String.length s / 2 in
  let rec go i acc = if i < 0 then acc else go (i - 1) (byte_tbl.(hexval s.[2*i] * 16 + hexval s.[2*i+1]) :: acc) in
  if s = "-" then [] else go (len - 1) []
let hex_of_bytes (l : n list) : ostr =
  if l = [] then "-" else String.concat "" (List.map (fun c -> Printf.sprintf "%02x" (int_of_n c)) l)
let string_of_bytes (l : n list) : ostr =
  let b = Buffer.create 16 in List.iter (fun c -> Buffer.add_char b (Char.chr (int_of_n c))) l; Buffer.contents b
let bytes_of_string (s : ostr) : n list = List.init (String.length s) (fun i -> byte_tbl.(Char.code s.[i]))
let coq_string (s : ostr) : string =
  let rec go i acc = if i < 0 then acc else
    let c = Char.code s.[i] in
    let bit k = c land (1 lsl k) <> 0 in
    go (i - 1) (String ((Ascii (bit 0, bit 1, bit 2, bit 3, bit 4, bit 5, bit 6, bit 7)), acc)) in
  go (String.length s - 1) EmptyString

let split_tab s = String.split_on_char '\t' s

let mismatches = ref 0
let propfails = ref 0
let lineno = ref 0
let mismatch ch detail = incr mismatches; Printf.printf "MISMATCH %s line=%d %s\n" ch !lineno detail
let propfail p detail = incr propfails; Printf.printf "PROPFAIL %s line=%d %s\n" p !lineno detail

(* ---- channels ---- *)
let extra_channels : (ostr * (ostr list -> unit)) list ref = ref []
let nnodes = List.length nodes
let node_arr = Array.of_list nodes

let verdict_char = function
  | None -> '?'
  | Some (Val true) -> '1'
  | Some (Val false) -> '0'
  | Some Panic -> 'P'

(* det <hex> <limit> <obs> : obs over {0,1,P,T}, one per node *)
let ch_det hex lim obs =
  let raw = bytes_of_hex hex in
  let l = n_of_int (int_of_string lim) in
  let vs = verdicts raw l in
  List.iteri (fun i v ->
    let m = verdict_char v in
    if i < String.length obs then begin
      let o = obs.[i] in
      if m <> '?' && m <> o then
        mismatch "det" (Printf.sprintf "node=%d det=%s model=%c obs=%c input=%s limit=%s" i (string_of_bytes (obs_of (nat_of_int i) |> fst)) m o hex lim)
    end) vs;
  (* the same nodes through the functions translated from the current source (Gen/SrcFuncs.v): validates the translator,
     Panic against Go's own panic ('P') included *)
  List.iteri (fun i v ->
    let m = verdict_char v in
    if i < String.length obs then begin
      let o = obs.[i] in
      if m <> '?' && m <> o then
        mismatch "det" (Printf.sprintf "node=%d det=%s source-translation=%c obs=%c input=%s limit=%s" i (string_of_bytes (obs_of (nat_of_int i) |> fst)) m o hex lim)
    end) (if String.length hex <= 256 || Hashtbl.hash hex mod 8 = 0 then src_verdicts raw l else []);
  (* (headers above 128 bytes: one in eight, chosen by a hash of the input - the translated functions compute len(raw),
     O(n) on lists, at every index expression) *)
  if String.length obs <> List.length vs then
    mismatch "det" (Printf.sprintf "node-count model=%d obs=%d" (List.length vs) (String.length obs))

let chain_string (c : (n list * n list) list) : ostr =
  String.concat ";" (List.map (fun (m, e) -> string_of_bytes m ^ "|" ^ string_of_bytes e) c)

(* walk <obs verdicts> <chain> : the Go chain must be the first-match path over TreeData driven by Go's own verdicts *)
let ch_walk obs chain =
  let acc id = let i = int_of_nat id in i < String.length obs && obs.[i] = '1' in
  let m = chain_string (chain_of acc tree0) in
  if m <> chain then mismatch "walk" (Printf.sprintf "model=%s obs=%s verdicts=%s" m chain obs);
  m = chain

(* obs <hex hdr> <limit> <verdicts> <chain> <kind> *)
let prop_mode = ref ""
let obs_hooks : (n list -> n -> ostr -> ostr -> unit) list ref = ref []
let ch_obs hex lim obs chain =
  ch_det hex lim obs;
  if chain <> "PANIC" && chain <> "NIL" then begin
    if not (ch_walk obs chain) && !prop_mode = "C03" then
      propfail "C03" (Printf.sprintf "the reported hierarchy %s is not the first-match path over the tree for the verdicts the detectors themselves return on this header: header=%s limit=%s" chain hex lim)
    else if !prop_mode = "C03" then begin
      (* "in priority order": the same re-walk over the tree put into the SPECIFIED order of sub-formats (Spec/SpecOrder.v) *)
      let acc id = let i = int_of_nat id in i < String.length obs && obs.[i] = '1' in
      let mp = chain_string (chain_of acc tree_pinned) in
      if mp <> chain then
        propfail "C03" (Printf.sprintf "priority order: several sub-formats accept this header and the reported hierarchy %s descends into one that the specified priority order lists after another accepting one (first-match path in the specified order: %s): header=%s limit=%s" chain mp hex lim)
    end
  end;
  if !obs_hooks <> [] then begin
    let raw = bytes_of_hex hex in
    let l = n_of_int (int_of_string lim) in
    List.iter (fun f -> f raw l obs chain) !obs_hooks
  end

let split_on c s = if s = "" then [] else String.split_on_char c s

(* C07: text/plain in the chain only if BOM-or-no-binary; such headers are never the bare root *)
let c07_hook raw _l _obs chain =
  if chain <> "PANIC" && chain <> "NIL" then begin
    let spec = text_spec raw in
    let els = split_on ';' chain in
    let has_text = List.exists (fun e -> String.length e >= 11 && String.sub e 0 11 = "text/plain|") els in
    if has_text && not spec then propfail "C07" (Printf.sprintf "text/plain in hierarchy of a header with a binary data byte and no BOM: header=%s chain=%s" (hex_of_bytes raw) chain);
    if spec && List.length els < 2 then propfail "C07" (Printf.sprintf "header with BOM / without binary bytes classified as the bare root: header=%s chain=%s" (hex_of_bytes raw) chain)
  end

(* c17 <hex x> <classes>: one char per limit 1..len+1 then limit 0: B binary, T text, U unknown root *)
let ch_c17 hex classes =
  let n = String.length classes in
  let first_b = ref (-1) in
  String.iteri (fun i c ->
    if c = 'B' && !first_b < 0 then first_b := i;
    if !first_b >= 0 && c <> 'B' then begin
      (* the string is indexed by limit 1..len+1, then three limits far beyond the input, then limit 0 *)
      let lim k = if k = n - 1 then 0 else if k >= n - 4 then (match n - 1 - k with 3 -> 67108865 | 2 -> 2147483648 | _ -> 4294967295) else k + 1 in
      propfail "C17" (Printf.sprintf "binary at limit %d but %s at limit %d: input=%s" (lim !first_b) (if c = 'T' then "text" else "unknown") (lim i) hex);
      first_b := -2 - n   (* report once per input *)
    end) classes

(* ---- JSON ---- *)
let coq_none = coq_string "none"
let want_json = N.coq_lor tok_object tok_array
let use_legacy = (try Sys.getenv "VERIF_JSON_LEGACY" = "1" with Not_found -> false)
let parse mr tk qs raw =
  if use_legacy then
    (let r = legacy_parse mr tk qs raw in
     { p_parsed = r.p_parsed0; p_inspected = r.p_inspected0; p_ftok = r.p_ftok0; p_qsat = r.p_qsat0; p_oof = r.p_oof0; p_hw = r.p_hw0 })
  else parse mr tk qs raw
let json_helper mr tk qs w raw l = if use_legacy then legacy_json_helper mr tk qs w raw l else json_helper mr tk qs w raw l
let ndjson mr tk _ raw l = ndjson mr tk (not use_legacy) raw l
let model_json raw lim = json_helper maxrec tokens (queries_of coq_none) want_json raw lim
let legacy_json raw lim = legacy_json_helper maxrec tokens (queries_of coq_none) want_json raw lim

(* jexh <alphabet> <prefix> <k> <bits>: every extension of prefix by k symbols, in lexicographic order;
   bit0 = whole mode (limit 0), bit1 = truncated mode (limit = len) *)
let ch_jexh alhex prehex ks bits =
  let al = Array.of_list (bytes_of_hex alhex) in
  let na = Array.length al in
  let pre = bytes_of_hex prehex in
  let k = int_of_string ks in
  let idx = Array.make k 0 in
  let cnt = String.length bits in
  for j = 0 to cnt - 1 do
    let ext = Array.to_list (Array.map (fun i -> al.(i)) idx) in
    let s = pre @ ext in
    let len = n_of_int (List.length s) in
    let ob = Char.code bits.[j] - 48 in
    let mw = model_json s N0 and mt = model_json s len in
    let ow = ob land 1 <> 0 and ot = ob land 2 <> 0 in
    let jw = judge_whole s and jp = judge_prefix s in
    if ow && not jw then propfail "C09" (Printf.sprintf "whole input reported as JSON but is not a relaxed JSON document: input=%s (%S)" (hex_of_bytes s) (string_of_bytes s));
    if ot && not jp then propfail "C09" (Printf.sprintf "truncated input (limit=len) reported as JSON but is not a prefix of any relaxed JSON document: input=%s (%S)" (hex_of_bytes s) (string_of_bytes s));
    if mw <> ow then mismatch "json" (Printf.sprintf "mode=whole model=%b obs=%b judge=%b input=%s (%S)" mw ow jw (hex_of_bytes s) (string_of_bytes s));
    if mt <> ot then mismatch "json" (Printf.sprintf "mode=trunc model=%b obs=%b judge=%b input=%s (%S)" mt ot jp (hex_of_bytes s) (string_of_bytes s));
    if mw <> jw then mismatch "judge" (Printf.sprintf "mode=whole model=%b judge=%b input=%s (%S)" mw jw (hex_of_bytes s) (string_of_bytes s));
    if mt <> (jp && looks_like_obj_or_arr s) then
      mismatch "judge" (Printf.sprintf "mode=trunc model=%b judge=%b input=%s (%S)" mt jp (hex_of_bytes s) (string_of_bytes s));
    (* next index vector *)
    let t = ref (k - 1) in
    let go = ref true in
    while !go && !t >= 0 do
      idx.(!t) <- idx.(!t) + 1;
      if idx.(!t) < na then go := false else begin idx.(!t) <- 0; decr t end
    done
  done

let qkeys = ["none"; "geo"; "har"; "gltf"]
let wants = [want_json; tok_object; tok_object; tok_object]

(* json <hex> <limit> <q:p,i,ft,qs;...> <dets JSON,Geo,HAR,GLTF,NdJSON> <kind> *)
let ch_json hex lim obs dets kind =
  let raw = bytes_of_hex hex in
  let l = n_of_int (int_of_string lim) in
  let parts = split_on ';' obs in
  List.iter (fun part ->
    match String.split_on_char ':' part with
    | [q; v] ->
      let r = parse maxrec tokens (queries_of (coq_string q)) raw in
      let m = Printf.sprintf "%d,%d,%d,%b" (int_of_nat r.p_parsed) (int_of_nat r.p_inspected) (int_of_n r.p_ftok) r.p_qsat in
      if r.p_oof then mismatch "json-fuel" (Printf.sprintf "model ran out of fuel input=%s" hex);
      if m <> v then mismatch "json" (Printf.sprintf "parse q=%s model=%s obs=%s input=%s (%S) kind=%s" q m v hex (string_of_bytes raw) kind)
    | _ -> ()) parts;
  List.iteri (fun i q ->
    let m = json_helper maxrec tokens (queries_of (coq_string q)) (List.nth wants i) raw l in
    let o = dets.[i] = '1' in
    if m <> o then mismatch "json" (Printf.sprintf "detector=%s limit=%s model=%b obs=%b input=%s (%S) kind=%s" q lim m o hex (string_of_bytes raw) kind)) qkeys;
  let mn = ndjson maxrec tokens true raw l in
  if mn <> (dets.[4] = '1') then mismatch "ndjson" (Printf.sprintf "limit=%s model=%b obs=%b input=%s (%S)" lim mn (dets.[4] = '1') hex (string_of_bytes raw));
  (* direct judgement of the implementation *)
  let li = int_of_string lim in
  let whole = li = 0 || List.length raw < li in
  if dets.[0] = '1' then begin
    if whole && not (judge_whole raw) then propfail "C09" (Printf.sprintf "whole input reported as JSON but is not a relaxed JSON document: limit=%s input=%s (%S)" lim hex (string_of_bytes raw));
    if (not whole) && not (judge_prefix raw) then propfail "C09" (Printf.sprintf "truncated input reported as JSON but is not a prefix of a relaxed JSON document: limit=%s input=%s (%S)" lim hex (string_of_bytes raw))
  end else begin
    (* kinds whose inputs are valid RFC 8259 documents (or cuts of them after the opening bracket) by construction *)
    if kind = "valid" || kind = "valid-cut" then
      propfail "C08" (Printf.sprintf "well-formed JSON (%s) not recognised: limit=%s input=%s (%S)" kind lim hex (string_of_bytes raw))
  end

(* jdepth <hex> <limit> <obs JSON verdict> <desc>: documents nested around the recursion cap *)
let ch_jdepth hex lim obs desc =
  let raw = bytes_of_hex hex in
  let l = n_of_int (int_of_string lim) in
  let r = parse maxrec tokens (queries_of coq_none) raw in
  if r.p_oof then mismatch "json-fuel" (Printf.sprintf "model ran out of fuel on %s" desc);
  let hwm = int_of_nat r.p_hw in
  if hwm > int_of_nat maxrec + 1 then propfail "C16" (Printf.sprintf "model recursion level %d exceeds cap+1 on %s" hwm desc);
  let li = int_of_string lim in
  let len = List.length raw in
  let ok_tok = N.coq_land r.p_ftok want_json <> N0 in
  let m = looks_like_obj_or_arr raw && r.p_qsat && ok_tok &&
          (if li = 0 || len < li then int_of_nat r.p_parsed = len else int_of_nat r.p_inspected = len && len > 0) in
  ignore l;
  if m <> (obs = "1") then mismatch "json" (Printf.sprintf "depth case %s limit=%s model=%b obs=%s" desc lim m obs)

(* jdeep <hex> <limit> <obs> <desc> <kind>: legally deep documents must be recognised *)
let ch_jdeep hex lim obs desc kind =
  ch_jdepth hex lim obs desc;
  if obs <> "1" then propfail "C08" (Printf.sprintf "well-formed JSON (%s, %s) within the promised nesting depth not recognised: limit=%s (document of %d bytes)" kind desc lim (String.length hex / 2))

(* ---- charset ---- *)
let charset_repaired = (try Sys.getenv "VERIF_CHARSET_LEGACY" <> "1" with Not_found -> true)
let model_plain s = from_plain boms text_chars tc_T tc_I charset_repaired s
let cs_of_code = function
  | 'u' -> "utf-8" | 'w' -> "windows-1252" | 'i' -> "iso-8859-1" | '-' -> "" | 'B' -> "utf-16be" | 'L' -> "utf-16le"
  | 'C' -> "utf-32be" | 'M' -> "utf-32le" | _ -> "?"
let c11_one s obs src =
  let m = string_of_bytes (model_plain s) in
  if m <> obs then mismatch "charset" (Printf.sprintf "%s model=%S obs=%S input=%s" src m obs (hex_of_bytes s));
  let why = c11_judge s (bytes_of_string obs) in
  if why <> [] then propfail "C11" (Printf.sprintf "%s: input=%s (%S) reported charset=%S (%s)" (string_of_bytes why) (hex_of_bytes s) (string_of_bytes s) obs src)
let ch_c11 hex obs src = c11_one (bytes_of_hex hex) obs src
let ch_c11x alhex prehex ks codes =
  let al = Array.of_list (bytes_of_hex alhex) in
  let na = Array.length al in
  let pre = bytes_of_hex prehex in
  let k = int_of_string ks in
  let idx = Array.make k 0 in
  for j = 0 to String.length codes - 1 do
    let s = pre @ Array.to_list (Array.map (fun i -> al.(i)) idx) in
    c11_one s (cs_of_code codes.[j]) "FromPlain";
    let t = ref (k - 1) in
    let go = ref true in
    while !go && !t >= 0 do
      idx.(!t) <- idx.(!t) + 1;
      if idx.(!t) < na then go := false else begin idx.(!t) <- 0; decr t end
    done
  done

(* ---- declared charsets (C12) ---- *)
let parse_tokens (t : ostr) : token list =
  if t = "-" then [] else
  List.map (fun part ->
    let i = String.index part '(' in
    let name = bytes_of_hex (let h = String.sub part 0 i in if h = "" then "-" else h) in
    let inner = String.sub part (i + 1) (String.length part - i - 2) in
    let attrs = if inner = "" then [] else
      List.map (fun kv -> match String.split_on_char '=' kv with
        | [k; v] -> (bytes_of_hex (if k = "" then "-" else k), bytes_of_hex (if v = "" then "-" else v))
        | _ -> ([], [])) (String.split_on_char ',' inner) in
    { tk_name = name; tk_attrs = attrs }) (String.split_on_char ';' t)

let c12_expected is_html (l : n list) : n list =
  let lo = lower_bytes l in
  if is_html && has_prefix (bytes_of_string "utf-16") lo then bytes_of_string "utf-8" else lo

let spec_has_bom doc = has_bom doc

(* c12h <doc> <tokens> <obs fromHTML> <type> <detect charset> <label> <kind> *)
let ch_c12h dochex toks obshex typ cshex lhex kind =
  let doc = bytes_of_hex dochex in
  let m = html_prescan (parse_tokens toks) in
  if hex_of_bytes m <> obshex then mismatch "meta" (Printf.sprintf "prescan model=%S obs=%S doc=%S" (string_of_bytes m) (string_of_bytes (bytes_of_hex obshex)) (string_of_bytes doc));
  let l = bytes_of_hex lhex in
  let cs = bytes_of_hex cshex in
  if typ <> "text/html" then propfail "C12" (Printf.sprintf "HTML document with a meta declaration reported as %s: doc=%s (%S)" typ dochex (string_of_bytes doc))
  else if spec_has_bom doc then begin
    (* a byte-order mark takes precedence over the meta declaration *)
    let bc = from_bom boms doc in
    if cs <> bc then propfail "C12" (Printf.sprintf "byte-order mark must take precedence over the meta declaration: expected %S got %S doc=%s (%S)" (string_of_bytes bc) (string_of_bytes cs) dochex (string_of_bytes doc))
  end else begin
    let e = c12_expected true l in
    if cs <> e then propfail "C12" (Printf.sprintf "declared charset not honoured (%s): label=%S expected %S got %S doc=%s (%S)" kind (string_of_bytes l) (string_of_bytes e) (string_of_bytes cs) dochex (string_of_bytes doc))
  end

(* c12x <doc> <obs fromXML> <type> <detect charset> <label> <kind> *)
let ch_c12x dochex obshex typ cshex lhex kind =
  let doc = bytes_of_hex dochex in
  let l = bytes_of_hex lhex in
  let cs = bytes_of_hex cshex in
  let e = c12_expected false l in
  ignore obshex;
  if typ <> "text/xml" then propfail "C12" (Printf.sprintf "XML document with a declaration reported as %s: doc=%s (%S)" typ dochex (string_of_bytes doc))
  else if cs <> e then propfail "C12" (Printf.sprintf "declared XML encoding not honoured (%s): label=%S expected %S got %S doc=%s (%S)" kind (string_of_bytes l) (string_of_bytes e) (string_of_bytes cs) dochex (string_of_bytes doc))

(* c12f <string> <obs fromMetaElement> <obs xmlEncoding> *)
let ch_c12f shex mhex xhex =
  let s = bytes_of_hex shex in
  let m = from_meta_element s and x = xml_encoding s in
  if hex_of_bytes m <> mhex then mismatch "meta" (Printf.sprintf "fromMetaElement model=%S obs=%S input=%S" (string_of_bytes m) (string_of_bytes (bytes_of_hex mhex)) (string_of_bytes s));
  if hex_of_bytes x <> xhex then mismatch "meta" (Printf.sprintf "xmlEncoding model=%S obs=%S input=%S" (string_of_bytes x) (string_of_bytes (bytes_of_hex xhex)) (string_of_bytes s))

(* ---- tar (C18) ---- *)
let root_kid_ids = List.map int_of_nat root_kids
let tar_id = int_of_nat (id_of_var (coq_string "tar"))
(* the formats allowed to take precedence over tar are the specification's, not whatever the tree says now *)
let before_tar = List.map (fun v -> int_of_nat (id_of_var v)) before_tar_spec
(* c18 <hex hdr> <verdicts> <chain> <kind> *)
let ch_c18 hex vec chain kind =
  let hdr = bytes_of_hex hex in
  let blk = firstn (nat_of_int 512) hdr in
  let m = tar_det hdr in
  let o = tar_id < String.length vec && vec.[tar_id] = '1' in
  if m <> o then mismatch "tar" (Printf.sprintf "Tar detector model=%b obs=%b kind=%s first-block=%s" m o kind (hex_of_bytes blk));
  let els = split_on ';' chain in
  let n = List.length els in
  let root_child = if n >= 2 then List.nth els (n - 2) else "-" in
  let is_tar = root_child = "application/x-tar|.tar" in
  let earlier = List.exists (fun i -> i < String.length vec && vec.[i] = '1') before_tar in
  if kind = "writer" || kind = "layout" then begin
    if not (tar_header_ok blk) then mismatch "tar-spec" (Printf.sprintf "%s a first block that does not satisfy tar_header_ok: %s" (if kind = "writer" then "archive/tar produced" else "re-encoding the checksum field in another conforming layout gave") (hex_of_bytes blk));
    if (not is_tar) && not earlier then
      propfail "C18" (Printf.sprintf "archive written by archive/tar%s not reported as application/x-tar (result %s) gpkg-name=%b first-block=%s" (if kind = "layout" then " (checksum field re-encoded in another conforming layout)" else "") chain (gpkg_name blk) (hex_of_bytes blk))
  end else if kind = "corrupt" then begin
    if is_tar then propfail "C18" (Printf.sprintf "first header block with one corrupted byte outside the checksum field still reported as tar: first-block=%s" (hex_of_bytes blk))
  end

(* ---- zip (C19) ---- *)
(* c19 <names hex,..> <footprints> <first body hex|deflated> <chain> <kind> <head of archive> *)
let ch_c19 namesf footf firstf chain kind _ahead k5s =
  let names = List.map bytes_of_hex (String.split_on_char ',' namesf) in
  let foot = List.map int_of_string (String.split_on_char ',' footf) in
  let first_body = if firstf = "deflated" then None else Some (bytes_of_hex firstf) in
  let els = split_on ';' chain in
  let head_full = match els with h :: _ -> h | [] -> "" in
  let head = bytes_of_string (match String.index_opt head_full '|' with Some i -> String.sub head_full 0 i | None -> head_full) in
  let names_s = String.concat "," (List.map string_of_bytes names) in
  (* K2: an entry (other than the first) of footprint < 26 bytes before the first OOXML marker hides the next header *)
  let rec k2 i = function
    | [] -> false
    | n :: rest ->
      let is_marker = List.exists (fun p -> has_prefix (bytes_of_string p) n) ["word/"; "xl/"; "ppt/"] in
      if i > 0 && is_marker then false
      else if i > 0 && (try List.nth foot i < 26 with _ -> false) then true
      else k2 (i + 1) rest in
  let k2f = k2 0 names in
  let k3f = has_apk_marker names in
  (* K5: an entry name that is a proper prefix of a marker (OOXML, JAR or APK) is continued by the bytes that follow it
     in the archive (extra field / body), so that the raw bytes at the name offset spell the marker: the harness decides
     this on the archive itself and passes the flag *)
  let k5f = (k5s = "1") in
  let fw = c19_forward names first_body head in
  if fw <> [] then propfail "C19" (Printf.sprintf "%s: names=[%s] footprints=[%s] result=%s short-entry-before-marker=%b apk-marker-present=%b name-plus-body-match=%b kind=%s" (string_of_bytes fw) names_s footf chain k2f k3f k5f kind);
  let cv = c19_converse names first_body head in
  if cv <> [] then propfail "C19" (Printf.sprintf "%s: names=[%s] result=%s name-plus-body-match=%b kind=%s" (string_of_bytes cv) names_s chain k5f kind);
  (* (when the converse clause already reported this archive - an OOXML / JAR / APK verdict without its marker -
     the same fact is not reported a second time under the weaker "stays plain zip" clause) *)
  if cv = [] && no_marker names && head_full <> "application/zip|.zip" then
    propfail "C19" (Printf.sprintf "archive without any marker not reported as plain application/zip: names=[%s] result=%s" names_s chain);
  (* every OOXML / JAR / APK verdict has application/zip as its parent *)
  let special = List.mem (string_of_bytes head) ["application/jar"; "application/vnd.android.package-archive"] ||
                (String.length (string_of_bytes head) > 40 && String.sub (string_of_bytes head) 0 40 = "application/vnd.openxmlformats-officedocu") in
  if special then (match els with _ :: p :: _ when p = "application/zip|.zip" -> () | _ -> propfail "C19" (Printf.sprintf "verdict %s does not have application/zip as its parent: %s" head_full chain))

(* ---- reader (C05) ---- *)
let parse_script (t : ostr) : step list =
  if t = "-" then [] else
  List.map (fun p ->
    if p.[0] = 'f' then Fail (nat_of_int (int_of_string (String.sub p 1 (String.length p - 1))))
    else Chunk (nat_of_int (int_of_string (String.sub p 1 (String.length p - 2))), p.[String.length p - 1] = 'e')) (String.split_on_char ',' t)
let rec script_no_fail = function [] -> true | Fail _ :: _ -> false | _ :: l -> script_no_fail l
(* bytes a failure-free prefix of the script delivers before the first Fail, given unlimited room *)
(* rd <x> <limit> <script> <spy header|NONE> <spy limit> <delivered> <err> <chain> <detect chain> <kind> *)
let ch_rd xh lim sc spyh spyl deliv err chain dchain kind =
  let x = bytes_of_hex xh in
  let l = n_of_int (int_of_string lim) in
  let script = parse_script sc in
  let rd0 = { rem = x; script = script } in
  let ((mh, me), r') = detect_reader_read l rd0 in
  let m_hdr = match mh with Some h -> hex_of_bytes h | None -> "NONE" in
  let m_err = match me with RNil -> "nil" | REOF -> "EOF" | RUnexpectedEOF -> "UEOF" | RErr e -> "E" ^ string_of_int (int_of_nat e) in
  let m_cons = int_of_nat (reader_consumed rd0 r') in
  if m_hdr <> spyh then mismatch "reader" (Printf.sprintf "header passed to match: model=%s obs=%s input=%s limit=%s script=%s" m_hdr spyh xh lim sc);
  if m_err <> err then mismatch "reader" (Printf.sprintf "error: model=%s obs=%s input=%s limit=%s script=%s" m_err err xh lim sc);
  if string_of_int m_cons <> deliv then mismatch "reader" (Printf.sprintf "bytes consumed: model=%d obs=%s input=%s limit=%s script=%s" m_cons deliv xh lim sc);
  (* the property, judged on the implementation *)
  let li = int_of_string lim in
  let dv = int_of_string deliv in
  let desc = Printf.sprintf "input=%s limit=%s script=%s kind=%s" xh lim sc kind in
  if li > 0 && dv > li then propfail "C05" (Printf.sprintf "DetectReader consumed %d bytes, more than the limit: %s" dv desc);
  if script_no_fail script then begin
    if err <> "nil" then propfail "C05" (Printf.sprintf "conforming reader, yet an error is reported (%s): %s" err desc);
    if chain <> dchain then propfail "C05" (Printf.sprintf "DetectReader reports %s but Detect on the same bytes reports %s: %s" chain dchain desc);
    if spyh <> hex_of_bytes (hdr l x) then propfail "C05" (Printf.sprintf "the header handed to the tree walk (%s) is not the first `limit` bytes of the input: %s" spyh desc);
    if spyl <> lim then propfail "C05" (Printf.sprintf "the limit handed to the tree walk (%s) differs: %s" spyl desc);
    if li = 0 && dv <> List.length x then propfail "C05" (Printf.sprintf "limit 0 but only %d bytes consumed: %s" dv desc)
  end else begin
    (* bytes delivered before the failure *)
    let hl = if li > 0 && li < List.length x then li else (if li > 0 then List.length x + 1 else max_int) in
    if dv < hl && err <> "nil" || (dv < hl && not (script_no_fail script)) then begin
      (* the failure hit before the header was complete (model says whether the Fail step was reached) *)
      match me with
      | RErr e ->
        if err <> "E" ^ string_of_int (int_of_nat e) || chain <> "application/octet-stream|" then
          propfail "C05" (Printf.sprintf "read error before the header was complete must yield application/octet-stream and that error; got %s / %s: %s" chain err desc)
      | _ -> ()
    end
  end

(* ---- Extend histories (C14) ---- *)
type xnode = { x_mime : ostr; x_ext : ostr; x_aliases : ostr list; x_parent : int }
let base_nodes : (int, xnode) Hashtbl.t = Hashtbl.create 256
let () = List.iter (fun nd -> Hashtbl.replace base_nodes (int_of_nat nd.n_id)
    { x_mime = string_of_bytes nd.n_mime; x_ext = string_of_bytes nd.n_ext; x_aliases = List.map string_of_bytes nd.n_aliases;
      x_parent = (match nd.n_parent with Some p -> int_of_nat p | None -> -1) }) nodes
let dec_hex_str h = if h = "-" then "" else string_of_bytes (bytes_of_hex h)
let hist_cache : (ostr * (tree * (int, xnode) Hashtbl.t * int list) list) option ref = ref None
(* the model states after 1, 2, ... ops of a history *)
let model_history (hist : ostr) =
  match !hist_cache with
  | Some (h, st) when h = hist -> st
  | _ ->
    let tbl = Hashtbl.copy base_nodes in
    let tree = ref tree0 in
    let next = ref (Hashtbl.length base_nodes) in
    let ext_ids = ref [] in
    let states = ref [] in
    List.iter (fun op ->
      match String.split_on_char '/' op with
      | [ph; mh; eh; ah; _pred] ->
        let parent = dec_hex_str ph in
        if String.length parent > 0 && (parent.[0] = '@' || parent.[0] = '^') then
          (* Extend on a detection result (a copy): nothing is registered, the tree stays as it is *)
          states := (!tree, Hashtbl.copy tbl, !ext_ids) :: !states
        else
        let names id = let nd = Hashtbl.find tbl (int_of_nat id) in List.map bytes_of_string (nd.x_aliases @ [nd.x_mime]) in
        let pid = if parent = "" then 0 else (match lookup names (bytes_of_string parent) !tree with Some i -> int_of_nat i | None -> -1) in
        if pid < 0 then states := (!tree, Hashtbl.copy tbl, !ext_ids) :: !states else   (* unknown parent: the harness reports it *)
        let id = !next in
        incr next;
        let al = let a = dec_hex_str ah in if a = "" then [] else String.split_on_char ',' a in
        Hashtbl.replace tbl id { x_mime = dec_hex_str mh; x_ext = dec_hex_str eh; x_aliases = al; x_parent = pid };
        tree := insert_first (nat_of_int pid) (nat_of_int id) !tree;
        ext_ids := id :: !ext_ids;
        states := (!tree, Hashtbl.copy tbl, !ext_ids) :: !states
      | _ -> ()) (String.split_on_char '+' hist);
    let st = List.rev !states in
    hist_cache := Some (hist, st);
    st
let canon_model tree tbl =
  let rec go (T (id, cs)) = let nd = Hashtbl.find tbl (int_of_nat id) in
    Printf.sprintf "%s|%s|%d" nd.x_mime nd.x_ext (List.length cs) :: List.concat_map go cs in
  String.concat ";" (go tree)
let canon_dump (d : ostr) =
  String.concat ";" (List.map (fun part -> match String.split_on_char '|' part with
    | [m; e; _p; cs] -> Printf.sprintf "%s|%s|%d" (dec_hex_str m) (dec_hex_str e) (if cs = "" then 0 else List.length (String.split_on_char '.' cs))
    | _ -> "?") (String.split_on_char ';' d))
let parents_ok (d : ostr) =
  (* every child's recorded parent index is the node that lists it *)
  let parts = Array.of_list (String.split_on_char ';' d) in
  let ok = ref true in
  Array.iteri (fun i part -> match String.split_on_char '|' part with
    | [_; _; _; cs] when cs <> "" ->
      List.iter (fun c -> let ci = int_of_string c in
        (match String.split_on_char '|' parts.(ci) with [_; _; p; _] -> if int_of_string p <> i then ok := false | _ -> ok := false)) (String.split_on_char '.' cs)
    | _ -> ()) parts;
  !ok
let ch_ext hist k dump =
  let st = model_history hist in
  let (tree, tbl, _) = List.nth st (int_of_string k - 1) in
  let m = canon_model tree tbl and o = canon_dump dump in
  if m <> o then propfail "C14" (Printf.sprintf "tree after Extend #%s differs from `the extension sits immediately in front of the siblings that existed`: model=%s impl=%s history=%s" k m o hist);
  if not (parents_ok dump) then propfail "C14" (Printf.sprintf "parent pointers disagree with children lists after Extend #%s: history=%s" k hist)
let ch_extp hist hex lim vec chain before =
  let st = model_history hist in
  let (tree, tbl, ext_ids) = List.nth st (List.length st - 1) in
  let ids = List.map int_of_nat (flatten tree) in
  let verdict = Hashtbl.create 256 in
  List.iteri (fun i id -> if i < String.length vec then Hashtbl.replace verdict id vec.[i]) ids;
  let acc id = (try Hashtbl.find verdict (int_of_nat id) = '1' with Not_found -> false) in
  let path = List.rev (walk acc tree) in
  let m = String.concat ";" (List.map (fun id -> let nd = Hashtbl.find tbl (int_of_nat id) in nd.x_mime ^ "|" ^ nd.x_ext) path) in
  if m <> chain then propfail (if !prop_mode = "C03" then "C03" else "C14") (Printf.sprintf "after the Extend calls Detect is not the first-match walk over the enlarged tree: expected %s got %s input=%s limit=%s history=%s" m chain hex lim hist);
  let any_ext = List.exists (fun id -> (try Hashtbl.find verdict id = '1' with Not_found -> false)) ext_ids in
  if (not any_ext) && chain <> before then
    propfail "C14" (Printf.sprintf "input rejected by every extension detector is classified differently after the Extend calls: before=%s after=%s input=%s limit=%s history=%s" before chain hex lim hist)
let ch_extl hist nameh goth =
  let st = model_history hist in
  let (tree, tbl, _) = List.nth st (List.length st - 1) in
  let name = dec_hex_str nameh in
  let names id = let nd = Hashtbl.find tbl (int_of_nat id) in List.map bytes_of_string (nd.x_aliases @ [nd.x_mime]) in
  let expected = match lookup names (bytes_of_string name) tree with
    | Some id -> let nd = Hashtbl.find tbl (int_of_nat id) in
      let par = if nd.x_parent < 0 then "-" else (Hashtbl.find tbl nd.x_parent).x_mime in
      nd.x_mime ^ "|" ^ nd.x_ext ^ "|" ^ par ^ "|true"
    | None -> "NIL" in
  let got = dec_hex_str goth in
  if got <> expected then propfail "C14" (Printf.sprintf "Lookup(%S) after the Extend calls: expected %s got %s history=%s" name expected got hist)

(* ---- line-oriented formats (C13) ---- *)
let comma = n_of_int 44 and tab = n_of_int 9
(* c13 <hex hdr> <limit> <Csv Tsv NdJSON verdicts> <head type> <kind> <end of line 2> *)
let ch_c13 hex lim dets head kind end2s =
  let raw = bytes_of_hex hex in
  let l = n_of_int (int_of_string lim) in
  let cmp name sepc i = match sv_model sepc raw l with
    | Some m -> if m <> (dets.[i] = '1') then mismatch "csv" (Printf.sprintf "%s model=%b obs=%c limit=%s input=%s (%S)" name m dets.[i] lim hex (string_of_bytes raw))
    | None -> () in
  cmp "Csv" comma 0; cmp "Tsv" tab 1;
  let mn = ndjson maxrec tokens true raw l in
  if mn <> (dets.[2] = '1') then mismatch "ndjson" (Printf.sprintf "model=%b obs=%c limit=%s input=%s (%S)" mn dets.[2] lim hex (string_of_bytes raw));
  let desc = Printf.sprintf "limit=%s header=%s (%S) kind=%s" lim hex (string_of_bytes raw) kind in
  let fam = if String.length kind >= 3 then String.sub kind 0 3 else kind in
  let expected = if fam = "csv" then "text/csv" else if fam = "tsv" then "text/tab-separated-values" else "application/x-ndjson" in
  let suffix = (match String.index_opt kind '-' with Some i -> String.sub kind (i + 1) (String.length kind - i - 1) | None -> "") in
  let li = int_of_string lim in
  let end2 = int_of_string end2s in
  (* forward: cut anywhere after the second complete line (or examined whole) keeps the type *)
  if (suffix = "whole" || (suffix = "cut" && li >= end2) || suffix = "comment") && head <> expected then
    propfail "C13" (Printf.sprintf "well-formed %s table/stream not reported as %s (got %s): %s" fam expected head desc);
  (* converse *)
  if suffix = "damaged" && head = expected then
    propfail "C13" (Printf.sprintf "%s reported although a complete line is damaged: %s" expected desc);
  if suffix = "one-line" && (head = "text/csv" || head = "text/tab-separated-values" || head = "application/x-ndjson") then
    propfail "C13" (Printf.sprintf "%s reported for a single line: %s" head desc);
  (* converse on the examined header itself, quote-free inputs: equal field counts >= 2, >= 2 records *)
  let judge sepc name = if head = name then (match sv_model sepc raw l with Some false -> propfail "C13" (Printf.sprintf "%s reported but the complete non-comment lines do not all have the same number (>= 2) of fields: %s" name desc) | _ -> ()) in
  judge comma "text/csv"; judge tab "text/tab-separated-values"

(* ---- results (C02) and equality helpers (C15) ---- *)
let regs = List.map (fun nd -> (nd.n_mime, nd.n_ext)) nodes
let parse_params (t : ostr) = if t = "-" then [] else
  List.map (fun kv -> match String.split_on_char '=' kv with [k; v] -> (bytes_of_hex (if k = "" then "-" else k), bytes_of_hex (if v = "" then "-" else v)) | _ -> ([], [])) (String.split_on_char ';' t)
(* c02 <elem,elem,...> <err|noerr> <input> ; elem = string/ext/ok|err/type/params *)
let ch_c02 res tag inp =
  let elems = List.filter_map (fun e -> match String.split_on_char '/' e with
    | [s; x; ok; t; ps] -> Some { r_string = bytes_of_hex s; r_ext = bytes_of_hex x; r_parse_ok = (ok = "ok"); r_type = bytes_of_hex t; r_params = parse_params ps }
    | _ -> None) (String.split_on_char ',' res) in
  if List.length elems <> List.length (String.split_on_char ',' res) then propfail "C02" (Printf.sprintf "Parent() chain does not terminate (cycle): input=%s" inp)
  else begin
    let why = c02_judge regs elems (tag = "err") in
    if why <> [] then propfail "C02" (Printf.sprintf "%s: result=%S chain=[%s] input=%s" (string_of_bytes why)
        (match elems with h :: _ -> string_of_bytes h.r_string | [] -> "")
        (String.concat " <- " (List.map (fun e -> string_of_bytes e.r_string ^ "|" ^ string_of_bytes e.r_ext) elems)) inp)
  end
(* is <node id> <s> <norm(s) per mime.ParseMediaType> <obs> <kind> *)
let ch_is ids sh normh obs kind =
  let nd = node_arr.(int_of_string ids) in
  let m = is_model nd.n_mime nd.n_aliases (bytes_of_hex normh) in
  if string_of_bool m <> obs then
    propfail "C15" (Printf.sprintf "(%s).Is(%S): expected %b (normalised argument %S vs type and aliases) got %s [%s]" (string_of_bytes nd.n_mime) (string_of_bytes (bytes_of_hex sh)) m (string_of_bytes (bytes_of_hex normh)) obs kind)

(* c10 <hex hdr> <limit> <mime|ext of the result> <kind> *)
let json_family_heads = ["application/json|.json"; "application/geo+json|.geojson"; "application/json|.har"; "model/gltf+json|.gltf"]
let ch_c10 hex lim head kind =
  let raw = bytes_of_hex hex in
  let (m, e) = subtype_spec raw in
  let expected = string_of_bytes m ^ "|" ^ string_of_bytes e in
  if List.mem head json_family_heads then begin
    if head <> expected then
      propfail "C10" (Printf.sprintf "JSON object reported as %s but its top-level members call for %s: limit=%s input=%s (%S) kind=%s" head expected lim hex (string_of_bytes raw) kind)
  end else if kind = "whole" then begin
    propfail "C08" (Printf.sprintf "well-formed JSON object not reported in the JSON family (%s): limit=%s input=%s (%S)" head lim hex (string_of_bytes raw));
    (* ... and when its members call for a sub-type, that sub-type is what C10 promises *)
    if expected <> "application/json|.json" then
      propfail "C10" (Printf.sprintf "JSON object whose top-level members call for %s reported as %s: limit=%s input=%s (%S) kind=%s" expected head lim hex (string_of_bytes raw) kind)
  end

let () =
  if Array.length Sys.argv > 1 then prop_mode := Sys.argv.(1);
  if !prop_mode = "C07" then obs_hooks := [c07_hook];
  (try
    while true do
      let line = input_line stdin in
      incr lineno;
      (match split_tab line with
       | ["det"; hex; lim; obs] -> ch_det hex lim obs
       | ["obs"; hex; lim; obs; chain; _kind] -> ch_obs hex lim obs chain
       | ["c17"; hex; classes] -> ch_c17 hex classes
       | ["c10"; hex; lim; head; kind] -> ch_c10 hex lim head kind
       | ["c18"; hex; vec; chain; kind] -> ch_c18 hex vec chain kind
       | ["c02"; res; tag; inp] -> ch_c02 res tag inp
       | ["is"; id; s; nm; ob; k] -> ch_is id s nm ob k
       | ["c13"; hex; lim; dets; head; kind; e2] -> ch_c13 hex lim dets head kind e2
       | ["ext"; h; k; d] -> ch_ext h k d
       | ["extp"; h; x; l; v; ch; bf] -> ch_extp h x l v ch bf
       | ["extl"; h; n; g] -> ch_extl h n g
       | ["extdone"; _] -> ()
       | ["rd"; x; l; sc; sh; sl; dv; er; ch; dch; k] -> ch_rd x l sc sh sl dv er ch dch k
       | ["c19"; n; f; fb; chain; kind; ah; k5] -> ch_c19 n f fb chain kind ah k5
       | ["c12h"; d; t; o; ty; cs; l; k] -> ch_c12h d t o ty cs l k
       | ["c12x"; d; o; ty; cs; l; k] -> ch_c12x d o ty cs l k
       | ["c12f"; s; m; x] -> ch_c12f s m x
       | ["c11"; hex; obs; src] -> ch_c11 hex obs src
       | ["c11x"; al; pre; k; codes] -> ch_c11x al pre k codes
       | ["jexh"; al; pre; k; bits] -> ch_jexh al pre k bits
       | ["jdepth"; hex; lim; obs; desc] -> ch_jdepth hex lim obs desc
       | ["jdeep"; hex; lim; obs; desc; kind] -> ch_jdeep hex lim obs desc kind
       | ["json"; hex; lim; obs; dets; kind] -> ch_json hex lim obs dets kind
       | "!propfail" :: p :: rest -> propfail p (String.concat " " rest)
       | ["walk"; obs; chain] -> ignore (ch_walk obs chain)
       | ch :: rest ->
          (match List.assoc_opt ch !extra_channels with
           | Some f -> f rest
           | None -> mismatch "driver" ("unknown channel " ^ ch))
       | [] -> ())
    done
  with End_of_file -> ());
  Printf.printf "DONE lines=%d mismatches=%d propfails=%d\n" !lineno !mismatches !propfails
