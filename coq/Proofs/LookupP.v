(* C14 / C15: Lookup is "the first node in flatten() order that carries the name"; after Extend the new node sits
   right behind its parent in that order, so a fresh name resolves to the extension and every other name resolves
   as before. *)
From Coq Require Import Lia.
From Verif Require Import Base.Bytes Model.Types Model.Tree Proofs.BytesP Proofs.TreeP.
Local Open Scope nat_scope.

Lemma nodup_app_inv {A} (a b' : list A) : NoDup (a ++ b') -> NoDup a /\ NoDup b' /\ (forall x, In x a -> In x b' -> False).
Proof.
  induction a as [|x a IH]; cbn; intros H; [repeat split; [constructor|exact H|tauto]|].
  inversion H as [|? ? Hx Hr]; subst. destruct (IH Hr) as (Ha & Hb & Hd). repeat split.
  - constructor; [intros Hin; apply Hx, in_or_app; left; exact Hin|exact Ha].
  - exact Hb.
  - intros y [->|Hy] Hyb; [apply Hx, in_or_app; right; exact Hyb|exact (Hd y Hy Hyb)].
Qed.

Section LookupP.
  Variable names : nat -> list bytes.
  Definition has_name (name : bytes) (n : nat) : bool := existsb (beq name) (names n).

  Fixpoint lookup_list (name : bytes) (l : list tree) : option nat :=
    match l with [] => None | c :: l' => match lookup names name c with Some r => Some r | None => lookup_list name l' end end.
  Lemma lookup_eq name n cs : lookup names name (T n cs) = if has_name name n then Some n else lookup_list name cs.
  Proof. cbn [lookup]. unfold has_name. destruct (existsb (beq name) (names n)); [reflexivity|]. induction cs as [|c l IH]; [reflexivity|]. cbn [lookup_list]. destruct (lookup names name c); [reflexivity|exact IH]. Qed.

  Lemma find_app {A} (f : A -> bool) l1 l2 : find f (l1 ++ l2) = match find f l1 with Some x => Some x | None => find f l2 end.
  Proof. induction l1 as [|a l IH]; [reflexivity|]. cbn. destruct (f a); [reflexivity|exact IH]. Qed.

  (* Lookup = first node in flatten order carrying the name *)
  Theorem lookup_is_first name : forall t, lookup names name t = find (has_name name) (flatten t).
  Proof.
    induction t as [n cs IH] using tree_ind'. rewrite lookup_eq. cbn [flatten find].
    destruct (has_name name n); [reflexivity|].
    induction cs as [|c l IHl]; [reflexivity|]. inversion IH as [|? ? Hc Hl]; subst.
    cbn [lookup_list flat_map]. rewrite find_app, <- Hc. destruct (lookup names name c); [reflexivity|]. apply IHl, Hl.
  Qed.

  (* flatten order after Extend: the new node directly follows its parent *)
  Lemma flatten_insert p k : forall t, ~ In p (flatten t) -> flatten (insert_first p k t) = flatten t.
  Proof.
    induction t as [n cs IH] using tree_ind'. intros Hn. cbn [insert_first flatten] in *.
    destruct (Nat.eqb_spec n p) as [->|Hne]; [exfalso; apply Hn; left; reflexivity|].
    cbn [flatten]. f_equal. induction cs as [|c l IHl]; [reflexivity|]. inversion IH as [|? ? Hc Hl]; subst.
    cbn [map flat_map]. rewrite Hc, IHl; [reflexivity|exact Hl| |].
    - intros [H|H]; [congruence|]. apply Hn. right. cbn [flat_map]. apply in_or_app. right. exact H.
    - intros H. apply Hn. right. cbn [flat_map]. apply in_or_app. left. exact H.
  Qed.

  Theorem flatten_insert_at p k : forall t, NoDup (flatten t) -> In p (flatten t) ->
    exists pre post, flatten t = pre ++ p :: post /\ flatten (insert_first p k t) = pre ++ p :: k :: post.
  Proof.
    induction t as [n cs IH] using tree_ind'. intros Hnd Hin. cbn [flatten] in Hnd, Hin. inversion Hnd as [|? ? Hnn Hnd']; subst.
    cbn [insert_first]. destruct (Nat.eqb_spec n p) as [->|Hne].
    - exists [], (flat_map flatten cs). split; [reflexivity|]. cbn [flatten app flat_map]. f_equal. f_equal.
      (* p does not occur below itself: the children are unchanged *)
      clear IH Hin Hnd. induction cs as [|c l IHl]; [reflexivity|]. cbn [map flat_map] in *.
      rewrite flatten_insert by (intros H; apply Hnn, in_or_app; left; exact H).
      rewrite IHl; [reflexivity| |].
      + intros H. apply Hnn, in_or_app. right. exact H.
      + apply nodup_app_inv in Hnd' as (_ & H & _). exact H.
    - destruct Hin as [Hin|Hin]; [congruence|].
      assert (Hgen : forall l, Forall (fun c => NoDup (flatten c) -> In p (flatten c) -> exists pre post, flatten c = pre ++ p :: post /\ flatten (insert_first p k c) = pre ++ p :: k :: post) l ->
                NoDup (flat_map flatten l) -> In p (flat_map flatten l) ->
                exists pre post, flat_map flatten l = pre ++ p :: post /\ flat_map flatten (map (insert_first p k) l) = pre ++ p :: k :: post).
      { clear. induction l as [|c l IHl]; intros Hall Hnd Hin; [destruct Hin|]. inversion Hall as [|? ? Hc Hl]; subst.
        cbn [flat_map map] in *. apply in_app_or in Hin as [Hin|Hin].
        - destruct (nodup_app_inv _ _ Hnd) as (Hndc & Hndl & Hdis). destruct (Hc Hndc Hin) as (pre & post & E1 & E2).
          exists pre, (post ++ flat_map flatten l). rewrite E1, E2. rewrite <- !app_assoc. cbn [app]. split; [reflexivity|].
          f_equal. f_equal. f_equal. f_equal.
          assert (Hnot : forall l0, (forall x, In x (flat_map flatten l0) -> x <> p) -> flat_map flatten (map (insert_first p k) l0) = flat_map flatten l0).
          { induction l0 as [|c0 l0 IH0]; intros Hx; [reflexivity|]. cbn [map flat_map]. rewrite flatten_insert.
            - rewrite IH0; [reflexivity|]. intros x Hx'. apply Hx. cbn [flat_map]. apply in_or_app. right. exact Hx'.
            - intros H. apply (Hx p); [cbn [flat_map]; apply in_or_app; left; exact H|reflexivity]. }
          apply Hnot. intros x Hx ->. apply (Hdis p); [rewrite E1; apply in_or_app; right; left; reflexivity|exact Hx].
        - destruct (nodup_app_inv _ _ Hnd) as (Hndc & Hndl & Hdis). destruct (IHl Hl Hndl Hin) as (pre & post & E1 & E2).
          exists (flatten c ++ pre), post. rewrite E1, E2, <- !app_assoc. split; [reflexivity|].
          f_equal. apply flatten_insert. intros H. apply (Hdis p); [exact H|rewrite E1; apply in_or_app; right; left; reflexivity]. }
      destruct (Hgen cs IH Hnd' Hin) as (pre & post & E1 & E2).
      exists (n :: pre), post. cbn [flatten app]. rewrite E1, E2. split; reflexivity.
  Qed.

  (* a name the extension carries and no older format does: resolves to the extension *)
  Theorem lookup_extension p k name t :
    NoDup (flatten t) -> In p (flatten t) -> has_name name k = true ->
    (forall i, In i (flatten t) -> has_name name i = false) ->
    lookup names name (insert_first p k t) = Some k.
  Proof.
    intros Hnd Hin Hk Hfresh. rewrite lookup_is_first.
    destruct (flatten_insert_at p k t Hnd Hin) as (pre & post & E1 & ->).
    assert (Hpre : find (has_name name) pre = None).
    { clear -E1 Hfresh. assert (H : forall i, In i pre -> has_name name i = false) by (intros i Hi; apply Hfresh; rewrite E1; apply in_or_app; left; exact Hi).
      clear E1 Hfresh. induction pre as [|a l IH]; [reflexivity|]. cbn. rewrite (H a (or_introl eq_refl)). apply IH. intros i Hi. apply H. right. exact Hi. }
    rewrite find_app, Hpre. cbn [find]. rewrite (Hfresh p Hin), Hk. reflexivity.
  Qed.

  (* a name an older format carries too (the same name registered again): the first in flatten order wins, i.e. an
     older format in front of or equal to the parent, else the extension *)
  Theorem lookup_after_extend p k name t :
    NoDup (flatten t) -> In p (flatten t) ->
    exists pre post, flatten t = pre ++ p :: post /\
      lookup names name (insert_first p k t) = find (has_name name) (pre ++ p :: k :: post).
  Proof.
    intros Hnd Hin. destruct (flatten_insert_at p k t Hnd Hin) as (pre & post & E1 & E2).
    exists pre, post. split; [exact E1|]. rewrite lookup_is_first, E2. reflexivity.
  Qed.

  (* a name the extension does not carry resolves exactly as before *)
  Theorem lookup_other_names p k name t :
    NoDup (flatten t) -> In p (flatten t) -> has_name name k = false ->
    lookup names name (insert_first p k t) = lookup names name t.
  Proof.
    intros Hnd Hin Hk. rewrite !lookup_is_first.
    destruct (flatten_insert_at p k t Hnd Hin) as (pre & post & -> & ->).
    rewrite !find_app. destruct (find (has_name name) pre); [reflexivity|]. cbn [find]. rewrite Hk. reflexivity.
  Qed.
End LookupP.
