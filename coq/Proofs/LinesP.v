(* C13: dropLastLine, NDJSON and the quote-free CSV model. *)
From Verif Require Import Base.Bytes Model.Json Model.Lines Spec.JsonGrammar Proofs.JsonAcct Proofs.JsonSound Proofs.BytesP.
Local Open Scope nat_scope.

(* the whole file was provided: nothing is dropped *)
Theorem drop_last_line_whole raw limit :
  (limit = 0 \/ N.of_nat (length raw) < limit)%N -> (N.of_nat (length raw) < 4294967296)%N -> drop_last_line raw limit = raw.
Proof.
  intros H Hs. unfold drop_last_line. rewrite N.mod_small by exact Hs.
  destruct H as [->|H]; [reflexivity|]. destruct (N.eqb_spec limit 0); [reflexivity|].
  destruct (N.ltb_spec (N.of_nat (length raw)) limit); [reflexivity|lia].
Qed.

Lemma last_nl_from_spec : forall l i acc j, last_nl_from l i acc = Some j ->
  acc = Some j \/ (i <= j < i + length l /\ j <> 0 /\ nth (j - i) l 0%N = 10%N).
Proof.
  induction l as [|c l IH]; intros i acc j H; cbn [last_nl_from] in H; [left; exact H|].
  apply IH in H as [H|(H1 & H2 & H3)].
  - destruct ((c =? 10)%N && negb (i =? 0)) eqn:E; [|left; exact H].
    inversion H; subst. apply andb_true_iff in E as [E1 E2]. apply N.eqb_eq in E1. apply negb_true_iff, Nat.eqb_neq in E2.
    right. cbn [length]. repeat split; try lia. rewrite Nat.sub_diag. exact E1.
  - right. cbn [length]. repeat split; try lia. replace (j - i) with (S (j - S i)) by lia. exact H3.
Qed.

(* a part of the file was provided: the result is a prefix of the input that ends just before a newline *)
Theorem drop_last_line_cut raw limit :
  exists i, drop_last_line raw limit = firstn i raw /\ (i = length raw \/ (0 < i < length raw /\ nth i raw 0%N = 10%N)).
Proof.
  unfold drop_last_line. destruct (_ || _); [exists (length raw); split; [symmetry; apply firstn_all|left; reflexivity]|].
  destruct (last_nl_from raw 0 None) as [j|] eqn:E; [|exists (length raw); split; [symmetry; apply firstn_all|left; reflexivity]].
  apply last_nl_from_spec in E as [E|(H1 & H2 & H3)]; [discriminate|].
  exists j. split; [reflexivity|]. right. rewrite Nat.sub_0_r in H3. split; [lia|exact H3].
Qed.

Section NdP.
  Variable maxrec : nat.
  Variable tk : N * N * N * N * N * N * N.

  (* acceptance of one line by the repaired NdJSON: parsed in full, or blank *)
  Definition line_ok (l : list N) : Prop :=
    let r := parse maxrec tk [] l in
    p_parsed r = length l \/ (p_ftok r = 0%N /\ p_inspected r = length l).

  Lemma nd_loop_spec : forall ls cnt oa cnt' oa', nd_loop maxrec tk true ls cnt oa = Some (cnt', oa') ->
    Forall line_ok ls /\ cnt' = cnt + length ls /\ oa <= oa' /\
    (oa < oa' -> exists l, In l ls /\ (p_ftok (parse maxrec tk [] l) = tk_arr tk \/ p_ftok (parse maxrec tk [] l) = tk_obj tk)).
  Proof.
    induction ls as [|l ls IH]; intros cnt oa cnt' oa' H; cbn [nd_loop] in H.
    - inversion H; subst. repeat split; auto; lia.
    - destruct (negb _) eqn:E; [discriminate|]. apply negb_false_iff, orb_true_iff in E.
      apply IH in H as (Hall & Hc & Ho & Hex). split; [constructor; [|exact Hall]|].
      + unfold line_ok. destruct E as [E|E]; [left; apply Nat.eqb_eq in E; auto|].
        apply andb_true_iff in E as [E1 E2]. right. apply N.eqb_eq in E1. apply Nat.eqb_eq in E2. auto.
      + cbn [length]. split; [lia|].
        destruct ((p_ftok (parse maxrec tk [] l) =? tk_arr tk)%N || (p_ftok (parse maxrec tk [] l) =? tk_obj tk)%N) eqn:Et.
        * split; [lia|]. intros _. exists l. split; [left; reflexivity|].
          apply orb_true_iff in Et as [Et|Et]; apply N.eqb_eq in Et; auto.
        * split; [lia|]. intros Hlt. destruct (Hex Hlt) as (l' & Hin & Hl'). exists l'. split; [right; exact Hin|exact Hl'].
  Qed.

  (* NDJSON is reported only if there are at least two lines, every complete line is accepted (parsed in
     full or blank) and at least one is an object or an array *)
  Theorem ndjson_only_if raw limit : ndjson maxrec tk true raw limit = true ->
    let ls := scan_lines (drop_last_line raw limit) in
    2 <= length ls /\ Forall line_ok ls /\
    exists l, In l ls /\ (p_ftok (parse maxrec tk [] l) = tk_arr tk \/ p_ftok (parse maxrec tk [] l) = tk_obj tk).
  Proof.
    unfold ndjson. destruct (nd_loop maxrec tk true (scan_lines (drop_last_line raw limit)) 0 0) as [[cnt oa]|] eqn:E; [|discriminate].
    intros H. apply andb_true_iff in H as [H1 H2]. apply Nat.ltb_lt in H1, H2.
    apply nd_loop_spec in E as (Hall & Hc & _ & Hex). cbv zeta. split; [lia|]. split; [exact Hall|]. apply Hex. exact H2.
  Qed.

  (* a line parsed in full is a complete (relaxed) JSON value with optional white space around it *)
  Theorem line_parsed_is_value l : l <> [] -> p_parsed (parse maxrec tk [] l) = length l -> AnyWS l.
  Proof.
    intros Hne. unfold parse. destruct (go maxrec [] tk (fuel_for l) WAny l 0 init_st) as [o s] eqn:Eg. cbn [p_parsed].
    assert (Hlen : 0 < length l) by (destruct l; [congruence|cbn; lia]).
    destruct (complete s); [|lia]. destruct o as [rest|]; [|lia].
    pose proof (go_acct maxrec [] tk (fuel_for l) WAny l 0 init_st) as Ha. rewrite Eg in Ha. destruct Ha as [Hs _]. apply sfx_len in Hs.
    intros H. assert (rest = []) by (destruct rest; [reflexivity|cbn [length] in *; lia]). subst rest.
    apply go_sound in Eg as (x & Hx & HA). rewrite app_nil_r in Hx. subst x. exact HA.
  Qed.
End NdP.

(* CSV / TSV on the quote-free fragment: reported only if there are at least two records and all complete
   non-comment lines have the same number (at least two) of fields *)
Theorem csv_only_if sep inp limit : sv_model sep inp limit = Some true ->
  exists n rest, csv_records sep (drop_last_line inp limit) = n :: rest /\ 2 <= n /\ rest <> [] /\ Forall (eq n) rest.
Proof.
  unfold sv_model. destruct (existsb _ inp); [discriminate|].
  destruct (csv_records sep (drop_last_line inp limit)) as [|n rest]; [discriminate|].
  intros H. inversion H as [H']. apply andb_true_iff in H' as [H1 H3]. apply andb_true_iff in H1 as [H1 H2].
  apply Nat.ltb_lt in H2, H3. exists n, rest. repeat split; [lia|destruct rest; [cbn in H3; lia|discriminate]|].
  apply Forall_forall. intros x Hx. rewrite forallb_forall in H1. apply Nat.eqb_eq, H1, Hx.
Qed.
