(* C09 on the detector: from the scanner lemmas to the acceptance decision of magic.jsonHelper. *)
From Verif Require Import Base.Bytes Model.Json Spec.JsonGrammar Proofs.JsonAcct Proofs.JsonSound Proofs.JsonPartial.
Local Open Scope N_scope.

Lemma RStr_nonempty k : RStr k -> k <> []. Proof. destruct 1; discriminate. Qed.

(* a value never starts with a JSON space *)
Lemma RVal_head v : RVal v -> exists h t, v = h :: t /\ is_space h = false.
Proof.
  destruct 1 as [body _|x (sg & i & dot & f & e & -> & Hsg & Hi & Hdot & Hf & Hne & _)| | | |t _|t _];
    try (eexists _, _; split; [reflexivity|reflexivity]).
  assert (Hd : forall d t, Digits (d :: t) -> is_space d = false).
  { intros d t Hd. inversion Hd as [|? ? Hx _]; subst. unfold is_digit in Hx. apply andb_true_iff in Hx as [H1 H2].
    apply N.leb_le in H1, H2. unfold is_space.
    repeat match goal with |- context [(d =? ?k)] => destruct (N.eqb_spec d k); [lia|] end. reflexivity. }
  destruct Hsg as [->| ->]; [|eexists _, _; split; [reflexivity|reflexivity]]. cbn [app].
  destruct i as [|d i]; [|eexists _, _; split; [reflexivity|eapply Hd; eauto]]. cbn [app] in *.
  destruct Hdot as [->| ->]; [|eexists _, _; split; [reflexivity|reflexivity]]. cbn [app] in *.
  destruct f as [|d f]; [congruence|]. eexists _, _; split; [reflexivity|eapply Hd; eauto].
Qed.

Lemma ws_split_unique w v rest ws c tail :
  w ++ v ++ rest = ws ++ c :: tail -> WS w -> WS ws -> is_space c = false ->
  (exists h t, v = h :: t /\ is_space h = false) -> exists t, v = c :: t.
Proof.
  intros E HW HWS Hc (h & t & -> & Hh). revert ws E HWS.
  induction HW as [|x w Hx _ IH]; intros ws E HWS.
  - destruct ws as [|y ws]; cbn in E; inversion E; subst; [eexists; reflexivity|].
    inversion HWS; subst. congruence.
  - destruct ws as [|y ws]; cbn in E; inversion E; subst; [congruence|].
    inversion HWS; subst. eapply IH; eauto.
Qed.

Lemma skip_space_head raw c tail : skip_space raw = c :: tail -> is_space c = false.
Proof.
  induction raw as [|x raw IH]; cbn [skip_space]; [discriminate|].
  destruct (is_space x) eqn:Ex; [auto|]. intros E; inversion E; subst; exact Ex.
Qed.

Lemma looks_like_split raw : looks_like_obj_or_arr raw = true ->
  exists ws c tail, raw = ws ++ c :: tail /\ WS ws /\ is_space c = false /\ (c = 123 \/ c = 91).
Proof.
  unfold looks_like_obj_or_arr. destruct (skip_space_split raw) as (ws & Hw & HW).
  destruct (skip_space raw) as [|c tail] eqn:E; [discriminate|]. intros H.
  exists ws, c, tail. repeat split; auto; [eapply skip_space_head; eauto|].
  apply orb_true_iff in H as [H|H]; apply N.eqb_eq in H; auto.
Qed.

Lemma doc_of_anyws raw ext : looks_like_obj_or_arr raw = true -> AnyWS (raw ++ ext) -> RDoc (raw ++ ext).
Proof.
  intros Hl (w & v & w2 & E & HW & HV & HW2).
  destruct (looks_like_split _ Hl) as (ws & c & tail & Hr & HWS & Hc & Hb).
  assert (Hv : exists t, v = c :: t).
  { eapply (ws_split_unique w v w2 ws c (tail ++ ext)); eauto using RVal_head. rewrite <- E, Hr, <- app_assoc. reflexivity. }
  destruct Hv as (t & ->). exists w, (c :: t), w2; repeat split; auto.
  exists t. destruct Hb as [->| ->]; auto.
Qed.

Lemma looks_like_nonempty raw : looks_like_obj_or_arr raw = true -> raw <> [].
Proof. intros H ->. discriminate. Qed.

Section Top.
  Variable maxrec : nat.
  Variable qs : list query.
  Variable tk : N * N * N * N * N * N * N.
  Variable want : N.

  (* whole mode: the input was examined in full (limit 0, or shorter than the limit) *)
  Theorem json_sound_whole raw limit :
    json_helper maxrec tk qs want raw limit = true -> (limit = 0 \/ N.of_nat (length raw) < limit) -> RDoc raw.
  Proof.
    unfold json_helper. destruct (looks_like_obj_or_arr raw) eqn:El; [|discriminate]. cbn [negb].
    unfold parse.
    destruct (go maxrec qs tk (fuel_for raw) WAny raw 0 init_st) as [o s'] eqn:Eg. cbn [p_qsat p_ftok p_parsed p_inspected].
    destruct (negb (qsat s') || (N.land (ftok s') want =? 0)); [discriminate|].
    intros H Hlim.
    assert (Hm : (limit =? 0) || (N.of_nat (length raw) <? limit) = true).
    { destruct Hlim as [->|Hlt]; [reflexivity|]. apply orb_true_iff. right. apply N.ltb_lt. exact Hlt. }
    rewrite Hm in H. apply Nat.eqb_eq in H.
    pose proof (looks_like_nonempty _ El) as Hne.
    assert (Hlen : (0 < length raw)%nat) by (destruct raw; [congruence|cbn; lia]).
    destruct (complete s'); [|lia].
    destruct o as [rest|]; [|lia].
    pose proof (go_acct maxrec qs tk (fuel_for raw) WAny raw 0%nat init_st) as Ha. rewrite Eg in Ha.
    destruct Ha as [Hsfx _]. apply sfx_len in Hsfx.
    assert (rest = []) by (destruct rest; [reflexivity|cbn [length] in *; lia]). subst rest.
    apply go_sound in Eg as (x & Hx & HA). rewrite app_nil_r in Hx. subst x. cbn [Lang] in HA.
    rewrite <- (app_nil_r raw). apply doc_of_anyws; [exact El|]. rewrite app_nil_r. exact HA.
  Qed.

  (* truncated mode: the input is at least as long as the (non-zero) limit *)
  Theorem json_sound_truncated raw limit :
    json_helper maxrec tk qs want raw limit = true -> limit <> 0 -> limit <= N.of_nat (length raw) ->
    exists ext, RDoc (raw ++ ext).
  Proof.
    unfold json_helper. destruct (looks_like_obj_or_arr raw) eqn:El; [|discriminate]. cbn [negb].
    unfold parse.
    pose proof (go_acct maxrec qs tk (fuel_for raw) WAny raw 0%nat init_st) as Ha.
    destruct (go maxrec qs tk (fuel_for raw) WAny raw 0 init_st) as [o s'] eqn:Eg. cbn [p_qsat p_ftok p_parsed p_inspected].
    destruct (negb (qsat s') || (N.land (ftok s') want =? 0)); [discriminate|].
    intros H Hn Hle.
    assert (Hm : (limit =? 0) || (N.of_nat (length raw) <? limit) = false).
    { apply orb_false_iff. split; [apply N.eqb_neq; exact Hn|apply N.ltb_ge; exact Hle]. }
    rewrite Hm in H. apply andb_true_iff in H as [Hib _]. apply Nat.eqb_eq in Hib.
    destruct o as [r|].
    - destruct Ha as [_ Ha]. cbn in Ha. assert (r = []) by (destruct r; [reflexivity|cbn [length] in Ha; lia]). subst r.
      apply go_sound in Eg as (x & Hx & HA). rewrite app_nil_r in Hx. subst x. cbn [Lang] in HA.
      exists []. apply doc_of_anyws; [exact El|]. rewrite app_nil_r; exact HA.
    - destruct (go_partial maxrec qs tk _ _ _ _ _ _ Eg) as (ext & HA); [cbn; lia|]. exists ext. apply doc_of_anyws; assumption.
  Qed.
End Top.
