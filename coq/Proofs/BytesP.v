(* Lemmas about the byte-string primitives. *)
From Verif Require Import Base.Bytes.
Local Open Scope nat_scope.

Lemma has_prefix_len lit r : has_prefix lit r = true -> length lit <= length r.
Proof.
  revert r; induction lit as [|s l IH]; intros [|x r] H; simpl in *; try lia; try discriminate.
  apply andb_true_iff in H as [_ H]. apply IH in H. lia.
Qed.

Lemma has_prefix_app lit r e : has_prefix lit r = true -> has_prefix lit (r ++ e) = true.
Proof.
  revert r; induction lit as [|s l IH]; intros [|x r] H; simpl in *; try reflexivity; try discriminate.
  apply andb_true_iff in H as [H1 H2]. rewrite H1, (IH _ H2). reflexivity.
Qed.

Lemma has_prefix_app_long lit r e : length lit <= length r -> has_prefix lit (r ++ e) = has_prefix lit r.
Proof.
  revert r; induction lit as [|s l IH]; intros [|x r] H; simpl in *; try reflexivity; try lia.
  rewrite IH by lia. reflexivity.
Qed.

Lemma has_prefix_spec lit r : has_prefix lit r = true <-> exists t, r = lit ++ t.
Proof.
  revert r; induction lit as [|s l IH]; intros r; simpl.
  - split; [intros _; exists r; reflexivity|reflexivity].
  - destruct r as [|x r]; [split; [discriminate|intros [t Ht]; discriminate]|].
    rewrite andb_true_iff, N.eqb_eq, IH. split.
    + intros [-> [t ->]]. exists t; reflexivity.
    + intros [t Ht]. inversion Ht; subst. split; [reflexivity|exists t; reflexivity].
Qed.

Lemma has_prefix_refl_app lit t : has_prefix lit (lit ++ t) = true.
Proof. apply has_prefix_spec. exists t; reflexivity. Qed.

Lemma beq_spec x y : beq x y = true <-> x = y.
Proof.
  revert y; induction x as [|a x IH]; intros [|c y]; simpl; try (split; [discriminate|discriminate]); [tauto|].
  rewrite andb_true_iff, N.eqb_eq, IH. split; [intros [-> ->]; reflexivity|intros H; inversion H; auto].
Qed.
Lemma beq_refl x : beq x x = true. Proof. apply beq_spec; reflexivity. Qed.

Lemma skipn_app_le {A} n (l e : list A) : n <= length l -> skipn n (l ++ e) = skipn n l ++ e.
Proof. intros H. rewrite skipn_app. replace (n - length l) with 0 by lia. reflexivity. Qed.

Lemma firstn_app_le {A} n (l e : list A) : n <= length l -> firstn n (l ++ e) = firstn n l.
Proof. intros H. rewrite firstn_app. replace (n - length l) with 0 by lia. simpl. apply app_nil_r. Qed.

Lemma contains_index_from lit h i : (exists j, index_from lit h i = Some j) <-> contains lit h = true.
Proof.
  unfold contains, index_of. revert i. generalize 0.
  induction h as [|x h IH]; intros k i; simpl.
  - destruct (has_prefix lit []); split; intros H; eauto; try discriminate. destruct H; discriminate.
  - destruct (has_prefix lit (x :: h)); [split; eauto|]. apply IH.
Qed.

Lemma contains_app lit h e : contains lit h = true -> contains lit (h ++ e) = true.
Proof.
  unfold contains, index_of. generalize 0.
  induction h as [|x h IH]; intros k; simpl.
  - destruct (has_prefix lit []) eqn:E; [|discriminate]. intros _.
    destruct lit; [|discriminate]. destruct e; reflexivity.
  - destruct (has_prefix lit (x :: h)) eqn:E.
    + intros _. change (x :: h ++ e) with ((x :: h) ++ e). rewrite has_prefix_app by exact E. reflexivity.
    + intros H. change (x :: h ++ e) with ((x :: h) ++ e).
      destruct (has_prefix lit ((x :: h) ++ e)); [reflexivity|]. apply IH, H.
Qed.

Lemma take_firstn l x : take l x = firstn (N.to_nat l) x.
Proof.
  revert l; induction x as [|c x IH]; intros l; simpl.
  - destruct (N.to_nat l); reflexivity.
  - destruct (N.eqb_spec l 0%N) as [->|Hn]; [reflexivity|].
    replace (N.to_nat l) with (S (N.to_nat (N.pred l))) by lia. simpl. rewrite IH. reflexivity.
Qed.

Lemma take_prefix l x : exists t, x = take l x ++ t.
Proof. rewrite take_firstn. exists (skipn (N.to_nat l) x). symmetry; apply firstn_skipn. Qed.

(* the header at a smaller positive limit is a prefix of the header at a larger (or no) limit *)
Lemma hdr_mono (L L' : N) x : (0 < L)%N -> (L' = 0 \/ L <= L')%N -> exists e, hdr L' x = hdr L x ++ e.
Proof.
  intros HL HL'. unfold hdr. destruct (N.eqb_spec L 0%N); [lia|].
  rewrite !take_firstn.
  destruct (N.eqb_spec L' 0%N).
  - exists (skipn (N.to_nat L) x). symmetry; apply firstn_skipn.
  - destruct HL' as [?|HL']; [lia|].
    exists (firstn (N.to_nat L' - N.to_nat L) (skipn (N.to_nat L) x)).
    rewrite <- (firstn_skipn (N.to_nat L) x) at 1.
    rewrite firstn_app. rewrite firstn_length.
    destruct (Nat.le_gt_cases (N.to_nat L) (length x)) as [Hle|Hgt].
    + rewrite Nat.min_l by lia. rewrite firstn_firstn. rewrite Nat.min_r by lia. reflexivity.
    + rewrite (firstn_all2 (n := N.to_nat L) x) by lia. rewrite firstn_all2 by lia.
      rewrite skipn_all2 by lia. rewrite !firstn_nil. reflexivity.
Qed.
