(* C05: DetectReader over any conforming reader hands match exactly the header Detect would examine,
   never consumes more than the limit, and surfaces read errors. *)
From Verif Require Import Base.Bytes Model.Reader Proofs.BytesP.
Local Open Scope nat_scope.

Definition no_fail (sc : list step) : Prop := Forall (fun s => match s with Fail _ => False | _ => True end) sc.

(* one read of a failure-free reader *)
Lemma read1_ok r room d e r' : no_fail (script r) -> read1 r room = (d, e, r') ->
  rem r = d ++ rem r' /\ length d <= room /\ no_fail (script r') /\
  (e = RNil \/ (e = REOF /\ rem r' = [])) /\
  (length (script r') < length (script r) \/
   (script r = [] /\ script r' = [] /\ (e = REOF \/ (0 < room -> 0 < length d)))).
Proof.
  intros Hn. unfold read1. destruct (script r) as [|[k ewd|x] sc] eqn:Es.
  - destruct (rem r) as [|c rm] eqn:Er.
    + intros H; inversion H; subst. rewrite Er.
      split; [reflexivity|]. split; [cbn; lia|]. split; [rewrite Es; constructor|].
      split; [right; split; reflexivity|]. right. split; [reflexivity|]. split; [exact Es|left; reflexivity].
    + intros H; inversion H; subst. cbn [rem script].
      split; [symmetry; apply firstn_skipn|]. split; [rewrite firstn_length; lia|]. split; [constructor|].
      split; [left; reflexivity|]. right. split; [reflexivity|]. split; [reflexivity|].
      right. intros Hr. rewrite firstn_length. cbn [length]. lia.
  - inversion Hn as [|? ? _ Hn']; subst.
    destruct (rem r) as [|c rm] eqn:Er.
    + intros H; inversion H; subst. cbn [rem script].
      split; [reflexivity|]. split; [cbn; lia|]. split; [exact Hn'|].
      split; [right; split; reflexivity|]. left. cbn; lia.
    + intros H; inversion H; subst. cbn [rem script].
      split; [symmetry; apply firstn_skipn|]. split; [rewrite firstn_length; lia|]. split; [exact Hn'|].
      split; [|left; cbn; lia].
      match goal with |- context [if ?cnd then REOF else RNil] => destruct cnd eqn:E end; [|left; reflexivity].
      right. split; [reflexivity|]. apply andb_true_iff in E as [E _]. apply andb_true_iff in E as [_ E].
      apply Nat.eqb_eq in E. rewrite E. apply (skipn_all (c :: rm)).
  - inversion Hn as [|? ? Hx _]; subst. destruct Hx.
Qed.

(* io.ReadFull over a failure-free reader: exactly the first `size` bytes, or everything at EOF *)
Lemma read_full_ok : forall fuel r size acc x,
  no_fail (script r) -> x = acc ++ rem r -> length acc <= size ->
  length (script r) + length (rem r) + 1 <= fuel ->
  exists got e r', read_full_f fuel r size acc = (got, e, r') /\
    got = firstn size x /\ (e = RNil \/ e = REOF \/ e = RUnexpectedEOF) /\
    x = got ++ rem r' /\ no_fail (script r').
Proof.
  induction fuel as [|f IH]; intros r size acc x Hn Hx Hl Hf; [lia|].
  cbn [read_full_f]. destruct (Nat.leb_spec size (length acc)) as [Hge|Hlt].
  - exists acc, RNil, r. split; [reflexivity|]. split; [|split; [auto|split; [exact Hx|exact Hn]]].
    rewrite Hx. rewrite firstn_app_le by lia. symmetry. apply firstn_all2. lia.
  - destruct (read1 r (size - length acc)) as [[d e] r'] eqn:E1.
    destruct (read1_ok _ _ _ _ _ Hn E1) as (Hr & Hd & Hn' & He & Hprog).
    assert (Hx' : x = (acc ++ d) ++ rem r') by (rewrite <- app_assoc, <- Hr; exact Hx).
    assert (Hl' : length (acc ++ d) <= size) by (rewrite app_length; lia).
    destruct He as [->|[-> Hrem]].
    + (* no error: loop *)
      apply (IH r' size (acc ++ d) x Hn' Hx' Hl').
      destruct Hprog as [Hp|(Hs & Hs' & [Hc|Hp])]; [| discriminate |].
      * rewrite Hr, app_length in Hf. lia.
      * specialize (Hp ltac:(lia)). rewrite Hs in Hf. rewrite Hs'. rewrite Hr, app_length in Hf. cbn [length] in *. lia.
    + (* EOF: everything was delivered *)
      rewrite Hrem, app_nil_r in Hx'.
      destruct (Nat.leb_spec size (length (acc ++ d))) as [Hge|Hlt'].
      * exists (acc ++ d), RNil, r'. split; [reflexivity|]. split; [|split; [auto|split; [rewrite Hrem, app_nil_r; exact Hx'|exact Hn']]].
        rewrite Hx'. symmetry. apply firstn_all2. lia.
      * exists (acc ++ d), (match acc ++ d with [] => REOF | _ => RUnexpectedEOF end), r'.
        split; [reflexivity|]. split; [|split; [destruct (acc ++ d); auto|split; [rewrite Hrem, app_nil_r; exact Hx'|exact Hn']]].
        rewrite Hx'. symmetry. apply firstn_all2. lia.
Qed.

(* io.ReadAll over a failure-free reader: everything *)
Lemma read_all_ok : forall fuel r bufsz acc x,
  no_fail (script r) -> x = acc ++ rem r -> length (script r) + length (rem r) + 1 <= fuel ->
  exists r', read_all_f fuel r bufsz acc = (x, RNil, r') /\ rem r' = [] /\ no_fail (script r').
Proof.
  induction fuel as [|f IH]; intros r bufsz acc x Hn Hx Hf; [lia|].
  cbn [read_all_f]. destruct (read1 r (S bufsz)) as [[d e] r'] eqn:E1.
  destruct (read1_ok _ _ _ _ _ Hn E1) as (Hr & Hd & Hn' & He & Hprog).
  assert (Hx' : x = (acc ++ d) ++ rem r') by (rewrite <- app_assoc, <- Hr; exact Hx).
  destruct He as [->|[-> Hrem]].
  - apply (IH r' bufsz (acc ++ d) x Hn' Hx').
    destruct Hprog as [Hp|(Hs & Hs' & [Hc|Hp])]; [| discriminate |].
    + rewrite Hr, app_length in Hf. lia.
    + specialize (Hp ltac:(lia)). rewrite Hs in Hf. rewrite Hs'. rewrite Hr, app_length in Hf. cbn [length] in *. lia.
  - exists r'. rewrite Hrem, app_nil_r in Hx'. rewrite <- Hx'. split; [reflexivity|]. split; [exact Hrem|exact Hn'].
Qed.

Lemma hdr_as_firstn (limit : N) x : limit <> 0%N ->
  hdr limit x = firstn (N.to_nat (N.min limit (N.of_nat (S (length x))))) x.
Proof.
  intros Hn. unfold hdr. destruct (N.eqb_spec limit 0%N); [congruence|]. rewrite take_firstn.
  destruct (N.le_gt_cases limit (N.of_nat (S (length x)))) as [H|H].
  - rewrite N.min_l by exact H. reflexivity.
  - rewrite N.min_r by lia. rewrite !firstn_all2 by lia. reflexivity.
Qed.

(* the three clauses of C05 on the reader model *)
Theorem reader_agrees limit x sc :
  no_fail sc ->
  exists r', detect_reader_read limit (mk_reader x sc) = (Some (hdr limit x), RNil, r')
             /\ (limit <> 0%N -> N.of_nat (reader_consumed (mk_reader x sc) r') <= limit)%N
             /\ (limit = 0%N -> reader_consumed (mk_reader x sc) r' = length x).
Proof.
  intros Hn. unfold detect_reader_read. destruct (N.eqb_spec limit 0%N) as [->|Hl].
  - destruct (read_all_ok (fuel_of (mk_reader x sc)) (mk_reader x sc) 511 [] x Hn eq_refl) as (r' & -> & Hrem & _).
    { unfold fuel_of. cbn [script rem]. lia. }
    exists r'. split; [reflexivity|]. split; [congruence|]. intros _. unfold reader_consumed. cbn [rem]. rewrite Hrem. cbn. lia.
  - cbn [rem]. set (size := N.to_nat (N.min limit (N.of_nat (S (length x))))).
    destruct (read_full_ok (fuel_of (mk_reader x sc)) (mk_reader x sc) size [] x Hn eq_refl (Nat.le_0_l _))
      as (got & e & r' & -> & Hgot & He & Hx & _).
    { unfold fuel_of. cbn [script rem]. lia. }
    exists r'. rewrite (hdr_as_firstn limit x Hl). fold size. rewrite <- Hgot.
    split; [destruct He as [->|[->| ->]]; reflexivity|]. split; [|congruence].
    intros _. unfold reader_consumed. cbn [rem].
    assert (Hlen : length x = length got + length (rem r')) by (rewrite Hx at 1; apply app_length).
    assert (length got <= size) by (rewrite Hgot, firstn_length; lia).
    subst size. lia.
Qed.

(* an injected error before the header is complete surfaces: the result is errMIME (None) with that error *)
Fixpoint delivered_before_fail (sc : list step) : Prop :=
  match sc with
  | [] => False
  | Fail _ :: _ => True
  | Chunk _ _ :: sc' => delivered_before_fail sc'
  end.

Theorem reader_error_at_start limit x e sc :
  exists r', detect_reader_read limit (mk_reader x (Fail e :: sc)) = (None, RErr e, r').
Proof.
  unfold detect_reader_read. destruct (N.eqb_spec limit 0%N) as [->|Hl].
  - unfold fuel_of. cbn. eexists; reflexivity.
  - cbn [rem]. set (size := N.to_nat (N.min limit (N.of_nat (S (length x))))).
    assert (Hs : 0 < size) by (subst size; lia).
    unfold fuel_of. cbn [script rem length Nat.add read_full_f].
    destruct (Nat.leb_spec size (length (@nil N))) as [H|_]; [cbn in H; lia|].
    cbn [read1 script rem app length]. destruct (Nat.leb_spec size 0); [lia|]. eexists; reflexivity.
Qed.
