(* C05: DetectReader over any conforming reader hands match exactly the header Detect would examine,
   never consumes more than the limit, and surfaces read errors. *)
From Verif Require Import Base.Bytes Model.Reader Proofs.BytesP.
Local Open Scope nat_scope.

Definition no_fail (sc : list step) : Prop := Forall (fun s => match s with Fail _ => False | _ => True end) sc.

(* one read of a failure-free reader *)
Lemma read1_ok r room d e r' : no_fail (script r) -> read1 r room = (d, e, r') ->
  rem r = d ++ rem r' /\ length d <= room /\ no_fail (script r') /\
  (e = RNil \/ (e = REOF /\ rem r' = [])) /\
  (length (script r') < length (script r) \/
   (script r = [] /\ script r' = [] /\ (e = REOF \/ (0 < room -> 0 < length d)))).
Proof.
  intros Hn. unfold read1. destruct (script r) as [|[k ewd|x] sc] eqn:Es.
  - destruct (rem r) as [|c rm] eqn:Er.
    + intros H; inversion H; subst. rewrite Er.
      split; [reflexivity|]. split; [cbn; lia|]. split; [rewrite Es; constructor|].
      split; [right; split; reflexivity|]. right. split; [reflexivity|]. split; [exact Es|left; reflexivity].
    + intros H; inversion H; subst. cbn [rem script].
      split; [symmetry; apply firstn_skipn|]. split; [rewrite firstn_length; lia|]. split; [constructor|].
      split; [left; reflexivity|]. right. split; [reflexivity|]. split; [reflexivity|].
      right. intros Hr. rewrite firstn_length. cbn [length]. lia.
  - inversion Hn as [|? ? _ Hn']; subst.
    destruct (rem r) as [|c rm] eqn:Er.
    + intros H; inversion H; subst. cbn [rem script].
      split; [reflexivity|]. split; [cbn; lia|]. split; [exact Hn'|].
      split; [right; split; reflexivity|]. left. cbn; lia.
    + intros H; inversion H; subst. cbn [rem script].
      split; [symmetry; apply firstn_skipn|]. split; [rewrite firstn_length; lia|]. split; [exact Hn'|].
      split; [|left; cbn; lia].
      match goal with |- context [if ?cnd then REOF else RNil] => destruct cnd eqn:E end; [|left; reflexivity].
      right. split; [reflexivity|]. apply andb_true_iff in E as [E _]. apply andb_true_iff in E as [_ E].
      apply Nat.eqb_eq in E. rewrite E. apply (skipn_all (c :: rm)).
  - inversion Hn as [|? ? Hx _]; subst. destruct Hx.
Qed.

(* io.ReadFull over a failure-free reader: exactly the first `size` bytes, or everything at EOF *)
Lemma read_full_ok : forall fuel r size acc x,
  no_fail (script r) -> x = acc ++ rem r -> length acc <= size ->
  length (script r) + length (rem r) + 1 <= fuel ->
  exists got e r', read_full_f fuel r size acc = (got, e, r') /\
    got = firstn size x /\ (e = RNil \/ e = REOF \/ e = RUnexpectedEOF) /\
    x = got ++ rem r' /\ no_fail (script r').
Proof.
  induction fuel as [|f IH]; intros r size acc x Hn Hx Hl Hf; [lia|].
  cbn [read_full_f]. destruct (Nat.leb_spec size (length acc)) as [Hge|Hlt].
  - exists acc, RNil, r. split; [reflexivity|]. split; [|split; [auto|split; [exact Hx|exact Hn]]].
    rewrite Hx. rewrite firstn_app_le by lia. symmetry. apply firstn_all2. lia.
  - destruct (read1 r (size - length acc)) as [[d e] r'] eqn:E1.
    destruct (read1_ok _ _ _ _ _ Hn E1) as (Hr & Hd & Hn' & He & Hprog).
    assert (Hx' : x = (acc ++ d) ++ rem r') by (rewrite <- app_assoc, <- Hr; exact Hx).
    assert (Hl' : length (acc ++ d) <= size) by (rewrite app_length; lia).
    destruct He as [->|[-> Hrem]].
    + (* no error: loop *)
      apply (IH r' size (acc ++ d) x Hn' Hx' Hl').
      destruct Hprog as [Hp|(Hs & Hs' & [Hc|Hp])]; [| discriminate |].
      * rewrite Hr, app_length in Hf. lia.
      * specialize (Hp ltac:(lia)). rewrite Hs in Hf. rewrite Hs'. rewrite Hr, app_length in Hf. cbn [length] in *. lia.
    + (* EOF: everything was delivered *)
      rewrite Hrem, app_nil_r in Hx'.
      destruct (Nat.leb_spec size (length (acc ++ d))) as [Hge|Hlt'].
      * exists (acc ++ d), RNil, r'. split; [reflexivity|]. split; [|split; [auto|split; [rewrite Hrem, app_nil_r; exact Hx'|exact Hn']]].
        rewrite Hx'. symmetry. apply firstn_all2. lia.
      * exists (acc ++ d), (match acc ++ d with [] => REOF | _ => RUnexpectedEOF end), r'.
        split; [reflexivity|]. split; [|split; [destruct (acc ++ d); auto|split; [rewrite Hrem, app_nil_r; exact Hx'|exact Hn']]].
        rewrite Hx'. symmetry. apply firstn_all2. lia.
Qed.

(* io.ReadAll over a failure-free reader: everything *)
Lemma read_all_ok : forall fuel r bufsz acc x,
  no_fail (script r) -> x = acc ++ rem r -> length (script r) + length (rem r) + 1 <= fuel ->
  exists r', read_all_f fuel r bufsz acc = (x, RNil, r') /\ rem r' = [] /\ no_fail (script r').
Proof.
  induction fuel as [|f IH]; intros r bufsz acc x Hn Hx Hf; [lia|].
  cbn [read_all_f]. destruct (read1 r (S bufsz)) as [[d e] r'] eqn:E1.
  destruct (read1_ok _ _ _ _ _ Hn E1) as (Hr & Hd & Hn' & He & Hprog).
  assert (Hx' : x = (acc ++ d) ++ rem r') by (rewrite <- app_assoc, <- Hr; exact Hx).
  destruct He as [->|[-> Hrem]].
  - apply (IH r' bufsz (acc ++ d) x Hn' Hx').
    destruct Hprog as [Hp|(Hs & Hs' & [Hc|Hp])]; [| discriminate |].
    + rewrite Hr, app_length in Hf. lia.
    + specialize (Hp ltac:(lia)). rewrite Hs in Hf. rewrite Hs'. rewrite Hr, app_length in Hf. cbn [length] in *. lia.
  - exists r'. rewrite Hrem, app_nil_r in Hx'. rewrite <- Hx'. split; [reflexivity|]. split; [exact Hrem|exact Hn'].
Qed.

Lemma hdr_as_firstn (limit : N) x : limit <> 0%N ->
  hdr limit x = firstn (N.to_nat (N.min limit (N.of_nat (S (length x))))) x.
Proof.
  intros Hn. unfold hdr. destruct (N.eqb_spec limit 0%N); [congruence|]. rewrite take_firstn.
  destruct (N.le_gt_cases limit (N.of_nat (S (length x)))) as [H|H].
  - rewrite N.min_l by exact H. reflexivity.
  - rewrite N.min_r by lia. rewrite !firstn_all2 by lia. reflexivity.
Qed.

(* the three clauses of C05 on the reader model *)
Theorem reader_agrees limit x sc :
  no_fail sc ->
  exists r', detect_reader_read limit (mk_reader x sc) = (Some (hdr limit x), RNil, r')
             /\ (limit <> 0%N -> N.of_nat (reader_consumed (mk_reader x sc) r') <= limit)%N
             /\ (limit = 0%N -> reader_consumed (mk_reader x sc) r' = length x).
Proof.
  intros Hn. unfold detect_reader_read. destruct (N.eqb_spec limit 0%N) as [->|Hl].
  - destruct (read_all_ok (fuel_of (mk_reader x sc)) (mk_reader x sc) 511 [] x Hn eq_refl) as (r' & -> & Hrem & _).
    { unfold fuel_of. cbn [script rem]. lia. }
    exists r'. split; [reflexivity|]. split; [congruence|]. intros _. unfold reader_consumed. cbn [rem]. rewrite Hrem. cbn. lia.
  - cbn [rem]. set (size := N.to_nat (N.min limit (N.of_nat (S (length x))))).
    destruct (read_full_ok (fuel_of (mk_reader x sc)) (mk_reader x sc) size [] x Hn eq_refl (Nat.le_0_l _))
      as (got & e & r' & -> & Hgot & He & Hx & _).
    { unfold fuel_of. cbn [script rem]. lia. }
    exists r'. rewrite (hdr_as_firstn limit x Hl). fold size. rewrite <- Hgot.
    split; [destruct He as [->|[->| ->]]; reflexivity|]. split; [|congruence].
    intros _. unfold reader_consumed. cbn [rem].
    assert (Hlen : length x = length got + length (rem r')) by (rewrite Hx at 1; apply app_length).
    assert (length got <= size) by (rewrite Hgot, firstn_length; lia).
    subst size. lia.
Qed.

(* an injected error before the header is complete surfaces: the result is errMIME (None) with that error *)
Fixpoint delivered_before_fail (sc : list step) : Prop :=
  match sc with
  | [] => False
  | Fail _ :: _ => True
  | Chunk _ _ :: sc' => delivered_before_fail sc'
  end.

Theorem reader_error_at_start limit x e sc :
  exists r', detect_reader_read limit (mk_reader x (Fail e :: sc)) = (None, RErr e, r').
Proof.
  unfold detect_reader_read. destruct (N.eqb_spec limit 0%N) as [->|Hl].
  - unfold fuel_of. cbn. eexists; reflexivity.
  - cbn [rem]. set (size := N.to_nat (N.min limit (N.of_nat (S (length x))))).
    assert (Hs : 0 < size) by (subst size; lia).
    unfold fuel_of. cbn [script rem length Nat.add read_full_f].
    destruct (Nat.leb_spec size (length (@nil N))) as [H|_]; [cbn in H; lia|].
    cbn [read1 script rem app length]. destruct (Nat.leb_spec size 0); [lia|]. eexists; reflexivity.
Qed.

(* ---- an injected error at ANY point of the script ---- *)
Fixpoint offered (sc : list step) : nat :=
  match sc with [] => 0 | Chunk k _ :: sc' => k + offered sc' | Fail _ :: sc' => offered sc' end.

Lemma read1_chunk r room k ewd sc d e r' : script r = Chunk k ewd :: sc -> read1 r room = (d, e, r') ->
  rem r = d ++ rem r' /\ length d <= room /\ length d <= k /\ script r' = sc /\
  (e = RNil \/ (e = REOF /\ rem r' = [])).
Proof.
  intros Es. unfold read1. rewrite Es. destruct (rem r) as [|c rm] eqn:Er.
  - intros H; inversion H; subst. cbn [rem script length]. repeat split; try lia. right. split; reflexivity.
  - intros H; inversion H; subst. cbn [rem script].
    split; [symmetry; apply firstn_skipn|]. split; [rewrite firstn_length; lia|]. split; [rewrite firstn_length; lia|].
    split; [reflexivity|].
    match goal with |- context [if ?cnd then REOF else RNil] => destruct cnd eqn:E end; [|left; reflexivity].
    right. split; [reflexivity|]. apply andb_true_iff in E as [E _]. apply andb_true_iff in E as [_ E].
    apply Nat.eqb_eq in E. rewrite E. apply (skipn_all (c :: rm)).
Qed.

(* io.ReadFull when the script fails after a failure-free prefix: either the header was completed before the
   failing step was reached (same outcome as without the failure; the prefix offered enough bytes for that), or
   exactly that error is returned *)
Lemma read_full_fail : forall pre fuel e post rm size acc x,
  no_fail pre -> x = acc ++ rm -> length acc <= size -> length pre + 1 <= fuel ->
  (exists got er r', read_full_f fuel (mk_reader rm (pre ++ Fail e :: post)) size acc = (got, er, r') /\ got = firstn size x /\
                     (er = RNil \/ er = REOF \/ er = RUnexpectedEOF) /\ x = got ++ rem r' /\
                     (size <= length acc + offered pre \/ length rm <= offered pre)) \/
  (exists got r', read_full_f fuel (mk_reader rm (pre ++ Fail e :: post)) size acc = (got, RErr e, r') /\ length got < size /\
                  x = got ++ rem r' /\ length got <= length acc + offered pre).
Proof.
  induction pre as [|st pre IH]; intros fuel e post rm size acc x Hn Hx Hl Hf;
    (destruct fuel as [|f]; [cbn in Hf; lia|]); cbn [read_full_f].
  - destruct (Nat.leb_spec size (length acc)) as [Hge|Hlt].
    + left. exists acc, RNil, (mk_reader rm ([] ++ Fail e :: post)). split; [reflexivity|]. split; [|split; [auto|split; [exact Hx|left; lia]]].
      rewrite Hx. rewrite firstn_app_le by lia. symmetry. apply firstn_all2. lia.
    + right. cbn [app read1 script rem]. rewrite app_nil_r.
      destruct (Nat.leb_spec size (length acc)); [lia|].
      exists acc, (mk_reader rm post). split; [reflexivity|]. split; [lia|]. split; [exact Hx|cbn; lia].
  - inversion Hn as [|? ? Hst Hn']; subst. destruct st as [k ewd|bad]; [|destruct Hst].
    destruct (Nat.leb_spec size (length acc)) as [Hge|Hlt].
    + left. eexists acc, RNil, _. split; [reflexivity|]. split; [|split; [auto|split; [reflexivity|left; lia]]].
      rewrite firstn_app_le by lia. symmetry. apply firstn_all2. lia.
    + destruct (read1 (mk_reader rm ((Chunk k ewd :: pre) ++ Fail e :: post)) (size - length acc)) as [[d er] r'] eqn:E1.
      destruct (read1_chunk (mk_reader rm ((Chunk k ewd :: pre) ++ Fail e :: post)) _ k ewd (pre ++ Fail e :: post) _ _ _ eq_refl E1) as (Hr & Hd & Hdk & Hs & He).
      cbn [rem] in Hr.
      assert (Hx' : acc ++ rm = (acc ++ d) ++ rem r') by (rewrite <- app_assoc, <- Hr; reflexivity).
      assert (Hl' : length (acc ++ d) <= size) by (rewrite app_length; lia).
      assert (Hlen : length rm = length d + length (rem r')) by (rewrite Hr; apply app_length).
      destruct He as [->|[-> Hrem]].
      * destruct r' as [rm' sc']. cbn [script rem] in *. subst sc'.
        destruct (IH f e post rm' size (acc ++ d) (acc ++ rm) Hn' Hx' Hl') as [HA|HB]; [cbn in Hf; lia| |].
        -- left. destruct HA as (got & er & r'' & E & Hg & Her & Hxx & Hoff). exists got, er, r''.
           split; [exact E|]. split; [exact Hg|]. split; [exact Her|]. split; [exact Hxx|].
           rewrite app_length in Hoff. cbn [offered]. lia.
        -- right. destruct HB as (got & r'' & E & Hlt' & Hxx & Hoff). exists got, r''. split; [exact E|]. split; [exact Hlt'|].
           split; [exact Hxx|]. rewrite app_length in Hoff. cbn [offered]. lia.
      * left. rewrite Hrem, app_nil_r in Hx'. rewrite Hrem in Hlen. cbn [length] in Hlen.
        destruct (Nat.leb_spec size (length (acc ++ d))) as [Hge|Hlt'].
        -- exists (acc ++ d), RNil, r'. split; [reflexivity|]. split; [|split; [auto|split; [rewrite Hrem, app_nil_r; exact Hx'|right; cbn [offered]; lia]]].
           rewrite Hx'. symmetry. apply firstn_all2. lia.
        -- exists (acc ++ d), (match acc ++ d with [] => REOF | _ => RUnexpectedEOF end), r'.
           split; [reflexivity|]. split; [|split; [destruct (acc ++ d); auto|split; [rewrite Hrem, app_nil_r; exact Hx'|right; cbn [offered]; lia]]].
           rewrite Hx'. symmetry. apply firstn_all2. lia.
Qed.

Lemma read_all_fail : forall pre fuel e post rm bufsz acc x,
  no_fail pre -> x = acc ++ rm -> length pre + 1 <= fuel ->
  (exists r', read_all_f fuel (mk_reader rm (pre ++ Fail e :: post)) bufsz acc = (x, RNil, r') /\ rem r' = [] /\ length rm <= offered pre) \/
  (exists got r', read_all_f fuel (mk_reader rm (pre ++ Fail e :: post)) bufsz acc = (got, RErr e, r') /\ x = got ++ rem r' /\
                  length got <= length acc + offered pre).
Proof.
  induction pre as [|st pre IH]; intros fuel e post rm bufsz acc x Hn Hx Hf;
    (destruct fuel as [|f]; [cbn in Hf; lia|]); cbn [read_all_f].
  - right. cbn [app read1 script rem]. rewrite app_nil_r. exists acc, (mk_reader rm post). split; [reflexivity|].
    split; [exact Hx|cbn; lia].
  - inversion Hn as [|? ? Hst Hn']; subst. destruct st as [k ewd|bad]; [|destruct Hst].
    destruct (read1 (mk_reader rm ((Chunk k ewd :: pre) ++ Fail e :: post)) (S bufsz)) as [[d er] r'] eqn:E1.
    destruct (read1_chunk (mk_reader rm ((Chunk k ewd :: pre) ++ Fail e :: post)) _ k ewd (pre ++ Fail e :: post) _ _ _ eq_refl E1) as (Hr & Hd & Hdk & Hs & He).
    cbn [rem] in Hr.
    assert (Hx' : acc ++ rm = (acc ++ d) ++ rem r') by (rewrite <- app_assoc, <- Hr; reflexivity).
    assert (Hlen : length rm = length d + length (rem r')) by (rewrite Hr; apply app_length).
    destruct He as [->|[-> Hrem]].
    + destruct r' as [rm' sc']. cbn [script rem] in *. subst sc'.
      destruct (IH f e post rm' bufsz (acc ++ d) (acc ++ rm) Hn' Hx') as [HA|HB]; [cbn in Hf; lia| |].
      * left. destruct HA as (r'' & E & Hr'' & Hoff). exists r''. split; [exact E|]. split; [exact Hr''|]. cbn [offered]. lia.
      * right. destruct HB as (got & r'' & E & Hxx & Hoff). exists got, r''. split; [exact E|]. split; [exact Hxx|].
        rewrite app_length in Hoff. cbn [offered]. lia.
    + left. exists r'. rewrite Hrem, app_nil_r in Hx'. rewrite <- Hx'. split; [reflexivity|]. split; [exact Hrem|].
      rewrite Hrem in Hlen. cbn [length offered] in *. lia.
Qed.

(* C05, errors: whatever failure-free prefix precedes the failing read, DetectReader either completed the header
   before reaching it (the outcome of the failure-free case) or returns errMIME together with exactly that error *)
Theorem reader_error_anywhere limit x pre e post :
  no_fail pre ->
  (exists r', detect_reader_read limit (mk_reader x (pre ++ Fail e :: post)) = (Some (hdr limit x), RNil, r')) \/
  (exists r', detect_reader_read limit (mk_reader x (pre ++ Fail e :: post)) = (None, RErr e, r')).
Proof.
  intros Hn. unfold detect_reader_read. destruct (N.eqb_spec limit 0%N) as [->|Hl].
  - destruct (read_all_fail pre (fuel_of (mk_reader x (pre ++ Fail e :: post))) e post x 511 [] x Hn eq_refl) as [(r' & -> & _)|(got & r' & -> & _)].
    { unfold fuel_of. cbn [script rem]. rewrite app_length. cbn. lia. }
    + left. exists r'. reflexivity.
    + right. exists r'. reflexivity.
  - cbn [rem]. set (size := N.to_nat (N.min limit (N.of_nat (S (length x))))).
    destruct (read_full_fail pre (fuel_of (mk_reader x (pre ++ Fail e :: post))) e post x size [] x Hn eq_refl (Nat.le_0_l _))
      as [(got & er & r' & -> & Hgot & He & _)|(got & r' & -> & _)].
    { unfold fuel_of. cbn [script rem]. rewrite app_length. cbn. lia. }
    + left. exists r'. rewrite (hdr_as_firstn limit x Hl). fold size. rewrite <- Hgot.
      destruct He as [->|[->| ->]]; reflexivity.
    + right. exists r'. reflexivity.
Qed.

(* ... and the error it is whenever the prefix offers fewer bytes than the header needs and than the input holds
   ("before the header is complete"), however many bytes that is *)
Theorem reader_error_before_header limit x pre e post :
  no_fail pre -> offered pre < length x -> (limit = 0 \/ N.of_nat (offered pre) < limit)%N ->
  exists r', detect_reader_read limit (mk_reader x (pre ++ Fail e :: post)) = (None, RErr e, r').
Proof.
  intros Hn Hoff Hlim. unfold detect_reader_read. destruct (N.eqb_spec limit 0%N) as [->|Hl].
  - destruct (read_all_fail pre (fuel_of (mk_reader x (pre ++ Fail e :: post))) e post x 511 [] x Hn eq_refl) as [(r' & _ & _ & Hbad)|(got & r' & -> & _)].
    { unfold fuel_of. cbn [script rem]. rewrite app_length. cbn. lia. }
    + lia.
    + exists r'. reflexivity.
  - cbn [rem]. set (size := N.to_nat (N.min limit (N.of_nat (S (length x))))).
    destruct Hlim as [?|Hlim]; [contradiction|].
    destruct (read_full_fail pre (fuel_of (mk_reader x (pre ++ Fail e :: post))) e post x size [] x Hn eq_refl (Nat.le_0_l _))
      as [(got & er & r' & _ & _ & _ & _ & Hbad)|(got & r' & -> & _)].
    { unfold fuel_of. cbn [script rem]. rewrite app_length. cbn. lia. }
    + subst size. cbn [length] in Hbad. lia.
    + exists r'. reflexivity.
Qed.
