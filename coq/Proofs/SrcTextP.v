(* The combinators that loop over the input - ciPrefix, markup, xml (shebang: see below) - and their helpers isWS, trimLWS,
   firstLine, ciCheck, markupCheck, xmlCheck, as translated from the current source (Gen/SrcFuncs.v), never reach Panic
   (no index out of range, loop fuel never exhausted) and compute the hand-written list models of Model/Sigs.v. *)
From Coq Require Import Lia.
From Verif Require Import Base.Bytes Model.Types Model.Sigs Model.Text Gen.Tables Gen.SigData Model.GoRes Gen.SrcFuncs Proofs.SrcBaseP.
Local Open Scope Z_scope.

Lemma zltb_N a k : (Z.of_N a <? Z.of_N k) = (a <? k)%N.
Proof. destruct (Z.ltb_spec (Z.of_N a) (Z.of_N k)), (N.ltb_spec a k); try reflexivity; lia. Qed.
Lemma zleb_N a k : (Z.of_N a <=? Z.of_N k) = (a <=? k)%N.
Proof. destruct (Z.leb_spec (Z.of_N a) (Z.of_N k)), (N.leb_spec a k); try reflexivity; lia. Qed.

Theorem src_isWS_ok c : src_isWS (Z.of_N c) = Val (is_ws c).
Proof.
  unfold src_isWS, is_ws. change 9 with (Z.of_N 9). change 10 with (Z.of_N 10). change 12 with (Z.of_N 12).
  change 13 with (Z.of_N 13). change 32 with (Z.of_N 32). rewrite !zeqb_N. reflexivity.
Qed.

(* number of leading elements that satisfy P *)
Fixpoint run (P : N -> bool) (l : bytes) : nat :=
  match l with c :: l' => if P c then S (run P l') else O | [] => O end.
Lemma run_le P l : (run P l <= length l)%nat.
Proof. induction l as [|c l IH]; cbn [run length]; [lia|]. destruct (P c); lia. Qed.
Lemma skipn_nth (l : bytes) i : (i < length l)%nat -> skipn i l = nth i l 0%N :: skipn (S i) l.
Proof.
  revert i. induction l as [|c l IH]; intros i H; [cbn [length] in H; lia|].
  destruct i as [|i]; [reflexivity|]. cbn [length] in H. cbn [skipn nth]. rewrite IH by lia. reflexivity.
Qed.

(* a forward scan `for ; i < len(l) && P(l[i]); i++ {}` stops at i + run P (l[i:]) and never runs out of fuel *)
Lemma while_scan_fwd (P : N -> bool) l (c : Z -> res bool) (bd : Z -> res Z) :
  (forall j, (j < length l)%nat -> c (Z.of_nat j) = Val (P (nth j l 0%N))) ->
  c (Z.of_nat (length l)) = Val false ->
  (forall j, bd j = Val (j + 1)) ->
  forall fuel i, (i <= length l)%nat -> (length l - i < fuel)%nat ->
  while_res fuel c bd (Z.of_nat i) = Val (Z.of_nat (i + run P (skipn i l))).
Proof.
  intros Hc Hend Hb. induction fuel as [|fuel IH]; intros i Hi Hf; [lia|].
  cbn [while_res]. destruct (Nat.eq_dec i (length l)) as [->|Hne].
  - rewrite Hend. cbn [rbind]. rewrite skipn_all. cbn [run]. rewrite Nat.add_0_r. reflexivity.
  - rewrite Hc by lia. cbn [rbind]. rewrite (skipn_nth l i) by lia. cbn [run].
    destruct (P (nth i l 0%N)).
    + rewrite Hb. cbn [rbind]. replace (Z.of_nat i + 1) with (Z.of_nat (S i)) by lia.
      rewrite IH by lia. f_equal. lia.
    + rewrite Nat.add_0_r. reflexivity.
Qed.

Lemma skipn_run_ws l : skipn (run is_ws l) l = trim_lws l.
Proof. induction l as [|c l IH]; [reflexivity|]. cbn [run trim_lws]. destruct (is_ws c); [exact IH|reflexivity]. Qed.
Lemma firstn_run_line l : firstn (run (fun c => negb (c =? 10)%N) l) l = first_line l.
Proof.
  induction l as [|c l IH]; [reflexivity|]. cbn [run first_line]. destruct (c =? 10)%N; cbn [negb]; [reflexivity|].
  cbn [firstn]. rewrite IH. reflexivity.
Qed.

Theorem src_trimLWS_ok l : src_trimLWS l = Val (trim_lws l).
Proof.
  unfold src_trimLWS. cbv zeta.
  match goal with |- context [while_res _ ?c ?b _] => set (cnd := c); set (bd := b) end.
  assert (H : while_res (S (length l)) cnd bd (Z.of_nat 0) = Val (Z.of_nat (0 + run is_ws (skipn 0 l)))).
  { apply while_scan_fwd; try lia.
    - intros j Hj. unfold cnd. replace (Z.of_nat j <? zlen l) with true by (symmetry; apply Z.ltb_lt; unfold zlen; lia).
      rewrite zget_val by (unfold zlen; lia). cbn [rbind]. rewrite Znat.Nat2Z.id. unfold nthb. rewrite src_isWS_ok. reflexivity.
    - unfold cnd, zlen. rewrite Z.ltb_irrefl. reflexivity.
    - intros j. reflexivity. }
  change (Z.of_nat 0) with 0 in H. rewrite H. cbn [rbind skipn Nat.add].
  pose proof (run_le is_ws l). rewrite zfrom_val by (unfold zlen; lia). cbn [rbind]. rewrite Znat.Nat2Z.id, skipn_run_ws. reflexivity.
Qed.

Theorem src_firstLine_ok l : src_firstLine l = Val (first_line l).
Proof.
  unfold src_firstLine. cbv zeta.
  match goal with |- context [while_res _ ?c ?b _] => set (cnd := c); set (bd := b) end.
  assert (H : while_res (S (length l)) cnd bd (Z.of_nat 0) = Val (Z.of_nat (0 + run (fun c => negb (c =? 10)%N) (skipn 0 l)))).
  { apply while_scan_fwd; try lia.
    - intros j Hj. unfold cnd. replace (Z.of_nat j <? zlen l) with true by (symmetry; apply Z.ltb_lt; unfold zlen; lia).
      rewrite zget_val by (unfold zlen; lia). cbn [rbind]. rewrite Znat.Nat2Z.id. unfold nthb.
      change 10 with (Z.of_N 10). rewrite zeqb_N. reflexivity.
    - unfold cnd, zlen. rewrite Z.ltb_irrefl. reflexivity.
    - intros j. reflexivity. }
  change (Z.of_nat 0) with 0 in H. rewrite H. cbn [rbind skipn Nat.add].
  pose proof (run_le (fun c => negb (c =? 10)%N) l). rewrite zto_val by (unfold zlen; lia). cbn [rbind]. rewrite Znat.Nat2Z.id, firstn_run_line. reflexivity.
Qed.

(* ---- ciCheck / markupCheck: the shared loop over the signature ---- *)
Lemma of_N_land a c : Z.of_N (N.land a c) = Z.land (Z.of_N a) (Z.of_N c).
Proof. destruct a, c; reflexivity. Qed.
Lemma ci_byte_src s r :
  (Z.of_N s =? (if (65 <=? Z.of_N s) && (Z.of_N s <=? 90) then Z.land (Z.of_N r) 223 else Z.of_N r)) = ci_byte s r.
Proof.
  unfold ci_byte, is_upper. change 65 with (Z.of_N 65). change 90 with (Z.of_N 90). rewrite !zleb_N.
  change 223 with (Z.of_N 223). rewrite <- of_N_land.
  destruct ((65 <=? s)%N && (s <=? 90)%N); apply zeqb_N.
Qed.

Lemma ci_loop_ok raw : forall sg i, (i + length sg <= length raw)%nat ->
  range_loop (S := unit) (R := bool) (fun i1 c2 _ =>
      t3 <- zget raw i1 ;;
      (if negb (c2 =? (if (65 <=? c2) && (c2 <=? 90) then Z.land t3 223 else t3)) then Val (Return false) else Val (Next tt)))
    (Z.of_nat i) sg tt
  = Val (if ci_match sg (skipn i raw) then Done tt else Returned false).
Proof.
  induction sg as [|s sg IH]; intros i Hi; [reflexivity|]. cbn [length] in Hi. cbn [range_loop].
  rewrite zget_val by (unfold zlen; lia). cbn [rbind]. rewrite Znat.Nat2Z.id. unfold nthb.
  rewrite (skipn_nth raw i) by lia. cbn [ci_match]. rewrite ci_byte_src.
  destruct (ci_byte s (nth i raw 0%N)); cbn [negb andb]; [|reflexivity].
  replace (Z.of_nat i + 1) with (Z.of_nat (S i)) by lia. apply IH. lia.
Qed.

Theorem src_ciCheck_ok sg raw : src_ciCheck sg raw = Val (ci_check sg raw).
Proof.
  unfold src_ciCheck, ci_check. cbv zeta.
  destruct (Z.ltb_spec (zlen raw) (zlen sg + 1)) as [H|H], (Nat.ltb_spec (length sg) (length raw)) as [H'|H']; unfold zlen in *; try lia; [reflexivity|].
  cbn [andb]. change 0 with (Z.of_nat 0). rewrite (ci_loop_ok raw sg 0) by lia. cbn [rbind skipn].
  destruct (ci_match sg raw); reflexivity.
Qed.

Theorem src_markupCheck_ok sg raw : src_markupCheck sg raw = Val (markup_check sg raw).
Proof.
  unfold src_markupCheck, markup_check. cbv zeta.
  destruct (Z.ltb_spec (zlen raw) (zlen sg + 1)) as [H|H], (Nat.ltb_spec (length sg) (length raw)) as [H'|H']; unfold zlen in *; try lia; [reflexivity|].
  cbn [andb]. change 0 with (Z.of_nat 0). rewrite (ci_loop_ok raw sg 0) by lia. cbn [rbind skipn].
  destruct (ci_match sg raw); [|reflexivity]. cbn [andb].
  rewrite zget_val by (unfold zlen; lia). cbn [rbind]. rewrite Znat.Nat2Z.id. unfold nthb.
  change 32 with (Z.of_N 32). change 62 with (Z.of_N 62). rewrite !zeqb_N.
  destruct (nth (length sg) raw 0%N =? 32)%N, (nth (length sg) raw 0%N =? 62)%N; reflexivity.
Qed.

(* ---- the loops over the signature list ---- *)
Lemma any_loop {E} (f : E -> res bool) (g : E -> bool) (l : list E) : (forall x, f x = Val (g x)) ->
  list_loop (S := unit) (R := bool) (fun x _ => t <- f x ;; (if t then Val (Return true) else Val (Next tt))) l tt
  = Val (if existsb g l then Returned true else Done tt).
Proof.
  intros H. induction l as [|x l IH]; [reflexivity|]. cbn [list_loop existsb]. rewrite H. cbn [rbind].
  destruct (g x); [reflexivity|exact IH].
Qed.

Theorem src_ciPrefix_ok sigs raw lim : src_ciPrefix sigs raw lim = Val (ci_prefix sigs raw).
Proof.
  unfold src_ciPrefix, ci_prefix. cbv zeta.
  rewrite (any_loop (fun s => src_ciCheck s raw) (fun s => ci_check s raw)) by (intros x; apply src_ciCheck_ok).
  cbn [rbind]. destruct (existsb _ sigs); reflexivity.
Qed.

Lemma has_prefix_length sg : forall raw, has_prefix sg raw = true -> (length sg <= length raw)%nat.
Proof.
  induction sg as [|s sg IH]; intros raw H; [cbn [length]; lia|]. destruct raw as [|r raw]; [discriminate|].
  cbn [has_prefix] in H. apply andb_prop in H. destruct H as [_ H]. apply IH in H. cbn [length]. lia.
Qed.

Theorem src_markup_ok sigs raw lim : src_markup sigs raw lim = Val (markup sigs raw).
Proof.
  unfold src_markup, markup. cbv beta zeta.
  assert (K : forall r, (if zlen r =? 0 then Val false else
      lr <- list_loop (S := unit) (R := bool) (fun s2 _ => t3 <- src_markupCheck s2 r ;; (if t3 then Val (Return true) else Val (Next tt))) sigs tt ;;
      match lr with Returned r0 => Val r0 | Done _ => Val false end)
    = Val (match r with [] => false | _ => existsb (fun s => markup_check s r) sigs end)).
  { intros r. destruct r as [|c r]; [reflexivity|].
    replace (zlen (c :: r) =? 0) with false by (symmetry; apply Z.eqb_neq; unfold zlen; cbn [length]; lia).
    rewrite (any_loop (fun s => src_markupCheck s (c :: r)) (fun s => markup_check s (c :: r))) by (intros x; apply src_markupCheck_ok).
    cbn [rbind]. destruct (existsb _ sigs); reflexivity. }
  destruct (has_prefix [239; 187; 191]%N raw) eqn:Hp.
  - pose proof (has_prefix_length _ _ Hp) as Hl3. cbn [length] in Hl3.
    rewrite zfrom_val by (unfold zlen; lia). cbn [rbind]. change (Z.to_nat 3) with 3%nat. rewrite src_trimLWS_ok. cbn [rbind]. apply K.
  - rewrite src_trimLWS_ok. cbn [rbind]. apply K.
Qed.

(* ---- xml ---- *)
Lemma zindex_pos hay needle : (0 <? zindex hay needle) = index_pos needle hay.
Proof. unfold zindex, index_pos. destruct (index_of needle hay) as [[|i]|]; reflexivity. Qed.

Theorem src_xmlCheck_ok sg raw : src_xmlCheck sg raw = Val (xml_check sg raw).
Proof.
  unfold src_xmlCheck, xml_check. destruct sg as [local xmlns]. cbv zeta. cbn [fst snd].
  rewrite zto_val by (unfold zlen; lia). cbn [rbind].
  replace (Z.to_nat (Z.min (zlen raw) 512)) with (Nat.min (length raw) 512) by (unfold zlen; lia).
  assert (Hf : firstn (Nat.min (length raw) 512) raw = firstn 512 raw).
  { destruct (Nat.le_ge_cases (length raw) 512) as [Hl|Hl]; [rewrite Nat.min_l by exact Hl; rewrite !firstn_all2 by lia; reflexivity|rewrite Nat.min_r by exact Hl; reflexivity]. }
  rewrite Hf. set (r := firstn 512 raw).
  destruct local as [|l0 local].
  - cbn [zlen length Z.of_nat Z.eqb]. rewrite zindex_pos. reflexivity.
  - replace (zlen (l0 :: local) =? 0) with false by (symmetry; apply Z.eqb_neq; unfold zlen; cbn [length]; lia).
    destruct xmlns as [|x0 xmlns].
    + cbn [zlen length Z.of_nat Z.eqb]. rewrite zindex_pos. reflexivity.
    + replace (zlen (x0 :: xmlns) =? 0) with false by (symmetry; apply Z.eqb_neq; unfold zlen; cbn [length]; lia).
      unfold zindex. destruct (index_of (l0 :: local) r) as [i|]; [|reflexivity].
      replace (Z.of_nat i =? -1) with false by (symmetry; apply Z.eqb_neq; lia). cbn [negb andb].
      destruct (index_of (x0 :: xmlns) r) as [j|].
      * destruct (Z.ltb_spec (Z.of_nat i) (Z.of_nat j)), (Nat.ltb_spec i j); try lia; reflexivity.
      * f_equal. apply Z.ltb_ge. lia.
Qed.

Theorem src_xml_ok sigs raw lim : src_xml sigs raw lim = Val (xml_det sigs raw).
Proof.
  unfold src_xml, xml_det. cbv zeta. rewrite src_trimLWS_ok. cbn [rbind].
  destruct (trim_lws raw) as [|c r]; [reflexivity|].
  replace (zlen (c :: r) =? 0) with false by (symmetry; apply Z.eqb_neq; unfold zlen; cbn [length]; lia).
  rewrite (any_loop (fun s => src_xmlCheck s (c :: r)) (fun s => xml_check s (c :: r))) by (intros x; apply src_xmlCheck_ok).
  cbn [rbind]. destruct (existsb _ sigs); reflexivity.
Qed.

(* ---- trimRWS (a backward scan that never removes index 0), shebangCheck, shebang ---- *)
Lemma firstn_snoc (t : bytes) j : (j < length t)%nat -> firstn (S j) t = firstn j t ++ [nth j t 0%N].
Proof.
  revert j. induction t as [|c t IH]; intros j H; [cbn [length] in H; lia|]. destruct j as [|j]; [reflexivity|].
  cbn [length] in H. cbn [firstn nth app]. rewrite <- IH by lia. reflexivity.
Qed.

Lemma while_scan_bwd (c0 : N) (t : bytes) (cnd : Z -> res bool) (bd : Z -> res Z) :
  (forall j, (j < length t)%nat -> cnd (Z.of_nat (S j)) = Val (is_ws (nth j t 0%N))) ->
  cnd 0 = Val false ->
  (forall j, bd j = Val (j - 1)) ->
  forall fuel j, (j <= length t)%nat -> (j < fuel)%nat ->
  while_res fuel cnd bd (Z.of_nat j) = Val (Z.of_nat (j - run is_ws (rev (firstn j t)))).
Proof.
  intros Hc H0 Hb. induction fuel as [|fuel IH]; intros j Hj Hf; [lia|].
  cbn [while_res]. destruct j as [|j].
  - change (Z.of_nat 0) with 0. rewrite H0. reflexivity.
  - rewrite Hc by lia. cbn [rbind]. rewrite firstn_snoc by lia. rewrite rev_app_distr. cbn [rev app run].
    destruct (is_ws (nth j t 0%N)).
    + rewrite Hb. cbn [rbind]. replace (Z.of_nat (S j) - 1) with (Z.of_nat j) by lia. rewrite IH by lia. f_equal; lia.
    + f_equal; lia.
Qed.

Theorem src_trimRWS_ok l : src_trimRWS l = Val (trim_rws l).
Proof.
  unfold src_trimRWS. cbv zeta. destruct l as [|c0 t].
  - cbn. reflexivity.
  - match goal with |- context [while_res _ ?c ?b _] => set (cnd := c); set (bd := b) end.
    assert (H : while_res (S (length (c0 :: t))) cnd bd (Z.of_nat (length t)) = Val (Z.of_nat (length t - run is_ws (rev (firstn (length t) t))))).
    { apply (while_scan_bwd c0 t); try (cbn [length]; lia).
      - intros j Hj. unfold cnd. replace (0 <? Z.of_nat (S j)) with true by (symmetry; apply Z.ltb_lt; lia).
        rewrite zget_val by (unfold zlen; cbn [length]; lia). cbn [rbind]. rewrite Znat.Nat2Z.id. unfold nthb. cbn [nth].
        rewrite src_isWS_ok. reflexivity.
      - reflexivity.
      - intros j. reflexivity. }
    replace (zlen (c0 :: t) - 1) with (Z.of_nat (length t)) by (unfold zlen; cbn [length]; lia).
    rewrite H. cbn [rbind]. rewrite firstn_all.
    pose proof (run_le is_ws (rev t)) as Hr. rewrite rev_length in Hr.
    rewrite zto_val by (unfold zlen; cbn [length]; lia). cbn [rbind].
    replace (Z.to_nat (Z.of_nat (length t - run is_ws (rev t)) + 1)) with (S (length t - run is_ws (rev t))) by lia.
    cbn [firstn trim_rws]. f_equal. f_equal.
    rewrite <- skipn_run_ws. rewrite skipn_rev. rewrite rev_involutive. reflexivity.
Qed.

Lemma shebang_check_cons sg a c rest :
  shebang_check sg (a :: c :: rest)
  = (length sg + 2 <=? length (a :: c :: rest))%nat && ((a =? 35)%N && (c =? 33)%N && beq (trim_lws (trim_rws rest)) sg).
Proof.
  unfold shebang_check. f_equal.
  destruct a as [|a]; [reflexivity|]. do 6 (destruct a as [a|a|]; try reflexivity).
  all: destruct c as [|c]; try reflexivity; do 6 (destruct c as [c|c|]; try reflexivity).
Qed.

Theorem src_shebangCheck_ok sg line : src_shebangCheck sg line = Val (shebang_check sg line).
Proof.
  unfold src_shebangCheck. cbv zeta.
  destruct (Z.ltb_spec (zlen line) (zlen sg + 2)) as [H|H].
  - unfold shebang_check. replace (length sg + 2 <=? length line)%nat with false by (symmetry; apply Nat.leb_gt; unfold zlen in H; lia). reflexivity.
  - destruct line as [|a [|c rest]]; try (unfold zlen in H; cbn [length] in H; lia).
    rewrite shebang_check_cons. replace (length sg + 2 <=? length (a :: c :: rest))%nat with true by (symmetry; apply Nat.leb_le; unfold zlen in H; lia).
    cbn [andb]. rewrite zget_val by (unfold zlen; cbn [length]; lia). cbn [rbind]. change (nthb (a :: c :: rest) (Z.to_nat 0)) with a.
    change 35 with (Z.of_N 35). rewrite zeqb_N. destruct (a =? 35)%N; cbn [negb rbind andb]; [|reflexivity].
    rewrite zget_val by (unfold zlen; cbn [length]; lia). cbn [rbind]. change (nthb (a :: c :: rest) (Z.to_nat 1)) with c.
    change 33 with (Z.of_N 33). rewrite zeqb_N. destruct (c =? 33)%N; cbn [negb rbind andb]; [|reflexivity].
    rewrite zfrom_val by (unfold zlen; cbn [length]; lia). cbn [rbind]. change (skipn (Z.to_nat 2) (a :: c :: rest)) with rest.
    rewrite src_trimRWS_ok. cbn [rbind]. rewrite src_trimLWS_ok. reflexivity.
Qed.

Theorem src_shebang_ok sigs raw lim : src_shebang sigs raw lim = Val (shebang sigs raw).
Proof.
  unfold src_shebang, shebang. cbv zeta. rewrite src_firstLine_ok. cbn [rbind].
  rewrite (any_loop (fun s => src_shebangCheck s (first_line raw)) (fun s => shebang_check s (first_line raw))) by (intros x; apply src_shebangCheck_ok).
  cbn [rbind]. destruct (existsb _ sigs); reflexivity.
Qed.

(* ---- Text (C07) and Svg ---- *)
Lemma bin_byte_src c :
  ((((Z.of_N c <=? 8) || (Z.of_N c =? 11)) || ((14 <=? Z.of_N c) && (Z.of_N c <=? 26))) || ((28 <=? Z.of_N c) && (Z.of_N c <=? 31)))
  = bin_byte_impl c.
Proof.
  unfold bin_byte_impl. change 8 with (Z.of_N 8). change 11 with (Z.of_N 11). change 14 with (Z.of_N 14).
  change 26 with (Z.of_N 26). change 28 with (Z.of_N 28). change 31 with (Z.of_N 31).
  rewrite !zleb_N, !zeqb_N. reflexivity.
Qed.

Theorem src_Text_ok raw lim : src_Text raw lim = Val (text_det boms raw).
Proof.
  unfold src_Text, text_det. cbv zeta. destruct (from_bom boms raw) as [|e0 enc]; [|reflexivity].
  cbn [beq negb].
  assert (L : forall l i, range_loop (S := unit) (R := bool) (fun _ c2 _ =>
                (if (((c2 <=? 8) || (c2 =? 11)) || ((14 <=? c2) && (c2 <=? 26))) || ((28 <=? c2) && (c2 <=? 31))
                 then Val (Return false) else Val (Next tt))) i l tt
              = Val (if forallb (fun c => negb (bin_byte_impl c)) l then Done tt else Returned false)).
  { induction l as [|c l IH]; intros i; [reflexivity|]. cbn [range_loop forallb]. rewrite bin_byte_src.
    destruct (bin_byte_impl c); cbn [rbind negb andb]; [reflexivity|apply IH]. }
  rewrite L. cbn [rbind]. destruct (forallb _ raw); reflexivity.
Qed.

(* ---- Php: the two package-level detectors it calls are read off their declarations (ciPrefix / shebang of literals) ---- *)
Theorem src_Php_ok raw l :
  src_Php raw l = Val (match assoc "phpPageF"%string sigs, assoc "phpScriptF"%string sigs with
                       | Some (DCiPrefix a), Some (DShebang c) => ci_prefix a raw || shebang c raw
                       | _, _ => false
                       end).
Proof.
  unfold src_Php. cbv zeta. rewrite src_ciPrefix_ok. cbn [rbind].
  set (p := assoc "phpPageF"%string sigs). vm_compute in p. subst p.
  set (q := assoc "phpScriptF"%string sigs). vm_compute in q. subst q. cbv iota beta.
  destruct (ci_prefix _ raw); cbn [orb]; [reflexivity|]. rewrite src_shebang_ok. reflexivity.
Qed.
