(* C01 / C18: tarParseOctal, tarChksum, Tar as translated from the source never reach Panic and compute the total model.
   Re-checked on every run against the freshly translated definitions of Gen/SrcFuncs.v (translator harness/gores.go):
   an edit of the Go function that changes what it computes, or adds a run-time check that can fail, breaks the lemma. *)
From Coq Require Import Lia.
From Verif Require Import Base.Bytes Model.GoLite Model.Zip Model.Ole Model.Mkv Model.Tar Model.Checked Model.GoRes Model.Detect
  Gen.SrcFuncs Proofs.BytesP Proofs.GoLiteP Proofs.CheckedP Proofs.TranslateP Proofs.SrcBaseP.
Local Open Scope Z_scope.

(* ---- Tar: tarParseOctal, tarChksum ---- *)
Lemma drop_set_cut l : drop_set [32; 0]%N l = drop_cut l.
Proof.
  induction l as [|c l IH]; [reflexivity|]. cbn [drop_set drop_cut existsb]. unfold tar_cut. rewrite orb_false_r, IH. reflexivity.
Qed.
Lemma ztrim_tar l : ztrim l [32; 0]%N = tar_trim l.
Proof. unfold ztrim, tar_trim. rewrite !drop_set_cut. reflexivity. Qed.

Lemma land_shiftl_low a d : 0 <= d < 8 -> Z.land (Z.shiftl a 3) d = 0.
Proof.
  intros Hd. apply Z.bits_inj'. intros n Hn. rewrite Z.land_spec, Z.bits_0.
  destruct (Z.ltb_spec n 3) as [H|H].
  - rewrite Z.shiftl_spec_low by lia. reflexivity.
  - destruct (Z.eq_dec d 0) as [->|Hd0]; [rewrite Z.bits_0; apply andb_false_r|].
    rewrite (Z.bits_above_log2 d n); [apply andb_false_r|lia|].
    assert (Z.log2 d < 3) by (apply Z.log2_lt_pow2; [lia|change (2 ^ 3) with 8; lia]). lia.
Qed.
Lemma lor_low a d : 0 <= d < 8 -> Z.lor (Z.shiftl a 3) d = a * 8 + d.
Proof.
  intros Hd. rewrite <- Z.lxor_lor by (apply land_shiftl_low; exact Hd).
  rewrite <- Z.add_nocarry_lxor by (apply land_shiftl_low; exact Hd). rewrite Z.shiftl_mul_pow2 by lia. reflexivity.
Qed.

Theorem src_tarParseOctal_ok fld :
  src_tarParseOctal fld = Val (match tar_parse_octal fld with Some r => Z.of_N r | None => -1 end).
Proof.
  unfold src_tarParseOctal, tar_parse_octal. cbv zeta. rewrite ztrim_tar.
  destruct (tar_trim fld) as [|c0 t0] eqn:Et; [reflexivity|].
  replace (zlen (c0 :: t0) =? 0) with false by (symmetry; apply Z.eqb_neq; unfold zlen; cbn [length]; lia).
  match goal with |- context [range_loop ?f _ _ _] => set (body := f) end.
  assert (L : forall l i acc, range_loop body i l (Z.of_N acc)
                = Val (match octal_loop l acc with Some r => Done (Z.of_N r) | None => Returned (-1) end)).
  { induction l as [|c l IH]; intros i acc; [reflexivity|]. cbn [range_loop octal_loop]. unfold body at 1. cbv beta zeta.
    change 0 with (Z.of_N 0) at 1. rewrite zeqb_N. destruct (c =? 0)%N; [reflexivity|].
    destruct (Z.ltb_spec (Z.of_N c) 48) as [H1|H1], (N.ltb_spec c 48) as [H1'|H1']; try lia; [reflexivity|]. cbn [orb].
    destruct (Z.ltb_spec 55 (Z.of_N c)) as [H2|H2], (N.ltb_spec 55 c) as [H2'|H2']; try lia; [reflexivity|]. cbn [rbind].
    assert (Hd : u8w (Z.of_N c - 48) = Z.of_N (c - 48)) by (unfold u8w; rewrite Z.mod_small; lia).
    rewrite Hd, lor_low by lia. replace (Z.of_N acc * 8 + Z.of_N (c - 48)) with (Z.of_N (acc * 8 + (c - 48))) by lia. apply IH. }
  change 0 with (Z.of_N 0) at 2. rewrite L. cbn [rbind]. destruct (octal_loop (c0 :: t0) 0); reflexivity.
Qed.

Lemma bytes_ok_firstn n l : bytes_ok l = true -> bytes_ok (firstn n l) = true.
Proof.
  unfold bytes_ok. revert l. induction n as [|n IH]; intros l H; [reflexivity|]. destruct l as [|c l]; [reflexivity|].
  cbn [firstn forallb] in *. apply andb_prop in H. destruct H as [Hc Hl]. rewrite Hc. apply IH. exact Hl.
Qed.

Theorem src_tarChksum_ok h : bytes_ok h = true -> src_tarChksum h = Val (usum h, ssum h).
Proof.
  intros Hok. unfold src_tarChksum, usum, ssum. cbv zeta.
  match goal with |- context [range_loop ?f _ _ _] => set (body := f) end.
  assert (L : forall l i s u, bytes_ok l = true -> range_loop (R := Z * Z) body (Z.of_nat i) l (s, u)
                = Val (Done (s + sumf s8 i l, u + sumf u8 i l))).
  { induction l as [|c l IH]; intros i s u Hl; [cbn [range_loop sumf]; rewrite !Z.add_0_r; reflexivity|].
    unfold bytes_ok in Hl. cbn [forallb] in Hl. apply andb_prop in Hl. destruct Hl as [Hc Hl]. apply N.ltb_lt in Hc.
    cbn [range_loop sumf]. unfold body at 1. cbv beta iota zeta. cbn [rbind].
    replace (Z.of_nat i + 1) with (Z.of_nat (S i)) by lia. rewrite (IH (S i)) by exact Hl. unfold in_field.
    destruct (Z.leb_spec 148 (Z.of_nat i)) as [H1|H1], (Nat.leb_spec 148 i) as [H1'|H1']; try lia; cbn [andb].
    - destruct (Z.ltb_spec (Z.of_nat i) 156) as [H2|H2], (Nat.ltb_spec i 156) as [H2'|H2']; try lia.
      + do 3 f_equal; change (i8 32) with 32; lia.
      + assert (Hi : i8 (Z.of_N c) = s8 c).
        { unfold i8, s8, u8w. rewrite Z.mod_small by lia. destruct (Z.ltb_spec (Z.of_N c) 128), (N.ltb_spec c 128); lia. }
        rewrite Hi. unfold u8. do 3 f_equal; lia.
    - assert (Hi : i8 (Z.of_N c) = s8 c).
      { unfold i8, s8, u8w. rewrite Z.mod_small by lia. destruct (Z.ltb_spec (Z.of_N c) 128), (N.ltb_spec c 128); lia. }
      rewrite Hi. unfold u8. do 3 f_equal; lia. }
  change (range_loop body 0 h (0, 0)) with (range_loop body (Z.of_nat 0) h (0, 0)). rewrite (L h 0%nat 0 0 Hok). reflexivity.
Qed.

Theorem src_Tar_ok raw l : bytes_ok raw = true -> src_Tar raw l = Val (tar_det raw).
Proof.
  intros Hok. unfold src_Tar, tar_det. cbv zeta.
  destruct (Z.ltb_spec (zlen raw) 512) as [Hlt|Hge], (Nat.ltb_spec (length raw) 512) as [Hlt'|Hge']; unfold zlen in *; try lia; [reflexivity|].
  rewrite zto_val by (unfold zlen; lia). cbn [rbind]. change (Z.to_nat 512) with 512%nat.
  assert (Hl : length (firstn 512 raw) = 512%nat) by (rewrite firstn_length; lia).
  rewrite zto_val by (unfold zlen; lia). cbn [rbind]. change (Z.to_nat 100) with 100%nat.
  change [47; 103; 112; 107; 103; 45; 49; 0]%N with gpkg. destruct (contains gpkg _); [reflexivity|].
  rewrite zslice_val by (unfold zlen; lia). cbn [rbind]. change (Z.to_nat (156 - 148)) with 8%nat. change (Z.to_nat 148) with 148%nat.
  rewrite src_tarParseOctal_ok. cbn [rbind].
  destruct (tar_parse_octal _) as [r|]; [|reflexivity].
  replace (Z.of_N r =? -1) with false by (symmetry; apply Z.eqb_neq; lia).
  rewrite src_tarChksum_ok by (apply bytes_ok_firstn; exact Hok). reflexivity.
Qed.
