(* C13, forward direction: a header made of at least two complete well-formed lines followed by an incomplete
   last line (anything without a newline) is still recognised - the incomplete line is ignored. *)
From Coq Require Import Lia.
From Verif Require Import Base.Bytes Model.Json Model.Lines Spec.JsonGrammar Spec.JsonGrammar8259
  Proofs.BytesP Proofs.JsonAcct Proofs.JsonSound Proofs.JsonComplete Proofs.JsonQueryP Proofs.LinesP.
Local Open Scope N_scope.

Definition no_nl (l : bytes) : Prop := ~ In 10 l.
(* complete lines, each terminated by a newline *)
Fixpoint join_lines (ls : list bytes) : bytes :=
  match ls with [] => [] | l :: ls' => l ++ 10 :: join_lines ls' end.

(* ---- last newline ---- *)
Lemma last_nl_app : forall a b' i acc, last_nl_from (a ++ b') i acc = last_nl_from b' (i + length a)%nat (last_nl_from a i acc).
Proof.
  induction a as [|c a IH]; intros b' i acc; cbn [app last_nl_from length]; [rewrite Nat.add_0_r; reflexivity|].
  rewrite IH. f_equal. lia.
Qed.
Lemma last_nl_none : forall l i acc, no_nl l -> last_nl_from l i acc = acc.
Proof.
  induction l as [|c l IH]; intros i acc H; [reflexivity|]. cbn [last_nl_from].
  assert (c <> 10) by (intros ->; apply H; left; reflexivity).
  replace (c =? 10) with false by (symmetry; apply N.eqb_neq; assumption). cbn [andb].
  apply IH. intros Hin. apply H. right. exact Hin.
Qed.

(* the text before the last newline of  pre ++ "\n" ++ p  (p without newline, pre non-empty) is pre *)
Lemma drop_last_line_trunc pre p limit : pre <> [] -> no_nl p ->
  limit <> 0 -> limit <= N.of_nat (length (pre ++ 10 :: p)) -> N.of_nat (length (pre ++ 10 :: p)) < 4294967296 ->
  drop_last_line (pre ++ 10 :: p) limit = pre.
Proof.
  intros Hne Hp Hl0 Hle Hsmall. unfold drop_last_line. rewrite N.mod_small by exact Hsmall.
  replace (limit =? 0) with false by (symmetry; apply N.eqb_neq; exact Hl0).
  replace (N.of_nat (length (pre ++ 10 :: p)) <? limit) with false by (symmetry; apply N.ltb_ge; exact Hle).
  cbn [orb]. rewrite last_nl_app. cbn [last_nl_from]. rewrite N.eqb_refl. cbn [Nat.add andb].
  destruct (length pre) as [|n] eqn:El; [destruct pre; [congruence|discriminate]|]. cbn [Nat.eqb negb].
  rewrite last_nl_none by exact Hp. rewrite <- El. rewrite firstn_app, Nat.sub_diag, firstn_all. cbn. apply app_nil_r.
Qed.

(* ---- splitting into lines ---- *)
Lemma split_nl_line : forall l cur rest, no_nl l -> split_nl (l ++ 10 :: rest) cur = (rev cur ++ l) :: split_nl rest [].
Proof.
  induction l as [|c l IH]; intros cur rest H; cbn [app split_nl].
  - rewrite N.eqb_refl. rewrite app_nil_r. reflexivity.
  - assert (c <> 10) by (intros ->; apply H; left; reflexivity).
    replace (c =? 10) with false by (symmetry; apply N.eqb_neq; assumption).
    rewrite IH by (intros Hin; apply H; right; exact Hin). cbn [rev]. rewrite <- app_assoc. reflexivity.
Qed.
Lemma split_nl_last : forall l cur, no_nl l -> l <> [] -> split_nl l cur = [rev cur ++ l].
Proof.
  induction l as [|c l IH]; intros cur H Hne; [congruence|]. cbn [split_nl].
  assert (c <> 10) by (intros ->; apply H; left; reflexivity).
  replace (c =? 10) with false by (symmetry; apply N.eqb_neq; assumption).
  destruct l as [|c2 l2].
  - cbn [split_nl rev]. reflexivity.
  - rewrite IH; [|intros Hin; apply H; right; exact Hin|discriminate]. cbn [rev]. rewrite <- app_assoc. reflexivity.
Qed.

(* lines l1 .. lm (m >= 1, no newline inside, the last one non-empty), joined without a final newline *)
Fixpoint join_open (ls : list bytes) : bytes :=
  match ls with [] => [] | [l] => l | l :: ls' => l ++ 10 :: join_open ls' end.
Lemma split_join_open : forall ls, Forall no_nl ls -> Forall (fun l => l <> []) ls -> split_nl (join_open ls) [] = ls.
Proof.
  induction ls as [|l ls IH]; intros Hn Hne; [reflexivity|].
  inversion Hn as [|? ? Hl Hn']; subst. inversion Hne as [|? ? Hl' Hne']; subst.
  destruct ls as [|l2 ls2]; [cbn [join_open]; rewrite split_nl_last by assumption; reflexivity|].
  change (join_open (l :: l2 :: ls2)) with (l ++ 10 :: join_open (l2 :: ls2)).
  rewrite split_nl_line by exact Hl. cbn [rev app]. rewrite IH by assumption. reflexivity.
Qed.
Lemma join_lines_open : forall ls p, ls <> [] -> join_lines ls ++ p = join_open ls ++ 10 :: p.
Proof.
  induction ls as [|l ls IH]; intros p Hne; [congruence|]. destruct ls as [|l2 ls2].
  - cbn. rewrite <- app_assoc. reflexivity.
  - change (join_lines (l :: l2 :: ls2)) with (l ++ 10 :: join_lines (l2 :: ls2)).
    change (join_open (l :: l2 :: ls2)) with (l ++ 10 :: join_open (l2 :: ls2)).
    rewrite <- !app_assoc. cbn [app]. rewrite IH by discriminate. reflexivity.
Qed.
Lemma join_open_nonempty ls : ls <> [] -> Forall (fun l => l <> []) ls -> join_open ls <> [].
Proof.
  destruct ls as [|l ls]; [congruence|]. intros _ H. inversion H as [|? ? Hl _]; subst.
  destruct ls; cbn; [exact Hl|]. destruct l; [congruence|discriminate].
Qed.

(* the lines NdJSON visits when the header is complete lines ++ incomplete line *)
Theorem lines_visited ls p limit :
  ls <> [] -> Forall no_nl ls -> Forall (fun l => l <> []) ls -> no_nl p ->
  limit <> 0 -> limit <= N.of_nat (length (join_lines ls ++ p)) -> N.of_nat (length (join_lines ls ++ p)) < 4294967296 ->
  scan_lines (drop_last_line (join_lines ls ++ p) limit) = map drop_cr ls.
Proof.
  intros Hne Hn Hnn Hp Hl0 Hle Hsm. rewrite join_lines_open in * by exact Hne.
  rewrite drop_last_line_trunc; try assumption; [|apply join_open_nonempty; assumption].
  unfold scan_lines. rewrite split_join_open by assumption. reflexivity.
Qed.

Lemma split_join_lines : forall ls, Forall no_nl ls -> split_nl (join_lines ls) [] = ls.
Proof.
  induction ls as [|l ls IH]; intros Hn; [reflexivity|]. inversion Hn as [|? ? Hl Hn']; subst.
  cbn [join_lines]. rewrite split_nl_line by exact Hl. cbn [rev app]. rewrite IH by exact Hn'. reflexivity.
Qed.

Lemma list_snoc_cases {A} (l : list A) : l = [] \/ exists l' c, l = l' ++ [c].
Proof. destruct l as [|a l]; [left; reflexivity|]. right. destruct (@exists_last _ (a :: l)) as (l' & c & E); [discriminate|eauto]. Qed.
Lemma drop_cr_cr x : drop_cr (x ++ [13]) = x.
Proof. unfold drop_cr. rewrite rev_app_distr. cbn [rev app]. apply rev_involutive. Qed.
Lemma drop_cr_other x c : c <> 13 -> drop_cr (x ++ [c]) = x ++ [c].
Proof.
  intros Hc. unfold drop_cr. rewrite rev_app_distr. cbn [rev app].
  destruct c as [|p]; [reflexivity|]. destruct p as [[[[p|p|]|[p|p|]|]|[[p|p|]|[p|p|]|]|]|[[[p|p|]|[p|p|]|]|[[p|p|]|[p|p|]|]|]|]; try reflexivity. congruence.
Qed.

(* ---- NDJSON ---- *)
Section NdFwd.
  Variable maxrec : nat.
  Variable tk : N * N * N * N * N * N * N.

  (* a line holding one JSON value (any kind) of depth within the cap, white space around it *)
  Definition line_val (l v : bytes) : Prop :=
    exists w w2 d, l = w ++ v ++ w2 /\ WS w /\ WS w2 /\ SVal d v /\ (d <= maxrec)%nat.

  Lemma line_val_nonempty l v : line_val l v -> l <> [].
  Proof.
    intros (w & w2 & d & -> & _ & _ & Hv & _). destruct (SVal_head _ _ Hv) as (c & t & -> & _).
    destruct w; discriminate.
  Qed.

  Lemma drop_cr_val l v : line_val l v -> line_val (drop_cr l) v.
  Proof.
    intros (w & w2 & d & -> & Hw & Hw2 & Hv & Hd).
    destruct (list_snoc_cases w2) as [-> |(w2' & c & ->)].
    - (* the line ends with the value: a value never ends in CR *)
      rewrite app_nil_r. destruct (SVal_last d v Hv) as (v' & cl & -> & Hcl).
      rewrite app_assoc. rewrite drop_cr_other by (intros ->; discriminate Hcl).
      exists w, [], d. rewrite app_nil_r, <- app_assoc. repeat split; auto.
    - destruct (N.eq_dec c 13) as [-> |Hc].
      + replace (w ++ v ++ w2' ++ [13]) with ((w ++ v ++ w2') ++ [13]) by (rewrite <- !app_assoc; reflexivity).
        rewrite drop_cr_cr. exists w, w2', d. repeat split; auto. apply Forall_app in Hw2 as [H _]. exact H.
      + replace (w ++ v ++ w2' ++ [c]) with ((w ++ v ++ w2') ++ [c]) by (rewrite <- !app_assoc; reflexivity).
        rewrite drop_cr_other by exact Hc. exists w, (w2' ++ [c]), d. rewrite <- !app_assoc. repeat split; auto.
  Qed.

  Lemma tok_of_brackets : tok_of tk 91 = tk_arr tk /\ tok_of tk 123 = tk_obj tk.
  Proof. destruct tk as [[[[[[a b'] c] d] e] f] g]. split; reflexivity. Qed.

  Lemma line_parse l v : line_val l v ->
    p_parsed (parse maxrec tk [] l) = length l /\ p_ftok (parse maxrec tk [] l) = tok_of tk (hd 0 v).
  Proof.
    intros (w & w2 & d & -> & Hw & Hw2 & Hv & Hd).
    destruct (proj1 (complete_all maxrec [] tk) d v Hv (fuel_for (w ++ v ++ w2)) w w2 [] 0%nat init_st Hw Hw2 I)
      as (s' & Hgo & Hflags & _).
    { lia. } { unfold fuel_for. rewrite app_nil_r. lia. }
    rewrite app_nil_r in Hgo. destruct (Hflags eq_refl) as (Hc & Hft).
    unfold parse. rewrite Hgo. cbn [p_parsed p_ftok length]. rewrite Hc. split; [lia|exact Hft].
  Qed.

  Definition is_container (v : bytes) : Prop := exists t, v = 91 :: t \/ v = 123 :: t.

  Lemma nd_loop_fwd : forall ls cnt oa, Forall (fun l => exists v, line_val l v) ls ->
    exists oa', nd_loop maxrec tk true ls cnt oa = Some ((cnt + length ls)%nat, oa') /\ (oa <= oa')%nat /\
                (Exists (fun l => exists v, line_val l v /\ is_container v) ls -> (oa < oa')%nat).
  Proof.
    induction ls as [|l ls IH]; intros cnt oa Hall.
    - exists oa. cbn. rewrite Nat.add_0_r. split; [reflexivity|]. split; [lia|]. intros H; inversion H.
    - inversion Hall as [|? ? (v & Hl) Hrest]; subst. cbn [nd_loop].
      destruct (line_parse l v Hl) as [Hp Hf]. rewrite Hp, Nat.eqb_refl. cbn [orb negb].
      set (oa1 := if (p_ftok (parse maxrec tk [] l) =? tk_arr tk) || (p_ftok (parse maxrec tk [] l) =? tk_obj tk) then S oa else oa).
      destruct (IH (S cnt) oa1 Hrest) as (oa' & E & Hle & Hex). exists oa'.
      split; [rewrite E; cbn [length]; f_equal; f_equal; lia|].
      assert (Hoa : (oa <= oa1)%nat) by (subst oa1; destruct (_ || _); lia).
      split; [lia|]. intros Hx. inversion Hx as [? ? (v' & Hl' & Hc)|? ? Hx']; subst.
      + (* this line is a container: the same line has one value only up to the parse result *)
        destruct (line_parse l v' Hl') as [_ Hf']. destruct tok_of_brackets as [Ta To].
        assert (oa1 = S oa).
        { subst oa1. destruct Hc as (t & [-> | ->]); cbn [hd] in Hf'; rewrite Hf'.
          - rewrite Ta, N.eqb_refl. reflexivity.
          - rewrite To, N.eqb_refl, orb_true_r. reflexivity. }
        lia.
      + specialize (Hex Hx'). lia.
  Qed.

  (* truncated mode: at least two complete lines, each one JSON value, one of them an object or array, then
     anything without a newline *)
  Theorem ndjson_forward_trunc ls p limit :
    (2 <= length ls)%nat -> Forall no_nl ls -> Forall (fun l => exists v, line_val l v) ls ->
    Exists (fun l => exists v, line_val l v /\ is_container v) ls -> no_nl p ->
    limit <> 0 -> limit <= N.of_nat (length (join_lines ls ++ p)) -> N.of_nat (length (join_lines ls ++ p)) < 4294967296 ->
    ndjson maxrec tk true (join_lines ls ++ p) limit = true.
  Proof.
    intros Hlen Hn Hv Hc Hp Hl0 Hle Hsm. unfold ndjson.
    rewrite lines_visited; try assumption.
    - destruct (nd_loop_fwd (map drop_cr ls) 0 0) as (oa' & -> & _ & Hex).
      { apply Forall_map. eapply Forall_impl; [|exact Hv]. intros l (v & Hl). exists v. apply drop_cr_val, Hl. }
      rewrite map_length. cbn [Nat.add].
      replace (Nat.ltb 1 (length ls)) with true by (symmetry; apply Nat.ltb_lt; lia).
      cbn [andb]. apply Nat.ltb_lt. apply Hex. apply Exists_exists in Hc as (l & Hin & v & Hl & Hcv).
      apply Exists_exists. exists (drop_cr l). split; [apply in_map, Hin|]. exists v. split; [apply drop_cr_val, Hl|exact Hcv].
    - destruct ls; [cbn in Hlen; lia|discriminate].
    - eapply Forall_impl; [|exact Hv]. intros l (v & Hl). eapply line_val_nonempty, Hl.
  Qed.

  (* whole mode: the file itself, every line terminated *)
  Theorem ndjson_forward_whole ls limit :
    (2 <= length ls)%nat -> Forall no_nl ls -> Forall (fun l => exists v, line_val l v) ls ->
    Exists (fun l => exists v, line_val l v /\ is_container v) ls ->
    (limit = 0 \/ N.of_nat (length (join_lines ls)) < limit) -> N.of_nat (length (join_lines ls)) < 4294967296 ->
    ndjson maxrec tk true (join_lines ls) limit = true.
  Proof.
    intros Hlen Hn Hv Hc Hlim Hsm. unfold ndjson. rewrite drop_last_line_whole by assumption.
    unfold scan_lines. rewrite split_join_lines by exact Hn.
    destruct (nd_loop_fwd (map drop_cr ls) 0 0) as (oa' & -> & _ & Hex).
    { apply Forall_map. eapply Forall_impl; [|exact Hv]. intros l (v & Hl). exists v. apply drop_cr_val, Hl. }
    rewrite map_length. cbn [Nat.add].
    replace (Nat.ltb 1 (length ls)) with true by (symmetry; apply Nat.ltb_lt; lia).
    cbn [andb]. apply Nat.ltb_lt. apply Hex. apply Exists_exists in Hc as (l & Hin & v & Hl & Hcv).
    apply Exists_exists. exists (drop_cr l). split; [apply in_map, Hin|]. exists v. split; [apply drop_cr_val, Hl|exact Hcv].
  Qed.
End NdFwd.

(* ---- CSV / TSV on the quote-free model ---- *)
Lemma csv_split_map : forall l cur, csv_split l cur = map drop_cr (split_nl l cur).
Proof.
  induction l as [|c l IH]; intros cur; cbn [csv_split split_nl].
  - destruct cur; reflexivity.
  - destruct (c =? 10); [cbn [map]; rewrite IH; reflexivity|apply IH].
Qed.

Section CsvFwd.
  Variable sep : byte.

  (* a complete table row as the reader sees it: not empty, not a comment, n fields *)
  Definition row_ok (n : nat) (r : bytes) : Prop :=
    no_nl r /\ is_record (drop_cr r) = true /\ field_count sep (drop_cr r) = n.

  Lemma filter_rows n rows : Forall (row_ok n) rows -> filter is_record (map drop_cr rows) = map drop_cr rows.
  Proof.
    induction 1 as [|r rows (_ & Hr & _) _ IH]; [reflexivity|]. cbn [map filter]. rewrite Hr, IH. reflexivity.
  Qed.
  Lemma counts_rows n rows : Forall (row_ok n) rows -> map (field_count sep) (map drop_cr rows) = repeat n (length rows).
  Proof.
    induction 1 as [|r rows (_ & _ & Hc) _ IH]; [reflexivity|]. cbn [map length repeat]. rewrite Hc, IH. reflexivity.
  Qed.
  Lemma forallb_repeat n k : forallb (Nat.eqb n) (repeat n k) = true.
  Proof. induction k; [reflexivity|]. cbn. rewrite Nat.eqb_refl. exact IHk. Qed.

  Lemma no_quote_app a c : existsb (N.eqb 34) a = false -> existsb (N.eqb 34) c = false -> existsb (N.eqb 34) (a ++ c) = false.
  Proof. intros Ha Hc. rewrite existsb_app, Ha, Hc. reflexivity. Qed.
  Lemma no_quote_join rows : Forall (fun r => existsb (N.eqb 34) r = false) rows -> existsb (N.eqb 34) (join_lines rows) = false.
  Proof.
    induction 1 as [|r rows Hr _ IH]; [reflexivity|]. cbn [join_lines]. apply no_quote_app; [exact Hr|]. cbn [existsb]. exact IH.
  Qed.

  (* truncated mode: at least two complete rows of n >= 2 fields, then an incomplete row (anything without newline
     and quote): still a table *)
  Theorem csv_forward_trunc n rows p limit :
    (2 <= length rows)%nat -> (2 <= n)%nat -> Forall (row_ok n) rows -> Forall (fun r => r <> []) rows ->
    Forall (fun r => existsb (N.eqb 34) r = false) rows -> existsb (N.eqb 34) p = false -> no_nl p ->
    limit <> 0 -> limit <= N.of_nat (length (join_lines rows ++ p)) -> N.of_nat (length (join_lines rows ++ p)) < 4294967296 ->
    sv_model sep (join_lines rows ++ p) limit = Some true.
  Proof.
    intros Hlen Hn Hrows Hne Hq Hqp Hp Hl0 Hle Hsm. unfold sv_model.
    rewrite (no_quote_app _ _ (no_quote_join rows Hq) Hqp).
    unfold csv_records. rewrite csv_split_map.
    assert (Hvis := lines_visited rows p limit). unfold scan_lines in Hvis. rewrite Hvis; try assumption.
    - rewrite (filter_rows n rows Hrows), (counts_rows n rows Hrows).
      destruct rows as [|r1 [|r2 rows']]; cbn [length] in Hlen; try lia.
      cbn [length repeat]. change (forallb (Nat.eqb n) (n :: repeat n (length rows'))) with (forallb (Nat.eqb n) (repeat n (S (length rows')))).
      rewrite forallb_repeat. cbn [andb].
      replace (Nat.ltb 1 n) with true by (symmetry; apply Nat.ltb_lt; lia). reflexivity.
    - destruct rows; [cbn in Hlen; lia|discriminate].
    - eapply Forall_impl; [|exact Hrows]. intros r (H & _). exact H.
  Qed.

  Theorem csv_forward_whole n rows limit :
    (2 <= length rows)%nat -> (2 <= n)%nat -> Forall (row_ok n) rows ->
    Forall (fun r => existsb (N.eqb 34) r = false) rows ->
    (limit = 0 \/ N.of_nat (length (join_lines rows)) < limit) -> N.of_nat (length (join_lines rows)) < 4294967296 ->
    sv_model sep (join_lines rows) limit = Some true.
  Proof.
    intros Hlen Hn Hrows Hq Hlim Hsm. unfold sv_model. rewrite (no_quote_join rows Hq).
    unfold csv_records. rewrite csv_split_map. rewrite drop_last_line_whole by assumption.
    rewrite split_join_lines by (eapply Forall_impl; [|exact Hrows]; intros r (H & _); exact H).
    rewrite (filter_rows n rows Hrows), (counts_rows n rows Hrows).
    destruct rows as [|r1 [|r2 rows']]; cbn [length] in Hlen; try lia.
    cbn [length repeat]. change (forallb (Nat.eqb n) (n :: repeat n (length rows'))) with (forallb (Nat.eqb n) (repeat n (S (length rows')))).
    rewrite forallb_repeat. cbn [andb].
    replace (Nat.ltb 1 n) with true by (symmetry; apply Nat.ltb_lt; lia). reflexivity.
  Qed.
End CsvFwd.

Lemma In_firstn' {A} (x : A) : forall k l, In x (firstn k l) -> In x l.
Proof. induction k as [|k IH]; intros [|a l] H; cbn in *; try tauto. destruct H as [->|H]; [left; reflexivity|right; apply IH, H]. Qed.

(* any cut of a file of newline-terminated lines at or after the end of its second line is
   "complete lines ++ incomplete line" with at least two complete lines *)
Lemma cut_shape : forall ls k, Forall no_nl ls -> (k <= length (join_lines ls))%nat ->
  exists m p, firstn k (join_lines ls) = join_lines (firstn m ls) ++ p /\ no_nl p /\ (m <= length ls)%nat /\
              (forall j, (j <= length ls)%nat -> (length (join_lines (firstn j ls)) <= k)%nat -> (j <= m)%nat).
Proof.
  induction ls as [|l ls IH]; intros k Hn Hk.
  - exists 0%nat, []. cbn [join_lines length firstn] in *. rewrite firstn_nil. split; [reflexivity|]. split; [intros H; inversion H|]. split; [lia|]. intros j Hj _. lia.
  - inversion Hn as [|? ? Hl Hn']; subst. cbn [join_lines] in *.
    destruct (Nat.le_gt_cases (length l + 1) k) as [Hge|Hlt].
    + (* the first line is complete *)
      rewrite app_length in Hk. cbn [length] in Hk.
      destruct (IH (k - (length l + 1))%nat Hn' ltac:(lia)) as (m & p & E & Hp & Hm & Hmax).
      exists (S m), p. cbn [firstn join_lines]. split; [|split; [exact Hp|split; [cbn [length]; lia|]]].
      * replace (l ++ 10 :: join_lines ls) with ((l ++ [10]) ++ join_lines ls) by (rewrite <- app_assoc; reflexivity).
        rewrite firstn_app. rewrite firstn_all2 by (rewrite app_length; cbn; lia).
        rewrite app_length. cbn [length]. rewrite E. rewrite <- !app_assoc. reflexivity.
      * intros j Hj Hjk. destruct j as [|j]; [lia|]. cbn [firstn join_lines length] in *. rewrite app_length in Hjk. cbn [length] in Hjk.
        specialize (Hmax j ltac:(lia) ltac:(lia)). lia.
    + exists 0%nat, (firstn k l). cbn [firstn join_lines app]. split; [|split; [|split; [lia|]]].
      * rewrite firstn_app. replace (k - length l)%nat with 0%nat by lia. cbn [firstn]. rewrite app_nil_r. reflexivity.
      * intros Hin. apply Hl. eapply In_firstn'; eassumption.
      * intros j Hj Hjk. destruct j as [|j]; [lia|]. cbn [firstn join_lines] in Hjk. rewrite app_length in Hjk. cbn [length] in Hjk. lia.
Qed.

Lemma Forall_firstn' {A} (P : A -> Prop) m : forall l, Forall P l -> Forall P (firstn m l).
Proof. induction m as [|m IH]; intros [|a l] H; cbn; try constructor; inversion H; subst; auto. Qed.

(* the property, NDJSON: a file of lines, each one JSON value, the first an object or array; every limit from the
   end of the second line to the end of the file (truncated mode) *)
Theorem ndjson_any_cut maxrec tk ls limit :
  (2 <= length ls)%nat -> Forall no_nl ls -> Forall (fun l => exists v, line_val maxrec l v) ls ->
  (exists l0 rest v, ls = l0 :: rest /\ line_val maxrec l0 v /\ is_container v) ->
  N.of_nat (length (join_lines (firstn 2 ls))) <= limit -> limit <= N.of_nat (length (join_lines ls)) ->
  N.of_nat (length (join_lines ls)) < 4294967296 ->
  ndjson maxrec tk true (hdr limit (join_lines ls)) limit = true.
Proof.
  intros Hlen Hn Hv (l0 & rest & v0 & Els & Hl0 & Hc0) Hlo Hhi Hsm.
  assert (Hl0' : limit <> 0).
  { intros ->. subst ls. cbn [firstn join_lines] in Hlo. destruct rest; cbn in *; rewrite ?app_length in Hlo; cbn in Hlo; lia. }
  unfold hdr. replace (limit =? 0) with false by (symmetry; apply N.eqb_neq; exact Hl0'). rewrite take_firstn.
  destruct (cut_shape ls (N.to_nat limit) Hn ltac:(lia)) as (m & p & E & Hp & Hm & Hmax).
  assert (H2 : (2 <= m)%nat) by (apply Hmax; lia).
  rewrite E. apply ndjson_forward_trunc; try assumption.
  - rewrite firstn_length. lia.
  - apply Forall_firstn', Hn.
  - apply Forall_firstn', Hv.
  - subst ls. destruct m as [|m]; [lia|]. cbn [firstn]. apply Exists_cons_hd. exists v0. split; assumption.
  - rewrite <- E, firstn_length. lia.
  - rewrite <- E, firstn_length. lia.
Qed.

(* the property, CSV / TSV (quote-free model): a rectangular table of n >= 2 columns *)
Theorem csv_any_cut sep n rows limit :
  (2 <= length rows)%nat -> (2 <= n)%nat -> Forall (row_ok sep n) rows -> Forall (fun r => r <> []) rows ->
  Forall (fun r => existsb (N.eqb 34) r = false) rows ->
  N.of_nat (length (join_lines (firstn 2 rows))) <= limit -> limit <= N.of_nat (length (join_lines rows)) ->
  N.of_nat (length (join_lines rows)) < 4294967296 ->
  sv_model sep (hdr limit (join_lines rows)) limit = Some true.
Proof.
  intros Hlen Hn Hrows Hne Hq Hlo Hhi Hsm.
  assert (Hnl : Forall no_nl rows) by (eapply Forall_impl; [|exact Hrows]; intros r (H & _); exact H).
  assert (Hl0' : limit <> 0).
  { intros ->. destruct rows as [|r1 [|r2 rows']]; cbn [length] in Hlen; try lia.
    inversion Hne as [|? ? Hr1 _]; subst. cbn [firstn join_lines] in Hlo. rewrite app_length in Hlo. cbn in Hlo. lia. }
  unfold hdr. replace (limit =? 0) with false by (symmetry; apply N.eqb_neq; exact Hl0'). rewrite take_firstn.
  destruct (cut_shape rows (N.to_nat limit) Hnl ltac:(lia)) as (m & p & E & Hp & Hm & Hmax).
  assert (H2 : (2 <= m)%nat) by (apply Hmax; lia).
  assert (Hqall : existsb (N.eqb 34) (join_lines rows) = false) by (apply no_quote_join, Hq).
  assert (Hqp : existsb (N.eqb 34) p = false).
  { destruct (existsb (N.eqb 34) p) eqn:Ep; [|reflexivity]. apply existsb_exists in Ep as (x & Hin & Hx).
    assert (Hin' : In x (join_lines rows)).
    { apply (In_firstn' x (N.to_nat limit)). rewrite E. apply in_or_app. right. exact Hin. }
    assert (existsb (N.eqb 34) (join_lines rows) = true) by (apply existsb_exists; exists x; auto). congruence. }
  rewrite E. apply csv_forward_trunc with (n := n); try assumption.
  - rewrite firstn_length. lia.
  - apply Forall_firstn', Hrows.
  - apply Forall_firstn', Hne.
  - apply Forall_firstn', Hq.
  - rewrite <- E, firstn_length. lia.
  - rewrite <- E, firstn_length. lia.
Qed.
