(* Monotonicity under extension of the header (C17): hand-written detectors at the root of the
   tree, and the Ttf hand-over. *)
From Verif Require Import Base.Bytes Model.GoLite Model.Tar Model.Zip Model.Mkv Model.Detectors
  Proofs.BytesP Proofs.GoLiteP.
Local Open Scope nat_scope.

(* ---- tar: only the first 512 bytes count ---- *)
Lemma tar_window h e : 512 <= length h -> tar_det (h ++ e) = tar_det h.
Proof.
  intros H. unfold tar_det. rewrite app_length.
  destruct (Nat.ltb_spec (length h) 512); [lia|]. destruct (Nat.ltb_spec (length h + length e) 512); [lia|].
  rewrite firstn_app_le by lia. reflexivity.
Qed.
Lemma tar_long h : tar_det h = true -> 512 <= length h.
Proof. unfold tar_det. destruct (Nat.ltb_spec (length h) 512); [discriminate|lia]. Qed.
Theorem tar_monotone h e : tar_det h = true -> tar_det (h ++ e) = true.
Proof. intros H. rewrite tar_window; [exact H|apply tar_long, H]. Qed.

(* ---- index_of is stable once found ---- *)
Lemma index_from_len n : forall h k i, index_from n h k = Some i -> length n <= length h.
Proof.
  induction h as [|x h IH]; intros k i; cbn [index_from].
  - destruct (has_prefix n []) eqn:E; [|discriminate]. intros _. apply has_prefix_len in E. exact E.
  - destruct (has_prefix n (x :: h)) eqn:E; [intros _; apply has_prefix_len in E; exact E|].
    intros H. apply IH in H. cbn [length]. lia.
Qed.

Lemma index_from_app n t : forall h k i, index_from n h k = Some i -> index_from n (h ++ t) k = Some i.
Proof.
  induction h as [|x h IH]; intros k i; cbn [index_from app].
  - destruct (has_prefix n []) eqn:E; [|discriminate]. intros H. destruct n; [|discriminate].
    destruct t; cbn [index_from has_prefix]; exact H.
  - destruct (has_prefix n (x :: h)) eqn:E.
    + intros H. change (x :: h ++ t) with ((x :: h) ++ t). rewrite has_prefix_app by exact E. exact H.
    + intros H. pose proof (index_from_len _ _ _ _ H) as Hl.
      change (x :: h ++ t) with ((x :: h) ++ t).
      rewrite has_prefix_app_long by (cbn [length]; lia). rewrite E. apply IH, H.
Qed.

Lemma index_of_app n h t i : index_of n h = Some i -> index_of n (h ++ t) = Some i.
Proof. apply index_from_app. Qed.

Lemma index_from_bound n : forall h k i, index_from n h k = Some i -> k <= i /\ i + length n <= k + length h.
Proof.
  induction h as [|x h IH]; intros k i; cbn [index_from].
  - destruct (has_prefix n []) eqn:E; [|discriminate]. intros H; inversion H; subst. apply has_prefix_len in E. cbn in *. lia.
  - destruct (has_prefix n (x :: h)) eqn:E.
    + intros H; inversion H; subst. apply has_prefix_len in E. lia.
    + intros H. apply IH in H. cbn [length]. lia.
Qed.

(* ---- matroska ---- *)
Lemma nthb_app l e i : i < length l -> nthb (l ++ e) i = nthb l i.
Proof. intros H. unfold nthb. apply app_nth1, H. Qed.

Lemma firstn_min_app (inp e : bytes) k :
  exists t, firstn (Nat.min k (length (inp ++ e))) (inp ++ e) = firstn (Nat.min k (length inp)) inp ++ t.
Proof.
  rewrite app_length. destruct (Nat.le_gt_cases k (length inp)) as [H|H].
  - exists []. rewrite !Nat.min_l by lia. rewrite firstn_app_le by lia. rewrite app_nil_r. reflexivity.
  - rewrite (Nat.min_r k (length inp)) by lia. rewrite (firstn_all inp).
    rewrite firstn_app. rewrite (firstn_all2 (n := Nat.min k (length inp + length e)) inp) by lia.
    eexists; reflexivity.
Qed.

Theorem matroska_monotone inp fl e : matroska inp fl = true -> matroska (inp ++ e) fl = true.
Proof.
  unfold matroska. destruct (has_prefix ebml inp) eqn:Ep; [|discriminate]. cbn [negb].
  rewrite has_prefix_app by exact Ep. cbn [negb].
  destruct (index_of [66%N; 130%N] (firstn (Nat.min 4096 (length inp)) inp)) as [[|i0]|] eqn:Ei; try discriminate.
  destruct (firstn_min_app inp e 4096) as [t Ht]. rewrite Ht. rewrite (index_of_app _ _ t _ Ei).
  destruct (Nat.ltb_spec (S i0 + 2) (length inp)) as [H1|]; [|discriminate].
  destruct (Nat.ltb_spec (S i0 + 2 + vint_width (nthb inp (S i0 + 2))) (length inp)) as [H2|]; [|discriminate].
  intros Hp. rewrite app_length.
  destruct (Nat.ltb_spec (S i0 + 2) (length inp + length e)); [|lia].
  rewrite nthb_app by lia.
  destruct (Nat.ltb_spec (S i0 + 2 + vint_width (nthb inp (S i0 + 2))) (length inp + length e)); [|lia].
  rewrite skipn_app_le by lia. apply has_prefix_app, Hp.
Qed.

(* ---- CRX ---- *)
Lemma zip_simple_mono raw e : zip_simple raw = true -> zip_simple (raw ++ e) = true.
Proof.
  unfold zip_simple. intros H.
  assert (Hm : mono (PRet zip_bexp) = true) by (vm_compute; reflexivity).
  destruct (evalb zip_bexp raw) as [v|] eqn:E; [|discriminate]. subst v.
  pose proof (mono_sound (PRet zip_bexp) raw e Hm E) as H'. cbn [evalp] in H'. rewrite H'. reflexivity.
Qed.

Lemma u32le_app l e : 4 <= length l -> u32le (l ++ e) = u32le l.
Proof. intros H. unfold u32le. rewrite !nthb_app by lia. reflexivity. Qed.

Theorem crx_monotone raw e : (N.of_nat (length (raw ++ e)) < two32)%N -> crx_det raw = true -> crx_det (raw ++ e) = true.
Proof.
  intros Hsz. unfold crx_det. rewrite app_length in *.
  destruct (Nat.ltb_spec (length raw) 16) as [|H16]; [discriminate|].
  destruct (Nat.ltb_spec (length raw + length e) 16); [lia|]. rewrite !orb_false_l.
  destruct (has_prefix [67%N; 114%N; 50%N; 52%N] raw) eqn:Ep; [|discriminate].
  rewrite (has_prefix_app _ _ e Ep). cbn [negb].
  rewrite !skipn_app_le by lia. rewrite !u32le_app by (rewrite skipn_length; lia).
  set (zo := ((16 + u32le (skipn 8 raw) + u32le (skipn 12 raw)) mod two32)%N).
  rewrite (N.mod_small (N.of_nat (length raw + length e))) by exact Hsz.
  rewrite (N.mod_small (N.of_nat (length raw))) by lia.
  destruct (N.ltb_spec (N.of_nat (length raw)) zo); [discriminate|].
  destruct (N.ltb_spec (N.of_nat (length raw + length e)) zo); [lia|].
  rewrite skipn_app_le by lia. apply zip_simple_mono.
Qed.

(* ---- the Ttf hand-over: ttf excludes Access databases, which are root formats themselves ---- *)
Definition ttf_term : prog := PIfRet (BNot (BPrefixAt 0 [0;1;0;0]%N)) false (PRet (BAnd (BNot ace) (BNot mdb))).

Lemma evalb_prefix0 lit r : evalb (BPrefixAt 0 lit) r = Val (has_prefix lit r).
Proof. reflexivity. Qed.

Theorem ttf_handover raw e : evalp ttf_term raw = Val true ->
  evalp ttf_term (raw ++ e) = Val true \/ evalb ace (raw ++ e) = Val true \/ evalb mdb (raw ++ e) = Val true.
Proof.
  unfold ttf_term. rewrite !evalp_if, !evalp_ret, !evalb_not, !evalb_and, !evalb_not.
  assert (Hs : forall r, exists v, evalb (BPrefixAt 0 [0;1;0;0]%N) r = Val v).
  { intros r. rewrite evalb_prefix0. eauto. }
  assert (Ha : forall r, exists v, evalb ace r = Val v).
  { intros r. destruct (an_sound ace 0 _ r eq_refl (Nat.le_0_l _)) as (v & Hv & _). eauto. }
  assert (Hm : forall r, exists v, evalb mdb r = Val v).
  { intros r. destruct (an_sound mdb 0 _ r eq_refl (Nat.le_0_l _)) as (v & Hv & _). eauto. }
  destruct (Hs raw) as [v1 E1]. rewrite E1. destruct v1; cbn [negb]; [|discriminate].
  intros _.
  assert (E1' : evalb (BPrefixAt 0 [0;1;0;0]%N) (raw ++ e) = Val true).
  { rewrite evalb_prefix0 in *. assert (E : has_prefix [0;1;0;0]%N raw = true) by congruence.
    rewrite (has_prefix_app _ _ e E). reflexivity. }
  rewrite E1'. cbn [negb].
  destruct (Ha (raw ++ e)) as [va Ea]. destruct (Hm (raw ++ e)) as [vm Em]. rewrite Ea, Em.
  destruct va; [right; left; reflexivity|]. destruct vm; [right; right; reflexivity|]. left. reflexivity.
Qed.
