(* C08, truncated mode: every cut of a document of Spec/JsonGrammar8259.v that includes the opening
   bracket is accepted by the JSON detector when the header is cut by the limit (limit <= length).
   = completeness in whole mode (JsonComplete) + the scanner is online (JsonOnline) + fuel irrelevance. *)
From Coq Require Import Lia.
From Verif Require Import Base.Bytes Model.Json Spec.JsonGrammar Spec.JsonGrammar8259
  Proofs.BytesP Proofs.JsonAcct Proofs.JsonPartial Proofs.JsonComplete Proofs.JsonOnline.
Local Open Scope N_scope.

Section Trunc.
  Variable maxrec : nat.
  Variable tk : N * N * N * N * N * N * N.
  Variable want : N.
  Hypothesis Harr : N.land (tok_of tk 91) want <> 0.
  Hypothesis Hobj : N.land (tok_of tk 123) want <> 0.

  Lemma looks_like_head p : looks_like_obj_or_arr p = true ->
    exists c r, skip_space p = c :: r /\ (c = 123 \/ c = 91).
  Proof.
    unfold looks_like_obj_or_arr. destruct (skip_space p) as [|c r]; [discriminate|].
    intros H. exists c, r. split; [reflexivity|]. apply orb_true_iff in H as [H|H]; apply N.eqb_eq in H; auto.
  Qed.

  Theorem json_complete_trunc d raw p q limit :
    SDoc d raw -> (d <= maxrec)%nat -> raw = p ++ q ->
    looks_like_obj_or_arr p = true ->                    (* the cut falls after the opening bracket *)
    limit <> 0 -> limit <= N.of_nat (length p) ->        (* truncated mode *)
    json_helper maxrec tk [] want p limit = true.
  Proof.
    intros (w & v & w2 & Eraw & Hw & Hw2 & Hv & _) Hd Hsplit Hlook Hl0 Hlim.
    (* the whole document is scanned to completion *)
    destruct (proj1 (complete_all maxrec [] tk) d v Hv (fuel_for raw) w w2 [] 0%nat init_st Hw Hw2 I)
      as (s' & Hgo & _).
    { lia. }
    { unfold fuel_for. rewrite app_nil_r, <- Eraw. lia. }
    rewrite app_nil_r, <- Eraw, Hsplit in Hgo.
    (* hence the prefix is inspected to its last byte *)
    pose proof (scan_online maxrec [] tk _ p q 0%nat init_st s' Hgo) as Hib.
    assert (Hlen : (length p <= length raw)%nat) by (rewrite Hsplit, app_length; lia).
    rewrite <- Hsplit in Hib.
    rewrite (go_fuel maxrec [] tk (fuel_for raw) (fuel_for p) WAny p 0%nat init_st) in Hib
      by (unfold need, fuel_for; lia).
    (* first token and query flag *)
    destruct (looks_like_head p Hlook) as (c & r & Esk & Hc).
    assert (Hfl : ftok (snd (go maxrec [] tk (fuel_for p) WAny p 0%nat init_st)) = tok_of tk c /\
                  qsat (snd (go maxrec [] tk (fuel_for p) WAny p 0%nat init_st)) = true).
    { unfold fuel_for. cbn [go].
      destruct (any_body_flags maxrec [] tk (go maxrec [] tk (S (length p + length p))) p c r init_st Esk) as [H1 H2].
      - apply andb_false_iff. right. apply Nat.ltb_ge. lia.
      - split; [exact H1|apply H2; reflexivity]. }
    destruct Hfl as [Hft Hqs].
    unfold json_helper. rewrite Hlook. cbn [negb]. unfold parse.
    destruct (go maxrec [] tk (fuel_for p) WAny p 0%nat init_st) as [o sp]. cbn [snd] in *.
    cbn [p_qsat p_ftok p_parsed p_inspected]. rewrite Hqs, Hft. cbn [negb orb].
    assert (Hland : (N.land (tok_of tk c) want =? 0) = false).
    { apply N.eqb_neq. destruct Hc as [-> | ->]; assumption. }
    rewrite Hland.
    assert (Hm : (limit =? 0) || (N.of_nat (length p) <? limit) = false).
    { apply orb_false_iff. split; [apply N.eqb_neq, Hl0|apply N.ltb_ge, Hlim]. }
    rewrite Hm. rewrite Hib. cbn [init_st ib Nat.add]. rewrite Nat.eqb_refl. cbn [andb].
    destruct p; [discriminate Hlook|reflexivity].
  Qed.

  (* index of the first byte that is not white space: the opening bracket of a document *)
  Definition bracket_pos (raw : bytes) : nat := (length raw - length (skip_space raw))%nat.

  Lemma looks_like_cut raw k : looks_like_obj_or_arr raw = true -> (bracket_pos raw < k)%nat ->
    looks_like_obj_or_arr (firstn k raw) = true.
  Proof.
    intros Hl Hk. destruct (space_len raw) as (w & Hsplit & Hw & Hlen).
    unfold bracket_pos in Hk. unfold looks_like_obj_or_arr in *.
    destruct (skip_space raw) as [|c r] eqn:E; [discriminate|].
    assert (Hc : is_space c = false).
    { destruct (is_space c) eqn:Es; [|reflexivity]. apply orb_true_iff in Hl as [H|H]; apply N.eqb_eq in H; subst c; discriminate. }
    rewrite Hsplit. rewrite firstn_app. replace (firstn k w) with w by (symmetry; apply firstn_all2; lia).
    destruct (k - length w)%nat as [|k'] eqn:Ek; [lia|]. cbn [firstn].
    rewrite skip_space_ws_app; [exact Hl|exact Hw|exact Hc].
  Qed.

  (* the property on the JSON detector: whatever the limit, as long as the opening bracket is inside the header *)
  Theorem json_complete_every_cut d raw limit :
    SDoc d raw -> (d <= maxrec)%nat ->
    (limit = 0 \/ N.of_nat (bracket_pos raw) < limit) ->
    json_helper maxrec tk [] want (hdr limit raw) limit = true.
  Proof.
    intros Hdoc Hd Hlim. unfold hdr.
    destruct (N.eqb_spec limit 0) as [->|Hne].
    { apply (json_complete_whole maxrec tk want Harr Hobj d); auto. }
    destruct Hlim as [?|Hlim]; [contradiction|].
    rewrite take_firstn.
    destruct (N.ltb_spec (N.of_nat (length raw)) limit) as [Hlt|Hge].
    - rewrite firstn_all2 by lia. apply (json_complete_whole maxrec tk want Harr Hobj d); auto.
    - apply (json_complete_trunc d raw (firstn (N.to_nat limit) raw) (skipn (N.to_nat limit) raw)); auto.
      + symmetry. apply firstn_skipn.
      + apply looks_like_cut; [|lia].
        destruct Hdoc as (w & v & w2 & -> & Hw & _ & _ & (t & Ht)).
        unfold looks_like_obj_or_arr. rewrite skip_space_ws_app; [|exact Hw|destruct Ht as [-> | ->]; reflexivity].
        destruct Ht as [-> | ->]; reflexivity.
      + rewrite firstn_length. lia.
  Qed.
End Trunc.
