(* C16: the recursion level of the scanner never exceeds the cap, whatever the input; array bombs deeper
   than the cap are rejected in whole and in truncated mode. *)
From Verif Require Import Base.Bytes Model.Json Proofs.JsonAcct.
Local Open Scope nat_scope.

Lemma hw_bump k s : hw (bump k s) = hw s. Proof. reflexivity. Qed.

Lemma hw_consume_const cn : forall b s, hw (snd (consume_const b cn s)) = hw s.
Proof.
  induction cn as [|c cn IH]; intros b s; cbn [consume_const]; [reflexivity|].
  destruct b as [|x b]; [reflexivity|]. destruct (N.eqb x c); [|reflexivity]. rewrite IH. reflexivity.
Qed.
Lemma hw_consume_string : forall b h e s, hw (snd (consume_string b h e s)) = hw s.
Proof.
  induction b as [|c b IH]; intros h e s; cbn [consume_string]; [reflexivity|].
  destruct e.
  - destruct (simple_esc c); [rewrite IH; reflexivity|]. destruct (N.eqb c 117); [rewrite IH; reflexivity|reflexivity].
  - destruct h as [|h].
    + destruct (N.eqb c 92); [rewrite IH; reflexivity|]. destruct (N.eqb c 34); [reflexivity|rewrite IH; reflexivity].
    + destruct (is_xdigit c); [rewrite IH; reflexivity|reflexivity].
Qed.
Lemma hw_consume_number b s : hw (snd (consume_number b s)) = hw s.
Proof.
  unfold consume_number. destruct (skip_digits (drop_opt 46 (skip_digits (drop_opt 45 b)))) as [|c b5].
  - destruct (_ || _); reflexivity.
  - destruct (_ && _).
    + destruct (negb _); reflexivity.
    + destruct (_ || _); reflexivity.
Qed.

Section Depth.
  Variable maxrec : nat.
  Variable qs : list query.
  Variable tk : N * N * N * N * N * N * N.
  Hypothesis Hcap : maxrec <> 0.

  Definition hw_ok (rec : recT) := forall w b lvl s, hw s <= maxrec -> hw (snd (rec w b lvl s)) <= maxrec.

  Lemma hw_note_token c lvl r : hw (snd (note_token qs tk c lvl r)) = hw (snd r).
  Proof. destruct r as [o s]. unfold note_token. cbn [snd]. destruct (Nat.eqb lvl 0), qs; reflexivity. Qed.
  Lemma hw_after_value lvl r : hw (snd (after_value lvl r)) = hw (snd r).
  Proof. destruct r as [[b3|] s]; unfold after_value; [|reflexivity]. cbn. destruct (Nat.eqb lvl 0); reflexivity. Qed.
  Lemma hw_note_value qm b6 r : hw (snd (note_value qm b6 r)) = hw (snd r).
  Proof. destruct r as [[b7|] s]; unfold note_value; [|reflexivity]. destruct qm; [|reflexivity]. cbn. destruct (query_hit _ _); reflexivity. Qed.
  Lemma hw_key_step b2 r : hw (snd (fst (key_step qs b2 r))) = hw (snd r).
  Proof. destruct r as [[b3|] s]; reflexivity. Qed.

  Lemma dispatch_hw rec c b1 b2 lvl s1 : hw_ok rec -> hw s1 <= maxrec -> hw (snd (dispatch rec c b1 b2 lvl s1)) <= maxrec.
  Proof.
    intros Hr Hs. unfold dispatch.
    destruct (N.eqb c 34); [rewrite hw_consume_string; exact Hs|].
    destruct (N.eqb c 91); [apply Hr; exact Hs|].
    destruct (N.eqb c 123); [apply Hr; exact Hs|].
    destruct (N.eqb c 116); [rewrite hw_consume_const; exact Hs|].
    destruct (N.eqb c 102); [rewrite hw_consume_const; exact Hs|].
    destruct (N.eqb c 110); [rewrite hw_consume_const; exact Hs|].
    rewrite hw_consume_number; exact Hs.
  Qed.

  Lemma any_body_hw rec b lvl s : hw_ok rec -> hw s <= maxrec -> hw (snd (any_body maxrec qs tk rec b lvl s)) <= maxrec.
  Proof.
    intros Hr Hs. unfold any_body.
    destruct (Nat.eqb_spec maxrec 0) as [|_]; [congruence|]. cbn [negb andb].
    destruct (Nat.ltb_spec maxrec lvl) as [|Hl]; [exact Hs|].
    unfold consume_space. destruct (skip_space b) as [|c b2]; [cbn; lia|].
    rewrite hw_after_value, hw_note_token. apply dispatch_hw; [exact Hr|]. cbn. lia.
  Qed.

  Lemma arr_sep_hw rec lvl r : hw_ok rec -> hw (snd r) <= maxrec -> hw (snd (arr_sep rec lvl r)) <= maxrec.
  Proof.
    intros Hr. destruct r as [[b3|] s2]; unfold arr_sep; [|auto]. cbn [snd]. intros Hs.
    destruct b3 as [|d b4]; [exact Hs|]. destruct (N.eqb d 44); [apply Hr; exact Hs|]. destruct (N.eqb d 93); exact Hs.
  Qed.
  Lemma arr_body_hw rec b lvl s : hw_ok rec -> hw s <= maxrec -> hw (snd (arr_body rec b lvl s)) <= maxrec.
  Proof.
    intros Hr Hs. unfold arr_body, consume_space. destruct (skip_space b) as [|c b2]; [exact Hs|].
    destruct (N.eqb c 93); [exact Hs|]. apply arr_sep_hw; [exact Hr|]. apply Hr. exact Hs.
  Qed.
  Lemma obj_sep_hw rec lvl r : hw_ok rec -> hw (snd r) <= maxrec -> hw (snd (obj_sep rec lvl r)) <= maxrec.
  Proof.
    intros Hr. destruct r as [[b3|] s2]; unfold obj_sep; [|auto]. cbn [snd]. intros Hs.
    destruct b3 as [|d b4]; [exact Hs|]. destruct (N.eqb d 44); [apply Hr; exact Hs|]. destruct (N.eqb d 125); exact Hs.
  Qed.
  Lemma obj_value_hw rec lvl qm r : hw_ok rec -> hw (snd r) <= maxrec -> hw (snd (obj_value rec lvl qm r)) <= maxrec.
  Proof.
    intros Hr. destruct r as [[b3|] s2]; unfold obj_value; [|auto]. cbn [snd]. intros Hs. unfold consume_space.
    destruct (skip_space b3) as [|d b5]; [exact Hs|]. destruct (negb (N.eqb d 58)); [exact Hs|].
    destruct (skip_space b5) as [|e b7]; [exact Hs|].
    apply obj_sep_hw; [exact Hr|]. rewrite hw_note_value. apply Hr. exact Hs.
  Qed.
  Lemma obj_body_hw rec b lvl s : hw_ok rec -> hw s <= maxrec -> hw (snd (obj_body qs rec b lvl s)) <= maxrec.
  Proof.
    intros Hr Hs. unfold obj_body, consume_space. destruct (skip_space b) as [|c b2]; [exact Hs|].
    destruct (N.eqb c 125); [exact Hs|]. destruct (negb (N.eqb c 34)); [exact Hs|].
    destruct (key_step qs b2 (consume_string b2 0 false _)) as [r qm] eqn:Ek.
    apply obj_value_hw; [exact Hr|].
    replace r with (fst (key_step qs b2 (consume_string b2 0 false (bump 1 (bump (length b - length (c :: b2)) s))))) by (rewrite Ek; reflexivity).
    rewrite hw_key_step, hw_consume_string. exact Hs.
  Qed.

  Theorem go_hw : forall fuel, hw_ok (go maxrec qs tk fuel).
  Proof.
    induction fuel as [|f IH]; intros w b lvl s Hs; [exact Hs|].
    destruct w; cbn [go]; [apply any_body_hw|apply arr_body_hw|apply obj_body_hw]; assumption.
  Qed.

  (* the recursion level recorded by any Parse never exceeds the cap *)
  Theorem depth_bounded raw : p_hw (parse maxrec tk qs raw) <= maxrec.
  Proof.
    unfold parse. pose proof (go_hw (fuel_for raw) WAny raw 0 init_st (Nat.le_0_l _)) as H.
    destruct (go maxrec qs tk (fuel_for raw) WAny raw 0 init_st) as [o s]. exact H.
  Qed.

  (* ---- array bombs ---- *)
  Lemma skip_space_bracket l : skip_space (91%N :: l) = 91%N :: l. Proof. reflexivity. Qed.

  Definition bomb_any (f : nat) := forall n lvl rest s, lvl <= maxrec + 1 -> maxrec + 2 <= lvl + n ->
    exists s', go maxrec qs tk f WAny (repeat 91%N n ++ rest) lvl s = (None, s') /\ ib s' + lvl <= ib s + maxrec + 1.
  Definition bomb_arr (f : nat) := forall n lvl rest s, 1 <= lvl -> lvl <= maxrec + 1 -> 1 <= n -> maxrec + 2 <= lvl + n ->
    exists s', go maxrec qs tk f WArr (repeat 91%N n ++ rest) lvl s = (None, s') /\ ib s' + lvl <= ib s + maxrec + 1.

  Lemma bomb_both : forall f, bomb_any f /\ bomb_arr f.
  Proof.
    induction f as [|f [IHa IHr]].
    - split; intros; eexists; (split; [reflexivity|rewrite ib_set_oof; lia]).
    - split.
      + (* WAny *)
        intros n lvl rest s Hl Hn. cbn [go]. unfold any_body.
        destruct (Nat.eqb_spec maxrec 0) as [|_]; [congruence|]. cbn [negb andb].
        destruct (Nat.ltb_spec maxrec lvl) as [Hgt|Hle]; [eexists; split; [reflexivity|lia]|].
        destruct n as [|n]; [lia|]. cbn [repeat app]. unfold consume_space. rewrite skip_space_bracket.
        unfold dispatch. cbn [N.eqb Pos.eqb].
        destruct (IHr (S n - 1) (S lvl) rest (set_path ([91%N] :: path (bump (length (91%N :: repeat 91%N n ++ rest) - length (91%N :: repeat 91%N n ++ rest)) (see_lvl lvl s))) (bump 1 (bump (length (91%N :: repeat 91%N n ++ rest) - length (91%N :: repeat 91%N n ++ rest)) (see_lvl lvl s))))) as (s' & Hgo & Hib); try lia.
        replace (S n - 1) with n in Hgo by lia. rewrite Hgo.
        destruct (note_token_eq qs tk 91%N lvl None s') as (sn & -> & Hsn). cbn [after_value].
        eexists; split; [reflexivity|]. rewrite Hsn. cbn in Hib. rewrite Nat.sub_diag in Hib. lia.
      + (* WArr *)
        intros n lvl rest s Hl1 Hl Hn1 Hn. cbn [go]. unfold arr_body, consume_space.
        destruct n as [|n]; [lia|]. cbn [repeat app]. rewrite skip_space_bracket. cbn [N.eqb Pos.eqb].
        destruct (IHa (S n) lvl rest (bump (length (91%N :: repeat 91%N n ++ rest) - length (91%N :: repeat 91%N n ++ rest)) s)) as (s' & Hgo & Hib); try lia.
        cbn [repeat app] in Hgo. rewrite Hgo. cbn [arr_sep].
        eexists; split; [reflexivity|]. cbn in Hib. rewrite Nat.sub_diag in Hib. lia.
  Qed.

  (* an input that opens more than cap+1 arrays in a row is never reported as JSON, in either mode *)
  Theorem array_bomb_rejected want n rest limit : maxrec + 2 <= n ->
    json_helper maxrec tk qs want (repeat 91%N n ++ rest) limit = false.
  Proof.
    intros Hn. unfold json_helper. destruct (looks_like_obj_or_arr _); [|reflexivity]. cbn [negb].
    unfold parse.
    destruct (proj1 (bomb_both (fuel_for (repeat 91%N n ++ rest))) n 0 rest init_st ltac:(lia) ltac:(lia)) as (s' & -> & Hib).
    cbn [p_qsat p_ftok p_parsed p_inspected].
    destruct (negb (qsat s') || _); [reflexivity|].
    assert (Hlen : maxrec + 2 <= length (repeat 91%N n ++ rest)) by (rewrite app_length, repeat_length; lia).
    destruct ((limit =? 0)%N || _).
    - destruct (complete s'); apply Nat.eqb_neq; lia.
    - apply andb_false_iff. left. apply Nat.eqb_neq. cbn in Hib. lia.
  Qed.
End Depth.
