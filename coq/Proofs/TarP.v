(* C18: tar detection tracks header checksum validity. *)
From Verif Require Import Base.Bytes Model.Tar Spec.SpecTar Proofs.BytesP.
Local Open Scope Z_scope.

(* number of bytes >= 128 outside the field *)
Fixpoint highs (i : nat) (h : list N) : Z :=
  match h with
  | [] => 0
  | c :: t => (if in_field i then 0 else if (c <? 128)%N then 0 else 1) + highs (S i) t
  end.

Lemma highs_nonneg : forall h i, 0 <= highs i h.
Proof. induction h as [|c t IH]; intros i; cbn [highs]; [lia|]. specialize (IH (S i)).
  destruct (in_field i); cbv iota; [lia|]. destruct (c <? 128)%N; cbv iota; lia. Qed.

Lemma u_minus_s : forall h i, sumf u8 i h - sumf s8 i h = 256 * highs i h.
Proof. induction h as [|c t IH]; intros i; cbn [sumf highs]; [lia|]. specialize (IH (S i)).
  destruct (in_field i); cbv iota; [lia|].
  assert (Hc : u8 c - s8 c = 256 * (if (c <? 128)%N then 0 else 1)) by (unfold u8, s8; destruct (c <? 128)%N; lia).
  destruct (c <? 128)%N; cbv iota in *; lia. Qed.

Lemma sumf_upd f : forall h i p v, (p < length h)%nat -> in_field (i + p) = false ->
  sumf f i (upd h p v) = sumf f i h + (f v - f (nth p h 0%N)).
Proof.
  induction h as [|c t IH]; intros i p v Hp Hf; cbn [length] in Hp; [lia|].
  destruct p as [|p]; cbn [upd sumf nth].
  - rewrite Nat.add_0_r in Hf. rewrite Hf. lia.
  - rewrite (IH (S i) p v); [lia|lia|]. replace (S i + p)%nat with (i + S p)%nat by lia. exact Hf.
Qed.

Lemma s8_inj a b : (a < 256)%N -> (b < 256)%N -> s8 a = s8 b -> a = b.
Proof. unfold s8. intros Ha Hb. destruct (a <? 128)%N eqn:Ea, (b <? 128)%N eqn:Eb;
  try apply N.ltb_lt in Ea; try apply N.ltb_lt in Eb; try apply N.ltb_ge in Ea; try apply N.ltb_ge in Eb; lia. Qed.
Lemma s8_range a : (a < 256)%N -> -128 <= s8 a <= 127.
Proof. unfold s8. intros Ha. destruct (a <? 128)%N eqn:Ea; [apply N.ltb_lt in Ea|apply N.ltb_ge in Ea]; lia. Qed.

(* The arithmetic heart of C18: after corrupting one byte outside the checksum field, the recorded sum
   (unsigned or signed convention) equals neither recomputed sum. *)
Theorem corruption_breaks_both :
  forall h p v rec,
    (p < length h)%nat -> in_field p = false ->
    (v < 256)%N -> (nth p h 0 < 256)%N -> v <> nth p h 0%N ->
    (rec = usum h \/ rec = ssum h) ->
    rec <> usum (upd h p v) /\ rec <> ssum (upd h p v).
Proof.
  intros h p v rec Hp Hf Hv Ho Hne Hrec.
  set (h' := upd h p v).
  assert (Hu : usum h' = usum h + (u8 v - u8 (nth p h 0%N))) by (apply sumf_upd; auto).
  assert (Hs : ssum h' = ssum h + (s8 v - s8 (nth p h 0%N))) by (apply sumf_upd; auto).
  pose proof (u_minus_s h' 0%nat) as Hk'. pose proof (highs_nonneg h' 0%nat) as Hk'0.
  fold (usum h') (ssum h') in Hk'.
  pose proof (s8_range _ Hv) as Rv. pose proof (s8_range _ Ho) as Ro.
  assert (Hd : u8 v - u8 (nth p h 0%N) <> 0) by (unfold u8; lia).
  assert (Hd2 : s8 v - s8 (nth p h 0%N) <> 0) by (intros E; apply Hne, s8_inj; auto; lia).
  assert (Bd : -255 <= u8 v - u8 (nth p h 0%N) <= 255) by (unfold u8; lia).
  destruct Hrec as [-> | ->]; split; nia.
Qed.


(* ---- from the arithmetic to the detector ---- *)
Lemma upd_length h : forall p v, length (upd h p v) = length h.
Proof. induction h as [|c t IH]; intros [|p] v; cbn [upd length]; auto. Qed.

Lemma firstn_upd_ge h : forall n p v, (n <= p)%nat -> firstn n (upd h p v) = firstn n h.
Proof.
  induction h as [|c t IH]; intros n p v H; [destruct n; reflexivity|].
  destruct n as [|n]; [reflexivity|]. destruct p as [|p]; [lia|]. cbn [upd firstn]. rewrite IH by lia. reflexivity.
Qed.
Lemma skipn_upd_lt h : forall n p v, (p < n)%nat -> skipn n (upd h p v) = skipn n h.
Proof.
  induction h as [|c t IH]; intros n p v H; [destruct n; reflexivity|].
  destruct n as [|n]; [lia|]. destruct p as [|p]; [reflexivity|]. cbn [upd skipn]. apply IH. lia.
Qed.
Lemma skipn_upd_ge h : forall n p v, (n <= p)%nat -> skipn n (upd h p v) = upd (skipn n h) (p - n) v.
Proof.
  induction h as [|c t IH]; intros n p v H; [destruct n; reflexivity|].
  destruct n as [|n]; [rewrite Nat.sub_0_r; reflexivity|]. destruct p as [|p]; [lia|]. cbn [upd skipn Nat.sub]. apply IH. lia.
Qed.

(* the checksum field is untouched by an update outside it *)
Lemma chk_field_upd h p v : in_field p = false -> chk_field (upd h p v) = chk_field h.
Proof.
  unfold in_field, chk_field. intros Hf.
  destruct (Nat.le_gt_cases 148 p) as [Hge|Hlt].
  - assert (156 <= p)%nat.
    { destruct (Nat.leb_spec 148 p); [|lia]. destruct (Nat.ltb_spec p 156); [discriminate|lia]. }
    rewrite skipn_upd_ge by lia. apply firstn_upd_ge. lia.
  - rewrite skipn_upd_lt by lia. reflexivity.
Qed.

Lemma tar_det_block h rest : length h = 512%nat ->
  tar_det (h ++ rest) = negb (gpkg_name h) && tar_header_ok h.
Proof.
  intros Hl. unfold tar_det, tar_header_ok, gpkg_name, chk_field. rewrite app_length, Hl.
  destruct (Nat.ltb_spec (512 + length rest) 512); [lia|].
  rewrite firstn_app_le by lia. rewrite (firstn_all2 (n := 512) h) by lia. rewrite Nat.eqb_refl. cbn [andb].
  destruct (contains gpkg (firstn 100 h)); [reflexivity|]. cbn [negb andb].
  destruct (tar_parse_octal _); reflexivity.
Qed.

(* every first block satisfying the writer-side predicate is accepted, unless it carries the gpkg name *)
Theorem tar_accepts h rest : tar_header_ok h = true -> gpkg_name h = false -> tar_det (h ++ rest) = true.
Proof.
  intros Hok Hg. assert (Hl : length h = 512%nat).
  { unfold tar_header_ok in Hok. apply andb_true_iff in Hok as [H _]. apply Nat.eqb_eq, H. }
  rewrite tar_det_block by exact Hl. rewrite Hg, Hok. reflexivity.
Qed.

(* corrupting any single byte of the first block outside the checksum field defeats the check *)
Theorem tar_corruption h rest p v :
  tar_header_ok h = true -> (p < 512)%nat -> in_field p = false ->
  (v < 256)%N -> (nth p h 0 < 256)%N -> v <> nth p h 0%N ->
  tar_det (upd h p v ++ rest) = false.
Proof.
  intros Hok Hp Hf Hv Ho Hne.
  assert (Hl : length h = 512%nat).
  { unfold tar_header_ok in Hok. apply andb_true_iff in Hok as [H _]. apply Nat.eqb_eq, H. }
  rewrite tar_det_block by (rewrite upd_length; exact Hl).
  apply andb_false_iff. right.
  unfold tar_header_ok in *. rewrite upd_length, Hl, Nat.eqb_refl in *. cbn [andb] in *.
  rewrite chk_field_upd by exact Hf.
  destruct (tar_parse_octal (chk_field h)) as [s|]; [|reflexivity].
  assert (Hrec : Z.of_N s = usum h \/ Z.of_N s = ssum h).
  { apply orb_true_iff in Hok as [H|H]; apply Z.eqb_eq in H; auto. }
  destruct (corruption_breaks_both h p v (Z.of_N s) ltac:(lia) Hf Hv Ho Hne Hrec) as [H1 H2].
  apply orb_false_iff. split; apply Z.eqb_neq; assumption.
Qed.
