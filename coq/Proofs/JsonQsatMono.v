(* querySatisfied is never reset: whatever a scan returns - success or failure - a flag that was set stays set. *)
From Coq Require Import Lia.
From Verif Require Import Base.Bytes Model.Json Proofs.JsonAcct Proofs.JsonPath.
Local Open Scope N_scope.

Section Mono.
  Variable maxrec : nat.
  Variable qs : list query.
  Variable tk : N * N * N * N * N * N * N.

  Definition rec_mono (rec : recT) := forall w b lvl s, qsat s = true -> qsat (snd (rec w b lvl s)) = true.

  Lemma mono_const cn b s : qsat s = true -> qsat (snd (consume_const b cn s)) = true.
  Proof. intros H. destruct (consume_const b cn s) as [o s'] eqn:E. apply consume_const_keeps in E as [_ E]. cbn. congruence. Qed.
  Lemma mono_string b h e s : qsat s = true -> qsat (snd (consume_string b h e s)) = true.
  Proof. intros H. destruct (consume_string b h e s) as [o s'] eqn:E. apply consume_string_keeps in E as [_ E]. cbn. congruence. Qed.
  Lemma mono_number b s : qsat s = true -> qsat (snd (consume_number b s)) = true.
  Proof. intros H. destruct (consume_number b s) as [o s'] eqn:E. apply consume_number_keeps in E as [_ E]. cbn. congruence. Qed.

  Lemma mono_note_token c lvl r : qsat (snd r) = true -> qsat (snd (note_token qs tk c lvl r)) = true.
  Proof. destruct r as [o s]. unfold note_token. cbn [snd]. intros H. destruct (Nat.eqb lvl 0), qs; cbn; auto. Qed.
  Lemma mono_after_value lvl r : qsat (snd r) = true -> qsat (snd (after_value lvl r)) = true.
  Proof. destruct r as [[b3|] s]; unfold after_value; cbn [snd]; intros H; [|exact H]. unfold consume_space. destruct (Nat.eqb lvl 0); cbn; exact H. Qed.
  Lemma mono_note_value qm b6 r : qsat (snd r) = true -> qsat (snd (note_value qm b6 r)) = true.
  Proof. destruct r as [[b7|] s]; unfold note_value; cbn [snd]; intros H; [|exact H]. destruct qm as [q|]; [|exact H]. cbn. destruct (query_hit q _); [reflexivity|exact H]. Qed.

  Lemma any_body_mono rec b lvl s : rec_mono rec -> qsat s = true -> qsat (snd (any_body maxrec qs tk rec b lvl s)) = true.
  Proof.
    intros Hr Hs. unfold any_body. destruct (negb (Nat.eqb maxrec 0) && Nat.ltb maxrec lvl); [exact Hs|].
    unfold consume_space. destruct (skip_space b) as [|c b2]; [exact Hs|].
    apply mono_after_value, mono_note_token. unfold dispatch.
    destruct (c =? 34); [apply mono_string; exact Hs|].
    destruct (c =? 91); [apply Hr; exact Hs|].
    destruct (c =? 123); [apply Hr; exact Hs|].
    destruct (c =? 116); [apply mono_const; exact Hs|].
    destruct (c =? 102); [apply mono_const; exact Hs|].
    destruct (c =? 110); [apply mono_const; exact Hs|].
    apply mono_number; exact Hs.
  Qed.

  Lemma arr_sep_mono rec lvl r : rec_mono rec -> qsat (snd r) = true -> qsat (snd (arr_sep rec lvl r)) = true.
  Proof.
    intros Hr. destruct r as [[b3|] s2]; unfold arr_sep; cbn [snd]; intros H; [|exact H].
    destruct b3 as [|d b4]; [exact H|]. destruct (d =? 44); [apply Hr; exact H|]. destruct (d =? 93); exact H.
  Qed.
  Lemma arr_body_mono rec b lvl s : rec_mono rec -> qsat s = true -> qsat (snd (arr_body rec b lvl s)) = true.
  Proof.
    intros Hr Hs. unfold arr_body, consume_space. destruct (skip_space b) as [|c b2]; [exact Hs|].
    destruct (c =? 93); [exact Hs|]. apply arr_sep_mono; [exact Hr|]. apply Hr. exact Hs.
  Qed.
  Lemma obj_sep_mono rec lvl r : rec_mono rec -> qsat (snd r) = true -> qsat (snd (obj_sep rec lvl r)) = true.
  Proof.
    intros Hr. destruct r as [[b3|] s2]; unfold obj_sep; cbn [snd]; intros H; [|exact H].
    destruct b3 as [|d b4]; [exact H|]. destruct (d =? 44); [apply Hr; exact H|]. destruct (d =? 125); exact H.
  Qed.
  Lemma obj_value_mono rec lvl qm r : rec_mono rec -> qsat (snd r) = true -> qsat (snd (obj_value rec lvl qm r)) = true.
  Proof.
    intros Hr. destruct r as [[b3|] s2]; unfold obj_value; cbn [snd]; intros H; [|exact H]. unfold consume_space.
    destruct (skip_space b3) as [|d b5]; [exact H|]. destruct (negb (d =? 58)); [exact H|].
    destruct (skip_space b5) as [|e b7]; [exact H|].
    apply obj_sep_mono; [exact Hr|]. apply mono_note_value. apply Hr. exact H.
  Qed.
  Lemma obj_body_mono rec b lvl s : rec_mono rec -> qsat s = true -> qsat (snd (obj_body qs rec b lvl s)) = true.
  Proof.
    intros Hr Hs. unfold obj_body, consume_space. destruct (skip_space b) as [|c b2]; [exact Hs|].
    destruct (c =? 125); [exact Hs|]. destruct (negb (c =? 34)); [exact Hs|].
    match goal with |- context [consume_string b2 0 false ?st] => pose proof (mono_string b2 0%nat false st Hs) as Hk; destruct (consume_string b2 0 false st) as [[b3|] sk] end; cbn [snd] in Hk.
    - unfold key_step. apply obj_value_mono; [exact Hr|exact Hk].
    - unfold key_step, obj_value. exact Hk.
  Qed.

  Theorem go_mono : forall fuel, rec_mono (go maxrec qs tk fuel).
  Proof.
    induction fuel as [|f IH]; intros w b lvl s Hs; [exact Hs|].
    destruct w; cbn [go]; [apply any_body_mono|apply arr_body_mono|apply obj_body_mono]; assumption.
  Qed.
End Mono.
