(* C04: a Parse never depends on what an earlier (possibly aborted) Parse left behind. *)
From Verif Require Import Base.Bytes Model.Json Model.Pool.
Local Open Scope nat_scope.

Definition PoolInv (cap : nat) (pool : list pstate) : Prop := Forall (fun p => ps_maxrec p = cap) pool.

(* reset erases every field a scan reads *)
Theorem reset_erases s s' : reset s = reset s'.
Proof. reflexivity. Qed.

Lemma parse_on_pure tk p qs raw : fst (parse_on tk p qs raw) = parse (ps_maxrec p) tk qs raw.
Proof.
  unfold parse_on, parse. change (reset (ps_st p)) with init_st.
  destruct (go (ps_maxrec p) qs tk (fuel_for raw) WAny raw 0 init_st) as [o s]. reflexivity.
Qed.

Lemma parse_on_keeps_cap tk p qs raw : ps_maxrec (snd (parse_on tk p qs raw)) = ps_maxrec p.
Proof.
  unfold parse_on. destruct (go (ps_maxrec p) qs tk (fuel_for raw) WAny raw 0 (reset (ps_st p))) as [o s]. reflexivity.
Qed.

Lemma remove_nth_inv {A} (P : A -> Prop) : forall i l, Forall P l -> Forall P (remove_nth i l).
Proof.
  induction i as [|i IH]; intros [|x l] H; cbn [remove_nth]; auto; inversion H; subst; auto.
Qed.

(* for every history and every behaviour of the pool: each result is the pure function of its own input *)
Theorem history_pure tk cap : forall ops choices pool, PoolInv cap pool ->
  run tk cap ops choices pool = map (fun o => parse cap tk (fst o) (snd o)) ops.
Proof.
  induction ops as [|[qs raw] ops IH]; intros choices pool Hinv; [reflexivity|].
  cbn [run map fst snd].
  set (ch := match choices with c :: _ => c | [] => None end).
  assert (Hsel : exists p pool', (match ch with
                       | Some i => match nth_error pool i with Some p => (p, remove_nth i pool) | None => (fresh cap, pool) end
                       | None => (fresh cap, pool) end) = (p, pool') /\ ps_maxrec p = cap /\ PoolInv cap pool').
  { destruct ch as [i|]; [|exists (fresh cap), pool; auto].
    destruct (nth_error pool i) as [p|] eqn:E; [|exists (fresh cap), pool; auto].
    exists p, (remove_nth i pool). repeat split; [|apply remove_nth_inv, Hinv].
    unfold PoolInv in Hinv. rewrite Forall_forall in Hinv. apply Hinv. eapply nth_error_In; eauto. }
  destruct Hsel as (p & pool' & -> & Hp & Hinv').
  pose proof (parse_on_pure tk p qs raw) as Hpure. pose proof (parse_on_keeps_cap tk p qs raw) as Hcap.
  destruct (parse_on tk p qs raw) as [out p']. cbn [fst snd] in *. rewrite Hpure, Hp. f_equal.
  apply IH. constructor; [congruence|exact Hinv'].
Qed.

(* the examined header alone decides: inputs that agree on their first `limit` bytes have the same header *)
Theorem header_only l x y : hdr l x = hdr l y -> forall f : list N -> N -> bool, f (hdr l x) l = f (hdr l y) l.
Proof. intros -> f. reflexivity. Qed.
