(* C10: the key-path stack is balanced (the invariant whose violation was defect D2): a successful scan of a
   value leaves currPath as it found it, a successful scan of an array tail pops exactly the marker its
   caller pushed, an object tail leaves it unchanged; querySatisfied is never reset. *)
From Coq Require Import Lia.
From Verif Require Import Base.Bytes Model.Json Proofs.JsonAcct.
Local Open Scope N_scope.

Lemma path_bump k s : path (bump k s) = path s. Proof. reflexivity. Qed.
Lemma qsat_bump k s : qsat (bump k s) = qsat s. Proof. reflexivity. Qed.

Lemma consume_const_keeps cn : forall b s o s', consume_const b cn s = (o, s') -> path s' = path s /\ qsat s' = qsat s.
Proof.
  induction cn as [|c cn IH]; intros b s o s'; cbn [consume_const].
  - intros E; injection E as _ <-. auto.
  - destruct b as [|x b]; [intros E; injection E as _ <-; auto|].
    destruct (x =? c); [|intros E; injection E as _ <-; auto]. intros E. apply IH in E. exact E.
Qed.

Lemma consume_string_keeps : forall b h e s o s', consume_string b h e s = (o, s') -> path s' = path s /\ qsat s' = qsat s.
Proof.
  induction b as [|c b IH]; intros h e s o s'; cbn [consume_string]; [intros E; injection E as _ <-; auto|].
  destruct e.
  - destruct (simple_esc c); [intros E; apply IH in E; exact E|]. destruct (c =? 117); [intros E; apply IH in E; exact E|].
    intros E; injection E as _ <-; auto.
  - destruct h as [|h].
    + destruct (c =? 92); [intros E; apply IH in E; exact E|]. destruct (c =? 34); [intros E; injection E as _ <-; auto|].
      intros E; apply IH in E; exact E.
    + destruct (is_xdigit c); [intros E; apply IH in E; exact E|]. intros E; injection E as _ <-; auto.
Qed.

Lemma consume_number_keeps b s o s' : consume_number b s = (o, s') -> path s' = path s /\ qsat s' = qsat s.
Proof.
  unfold consume_number.
  repeat match goal with
  | |- context [match ?x with [] => _ | _ :: _ => _ end] => destruct x
  | |- context [if ?c then _ else _] => destruct c
  end; intros E; injection E as _ <-; auto.
Qed.

Section PathP.
  Variable maxrec : nat.
  Variable qs : list query.
  Variable tk : N * N * N * N * N * N * N.

  (* what a successful call does to the path; in every case querySatisfied only grows *)
  Definition path_post (w : which) (s s' : pst) : Prop :=
    match w with WAny => path s' = path s | WArr => path s' = tl (path s) | WObj => path s' = path s end.
  Definition rec_path (rec : recT) := forall w b lvl s r s', rec w b lvl s = (Some r, s') ->
    path_post w s s' /\ (qsat s = true -> qsat s' = true).

  Lemma any_body_path rec b lvl s r s' : rec_path rec ->
    any_body maxrec qs tk rec b lvl s = (Some r, s') -> path s' = path s /\ (qsat s = true -> qsat s' = true).
  Proof.
    intros Hr. unfold any_body. destruct (negb (Nat.eqb maxrec 0) && Nat.ltb maxrec lvl); [discriminate|].
    unfold consume_space at 1. destruct (skip_space b) as [|c b2]; [discriminate|].
    set (s1 := bump _ (see_lvl lvl s)).
    assert (Hd : forall o sd, dispatch rec c (c :: b2) b2 lvl s1 = (o, sd) -> o <> None -> path sd = path s /\ (qsat s = true -> qsat sd = true)).
    { unfold dispatch. intros o sd.
      destruct (c =? 34); [intros E _; apply consume_string_keeps in E as [E1 E2]; split; [exact E1|intros H; rewrite E2; exact H]|].
      destruct (c =? 91).
      { intros E Ho. destruct o as [r0|]; [|congruence]. apply Hr in E as [E1 E2]. cbn in E1. split; [exact E1|exact E2]. }
      destruct (c =? 123).
      { intros E Ho. destruct o as [r0|]; [|congruence]. apply Hr in E as [E1 E2]. split; [exact E1|exact E2]. }
      destruct (c =? 116); [intros E _; apply consume_const_keeps in E as [E1 E2]; split; [exact E1|intros H; rewrite E2; exact H]|].
      destruct (c =? 102); [intros E _; apply consume_const_keeps in E as [E1 E2]; split; [exact E1|intros H; rewrite E2; exact H]|].
      destruct (c =? 110); [intros E _; apply consume_const_keeps in E as [E1 E2]; split; [exact E1|intros H; rewrite E2; exact H]|].
      intros E _; apply consume_number_keeps in E as [E1 E2]; split; [exact E1|intros H; rewrite E2; exact H]. }
    destruct (dispatch rec c (c :: b2) b2 lvl s1) as [o sd] eqn:Ed.
    unfold note_token, after_value.
    destruct o as [b3|]; [|discriminate].
    destruct (Hd (Some b3) sd eq_refl ltac:(discriminate)) as [H1 H2].
    unfold consume_space. intros E. injection E as _ <-.
    split.
    - destruct (Nat.eqb lvl 0), qs; cbn; exact H1.
    - intros Hq. specialize (H2 Hq). destruct (Nat.eqb lvl 0), qs; cbn; try reflexivity; exact H2.
  Qed.

  Lemma arr_body_path rec b lvl s r s' : rec_path rec ->
    arr_body rec b lvl s = (Some r, s') -> path s' = tl (path s) /\ (qsat s = true -> qsat s' = true).
  Proof.
    intros Hr. unfold arr_body. unfold consume_space at 1. destruct (skip_space b) as [|c b2]; [discriminate|].
    destruct (c =? 93); [intros E; injection E as _ <-; split; [reflexivity|auto]|].
    set (s1 := bump _ s).
    destruct (rec WAny (c :: b2) lvl s1) as [[b3|] s2] eqn:Ev; [|discriminate].
    apply Hr in Ev as [Hp Hq]. cbn in Hp. unfold arr_sep.
    destruct b3 as [|d b4]; [discriminate|].
    destruct (d =? 44).
    - intros E. apply Hr in E as [Hp2 Hq2]. cbn in Hp2. split; [rewrite Hp2; cbn; rewrite Hp; reflexivity|].
      intros H. apply Hq2. cbn. apply Hq. exact H.
    - destruct (d =? 93); [|discriminate]. intros E; injection E as _ <-. cbn. split; [rewrite Hp; reflexivity|intros H; apply Hq, H].
  Qed.

  Lemma obj_body_path rec b lvl s r s' : rec_path rec ->
    obj_body qs rec b lvl s = (Some r, s') -> path s' = path s /\ (qsat s = true -> qsat s' = true).
  Proof.
    intros Hr. unfold obj_body. unfold consume_space at 1. destruct (skip_space b) as [|c b2]; [discriminate|].
    destruct (c =? 125); [intros E; injection E as _ <-; split; [reflexivity|auto]|].
    destruct (negb (c =? 34)); [discriminate|].
    set (s1 := bump 1 (bump _ s)).
    destruct (consume_string b2 0 false s1) as [[b3|] sk] eqn:Ek; [|discriminate].
    apply consume_string_keeps in Ek as [Hkp Hkq]. unfold key_step.
    set (key := firstn _ b2). set (sk' := set_path (key :: path sk) sk).
    set (qm := if qsat sk' then None else query_path_match qs (path sk')).
    unfold obj_value. unfold consume_space at 1.
    destruct (skip_space b3) as [|d b5]; [discriminate|].
    destruct (negb (d =? 58)); [discriminate|].
    unfold consume_space at 1. destruct (skip_space b5) as [|e b7]; [discriminate|].
    set (s4 := bump _ (bump 1 (bump _ sk'))).
    destruct (rec WAny (e :: b7) lvl s4) as [[b8|] s5] eqn:Ev; [|discriminate].
    apply Hr in Ev as [Hp Hq]. cbn in Hp.
    unfold note_value.
    set (s6 := match qm with None => s5 | Some q => if query_hit q (firstn (length (e :: b7) - length b8) (e :: b7)) then set_qsat true s5 else s5 end).
    assert (H6 : path s6 = key :: path s /\ (qsat s = true -> qsat s6 = true)).
    { assert (Hp5 : path s5 = key :: path s) by (rewrite Hp; cbn; rewrite Hkp; reflexivity).
      assert (Hq5 : qsat s = true -> qsat s5 = true) by (intros H; apply Hq; cbn; rewrite Hkq; exact H).
      subst s6. destruct qm as [q|]; [|auto]. destruct (query_hit q _); [|auto]. split; [exact Hp5|reflexivity]. }
    destruct H6 as [Hp6 Hq6].
    match goal with |- obj_sep rec lvl ?x = _ -> _ => replace x with (Some b8, s6) by (subst s6; destruct qm; reflexivity) end.
    unfold obj_sep. destruct b8 as [|x b9]; [discriminate|].
    destruct (x =? 44).
    - intros E. apply Hr in E as [Hp2 Hq2]. cbn in Hp2. split.
      + rewrite Hp2, Hp6. reflexivity.
      + intros H. apply Hq2. cbn. apply Hq6, H.
    - destruct (x =? 125); [|discriminate]. intros E; injection E as _ <-. cbn. rewrite Hp6. split; [reflexivity|exact Hq6].
  Qed.

  Theorem go_path : forall fuel, rec_path (go maxrec qs tk fuel).
  Proof.
    induction fuel as [|f IH]; intros w b lvl s r s'; [discriminate|].
    destruct w; cbn [go path_post]; intros E.
    - eapply any_body_path; eassumption.
    - eapply arr_body_path; eassumption.
    - eapply obj_body_path; eassumption.
  Qed.
End PathP.
