(* Source-translated functions: the partial operations of Model/GoRes.v succeed under their guards.
   Re-checked on every run against the freshly translated definitions of Gen/SrcFuncs.v (translator harness/gores.go):
   an edit of the Go function that changes what it computes, or adds a run-time check that can fail, breaks the lemma. *)
From Coq Require Import Lia.
From Verif Require Import Base.Bytes Model.GoLite Model.Zip Model.Ole Model.Mkv Model.Tar Model.Checked Model.GoRes Model.Detect
  Gen.SrcFuncs Proofs.BytesP Proofs.GoLiteP Proofs.CheckedP Proofs.TranslateP.
Local Open Scope Z_scope.

(* ---- the partial operations succeed under their guards ---- *)
Lemma zlen_nonneg x : 0 <= zlen x. Proof. unfold zlen. lia. Qed.
Lemma zget_val x i : 0 <= i < zlen x -> zget x i = Val (Z.of_N (nthb x (Z.to_nat i))).
Proof.
  intros H. unfold zget. replace (i <? 0) with false by (symmetry; apply Z.ltb_ge; lia).
  replace (zlen x <=? i) with false by (symmetry; apply Z.leb_gt; lia). reflexivity.
Qed.
Lemma zfrom_val x lo : 0 <= lo <= zlen x -> zfrom x lo = Val (skipn (Z.to_nat lo) x).
Proof.
  intros H. unfold zfrom. replace (lo <? 0) with false by (symmetry; apply Z.ltb_ge; lia).
  replace (zlen x <? lo) with false by (symmetry; apply Z.ltb_ge; lia). reflexivity.
Qed.
Lemma zto_val x hi : 0 <= hi <= zlen x -> zto x hi = Val (firstn (Z.to_nat hi) x).
Proof.
  intros H. unfold zto. replace (hi <? 0) with false by (symmetry; apply Z.ltb_ge; lia).
  replace (zlen x <? hi) with false by (symmetry; apply Z.ltb_ge; lia). reflexivity.
Qed.
Lemma zslice_val x lo hi : 0 <= lo <= hi -> hi <= zlen x ->
  zslice x lo hi = Val (firstn (Z.to_nat (hi - lo)) (skipn (Z.to_nat lo) x)).
Proof.
  intros H H'. unfold zslice. replace (lo <? 0) with false by (symmetry; apply Z.ltb_ge; lia).
  replace (hi <? lo) with false by (symmetry; apply Z.ltb_ge; lia).
  replace (zlen x <? hi) with false by (symmetry; apply Z.ltb_ge; lia). reflexivity.
Qed.
Lemma zu32le_val x : 4 <= zlen x -> zu32le x = Val (Z.of_N (u32le x)).
Proof. intros H. unfold zu32le. replace (zlen x <? 4) with false by (symmetry; apply Z.ltb_ge; lia). reflexivity. Qed.
Lemma zlen_skipn n x : zlen (skipn n x) = Z.of_nat (length x - n).
Proof. unfold zlen. rewrite skipn_length. reflexivity. Qed.
Lemma zlen_firstn n x : zlen (firstn n x) = Z.of_nat (Nat.min n (length x)).
Proof. unfold zlen. rewrite firstn_length. reflexivity. Qed.

Lemma zadvance_spec cur n : 0 <= n ->
  zadvance cur n = if (length cur <? Z.to_nat n)%nat then None else Some (skipn (Z.to_nat n) cur).
Proof.
  intros Hn. unfold zadvance, zlen. replace (n <? 0) with false by (symmetry; apply Z.ltb_ge; exact Hn). cbn [orb].
  destruct (Z.ltb_spec (Z.of_nat (length cur)) n) as [H|H], (Nat.ltb_spec (length cur) (Z.to_nat n)) as [H'|H']; try reflexivity; lia.
Qed.
Lemma zadvance_neg cur n : n < 0 -> zadvance cur n = None.
Proof. intros H. unfold zadvance. replace (n <? 0) with true by (symmetry; apply Z.ltb_lt; exact H). reflexivity. Qed.

Lemma zeqb_N a k : (Z.of_N a =? Z.of_N k) = (a =? k)%N.
Proof. destruct (Z.eqb_spec (Z.of_N a) (Z.of_N k)), (N.eqb_spec a k); try reflexivity; lia. Qed.

