(* C12: the repository's own declared-charset logic honours every label. *)
From Verif Require Import Base.Bytes Model.Text Model.Meta Spec.SpecText Proofs.BytesP.
Local Open Scope N_scope.

Lemma take_until_byte_app q l post : ~ In q l -> take_until_byte q (l ++ q :: post) = Some l.
Proof.
  induction l as [|c l IH]; intros Hn; cbn [app take_until_byte].
  - rewrite N.eqb_refl. reflexivity.
  - destruct (N.eqb_spec c q) as [->|Hne]; [exfalso; apply Hn; left; reflexivity|].
    rewrite IH; [reflexivity|]. intros Hi. apply Hn. right. exact Hi.
Qed.

Lemma trim_left_xml_app ws x : Forall (fun c => xml_ws c = true) ws ->
  (match x with c :: _ => xml_ws c = false | [] => True end) -> trim_left_xml (ws ++ x) = x.
Proof.
  induction 1 as [|c ws Hc _ IH]; intros Hx; cbn [app].
  - destruct x as [|c x]; [reflexivity|]. cbn [trim_left_xml]. rewrite Hx. reflexivity.
  - cbn [trim_left_xml]. rewrite Hc. apply IH, Hx.
Qed.

Lemma trim_left_ws_app ws x : Forall (fun c => meta_ws c = true) ws ->
  (match x with c :: _ => meta_ws c = false | [] => True end) -> trim_left_ws (ws ++ x) = x.
Proof.
  induction 1 as [|c ws Hc _ IH]; intros Hx; cbn [app].
  - destruct x as [|c x]; [reflexivity|]. cbn [trim_left_ws]. rewrite Hx. reflexivity.
  - cbn [trim_left_ws]. rewrite Hc. apply IH, Hx.
Qed.

Lemma skipn_app_exact {A} (p r : list A) : skipn (length p) (p ++ r) = r.
Proof. induction p; [reflexivity|cbn; assumption]. Qed.

(* XML: for any label free of its quote, any white space around '=', anything before and after,
   provided the pseudo-attribute is the first occurrence of the word "encoding" *)
Theorem xml_encoding_honoured pre ws1 ws2 q L post :
  (q = 34 \/ q = 39) -> ~ In q L ->
  Forall (fun c => xml_ws c = true) ws1 -> Forall (fun c => xml_ws c = true) ws2 ->
  index_of (b "encoding") (pre ++ b "encoding" ++ ws1 ++ 61 :: ws2 ++ q :: L ++ q :: post) = Some (length pre) ->
  xml_encoding (pre ++ b "encoding" ++ ws1 ++ 61 :: ws2 ++ q :: L ++ q :: post) = L.
Proof.
  intros Hq Hn H1 H2 Hi. unfold xml_encoding. rewrite Hi.
  replace (length pre + 8)%nat with (length (pre ++ b "encoding")) by (rewrite app_length; reflexivity).
  rewrite (app_assoc pre), skipn_app_exact.
  rewrite trim_left_xml_app by (auto; reflexivity).
  rewrite trim_left_xml_app; [|exact H2|destruct Hq as [->| ->]; reflexivity].
  assert (Hqq : (q =? 39) || (q =? 34) = true) by (destruct Hq as [->| ->]; reflexivity). rewrite Hqq.
  rewrite take_until_byte_app by exact Hn. reflexivity.
Qed.

Lemma fme_step f s : s <> [] ->
  from_meta_element_f (S f) s =
  match index_of str_charset s with
  | None => []
  | Some i =>
    let s1 := trim_left_ws (skipn (i + 7) s) in
    match s1 with
    | 61 :: s2 =>
      match trim_left_ws s2 with
      | [] => []
      | (q :: s3) as s2' =>
        if (q =? 34) || (q =? 39) then match take_until_byte q s3 with Some r => r | None => [] end
        else take_until_sep s2'
      end
    | _ => from_meta_element_f f s1
    end
  end.
Proof. intros H. destruct s; [congruence|reflexivity]. Qed.

Lemma app_charset_nonempty pre rest : pre ++ str_charset ++ rest <> [].
Proof. destruct pre; discriminate. Qed.

(* HTML pragma: content="...charset = 'L'..." in the three quoting styles *)
Theorem pragma_quoted_honoured pre ws1 ws2 q L post :
  (q = 34 \/ q = 39) -> ~ In q L ->
  Forall (fun c => meta_ws c = true) ws1 -> Forall (fun c => meta_ws c = true) ws2 ->
  index_of str_charset (pre ++ str_charset ++ ws1 ++ 61 :: ws2 ++ q :: L ++ q :: post) = Some (length pre) ->
  from_meta_element (pre ++ str_charset ++ ws1 ++ 61 :: ws2 ++ q :: L ++ q :: post) = L.
Proof.
  intros Hq Hn H1 H2 Hi. unfold from_meta_element. rewrite fme_step by apply app_charset_nonempty.
  rewrite Hi. cbv zeta.
  replace (length pre + 7)%nat with (length (pre ++ str_charset)) by (rewrite app_length; reflexivity).
  rewrite (app_assoc pre), skipn_app_exact.
  rewrite trim_left_ws_app by (auto; reflexivity).
  rewrite trim_left_ws_app; [|exact H2|destruct Hq as [->| ->]; reflexivity].
  assert (Hqq : (q =? 34) || (q =? 39) = true) by (destruct Hq as [->| ->]; reflexivity). rewrite Hqq.
  rewrite take_until_byte_app by exact Hn. reflexivity.
Qed.

Definition sep_free (L : list N) : Prop := Forall (fun c => (c =? 59) || meta_ws c = false) L.

Lemma take_until_sep_app L post : sep_free L ->
  (match post with c :: _ => (c =? 59) || meta_ws c = true | [] => True end) -> take_until_sep (L ++ post) = L.
Proof.
  induction 1 as [|c L Hc _ IH]; intros Hp; cbn [app].
  - destruct post as [|c post]; [reflexivity|]. cbn [take_until_sep]. rewrite Hp. reflexivity.
  - cbn [take_until_sep]. rewrite Hc. rewrite IH by exact Hp. reflexivity.
Qed.

Theorem pragma_unquoted_honoured pre ws1 ws2 L post :
  sep_free L -> L <> [] -> (match L with c :: _ => c <> 34 /\ c <> 39 | [] => True end) ->
  (match post with c :: _ => (c =? 59) || meta_ws c = true | [] => True end) ->
  Forall (fun c => meta_ws c = true) ws1 -> Forall (fun c => meta_ws c = true) ws2 ->
  index_of str_charset (pre ++ str_charset ++ ws1 ++ 61 :: ws2 ++ L ++ post) = Some (length pre) ->
  from_meta_element (pre ++ str_charset ++ ws1 ++ 61 :: ws2 ++ L ++ post) = L.
Proof.
  intros Hs Hne Hq Hp H1 H2 Hi. unfold from_meta_element. rewrite fme_step by apply app_charset_nonempty.
  rewrite Hi. cbv zeta.
  replace (length pre + 7)%nat with (length (pre ++ str_charset)) by (rewrite app_length; reflexivity).
  rewrite (app_assoc pre), skipn_app_exact.
  rewrite trim_left_ws_app by (auto; reflexivity).
  destruct L as [|c L]; [congruence|]. destruct Hq as [Hq1 Hq2].
  inversion Hs as [|? ? Hc Hs']; subst. apply orb_false_iff in Hc as [Hc1 Hc2].
  rewrite trim_left_ws_app; [|exact H2|exact Hc2]. cbn [app].
  destruct (N.eqb_spec c 34); [congruence|]. destruct (N.eqb_spec c 39); [congruence|]. cbn [orb].
  change (c :: L ++ post) with ((c :: L) ++ post). apply take_until_sep_app; [exact Hs|exact Hp].
Qed.

(* <meta charset=V>: whatever else the element carries, as long as no http-equiv / content / earlier
   charset attribute precedes it, the element settles the question with the lower-cased value *)
Definition plain_key (k : list N) : Prop := k <> b "http-equiv" /\ k <> b "content" /\ k <> b "charset".

Lemma beq_false x y : x <> y -> beq x y = false.
Proof. intros H. destruct (beq x y) eqn:E; [apply beq_spec in E; congruence|reflexivity]. Qed.

Lemma meta_attrs_skip attrs : forall seen got np name,
  Forall (fun kv => plain_key (fst kv)) attrs ->
  meta_attrs attrs seen got np name = (got, np, name).
Proof.
  induction attrs as [|[k v] attrs IH]; intros seen got np name Hall; cbn [meta_attrs]; [reflexivity|].
  inversion Hall as [|? ? [H1 [H2 H3]] Hall']; subst. cbn [fst] in *.
  destruct (existsb (beq k) seen); [apply IH, Hall'|].
  rewrite (beq_false _ _ H1), (beq_false _ _ H2), (beq_false _ _ H3). apply IH, Hall'.
Qed.

Theorem meta_charset_honoured pre v post :
  Forall (fun kv => plain_key (fst kv)) pre -> Forall (fun kv => plain_key (fst kv)) post ->
  meta_attrs (pre ++ (b "charset", v) :: post) [] false DontKnow [] = (false, DoNotNeed, ascii_lower_bytes v).
Proof.
  intros Hpre Hpost.
  assert (Hgen : forall seen, ~ In (b "charset") seen ->
     meta_attrs (pre ++ (b "charset", v) :: post) seen false DontKnow [] = (false, DoNotNeed, ascii_lower_bytes v)).
  { induction pre as [|[k w] pre IH]; intros seen Hs; cbn [app meta_attrs].
    - assert (He : existsb (beq (b "charset")) seen = false).
      { apply not_true_is_false. intros E. apply existsb_exists in E as (x & Hx & Hb). apply beq_spec in Hb. subst. auto. }
      rewrite He. rewrite (beq_false (b "charset") (b "http-equiv")) by discriminate.
      rewrite (beq_false (b "charset") (b "content")) by discriminate. rewrite beq_refl.
      apply meta_attrs_skip, Hpost.
    - inversion Hpre as [|? ? [H1 [H2 H3]] Hpre']; subst. cbn [fst] in *.
      destruct (existsb (beq k) seen); [apply IH; assumption|].
      rewrite (beq_false _ _ H1), (beq_false _ _ H2), (beq_false _ _ H3). apply IH; [assumption|].
      intros [E|E]; [congruence|auto]. }
  apply Hgen. intros [].
Qed.

(* tokens that are not <meta>, and meta elements that say nothing, are skipped by the prescan *)
Theorem prescan_skips t rest : tk_name t <> b "meta" -> html_prescan (t :: rest) = html_prescan rest.
Proof. intros H. cbn [html_prescan]. rewrite (beq_false _ _ H). reflexivity. Qed.

Theorem prescan_meta_charset pre v post rest :
  Forall (fun kv => plain_key (fst kv)) pre -> Forall (fun kv => plain_key (fst kv)) post ->
  html_prescan (mk_token (b "meta") (pre ++ (b "charset", v) :: post) :: rest) =
  if has_prefix (b "utf-16") (ascii_lower_bytes v) then b "utf-8" else ascii_lower_bytes v.
Proof.
  intros H1 H2. cbn [html_prescan tk_name tk_attrs]. rewrite beq_refl. cbn [negb].
  rewrite (meta_charset_honoured pre v post H1 H2). reflexivity.
Qed.

(* a byte-order mark takes precedence over whatever the prescan finds *)
Theorem bom_beats_meta content prescan plain cs :
  from_bom spec_boms content = cs -> cs <> [] -> from_html spec_boms content prescan plain = cs.
Proof. intros Hb Hne. unfold from_html. rewrite Hb. destruct cs; [congruence|reflexivity]. Qed.

Lemma lower_idempotent v : ascii_lower_bytes (ascii_lower_bytes v) = ascii_lower_bytes v.
Proof.
  unfold ascii_lower_bytes. rewrite map_map. apply map_ext. intros c. unfold lower.
  destruct ((65 <=? c) && (c <=? 90)) eqn:E; [|rewrite E; reflexivity].
  apply andb_true_iff in E as [E1 E2]. apply N.leb_le in E1, E2.
  destruct ((65 <=? c + 32) && (c + 32 <=? 90)) eqn:E'; [|reflexivity].
  apply andb_true_iff in E' as [_ E3]. apply N.leb_le in E3. lia.
Qed.
