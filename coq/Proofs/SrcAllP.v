(* C01: the seventeen function detectors outside GoLite that are translated (offset-computing ones, Text, Svg), as translated from the current source, against the models that the
   tree walk of Model/Detect.v evaluates for their nodes (hand_models). *)
From Coq Require Import Lia.
From Verif Require Import Base.Bytes Model.Types Model.GoLite Model.Zip Model.Ole Model.Mkv Model.Tar Model.GoRes Model.Detect Model.SrcDetect
  Gen.SrcFuncs Proofs.SrcBaseP Proofs.SrcOleP Proofs.SrcZipP Proofs.SrcMkvP Proofs.SrcTarP Proofs.SrcTextP.
Local Open Scope string_scope.

Theorem src_dets_equal_models : forall name f raw (l : N), bytes_ok raw = true -> In (name, f) src_dets ->
  exists h, assoc name hand_models = Some h /\ f raw (Z.of_N l) = Val (h raw l).
Proof.
  intros name f raw l Hok Hin. unfold src_dets in Hin. cbn [In] in Hin.
  repeat (destruct Hin as [Hin|Hin]; [injection Hin as <- <-; eexists; split; [reflexivity|]|]); [..|contradiction].
  - apply src_Tar_ok; exact Hok.
  - apply src_CRX_ok.
  - apply src_WebM_ok; exact Hok.
  - apply src_Mkv_ok; exact Hok.
  - apply src_Doc_ok.
  - apply src_Ppt_ok.
  - apply src_Xls_ok.
  - apply src_Pub_ok.
  - apply src_Msg_ok.
  - apply src_Msi_ok.
  - apply src_Xlsx_ok.
  - apply src_Docx_ok.
  - apply src_Pptx_ok.
  - apply src_Jar_ok.
  - apply src_APK_ok.
  - apply src_Text_ok.
  - reflexivity.
  - apply src_Php_ok.
Qed.

(* every function the translator was asked for is translated, and every function detector that is neither a GoLite
   term nor one of the JSON / text / line-format models is in the table above *)
Definition src_all_translated : bool := match src_untranslated with [] => true | _ => false end.
