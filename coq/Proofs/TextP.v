From Verif Require Import Base.Bytes Model.Text Spec.SpecText Proofs.BytesP.
Local Open Scope N_scope.

Lemma bin_byte_small : forallb (fun c => Bool.eqb (bin_byte_impl c) (binary_byte c)) (map N.of_nat (seq 0 32)) = true.
Proof. vm_compute. reflexivity. Qed.

Lemma bin_byte_impl_spec c : bin_byte_impl c = binary_byte c.
Proof.
  destruct (N.ltb_spec c 32) as [Hlt|Hge].
  - pose proof bin_byte_small as H. rewrite forallb_forall in H.
    specialize (H c). apply eqb_prop, H. apply in_map_iff. exists (N.to_nat c). split; [lia|].
    apply in_seq. lia.
  - transitivity false.
    + unfold bin_byte_impl.
      assert (H1 : (c <=? 8) = false) by (apply N.leb_gt; lia).
      assert (H2 : (c =? 11) = false) by (apply N.eqb_neq; lia).
      assert (H3 : (c <=? 26) = false) by (apply N.leb_gt; lia).
      assert (H4 : (c <=? 31) = false) by (apply N.leb_gt; lia).
      rewrite H1, H2, H3, H4, !andb_false_r. reflexivity.
    + symmetry. unfold binary_byte. apply not_true_is_false. intros H.
      apply existsb_exists in H as (x & Hx & He). apply N.eqb_eq in He. subst x.
      unfold binary_bytes in Hx. cbn [In] in Hx. lia.
Qed.

Lemma from_bom_spec raw : (match from_bom spec_boms raw with _ :: _ => true | [] => false end) = has_bom raw.
Proof.
  unfold has_bom, spec_boms. cbn [from_bom existsb fst].
  repeat (match goal with |- context [has_prefix ?s raw] => destruct (has_prefix s raw) end; [reflexivity|]).
  reflexivity.
Qed.

Theorem text_det_spec raw : text_det spec_boms raw = text_spec raw.
Proof.
  unfold text_det, text_spec. rewrite <- from_bom_spec.
  destruct (from_bom spec_boms raw); [|reflexivity]. cbn [orb]. unfold no_binary.
  induction raw as [|c r IH]; [reflexivity|]. cbn [forallb]. rewrite bin_byte_impl_spec, IH. reflexivity.
Qed.
