(* The tie by translation: Gen/FuncTerms.v holds the GoLite terms the translator produced from the CURRENT bodies of the
   loop-free function detectors of internal/magic.  After normalisation (re-association of && / ||, which preserves
   Go's evaluation order, short-circuiting and therefore the Panic semantics) each one must be syntactically equal to
   the hand-written term the theorems are about: the obligation is re-checked by vm_compute on every run, so an
   edit of such a function body shows up as a broken obligation, not only as a behavioural difference. *)
From Coq Require Import Lia.
From Verif Require Import Base.Bytes Model.Types Model.GoLite Model.Detectors Gen.FuncTerms Proofs.BytesP Proofs.GoLiteP.
Local Open Scope nat_scope.

Fixpoint and_app (a c : bexp) : bexp := match a with BAnd x y => BAnd x (and_app y c) | _ => BAnd a c end.
Fixpoint or_app (a c : bexp) : bexp := match a with BOr x y => BOr x (or_app y c) | _ => BOr a c end.
Fixpoint norm (e : bexp) : bexp :=
  match e with
  | BAnd a c => and_app (norm a) (norm c)
  | BOr a c => or_app (norm a) (norm c)
  | BNot a => BNot (norm a)
  | _ => e
  end.
Fixpoint normp (p : prog) : prog :=
  match p with PRet e => PRet (norm e) | PIfRet c v rest => PIfRet (norm c) v (normp rest) end.

Lemma and_app_sound a c raw : evalb (and_app a c) raw = evalb (BAnd a c) raw.
Proof.
  induction a as [v|cm k|i cm v|o l|lo hi l|en o cm v|en o cm v|lo cp l|a IH|a1 IH1 a2 IH2|a1 IH1 a2 IH2]; try reflexivity.
  cbn [and_app]. rewrite !evalb_and. rewrite IH2. rewrite !evalb_and.
  destruct (evalb a1 raw) as [[|]|]; try reflexivity.
Qed.
Lemma or_app_sound a c raw : evalb (or_app a c) raw = evalb (BOr a c) raw.
Proof.
  induction a as [v|cm k|i cm v|o l|lo hi l|en o cm v|en o cm v|lo cp l|a IH|a1 IH1 a2 IH2|a1 IH1 a2 IH2]; try reflexivity.
  cbn [or_app]. rewrite !evalb_or. rewrite IH2. rewrite !evalb_or.
  destruct (evalb a1 raw) as [[|]|]; try reflexivity.
Qed.

Theorem norm_sound : forall e raw, evalb (norm e) raw = evalb e raw.
Proof.
  induction e as [v|cm k|i cm v|o l|lo hi l|en o cm v|en o cm v|lo cp l|a IH|a1 IH1 a2 IH2|a1 IH1 a2 IH2]; intros raw; try reflexivity.
  - cbn [norm]. rewrite !evalb_not, IH. reflexivity.
  - cbn [norm]. rewrite and_app_sound, !evalb_and, IH1, IH2. reflexivity.
  - cbn [norm]. rewrite or_app_sound, !evalb_or, IH1, IH2. reflexivity.
Qed.
Theorem normp_sound : forall p raw, evalp (normp p) raw = evalp p raw.
Proof.
  induction p as [e|c v rest IH]; intros raw; cbn [normp].
  - rewrite !evalp_ret. apply norm_sound.
  - rewrite !evalp_if, norm_sound, IH. reflexivity.
Qed.

(* decidable syntactic equality *)
Definition cmp_eqb (a c : cmp) : bool :=
  match a, c with CEq, CEq | CNe, CNe | CLt, CLt | CLe, CLe | CGt, CGt | CGe, CGe => true | _, _ => false end.
Definition endian_eqb (a c : endian) : bool := match a, c with BE, BE | LE, LE => true | _, _ => false end.
Fixpoint bexp_eqb (x y : bexp) : bool :=
  match x, y with
  | BConst a, BConst c => Bool.eqb a c
  | BLen c1 k1, BLen c2 k2 => cmp_eqb c1 c2 && Nat.eqb k1 k2
  | BByte i1 c1 v1, BByte i2 c2 v2 => Nat.eqb i1 i2 && cmp_eqb c1 c2 && N.eqb v1 v2
  | BPrefixAt o1 l1, BPrefixAt o2 l2 => Nat.eqb o1 o2 && beq l1 l2
  | BEqualSlice a1 b1 l1, BEqualSlice a2 b2 l2 => Nat.eqb a1 a2 && Nat.eqb b1 b2 && beq l1 l2
  | BU16 e1 o1 c1 v1, BU16 e2 o2 c2 v2 => endian_eqb e1 e2 && Nat.eqb o1 o2 && cmp_eqb c1 c2 && N.eqb v1 v2
  | BU32 e1 o1 c1 v1, BU32 e2 o2 c2 v2 => endian_eqb e1 e2 && Nat.eqb o1 o2 && cmp_eqb c1 c2 && N.eqb v1 v2
  | BContainsWin a1 b1 l1, BContainsWin a2 b2 l2 => Nat.eqb a1 a2 && Nat.eqb b1 b2 && beq l1 l2
  | BNot a, BNot c => bexp_eqb a c
  | BAnd a1 a2, BAnd c1 c2 => bexp_eqb a1 c1 && bexp_eqb a2 c2
  | BOr a1 a2, BOr c1 c2 => bexp_eqb a1 c1 && bexp_eqb a2 c2
  | _, _ => false
  end.
Fixpoint prog_eqb (p q : prog) : bool :=
  match p, q with
  | PRet a, PRet c => bexp_eqb a c
  | PIfRet c1 v1 r1, PIfRet c2 v2 r2 => bexp_eqb c1 c2 && Bool.eqb v1 v2 && prog_eqb r1 r2
  | _, _ => false
  end.

Lemma cmp_eqb_eq a c : cmp_eqb a c = true -> a = c. Proof. destruct a, c; (reflexivity || discriminate). Qed.
Lemma endian_eqb_eq a c : endian_eqb a c = true -> a = c. Proof. destruct a, c; (reflexivity || discriminate). Qed.

Ltac conj_split H := repeat match type of H with (_ && _ = true) => let H2 := fresh "E" in apply andb_true_iff in H as [H H2] end.

Lemma bexp_eqb_eq : forall x y, bexp_eqb x y = true -> x = y.
Proof.
  induction x as [v|cm k|i cm v|o l|lo hi l|en o cm v|en o cm v|lo cp l|a IH|a1 IH1 a2 IH2|a1 IH1 a2 IH2]; intros y H; destruct y; try discriminate H; cbn [bexp_eqb] in H.
  - apply Bool.eqb_prop in H. congruence.
  - apply andb_true_iff in H as [H1 H2]. apply cmp_eqb_eq in H1. apply Nat.eqb_eq in H2. congruence.
  - apply andb_true_iff in H as [H H3]. apply andb_true_iff in H as [H1 H2]. apply Nat.eqb_eq in H1. apply cmp_eqb_eq in H2. apply N.eqb_eq in H3. congruence.
  - apply andb_true_iff in H as [H1 H2]. apply Nat.eqb_eq in H1. apply beq_spec in H2. congruence.
  - apply andb_true_iff in H as [H H3]. apply andb_true_iff in H as [H1 H2]. apply Nat.eqb_eq in H1, H2. apply beq_spec in H3. congruence.
  - apply andb_true_iff in H as [H H4]. apply andb_true_iff in H as [H H3]. apply andb_true_iff in H as [H1 H2].
    apply endian_eqb_eq in H1. apply Nat.eqb_eq in H2. apply cmp_eqb_eq in H3. apply N.eqb_eq in H4. congruence.
  - apply andb_true_iff in H as [H H4]. apply andb_true_iff in H as [H H3]. apply andb_true_iff in H as [H1 H2].
    apply endian_eqb_eq in H1. apply Nat.eqb_eq in H2. apply cmp_eqb_eq in H3. apply N.eqb_eq in H4. congruence.
  - apply andb_true_iff in H as [H H3]. apply andb_true_iff in H as [H1 H2]. apply Nat.eqb_eq in H1, H2. apply beq_spec in H3. congruence.
  - f_equal. apply IH, H.
  - apply andb_true_iff in H as [H1 H2]. f_equal; [apply IH1, H1|apply IH2, H2].
  - apply andb_true_iff in H as [H1 H2]. f_equal; [apply IH1, H1|apply IH2, H2].
Qed.
Lemma prog_eqb_eq : forall p q, prog_eqb p q = true -> p = q.
Proof.
  induction p as [e|c v rest IH]; intros q H; destruct q; try discriminate H; cbn [prog_eqb] in H.
  - f_equal. apply bexp_eqb_eq, H.
  - apply andb_true_iff in H as [H H3]. apply andb_true_iff in H as [H1 H2].
    apply bexp_eqb_eq in H1. apply Bool.eqb_prop in H2. apply IH in H3. congruence.
Qed.

(* the regenerated obligation: every translated body that has a hand-written term equals it up to normalisation *)
Definition translation_agrees : bool :=
  forallb (fun ng => match assoc (fst ng) func_terms with
                     | Some h => prog_eqb (normp h) (normp (snd ng))
                     | None => true
                     end) gen_func_terms.

(* names for the evidence: which hand terms are tied by translation, which by correspondence only *)
Definition tied_by_translation : list string :=
  map fst (filter (fun ng => match assoc (fst ng) func_terms with Some _ => true | None => false end) gen_func_terms).

Lemma assoc_in {A} name (l : list (string * A)) x : assoc name l = Some x -> In (name, x) l.
Proof.
  induction l as [|[k v] l IH]; cbn [assoc]; [discriminate|]. destruct (String.eqb_spec name k) as [->|Hne].
  - intros E; injection E as <-. left; reflexivity.
  - intros E. right. apply IH, E.
Qed.

(* what the obligation means: the hand-written term and the term read off the current source compute the same
   thing on every input, Panic included *)
Theorem translated_terms_equal : translation_agrees = true ->
  forall name g h raw, In (name, g) gen_func_terms -> assoc name func_terms = Some h -> evalp h raw = evalp g raw.
Proof.
  intros Hag name g h raw Hin Hh. unfold translation_agrees in Hag. rewrite forallb_forall in Hag.
  specialize (Hag (name, g) Hin). cbn [fst snd] in Hag. rewrite Hh in Hag.
  apply prog_eqb_eq in Hag. rewrite <- (normp_sound h raw), <- (normp_sound g raw), Hag. reflexivity.
Qed.
