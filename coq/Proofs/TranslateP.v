(* The tie by translation: Gen/FuncTerms.v holds the GoLite terms the translator produced from the CURRENT bodies of the
   loop-free function detectors of internal/magic.  After normalisation (the program read as one
   expression, negations pushed to the atoms, && / || re-associated and their units dropped: every step preserves Go's
   evaluation order, short-circuiting and therefore the Panic semantics, norm_sound / normp_sound below) each one must be syntactically equal to
   the hand-written term the theorems are about: the obligation is re-checked by vm_compute on every run, so an
   edit of such a function body shows up as a broken obligation, not only as a behavioural difference. *)
From Coq Require Import Lia.
From Verif Require Import Base.Bytes Model.Types Model.GoLite Model.Detectors Gen.SigData Gen.FuncTerms Proofs.BytesP Proofs.GoLiteP.
Local Open Scope nat_scope.

(* ---- inlining ---- *)
Lemma inl_sound : forall p raw, evalb (inl p) raw = evalp p raw.
Proof.
  induction p as [e|c v rest IH]; intros raw; [reflexivity|].
  rewrite evalp_if. destruct v; cbn [inl].
  - rewrite evalb_or, IH. reflexivity.
  - rewrite evalb_and, evalb_not, IH. destruct (evalb c raw) as [[|]|]; reflexivity.
Qed.

(* ---- negation normal form: negations pushed to the atoms; comparisons absorb them ---- *)
Definition cneg (c : cmp) : cmp :=
  match c with CEq => CNe | CNe => CEq | CLt => CGe | CGe => CLt | CLe => CGt | CGt => CLe end.
Lemma cmpN_cneg c a v : cmpN (cneg c) a v = negb (cmpN c a v).
Proof.
  destruct c; cbn [cneg cmpN].
  - reflexivity.
  - symmetry; apply Bool.negb_involutive.
  - apply N.leb_antisym.
  - apply N.ltb_antisym.
  - apply N.leb_antisym.
  - apply N.ltb_antisym.
Qed.
Lemma cmpnat_cneg c a k : cmpnat (cneg c) a k = negb (cmpnat c a k).
Proof.
  destruct c; cbn [cneg cmpnat].
  - reflexivity.
  - symmetry; apply Bool.negb_involutive.
  - apply Nat.leb_antisym.
  - apply Nat.ltb_antisym.
  - apply Nat.leb_antisym.
  - apply Nat.ltb_antisym.
Qed.
Definition cn (neg : bool) (c : cmp) : cmp := if neg then cneg c else c.

Fixpoint nnf (neg : bool) (e : bexp) : bexp :=
  match e with
  | BConst v => BConst (if neg then negb v else v)
  | BLen c k => BLen (cn neg c) k
  | BByte i c v => BByte i (cn neg c) v
  | BU16 en o c v => BU16 en o (cn neg c) v
  | BU32 en o c v => BU32 en o (cn neg c) v
  | BPrefixAt _ _ | BEqualSlice _ _ _ | BContainsWin _ _ _ => if neg then BNot e else e
  | BNot a => nnf (negb neg) a
  | BAnd a c => if neg then BOr (nnf true a) (nnf true c) else BAnd (nnf false a) (nnf false c)
  | BOr a c => if neg then BAnd (nnf true a) (nnf true c) else BOr (nnf false a) (nnf false c)
  end.

Definition rneg (neg : bool) (r : res bool) : res bool :=
  match r with Val v => Val (if neg then negb v else v) | Panic => Panic end.
Lemma rneg_false r : rneg false r = r. Proof. destruct r as [[|]|]; reflexivity. Qed.

Lemma nnf_sound : forall e neg raw, evalb (nnf neg e) raw = rneg neg (evalb e raw).
Proof.
  induction e as [v|cm k|i cm v|o l|lo hi l|en o cm v|en o cm v|lo cp l|a IH|a1 IH1 a2 IH2|a1 IH1 a2 IH2]; intros neg raw.
  - reflexivity.
  - destruct neg; cbn [nnf cn evalb rneg]; [rewrite cmpnat_cneg|]; reflexivity.
  - destruct neg; cbn [nnf cn evalb rneg]; destruct (get raw i); cbn [rneg]; try reflexivity. rewrite cmpN_cneg; reflexivity.
  - destruct neg; cbn [nnf]; [rewrite evalb_not|]; destruct (evalb (BPrefixAt o l) raw) as [[|]|]; reflexivity.
  - destruct neg; cbn [nnf]; [rewrite evalb_not|]; destruct (evalb (BEqualSlice lo hi l) raw) as [[|]|]; reflexivity.
  - destruct neg; cbn [nnf cn evalb rneg]; destruct (slice raw o (o + 2)); cbn [rneg]; try reflexivity. rewrite cmpN_cneg; reflexivity.
  - destruct neg; cbn [nnf cn evalb rneg]; destruct (slice raw o (o + 4)); cbn [rneg]; try reflexivity. rewrite cmpN_cneg; reflexivity.
  - destruct neg; cbn [nnf]; [rewrite evalb_not|]; destruct (evalb (BContainsWin lo cp l) raw) as [[|]|]; reflexivity.
  - cbn [nnf]. rewrite IH, evalb_not. destruct neg, (evalb a raw) as [[|]|]; reflexivity.
  - destruct neg; cbn [nnf]; rewrite ?evalb_or, !evalb_and, IH1, ?IH2; destruct (evalb a1 raw) as [[|]|]; cbn [rneg]; try reflexivity;
      rewrite ?IH2; try reflexivity; destruct (evalb a2 raw) as [[|]|]; reflexivity.
  - destruct neg; cbn [nnf]; rewrite ?evalb_and, !evalb_or, IH1, ?IH2; destruct (evalb a1 raw) as [[|]|]; cbn [rneg]; try reflexivity;
      rewrite ?IH2; try reflexivity; destruct (evalb a2 raw) as [[|]|]; reflexivity.
Qed.

(* ---- re-association of && / || (evaluation order kept) and removal of the units `|| false`, `&& true` ---- *)
Fixpoint and_app (a c : bexp) : bexp := match a with BAnd x y => BAnd x (and_app y c) | _ => BAnd a c end.
Fixpoint or_app (a c : bexp) : bexp := match a with BOr x y => BOr x (or_app y c) | _ => BOr a c end.
Definition is_const (v : bool) (e : bexp) : bool := match e with BConst w => Bool.eqb v w | _ => false end.
Definition and_u (a c : bexp) : bexp := if is_const true c then a else if is_const true a then c else and_app a c.
Definition or_u (a c : bexp) : bexp := if is_const false c then a else if is_const false a then c else or_app a c.
Fixpoint flat (e : bexp) : bexp :=
  match e with
  | BAnd a c => and_u (flat a) (flat c)
  | BOr a c => or_u (flat a) (flat c)
  | BNot a => BNot (flat a)
  | _ => e
  end.
Definition norm (e : bexp) : bexp := flat (nnf false e).
Definition normp (p : prog) : bexp := norm (inl p).

Lemma and_app_sound a c raw : evalb (and_app a c) raw = evalb (BAnd a c) raw.
Proof.
  induction a as [v|cm k|i cm v|o l|lo hi l|en o cm v|en o cm v|lo cp l|a IH|a1 IH1 a2 IH2|a1 IH1 a2 IH2]; try reflexivity.
  cbn [and_app]. rewrite !evalb_and. rewrite IH2. rewrite !evalb_and.
  destruct (evalb a1 raw) as [[|]|]; try reflexivity.
Qed.
Lemma or_app_sound a c raw : evalb (or_app a c) raw = evalb (BOr a c) raw.
Proof.
  induction a as [v|cm k|i cm v|o l|lo hi l|en o cm v|en o cm v|lo cp l|a IH|a1 IH1 a2 IH2|a1 IH1 a2 IH2]; try reflexivity.
  cbn [or_app]. rewrite !evalb_or. rewrite IH2. rewrite !evalb_or.
  destruct (evalb a1 raw) as [[|]|]; try reflexivity.
Qed.
Lemma is_const_eq v e : is_const v e = true -> e = BConst v.
Proof. destruct e; try discriminate. cbn [is_const]. intros H. apply Bool.eqb_prop in H. congruence. Qed.
Lemma and_u_sound a c raw : evalb (and_u a c) raw = evalb (BAnd a c) raw.
Proof.
  unfold and_u. destruct (is_const true c) eqn:Ec.
  - apply is_const_eq in Ec. subst c. rewrite evalb_and. destruct (evalb a raw) as [[|]|]; reflexivity.
  - destruct (is_const true a) eqn:Ea.
    + apply is_const_eq in Ea. subst a. reflexivity.
    + apply and_app_sound.
Qed.
Lemma or_u_sound a c raw : evalb (or_u a c) raw = evalb (BOr a c) raw.
Proof.
  unfold or_u. destruct (is_const false c) eqn:Ec.
  - apply is_const_eq in Ec. subst c. rewrite evalb_or. destruct (evalb a raw) as [[|]|]; reflexivity.
  - destruct (is_const false a) eqn:Ea.
    + apply is_const_eq in Ea. subst a. reflexivity.
    + apply or_app_sound.
Qed.

Lemma flat_sound : forall e raw, evalb (flat e) raw = evalb e raw.
Proof.
  induction e as [v|cm k|i cm v|o l|lo hi l|en o cm v|en o cm v|lo cp l|a IH|a1 IH1 a2 IH2|a1 IH1 a2 IH2]; intros raw; try reflexivity.
  - cbn [flat]. rewrite !evalb_not, IH. reflexivity.
  - cbn [flat]. rewrite and_u_sound, !evalb_and, IH1, IH2. reflexivity.
  - cbn [flat]. rewrite or_u_sound, !evalb_or, IH1, IH2. reflexivity.
Qed.
Theorem norm_sound : forall e raw, evalb (norm e) raw = evalb e raw.
Proof. intros e raw. unfold norm. rewrite flat_sound, nnf_sound. apply rneg_false. Qed.
Theorem normp_sound : forall p raw, evalb (normp p) raw = evalp p raw.
Proof. intros p raw. unfold normp. rewrite norm_sound. apply inl_sound. Qed.

(* decidable syntactic equality *)
Definition cmp_eqb (a c : cmp) : bool :=
  match a, c with CEq, CEq | CNe, CNe | CLt, CLt | CLe, CLe | CGt, CGt | CGe, CGe => true | _, _ => false end.
Definition endian_eqb (a c : endian) : bool := match a, c with BE, BE | LE, LE => true | _, _ => false end.
Fixpoint bexp_eqb (x y : bexp) : bool :=
  match x, y with
  | BConst a, BConst c => Bool.eqb a c
  | BLen c1 k1, BLen c2 k2 => cmp_eqb c1 c2 && Nat.eqb k1 k2
  | BByte i1 c1 v1, BByte i2 c2 v2 => Nat.eqb i1 i2 && cmp_eqb c1 c2 && N.eqb v1 v2
  | BPrefixAt o1 l1, BPrefixAt o2 l2 => Nat.eqb o1 o2 && beq l1 l2
  | BEqualSlice a1 b1 l1, BEqualSlice a2 b2 l2 => Nat.eqb a1 a2 && Nat.eqb b1 b2 && beq l1 l2
  | BU16 e1 o1 c1 v1, BU16 e2 o2 c2 v2 => endian_eqb e1 e2 && Nat.eqb o1 o2 && cmp_eqb c1 c2 && N.eqb v1 v2
  | BU32 e1 o1 c1 v1, BU32 e2 o2 c2 v2 => endian_eqb e1 e2 && Nat.eqb o1 o2 && cmp_eqb c1 c2 && N.eqb v1 v2
  | BContainsWin a1 b1 l1, BContainsWin a2 b2 l2 => Nat.eqb a1 a2 && Nat.eqb b1 b2 && beq l1 l2
  | BNot a, BNot c => bexp_eqb a c
  | BAnd a1 a2, BAnd c1 c2 => bexp_eqb a1 c1 && bexp_eqb a2 c2
  | BOr a1 a2, BOr c1 c2 => bexp_eqb a1 c1 && bexp_eqb a2 c2
  | _, _ => false
  end.
Fixpoint prog_eqb (p q : prog) : bool :=
  match p, q with
  | PRet a, PRet c => bexp_eqb a c
  | PIfRet c1 v1 r1, PIfRet c2 v2 r2 => bexp_eqb c1 c2 && Bool.eqb v1 v2 && prog_eqb r1 r2
  | _, _ => false
  end.

Lemma cmp_eqb_eq a c : cmp_eqb a c = true -> a = c. Proof. destruct a, c; (reflexivity || discriminate). Qed.
Lemma endian_eqb_eq a c : endian_eqb a c = true -> a = c. Proof. destruct a, c; (reflexivity || discriminate). Qed.

Ltac conj_split H := repeat match type of H with (_ && _ = true) => let H2 := fresh "E" in apply andb_true_iff in H as [H H2] end.

Lemma bexp_eqb_eq : forall x y, bexp_eqb x y = true -> x = y.
Proof.
  induction x as [v|cm k|i cm v|o l|lo hi l|en o cm v|en o cm v|lo cp l|a IH|a1 IH1 a2 IH2|a1 IH1 a2 IH2]; intros y H; destruct y; try discriminate H; cbn [bexp_eqb] in H.
  - apply Bool.eqb_prop in H. congruence.
  - apply andb_true_iff in H as [H1 H2]. apply cmp_eqb_eq in H1. apply Nat.eqb_eq in H2. congruence.
  - apply andb_true_iff in H as [H H3]. apply andb_true_iff in H as [H1 H2]. apply Nat.eqb_eq in H1. apply cmp_eqb_eq in H2. apply N.eqb_eq in H3. congruence.
  - apply andb_true_iff in H as [H1 H2]. apply Nat.eqb_eq in H1. apply beq_spec in H2. congruence.
  - apply andb_true_iff in H as [H H3]. apply andb_true_iff in H as [H1 H2]. apply Nat.eqb_eq in H1, H2. apply beq_spec in H3. congruence.
  - apply andb_true_iff in H as [H H4]. apply andb_true_iff in H as [H H3]. apply andb_true_iff in H as [H1 H2].
    apply endian_eqb_eq in H1. apply Nat.eqb_eq in H2. apply cmp_eqb_eq in H3. apply N.eqb_eq in H4. congruence.
  - apply andb_true_iff in H as [H H4]. apply andb_true_iff in H as [H H3]. apply andb_true_iff in H as [H1 H2].
    apply endian_eqb_eq in H1. apply Nat.eqb_eq in H2. apply cmp_eqb_eq in H3. apply N.eqb_eq in H4. congruence.
  - apply andb_true_iff in H as [H H3]. apply andb_true_iff in H as [H1 H2]. apply Nat.eqb_eq in H1, H2. apply beq_spec in H3. congruence.
  - f_equal. apply IH, H.
  - apply andb_true_iff in H as [H1 H2]. f_equal; [apply IH1, H1|apply IH2, H2].
  - apply andb_true_iff in H as [H1 H2]. f_equal; [apply IH1, H1|apply IH2, H2].
Qed.
Lemma prog_eqb_eq : forall p q, prog_eqb p q = true -> p = q.
Proof.
  induction p as [e|c v rest IH]; intros q H; destruct q; try discriminate H; cbn [prog_eqb] in H.
  - f_equal. apply bexp_eqb_eq, H.
  - apply andb_true_iff in H as [H H3]. apply andb_true_iff in H as [H1 H2].
    apply bexp_eqb_eq in H1. apply Bool.eqb_prop in H2. apply IH in H3. congruence.
Qed.

(* the regenerated obligation: every translated body that has a hand-written term equals it up to normalisation *)
Definition translation_agrees : bool :=
  forallb (fun ng => match assoc (fst ng) func_terms with
                     | Some h => bexp_eqb (normp h) (normp (snd ng))
                     | None => true
                     end) gen_func_terms.

(* names for the evidence: which hand terms are tied by translation, which by correspondence only *)
Definition tied_by_translation : list string :=
  map fst (filter (fun ng => match assoc (fst ng) func_terms with Some _ => true | None => false end) gen_func_terms).

Lemma assoc_in {A} name (l : list (string * A)) x : assoc name l = Some x -> In (name, x) l.
Proof.
  induction l as [|[k v] l IH]; cbn [assoc]; [discriminate|]. destruct (String.eqb_spec name k) as [->|Hne].
  - intros E; injection E as <-. left; reflexivity.
  - intros E. right. apply IH, E.
Qed.

(* what the obligation means: the hand-written term and the term read off the current source compute the same
   thing on every input, Panic included *)
Theorem translated_terms_equal : translation_agrees = true ->
  forall name g h raw, In (name, g) gen_func_terms -> assoc name func_terms = Some h -> evalp h raw = evalp g raw.
Proof.
  intros Hag name g h raw Hin Hh. unfold translation_agrees in Hag. rewrite forallb_forall in Hag.
  specialize (Hag (name, g) Hin). cbn [fst snd] in Hag. rewrite Hh in Hag.
  apply bexp_eqb_eq in Hag. rewrite <- (normp_sound h raw), <- (normp_sound g raw), Hag. reflexivity.
Qed.

(* ---- the combinators prefix / offset / ftyp / jpeg2k: for every registered signature built by one of them, the closure
   body of the combinator in the CURRENT source, with its parameters bound to the literal arguments of that use, equals
   the term the model evaluates for that signature (prefix_term etc. applied to the generated arguments) ---- *)
Definition comb_hand (d : det) : option prog :=
  match d with
  | DPrefix sg => Some (prefix_term sg)
  | DOffset sg off => Some (offset_term sg off)
  | DFtyp sg => Some (ftyp_term sg)
  | DJpeg2k sg => Some (jpeg2k_term sg)
  | _ => None
  end.
Definition comb_translation_agrees : bool :=
  forallb (fun ng => match assoc (fst ng) sigs with
                     | Some d => match comb_hand d with Some h => bexp_eqb (normp h) (normp (snd ng)) | None => false end
                     | None => false
                     end) gen_comb_terms
  && forallb (fun nd => match comb_hand (snd nd) with
                        | Some _ => match assoc (fst nd) gen_comb_terms with Some _ => true | None => false end
                        | None => true
                        end) sigs.

Theorem comb_terms_equal : comb_translation_agrees = true ->
  forall name d h raw, assoc name sigs = Some d -> comb_hand d = Some h ->
    exists g, assoc name gen_comb_terms = Some g /\ evalp h raw = evalp g raw.
Proof.
  intros Hag name d h raw Hd Hh. unfold comb_translation_agrees in Hag. apply andb_true_iff in Hag as [H1 H2].
  rewrite forallb_forall in H1, H2.
  specialize (H2 (name, d) (assoc_in _ _ _ Hd)). cbn [fst snd] in H2. rewrite Hh in H2.
  destruct (assoc name gen_comb_terms) as [g|] eqn:Eg; [|discriminate H2].
  exists g. split; [reflexivity|].
  specialize (H1 (name, g) (assoc_in _ _ _ Eg)). cbn [fst snd] in H1. rewrite Hd, Hh in H1.
  apply bexp_eqb_eq in H1. rewrite <- (normp_sound h raw), <- (normp_sound g raw), H1. reflexivity.
Qed.

(* ---- detectors that are a single call of a helper outside the fragment: same helper, same arguments ---- *)
Fixpoint strs_eqb (a c : list string) : bool :=
  match a, c with
  | [], [] => true
  | x :: a', y :: c' => String.eqb x y && strs_eqb a' c'
  | _, _ => false
  end.
Definition call_shapes_agree_for (names : list string) : bool :=
  forallb (fun n => match assoc n model_call_shapes, assoc n gen_call_shapes with
                    | Some m, Some g => strs_eqb m g
                    | _, _ => false
                    end) names.
Definition call_shapes_agree : bool := call_shapes_agree_for (map fst model_call_shapes).
Lemma strs_eqb_eq : forall a c, strs_eqb a c = true -> a = c.
Proof.
  induction a as [|x a IH]; intros [|y c] H; try discriminate H; [reflexivity|].
  cbn [strs_eqb] in H. apply andb_true_iff in H as [H1 H2]. apply String.eqb_eq in H1. apply IH in H2. congruence.
Qed.
Theorem call_shapes_equal : forall names, call_shapes_agree_for names = true ->
  forall n, In n names -> exists sh, assoc n model_call_shapes = Some sh /\ assoc n gen_call_shapes = Some sh.
Proof.
  intros names H n Hin. unfold call_shapes_agree_for in H. rewrite forallb_forall in H. specialize (H n Hin).
  destruct (assoc n model_call_shapes) as [m|]; [|discriminate H]. destruct (assoc n gen_call_shapes) as [g|]; [|discriminate H].
  apply strs_eqb_eq in H. subst g. exists m. split; reflexivity.
Qed.
