(* Soundness of the scanner w.r.t. the relaxed grammar: every successful scan consumed a word of the
   language of its entry point (C09, whole mode). *)
From Verif Require Import Base.Bytes Model.Json Spec.JsonGrammar Proofs.JsonAcct.
Local Open Scope N_scope.

Lemma WS_nil : WS []. Proof. constructor. Qed.
Lemma WS_app a b : WS a -> WS b -> WS (a ++ b). Proof. apply Forall_app_2 || (intros; apply Forall_app; auto). Qed.

Lemma skip_space_split b : exists w, b = w ++ skip_space b /\ WS w.
Proof.
  induction b as [|c b IH]; cbn [skip_space]; [exists []; split; [reflexivity|constructor]|].
  destruct (is_space c) eqn:E.
  - destruct IH as (w & Hw & HW). exists (c :: w); split; [cbn; f_equal; exact Hw|constructor; auto].
  - exists []; split; [reflexivity|constructor].
Qed.
Lemma skip_digits_split b : exists d, b = d ++ skip_digits b /\ Digits d.
Proof.
  induction b as [|c b IH]; cbn [skip_digits]; [exists []; split; [reflexivity|constructor]|].
  destruct (is_digit c) eqn:E.
  - destruct IH as (w & Hw & HW). exists (c :: w); split; [cbn; f_equal; exact Hw|constructor; auto].
  - exists []; split; [reflexivity|constructor].
Qed.

(* ---------- strings ---------- *)
Definition RStrFrom (h : nat) (e : bool) (x : bytes) : Prop :=
  if e then (exists c t, x = c :: t /\ simple_esc c = true /\ RStr t) \/
            (exists h1 h2 h3 h4 t, x = 117 :: h1 :: h2 :: h3 :: h4 :: t /\ is_xdigit h1 = true /\ is_xdigit h2 = true /\
                                   is_xdigit h3 = true /\ is_xdigit h4 = true /\ RStr t)
  else exists hs t, x = hs ++ t /\ length hs = h /\ Forall (fun c => is_xdigit c = true) hs /\ RStr t.

Lemma consume_string_sound : forall b h e s r s', consume_string b h e s = (Some r, s') ->
  exists x, b = x ++ r /\ RStrFrom h e x.
Proof.
  induction b as [|c b IH]; intros h e s r s' H; cbn [consume_string] in H; [discriminate|].
  destruct e.
  - (* after backslash *)
    destruct (simple_esc c) eqn:Es in H.
    + apply IH in H as (x & -> & Hx). cbn in Hx. destruct Hx as (hs & t & -> & Hl & _ & Ht).
      destruct hs; [|discriminate]. exists (c :: t); split; [reflexivity|]. left. exists c, t; repeat split; auto.
    + destruct (c =? 117) eqn:Eu in H; [|discriminate]. apply N.eqb_eq in Eu; subst c.
      apply IH in H as (x & -> & Hx). cbn in Hx. destruct Hx as (hs & t & -> & Hl & Hh & Ht).
      destruct hs as [|h1 [|h2 [|h3 [|h4 [|]]]]]; try discriminate.
      inversion Hh as [|? ? X1 Hh1]; inversion Hh1 as [|? ? X2 Hh2]; inversion Hh2 as [|? ? X3 Hh3]; inversion Hh3 as [|? ? X4 _]; subst.
      exists (117 :: h1 :: h2 :: h3 :: h4 :: t); split; [reflexivity|]. right. exists h1, h2, h3, h4, t; repeat split; auto.
  - destruct h as [|h].
    + destruct (c =? 92) eqn:Eb in H.
      * apply N.eqb_eq in Eb; subst c. apply IH in H as (x & -> & Hx). cbn in Hx.
        exists (92 :: x); split; [reflexivity|]. exists [], (92 :: x); repeat split; auto.
        destruct Hx as [(c & t & -> & Hc & Ht)|(h1 & h2 & h3 & h4 & t & -> & H1 & H2 & H3 & H4 & Ht)].
        -- apply RS_esc; auto.
        -- apply RS_uni; auto.
      * destruct (c =? 34) eqn:Eq in H.
        -- apply N.eqb_eq in Eq; subst c. inversion H; subst. exists [34]; split; [reflexivity|].
           exists [], [34]; repeat split; auto. constructor.
        -- apply IH in H as (x & -> & Hx). cbn in Hx. destruct Hx as (hs & t & -> & Hl & _ & Ht). destruct hs; [|discriminate].
           exists (c :: t); split; [reflexivity|]. exists [], (c :: t); repeat split; auto.
           apply RS_char; auto; intros ->; discriminate.
    + destruct (is_xdigit c) eqn:Ex in H; [|discriminate].
      apply IH in H as (x & -> & Hx). cbn in Hx. destruct Hx as (hs & t & -> & Hl & Hh & Ht).
      exists ((c :: hs) ++ t); split; [reflexivity|]. exists (c :: hs), t; repeat split; auto. cbn; lia.
Qed.

Lemma consume_string_sound0 b s r s' : consume_string b 0 false s = (Some r, s') -> exists x, b = x ++ r /\ RStr x.
Proof. intros H. apply consume_string_sound in H as (x & -> & (hs & t & -> & Hl & _ & Ht)). destruct hs; [|discriminate]. exists t; auto. Qed.

(* ---------- constants ---------- *)
Lemma consume_const_sound cn : forall b s r s', consume_const b cn s = (Some r, s') -> b = cn ++ r.
Proof.
  induction cn as [|c cn IH]; intros b s r s' H; cbn [consume_const] in H; [inversion H; reflexivity|].
  destruct b as [|x b]; [discriminate|]. destruct (x =? c) eqn:E; [|discriminate].
  apply N.eqb_eq in E; subst. apply IH in H; subst. reflexivity.
Qed.

(* ---------- numbers ---------- *)
Lemma len_app_same {A} (d r : list A) : Nat.eqb (length r) (length (d ++ r)) = true -> d = [].
Proof. intros H. apply Nat.eqb_eq in H. rewrite app_length in H. destruct d; [reflexivity|cbn in H; lia]. Qed.
Lemma len_app_diff {A} (b d r : list A) : b = d ++ r -> negb (Nat.eqb (length r) (length b)) = true -> d <> [].
Proof. intros -> H ->. cbn in H. rewrite Nat.eqb_refl in H. discriminate. Qed.

Lemma opt_split (k : byte) (b : bytes) : exists o, b = o ++ drop_opt k b /\ opt k o.
Proof.
  destruct b as [|c b']; [exists []; split; [reflexivity|left; reflexivity]|]. unfold drop_opt.
  destruct (c =? k) eqn:E; [apply N.eqb_eq in E; subst; exists [k]; split; [reflexivity|right; reflexivity]|].
  exists []; split; [reflexivity|left; reflexivity].
Qed.
Lemma sign_split (b : bytes) : exists sgn, b = sgn ++ drop_sign b /\ (sgn = [] \/ sgn = [43] \/ sgn = [45]).
Proof.
  destruct b as [|d b']; [exists []; auto|]. unfold drop_sign.
  destruct (d =? 43) eqn:E1; [apply N.eqb_eq in E1; subst; exists [43]; auto|].
  destruct (d =? 45) eqn:E2; [apply N.eqb_eq in E2; subst; exists [45]; auto|]. exists []; auto.
Qed.

Lemma consume_number_sound b s r s' : consume_number b s = (Some r, s') -> exists x, b = x ++ r /\ RNum x.
Proof.
  unfold consume_number.
  destruct (opt_split 45 b) as (sg & Hb & Hsg). set (b1 := drop_opt 45 b) in *.
  destruct (skip_digits_split b1) as (i & Hb1 & Hi). set (b2 := skip_digits b1) in *.
  destruct (opt_split 46 b2) as (dot & Hb2 & Hdot). set (b3 := drop_opt 46 b2) in *.
  destruct (skip_digits_split b3) as (f & Hb3 & Hf). set (b4 := skip_digits b3) in *.
  set (got2 := _ || _).
  assert (Hgot : got2 = true -> i ++ f <> []).
  { subst got2. intros Hg. apply orb_true_iff in Hg as [Hg|Hg].
    - apply (len_app_diff _ _ _ Hb1) in Hg. destruct i; [congruence|discriminate].
    - apply (len_app_diff _ _ _ Hb3) in Hg. destruct f; [congruence|]. destruct i; discriminate. }
  clearbody got2.
  assert (Hall : b = sg ++ i ++ dot ++ f ++ b4) by (rewrite <- Hb3, <- Hb2, <- Hb1; exact Hb).
  clearbody b1 b2 b3. destruct b4 as [|c b5] eqn:E4.
  - destruct got2; intros H; inversion H; subst r. exists (sg ++ i ++ dot ++ f); split.
    + rewrite Hall at 1. rewrite <- ?app_assoc. rewrite !app_nil_r. reflexivity.
    + exists sg, i, dot, f, []. rewrite app_nil_r. repeat split; auto. left; reflexivity.
  - destruct (got2 && _) eqn:Eg.
    + apply andb_true_iff in Eg as [Eg Ec]. subst got2.
      destruct (sign_split b5) as (sgn & Hb5 & Hsgn). set (b6 := drop_sign b5) in *. clearbody b6.
      destruct (skip_digits_split b6) as (ds & Hb6 & Hds). set (b7 := skip_digits b6) in *.
      destruct (negb _) eqn:Eg3; intros H; inversion H; subst r.
      apply (len_app_diff _ _ _ Hb6) in Eg3.
      exists (sg ++ i ++ dot ++ f ++ c :: sgn ++ ds); split.
      * rewrite Hall at 1. rewrite Hb5, Hb6. rewrite <- ?app_assoc. cbn. rewrite <- ?app_assoc. reflexivity.
      * exists sg, i, dot, f, (c :: sgn ++ ds). repeat split; auto. right. exists c, sgn, ds. repeat split; auto.
        apply orb_true_iff in Ec as [Ec|Ec]; apply N.eqb_eq in Ec; auto.
    + destruct got2; intros H; inversion H; subst r. exists (sg ++ i ++ dot ++ f); split.
      * rewrite Hall at 1. rewrite <- ?app_assoc. reflexivity.
      * exists sg, i, dot, f, []. rewrite app_nil_r. repeat split; auto. left; reflexivity.
Qed.

(* ---------- containers, open recursion ---------- *)
Section Sound.
  Variable maxrec : nat.
  Variable qs : list query.
  Variable tk : N * N * N * N * N * N * N.

  Definition sound (rec : recT) := forall w b lvl s r s', rec w b lvl s = (Some r, s') -> exists x, b = x ++ r /\ Lang w x.

  Lemma dispatch_sound rec c b2 lvl s1 r s' : sound rec ->
    dispatch rec c (c :: b2) b2 lvl s1 = (Some r, s') -> exists v, c :: b2 = v ++ r /\ RVal v.
  Proof.
    intros Hr. unfold dispatch.
    destruct (c =? 34) eqn:E1.
    { apply N.eqb_eq in E1; subst. intros H. apply consume_string_sound0 in H as (x & -> & Hx).
      exists (34 :: x); split; [reflexivity|constructor; exact Hx]. }
    destruct (c =? 91) eqn:E2.
    { apply N.eqb_eq in E2; subst. intros H. apply Hr in H as (x & -> & Hx). exists (91 :: x); split; [reflexivity|apply RV_arr, Hx]. }
    destruct (c =? 123) eqn:E3.
    { apply N.eqb_eq in E3; subst. intros H. apply Hr in H as (x & -> & Hx). exists (123 :: x); split; [reflexivity|apply RV_obj, Hx]. }
    destruct (c =? 116). { intros H. apply consume_const_sound in H. eexists; split; [exact H|apply RV_true]. }
    destruct (c =? 102). { intros H. apply consume_const_sound in H. eexists; split; [exact H|apply RV_false]. }
    destruct (c =? 110). { intros H. apply consume_const_sound in H. eexists; split; [exact H|apply RV_null]. }
    intros H. apply consume_number_sound in H as (x & Hx & Hn). exists x; split; [exact Hx|apply RV_num, Hn].
  Qed.

  Lemma after_value_sound lvl b v r0 s0 r s' : b = v ++ r0 -> RVal v ->
    after_value lvl (Some r0, s0) = (Some r, s') -> exists w2, b = v ++ w2 ++ r /\ WS w2.
  Proof.
    intros -> Hv. unfold after_value, consume_space. intros H. inversion H; subst.
    destruct (skip_space_split r0) as (w2 & Hw2 & HW). exists w2. split; [rewrite Hw2 at 1; reflexivity|exact HW].
  Qed.

  Lemma any_body_sound rec b lvl s r s' : sound rec -> any_body maxrec qs tk rec b lvl s = (Some r, s') -> exists x, b = x ++ r /\ AnyWS x.
  Proof.
    intros Hr. unfold any_body. destruct (negb (Nat.eqb maxrec 0) && Nat.ltb maxrec lvl); [discriminate|].
    unfold consume_space. destruct (skip_space_split b) as (w & Hw & HW).
    destruct (skip_space b) as [|c b2] eqn:E; [discriminate|].
    destruct (dispatch rec c (c :: b2) b2 lvl _) as [o s0] eqn:Ed.
    destruct (note_token_eq qs tk c lvl o s0) as (sn & -> & _).
    destruct o as [r0|]; [|discriminate].
    apply dispatch_sound in Ed as (v & Hv & HV); [|exact Hr].
    intros H. destruct (after_value_sound _ _ _ _ _ _ _ Hv HV H) as (w2 & Hb & HW2).
    exists (w ++ v ++ w2); split.
    - rewrite Hw, Hb. rewrite <- ?app_assoc. reflexivity.
    - exists w, v, w2; auto.
  Qed.

  Lemma arr_sep_sound rec lvl b xa r0 s0 r s' : sound rec -> b = xa ++ r0 -> AnyWS xa ->
    arr_sep rec lvl (Some r0, s0) = (Some r, s') ->
    forall w, WS w -> exists x, w ++ b = x ++ r /\ RArrTail x.
  Proof.
    intros Hr -> (w1 & v & w2 & -> & HW1 & HV & HW2). unfold arr_sep.
    destruct r0 as [|d b4]; [discriminate|].
    destruct (d =? 44) eqn:E1.
    { apply N.eqb_eq in E1; subst. intros H w HW. apply Hr in H as (xt & -> & Ht). cbn [Lang] in Ht.
      exists ((w ++ w1) ++ v ++ w2 ++ 44 :: xt); split; [rewrite <- ?app_assoc; cbn; rewrite <- ?app_assoc; reflexivity|].
      apply RA_more; auto. apply Forall_app; auto. }
    destruct (d =? 93) eqn:E2; [|discriminate].
    apply N.eqb_eq in E2; subst. intros H w HW. inversion H; subst.
    exists ((w ++ w1) ++ v ++ w2 ++ [93]); split; [rewrite <- ?app_assoc; cbn; rewrite <- ?app_assoc; reflexivity|].
    apply RA_last; auto. apply Forall_app; auto.
  Qed.

  Lemma arr_body_sound rec b lvl s r s' : sound rec -> arr_body rec b lvl s = (Some r, s') -> exists x, b = x ++ r /\ RArrTail x.
  Proof.
    intros Hr. unfold arr_body, consume_space. destruct (skip_space_split b) as (w & Hw & HW).
    destruct (skip_space b) as [|c b2] eqn:E; [discriminate|].
    destruct (c =? 93) eqn:E1.
    { apply N.eqb_eq in E1; subst. intros H; inversion H; subst. exists (w ++ [93]); split; [rewrite <- app_assoc; reflexivity|constructor; exact HW]. }
    destruct (rec WAny (c :: b2) lvl _) as [[r0|] s0] eqn:Ea; [|cbn; discriminate].
    apply Hr in Ea as (xa & Hxa & HA). cbn [Lang] in HA.
    intros H. destruct (arr_sep_sound _ _ _ _ _ _ _ _ Hr Hxa HA H w HW) as (x & Hx & HT).
    exists x; split; [rewrite Hw at 1; exact Hx|exact HT].
  Qed.

  Lemma obj_sep_sound rec lvl b xa r0 s0 r s' : sound rec -> b = xa ++ r0 -> AnyWS xa ->
    obj_sep rec lvl (Some r0, s0) = (Some r, s') ->
    forall w k w1 w2, WS w -> RStr k -> WS w1 -> WS w2 ->
      exists x, w ++ 34 :: k ++ w1 ++ 58 :: w2 ++ b = x ++ r /\ RObjTail x.
  Proof.
    intros Hr -> (wa & v & w3 & -> & HWa & HV & HW3). unfold obj_sep.
    destruct r0 as [|d b4]; [discriminate|].
    destruct (d =? 44) eqn:E1.
    { apply N.eqb_eq in E1; subst. intros H w k w1 w2 HW HK HW1 HW2. apply Hr in H as (xt & -> & Ht). cbn [Lang] in Ht.
      exists (w ++ 34 :: k ++ w1 ++ 58 :: (w2 ++ wa) ++ v ++ w3 ++ 44 :: xt); split.
      - rewrite <- ?app_assoc. cbn. rewrite <- ?app_assoc. cbn. rewrite <- ?app_assoc. reflexivity.
      - apply RO_more; auto. apply Forall_app; auto. }
    destruct (d =? 125) eqn:E2; [|discriminate].
    apply N.eqb_eq in E2; subst. intros H w k w1 w2 HW HK HW1 HW2. inversion H; subst.
    exists (w ++ 34 :: k ++ w1 ++ 58 :: (w2 ++ wa) ++ v ++ w3 ++ [125]); split.
    - rewrite <- ?app_assoc. cbn. rewrite <- ?app_assoc. cbn. rewrite <- ?app_assoc. reflexivity.
    - apply RO_last; auto. apply Forall_app; auto.
  Qed.

  Lemma obj_body_sound rec b lvl s r s' : sound rec -> obj_body qs rec b lvl s = (Some r, s') -> exists x, b = x ++ r /\ RObjTail x.
  Proof.
    intros Hr. unfold obj_body, consume_space. destruct (skip_space_split b) as (w & Hw & HW).
    destruct (skip_space b) as [|c b2] eqn:E; [discriminate|].
    destruct (c =? 125) eqn:E1.
    { apply N.eqb_eq in E1; subst. intros H; inversion H; subst. exists (w ++ [125]); split; [rewrite <- app_assoc; reflexivity|constructor; exact HW]. }
    destruct (negb (c =? 34)) eqn:E2; [discriminate|]. apply negb_false_iff, N.eqb_eq in E2; subst c.
    destruct (consume_string b2 0 false _) as [o s2] eqn:Ek.
    destruct (key_step_eq qs b2 o s2) as (sn & qm & -> & _).
    destruct o as [b3|]; [|cbn; discriminate].
    apply consume_string_sound0 in Ek as (k & Hk & HK).
    unfold obj_value, consume_space. destruct (skip_space_split b3) as (w1 & Hw1 & HW1).
    destruct (skip_space b3) as [|d b5] eqn:E3; [discriminate|].
    destruct (negb (d =? 58)) eqn:E4; [discriminate|]. apply negb_false_iff, N.eqb_eq in E4; subst d.
    destruct (skip_space_split b5) as (w2 & Hw2 & HW2).
    destruct (skip_space b5) as [|e b7] eqn:E5; [discriminate|].
    destruct (rec WAny (e :: b7) lvl _) as [o0 s0] eqn:Ea.
    destruct (note_value_eq qm (e :: b7) o0 s0) as (sv & -> & _).
    destruct o0 as [r0|]; [|cbn; discriminate].
    apply Hr in Ea as (xa & Hxa & HA). cbn [Lang] in HA.
    intros H. destruct (obj_sep_sound _ _ _ _ _ _ _ _ Hr Hxa HA H w k w1 w2 HW HK HW1 HW2) as (x & Hx & HT).
    exists x; split; [|exact HT]. rewrite <- Hx. rewrite Hw at 1. rewrite Hk, Hw1, Hw2.
    rewrite <- ?app_assoc. cbn. rewrite <- ?app_assoc. reflexivity.
  Qed.

  Theorem go_sound : forall fuel, sound (go maxrec qs tk fuel).
  Proof.
    induction fuel as [|f IH]; intros w b lvl s r s' H; [discriminate|].
    destruct w; cbn [go] in H; cbn [Lang].
    - eapply any_body_sound; eauto.
    - eapply arr_body_sound; eauto.
    - eapply obj_body_sound; eauto.
  Qed.
End Sound.
