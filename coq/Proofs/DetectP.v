(* Detect on the model: data obligations over the regenerated tree, and the theorems behind
   C03 (instances), C07 and C17. *)
From Verif Require Import Base.Bytes Model.Types Model.GoLite Model.Sigs Model.Detectors Model.Text Model.Tree
  Model.Tar Model.Zip Model.Mkv Model.Detect Gen.TreeData Gen.SigData Gen.Tables
  Spec.SpecText Proofs.BytesP Proofs.GoLiteP Proofs.TreeP Proofs.TextP Proofs.MonoP.
Local Open Scope nat_scope.

(* ---------------- data obligations (vm_compute over the Gen files) ---------------- *)
Lemma ob_boms : boms = spec_boms.
Proof. vm_compute. reflexivity. Qed.

Lemma ob_text_unique : ids_with_mime (b "text/plain") = [text_id].
Proof. vm_compute. reflexivity. Qed.

Lemma ob_text_det : nth_error node_dets text_id = Some (Some (DFunc "Text"%string)).
Proof. vm_compute. reflexivity. Qed.

Lemma ob_text_last : root_kids = removelast root_kids ++ [text_id] /\ existsb (Nat.eqb text_id) (removelast root_kids) = false.
Proof. split; vm_compute; reflexivity. Qed.

Lemma ob_text_not_root : Nat.eqb text_id 0 = false.
Proof. vm_compute. reflexivity. Qed.

Lemma ob_root_id : t_id tree0 = 0.
Proof. reflexivity. Qed.

Lemma ob_nodes_ids : map n_id nodes = seq 0 (length nodes).
Proof. vm_compute. reflexivity. Qed.

(* ---------------- C07 ---------------- *)
Lemma verdict_text orc raw lim : verdict orc raw lim text_id = text_spec raw.
Proof.
  unfold verdict. rewrite ob_text_det.
  change (eval_det (DFunc "Text"%string) raw lim) with (Some (Val (text_det boms raw))).
  cbv iota. rewrite ob_boms. apply text_det_spec.
Qed.

Definition has_mime (i : nat) (m : bytes) : Prop := exists n, nth_error nodes i = Some n /\ n_mime n = m.

Lemma has_mime_ids i m : has_mime i m -> In i (ids_with_mime m).
Proof.
  intros (n & Hn & Hm). unfold ids_with_mime. apply in_map_iff. exists n. split.
  - assert (Hid : nth_error (map n_id nodes) i = Some (n_id n)) by (rewrite nth_error_map, Hn; reflexivity).
    rewrite ob_nodes_ids in Hid.
    assert (Hlt : i < length (seq 0 (length nodes))) by (apply nth_error_Some; congruence).
    rewrite seq_length in Hlt.
    apply (nth_error_nth _ _ 0) in Hid. rewrite seq_nth in Hid by exact Hlt. cbn in Hid. congruence.
  - apply filter_In. split; [eapply nth_error_In; eauto|]. rewrite Hm. apply beq_refl.
Qed.

Theorem text_only_if orc l x i :
  In i (detect_path orc l x) -> has_mime i (b "text/plain") -> text_spec (hdr l x) = true.
Proof.
  intros Hin Hm. apply has_mime_ids in Hm. rewrite ob_text_unique in Hm. destruct Hm as [<-|[]].
  unfold detect_path in Hin. destruct (walk_head (verdict orc (hdr l x) l) tree0) as [p Hp].
  rewrite Hp in Hin. destruct Hin as [H0|Hin].
  - rewrite ob_root_id in H0. pose proof ob_text_not_root as Hn. rewrite <- H0 in Hn. discriminate.
  - assert (Ha : verdict orc (hdr l x) l text_id = true).
    { apply (ancestors_match _ tree0). rewrite Hp. exact Hin. }
    rewrite verdict_text in Ha. exact Ha.
Qed.

Lemma tree0_shape : tree0 = T 0 (t_kids tree0).
Proof. reflexivity. Qed.

Theorem text_if orc l x : text_spec (hdr l x) = true -> 2 <= length (detect_path orc l x).
Proof.
  intros Hs. unfold detect_path. set (acc := verdict orc (hdr l x) l).
  assert (Ha : acc text_id = true) by (unfold acc; rewrite verdict_text; exact Hs).
  rewrite tree0_shape.
  pose proof (root_child acc 0 (t_kids tree0)) as Hr. fold root_kids in Hr.
  destruct ob_text_last as [Hl _]. rewrite Hl in Hr.
  assert (Hex : exists j, first_acc acc (removelast root_kids ++ [text_id]) = Some j).
  { clear Hr Hl. induction (removelast root_kids) as [|k r IH]; cbn [app first_acc].
    - rewrite Ha. eauto.
    - destruct (acc k); [eauto|exact IH]. }
  destruct Hex as [j Hj]. rewrite Hj in Hr.
  destruct (walk acc (T 0 (t_kids tree0))) as [|a [|c r]]; cbn in Hr; try discriminate. cbn [length]. lia.
Qed.

(* ---------------- C17 ---------------- *)
Definition hand_mono : list string := ["Tar"; "CRX"; "WebM"; "Mkv"]%string.

Definition mono_ok (d : det) : bool :=
  match d with
  | DPrefix sg => mono (prefix_term sg)
  | DOffset sg off => mono (offset_term sg off)
  | DFtyp sg => mono (ftyp_term sg)
  | DJpeg2k sg => mono (jpeg2k_term sg)
  | DFunc name => match assoc name func_terms with
                  | Some p => mono p
                  | None => existsb (String.eqb name) hand_mono
                  end
  | _ => false
  end.

Lemma mono_ok_sound d raw e lim lim' :
  mono_ok d = true -> (N.of_nat (length (raw ++ e)) < two32)%N ->
  eval_det d raw lim = Some (Val true) -> eval_det d (raw ++ e) lim' = Some (Val true).
Proof.
  intros Hm Hsz. unfold eval_det.
  assert (Hg : forall p, mono p = true -> Some (evalp p raw) = Some (Val true) -> Some (evalp p (raw ++ e)) = Some (Val true)).
  { intros p Hp H. injection H as H'. rewrite (mono_sound _ raw e Hp H'). reflexivity. }
  destruct d as [sg|sg off|sg|sg|sg|sg|sg|sg|name]; cbn [mono_ok compile_det] in *; try discriminate; try (apply Hg; exact Hm).
  destruct (assoc name func_terms) as [p|] eqn:Ef.
  - apply Hg; exact Hm.
  - unfold hand_mono in Hm. cbn [existsb] in Hm.
    destruct (String.eqb_spec name "Tar"%string) as [->|_].
    { cbn. intros H; injection H as H'. rewrite tar_monotone by exact H'. reflexivity. }
    destruct (String.eqb_spec name "CRX"%string) as [->|_].
    { cbn. intros H; injection H as H'. rewrite crx_monotone by assumption. reflexivity. }
    destruct (String.eqb_spec name "WebM"%string) as [->|_].
    { cbn. intros H; injection H as H'. unfold webm_det in *. rewrite matroska_monotone by exact H'. reflexivity. }
    destruct (String.eqb_spec name "Mkv"%string) as [->|_].
    { cbn. intros H; injection H as H'. unfold mkv_det in *. rewrite matroska_monotone by exact H'. reflexivity. }
    discriminate.
Qed.

Definition ttf_id : nat := id_of_var "ttf"%string.
Definition mdb_id : nat := id_of_var "mdb"%string.
Definition accdb_id : nat := id_of_var "accdb"%string.

Definition det_mono_ok (id : nat) : bool :=
  match nth_error node_dets id with Some (Some d) => mono_ok d | _ => false end.

Lemma ob_root_mono :
  forallb (fun id => Nat.eqb id ttf_id || det_mono_ok id) (removelast root_kids) = true.
Proof. vm_compute. reflexivity. Qed.

Lemma ob_ttf : nth_error node_dets ttf_id = Some (Some (DFunc "Ttf"%string)) /\ assoc "Ttf"%string func_terms = Some ttf_term
  /\ nth_error node_dets mdb_id = Some (Some (DOffset (b "Standard Jet DB") 4))
  /\ nth_error node_dets accdb_id = Some (Some (DOffset (b "Standard ACE DB") 4))
  /\ existsb (Nat.eqb mdb_id) (removelast root_kids) = true
  /\ existsb (Nat.eqb accdb_id) (removelast root_kids) = true.
Proof. repeat split; vm_compute; reflexivity. Qed.

Lemma existsb_eqb_In i l : existsb (Nat.eqb i) l = true -> In i l.
Proof. intros H. apply existsb_exists in H as (x & Hx & He). apply Nat.eqb_eq in He. subst. exact Hx. Qed.

Lemma verdict_mono orc raw e lim lim' id :
  det_mono_ok id = true -> (N.of_nat (length (raw ++ e)) < two32)%N ->
  verdict orc raw lim id = true -> verdict orc (raw ++ e) lim' id = true.
Proof.
  unfold det_mono_ok, verdict. destruct (nth_error node_dets id) as [[d|]|]; try discriminate.
  intros Hm Hsz Hv.
  assert (Hd : exists f, compile_det d = Some f).
  { destruct d as [sg|sg off|sg|sg|sg|sg|sg|sg|name]; cbn [mono_ok compile_det] in *; try discriminate; eauto.
    destruct (assoc name func_terms); eauto. unfold hand_mono in Hm. cbn [existsb] in Hm.
    destruct (String.eqb_spec name "Tar"%string) as [Heq|_]; [rewrite Heq; cbn; eauto|].
    destruct (String.eqb_spec name "CRX"%string) as [Heq|_]; [rewrite Heq; cbn; eauto|].
    destruct (String.eqb_spec name "WebM"%string) as [Heq|_]; [rewrite Heq; cbn; eauto|].
    destruct (String.eqb_spec name "Mkv"%string) as [Heq|_]; [rewrite Heq; cbn; eauto|]. discriminate. }
  destruct Hd as [f Hf].
  assert (He : eval_det d raw lim = Some (Val true)).
  { unfold eval_det in *. rewrite Hf in *. destruct (f raw lim) as [[|]|]; congruence. }
  rewrite (mono_ok_sound d raw e lim lim' Hm Hsz He). reflexivity.
Qed.

Lemma verdict_ttf orc raw e lim lim' :
  verdict orc raw lim ttf_id = true ->
  verdict orc (raw ++ e) lim' ttf_id = true \/ verdict orc (raw ++ e) lim' mdb_id = true \/ verdict orc (raw ++ e) lim' accdb_id = true.
Proof.
  destruct ob_ttf as (Ht & Hterm & Hm & Ha & _ & _).
  unfold verdict. rewrite Ht, Hm, Ha. unfold eval_det. cbn [compile_det]. rewrite Hterm.
  change (offset_term (b "Standard Jet DB") 4) with (PRet mdb).
  change (offset_term (b "Standard ACE DB") 4) with (PRet ace).
  rewrite !evalp_ret.
  destruct (evalp ttf_term raw) as [[|]|] eqn:E; try discriminate. intros _.
  destruct (ttf_handover raw e E) as [H|[H|H]]; rewrite H; auto.
Qed.

Theorem limit_monotone orc x (L L' : N) :
  (N.of_nat (length x) < two32)%N -> (0 < L)%N -> (L' = 0 \/ L <= L')%N ->
  binary_path (detect_path orc L x) = true -> binary_path (detect_path orc L' x) = true.
Proof.
  intros Hsz HL HL'. destruct (hdr_mono L L' x HL HL') as [e He].
  assert (Hsz' : (N.of_nat (length (hdr L x ++ e)) < two32)%N).
  { rewrite <- He. unfold hdr. destruct (L' =? 0)%N; [exact Hsz|]. rewrite take_firstn, firstn_length. lia. }
  unfold detect_path, binary_path. rewrite tree0_shape, !root_child. fold root_kids.
  set (a1 := verdict orc (hdr L x) L). set (a2 := verdict orc (hdr L' x) L').
  destruct ob_text_last as [Hl Hnot]. rewrite Hl.
  destruct (first_acc a1 (removelast root_kids ++ [text_id])) as [c|] eqn:E1; [|discriminate].
  intros Hc. apply negb_true_iff, Nat.eqb_neq in Hc.
  apply first_acc_some in E1 as [Hin Hacc]. apply in_app_or in Hin as [Hin|[Heq|[]]]; [|congruence].
  assert (Hex : exists c', In c' (removelast root_kids) /\ a2 c' = true).
  { pose proof ob_root_mono as Hall. rewrite forallb_forall in Hall. specialize (Hall c Hin).
    apply orb_true_iff in Hall as [Ht|Hm].
    - apply Nat.eqb_eq in Ht. subst c. unfold a1 in Hacc. unfold a2. rewrite He.
      destruct ob_ttf as (_ & _ & _ & _ & Hmi & Hai).
      destruct (verdict_ttf orc (hdr L x) e L L' Hacc) as [H|[H|H]].
      + exists ttf_id; auto.
      + exists mdb_id; split; [apply existsb_eqb_In, Hmi|exact H].
      + exists accdb_id; split; [apply existsb_eqb_In, Hai|exact H].
    - exists c. split; [exact Hin|]. unfold a2. rewrite He. apply (verdict_mono orc (hdr L x) e L L' c Hm Hsz' Hacc). }
  destruct Hex as (c' & Hin' & Hacc').
  destruct (first_acc_in_prefix a2 _ [text_id] c' Hin' Hacc') as (j & Hj & Hjin). rewrite Hj.
  apply negb_true_iff, Nat.eqb_neq. intros ->.
  assert (existsb (Nat.eqb text_id) (removelast root_kids) = true).
  { apply existsb_exists. exists text_id. split; [exact Hjin|apply Nat.eqb_refl]. }
  congruence.
Qed.
