(* The scanner is ONLINE: run on a prefix bp of an input bp ++ q it either
     - stops strictly inside bp with at least one byte of lookahead left, and then behaves identically
       on bp ++ q (same rest ++ q, same state), or
     - fails inside bp, and then fails identically on bp ++ q, or
     - reaches the end of bp having inspected every byte of it (ib = ib0 + length bp).
   Purely a property of the scanner (any query table, any cap, any fuel); combined with completeness
   in whole mode it yields: every cut of an accepted document is inspected to its last byte - the
   truncated-mode half of C08.  Also: the result does not depend on fuel beyond 2*len+2. *)
From Coq Require Import Lia.
From Verif Require Import Base.Bytes Model.Json Proofs.JsonAcct.
Local Open Scope N_scope.

(* p-run result rp on (bp, s) against full-run result fr on (bp ++ q, s) *)
Definition onl (q bp : bytes) (s : pst) (rp fr : jres) : Prop :=
  match rp with
  | (Some r, sp) => r = [] \/ fr = (Some (r ++ q), sp)
  | (None, sp) => ib sp = (ib s + length bp)%nat \/ fr = (None, sp)
  end.

Lemma onl_cons q c b s r f : onl q b (bump 1 s) r f -> onl q (c :: b) s r f.
Proof. destruct r as [[r|] sp]; unfold onl; cbn; [auto|]. intros [H|H]; [left; lia|right; exact H]. Qed.

Lemma onl_sfx q b' b s s' r f : (ib s' + length b' = ib s + length b)%nat -> onl q b' s' r f -> onl q b s r f.
Proof. destruct r as [[r|] sp]; unfold onl; [auto|]. intros E [H|H]; [left; lia|right; exact H]. Qed.

Lemma onl_same q b s o s1 s2 f1 : ib s2 = ib s1 ->
  onl q b s (o, s1) f1 -> forall f2, (forall r, f1 = (Some r, s1) -> f2 = (Some r, s2)) -> (f1 = (None, s1) -> f2 = (None, s2)) ->
  onl q b s (o, s2) f2.
Proof.
  intros E H f2 Hs Hn. destruct o as [r|]; unfold onl in *.
  - destruct H as [H|H]; [left; exact H|right; apply Hs, H].
  - destruct H as [H|H]; [left; lia|right; apply Hn, H].
Qed.

Lemma sub_len_app (x y q : bytes) : (length (x ++ q) - length (y ++ q) = length x - length y)%nat.
Proof. rewrite !app_length. lia. Qed.
Lemma eqb_len_app (x y q : bytes) : Nat.eqb (length (x ++ q)) (length (y ++ q)) = Nat.eqb (length x) (length y).
Proof.
  rewrite !app_length. destruct (Nat.eqb_spec (length x) (length y)) as [E|E].
  - apply Nat.eqb_eq. lia.
  - apply Nat.eqb_neq. lia.
Qed.

Lemma skip_space_app_ne b q c r : skip_space b = c :: r -> skip_space (b ++ q) = (c :: r) ++ q.
Proof.
  induction b as [|x b IH]; cbn; [discriminate|]. destruct (is_space x); [exact IH|].
  intros E; injection E as -> ->. reflexivity.
Qed.
Lemma skip_digits_app_ne b q c r : skip_digits b = c :: r -> skip_digits (b ++ q) = (c :: r) ++ q.
Proof.
  induction b as [|x b IH]; cbn; [discriminate|]. destruct (is_digit x); [exact IH|].
  intros E; injection E as -> ->. reflexivity.
Qed.
Lemma skip_digits_nil_of b : b = [] -> skip_digits b = []. Proof. intros ->; reflexivity. Qed.

Lemma drop_opt_app_ne k b q : b <> [] -> drop_opt k (b ++ q) = drop_opt k b ++ q.
Proof. destruct b as [|c b]; [congruence|]. intros _. cbn. destruct (c =? k); reflexivity. Qed.
Lemma drop_sign_app_ne b q : b <> [] -> drop_sign (b ++ q) = drop_sign b ++ q.
Proof. destruct b as [|c b]; [congruence|]. intros _. cbn. destruct ((c =? 43) || (c =? 45)); reflexivity. Qed.

Lemma skip_space_len b : (length (skip_space b) <= length b)%nat.
Proof. apply sfx_len, skip_space_sfx. Qed.

(* white space on the prefix: unfold, split on whether anything is left, and align the longer input *)
Lemma consume_space_eq b s : consume_space b s = (skip_space b, bump (length b - length (skip_space b)) s).
Proof. reflexivity. Qed.
Ltac space_split b q c r E :=
  rewrite (consume_space_eq b), (consume_space_eq (b ++ q)); pose proof (skip_space_len b);
  destruct (skip_space b) as [|c r] eqn:E;
  [|rewrite (skip_space_app_ne b q c r E), (sub_len_app b (c :: r) q)].

Lemma consume_string_onl q : forall b h e s, onl q b s (consume_string b h e s) (consume_string (b ++ q) h e s).
Proof.
  induction b as [|c b IH]; intros h e s; cbn [app consume_string].
  - unfold onl. left. cbn. lia.
  - destruct e.
    + destruct (simple_esc c); [apply onl_cons, IH|]. destruct (c =? 117); [apply onl_cons, IH|]. right; reflexivity.
    + destruct h as [|h].
      * destruct (c =? 92); [apply onl_cons, IH|]. destruct (c =? 34); [|apply onl_cons, IH].
        unfold onl. right. reflexivity.
      * destruct (is_xdigit c); [apply onl_cons, IH|]. right; reflexivity.
Qed.

Lemma consume_const_onl q cn : forall b s, onl q b s (consume_const b cn s) (consume_const (b ++ q) cn s).
Proof.
  induction cn as [|c cn IH]; intros b s; cbn [consume_const].
  - unfold onl. right. reflexivity.
  - destruct b as [|x b]; cbn [app].
    + unfold onl. left. cbn. lia.
    + destruct (x =? c); [apply onl_cons, IH|]. right; reflexivity.
Qed.

Ltac end_case := match goal with |- onl _ _ _ (if ?c then _ else _) _ => destruct c; unfold onl; cbn; [left; reflexivity|left; lia] end.

Lemma consume_number_onl q b s : onl q b s (consume_number b s) (consume_number (b ++ q) s).
Proof.
  destruct b as [|x0 b0]; [unfold onl; cbn; left; lia|].
  set (b := x0 :: b0). assert (Hb : b <> []) by discriminate.
  unfold consume_number.
  rewrite (drop_opt_app_ne 45 b q Hb).
  set (b1 := drop_opt 45 b).
  destruct (skip_digits b1) as [|c2 r2] eqn:E2.
  { (* digits run to the end of the prefix *)
    cbn [drop_opt skip_digits]. end_case. }
  rewrite (skip_digits_app_ne b1 q c2 r2 E2).
  set (b2 := c2 :: r2) in *. assert (Hb2 : b2 <> []) by (unfold b2; discriminate).
  rewrite (drop_opt_app_ne 46 b2 q Hb2). rewrite eqb_len_app.
  set (got1 := negb (Nat.eqb (length b2) (length b1))).
  set (b3 := drop_opt 46 b2).
  destruct (skip_digits b3) as [|c4 r4] eqn:E4.
  { end_case. }
  rewrite (skip_digits_app_ne b3 q c4 r4 E4). rewrite eqb_len_app.
  set (got2 := got1 || negb (Nat.eqb (length (c4 :: r4)) (length b3))).
  cbn [app].
  destruct (got2 && ((c4 =? 101) || (c4 =? 69))).
  - destruct r4 as [|y r5].
    { cbn [drop_sign skip_digits length]. unfold onl; cbn. left. lia. }
    assert (Hr4 : y :: r5 <> []) by discriminate.
    rewrite (drop_sign_app_ne (y :: r5) q Hr4).
    set (b6 := drop_sign (y :: r5)).
    destruct (skip_digits b6) as [|c7 r7] eqn:E7.
    { cbn [length]. end_case. }
    rewrite (skip_digits_app_ne b6 q c7 r7 E7). rewrite eqb_len_app.
    change (x0 :: b0) with b. rewrite (sub_len_app b (c7 :: r7) q).
    match goal with |- onl _ _ _ (if ?c then _ else _) _ => destruct c; unfold onl; right; reflexivity end.
  - change (c4 :: r4 ++ q) with ((c4 :: r4) ++ q). change (x0 :: b0) with b. rewrite (sub_len_app b (c4 :: r4) q).
    destruct got2; unfold onl; right; reflexivity.
Qed.

Section Online.
  Variable maxrec : nat.
  Variable qs : list query.
  Variable tk : N * N * N * N * N * N * N.

  Definition rec_onl (rec : recT) := forall q w b lvl s, onl q b s (rec w b lvl s) (rec w (b ++ q) lvl s).

  Lemma note_token_onl q c lvl b s rp fr : onl q b s rp fr -> onl q b s (note_token qs tk c lvl rp) (note_token qs tk c lvl fr).
  Proof.
    destruct rp as [o sp]. destruct (note_token_eq qs tk c lvl o sp) as (s' & E & Hi). rewrite E.
    intros H. eapply onl_same; [exact Hi|exact H| |].
    - intros r ->. unfold note_token in *. injection E as <-. reflexivity.
    - intros ->. unfold note_token in *. injection E as <-. reflexivity.
  Qed.

  Lemma after_value_onl q lvl b s rp fr : acct b s rp -> onl q b s rp fr -> onl q b s (after_value lvl rp) (after_value lvl fr).
  Proof.
    destruct rp as [[r|] sp]; unfold after_value at 1.
    - intros [Hs Ha] [-> | ->].
      + cbn. left. reflexivity.
      + unfold after_value. space_split r q c r' E; [left; reflexivity|]. right. reflexivity.
    - intros _ [H | ->]; [left; exact H|right; reflexivity].
  Qed.

  Lemma dispatch_onl q rec c b2 lvl s1 : rec_onl rec ->
    onl q (c :: b2) s1 (dispatch rec c (c :: b2) b2 lvl s1) (dispatch rec c ((c :: b2) ++ q) (b2 ++ q) lvl s1).
  Proof.
    intros Hr. unfold dispatch.
    destruct (c =? 34); [apply onl_cons, consume_string_onl|].
    destruct (c =? 91); [apply onl_cons; eapply onl_sfx; [|apply Hr]; reflexivity|].
    destruct (c =? 123); [apply onl_cons, Hr|].
    destruct (c =? 116); [apply consume_const_onl|].
    destruct (c =? 102); [apply consume_const_onl|].
    destruct (c =? 110); [apply consume_const_onl|].
    apply consume_number_onl.
  Qed.

  Lemma any_body_onl q rec b lvl s : rec_ok rec -> rec_onl rec ->
    onl q b s (any_body maxrec qs tk rec b lvl s) (any_body maxrec qs tk rec (b ++ q) lvl s).
  Proof.
    intros Ha Hr. unfold any_body. destruct (negb (Nat.eqb maxrec 0) && Nat.ltb maxrec lvl); [right; reflexivity|].
    space_split b q c b2 E; [left; cbn; lia|].
    match goal with |- context [dispatch rec c _ _ lvl ?s1] => eapply onl_sfx with (b' := c :: b2) (s' := s1); [|apply after_value_onl] end.
    - cbn in *; lia.
    - match goal with |- acct _ ?s1 _ => pose proof (dispatch_acct rec c b2 lvl s1 Ha) as Hd; destruct (dispatch rec c (c :: b2) b2 lvl s1) as [o sd] end.
      destruct (note_token_eq qs tk c lvl o sd) as (sn & -> & Hn). eapply acct_same; [exact Hn|exact Hd].
    - apply note_token_onl. apply (dispatch_onl q rec c b2 lvl _ Hr).
  Qed.

  Lemma arr_sep_onl q rec lvl b s rp fr : rec_onl rec -> acct b s rp -> onl q b s rp fr ->
    onl q b s (arr_sep rec lvl rp) (arr_sep rec lvl fr).
  Proof.
    intros Hr. destruct rp as [[b3|] s2]; unfold arr_sep at 1.
    - intros [Hs Ha] [-> | ->]; [left; cbn in *; lia|].
      pose proof (sfx_len _ _ Hs) as Hl.
      destruct b3 as [|d b4]; [left; cbn in *; lia|]. unfold arr_sep. cbn [app].
      destruct (d =? 44).
      { eapply onl_sfx; [|apply Hr]. cbn in *. lia. }
      destruct (d =? 93); right; reflexivity.
    - intros _ [H | ->]; [left; exact H|right; reflexivity].
  Qed.

  Lemma arr_body_onl q rec b lvl s : rec_ok rec -> rec_onl rec ->
    onl q b s (arr_body rec b lvl s) (arr_body rec (b ++ q) lvl s).
  Proof.
    intros Ha Hr. unfold arr_body.
    space_split b q c b2 E; [left; cbn; lia|]. cbn [app].
    destruct (c =? 93); [right; reflexivity|].
    match goal with |- context [rec WAny (c :: b2) lvl ?s1] => eapply onl_sfx with (b' := c :: b2) (s' := s1); [|apply arr_sep_onl; [exact Hr|apply Ha|apply (Hr q WAny (c :: b2) lvl s1)]] end.
    cbn in *; lia.
  Qed.

  Lemma obj_sep_onl q rec lvl b s rp fr : rec_onl rec -> acct b s rp -> onl q b s rp fr ->
    onl q b s (obj_sep rec lvl rp) (obj_sep rec lvl fr).
  Proof.
    intros Hr. destruct rp as [[b3|] s2]; unfold obj_sep at 1.
    - intros [Hs Ha] [-> | ->]; [left; cbn in *; lia|].
      pose proof (sfx_len _ _ Hs) as Hl.
      destruct b3 as [|d b4]; [left; cbn in *; lia|]. unfold obj_sep. cbn [app].
      destruct (d =? 44).
      { eapply onl_sfx; [|apply Hr]. cbn in *. lia. }
      destruct (d =? 125); right; reflexivity.
    - intros _ [H | ->]; [left; exact H|right; reflexivity].
  Qed.

  Lemma firstn_app_le (x q : bytes) k : (k <= length x)%nat -> firstn k (x ++ q) = firstn k x.
  Proof. intros H. rewrite firstn_app. replace (k - length x)%nat with 0%nat by lia. cbn. apply app_nil_r. Qed.

  Lemma note_value_onl q qm b6 b s rp fr : onl q b s rp fr ->
    onl q b s (note_value qm b6 rp) (note_value qm (b6 ++ q) fr).
  Proof.
    destruct rp as [[b7|] sp]; unfold note_value at 1.
    - intros [-> | ->].
      + destruct qm; left; reflexivity.
      + unfold note_value. destruct qm as [qq|]; [|right; reflexivity].
        rewrite sub_len_app. rewrite firstn_app_le by lia. right. reflexivity.
    - intros [H | ->]; [left; exact H|right; reflexivity].
  Qed.

  Lemma obj_value_onl q rec lvl qm b s rp fr : rec_ok rec -> rec_onl rec -> acct b s rp -> onl q b s rp fr ->
    onl q b s (obj_value rec lvl qm rp) (obj_value rec lvl qm fr).
  Proof.
    intros Hok Hr. destruct rp as [[b3|] s2]; unfold obj_value at 1.
    - intros [Hs Ha] [-> | ->]; [left; cbn in *; lia|].
      pose proof (sfx_len _ _ Hs) as Hl. unfold obj_value.
      space_split b3 q d b5 E; [left; cbn in *; lia|]. cbn [app].
      destruct (negb (d =? 58)); [right; reflexivity|].
      space_split b5 q e b7 E2; [left; cbn in *; lia|].
      match goal with |- context [rec WAny (e :: b7) lvl ?s4] => eapply onl_sfx with (b' := e :: b7) (s' := s4); [|apply obj_sep_onl; [exact Hr| |apply note_value_onl, Hr]] end.
      + cbn in *; lia.
      + match goal with |- acct _ ?s4 _ => pose proof (Hok WAny (e :: b7) lvl s4) as Hv; destruct (rec WAny (e :: b7) lvl s4) as [o sv] end.
        destruct (note_value_eq qm (e :: b7) o sv) as (sn & -> & Hn). eapply acct_same; [exact Hn|exact Hv].
    - intros _ [H | ->]; [left; exact H|right; reflexivity].
  Qed.

  Lemma obj_body_onl q rec b lvl s : rec_ok rec -> rec_onl rec ->
    onl q b s (obj_body qs rec b lvl s) (obj_body qs rec (b ++ q) lvl s).
  Proof.
    intros Hok Hr. unfold obj_body.
    space_split b q c b2 E; [left; cbn; lia|]. cbn [app].
    destruct (c =? 125); [right; reflexivity|].
    destruct (negb (c =? 34)); [right; reflexivity|].
    match goal with |- context [consume_string b2 0 false ?s1] =>
      pose proof (consume_string_onl q b2 0%nat false s1) as Hk;
      pose proof (consume_string_acct b2 0%nat false s1) as Hka;
      destruct (consume_string b2 0 false s1) as [[b3|] sk] end.
    - destruct Hka as [Hks Hka]. pose proof (sfx_len _ _ Hks) as Hl3.
      destruct Hk as [-> | Hk].
      + unfold key_step at 1. unfold obj_value at 1, consume_space. cbn [skip_space length].
        left. cbn in *. lia.
      + rewrite Hk. unfold key_step. rewrite sub_len_app. rewrite firstn_app_le by lia.
        match goal with |- context [obj_value rec lvl _ (Some b3, ?sk')] => eapply onl_sfx with (b' := c :: b2) (s' := bump (length b - length (c :: b2)) s) end; [|apply obj_value_onl; [exact Hok|exact Hr| |right; reflexivity]].
        * cbn in *; lia.
        * split; [apply sfx_cons, Hks|cbn in *; lia].
    - destruct Hk as [Hk | ->].
      + unfold key_step at 1, obj_value at 1. left. cbn in *. lia.
      + unfold key_step, obj_value. right. reflexivity.
  Qed.

  Lemma go_onl : forall fuel, rec_onl (go maxrec qs tk fuel).
  Proof.
    induction fuel as [|f IH]; intros q w b lvl s; [right; reflexivity|].
    pose proof (go_acct maxrec qs tk f) as Hok.
    destruct w; cbn [go]; [apply any_body_onl|apply arr_body_onl|apply obj_body_onl]; assumption.
  Qed.

  (* every byte of a prefix is inspected whenever the longer input is scanned to completion *)
  Theorem scan_online fuel p q lvl s s' :
    go maxrec qs tk fuel WAny (p ++ q) lvl s = (Some [], s') ->
    ib (snd (go maxrec qs tk fuel WAny p lvl s)) = (ib s + length p)%nat.
  Proof.
    intros Hfull. pose proof (go_onl fuel q WAny p lvl s) as H. pose proof (go_acct maxrec qs tk fuel WAny p lvl s) as Ha.
    destruct (go maxrec qs tk fuel WAny p lvl s) as [[r|] sp]; cbn [snd]; unfold onl in H.
    - destruct Ha as [_ Ha]. assert (r = []) as ->.
      { destruct H as [H|H]; [exact H|]. rewrite Hfull in H. injection H as H _. symmetry in H. apply app_eq_nil in H. apply H. }
      cbn in Ha. lia.
    - destruct H as [H|H]; [exact H|]. rewrite Hfull in H. discriminate.
  Qed.
End Online.

(* ---- the result does not depend on fuel once it covers 2*len+1 (value) / 2*len+2 (container tail) ---- *)
Definition need (w : which) (b : bytes) : nat :=
  (2 * length b + match w with WAny => 1 | _ => 2 end)%nat.

Section Fuel.
  Variable maxrec : nat.
  Variable qs : list query.
  Variable tk : N * N * N * N * N * N * N.

  Definition agree_below (n : nat) (r1 r2 : recT) :=
    forall w b lvl s, (need w b < n)%nat -> r1 w b lvl s = r2 w b lvl s.

  Lemma any_body_ext r1 r2 b lvl s : agree_below (need WAny b) r1 r2 ->
    any_body maxrec qs tk r1 b lvl s = any_body maxrec qs tk r2 b lvl s.
  Proof.
    intros H. unfold any_body. destruct (negb (Nat.eqb maxrec 0) && Nat.ltb maxrec lvl); [reflexivity|].
    rewrite consume_space_eq. pose proof (skip_space_len b) as Hl.
    destruct (skip_space b) as [|c b2]; [reflexivity|].
    f_equal. f_equal. unfold dispatch.
    destruct (c =? 34); [reflexivity|].
    destruct (c =? 91); [apply H; unfold need; cbn in *; lia|].
    destruct (c =? 123); [apply H; unfold need; cbn in *; lia|]. reflexivity.
  Qed.

  Lemma arr_body_ext r1 r2 b lvl s : rec_ok r1 -> agree_below (need WArr b) r1 r2 ->
    arr_body r1 b lvl s = arr_body r2 b lvl s.
  Proof.
    intros Hok H. unfold arr_body. rewrite consume_space_eq. pose proof (skip_space_len b) as Hl.
    destruct (skip_space b) as [|c b2]; [reflexivity|].
    destruct (c =? 93); [reflexivity|].
    rewrite <- (H WAny) by (unfold need; cbn in *; lia).
    match goal with |- context [r1 WAny ?x lvl ?st] => pose proof (Hok WAny x lvl st) as Ha; destruct (r1 WAny x lvl st) as [[b3|] s2] end; [|reflexivity].
    destruct Ha as [Hs _]. apply sfx_len in Hs. unfold arr_sep.
    destruct b3 as [|d b4]; [reflexivity|].
    destruct (d =? 44); [|reflexivity]. apply H. unfold need. cbn in *. lia.
  Qed.

  Lemma obj_body_ext r1 r2 b lvl s : rec_ok r1 -> agree_below (need WObj b) r1 r2 ->
    obj_body qs r1 b lvl s = obj_body qs r2 b lvl s.
  Proof.
    intros Hok H. unfold obj_body. rewrite consume_space_eq. pose proof (skip_space_len b) as Hl.
    destruct (skip_space b) as [|c b2]; [reflexivity|].
    destruct (c =? 125); [reflexivity|]. destruct (negb (c =? 34)); [reflexivity|].
    match goal with |- context [consume_string b2 0 false ?s1] =>
      pose proof (consume_string_acct b2 0%nat false s1) as Hka; destruct (consume_string b2 0 false s1) as [[b3|] sk] end; [|reflexivity].
    destruct Hka as [Hks _]. apply sfx_len in Hks.
    unfold key_step, obj_value.
    match goal with |- context [consume_space b3 ?st] => rewrite (consume_space_eq b3 st) end.
    pose proof (skip_space_len b3) as Hl3.
    destruct (skip_space b3) as [|d b5]; [reflexivity|].
    destruct (negb (d =? 58)); [reflexivity|].
    match goal with |- context [consume_space b5 ?st] => rewrite (consume_space_eq b5 st) end.
    pose proof (skip_space_len b5) as Hl5.
    destruct (skip_space b5) as [|e b7]; [reflexivity|].
    rewrite <- (H WAny) by (unfold need; cbn in *; lia).
    match goal with |- context [r1 WAny ?x lvl ?st] => pose proof (Hok WAny x lvl st) as Ha; destruct (r1 WAny x lvl st) as [[b8|] s5] end; [|reflexivity].
    destruct Ha as [Hs _]. apply sfx_len in Hs.
    unfold note_value.
    match goal with |- obj_sep r1 lvl ?r = _ => destruct r as [[b9|] s6] eqn:Er end; [|reflexivity].
    assert (b9 = b8) as ->.
    { destruct (if qsat _ then None else _); [|injection Er as -> _; reflexivity]. injection Er as -> _; reflexivity. }
    unfold obj_sep. destruct b8 as [|x b10]; [reflexivity|].
    destruct (x =? 44); [|reflexivity]. apply H. unfold need. cbn in *. lia.
  Qed.

  Lemma go_fuel : forall f f' w b lvl s, (need w b <= f)%nat -> (need w b <= f')%nat ->
    go maxrec qs tk f w b lvl s = go maxrec qs tk f' w b lvl s.
  Proof.
    induction f as [|f IH]; intros f' w b lvl s H1 H2; [unfold need in H1; destruct w; lia|].
    destruct f' as [|f']; [unfold need in H2; destruct w; lia|].
    assert (Hag : agree_below (need w b) (go maxrec qs tk f) (go maxrec qs tk f')).
    { intros w' b' lvl' s' Hlt. apply IH; lia. }
    pose proof (go_acct maxrec qs tk f) as Hok.
    destruct w; cbn [go]; [apply any_body_ext|apply arr_body_ext|apply obj_body_ext]; assumption.
  Qed.

  (* whatever happens afterwards, the first token and (without queries) the query flag are recorded *)
  Lemma any_body_flags rec b c r s : skip_space b = c :: r ->
    let s' := snd (any_body maxrec qs tk rec b 0 s) in
    (negb (Nat.eqb maxrec 0) && Nat.ltb maxrec 0 = false) ->
    ftok s' = tok_of tk c /\ (qs = [] -> qsat s' = true).
  Proof.
    intros E s' Hg. subst s'. unfold any_body. rewrite Hg. rewrite consume_space_eq, E.
    match goal with |- context [dispatch rec c ?x r 0%nat ?st] => destruct (dispatch rec c x r 0%nat st) as [o sd] end.
    unfold note_token. cbn [Nat.eqb]. unfold after_value.
    destruct o as [b3|].
    - rewrite consume_space_eq. cbn [snd Nat.eqb]. split; [destruct qs; reflexivity|]. intros ->. reflexivity.
    - cbn [snd]. split; [destruct qs; reflexivity|]. intros ->. reflexivity.
  Qed.
End Fuel.
