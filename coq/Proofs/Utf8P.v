(* C11: utf8.Valid of the model is well-formedness per Unicode Table 3-7 (the specification's reading),
   FullRune and the trailing-partial-rune trimmer characterised, and the two UTF-8 clauses of FromPlain. *)
From Coq Require Import Lia.
From Verif Require Import Base.Bytes Model.Text Model.Charset Spec.SpecText Spec.SpecCharset Proofs.BytesP.
Local Open Scope N_scope.

Ltac decide_cmps :=
  repeat match goal with
  | |- context [N.leb ?a ?b] => first [ replace (N.leb a b) with true by (symmetry; apply N.leb_le; lia)
                                      | replace (N.leb a b) with false by (symmetry; apply N.leb_gt; lia) ]
  | |- context [N.ltb ?a ?b] => first [ replace (N.ltb a b) with true by (symmetry; apply N.ltb_lt; lia)
                                      | replace (N.ltb a b) with false by (symmetry; apply N.ltb_ge; lia) ]
  | |- context [N.eqb ?a ?b] => first [ replace (N.eqb a b) with true by (symmetry; apply N.eqb_eq; lia)
                                      | replace (N.eqb a b) with false by (symmetry; apply N.eqb_neq; lia) ]
  end.
Ltac split_cmps :=
  repeat match goal with
  | |- context [N.leb ?a ?b] => destruct (N.leb_spec a b)
  | |- context [N.ltb ?a ?b] => destruct (N.ltb_spec a b)
  | |- context [N.eqb ?a ?b] => destruct (N.eqb_spec a b)
  end.

Lemma byte_class (c : N) :
  c < 128 \/ (128 <= c /\ c < 194) \/ (194 <= c /\ c <= 223) \/ c = 224 \/ (225 <= c /\ c <= 236) \/ c = 237 \/
  (238 <= c /\ c <= 239) \/ c = 240 \/ (241 <= c /\ c <= 243) \/ c = 244 \/ 244 < c.
Proof. lia. Qed.

Definition width (c : byte) : nat :=
  if c <? 128 then 1%nat else match lead_info c with Some (n, _, _) => S n | None => 0%nat end.

Definition step_rhs (c : byte) (l1 : bytes) : bool :=
  match width c with
  | O => false
  | w => Nat.leb w (length (c :: l1)) && scalar (firstn w (c :: l1)) && utf8_valid (skipn w (c :: l1))
  end.

Lemma utf8_valid_step c l1 : utf8_valid (c :: l1) = step_rhs c l1.
Proof.
  unfold step_rhs, width, lead_info, inr. cbn [utf8_valid].
  destruct (byte_class c) as [H|[H|[H|[H|[H|[H|[H|[H|[H|[H|H]]]]]]]]]]; try subst c; decide_cmps; cbn [andb orb negb];
    try reflexivity.
  all: destruct l1 as [|c1 [|c2 [|c3 l4]]]; cbn [length Nat.leb firstn skipn scalar andb]; unfold lead_info, inr, cont; decide_cmps;
    cbn [andb orb negb length Nat.eqb Nat.sub forallb]; try reflexivity.
  all: split_cmps; cbn; try reflexivity; try (destruct (utf8_valid _); reflexivity).
Qed.

Lemma width_pos_le4 c : (width c <= 4)%nat.
Proof.
  unfold width, lead_info, inr.
  destruct (byte_class c) as [H|[H|[H|[H|[H|[H|[H|[H|[H|[H|H]]]]]]]]]]; try subst c; decide_cmps; cbn; lia.
Qed.

Lemma wf_b_valid : forall fuel l, (length l < fuel)%nat -> wf_b fuel l = utf8_valid l.
Proof.
  induction fuel as [|f IH]; intros l Hl; [lia|].
  destruct l as [|c l1]; [reflexivity|].
  rewrite utf8_valid_step. unfold step_rhs. cbn [wf_b]. fold (width c).
  destruct (width c) as [|w] eqn:Ew; [reflexivity|].
  rewrite IH; [reflexivity|]. rewrite skipn_length. cbn [length] in *. lia.
Qed.

Theorem well_formed_valid l : well_formed l = utf8_valid l.
Proof. unfold well_formed. apply wf_b_valid. lia. Qed.

(* ---- splitting a valid string at a rune boundary ---- *)
Lemma scalar_tail_cont c rest : scalar (c :: rest) = true -> forallb (inr 128 191) rest = true.
Proof.
  destruct rest as [|c1 more]; [reflexivity|]. cbn [scalar].
  unfold lead_info, inr.
  destruct (byte_class c) as [H|[H|[H|[H|[H|[H|[H|[H|[H|[H|H]]]]]]]]]]; try subst c; decide_cmps; cbn [andb orb negb];
    try discriminate.
  all: intros E; apply andb_true_iff in E as [E E3]; apply andb_true_iff in E as [E1 E2];
    cbn [forallb]; rewrite E3; apply andb_true_iff in E1 as [Ea Eb]; apply N.leb_le in Ea; apply N.leb_le in Eb;
    unfold inr; replace (128 <=? c1) with true by (symmetry; apply N.leb_le; lia);
    replace (c1 <=? 191) with true by (symmetry; apply N.leb_le; lia); reflexivity.
Qed.

Lemma valid_split : forall n a b', (length a <= n)%nat ->
  utf8_valid (a ++ b') = true -> (match b' with [] => True | h :: _ => cont h = false end) ->
  utf8_valid a = true /\ utf8_valid b' = true.
Proof.
  induction n as [|n IH]; intros a b' Hn Hv Hb.
  { destruct a; [|cbn in Hn; lia]. split; [reflexivity|exact Hv]. }
  destruct a as [|c a']; [split; [reflexivity|exact Hv]|].
  cbn [app] in Hv. rewrite utf8_valid_step in Hv. unfold step_rhs in Hv.
  destruct (width c) as [|w] eqn:Ew; [discriminate|].
  apply andb_true_iff in Hv as [Hv Hrest]. apply andb_true_iff in Hv as [Hlen Hsc]. apply Nat.leb_le in Hlen.
  change (c :: a' ++ b') with ((c :: a') ++ b') in *.
  destruct (Nat.le_gt_cases (S w) (length (c :: a'))) as [Hin|Hout].
  - rewrite firstn_app in Hsc. replace (S w - length (c :: a'))%nat with 0%nat in Hsc by lia.
    cbn [firstn] in Hsc. rewrite app_nil_r in Hsc.
    rewrite skipn_app in Hrest. replace (S w - length (c :: a'))%nat with 0%nat in Hrest by lia.
    cbn [skipn] in Hrest.
    destruct (IH (skipn (S w) (c :: a')) b') as [Ha Hb']; [rewrite skipn_length; cbn [length] in *; lia|exact Hrest|exact Hb|].
    split; [|exact Hb'].
    rewrite utf8_valid_step. unfold step_rhs. rewrite Ew. cbn [firstn skipn] in *. rewrite Hsc, Ha.
    replace (Nat.leb (S w) (length (c :: a'))) with true by (symmetry; apply Nat.leb_le; lia). reflexivity.
  - exfalso. rewrite firstn_app in Hsc.
    rewrite firstn_all2 in Hsc by lia.
    destruct b' as [|h b'']; [rewrite app_nil_r in Hlen; cbn [length] in *; lia|].
    destruct (S w - length (c :: a'))%nat as [|m] eqn:Em; [lia|]. cbn [firstn] in Hsc.
    cbn [app] in Hsc. apply scalar_tail_cont in Hsc. rewrite forallb_app in Hsc.
    apply andb_true_iff in Hsc as [_ Hsc]. cbn [forallb] in Hsc. apply andb_true_iff in Hsc as [Hh _].
    unfold cont in Hb. unfold inr in Hh. rewrite Hh in Hb. discriminate.
Qed.

(* ---- the trailing-partial-rune trimmer ---- *)
Lemma cont_iff c : cont c = true <-> 128 <= c /\ c <= 191.
Proof. unfold cont. rewrite andb_true_iff, !N.leb_le. tauto. Qed.
Lemma rune_start_iff c : rune_start c = true <-> ~ (128 <= c /\ c <= 191).
Proof.
  unfold rune_start. rewrite negb_true_iff, andb_false_iff, !N.leb_gt. split; [lia|].
  intros H. destruct (N.lt_ge_cases c 128); [left; assumption|right; lia].
Qed.

Definition tail_shape (t : bytes) : Prop :=
  (exists l, t = [l] /\ 128 <= l /\ ~ (128 <= l /\ l <= 191)) \/
  (exists l a, t = [l; a] /\ 128 <= l /\ ~ (128 <= l /\ l <= 191) /\ 128 <= a /\ a <= 191) \/
  (exists l b0 a, t = [l; b0; a] /\ 128 <= l /\ ~ (128 <= l /\ l <= 191) /\ 128 <= b0 /\ b0 <= 191 /\ 128 <= a /\ a <= 191).

Lemma trim_cut_some r k : trim_cut r 0 3 = Some k ->
  exists t rest, r = rev t ++ rest /\ length t = k /\ tail_shape t.
Proof.
  destruct r as [|a r]; [discriminate|]. cbn [trim_cut].
  destruct (N.ltb_spec a 128) as [Ha|Ha]; [discriminate|].
  destruct (rune_start a) eqn:Ra.
  { intros E; injection E as <-. exists [a], r. split; [reflexivity|]. split; [reflexivity|]. left. exists a.
    apply rune_start_iff in Ra. auto. }
  assert (Hca : 128 <= a /\ a <= 191).
  { unfold rune_start in Ra. apply negb_false_iff, andb_true_iff in Ra. rewrite !N.leb_le in Ra. exact Ra. }
  destruct r as [|b0 r]; [discriminate|]. cbn [trim_cut].
  destruct (N.ltb_spec b0 128) as [Hb|Hb]; [discriminate|].
  destruct (rune_start b0) eqn:Rb.
  { intros E; injection E as <-. exists [b0; a], r. split; [reflexivity|]. split; [reflexivity|]. right; left.
    exists b0, a. apply rune_start_iff in Rb. repeat split; try tauto; lia. }
  assert (Hcb : 128 <= b0 /\ b0 <= 191).
  { unfold rune_start in Rb. apply negb_false_iff, andb_true_iff in Rb. rewrite !N.leb_le in Rb. exact Rb. }
  destruct r as [|l r]; [discriminate|]. cbn [trim_cut].
  destruct (N.ltb_spec l 128) as [Hl|Hl]; [discriminate|].
  destruct (rune_start l) eqn:Rl; [|destruct r; discriminate].
  intros E; injection E as <-. exists [l; b0; a], r. split; [reflexivity|]. split; [reflexivity|]. right; right.
  exists l, b0, a. apply rune_start_iff in Rl. repeat split; try tauto; lia.
Qed.

Ltac lead_cases l :=
  destruct (byte_class l) as [H|[H|[H|[H|[H|[H|[H|[H|[H|[H|H]]]]]]]]]]; try subst l; try lia.

(* on such a tail: not a full rune => a proper prefix of a scalar; valid => a full rune *)
Lemma tail_not_full t : tail_shape t -> full_rune t = false -> proper_prefix t = true.
Proof.
  intros [(l & -> & H1 & H2)|[(l & a & -> & H1 & H2 & H3 & H4)|(l & b0 & a & -> & H1 & H2 & H3 & H4 & H5 & H6)]];
    unfold full_rune, proper_prefix, lead_info, inr, cont; cbn [length forallb];
    lead_cases l; decide_cmps; cbn [andb orb negb Nat.ltb Nat.leb]; decide_cmps; try discriminate; try reflexivity;
    split_cmps; cbn; try discriminate; try reflexivity; try (exfalso; lia).
Qed.

Lemma tail_valid_full t : tail_shape t -> utf8_valid t = true -> full_rune t = true.
Proof.
  intros [(l & -> & H1 & H2)|[(l & a & -> & H1 & H2 & H3 & H4)|(l & b0 & a & -> & H1 & H2 & H3 & H4 & H5 & H6)]];
    unfold full_rune, cont; cbn [utf8_valid]; unfold cont;
    lead_cases l; decide_cmps; cbn [andb orb negb]; decide_cmps; try discriminate; try reflexivity;
    split_cmps; cbn; try discriminate; try reflexivity; try (exfalso; lia).
Qed.

Lemma firstn_app_exact {A} (p t : list A) : firstn (length p) (p ++ t) = p.
Proof. rewrite firstn_app, Nat.sub_diag, firstn_all. cbn. apply app_nil_r. Qed.
Lemma skipn_app_exact {A} (p t : list A) : skipn (length p) (p ++ t) = t.
Proof. rewrite skipn_app, Nat.sub_diag, skipn_all. reflexivity. Qed.

(* T1: what the trimmer returns *)
Lemma trim_shape s :
  trim_partial true s = s \/
  exists pre t, s = pre ++ t /\ (1 <= length t <= 3)%nat /\ trim_partial true s = pre /\ proper_prefix t = true.
Proof.
  unfold trim_partial. destruct (trim_cut (rev s) 0 3) as [k|] eqn:E; [|left; reflexivity].
  destruct (trim_cut_some _ _ E) as (t & rest & Hr & Hk & Hsh).
  assert (Hs : s = rev rest ++ t).
  { rewrite <- (rev_involutive s), Hr, rev_app_distr, rev_involutive. reflexivity. }
  assert (Hi : (length s - k = length (rev rest))%nat) by (rewrite Hs, app_length; lia).
  rewrite Hi. clear Hi E Hr. subst s. rewrite skipn_app_exact, firstn_app_exact. cbn [andb].
  destruct (full_rune t) eqn:Ef; [left; reflexivity|].
  right. exists (rev rest), t. split; [reflexivity|]. split.
  - destruct Hsh as [(l & -> & _)|[(l & a & -> & _)|(l & b0 & a & -> & _)]]; cbn; lia.
  - split; [reflexivity|apply tail_not_full; assumption].
Qed.

(* T3: valid text is left alone *)
Lemma trim_valid s : utf8_valid s = true -> trim_partial true s = s.
Proof.
  intros Hv. unfold trim_partial. destruct (trim_cut (rev s) 0 3) as [k|] eqn:E; [|reflexivity].
  destruct (trim_cut_some _ _ E) as (t & rest & Hr & Hk & Hsh).
  assert (Hs : s = rev rest ++ t).
  { rewrite <- (rev_involutive s), Hr, rev_app_distr, rev_involutive. reflexivity. }
  assert (Hi : (length s - k = length (rev rest))%nat) by (rewrite Hs, app_length; lia).
  rewrite Hi. clear Hi E Hr. subst s. rewrite skipn_app_exact. cbn [andb].
  destruct (valid_split (length (rev rest)) (rev rest) t (le_n _) Hv) as [_ Ht].
  { destruct Hsh as [(l & -> & H1 & H2)|[(l & a & -> & H1 & H2 & _)|(l & b0 & a & -> & H1 & H2 & _)]];
      unfold cont; apply andb_false_iff; rewrite !N.leb_gt; lia. }
  rewrite (tail_valid_full t Hsh Ht). reflexivity.
Qed.

(* T2: a proper prefix of a scalar at the very end is cut off *)
Lemma proper_prefix_shape t : proper_prefix t = true -> tail_shape t /\ full_rune t = false.
Proof.
  unfold proper_prefix. destruct t as [|l rest]; [discriminate|].
  destruct rest as [|a [|b0 [|x rest]]]; unfold lead_info, inr, full_rune, cont; cbn [length forallb];
    lead_cases l; decide_cmps; cbn [andb orb negb Nat.ltb Nat.leb]; try discriminate.
  all: intros E; rewrite ?andb_true_iff, ?N.leb_le in E;
    repeat match goal with Hx : _ /\ _ |- _ => destruct Hx end;
    (split; [unfold tail_shape;
             first [left; eexists; split; [reflexivity|lia]
                   | right; left; do 2 eexists; split; [reflexivity|lia]
                   | right; right; do 3 eexists; split; [reflexivity|lia]]
            |decide_cmps; reflexivity]).
Qed.

Lemma trim_cut_tail t rest : tail_shape t -> trim_cut (rev t ++ rest) 0 3 = Some (length t).
Proof.
  intros [(l & -> & H1 & H2)|[(l & a & -> & H1 & H2 & H3 & H4)|(l & b0 & a & -> & H1 & H2 & H3 & H4 & H5 & H6)]];
    cbn [rev app trim_cut length]; unfold rune_start; decide_cmps; cbn [andb negb]; try reflexivity.
  all: repeat match goal with |- context [negb ((128 <=? ?x) && (?x <=? 191))] =>
         replace (negb ((128 <=? x) && (x <=? 191))) with true by (symmetry; apply negb_true_iff, andb_false_iff; rewrite !N.leb_gt; lia) end;
       reflexivity.
Qed.

Lemma trim_proper pre t : proper_prefix t = true -> trim_partial true (pre ++ t) = pre.
Proof.
  intros Hp. destruct (proper_prefix_shape t Hp) as [Hsh Hnf].
  unfold trim_partial. rewrite rev_app_distr, (trim_cut_tail t (rev pre) Hsh).
  replace (length (pre ++ t) - length t)%nat with (length pre) by (rewrite app_length; lia).
  rewrite skipn_app_exact, firstn_app_exact, Hnf. reflexivity.
Qed.

(* ---- the two UTF-8 clauses of FromPlain ---- *)
Lemma up_to_trunc_intro k s : In k [0; 1; 2; 3]%nat -> (k <= length s)%nat ->
  utf8_valid (firstn (length s - k) s) = true ->
  (k = 0%nat \/ proper_prefix (skipn (length s - k) s) = true) -> up_to_trunc s = true.
Proof.
  intros Hk Hle Hv Hp. unfold up_to_trunc. apply existsb_exists. exists k. split; [exact Hk|].
  rewrite well_formed_valid, Hv. replace (Nat.leb k (length s)) with true by (symmetry; apply Nat.leb_le; exact Hle).
  cbn [andb]. destruct Hp as [-> | ->]; [reflexivity|apply orb_true_r].
Qed.

Section Utf8Clauses.
  Variable text_chars : list N.
  Variable cT cI : N.
  (* the byte-class table classes exactly the specification's ASCII text characters as T (below 0x80) *)
  Hypothesis Htab : forall c, ascii_text c = ((Charset.tc text_chars c =? cT) && (c <? 128)).
  Notation from_plain := (from_plain spec_boms text_chars cT cI true).

  Lemma ascii_all s : Charset.ascii text_chars cT true s = all_ascii_text s.
  Proof.
    unfold Charset.ascii, all_ascii_text. induction s as [|c s IH]; [reflexivity|].
    cbn [forallb]. rewrite IH, Htab. cbn [negb orb]. reflexivity.
  Qed.

  Lemma ascii_text_lt c : ascii_text c = true -> c < 128.
  Proof. rewrite Htab. intros H. apply andb_true_iff in H as [_ H]. apply N.ltb_lt, H. Qed.

  Lemma all_ascii_valid s : all_ascii_text s = true -> utf8_valid s = true.
  Proof.
    unfold all_ascii_text. induction s as [|c s IH]; [reflexivity|]. cbn [forallb utf8_valid].
    intros H. apply andb_true_iff in H as [Hc Hs]. apply ascii_text_lt in Hc.
    replace (c <? 128) with true by (symmetry; apply N.ltb_lt; exact Hc). apply IH, Hs.
  Qed.

  Lemma latin_not_utf8 s : latin text_chars cT cI s <> b "utf-8".
  Proof. unfold latin. destruct (forallb _ s); [destruct (existsb _ s)|]; discriminate. Qed.

  (* utf-8 is reported only for bytes that are valid UTF-8 apart from a multi-byte sequence cut off at the very end *)
  Theorem utf8_only_if s : from_bom spec_boms s = [] -> from_plain s = b "utf-8" -> up_to_trunc s = true.
  Proof.
    intros Hb. unfold Charset.from_plain. destruct s as [|c0 s0]; [discriminate|]. rewrite Hb.
    set (s := c0 :: s0) in *.
    destruct (existsb (fun c => 128 <=? c) (trim_partial true s) && utf8_valid (trim_partial true s)) eqn:E1.
    - intros _. apply andb_true_iff in E1 as [_ Hv].
      destruct (trim_shape s) as [Hsame|(pre & t & Hs & Hlen & Htrim & Hp)].
      + rewrite Hsame in Hv. apply (up_to_trunc_intro 0 s); [cbn; tauto|lia| |left; reflexivity].
        rewrite Nat.sub_0_r, firstn_all. exact Hv.
      + rewrite Htrim in Hv. apply (up_to_trunc_intro (length t) s).
        * destruct Hlen as [H1 H3]. destruct (length t) as [|[|[|[|n]]]]; cbn; try tauto; lia.
        * rewrite Hs, app_length. lia.
        * rewrite Hs at 2. replace (length s - length t)%nat with (length pre) by (rewrite Hs, app_length; lia).
          rewrite firstn_app_exact. exact Hv.
        * right. rewrite Hs at 2. replace (length s - length t)%nat with (length pre) by (rewrite Hs, app_length; lia).
          rewrite skipn_app_exact. exact Hp.
    - destruct (Charset.ascii text_chars cT true s) eqn:E2.
      + intros _. rewrite ascii_all in E2. apply (up_to_trunc_intro 0 s); [cbn; tauto|lia| |left; reflexivity].
        rewrite Nat.sub_0_r, firstn_all. apply all_ascii_valid, E2.
      + intros H. exfalso. exact (latin_not_utf8 s H).
  Qed.

  (* ... and always for such text that is ASCII text only or contains a complete non-ASCII character *)
  Theorem utf8_if s : s <> [] -> from_bom spec_boms s = [] ->
    (all_ascii_text s = true \/ has_complete_non_ascii s = true) -> from_plain s = b "utf-8".
  Proof.
    intros Hne Hb Hc. unfold Charset.from_plain. destruct s as [|c0 s0]; [congruence|]. rewrite Hb.
    set (s := c0 :: s0) in *.
    destruct Hc as [Ha|Hn].
    - destruct (existsb _ _ && utf8_valid _); [reflexivity|]. rewrite ascii_all, Ha. reflexivity.
    - unfold has_complete_non_ascii in Hn. apply existsb_exists in Hn as (k & Hk & Hn).
      apply andb_true_iff in Hn as [Hn Hex]. apply andb_true_iff in Hn as [Hn Hp]. apply andb_true_iff in Hn as [Hle Hwf].
      rewrite well_formed_valid in Hwf. apply Nat.leb_le in Hle.
      assert (Htrim : trim_partial true s = firstn (length s - k) s).
      { apply orb_true_iff in Hp as [Hk0|Hp].
        - apply Nat.eqb_eq in Hk0. subst k. rewrite Nat.sub_0_r, firstn_all in *. apply trim_valid, Hwf.
        - rewrite <- (firstn_skipn (length s - k) s) at 1. apply trim_proper, Hp. }
      rewrite Htrim, Hex, Hwf. reflexivity.
  Qed.
End Utf8Clauses.
