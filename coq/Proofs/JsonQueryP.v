(* C10: the scanner's querySatisfied flag equals the query-hit status of the value (attribute grammar of
   Spec/JsonQuery.v), for every query table, every document of the grammar within the recursion cap. *)
From Coq Require Import Lia.
From Verif Require Import Base.Bytes Model.Json Spec.JsonGrammar Spec.JsonGrammar8259 Spec.JsonQuery
  Proofs.BytesP Proofs.JsonAcct Proofs.JsonSound Proofs.JsonComplete Proofs.JsonPath.
Local Open Scope N_scope.

Lemma RStr_snoc k : RStr k -> exists key, k = key ++ [34].
Proof.
  induction 1 as [|c s Hq Hb _ [key ->]|e s He _ [key ->]|h1 h2 h3 h4 s H1 H2 H3 H4 _ [key ->]].
  - exists []. reflexivity.
  - exists (c :: key). reflexivity.
  - exists (92 :: e :: key). reflexivity.
  - exists (92 :: 117 :: h1 :: h2 :: h3 :: h4 :: key). reflexivity.
Qed.

(* ---- erasure: the attribute grammar sits on the plain grammar ---- *)
Lemma Q_erase qs :
  (forall P d v h, QVal qs P d v h -> SVal d v) /\
  (forall P d t h, QArr qs P d t h -> SArrTail d t) /\
  (forall P d t h, QObj qs P d t h -> SObjTail d t).
Proof.
  apply QVal_mutind; intros; try (constructor; assumption).
  - eapply SA_last; eassumption.
  - eapply SA_more; eassumption.
  - eapply SO_last; eassumption.
  - eapply SO_more; eassumption.
Qed.

(* every value of the grammar has a status, at every path *)
Lemma Q_total qs :
  (forall d v, SVal d v -> forall P, exists h, QVal qs P d v h) /\
  (forall d t, SArrTail d t -> forall P, exists h, QArr qs P d t h) /\
  (forall d t, SObjTail d t -> forall P, exists h, QObj qs P d t h).
Proof.
  apply SVal_mutind.
  - intros body Hb P. eexists. constructor. exact Hb.
  - intros x Hx P. eexists. apply QV_num. exact Hx.
  - intros P. eexists. apply QV_true.
  - intros P. eexists. apply QV_false.
  - intros P. eexists. apply QV_null.
  - intros d t _ IH P. destruct (IH ([91] :: P)) as [h H]. eexists. apply QV_arr. exact H.
  - intros d t _ IH P. destruct (IH P) as [h H]. eexists. apply QV_obj. exact H.
  - intros d w Hw P. eexists. apply QA_end. exact Hw.
  - intros d d1 w v w2 Hw _ IHv Hle Hw2 P. destruct (IHv P) as [h H]. eexists. eapply QA_last; eassumption.
  - intros d d1 w v w2 t Hw _ IHv Hle Hw2 _ IHt P. destruct (IHv P) as [h1 H1]. destruct (IHt P) as [h2 H2].
    eexists. eapply QA_more; eassumption.
  - intros d w Hw P. eexists. apply QO_end. exact Hw.
  - intros d d1 w k w1 w2 v w3 Hw Hk Hw1 Hw2 _ IHv Hle Hw3 P.
    destruct (RStr_snoc k Hk) as (key & ->). destruct (IHv (key :: P)) as [h H]. eexists. eapply QO_last; eassumption.
  - intros d d1 w k w1 w2 v w3 t Hw Hk Hw1 Hw2 _ IHv Hle Hw3 _ IHt P.
    destruct (RStr_snoc k Hk) as (key & ->). destruct (IHv (key :: P)) as [h H]. destruct (IHt P) as [h2 H2].
    eexists. eapply QO_more; eassumption.
Qed.

(* ---- a value never ends in white space: bytes.TrimSpace of "value + trailing layout" is the value ---- *)
Lemma digits_last ds : Digits ds -> ds <> [] -> exists ds' c, ds = ds' ++ [c] /\ is_digit c = true.
Proof.
  intros Hd Hne. destruct (exists_last Hne) as (ds' & c & ->). exists ds', c. split; [reflexivity|].
  apply Forall_app in Hd as [_ Hc]. inversion Hc; assumption.
Qed.

Lemma SNum_last x : SNum x -> exists x' c, x = x' ++ [c] /\ is_digit c = true.
Proof.
  intros (sg & i & f & e & -> & _ & Hi & Hf & He).
  destruct He as [->|(m & sg2 & ds & -> & _ & _ & Hds & Hne)].
  - rewrite app_nil_r. destruct Hf as [->|(ds & -> & Hds & Hne)].
    + rewrite app_nil_r. destruct (SInt_digits i Hi) as [Hd Hne]. destruct (digits_last i Hd Hne) as (i' & c & -> & Hc).
      exists (sg ++ i'), c. rewrite app_assoc. auto.
    + destruct (digits_last ds Hds Hne) as (ds' & c & -> & Hc). exists (sg ++ i ++ 46 :: ds'), c.
      split; [|exact Hc]. rewrite <- !app_assoc. reflexivity.
  - destruct (digits_last ds Hds Hne) as (ds' & c & -> & Hc). exists (sg ++ i ++ f ++ m :: sg2 ++ ds'), c.
    split; [|exact Hc]. rewrite <- !app_assoc. cbn [app]. rewrite <- !app_assoc. reflexivity.
Qed.

Lemma tails_last :
  (forall d v, SVal d v -> True) /\
  (forall d t, SArrTail d t -> exists t', t = t' ++ [93]) /\
  (forall d t, SObjTail d t -> exists t', t = t' ++ [125]).
Proof.
  apply SVal_mutind; intros; trivial.
  - eexists; reflexivity.
  - exists (w ++ v ++ w2). rewrite <- !app_assoc. reflexivity.
  - match goal with H : exists _, t = _ |- _ => destruct H as (t' & ->) end.
    exists (w ++ v ++ w2 ++ 44 :: t'). rewrite <- !app_assoc. reflexivity.
  - eexists; reflexivity.
  - exists (w ++ 34 :: k ++ w1 ++ 58 :: w2 ++ v ++ w3). rewrite <- !app_assoc. cbn [app]. rewrite <- !app_assoc. cbn [app]. rewrite <- !app_assoc. reflexivity.
  - match goal with H : exists _, t = _ |- _ => destruct H as (t' & ->) end.
    exists (w ++ 34 :: k ++ w1 ++ 58 :: w2 ++ v ++ w3 ++ 44 :: t').
    rewrite <- !app_assoc. cbn [app]. rewrite <- !app_assoc. cbn [app]. rewrite <- !app_assoc. reflexivity.
Qed.

Lemma SVal_last d v : SVal d v -> exists v' c, v = v' ++ [c] /\ is_space c = false.
Proof.
  destruct 1 as [body Hb|x Hx| | | |d t Ht|d t Ht].
  - destruct (RStr_snoc body Hb) as (key & ->). exists (34 :: key), 34. split; reflexivity.
  - destruct (SNum_last x Hx) as (x' & c & -> & Hc). exists x', c. split; [reflexivity|]. apply digit_head in Hc as [[H _] _]. exact H.
  - exists [116;114;117], 101. split; reflexivity.
  - exists [102;97;108;115], 101. split; reflexivity.
  - exists [110;117;108], 108. split; reflexivity.
  - destruct (proj1 (proj2 tails_last) d t Ht) as (t' & ->). exists (91 :: t'), 93. split; reflexivity.
  - destruct (proj2 (proj2 tails_last) d t Ht) as (t' & ->). exists (123 :: t'), 125. split; reflexivity.
Qed.

Lemma WS_rev w : WS w -> WS (rev w).
Proof. unfold WS. intros H. apply Forall_rev, H. Qed.

Lemma rstrip_value d v w3 : SVal d v -> WS w3 -> rstrip_ws (v ++ w3) = v.
Proof.
  intros Hv Hw. destruct (SVal_last d v Hv) as (v' & c & -> & Hc). unfold rstrip_ws.
  rewrite rev_app_distr, rev_app_distr. cbn [rev app].
  rewrite skip_space_ws_app; [|apply WS_rev, Hw|cbn; exact Hc].
  cbn [rev]. rewrite rev_involutive. reflexivity.
Qed.

Section Main.
  Variable maxrec : nat.
  Variable qs : list query.
  Variable tk : N * N * N * N * N * N * N.
  Hypothesis Hqs : qs <> [].
  Notation go := (go maxrec qs tk).

  Lemma note_token_q c lvl o s : exists s', note_token qs tk c lvl (o, s) = (o, s') /\ qsat s' = qsat s /\ path s' = path s /\
    complete s' = complete s /\ (lvl = 0%nat -> ftok s' = tok_of tk c).
  Proof.
    unfold note_token. destruct qs as [|q0 qs']; [congruence|]. eexists. split; [reflexivity|].
    destruct (Nat.eqb_spec lvl 0); cbn; repeat split; auto; intros; congruence.
  Qed.

  Lemma any_finish_q c lvl w2 rest s0 : WS w2 -> nows rest ->
    exists s', after_value lvl (note_token qs tk c lvl (Some (w2 ++ rest), s0)) = (Some rest, s') /\
               (lvl = 0%nat -> complete s' = true /\ ftok s' = tok_of tk c) /\ qsat s' = qsat s0 /\ path s' = path s0.
  Proof.
    intros Hw Hr. destruct (note_token_q c lvl (Some (w2 ++ rest)) s0) as (s1 & -> & Hq & Hp & Hc & Hf).
    unfold after_value, consume_space. rewrite skip_space_ws_app by assumption.
    eexists. split; [reflexivity|]. split; [|split].
    - intros ->. cbn. split; [reflexivity|apply Hf; reflexivity].
    - destruct (Nat.eqb lvl 0); cbn; exact Hq.
    - destruct (Nat.eqb lvl 0); cbn; exact Hp.
  Qed.

  (* a scalar leaves querySatisfied alone *)
  Lemma any_scalar_qsat rec b lvl s o s' c b2 : skip_space b = c :: b2 -> c <> 91 -> c <> 123 ->
    any_body maxrec qs tk rec b lvl s = (o, s') -> qsat s' = qsat s.
  Proof.
    intros E H91 H123. unfold any_body. destruct (negb (Nat.eqb maxrec 0) && Nat.ltb maxrec lvl); [intros X; injection X as _ <-; reflexivity|].
    unfold consume_space at 1. rewrite E.
    set (s1 := bump _ (see_lvl lvl s)).
    assert (Hd : forall od sd, dispatch rec c (c :: b2) b2 lvl s1 = (od, sd) -> qsat sd = qsat s).
    { unfold dispatch. intros od sd.
      destruct (c =? 34); [intros X; apply consume_string_keeps in X as [_ X]; exact X|].
      destruct (N.eqb_spec c 91); [contradiction|]. destruct (N.eqb_spec c 123); [contradiction|].
      destruct (c =? 116); [intros X; apply consume_const_keeps in X as [_ X]; exact X|].
      destruct (c =? 102); [intros X; apply consume_const_keeps in X as [_ X]; exact X|].
      destruct (c =? 110); [intros X; apply consume_const_keeps in X as [_ X]; exact X|].
      intros X; apply consume_number_keeps in X as [_ X]; exact X. }
    destruct (dispatch rec c (c :: b2) b2 lvl s1) as [od sd] eqn:Ed. specialize (Hd od sd eq_refl).
    destruct (note_token_q c lvl od sd) as (s2 & -> & Hq & _).
    unfold after_value. destruct od as [b3|].
    - unfold consume_space. intros X; injection X as _ <-. destruct (Nat.eqb lvl 0); cbn; congruence.
    - intros X; injection X as _ <-. congruence.
  Qed.

  Definition q_any (P : list bytes) (d : nat) (v : bytes) (h : bool) : Prop :=
    forall fuel w w2 rest lvl s, WS w -> WS w2 -> sep rest -> (lvl + d <= maxrec)%nat ->
      (2 * length (w ++ v ++ w2 ++ rest) + 1 <= fuel)%nat -> path s = P ->
      exists s', go fuel WAny (w ++ v ++ w2 ++ rest) lvl s = (Some rest, s') /\
                 (lvl = 0%nat -> complete s' = true /\ ftok s' = tok_of tk (hd 0 v)) /\
                 qsat s' = qsat s || h /\ path s' = P.
  Definition q_arr (P : list bytes) (d : nat) (t : bytes) (h : bool) : Prop :=
    forall fuel rest lvl s, (lvl + d <= maxrec)%nat -> (2 * length (t ++ rest) + 2 <= fuel)%nat -> path s = P ->
      exists s', go fuel WArr (t ++ rest) lvl s = (Some rest, s') /\ qsat s' = qsat s || h /\ path s' = tl P.
  Definition q_obj (P : list bytes) (d : nat) (t : bytes) (h : bool) : Prop :=
    forall fuel rest lvl s, (lvl + d <= maxrec)%nat -> (2 * length (t ++ rest) + 2 <= fuel)%nat -> path s = P ->
      exists s', go fuel WObj (t ++ rest) lvl s = (Some rest, s') /\ qsat s' = qsat s || h /\ path s' = P.

  (* scalars: success by completeness, path by balance, flag untouched *)
  Lemma q_scalar P v c t : SVal 0 v -> v = c :: t -> c <> 91 -> c <> 123 -> q_any P 0 v false.
  Proof.
    intros Hv Ev H91 H123 fuel w w2 rest lvl s Hw Hw2 Hr Hl Hf Hp.
    destruct (proj1 (complete_all maxrec qs tk) 0%nat v Hv fuel w w2 rest lvl s Hw Hw2 Hr Hl Hf) as (s' & E & Hfl & _).
    exists s'. split; [exact E|]. split; [exact Hfl|].
    destruct (go_path maxrec qs tk fuel WAny _ lvl s rest s' E) as [Hpp _]. cbn in Hpp.
    split; [|congruence]. rewrite orb_false_r.
    destruct fuel as [|f]; [discriminate E|]. cbn [Json.go] in E.
    destruct (SVal_head _ _ Hv) as (c' & t' & Ev' & Hh). rewrite Ev in Ev'. injection Ev' as <- <-.
    eapply (any_scalar_qsat _ _ lvl s (Some rest) s' c (t ++ w2 ++ rest)); [|exact H91|exact H123|exact E].
    rewrite skip_space_ws_app; [rewrite Ev; reflexivity|exact Hw|rewrite Ev; cbn; apply Hh].
  Qed.

  Lemma guard_ok' lvl d : (lvl + d <= maxrec)%nat -> negb (Nat.eqb maxrec 0) && Nat.ltb maxrec lvl = false.
  Proof. intros H. apply andb_false_iff. right. apply Nat.ltb_ge. lia. Qed.

  Lemma firstn_app_exact {A} (p t : list A) : firstn (length p) (p ++ t) = p.
  Proof. rewrite firstn_app, Nat.sub_diag, firstn_all. cbn. apply app_nil_r. Qed.

  Lemma firstn_prefix_len (a r : bytes) : firstn (length (a ++ r) - length r) (a ++ r) = a.
  Proof. rewrite app_length. replace (length a + length r - length r)%nat with (length a) by lia. apply firstn_app_exact. Qed.

  Lemma key_step_ok key r sk :
    key_step qs ((key ++ [34]) ++ r) (Some r, sk) =
    ((Some r, set_path (key :: path sk) sk), if qsat sk then None else query_path_match qs (key :: path sk)).
  Proof.
    unfold key_step. rewrite !app_length. cbn [length].
    replace (length key + 1 + length r - length r - 1)%nat with (length key) by lia.
    rewrite <- app_assoc. rewrite firstn_app_exact. reflexivity.
  Qed.

  Lemma query_hit_text q d v w3 : SVal d v -> WS w3 -> query_hit q (v ++ w3) = text_hit q v.
  Proof. intros Hv Hw. unfold query_hit, text_hit. rewrite (rstrip_value d v w3 Hv Hw). reflexivity. Qed.

  Ltac len_norm H := repeat first [rewrite app_length in H | progress cbn [length] in H].
  Ltac len_goal := repeat first [rewrite app_length | progress cbn [length]].

  (* one array element followed by a separator *)
  Lemma element_run P d d1 v h f w w2 r lvl s :
    q_any P d1 v h -> SVal d1 v -> (d1 <= d)%nat -> WS w -> WS w2 -> sep r -> (lvl + d <= maxrec)%nat ->
    (2 * length (w ++ v ++ w2 ++ r) + 1 <= f)%nat -> path s = P ->
    exists s2, arr_body (go f) (w ++ v ++ w2 ++ r) lvl s = arr_sep (go f) lvl (Some r, s2) /\
               qsat s2 = qsat s || h /\ path s2 = P.
  Proof.
    intros IHv Hv Hle Hw Hw2 Hr Hl Hf Hp. unfold arr_body, consume_space.
    destruct (SVal_head _ _ Hv) as (c & vt & Ev & Hh).
    rewrite (skip_space_ws_app w (v ++ w2 ++ r) Hw) by (rewrite Ev; cbn; apply Hh).
    assert (Einp : v ++ w2 ++ r = c :: (vt ++ w2 ++ r)) by (rewrite Ev; reflexivity).
    rewrite Einp. cbv iota beta. destruct Hh as (Hsp & H93 & Hrest). destruct (N.eqb_spec c 93); [contradiction|].
    rewrite <- Einp.
    match goal with |- context [go f WAny ?inp lvl ?st] =>
      destruct (IHv f [] w2 r lvl st (Forall_nil _) Hw2 Hr) as (s2 & E & _ & Hq & Hpp) end; [lia| |exact Hp|].
    { len_norm Hf. cbn [app]. len_goal. lia. }
    cbn [app] in E. rewrite E. exists s2. split; [reflexivity|]. split; [exact Hq|exact Hpp].
  Qed.

  (* one object member followed by a separator *)
  Lemma member_run P d d1 key v h f w w1 w2 w3 r lvl s :
    q_any (key :: P) d1 v h -> SVal d1 v -> (d1 <= d)%nat -> WS w -> RStr (key ++ [34]) -> WS w1 -> WS w2 -> WS w3 -> sep r ->
    (lvl + d <= maxrec)%nat ->
    (2 * length (w ++ 34%N :: (key ++ [34%N]) ++ w1 ++ 58%N :: w2 ++ v ++ w3 ++ r) + 1 <= f)%nat -> path s = P ->
    exists s6, obj_body qs (go f) (w ++ 34 :: (key ++ [34]) ++ w1 ++ 58 :: w2 ++ v ++ w3 ++ r) lvl s = obj_sep (go f) lvl (Some r, s6) /\
               qsat s6 = qsat s || (direct qs (key :: P) v || h) /\ path s6 = key :: P.
  Proof.
    intros IHv Hv Hle Hw Hk Hw1 Hw2 Hw3 Hr Hl Hf Hp. unfold obj_body, consume_space.
    rewrite (skip_space_ws_app w (34 :: (key ++ [34]) ++ w1 ++ 58 :: w2 ++ v ++ w3 ++ r) Hw) by reflexivity.
    cbn [N.eqb Pos.eqb negb].
    match goal with |- context [consume_string ((key ++ [34]) ++ ?rr) 0 false ?st] =>
      destruct (consume_string_complete (key ++ [34]) Hk rr st) as (sk & Ek); pose proof (consume_string_keeps _ _ _ _ _ _ Ek) as [Hkp Hkq] end.
    rewrite Ek. rewrite key_step_ok. cbn [path bump] in Hkp. cbn [qsat bump] in Hkq.
    unfold obj_value, consume_space.
    rewrite (skip_space_ws_app w1 (58 :: w2 ++ v ++ w3 ++ r) Hw1) by reflexivity.
    cbn [N.eqb Pos.eqb negb].
    destruct (SVal_head _ _ Hv) as (c & vt & Ev & Hh).
    rewrite (skip_space_ws_app w2 (v ++ w3 ++ r) Hw2) by (rewrite Ev; cbn; apply Hh).
    assert (Einp : v ++ w3 ++ r = c :: (vt ++ w3 ++ r)) by (rewrite Ev; reflexivity).
    rewrite Einp. cbv iota beta. rewrite <- Einp.
    match goal with |- context [go f WAny ?inp lvl ?st] =>
      destruct (IHv f [] w3 r lvl st (Forall_nil _) Hw3 Hr) as (s5 & E & _ & Hq & Hpp) end; [lia| | |].
    { len_norm Hf. cbn [app]. len_goal. lia. }
    { cbn. rewrite Hkp, Hp. reflexivity. }
    cbn [app] in E. rewrite E.
    set (qm := if qsat sk then None else query_path_match qs (key :: path sk)).
    unfold note_value.
    replace (v ++ w3 ++ r) with ((v ++ w3) ++ r) by (rewrite <- app_assoc; reflexivity).
    rewrite firstn_prefix_len.
    exists (match qm with Some q => if query_hit q (v ++ w3) then set_qsat true s5 else s5 | None => s5 end).
    split; [destruct qm; reflexivity|].
    cbn [qsat bump set_path] in Hq. rewrite Hkq in Hq.
    split.
    - subst qm. rewrite Hkq, Hkp, Hp. unfold direct.
      destruct (qsat s) eqn:Es; [cbn; rewrite Hq; reflexivity|].
      destruct (query_path_match qs (key :: P)) as [q|]; [|cbn; rewrite Hq; reflexivity].
      rewrite (query_hit_text q d1 v w3 Hv Hw3). destruct (text_hit q v); cbn; [reflexivity|rewrite Hq; reflexivity].
    - destruct qm as [q|]; [destruct (query_hit q _)|]; cbn; exact Hpp.
  Qed.

  Ltac napp := repeat first [rewrite <- app_assoc | progress cbn [app]].
  Ltac napp_in H := repeat first [rewrite <- app_assoc in H | progress cbn [app] in H].

  Theorem q_all :
    (forall P d v h, QVal qs P d v h -> q_any P d v h) /\
    (forall P d t h, QArr qs P d t h -> q_arr P d t h) /\
    (forall P d t h, QObj qs P d t h -> q_obj P d t h).
  Proof.
    apply QVal_mutind.
    - (* string *) intros P body Hb. apply (q_scalar P (34 :: body) 34 body); [apply SV_str; exact Hb|reflexivity|discriminate|discriminate].
    - (* number *) intros P x Hx. destruct (SNum_head x Hx) as (c & t & Ex & _ & _ & H91 & H123 & _).
      apply (q_scalar P x c t); [apply SV_num, Hx|exact Ex|exact H91|exact H123].
    - intros P. apply (q_scalar P _ 116 [114;117;101]); [apply SV_true|reflexivity|discriminate|discriminate].
    - intros P. apply (q_scalar P _ 102 [97;108;115;101]); [apply SV_false|reflexivity|discriminate|discriminate].
    - intros P. apply (q_scalar P _ 110 [117;108;108]); [apply SV_null|reflexivity|discriminate|discriminate].
    - (* array value *)
      intros P d t h _ IH fuel w w2 rest lvl s Hw Hw2 Hr Hl Hf Hp.
      destruct fuel as [|f]; [lia|]. cbn [Json.go]. unfold any_body. rewrite (guard_ok' lvl (S d) Hl).
      unfold consume_space. rewrite (skip_space_ws_app w ((91 :: t) ++ w2 ++ rest) Hw) by reflexivity.
      cbn [app]. unfold dispatch. cbn [N.eqb Pos.eqb].
      len_norm Hf.
      match goal with |- context [go f WArr (t ++ w2 ++ rest) (S lvl) ?st] => destruct (IH f (w2 ++ rest) (S lvl) st) as (s0 & E & Hq0 & Hp0) end;
        [lia|len_goal; lia|cbn; rewrite Hp; reflexivity|].
      rewrite E. destruct (any_finish_q 91 lvl w2 rest s0 Hw2 (sep_nows _ Hr)) as (s' & -> & Hfl & Hq & Hpp).
      exists s'. split; [reflexivity|]. split; [exact Hfl|]. split; [rewrite Hq, Hq0; reflexivity|rewrite Hpp, Hp0; reflexivity].
    - (* object value *)
      intros P d t h _ IH fuel w w2 rest lvl s Hw Hw2 Hr Hl Hf Hp.
      destruct fuel as [|f]; [lia|]. cbn [Json.go]. unfold any_body. rewrite (guard_ok' lvl (S d) Hl).
      unfold consume_space. rewrite (skip_space_ws_app w ((123 :: t) ++ w2 ++ rest) Hw) by reflexivity.
      cbn [app]. unfold dispatch. cbn [N.eqb Pos.eqb].
      len_norm Hf.
      match goal with |- context [go f WObj (t ++ w2 ++ rest) (S lvl) ?st] => destruct (IH f (w2 ++ rest) (S lvl) st) as (s0 & E & Hq0 & Hp0) end;
        [lia|len_goal; lia|cbn; exact Hp|].
      rewrite E. destruct (any_finish_q 123 lvl w2 rest s0 Hw2 (sep_nows _ Hr)) as (s' & -> & Hfl & Hq & Hpp).
      exists s'. split; [reflexivity|]. split; [exact Hfl|]. split; [rewrite Hq, Hq0; reflexivity|rewrite Hpp, Hp0; reflexivity].
    - (* [ ws ] *)
      intros P d w Hw fuel rest lvl s Hl Hf Hp. destruct fuel as [|f]; [lia|]. cbn [Json.go]. napp. unfold arr_body, consume_space.
      rewrite (skip_space_ws_app w (93 :: rest) Hw) by reflexivity. cbn [N.eqb Pos.eqb].
      eexists. split; [reflexivity|]. cbn. rewrite orb_false_r, Hp. split; reflexivity.
    - (* last element *)
      intros P d d1 w v w2 h Hw Hq IHv Hle Hw2 fuel rest lvl s Hl Hf Hp. destruct fuel as [|f]; [lia|]. cbn [Json.go]. napp.
      destruct (element_run P d d1 v h f w w2 (93 :: rest) lvl s IHv (proj1 (Q_erase qs) _ _ _ _ Hq) Hle Hw Hw2) as (s2 & -> & Hq2 & Hp2);
        [right; left; reflexivity|exact Hl| |exact Hp|].
      { len_norm Hf. len_goal. lia. }
      unfold arr_sep. cbn [N.eqb Pos.eqb]. eexists. split; [reflexivity|]. cbn. rewrite Hp2. split; [exact Hq2|reflexivity].
    - (* element, comma, tail *)
      intros P d d1 w v w2 t h1 h2 Hw Hq IHv Hle Hw2 _ IHt fuel rest lvl s Hl Hf Hp. destruct fuel as [|f]; [lia|]. cbn [Json.go]. napp.
      destruct (element_run P d d1 v h1 f w w2 (44 :: t ++ rest) lvl s IHv (proj1 (Q_erase qs) _ _ _ _ Hq) Hle Hw Hw2) as (s2 & -> & Hq2 & Hp2);
        [left; reflexivity|exact Hl| |exact Hp|].
      { len_norm Hf. len_goal. lia. }
      unfold arr_sep. cbn [N.eqb Pos.eqb].
      destruct (IHt f rest lvl (bump 1 s2)) as (s3 & E & Hq3 & Hp3); [exact Hl|len_norm Hf; len_goal; lia|exact Hp2|].
      exists s3. split; [exact E|]. split; [rewrite Hq3; cbn; rewrite Hq2, orb_assoc; reflexivity|exact Hp3].
    - (* { ws } *)
      intros P d w Hw fuel rest lvl s Hl Hf Hp. destruct fuel as [|f]; [lia|]. cbn [Json.go]. napp. unfold obj_body, consume_space.
      rewrite (skip_space_ws_app w (125 :: rest) Hw) by reflexivity. cbn [N.eqb Pos.eqb].
      eexists. split; [reflexivity|]. cbn. rewrite orb_false_r. split; [reflexivity|exact Hp].
    - (* last member *)
      intros P d d1 w key w1 w2 v w3 h Hw Hk Hw1 Hw2 Hq IHv Hle Hw3 fuel rest lvl s Hl Hf Hp.
      destruct fuel as [|f]; [lia|]. cbn [Json.go]. napp.
      destruct (member_run P d d1 key v h f w w1 w2 w3 (125 :: rest) lvl s IHv (proj1 (Q_erase qs) _ _ _ _ Hq) Hle Hw Hk Hw1 Hw2 Hw3) as (s6 & E & Hq6 & Hp6);
        [right; right; reflexivity|exact Hl| |exact Hp|].
      { len_norm Hf. len_goal. lia. }
      napp. napp_in E. rewrite E.
      unfold obj_sep. cbn [N.eqb Pos.eqb]. eexists. split; [reflexivity|]. cbn. rewrite Hp6. split; [exact Hq6|reflexivity].
    - (* member, comma, tail *)
      intros P d d1 w key w1 w2 v w3 t h h2 Hw Hk Hw1 Hw2 Hq IHv Hle Hw3 _ IHt fuel rest lvl s Hl Hf Hp.
      destruct fuel as [|f]; [lia|]. cbn [Json.go]. napp.
      destruct (member_run P d d1 key v h f w w1 w2 w3 (44 :: t ++ rest) lvl s IHv (proj1 (Q_erase qs) _ _ _ _ Hq) Hle Hw Hk Hw1 Hw2 Hw3) as (s6 & E & Hq6 & Hp6);
        [left; reflexivity|exact Hl| |exact Hp|].
      { len_norm Hf. len_goal. lia. }
      napp. napp_in E. rewrite E.
      unfold obj_sep. cbn [N.eqb Pos.eqb].
      destruct (IHt f rest lvl (bump 1 (pop s6))) as (s7 & E7 & Hq7 & Hp7); [exact Hl|len_norm Hf; len_goal; lia|cbn; rewrite Hp6; reflexivity|].
      exists s7. split; [exact E7|]. split; [rewrite Hq7; cbn; rewrite Hq6, !orb_assoc; reflexivity|exact Hp7].
  Qed.
End Main.

(* ---- consequences on the specification side ---- *)
Lemma lbeq_len x y : lbeq x y = true -> length x = length y.
Proof.
  revert y; induction x as [|a x IH]; intros [|c y]; cbn; try discriminate; [reflexivity|].
  intros H. apply andb_true_iff in H as [_ H]. f_equal. apply IH, H.
Qed.

Lemma no_match_longer qs P : (forall q, In q qs -> length (fst q) < length P)%nat -> query_path_match qs P = None.
Proof.
  induction qs as [|q qs IH]; intros H; [reflexivity|]. cbn [query_path_match].
  destruct (lbeq (fst q) (rev P)) eqn:E.
  - apply lbeq_len in E. rewrite rev_length in E. specialize (H q (or_introl eq_refl)). lia.
  - apply IH. intros q' Hq'. apply H. right. exact Hq'.
Qed.

(* below the depth of the longest query path nothing can hit *)
Lemma Q_deep qs :
  (forall P d v h, QVal qs P d v h -> (forall q, In q qs -> length (fst q) <= length P)%nat -> h = false) /\
  (forall P d t h, QArr qs P d t h -> (forall q, In q qs -> length (fst q) <= length P)%nat -> h = false) /\
  (forall P d t h, QObj qs P d t h -> (forall q, In q qs -> length (fst q) <= length P)%nat -> h = false).
Proof.
  apply QVal_mutind; intros; try reflexivity.
  - apply H0. intros q Hq. cbn [length]. specialize (H1 q Hq). lia.
  - apply H0. exact H1.
  - apply H1. exact H4.
  - rewrite (H1 H6), (H5 H6). reflexivity.
  - match goal with IH : _ -> h = false |- _ => rewrite IH end.
    + unfold direct. rewrite no_match_longer; [reflexivity|]. intros q Hq. cbn [length].
      match goal with Hall : forall q, In q qs -> _ |- _ => specialize (Hall q Hq); lia end.
    + intros q Hq. cbn [length]. match goal with Hall : forall q, In q qs -> _ |- _ => specialize (Hall q Hq); lia end.
  - match goal with IH : _ -> h = false |- _ => rewrite IH end.
    + match goal with IH2 : _ -> h2 = false |- _ => rewrite IH2 by assumption end.
      unfold direct. rewrite no_match_longer; [reflexivity|]. intros q Hq. cbn [length].
      match goal with Hall : forall q, In q qs -> _ |- _ => specialize (Hall q Hq); lia end.
    + intros q Hq. cbn [length]. match goal with Hall : forall q, In q qs -> _ |- _ => specialize (Hall q Hq); lia end.
Qed.

(* an object given by its member list has the disjunction of its members' statuses *)
Lemma render_tail_Q qs P d endw ms : WS endw -> Forall (member_ok qs P d) ms ->
  QObj qs P d (render_tail endw ms) (existsb (member_status qs P) ms).
Proof.
  intros He. induction ms as [|m ms IH]; intros Hall; [apply QO_end, He|].
  inversion Hall as [|? ? Hm Hrest]; subst.
  destruct Hm as (Hw & Hk & Hw1 & Hw2 & Hw3 & d1 & Hle & Hq).
  destruct ms as [|m' ms'].
  - cbn [render_tail existsb]. rewrite orb_false_r. unfold member_status. eapply QO_last; eassumption.
  - change (render_tail endw (m :: m' :: ms')) with
      (m_w m ++ 34 :: (m_key m ++ [34]) ++ m_w1 m ++ 58 :: m_w2 m ++ m_val m ++ m_w3 m ++ 44 :: render_tail endw (m' :: ms')).
    cbn [existsb]. unfold member_status at 1. eapply QO_more; try eassumption. apply IH, Hrest.
Qed.

(* the status is a function of the bytes (any two derivations agree): they both equal what the scanner computes *)
Lemma Q_functional qs P d1 d2 v h1 h2 : qs <> [] -> QVal qs P d1 v h1 -> QVal qs P d2 v h2 -> h1 = h2.
Proof.
  intros Hqs H1 H2. set (tk := (1, 2, 4, 8, 16, 32, 64)). set (s := mk_pst 0 P 0 false false 0 false).
  destruct (proj1 (q_all (d1 + d2) qs tk Hqs) P d1 v h1 H1 (S (2 * length ([] ++ v ++ [] ++ []))) [] [] [] 0%nat s
              (Forall_nil _) (Forall_nil _) I ltac:(lia) ltac:(lia) eq_refl) as (s1 & E1 & _ & Hq1 & _).
  destruct (proj1 (q_all (d1 + d2) qs tk Hqs) P d2 v h2 H2 (S (2 * length ([] ++ v ++ [] ++ []))) [] [] [] 0%nat s
              (Forall_nil _) (Forall_nil _) I ltac:(lia) ltac:(lia) eq_refl) as (s2 & E2 & _ & Hq2 & _).
  rewrite E1 in E2. injection E2 as <-. cbn in Hq1, Hq2. congruence.
Qed.

(* ---- the detector on an object document, whole mode ---- *)
Section Doc.
  Variable maxrec : nat.
  Variable qs : list query.
  Variable tk : N * N * N * N * N * N * N.
  Variable want : N.
  Hypothesis Hqs : qs <> [].
  Hypothesis Hobj : N.land (tok_of tk 123) want <> 0.

  Theorem json_query_whole w t w2 d h limit :
    WS w -> WS w2 -> QObj qs [] d t h -> (S d <= maxrec)%nat ->
    (limit = 0 \/ N.of_nat (length (w ++ (123 :: t) ++ w2)) < limit) ->
    json_helper maxrec tk qs want (w ++ (123 :: t) ++ w2) limit = h.
  Proof.
    intros Hw Hw2 Hq Hd Hlim. set (raw := w ++ (123 :: t) ++ w2).
    destruct (proj1 (q_all maxrec qs tk Hqs) [] (S d) (123 :: t) h (QV_obj qs [] d t h Hq) (fuel_for raw) w w2 [] 0%nat init_st Hw Hw2 I)
      as (s' & Hgo & Hflags & Hqs' & _).
    { lia. } { unfold fuel_for, raw. rewrite app_nil_r. lia. } { reflexivity. }
    rewrite app_nil_r in Hgo. fold raw in Hgo. destruct (Hflags eq_refl) as (Hc & Hft).
    unfold json_helper.
    assert (Hlook : looks_like_obj_or_arr raw = true).
    { unfold looks_like_obj_or_arr, raw. rewrite skip_space_ws_app; [reflexivity|exact Hw|reflexivity]. }
    rewrite Hlook. cbn [negb]. unfold parse. rewrite Hgo. cbn [p_qsat p_ftok p_parsed p_inspected length].
    rewrite Hqs', Hc, Hft. cbn [init_st qsat orb hd].
    destruct h; [|reflexivity]. cbn [negb orb].
    replace (N.land (tok_of tk 123) want =? 0) with false by (symmetry; apply N.eqb_neq, Hobj).
    assert (Hm : (limit =? 0) || (N.of_nat (length raw) <? limit) = true).
    { destruct Hlim as [->|Hlt]; [reflexivity|]. apply orb_true_iff. right. apply N.ltb_lt. exact Hlt. }
    rewrite Hm. apply Nat.eqb_eq. lia.
  Qed.
End Doc.

Lemma existsb_map' {A B} (f : B -> bool) (g : A -> B) l : existsb f (map g l) = existsb (fun x => f (g x)) l.
Proof. induction l as [|a l IH]; [reflexivity|]. cbn. rewrite IH. reflexivity. Qed.

Lemma match_none qs P : (forall q, In q qs -> lbeq (fst q) (rev P) = false) -> query_path_match qs P = None.
Proof.
  induction qs as [|q qs IH]; intros H; [reflexivity|]. cbn [query_path_match].
  rewrite (H q (or_introl eq_refl)). apply IH. intros q' Hq'. apply H. right. exact Hq'.
Qed.

Lemma lbeq_len_false x y : length x <> length y -> lbeq x y = false.
Proof. intros H. destruct (lbeq x y) eqn:E; [|reflexivity]. apply lbeq_len in E. contradiction. Qed.

(* with queries of length two, a top-level member is never a direct hit *)
Lemma direct_top_false qs key v : (forall q, In q qs -> length (fst q) = 2%nat) -> direct qs [key] v = false.
Proof.
  intros H. unfold direct. rewrite match_none; [reflexivity|]. intros q Hq. apply lbeq_len_false. rewrite (H q Hq). cbn. lia.
Qed.

(* ... and below a top-level key that starts no query path nothing hits *)
Lemma second_level_other qs key :
  (forall q, In q qs -> exists a c, fst q = [a; c] /\ beq a key = false) ->
  forall d v h, QVal qs [key] d v h -> h = false.
Proof.
  intros Hq2.
  assert (Hlen : forall P : list bytes, length P = 2%nat -> forall q, In q qs -> (length (fst q) <= length P)%nat).
  { intros P HP q Hq. destruct (Hq2 q Hq) as (a & c & -> & _). rewrite HP. cbn. lia. }
  assert (Hobj : forall d t h, QObj qs [key] d t h -> h = false).
  { intros d t h H. remember [key] as P eqn:EP. induction H as [P d w Hw|P d d1 w k w1 w2 v w3 h Hw Hk Hw1 Hw2 Hv Hle Hw3|P d d1 w k w1 w2 v w3 t h h2 Hw Hk Hw1 Hw2 Hv Hle Hw3 Ht IHt]; subst P.
    - reflexivity.
    - rewrite (proj1 (Q_deep qs) _ _ _ _ Hv (Hlen [k; key] eq_refl)). rewrite orb_false_r.
      unfold direct. rewrite match_none; [reflexivity|]. intros q Hq. destruct (Hq2 q Hq) as (a & c & -> & Ha). cbn. rewrite Ha. reflexivity.
    - rewrite (proj1 (Q_deep qs) _ _ _ _ Hv (Hlen [k; key] eq_refl)), (IHt eq_refl). rewrite !orb_false_r.
      unfold direct. rewrite match_none; [reflexivity|]. intros q Hq. destruct (Hq2 q Hq) as (a & c & -> & Ha). cbn. rewrite Ha. reflexivity. }
  intros d v h H. inversion H; subst; try reflexivity.
  - match goal with Ha : QArr _ _ _ _ _ |- _ => exact (proj1 (proj2 (Q_deep qs)) _ _ _ _ Ha (Hlen [[91]; key] eq_refl)) end.
  - eapply Hobj; eassumption.
Qed.

(* the status of an object value given by its member list, whatever derivation produced it *)
Lemma inner_status qs P d d' e2 ms2 h : qs <> [] -> WS e2 -> Forall (member_ok qs P d) ms2 ->
  QVal qs P d' (123 :: render_tail e2 ms2) h -> h = existsb (member_status qs P) ms2.
Proof.
  intros Hqs He Hms Hq. eapply Q_functional; [exact Hqs|exact Hq|].
  apply (QV_obj qs P d). apply render_tail_Q; assumption.
Qed.

(* a value that is not an object has no member of its own: at a path of length >= the longest query minus one
   only an object can hit *)
Lemma non_object_status qs key d v h : (forall q, In q qs -> length (fst q) <= 2)%nat ->
  QVal qs [key] d v h -> (forall t, v <> 123 :: t) -> h = false.
Proof.
  intros Hlen H Hno. inversion H; subst; try reflexivity.
  - match goal with Ha : QArr _ _ _ _ _ |- _ => exact (proj1 (proj2 (Q_deep qs)) _ _ _ _ Ha ltac:(intros q Hq; specialize (Hlen q Hq); cbn; lia)) end.
  - exfalso. eapply Hno. reflexivity.
Qed.

Lemma beq_sym x y : beq x y = beq y x.
Proof.
  destruct (beq x y) eqn:E1, (beq y x) eqn:E2; try reflexivity.
  - apply beq_spec in E1. subst. rewrite beq_refl in E2. discriminate.
  - apply beq_spec in E2. subst. rewrite beq_refl in E1. discriminate.
Qed.
