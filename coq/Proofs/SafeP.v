(* C01: panic-freedom of every detector in the GoLite fragment (length-guard mechanism), totality of Detect. *)
From Verif Require Import Base.Bytes Model.Types Model.GoLite Model.Detectors Model.Tree Model.Detect
  Gen.TreeData Gen.SigData Proofs.GoLiteP Proofs.TreeP.
Local Open Scope nat_scope.

Definition safe_ok (d : det) : bool :=
  match d with
  | DPrefix sg => safe (prefix_term sg)
  | DOffset sg off => safe (offset_term sg off)
  | DFtyp sg => safe (ftyp_term sg)
  | DJpeg2k sg => safe (jpeg2k_term sg)
  | DFunc name => match assoc name func_terms with Some p => safe p | None => true end
  | _ => true
  end.

Theorem eval_never_panics d raw lim : safe_ok d = true -> eval_det d raw lim <> Some Panic.
Proof.
  unfold eval_det. intros Hs.
  assert (Hg : forall p, safe p = true -> Some (evalp p raw) <> Some Panic).
  { intros p Hp H. injection H as H'. revert H'. apply safe_sound. exact Hp. }
  destruct d as [sg|sg off|sg|sg|sg|sg|sg|sg|name]; cbn [safe_ok compile_det] in *;
    try (apply Hg; exact Hs); try discriminate.
  destruct (assoc name func_terms) as [p|].
  - apply Hg; exact Hs.
  - destruct (assoc name hand_models); discriminate.
Qed.

Lemma ob_all_safe : forallb (fun o => match o with Some d => safe_ok d | None => true end) node_dets = true.
Proof. vm_compute. reflexivity. Qed.

(* every function detector named by the tree has a model or is one of the three declared opaque *)
Definition opaque_names : list string := ["Srt"; "Csv"; "Tsv"]%string.
Lemma ob_all_modelled :
  forallb (fun n => match node_det n with
                    | Some d => match compile_det d with Some _ => true | None => existsb (String.eqb (n_det n)) opaque_names end
                    | None => false end) nodes = true.
Proof. vm_compute. reflexivity. Qed.

Theorem node_never_panics id d raw lim : nth_error node_dets id = Some (Some d) -> eval_det d raw lim <> Some Panic.
Proof.
  intros Hn. apply eval_never_panics.
  pose proof ob_all_safe as H. rewrite forallb_forall in H.
  apply (H (Some d)). eapply nth_error_In; eauto.
Qed.

(* Detect always answers: the path is never empty and starts at the root *)
Theorem detect_total orc l x : exists p, detect_path orc l x = 0 :: p.
Proof. unfold detect_path. destruct (walk_head (verdict orc (hdr l x) l) tree0) as [p Hp]. exists p. exact Hp. Qed.

(* the Panic branch of `verdict` is dead *)
Theorem verdict_no_panic orc raw lim id :
  verdict orc raw lim id =
  match nth_error node_dets id with
  | Some (Some d) => match eval_det d raw lim with Some (Val v) => v | _ => orc id raw lim end
  | _ => orc id raw lim
  end.
Proof.
  unfold verdict. destruct (nth_error node_dets id) as [[d|]|] eqn:E; try reflexivity.
  pose proof (node_never_panics id d raw lim E) as Hp.
  destruct (eval_det d raw lim) as [[v|]|]; try reflexivity. congruence.
Qed.
