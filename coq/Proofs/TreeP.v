(* The walk: independent declarative specification (Path), soundness and completeness,
   ancestors accept, no child of the result accepts, consulted-only-below-accepting,
   and the prepend lemmas behind Extend. *)
From Verif Require Import Base.Bytes Model.Types Model.Tree.
Local Open Scope nat_scope.

(* induction principle for the nested type *)
Fixpoint tree_ind' (P : tree -> Prop) (H : forall n cs, Forall P cs -> P (T n cs)) (t : tree) : P t :=
  match t with
  | T n cs => H n cs ((fix go (l : list tree) : Forall P l :=
                         match l with [] => Forall_nil P | c :: l' => Forall_cons c (tree_ind' P H c) (go l') end) cs)
  end.

Section WalkP.
  Variable acc : nat -> bool.
  Notation walk := (walk acc).
  Notation first_kid := (first_kid acc).

  Lemma walk_eq n cs : walk (T n cs) = n :: first_kid cs. Proof. reflexivity. Qed.
  Lemma first_kid_nil : first_kid [] = []. Proof. reflexivity. Qed.
  Lemma first_kid_cons c l : first_kid (c :: l) = if acc (t_id c) then walk c else first_kid l.
  Proof. reflexivity. Qed.

  Definition rejects (c : tree) : Prop := acc (t_id c) = false.

  (* "p starts at t; each next node is a child whose detector accepts and all of whose elder
     siblings reject; the last node has no accepting child" *)
  Inductive Path : tree -> list nat -> Prop :=
  | P_stop n cs : Forall rejects cs -> Path (T n cs) [n]
  | P_step n pre c post p :
      Forall rejects pre -> acc (t_id c) = true -> Path c p -> Path (T n (pre ++ c :: post)) (n :: p).

  Lemma first_kid_none cs : Forall rejects cs -> first_kid cs = [].
  Proof. induction 1 as [|c l Hc _ IH]; [reflexivity|]. rewrite first_kid_cons, Hc. exact IH. Qed.

  Lemma first_kid_skip pre c post : Forall rejects pre -> acc (t_id c) = true -> first_kid (pre ++ c :: post) = walk c.
  Proof.
    induction 1 as [|x l Hx _ IH]; intros Hc; cbn [app]; rewrite first_kid_cons.
    - rewrite Hc. reflexivity.
    - rewrite Hx. apply IH, Hc.
  Qed.

  Lemma split_first cs : Forall rejects cs \/
    exists pre c post, cs = pre ++ c :: post /\ Forall rejects pre /\ acc (t_id c) = true.
  Proof.
    induction cs as [|x l IH]; [left; constructor|].
    destruct (acc (t_id x)) eqn:E.
    - right; exists [], x, l; repeat split; auto.
    - destruct IH as [IH|(pre & c & post & -> & Hp & Hc)]; [left; constructor; auto|].
      right; exists (x :: pre), c, post; repeat split; auto.
  Qed.

  Theorem walk_sound : forall t, Path t (walk t).
  Proof.
    induction t as [n cs IH] using tree_ind'. rewrite walk_eq.
    destruct (split_first cs) as [Hn|(pre & c & post & -> & Hp & Hc)].
    - rewrite first_kid_none by assumption. constructor; assumption.
    - rewrite first_kid_skip by assumption. apply P_step; auto.
      apply Forall_app in IH as [_ IH]. inversion IH; assumption.
  Qed.

  Theorem walk_complete : forall t p, Path t p -> walk t = p.
  Proof.
    induction 1 as [n cs Hn|n pre c post p Hp Hc _ IH]; rewrite walk_eq.
    - rewrite first_kid_none by assumption. reflexivity.
    - rewrite first_kid_skip by assumption. rewrite IH. reflexivity.
  Qed.

  Theorem walk_spec t p : Path t p <-> walk t = p.
  Proof. split; [apply walk_complete|intros <-; apply walk_sound]. Qed.

  (* the walk starts at the node it is given and is never empty *)
  Lemma walk_head t : exists p, walk t = t_id t :: p.
  Proof. destruct t as [n cs]. rewrite walk_eq. eauto. Qed.

  (* every node on the path other than the first was accepted *)
  Theorem ancestors_match : forall t i, In i (tl (walk t)) -> acc i = true.
  Proof.
    induction t as [n cs IH] using tree_ind'. intros i. rewrite walk_eq. cbn [tl].
    induction cs as [|c l IHl]; [intros []|].
    rewrite first_kid_cons. inversion IH as [|? ? Hc Hl]; subst.
    destruct (acc (t_id c)) eqn:E.
    - destruct (walk_head c) as [p Hp]. rewrite Hp. intros [<-|Hi]; [exact E|].
      apply Hc. rewrite Hp. exact Hi.
    - apply IHl, Hl.
  Qed.

  (* subtree lookup by id along the path: the last node of the path has no accepting child *)
  Inductive Ends : tree -> nat -> list tree -> Prop :=      (* result node and its children *)
  | E_here n cs : Forall rejects cs -> Ends (T n cs) n cs
  | E_below n pre c post r rcs : Forall rejects pre -> acc (t_id c) = true -> Ends c r rcs -> Ends (T n (pre ++ c :: post)) r rcs.

  Theorem no_child_matches : forall t, exists r rcs, Ends t r rcs /\ last (walk t) 0 = r /\ Forall rejects rcs.
  Proof.
    induction t as [n cs IH] using tree_ind'. rewrite walk_eq.
    destruct (split_first cs) as [Hn|(pre & c & post & -> & Hp & Hc)].
    - rewrite first_kid_none by assumption. exists n, cs. repeat split; auto. constructor; auto.
    - rewrite first_kid_skip by assumption. apply Forall_app in IH as [_ IH]. inversion IH as [|? ? Hcc _]; subst.
      destruct Hcc as (r & rcs & He & Hl & Hr). exists r, rcs. repeat split; auto.
      + apply E_below; auto.
      + destruct (walk_head c) as [p Hp']. rewrite Hp' in *. exact Hl.
  Qed.

  (* instrumented walk: a detector is consulted only when its parent is the root of the walk or was
     accepted: every logged id is a child of a node on the path *)
  Definition child_ids (t : tree) : list nat := map t_id (t_kids t).

  Inductive Subtree : tree -> tree -> Prop :=
  | S_refl t : Subtree t t
  | S_kid n cs c s : In c cs -> Subtree c s -> Subtree (T n cs) s.

  Theorem consulted_only_below_matching : forall t i, In i (walk_log acc t) ->
    exists s, Subtree t s /\ In (t_id s) (walk t) /\ In i (child_ids s).
  Proof.
    induction t as [n cs IH] using tree_ind'. intros i Hi.
    assert (Hgen : forall l, (forall c, In c l -> In c cs) -> Forall (fun c => forall i, In i (walk_log acc c) ->
                exists s, Subtree c s /\ In (t_id s) (walk c) /\ In i (child_ids s)) l ->
              In i ((fix first (l : list tree) : list nat :=
                   match l with [] => [] | c :: l' => t_id c :: (if acc (t_id c) then walk_log acc c else first l') end) l) ->
              (In i (map t_id l)) \/ exists c s, In c l /\ acc (t_id c) = true /\ first_kid l = walk c /\ Subtree c s /\ In (t_id s) (walk c) /\ In i (child_ids s)).
    { induction l as [|c l IHl]; intros Hsub Hall Hin; [destruct Hin|].
      inversion Hall as [|? ? Hc Hl]; subst.
      destruct Hin as [<-|Hin]; [left; left; reflexivity|].
      destruct (acc (t_id c)) eqn:E.
      - destruct (Hc _ Hin) as (s & Hs & Hw & Hk). right. exists c, s. repeat split; auto.
        + left; reflexivity.
        + rewrite first_kid_cons, E. reflexivity.
      - destruct (IHl (fun c' H => Hsub c' (or_intror H)) Hl Hin) as [Hm|(c' & s & Hc' & Ha & Hf & Hs & Hw & Hk)].
        + left; right; exact Hm.
        + right. exists c', s. repeat split; auto. * right; exact Hc'. * rewrite first_kid_cons, E. exact Hf. }
    destruct (Hgen cs (fun c H => H) IH Hi) as [Hm|(c & s & Hc & Ha & Hf & Hs & Hw & Hk)].
    - exists (T n cs). split; [constructor|]. split; [rewrite walk_eq; left; reflexivity|exact Hm].
    - exists s. split; [eapply S_kid; eauto|]. split; [|exact Hk]. rewrite walk_eq, Hf. right; exact Hw.
  Qed.

  (* the root child on the path is the first accepting one *)
  Fixpoint first_acc (ids : list nat) : option nat :=
    match ids with [] => None | i :: l => if acc i then Some i else first_acc l end.

  Lemma root_child n cs : nth_error (walk (T n cs)) 1 = first_acc (map t_id cs).
  Proof.
    rewrite walk_eq. cbn [nth_error]. induction cs as [|c l IH]; [reflexivity|].
    rewrite first_kid_cons. cbn [map first_acc]. destruct (acc (t_id c)); [|exact IH].
    destruct (walk_head c) as [p ->]. reflexivity.
  Qed.

  (* C14 core: prepending a rejecting child changes nothing; an accepting one captures *)
  Lemma prepend_reject n c cs : acc (t_id c) = false -> walk (T n (c :: cs)) = walk (T n cs).
  Proof. intros H. rewrite !walk_eq, first_kid_cons, H. reflexivity. Qed.
  Lemma prepend_accept n c cs : acc (t_id c) = true -> walk (T n (c :: cs)) = n :: walk c.
  Proof. intros H. rewrite !walk_eq, first_kid_cons, H. reflexivity. Qed.
End WalkP.

Lemma first_acc_some acc ids i : first_acc acc ids = Some i -> In i ids /\ acc i = true.
Proof.
  induction ids as [|j l IH]; cbn [first_acc]; [discriminate|].
  destruct (acc j) eqn:E; [intros H; inversion H; subst; split; [left; reflexivity|exact E]|].
  intros H. destruct (IH H). split; [right|]; assumption.
Qed.

(* if some id of `pre` accepts, the first accepting id of pre ++ post lies in pre *)
Lemma first_acc_in_prefix acc pre post i : In i pre -> acc i = true ->
  exists j, first_acc acc (pre ++ post) = Some j /\ In j pre.
Proof.
  induction pre as [|k l IH]; [intros []|]. intros Hi Ha. cbn [app first_acc].
  destruct (acc k) eqn:E; [exists k; split; [reflexivity|left; reflexivity]|].
  destruct Hi as [->|Hi]; [congruence|].
  destruct (IH Hi Ha) as (j & Hj & Hin). exists j. split; [exact Hj|right; exact Hin].
Qed.
