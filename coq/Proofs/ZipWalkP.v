(* C19: the five-hop walk of zipContains over an archive laid out as a sequence of local entries
   (header of 30 bytes, name, tail = extra field ++ content ++ data descriptor) followed by the central
   directory.  Under the layout conditions a standard writer guarantees - the next local-header signature
   after offset 26 of an entry's footprint is the next entry's header (footprint >= 26 bytes, no embedded
   signature), the first entry's compressed-size field points into or right behind its own footprint - and
   when no entry name is a proper prefix of the signature continued by its content, the verdict is:
   "the signature is a prefix of one of the first six entry names (and, for OOXML, the first entry is one
   of the bookkeeping parts)". *)
From Coq Require Import Lia.
From Verif Require Import Base.Bytes Model.GoLite Model.Zip Proofs.BytesP Proofs.ZipP.
Local Open Scope nat_scope.

Record entry := mk_entry { e_hdr : bytes; e_name : bytes; e_tail : bytes }.
Definition gap (e : entry) : bytes := e_name e ++ e_tail e.
Fixpoint layout (es : list entry) (central : bytes) : bytes :=
  match es with [] => central | e :: es' => e_hdr e ++ gap e ++ layout es' central end.

(* what the walk sees when it stands at the start of entry e's name *)
Definition at_name (e : entry) (es' : list entry) (central : bytes) : bytes := gap e ++ layout es' central.

(* the signature test at a name start looks at the name only (no name is a proper prefix of the signature that
   its content happens to continue - known finding K5 otherwise) *)
Definition name_decides (sig : bytes) (e : entry) (more : bytes) : Prop :=
  has_prefix sig (gap e ++ more) = has_prefix sig (e_name e).

(* from the name of e, after 26 bytes, the next local-header signature is the header of the next entry; when e is
   the last entry there is none *)
Definition hop_ok (e : entry) (es' : list entry) (central : bytes) : Prop :=
  26 <= length (gap e) /\
  index_of pk34 (skipn 26 (at_name e es' central)) =
    match es' with [] => None | _ => Some (length (gap e) - 26) end.

Fixpoint walkable (sig : bytes) (es : list entry) (central : bytes) : Prop :=
  match es with
  | [] => True
  | e :: es' => length (e_hdr e) = 30 /\ name_decides sig e (layout es' central) /\ hop_ok e es' central /\ walkable sig es' central
  end.

Lemma skipn_add {A} (a c : nat) (l : list A) : skipn (a + c) l = skipn c (skipn a l).
Proof. revert l; induction a as [|a IH]; intros l; [reflexivity|]. destruct l; [destruct c; reflexivity|]. cbn. apply IH. Qed.

Lemma skipn_app_len {A} (p r : list A) n : n = length p -> skipn n (p ++ r) = r.
Proof. intros ->. apply skipn_app_exact. Qed.

(* k further hops from the name of e visit the names of the next k entries *)
Lemma zip_hops_layout sig central : forall k e es',
  walkable sig (e :: es') central ->
  zip_hops k sig (at_name e es' central) = existsb (fun x => has_prefix sig (e_name x)) (firstn k es').
Proof.
  induction k as [|k IH]; intros e es' (Hh & _ & (Hg & Hidx) & Hw); [reflexivity|]. cbn [zip_hops].
  assert (Hlen : 26 <= length (at_name e es' central)) by (unfold at_name; rewrite app_length; lia).
  replace (length (at_name e es' central) <? 26) with false by (symmetry; apply Nat.ltb_ge; exact Hlen).
  rewrite Hidx. destruct es' as [|e2 es2]; [reflexivity|].
  destruct Hw as (Hh2 & Hd2 & Hhop2 & Hw2).
  (* after the 26 bytes and the index, 30 more bytes: the next name *)
  assert (Hc2 : skipn (length (gap e) - 26 + 30) (skipn 26 (at_name e (e2 :: es2) central)) = at_name e2 es2 central).
  { rewrite <- skipn_add. replace (26 + (length (gap e) - 26 + 30)) with (length (gap e) + 30) by lia.
    rewrite skipn_add. unfold at_name at 1. rewrite skipn_app_exact. cbn [layout].
    apply skipn_app_len. symmetry. exact Hh2. }
  assert (Hl2 : length (gap e) - 26 + 30 <= length (skipn 26 (at_name e (e2 :: es2) central))).
  { rewrite skipn_length. unfold at_name. cbn [layout]. rewrite !app_length. lia. }
  replace (length (skipn 26 (at_name e (e2 :: es2) central)) <? length (gap e) - 26 + 30) with false by (symmetry; apply Nat.ltb_ge; exact Hl2).
  rewrite Hc2. cbn [firstn existsb]. unfold at_name at 1. rewrite Hd2.
  destruct (has_prefix sig (e_name e2)); [reflexivity|]. cbn [orb].
  apply IH. exact (conj Hh2 (conj Hd2 (conj Hhop2 Hw2))).
Qed.

(* the first entry: its compressed-size field (+49, uint32) points at or behind offset 1 and not beyond the second
   header, and no local-header signature lies between that point and the second header *)
Definition first_ok (e1 : entry) (es' : list entry) (central : bytes) : Prop :=
  let raw := layout (e1 :: es') central in
  let so := N.to_nat ((u32le (skipn 18 raw) + 49) mod two32) in
  so <= length (gap e1) /\
  index_of pk34 (skipn so raw) = match es' with [] => None | _ => Some (30 + length (gap e1) - so) end.

Theorem zip_contains_layout skip sig mso central e1 es' :
  walkable sig (e1 :: es') central -> first_ok e1 es' central ->
  (forall sf, In sf skip -> has_prefix sf (at_name e1 es' central) = has_prefix sf (e_name e1)) ->
  zip_contains skip (layout (e1 :: es') central) sig mso =
    has_prefix sig (e_name e1) ||
    ((negb mso || existsb (fun sf => has_prefix sf (e_name e1)) skip) &&
     existsb (fun x => has_prefix sig (e_name x)) (firstn 5 es')).
Proof.
  intros (Hh1 & Hd1 & _ & Hw) (Hso & Hidx) Hskip. unfold zip_contains.
  set (raw := layout (e1 :: es') central) in *.
  assert (Hraw : raw = e_hdr e1 ++ at_name e1 es' central) by reflexivity.
  assert (Hlen : 30 <= length raw) by (rewrite Hraw, app_length; lia).
  replace (length raw <? 30) with false by (symmetry; apply Nat.ltb_ge; exact Hlen).
  assert (Hb0 : skipn 30 raw = at_name e1 es' central) by (rewrite Hraw; apply skipn_app_len; symmetry; exact Hh1).
  rewrite Hb0. unfold at_name at 1. rewrite Hd1.
  destruct (has_prefix sig (e_name e1)); [reflexivity|]. cbn [orb].
  assert (Hsk : existsb (fun sf => has_prefix sf (at_name e1 es' central)) skip = existsb (fun sf => has_prefix sf (e_name e1)) skip).
  { clear -Hskip. induction skip as [|sf skip IH]; [reflexivity|]. cbn [existsb]. rewrite Hskip by (left; reflexivity).
    rewrite IH; [reflexivity|]. intros sf' Hin. apply Hskip. right. exact Hin. }
  rewrite Hsk.
  assert (Hgate : (mso && negb (existsb (fun sf => has_prefix sf (e_name e1)) skip)) = negb (negb mso || existsb (fun sf => has_prefix sf (e_name e1)) skip)).
  { destruct mso, (existsb _ skip); reflexivity. }
  rewrite Hgate. destruct (negb mso || existsb (fun sf => has_prefix sf (e_name e1)) skip); cbn [negb andb]; [|reflexivity].
  set (soN := ((u32le (skipn 18 raw) + 49) mod two32)%N) in *. set (so := N.to_nat soN) in *.
  assert (Hlb0 : length (at_name e1 es' central) = length (gap e1) + length (layout es' central)) by (unfold at_name; apply app_length).
  replace (N.of_nat (length (at_name e1 es' central)) <? soN)%N with false by (symmetry; apply N.ltb_ge; lia).
  rewrite Hidx. destruct es' as [|e2 es2]; [reflexivity|].
  destruct Hw as (Hh2 & Hd2 & Hhop2 & Hw2).
  set (nh := 30 + length (gap e1) - so).
  assert (Hb1 : length (skipn so (at_name e1 (e2 :: es2) central)) = length (at_name e1 (e2 :: es2) central) - so) by apply skipn_length.
  assert (Hge : nh <= length (skipn so (at_name e1 (e2 :: es2) central))).
  { rewrite Hb1, Hlb0. cbn [layout]. rewrite !app_length. subst nh. lia. }
  replace (length (skipn so (at_name e1 (e2 :: es2) central)) <? nh) with false by (symmetry; apply Nat.ltb_ge; exact Hge).
  assert (Hb2 : skipn nh (skipn so (at_name e1 (e2 :: es2) central)) = at_name e2 es2 central).
  { rewrite <- skipn_add. replace (so + nh) with (length (gap e1) + 30) by (subst nh; lia).
    rewrite skipn_add. unfold at_name at 1. rewrite skipn_app_exact. cbn [layout]. apply skipn_app_len. symmetry. exact Hh2. }
  rewrite Hb2. unfold at_name at 1. rewrite Hd2. cbn [firstn existsb].
  destruct (has_prefix sig (e_name e2)); [reflexivity|]. cbn [orb].
  apply (zip_hops_layout sig central 4 e2 es2). exact (conj Hh2 (conj Hd2 (conj Hhop2 Hw2))).
Qed.

(* ---- the layout conditions from byte-level facts ---- *)
(* pk34 occurs in x at offset k *)
Definition occurs_at (x : bytes) (k : nat) : Prop := has_prefix pk34 (skipn k x) = true.

Lemma index_from_first : forall x k i, occurs_at x k -> (forall j, j < k -> ~ occurs_at x j) -> index_from pk34 x i = Some (i + k).
Proof.
  induction x as [|c x IH]; intros k i Hk Hno.
  - destruct k; cbn in Hk; discriminate.
  - destruct k as [|k].
    + unfold occurs_at in Hk. cbn [skipn] in Hk. cbn [index_from]. rewrite Hk. f_equal. lia.
    + cbn [index_from]. assert (H0 : has_prefix pk34 (c :: x) = false).
      { destruct (has_prefix pk34 (c :: x)) eqn:E; [|reflexivity]. exfalso. apply (Hno 0); [lia|exact E]. }
      rewrite H0. rewrite (IH k (S i)); [f_equal; lia|exact Hk|].
      intros j Hj Hocc. apply (Hno (S j)); [lia|exact Hocc].
Qed.
Lemma index_of_first x k : occurs_at x k -> (forall j, j < k -> ~ occurs_at x j) -> index_of pk34 x = Some k.
Proof. intros H1 H2. unfold index_of. rewrite (index_from_first x k 0 H1 H2). reflexivity. Qed.
Lemma index_from_none : forall x i, (forall j, ~ occurs_at x j) -> index_from pk34 x i = None.
Proof.
  induction x as [|c x IH]; intros i Hno; [reflexivity|]. cbn [index_from].
  assert (H0 : has_prefix pk34 (c :: x) = false).
  { destruct (has_prefix pk34 (c :: x)) eqn:E; [|reflexivity]. exfalso. apply (Hno 0). exact E. }
  rewrite H0. apply IH. intros j Hocc. apply (Hno (S j)). exact Hocc.
Qed.

(* an entry whose footprint has at least 26 bytes and carries no local-header signature from offset 26 on (not
   even one straddling into what follows), followed by a header that starts with the signature: the hop lands on
   that header *)
Lemma hop_ok_intro e e2 es2 central :
  26 <= length (gap e) -> has_prefix pk34 (e_hdr e2) = true ->
  (forall j, 26 <= j < length (gap e) -> ~ occurs_at (at_name e (e2 :: es2) central) j) ->
  hop_ok e (e2 :: es2) central.
Proof.
  intros Hg Hpk Hno. split; [exact Hg|].
  apply index_of_first.
  - unfold occurs_at. rewrite <- skipn_add. replace (26 + (length (gap e) - 26)) with (length (gap e)) by lia.
    unfold at_name. rewrite skipn_app_exact. cbn [layout]. apply has_prefix_app, Hpk.
  - intros j Hj Hocc. apply (Hno (26 + j)); [lia|]. unfold occurs_at in *. rewrite skipn_add. exact Hocc.
Qed.
