(* C02 / C15: the result chain is made of registered formats and is rooted; names resolve. *)
From Verif Require Import Base.Bytes Model.Types Model.Tree Model.Mime Model.Detect Gen.TreeData Proofs.TreeP Proofs.BytesP Proofs.DetectP.
Local Open Scope nat_scope.

Section W.
  Variable acc : nat -> bool.

  (* every node on the walk is a node of the tree *)
  Lemma walk_in_flatten : forall t i, In i (walk acc t) -> In i (flatten t).
  Proof.
    induction t as [n cs IH] using tree_ind'. intros i. rewrite walk_eq. cbn [flatten].
    intros [->|Hi]; [left; reflexivity|]. right.
    induction cs as [|c l IHl]; [destruct Hi|]. inversion IH as [|? ? Hc Hl]; subst.
    rewrite first_kid_cons in Hi. cbn [flat_map]. apply in_or_app.
    destruct (acc (t_id c)); [left; apply Hc, Hi|right; apply IHl; assumption].
  Qed.

  (* the chain is never longer than the tree is high *)
  Lemma walk_length_height : forall t, length (walk acc t) <= height t.
  Proof.
    induction t as [n cs IH] using tree_ind'. rewrite walk_eq. cbn [length height]. apply le_n_S.
    induction cs as [|c l IHl]; [cbn; lia|]. inversion IH as [|? ? Hc Hl]; subst.
    rewrite first_kid_cons. cbn [fold_right]. destruct (acc (t_id c)); [lia|]. specialize (IHl Hl). lia.
  Qed.
End W.

Lemma ob_flatten_nodes : flatten tree0 = map n_id nodes.
Proof. vm_compute. reflexivity. Qed.
Lemma ob_height : height tree0 = 4.
Proof. vm_compute. reflexivity. Qed.
Lemma ob_root_obs : obs_of 0 = (b "application/octet-stream", []).
Proof. reflexivity. Qed.
Lemma ob_err_node : n_mime err_node = b "application/octet-stream" /\ n_ext err_node = [] /\ n_parent err_node = None /\ n_children err_node = [].
Proof. repeat split. Qed.
Lemma ob_names_normal : forallb (fun n => normal_media_type (n_mime n) && forallb normal_media_type (n_aliases n)) nodes = true.
Proof. vm_compute. reflexivity. Qed.

(* the reported chain: registered formats only, the root last, at most four long *)
Theorem chain_registered acc :
  let ch := chain_of acc tree0 in
  Forall (fun p => exists n, In n nodes /\ p = (n_mime n, n_ext n)) ch /\
  last ch ([], []) = (b "application/octet-stream", []) /\ 1 <= length ch <= 4.
Proof.
  cbv zeta. unfold chain_of. split; [|split].
  - apply Forall_forall. intros p Hp. apply in_map_iff in Hp as (i & <- & Hi). apply in_rev in Hi.
    apply walk_in_flatten in Hi. rewrite ob_flatten_nodes in Hi. apply in_map_iff in Hi as (n & Hid & Hn).
    exists n. split; [exact Hn|]. unfold obs_of, node_of.
    assert (Hnth : nth_error nodes i = Some n).
    { pose proof ob_nodes_ids as Hids. subst i.
      destruct (In_nth_error _ _ Hn) as [k Hk]. assert (Hk' := Hk).
      apply (map_nth_error n_id) in Hk. rewrite Hids in Hk.
      assert (Hlt : k < length (seq 0 (length nodes))) by (apply nth_error_Some; congruence). rewrite seq_length in Hlt.
      apply (nth_error_nth _ _ 0) in Hk. rewrite seq_nth in Hk by exact Hlt. cbn in Hk. subst k. exact Hk'. }
    rewrite Hnth. reflexivity.
  - destruct (walk_head acc tree0) as [p Hp]. rewrite Hp. cbn [rev]. rewrite map_app. cbn [map].
    rewrite last_last. reflexivity.
  - rewrite map_length, rev_length. pose proof (walk_length_height acc tree0) as H. rewrite ob_height in H.
    destruct (walk_head acc tree0) as [p Hp]. rewrite Hp in *. cbn [length] in *. lia.
Qed.

(* every registered type and alias resolves through Lookup to a format that Is that name *)
Definition node_names (id : nat) : list (list N) := match nth_error nodes id with Some n => names_of n | None => [] end.
Lemma ob_names_resolve :
  forallb (fun n => forallb (fun name =>
     match lookup node_names name tree0 with
     | Some id => match nth_error nodes id with Some m => is_model (n_mime m) (n_aliases m) name | None => false end
     | None => false end) (names_of n)) nodes = true.
Proof. vm_compute. reflexivity. Qed.
