(* C16: nesting bombs of any shape.  An input that opens more than cap+1 containers in a row - arrays and
   objects in any mixture, any keys, any layout - is not reported as JSON, whole or truncated, whatever follows. *)
From Coq Require Import Lia.
From Verif Require Import Base.Bytes Model.Json Spec.JsonGrammar Proofs.JsonAcct Proofs.JsonComplete Proofs.JsonPath Proofs.JsonDepth.
Local Open Scope N_scope.

(* one more level of nesting: "[" ws   or   "{" ws "key" ws ":" ws *)
Inductive Opener : bytes -> Prop :=
| Op_arr w : WS w -> Opener (91 :: w)
| Op_obj w1 k w2 w3 : WS w1 -> RStr k -> WS w2 -> WS w3 -> Opener (123 :: w1 ++ 34 :: k ++ w2 ++ 58 :: w3).

Lemma Opener_head o : Opener o -> exists c t, o = c :: t /\ (c = 91 \/ c = 123).
Proof. destruct 1; eauto. Qed.
Lemma Opener_len o : Opener o -> (1 <= length o)%nat.
Proof. destruct 1; cbn; lia. Qed.

Lemma concat_head os rest : Forall Opener os -> os <> [] ->
  exists c t, concat os ++ rest = c :: t /\ (c = 91 \/ c = 123).
Proof.
  destruct os as [|o os]; [congruence|]. intros H _. inversion H as [|? ? Ho _]; subst.
  destruct (Opener_head o Ho) as (c & t & -> & Hc). cbn [concat app]. eauto.
Qed.
Lemma head_nows' c t : (c = 91 \/ c = 123) -> nows (c :: t).
Proof. intros [->| ->]; reflexivity. Qed.

Lemma obj_opener_norm w1 k w2 w3 (tl : bytes) :
  (123 :: w1 ++ 34 :: k ++ w2 ++ 58 :: w3) ++ tl = 123 :: w1 ++ 34 :: k ++ w2 ++ 58 :: w3 ++ tl.
Proof. cbn [app]. repeat (rewrite <- app_assoc; cbn [app]). reflexivity. Qed.

Lemma len_app_sub (a x : bytes) : (length (a ++ x) - length x = length a)%nat.
Proof. rewrite app_length. lia. Qed.

Section Bomb.
  Variable maxrec : nat.
  Variable qs : list query.
  Variable tk : N * N * N * N * N * N * N.
  Hypothesis Hcap : maxrec <> 0%nat.
  Notation go := (go maxrec qs tk).

  (* bytes of the openers that can be entered before the cap stops the descent *)
  Definition budget (lvl : nat) (os : list bytes) : nat := length (concat (firstn (maxrec + 1 - lvl) os)).

  Definition bomb_any (f : nat) := forall w os lvl rest s, WS w -> Forall Opener os -> (lvl <= maxrec + 1)%nat -> (maxrec + 2 <= lvl + length os)%nat ->
    exists s', go f WAny (w ++ concat os ++ rest) lvl s = (None, s') /\ (ib s' <= ib s + length w + budget lvl os)%nat.
  Definition bomb_arr (f : nat) := forall w os lvl rest s, WS w -> Forall Opener os -> (lvl <= maxrec + 1)%nat -> (maxrec + 2 <= lvl + length os)%nat ->
    exists s', go f WArr (w ++ concat os ++ rest) lvl s = (None, s') /\ (ib s' <= ib s + length w + budget lvl os)%nat.
  Definition bomb_obj (f : nat) := forall w1 k w2 w3 os lvl rest s, WS w1 -> RStr k -> WS w2 -> WS w3 -> Forall Opener os ->
    (lvl <= maxrec + 1)%nat -> (maxrec + 2 <= lvl + length os)%nat ->
    exists s', go f WObj (w1 ++ 34 :: k ++ w2 ++ 58 :: w3 ++ concat os ++ rest) lvl s = (None, s') /\
               (ib s' <= ib s + length (w1 ++ 34%N :: k ++ w2 ++ 58%N :: w3) + budget lvl os)%nat.

  Lemma budget_cons lvl o os : (lvl <= maxrec)%nat -> budget lvl (o :: os) = (length o + budget (S lvl) os)%nat.
  Proof.
    intros H. unfold budget. replace (maxrec + 1 - lvl)%nat with (S (maxrec + 1 - S lvl)) by lia.
    cbn [firstn concat]. rewrite app_length. reflexivity.
  Qed.

  Lemma os_nonempty (os : list bytes) lvl : (lvl <= maxrec + 1)%nat -> (maxrec + 2 <= lvl + length os)%nat -> os <> [].
  Proof. intros H1 H2 ->. cbn in H2. lia. Qed.

  Lemma bomb_all : forall f, bomb_any f /\ bomb_arr f /\ bomb_obj f.
  Proof.
    induction f as [|f (IHany & IHarr & IHobj)].
    { repeat split; intros; eexists; (split; [reflexivity|rewrite ib_set_oof; lia]). }
    repeat split.
    - (* a value: an opener, then its tail one level deeper *)
      intros w0 os lvl rest s Hw0 Hos Hl Hn. cbn [Json.go]. unfold any_body.
      destruct (Nat.eqb_spec maxrec 0) as [|_]; [congruence|]. cbn [negb andb].
      destruct (Nat.ltb_spec maxrec lvl) as [Hgt|Hle]; [eexists; split; [reflexivity|lia]|].
      destruct os as [|o os']; [cbn in Hn; lia|]. inversion Hos as [|? ? Ho Hos']; subst.
      cbn [length] in Hn. rewrite (budget_cons lvl o os' Hle).
      destruct Ho as [w Hw|w1 k w2 w3 Hw1 Hk Hw2 Hw3].
      + cbn [concat]. rewrite <- app_assoc. cbn [app]. unfold consume_space.
        rewrite (skip_space_ws_app w0 (91 :: w ++ concat os' ++ rest) Hw0) by reflexivity.
        unfold dispatch. cbn [N.eqb Pos.eqb].
        match goal with |- context [go f WArr (w ++ concat os' ++ rest) (S lvl) ?st] =>
          destruct (IHarr w os' (S lvl) rest st Hw Hos') as (s2 & E2 & Hib2); [lia|lia|] end.
        rewrite E2. destruct (note_token_eq qs tk 91 lvl None s2) as (sn & -> & Hsn). cbn [after_value].
        eexists. split; [reflexivity|]. rewrite Hsn. unfold set_path, bump, see_lvl in Hib2. cbn [ib] in Hib2. rewrite len_app_sub in Hib2. cbn [length]. lia.
      + cbn [concat]. rewrite <- app_assoc. rewrite obj_opener_norm. unfold consume_space.
        rewrite (skip_space_ws_app w0 (123 :: w1 ++ 34 :: k ++ w2 ++ 58 :: w3 ++ concat os' ++ rest) Hw0) by reflexivity.
        unfold dispatch. cbn [N.eqb Pos.eqb].
        match goal with |- context [go f WObj _ (S lvl) ?st] =>
          destruct (IHobj w1 k w2 w3 os' (S lvl) rest st Hw1 Hk Hw2 Hw3 Hos') as (s2 & E2 & Hib2); [lia|lia|] end.
        rewrite E2. destruct (note_token_eq qs tk 123 lvl None s2) as (sn & -> & Hsn). cbn [after_value].
        eexists. split; [reflexivity|]. rewrite Hsn. unfold set_path, bump, see_lvl in Hib2. cbn [ib] in Hib2. rewrite len_app_sub in Hib2. cbn [length]. lia.
    - (* an array tail: white space, then the next opener as its first element *)
      intros w os lvl rest s Hw Hos Hl Hn. cbn [Json.go]. unfold arr_body, consume_space.
      destruct (concat_head os rest Hos (os_nonempty os lvl Hl Hn)) as (c2 & t2 & Enext & Hc2).
      rewrite (skip_space_ws_app w (concat os ++ rest) Hw) by (rewrite Enext; apply head_nows', Hc2).
      rewrite Enext. destruct (N.eqb_spec c2 93) as [E93|_]; [destruct Hc2; lia|]. rewrite <- Enext.
      match goal with |- context [go f WAny (concat os ++ rest) lvl ?st] =>
        destruct (IHany [] os lvl rest st (Forall_nil _) Hos Hl Hn) as (s2 & E2 & Hib2) end.
      cbn [app] in E2. rewrite E2. cbn [arr_sep]. eexists. split; [reflexivity|].
      rewrite ib_bump, len_app_sub in Hib2. cbn [length app] in Hib2. lia.
    - (* an object tail: "key" : then the next opener as the member's value *)
      intros w1 k w2 w3 os lvl rest s Hw1 Hk Hw2 Hw3 Hos Hl Hn. cbn [Json.go]. unfold obj_body, consume_space.
      rewrite (skip_space_ws_app w1 (34 :: k ++ w2 ++ 58 :: w3 ++ concat os ++ rest) Hw1) by reflexivity.
      cbn [N.eqb Pos.eqb negb].
      match goal with |- context [consume_string (k ++ ?r) 0 false ?st] =>
        destruct (consume_string_complete k Hk r st) as (sk & Ek); pose proof (consume_string_acct (k ++ r) 0%nat false st) as Hka end.
      rewrite Ek in *. destruct Hka as [_ Hka]. unfold key_step, obj_value, consume_space.
      rewrite (skip_space_ws_app w2 (58 :: w3 ++ concat os ++ rest) Hw2) by reflexivity.
      cbn [N.eqb Pos.eqb negb].
      destruct (concat_head os rest Hos (os_nonempty os lvl Hl Hn)) as (c2 & t2 & Enext & Hc2).
      rewrite (skip_space_ws_app w3 (concat os ++ rest) Hw3) by (rewrite Enext; apply head_nows', Hc2).
      rewrite Enext. cbv iota. rewrite <- Enext.
      match goal with |- context [go f WAny (concat os ++ rest) lvl ?st] =>
        destruct (IHany [] os lvl rest st (Forall_nil _) Hos Hl Hn) as (s2 & E2 & Hib2) end.
      cbn [app] in E2. rewrite E2. cbn [note_value obj_sep]. eexists. split; [reflexivity|].
      cbn in Hib2, Hka. rewrite !app_length in *. cbn [length] in *. rewrite !app_length in *. cbn [length] in *.
      rewrite ?app_length in *. lia.
  Qed.

  (* more than cap+1 openers in a row: never JSON, whatever follows, whole or truncated *)
  Theorem bomb_rejected want w0 os rest limit : WS w0 -> Forall Opener os -> (maxrec + 2 <= length os)%nat ->
    json_helper maxrec tk qs want (w0 ++ concat os ++ rest) limit = false.
  Proof.
    intros Hw0 Hos Hn. unfold json_helper. destruct (looks_like_obj_or_arr _); [|reflexivity]. cbn [negb].
    unfold parse. set (raw := w0 ++ concat os ++ rest).
    destruct (proj1 (bomb_all (fuel_for raw)) w0 os 0%nat rest init_st Hw0 Hos ltac:(lia) ltac:(lia)) as (s' & E & Hib).
    fold raw in E. rewrite E. cbn [p_qsat p_ftok p_parsed p_inspected].
    destruct (negb (qsat s') || _); [reflexivity|].
    (* the openers beyond the budget are never inspected *)
    assert (Hbud : (budget 0 os < length (concat os))%nat).
    { unfold budget. rewrite Nat.sub_0_r. rewrite <- (firstn_skipn (maxrec + 1) os) at 2. rewrite concat_app, app_length.
      assert (Hsk : skipn (maxrec + 1) os <> []).
      { intros Hnil. pose proof (f_equal (@length _) Hnil) as Hlen. rewrite skipn_length in Hlen. cbn in Hlen. lia. }
      destruct (skipn (maxrec + 1) os) as [|o1 tl] eqn:Es; [congruence|].
      assert (Ho1 : Opener o1).
      { assert (Hin : In o1 os) by (rewrite <- (firstn_skipn (maxrec + 1) os), Es; apply in_or_app; right; left; reflexivity).
        rewrite Forall_forall in Hos. apply Hos, Hin. }
      cbn [concat]. rewrite app_length. pose proof (Opener_len o1 Ho1). lia. }
    assert (Hlen : (ib s' < length raw)%nat).
    { unfold raw. rewrite !app_length. cbn [init_st ib] in Hib. lia. }
    destruct ((limit =? 0)%N || _).
    - destruct (complete s'); apply Nat.eqb_neq; lia.
    - apply andb_false_iff. left. apply Nat.eqb_neq. lia.
  Qed.
End Bomb.
