(* C06: mutual exclusion of the RWMutex model and exclusivity of guarded accesses under the discipline. *)
From Verif Require Import Base.Bytes Model.Conc.
Local Open Scope nat_scope.

(* per-thread lock state read off the global state *)
Definition holds (g : gstate) (t : nat) : held :=
  match writer g with
  | Some w => if Nat.eqb w t then HW else HNone
  | None => if existsb (Nat.eqb t) (readers g) then HR else HNone
  end.

(* invariant of the mutex: a writer excludes all readers; reader entries are distinct *)
Definition ginv (g : gstate) : Prop := (writer g <> None -> readers g = []) /\ NoDup (readers g).

Lemma existsb_eqb_in t l : existsb (Nat.eqb t) l = true <-> In t l.
Proof.
  rewrite existsb_exists. split; [intros (x & Hx & He); apply Nat.eqb_eq in He; subst; exact Hx|].
  intros H. exists t. split; [exact H|apply Nat.eqb_refl].
Qed.

Lemma remove1_notin t l : NoDup l -> ~ In t (remove1 t l).
Proof.
  induction 1 as [|x l Hx Hd IH]; cbn [remove1]; [auto|].
  destruct (Nat.eqb_spec x t) as [->|Hne]; [exact Hx|]. intros [E|Hi]; [congruence|auto].
Qed.
Lemma remove1_in_other t u l : u <> t -> (In u (remove1 t l) <-> In u l).
Proof.
  intros Hne. induction l as [|x l IH]; cbn [remove1]; [tauto|].
  destruct (Nat.eqb_spec x t) as [->|Hx]; cbn [In]; [split; [auto|intros [E|H]; [congruence|exact H]]|].
  rewrite IH. tauto.
Qed.
Lemma remove1_nodup t l : NoDup l -> NoDup (remove1 t l).
Proof.
  induction 1 as [|x l Hx Hd IH]; cbn [remove1]; [constructor|].
  destruct (Nat.eqb_spec x t); [exact Hd|]. constructor; [|exact IH].
  intros Hi. apply Hx. destruct (Nat.eq_dec x t); [congruence|]. apply (remove1_in_other t x l); assumption.
Qed.

(* a thread that follows the discipline and whose action the mutex admits: the thread-local view stays the
   projection of the global state, the invariant is kept, other threads' views are untouched or compatible *)
Lemma step_agree g t a g' h' :
  ginv g -> lstep (holds g t) a = Some h' -> gstep g t a = Some g' ->
  ginv g' /\ holds g' t = h' /\ (forall u, u <> t -> holds g' u = holds g u).
Proof.
  intros [Hw Hd] Hl Hg. unfold holds in *.
  destruct a as [| | | |l|l|l|l]; cbn [lstep gstep] in *.
  - (* Lock *)
    destruct (writer g) as [w|] eqn:Ew; [destruct (Nat.eqb w t); discriminate|].
    destruct (readers g) as [|r rs] eqn:Er; [|discriminate]. inversion Hg; subst g'. cbn [writer readers].
    destruct (existsb (Nat.eqb t) []) eqn:Ee; [discriminate|]. inversion Hl; subst. rewrite Nat.eqb_refl.
    split; [split; [intros _; reflexivity|constructor]|]. split; [reflexivity|].
    intros u Hu. destruct (Nat.eqb_spec t u); [congruence|]. reflexivity.
  - (* Unlock *)
    destruct (writer g) as [w|] eqn:Ew; [|discriminate].
    destruct (Nat.eqb_spec w t) as [->|Hne]; [|discriminate]. inversion Hg; subst g'. cbn [writer readers].
    inversion Hl; subst. rewrite (Hw ltac:(discriminate)). cbn.
    split; [split; [intros H; exfalso; apply H; reflexivity|constructor]|]. split; [reflexivity|].
    intros u Hu. destruct (Nat.eqb_spec t u); [congruence|]. reflexivity.
  - (* RLock *)
    destruct (writer g) as [w|] eqn:Ew; [discriminate|]. inversion Hg; subst g'. cbn [writer readers].
    destruct (existsb (Nat.eqb t) (readers g)) eqn:Ex; [discriminate|]. inversion Hl; subst.
    assert (Hnin : ~ In t (readers g)) by (intros Hi; apply existsb_eqb_in in Hi; congruence).
    cbn [existsb]. rewrite Nat.eqb_refl. cbn [orb].
    split; [split; [intros H; exfalso; apply H; reflexivity|constructor; assumption]|]. split; [reflexivity|].
    intros u Hu. destruct (Nat.eqb_spec u t); [congruence|]. reflexivity.
  - (* RUnlock *)
    destruct (existsb (Nat.eqb t) (readers g)) eqn:Ex; [|discriminate]. inversion Hg; subst g'. cbn [writer readers].
    destruct (writer g) as [w|] eqn:Ew.
    { rewrite (Hw ltac:(discriminate)) in Ex. discriminate. }
    inversion Hl; subst. split; [split; [intros H; exfalso; apply H; reflexivity|apply remove1_nodup, Hd]|].
    split.
    + destruct (existsb (Nat.eqb t) (remove1 t (readers g))) eqn:E; [|reflexivity].
      apply existsb_eqb_in in E. exfalso. eapply remove1_notin; eauto.
    + intros u Hu.
      assert (Heq : existsb (Nat.eqb u) (remove1 t (readers g)) = existsb (Nat.eqb u) (readers g)).
      { destruct (existsb (Nat.eqb u) (readers g)) eqn:E1.
        - apply (proj2 (existsb_eqb_in u _)). apply (proj1 (existsb_eqb_in u _)) in E1. apply (proj2 (remove1_in_other t u (readers g) Hu)). exact E1.
        - apply not_true_is_false. intros E2. apply (proj1 (existsb_eqb_in u _)) in E2. apply (proj1 (remove1_in_other t u (readers g) Hu)) in E2.
          apply (proj2 (existsb_eqb_in u _)) in E2. rewrite E2 in E1. discriminate. }
      rewrite Heq. reflexivity.
  - inversion Hg; subst. split; [split; assumption|]. split; [|reflexivity].
    destruct (class_of l); [|discriminate|inversion Hl; reflexivity].
    destruct (writer g') as [w|]; [destruct (Nat.eqb w t); [inversion Hl; reflexivity|discriminate]|].
    destruct (existsb (Nat.eqb t) (readers g')); [inversion Hl; reflexivity|discriminate].
  - inversion Hg; subst. split; [split; assumption|]. split; [|reflexivity].
    destruct (class_of l); try discriminate.
    destruct (writer g') as [w|]; [destruct (Nat.eqb w t); [inversion Hl; reflexivity|discriminate]|].
    destruct (existsb (Nat.eqb t) (readers g')); discriminate.
  - inversion Hg; subst. split; [split; assumption|]. split; [|reflexivity]. destruct (class_of l); try discriminate. inversion Hl; reflexivity.
  - inversion Hg; subst. split; [split; assumption|]. split; [|reflexivity]. destruct (class_of l); try discriminate. inversion Hl; reflexivity.
Qed.

(* mutual exclusion: a thread in write mode excludes every other holder *)
Theorem mutual_exclusion g t u : ginv g -> holds g t = HW -> u <> t -> holds g u = HNone.
Proof.
  intros [Hw _]. unfold holds. destruct (writer g) as [w|] eqn:Ew.
  - destruct (Nat.eqb_spec w t) as [->|]; [|discriminate]. intros _ Hu. destruct (Nat.eqb_spec t u); [congruence|reflexivity].
  - destruct (existsb _ _); discriminate.
Qed.

(* every thread follows the discipline along the trace: its local runs never get stuck *)
Definition all_disciplined (tr : list (nat * action)) : Prop :=
  forall t, exists h, lrun HNone (proj t tr) = Some h.

(* what an access may assume about everybody else, in the state in which it happens *)
Definition exclusive (g : gstate) (t : nat) (a : action) : Prop :=
  match a with
  | Write l => class_of l = Guarded /\ holds g t = HW /\ forall u, u <> t -> holds g u = HNone
  | Read l => class_of l = Guarded -> holds g t <> HNone /\ forall u, u <> t -> holds g u <> HW
  | _ => True
  end.

Lemma lrun_app h p q : lrun h (p ++ q) = match lrun h p with Some h' => lrun h' q | None => None end.
Proof. revert h; induction p as [|a p IH]; intros h; cbn [lrun app]; [reflexivity|]. destruct (lstep h a); [apply IH|reflexivity]. Qed.

Lemma proj_app t a b : proj t (a ++ b) = proj t a ++ proj t b.
Proof. unfold proj. rewrite filter_app, map_app. reflexivity. Qed.

(* along a trace accepted by the mutex in which every thread follows the discipline, every thread's local view
   equals the projection of the global state *)
Lemma views_agree : forall pre g, grun g0 pre = Some g ->
  (forall t, exists h, lrun HNone (proj t pre) = Some h) ->
  ginv g /\ forall t, lrun HNone (proj t pre) = Some (holds g t).
Proof.
  induction pre as [|[t a] pre IH] using rev_ind; intros g Hg Hd.
  - inversion Hg; subst. split; [split; [intros H; exfalso; apply H; reflexivity|constructor]|]. intros t. reflexivity.
  - assert (Hsplit : exists g1, grun g0 pre = Some g1 /\ gstep g1 t a = Some g).
    { clear IH Hd. revert g Hg. generalize g0. induction pre as [|[t' a'] pre IHp]; intros gs g Hg; cbn [grun app] in *.
      - destruct (gstep gs t a) as [g'|] eqn:Est; [|discriminate]. inversion Hg; subst. exists gs. split; [reflexivity|exact Est].
      - destruct (gstep gs t' a') as [g'|]; [|discriminate]. apply IHp, Hg. }
    destruct Hsplit as (g1 & Hg1 & Hst).
    assert (Hd1 : forall u, exists h, lrun HNone (proj u pre) = Some h).
    { intros u. destruct (Hd u) as [h Hh]. rewrite proj_app, lrun_app in Hh. destruct (lrun HNone (proj u pre)); [eauto|discriminate]. }
    destruct (IH g1 Hg1 Hd1) as (Hinv & Hviews).
    destruct (Hd t) as [ht Hht]. rewrite proj_app, lrun_app, Hviews in Hht.
    unfold proj in Hht at 1. cbn [filter fst] in Hht. rewrite Nat.eqb_refl in Hht. cbn [map snd lrun] in Hht.
    destruct (lstep (holds g1 t) a) as [h'|] eqn:El; [|discriminate].
    destruct (step_agree g1 t a g h' Hinv El Hst) as (Hinv' & Hh' & Hoth).
    split; [exact Hinv'|]. intros u. rewrite proj_app, lrun_app, Hviews.
    unfold proj at 1. cbn [filter fst]. destruct (Nat.eqb_spec t u) as [->|Hne].
    + cbn [map snd lrun]. rewrite El, Hh'. reflexivity.
    + cbn [map lrun]. rewrite Hoth by congruence. reflexivity.
Qed.

(* the property of the discipline: whenever a thread writes a guarded location it holds the lock exclusively and
   nobody else holds it in any mode; whenever it reads one it holds the lock and nobody else holds it in write
   mode.  Hence two conflicting accesses to a guarded location are never enabled at the same time: the mutex
   orders them (release by one thread before acquisition by the other). *)
Theorem discipline_excludes pre t a post g :
  grun g0 (pre ++ (t, a) :: post) <> None -> all_disciplined (pre ++ (t, a) :: post) ->
  grun g0 pre = Some g -> exclusive g t a.
Proof.
  intros Hrun Hd Hg.
  assert (Hd1 : forall u, exists h, lrun HNone (proj u pre) = Some h).
  { intros u. destruct (Hd u) as [h Hh]. rewrite proj_app, lrun_app in Hh. destruct (lrun HNone (proj u pre)); [eauto|discriminate]. }
  destruct (views_agree pre g Hg Hd1) as (Hinv & Hviews).
  destruct (Hd t) as [ht Hht]. rewrite proj_app, lrun_app, Hviews in Hht.
  unfold proj in Hht at 1. cbn [filter fst] in Hht. rewrite Nat.eqb_refl in Hht. cbn [map snd lrun] in Hht.
  destruct (lstep (holds g t) a) as [h'|] eqn:El; [|discriminate]. clear Hht.
  destruct a as [| | | |l|l|l|l]; cbn [exclusive]; auto.
  - intros Hc. cbn [lstep] in El. rewrite Hc in El. split.
    + destruct (holds g t); [discriminate|discriminate|discriminate].
    + intros u Hu Hw. pose proof (mutual_exclusion g u t Hinv Hw ltac:(congruence)) as Hn. rewrite Hn in El. discriminate.
  - cbn [lstep] in El. destruct (class_of l) eqn:Hc; try discriminate.
    destruct (holds g t) eqn:Hh; try discriminate. split; [reflexivity|]. split; [reflexivity|].
    intros u Hu. apply (mutual_exclusion g t u Hinv Hh Hu).
Qed.

(* a thread that executes disciplined programs one after the other follows the discipline *)
Lemma lrun_programs progs : forallb disciplined_prog progs = true -> lrun HNone (concat progs) = Some HNone.
Proof.
  induction progs as [|p ps IH]; intros H; [reflexivity|]. cbn [forallb] in H. apply andb_true_iff in H as [Hp Hps].
  cbn [concat]. rewrite lrun_app. unfold disciplined_prog in Hp.
  destruct (lrun HNone p) as [[| |]|]; try discriminate. apply IH, Hps.
Qed.
