(* C01: the checked transliterations never reach Panic and compute the total models. *)
From Coq Require Import Lia.
From Verif Require Import Base.Bytes Model.GoLite Model.Zip Model.Ole Model.Mkv Model.Tar Model.Checked
  Proofs.BytesP Proofs.GoLiteP.
Local Open Scope N_scope.

Lemma from_val raw lo : (lo <= length raw)%nat -> from raw lo = Val (skipn lo raw).
Proof. intros H. unfold from. replace (lo <=? length raw)%nat with true by (symmetry; apply Nat.leb_le; exact H). reflexivity. Qed.
Lemma get_nthb raw i : (i < length raw)%nat -> get raw i = Val (nthb raw i).
Proof.
  intros H. unfold get, nthb. destruct (nth_error raw i) as [c|] eqn:E.
  - rewrite (nth_error_nth _ _ 0 E). reflexivity.
  - apply nth_error_None in E. lia.
Qed.
Lemma nthb_firstn l k i : (i < k)%nat -> nthb (firstn k l) i = nthb l i.
Proof.
  unfold nthb. revert l i. induction k as [|k IH]; intros l i H; [lia|].
  destruct l as [|c l]; [destruct i; reflexivity|]. destruct i as [|i]; [reflexivity|]. cbn. apply IH. lia.
Qed.
Lemma u32le_firstn4 l : u32le (firstn 4 l) = u32le l.
Proof. unfold u32le. rewrite !nthb_firstn by lia. reflexivity. Qed.

Lemma advance_spec cur n : (0 <= n)%Z ->
  advance cur n = if (length cur <? Z.to_nat n)%nat then None else Some (skipn (Z.to_nat n) cur).
Proof.
  intros Hn. unfold advance. replace (n <? 0)%Z with false by (symmetry; apply Z.ltb_ge; exact Hn). cbn [orb].
  destruct (Z.ltb_spec (Z.of_nat (length cur)) n) as [H|H], (Nat.ltb_spec (length cur) (Z.to_nat n)) as [H'|H']; try reflexivity; lia.
Qed.
Lemma advance_neg cur : advance cur (-1) = None. Proof. reflexivity. Qed.

Section ZipChkP.
  Variable skip_files : list bytes.

  Lemma zip_hops_ok : forall k sig cur, zip_hops_chk k sig cur = Val (zip_hops k sig cur).
  Proof.
    induction k as [|k IH]; intros sig cur; [reflexivity|]. cbn [zip_hops_chk zip_hops].
    rewrite advance_spec by lia. change (Z.to_nat 26) with 26%nat.
    destruct (length cur <? 26)%nat; [reflexivity|]. unfold indexZ.
    destruct (index_of pk34 (skipn 26 cur)) as [nh|]; [|reflexivity].
    replace (Z.of_nat nh =? -1)%Z with false by (symmetry; apply Z.eqb_neq; lia).
    rewrite advance_spec by lia. replace (Z.to_nat (Z.of_nat nh + 30)) with (nh + 30)%nat by lia.
    destruct (length (skipn 26 cur) <? nh + 30)%nat; [reflexivity|].
    destruct (has_prefix sig _); [reflexivity|apply IH].
  Qed.

  Theorem zip_contains_ok raw sig mso : zip_contains_chk skip_files raw sig mso = Val (zip_contains skip_files raw sig mso).
  Proof.
    unfold zip_contains_chk, zip_contains. destruct (Nat.ltb_spec (length raw) 30) as [Hlt|Hge]; [reflexivity|].
    rewrite advance_spec by lia. change (Z.to_nat 30) with 30%nat.
    replace (length raw <? 30)%nat with false by (symmetry; apply Nat.ltb_ge; exact Hge).
    destruct (has_prefix sig (skipn 30 raw)); [reflexivity|].
    destruct (mso && _); [reflexivity|].
    rewrite from_val by lia. cbn [rbind].
    set (so := (u32le (skipn 18 raw) + 49) mod two32).
    rewrite advance_spec by lia. replace (Z.to_nat (Z.of_N so)) with (N.to_nat so) by lia.
    destruct (Nat.ltb_spec (length (skipn 30 raw)) (N.to_nat so)) as [Hs|Hs], (N.ltb_spec (N.of_nat (length (skipn 30 raw))) so) as [Hs'|Hs']; try lia; [reflexivity|].
    rewrite skipn_length in Hs. rewrite from_val by lia. cbn [rbind]. unfold indexZ.
    destruct (index_of pk34 (skipn (N.to_nat so) raw)) as [nh|]; [|reflexivity].
    rewrite advance_spec by lia. rewrite Znat.Nat2Z.id.
    destruct (length (skipn (N.to_nat so) (skipn 30 raw)) <? nh)%nat; [reflexivity|].
    destruct (has_prefix sig _); [reflexivity|apply zip_hops_ok].
  Qed.
End ZipChkP.

Lemma zip_bexp_val r : evalb zip_bexp r = Val (zip_simple r).
Proof.
  unfold zip_simple. destruct (evalb zip_bexp r) as [v|] eqn:E; [reflexivity|].
  exfalso. assert (H : an 0 zip_bexp <> None) by (vm_compute; discriminate).
  destruct (an 0 zip_bexp) as [i|] eqn:Ea; [|congruence].
  pose proof (an_sound zip_bexp 0 i r Ea (Nat.le_0_l _)) as Hs. unfold sound1 in Hs. rewrite E in Hs. destruct Hs as (v & Hv & _). discriminate Hv.
Qed.

Theorem crx_ok raw : crx_chk raw = Val (crx_det raw).
Proof.
  unfold crx_chk, crx_det. destruct (Nat.ltb_spec (length raw) 16) as [Hlt|Hge]; [reflexivity|]. cbn [orb].
  destruct (negb (has_prefix _ raw)); [reflexivity|].
  rewrite !slice_val by lia. cbn [rbind]. change (12 - 8)%nat with 4%nat. change (16 - 12)%nat with 4%nat. rewrite !u32le_firstn4.
  set (zo := (16 + u32le (skipn 8 raw) + u32le (skipn 12 raw)) mod two32).
  destruct (N.ltb_spec (N.of_nat (length raw) mod two32) zo) as [H|H]; [reflexivity|].
  assert (Hzo : zo < two32) by (apply N.mod_lt; discriminate).
  assert (Hle : (N.to_nat zo <= length raw)%nat).
  { destruct (N.lt_ge_cases (N.of_nat (length raw)) two32) as [Hs|Hs]; [rewrite N.mod_small in H by exact Hs|]; lia. }
  rewrite from_val by exact Hle. cbn [rbind]. apply zip_bexp_val.
Qed.

Theorem match_ole_clsid_ok inp clsid : match_ole_clsid_chk inp clsid = Val (match_ole_clsid inp clsid).
Proof.
  unfold match_ole_clsid_chk, match_ole_clsid. destruct (Nat.ltb_spec (length inp) 512) as [Hlt|Hge]; [reflexivity|].
  rewrite !get_nthb by lia. cbn [rbind]. rewrite slice_val by lia. cbn [rbind]. change (52 - 48)%nat with 4%nat. rewrite u32le_firstn4.
  set (off := (if (nthb inp 26 =? 4) && (nthb inp 27 =? 0) then 4096 else 512) * (1 + u32le (skipn 48 inp)) + 80).
  destruct (N.leb_spec (N.of_nat (length inp)) (off + 16)) as [H|H]; [reflexivity|].
  rewrite from_val by lia. reflexivity.
Qed.

Theorem matroska_ok inp fl : matroska_chk inp fl = Val (matroska inp fl).
Proof.
  unfold matroska_chk, matroska. destruct (negb (has_prefix ebml inp)); [reflexivity|].
  rewrite slice_val by lia. cbn [rbind]. rewrite Nat.sub_0_r. change (skipn 0 inp) with inp. unfold indexZ.
  destruct (index_of [66; 130] (firstn (Nat.min 4096 (length inp)) inp)) as [[|i0]|]; try reflexivity.
  replace (0 <? Z.of_nat (S i0))%Z with true by (symmetry; apply Z.ltb_lt; lia). cbn [andb].
  destruct (Z.ltb_spec (Z.of_nat (S i0) + 2) (Z.of_nat (length inp))) as [H|H], (Nat.ltb_spec (S i0 + 2) (length inp)) as [H'|H']; try lia; [|reflexivity].
  replace (Z.to_nat (Z.of_nat (S i0) + 2)) with (S i0 + 2)%nat by lia.
  rewrite get_nthb by lia. cbn [rbind].
  destruct (Nat.ltb_spec (S i0 + 2 + vint_width (nthb inp (S i0 + 2))) (length inp)) as [Hn|Hn]; [|reflexivity].
  rewrite from_val by lia. reflexivity.
Qed.

Theorem tar_ok raw : tar_chk raw = Val (tar_det raw).
Proof.
  unfold tar_chk, tar_det. destruct (Nat.ltb_spec (length raw) 512) as [Hlt|Hge]; [reflexivity|].
  rewrite slice_val by lia. cbn [rbind]. rewrite Nat.sub_0_r. change (skipn 0 raw) with raw.
  assert (Hl : length (firstn 512 raw) = 512%nat) by (rewrite firstn_length; lia).
  rewrite !slice_val by lia. cbn [rbind]. rewrite Nat.sub_0_r. change (skipn 0 (firstn 512 raw)) with (firstn 512 raw).
  change (156 - 148)%nat with 8%nat.
  destruct (contains gpkg _); [reflexivity|]. destruct (tar_parse_octal _); reflexivity.
Qed.

Lemma at512_ok raw h : (512 <= length raw)%nat -> at512_chk raw h = Val (at512 raw h).
Proof. intros H. unfold at512_chk, at512. rewrite from_val by exact H. reflexivity. Qed.
Lemma win1152_ok raw lit : win1152_chk raw lit = Val (win1152 raw lit).
Proof.
  unfold win1152_chk, win1152. destruct (Nat.ltb_spec 1152 (length raw)) as [H|H]; [|reflexivity].
  rewrite slice_val by lia. reflexivity.
Qed.
Lemma any_chk_ok (f : bytes -> res bool) (g : bytes -> bool) l : (forall x, f x = Val (g x)) -> any_chk (map f l) = Val (existsb g l).
Proof. intros H. induction l as [|x l IH]; [reflexivity|]. cbn [map any_chk existsb]. rewrite H. cbn [rbind]. destruct (g x); [reflexivity|exact IH]. Qed.

Theorem ppt_ok raw : ppt_chk raw = Val (ppt_det raw).
Proof.
  unfold ppt_chk, ppt_det. rewrite !match_ole_clsid_ok. cbn [rbind].
  destruct (match_ole_clsid raw [16; 141; 129; 100; 155; 79; 207; 17; 134; 234; 0; 170; 0; 185; 41; 232]); cbn [rbind orb]; [reflexivity|].
  destruct (match_ole_clsid raw _); [reflexivity|].
  destruct (Nat.ltb_spec (length raw) 520) as [Hlt|Hge]; [reflexivity|].
  rewrite (any_chk_ok (at512_chk raw) (at512 raw)) by (intros x; apply at512_ok; lia). cbn [rbind].
  destruct (existsb (at512 raw) _); [reflexivity|].
  rewrite at512_ok by lia. cbn [rbind].
  destruct (at512 raw [253; 255; 255; 255]); cbn [andb rbind].
  - rewrite get_nthb by lia. cbn [rbind]. destruct (nthb raw 518 =? 0); cbn [andb rbind].
    + rewrite get_nthb by lia. cbn [rbind]. destruct (nthb raw 519 =? 0); [reflexivity|apply win1152_ok].
    + apply win1152_ok.
  - apply win1152_ok.
Qed.
