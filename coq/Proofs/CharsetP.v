(* C11: facts about FromPlain on the model. *)
From Verif Require Import Base.Bytes Model.Text Model.Charset Spec.SpecText Spec.SpecCharset Proofs.BytesP.
Local Open Scope N_scope.

Section PlainP.
  Variable text_chars : list N.
  Variable cT cI : N.
  Notation from_plain := (from_plain spec_boms text_chars cT cI).
  Notation latin := (latin text_chars cT cI).

  (* a byte-order mark yields exactly its charset *)
  Theorem bom_wins rep s cs : from_bom spec_boms s = cs -> cs <> [] -> from_plain rep s = cs.
  Proof.
    intros Hb Hne. unfold Charset.from_plain. destruct s as [|c s]; [cbn in Hb; congruence|].
    rewrite Hb. destruct cs; [congruence|reflexivity].
  Qed.

  Lemma from_bom_values s : In (from_bom spec_boms s) [[]; b "utf-8"; b "utf-32be"; b "utf-32le"; b "utf-16be"; b "utf-16le"].
  Proof.
    unfold spec_boms. cbn [from_bom].
    repeat (match goal with |- context [has_prefix ?p s] => destruct (has_prefix p s) end; [cbn; tauto|]).
    cbn; tauto.
  Qed.

  Lemma latin_values s : latin s = b "windows-1252" /\ has_c1 s = true \/ latin s = b "iso-8859-1" /\ has_c1 s = false \/ latin s = [].
  Proof.
    unfold Charset.latin, has_c1. destruct (forallb _ s); [|right; right; reflexivity].
    destruct (existsb (fun c => (128 <=? c) && (c <=? 159)) s) eqn:E.
    - left. split; [reflexivity|]. rewrite <- E. apply f_equal2; [|reflexivity]. reflexivity.
    - right; left. split; [reflexivity|]. rewrite <- E. reflexivity.
  Qed.

  (* when a single-byte Western charset is reported it is windows-1252 exactly when a C1 byte occurs *)
  Theorem latin_split rep s :
    (from_plain rep s = b "windows-1252" -> has_c1 s = true) /\
    (from_plain rep s = b "iso-8859-1" -> has_c1 s = false).
  Proof.
    unfold Charset.from_plain. destruct s as [|c s]; [split; discriminate|].
    pose proof (from_bom_values (c :: s)) as Hv.
    destruct (from_bom spec_boms (c :: s)) as [|x cs] eqn:Eb.
    - destruct (existsb _ _ && utf8_valid _); [split; discriminate|].
      destruct (Charset.ascii _ _ _ _); [split; discriminate|].
      destruct (latin_values (c :: s)) as [[-> H]|[[-> H]| ->]]; split; intros E; try discriminate; exact H.
    - cbn [In] in Hv. split; intros E; rewrite E in Hv;
        repeat (destruct Hv as [Hv|Hv]; [discriminate|]); destruct Hv.
  Qed.
End PlainP.
