(* Byte accounting of the scanner: on success ib advanced by exactly the consumed length and the
   rest is a suffix of the input; on failure ib advanced by at most the length of the input.
   (No byte is ever counted twice.) *)
From Verif Require Import Base.Bytes Model.Json.
Local Open Scope nat_scope.

Definition sfx (r b : bytes) := exists p, b = p ++ r.
Lemma sfx_refl b : sfx b b. Proof. exists []; reflexivity. Qed.
Lemma sfx_cons c r b : sfx r b -> sfx r (c :: b). Proof. intros [p ->]; exists (c :: p); reflexivity. Qed.
Lemma sfx_trans a b c : sfx a b -> sfx b c -> sfx a c.
Proof. intros [p ->] [q ->]; exists (q ++ p); rewrite app_assoc; reflexivity. Qed.
Lemma sfx_len r b : sfx r b -> length r <= length b.
Proof. intros [p ->]; rewrite app_length; lia. Qed.

Lemma skip_space_sfx b : sfx (skip_space b) b.
Proof. induction b as [|c b IH]; simpl; [apply sfx_refl|]. destruct (is_space c); [apply sfx_cons, IH|apply sfx_refl]. Qed.
Lemma skip_digits_sfx b : sfx (skip_digits b) b.
Proof. induction b as [|c b IH]; simpl; [apply sfx_refl|]. destruct (is_digit c); [apply sfx_cons, IH|apply sfx_refl]. Qed.

Definition acct (b : bytes) (s : pst) (res : jres) : Prop :=
  match res with
  | (Some r, s') => sfx r b /\ ib s' + length r = ib s + length b
  | (None, s') => ib s <= ib s' <= ib s + length b
  end.

Lemma ib_bump k s : ib (bump k s) = ib s + k. Proof. reflexivity. Qed.
Lemma ib_set_path p s : ib (set_path p s) = ib s. Proof. reflexivity. Qed.
Lemma ib_pop s : ib (pop s) = ib s. Proof. reflexivity. Qed.
Lemma ib_see_lvl l s : ib (see_lvl l s) = ib s. Proof. reflexivity. Qed.
Lemma ib_set_complete s : ib (set_complete s) = ib s. Proof. reflexivity. Qed.
Lemma ib_set_oof s : ib (set_oof s) = ib s. Proof. reflexivity. Qed.

Lemma consume_space_acct b s : acct b s (let '(r, s') := consume_space b s in (Some r, s')).
Proof.
  unfold consume_space, acct; cbn. pose proof (skip_space_sfx b) as H. split; [exact H|].
  apply sfx_len in H. lia.
Qed.

Lemma consume_const_acct cn : forall b s, acct b s (consume_const b cn s).
Proof.
  induction cn as [|c cn IH]; intros b s; simpl.
  - unfold acct; cbn. split; [apply sfx_refl|lia].
  - destruct b as [|x b]; [unfold acct; simpl; lia|].
    destruct (N.eqb x c); [|unfold acct; simpl; lia].
    specialize (IH b (bump 1 s)). unfold acct in *. destruct (consume_const b cn (bump 1 s)) as [[r|] s'].
    + destruct IH as [H1 H2]. split; [apply sfx_cons, H1|]. rewrite ib_bump in H2. simpl. lia.
    + rewrite ib_bump in IH. simpl. lia.
Qed.

Lemma consume_string_acct : forall b h e s, acct b s (consume_string b h e s).
Proof.
  induction b as [|c b IH]; intros h e s; simpl; [unfold acct; simpl; lia|].
  assert (Hstep : forall h' e', acct (c :: b) s (consume_string b h' e' (bump 1 s))).
  { intros h' e'. specialize (IH h' e' (bump 1 s)). unfold acct in *.
    destruct (consume_string b h' e' (bump 1 s)) as [[r|] s']; rewrite ib_bump in IH; simpl.
    - destruct IH; split; [apply sfx_cons; assumption|lia].
    - lia. }
  destruct e.
  - destruct (simple_esc c); [apply Hstep|]. destruct (N.eqb c 117); [apply Hstep|unfold acct; simpl; lia].
  - destruct h as [|h].
    + destruct (N.eqb c 92); [apply Hstep|]. destruct (N.eqb c 34); [|apply Hstep].
      unfold acct; cbn. split; [apply sfx_cons, sfx_refl|lia].
    + destruct (is_xdigit c); [apply Hstep|unfold acct; simpl; lia].
Qed.

Lemma drop_opt_sfx k b : sfx (drop_opt k b) b.
Proof. destruct b as [|c b']; [apply sfx_refl|]. unfold drop_opt. destruct (N.eqb c k); [apply sfx_cons, sfx_refl|apply sfx_refl]. Qed.
Lemma drop_sign_sfx b : sfx (drop_sign b) b.
Proof. destruct b as [|c b']; [apply sfx_refl|]. unfold drop_sign. destruct (N.eqb c 43 || N.eqb c 45)%bool; [apply sfx_cons, sfx_refl|apply sfx_refl]. Qed.

Lemma consume_number_acct b s : acct b s (consume_number b s).
Proof.
  unfold consume_number.
  set (b1 := drop_opt 45%N b). assert (H1 : sfx b1 b) by apply drop_opt_sfx.
  set (b2 := skip_digits b1). assert (H2 : sfx b2 b) by (eapply sfx_trans; [apply skip_digits_sfx|exact H1]).
  set (b3 := drop_opt 46%N b2). assert (H3 : sfx b3 b) by (eapply sfx_trans; [apply drop_opt_sfx|exact H2]).
  set (b4 := skip_digits b3). assert (H4 : sfx b4 b) by (eapply sfx_trans; [apply skip_digits_sfx|exact H3]).
  set (got2 := _ || _). clearbody got2.
  pose proof (sfx_len _ _ H4) as L4.
  destruct b4 as [|c b5] eqn:E4.
  - destruct got2; unfold acct; cbn; [split; [exists b; rewrite app_nil_r; reflexivity|lia]|lia].
  - destruct (got2 && _) eqn:Eg.
    + set (b6 := drop_sign b5).
      assert (H6 : sfx b6 b) by (eapply sfx_trans; [apply drop_sign_sfx|]; eapply sfx_trans; [apply sfx_cons, sfx_refl|exact H4]).
      set (b7 := skip_digits b6). assert (H7 : sfx b7 b) by (eapply sfx_trans; [apply skip_digits_sfx|exact H6]).
      pose proof (sfx_len _ _ H7) as L7.
      destruct (negb _); unfold acct; cbn; [split; [exact H7|lia]|lia].
    + destruct got2; unfold acct; cbn; [split; [exact H4|simpl in L4; lia]|simpl in L4; lia].
Qed.

Lemma acct_cons c b s r : acct b (bump 1 s) r -> acct (c :: b) s r.
Proof. destruct r as [[r|] s2]; unfold acct; cbn; [intros [H1 H2]; split; [apply sfx_cons; assumption|lia]|lia]. Qed.

Lemma acct_sfx b' b s s' r : sfx b' b -> ib s' + length b' = ib s + length b -> acct b' s' r -> acct b s r.
Proof.
  intros Hs He. pose proof (sfx_len _ _ Hs). destruct r as [[r|] s2]; unfold acct; cbn.
  - intros [H1 H2]; split; [eapply sfx_trans; eassumption|lia].
  - lia.
Qed.

Lemma acct_none b s s' : ib s <= ib s' <= ib s + length b -> acct b s (None, s').
Proof. unfold acct; cbn; auto. Qed.

(* a wrapper that leaves the outcome and ib alone leaves the accounting alone *)
Lemma acct_same b s o s1 s2 : ib s2 = ib s1 -> acct b s (o, s1) -> acct b s (o, s2).
Proof. intros E. destruct o; unfold acct; cbn; rewrite E; auto. Qed.

Section Acct.
  Variable maxrec : nat.
  Variable qs : list query.
  Variable tk : N * N * N * N * N * N * N.

  Definition rec_ok (rec : recT) := forall w b lvl s, acct b s (rec w b lvl s).

  Lemma note_token_eq c lvl o s : exists s', note_token qs tk c lvl (o, s) = (o, s') /\ ib s' = ib s.
  Proof. unfold note_token. eexists; split; [reflexivity|]. destruct (Nat.eqb lvl 0), qs; reflexivity. Qed.

  Lemma note_value_eq qm b6 o s : exists s', note_value qm b6 (o, s) = (o, s') /\ ib s' = ib s.
  Proof.
    unfold note_value. destruct o as [b7|]; [|eauto]. destruct qm as [q|]; [|eauto].
    eexists; split; [reflexivity|]. destruct (query_hit q _); reflexivity.
  Qed.

  Lemma key_step_eq b2 o s : exists s' qm, key_step qs b2 (o, s) = ((o, s'), qm) /\ ib s' = ib s.
  Proof. unfold key_step. destruct o as [b3|]; eauto. Qed.

  Lemma after_value_acct lvl b s r : acct b s r -> acct b s (after_value lvl r).
  Proof.
    destruct r as [[b3|] s2]; unfold after_value; [|auto].
    intros [H1 H2]. pose proof (consume_space_acct b3 s2) as Hq. unfold consume_space in *. cbn in *.
    destruct Hq as [Hq1 Hq2]. unfold acct; cbn. split; [eapply sfx_trans; eassumption|].
    destruct (Nat.eqb lvl 0); cbn; lia.
  Qed.

  Lemma dispatch_acct rec c b2 lvl s1 : rec_ok rec -> acct (c :: b2) s1 (dispatch rec c (c :: b2) b2 lvl s1).
  Proof.
    intros Hr. unfold dispatch.
    destruct (N.eqb c 34); [apply acct_cons, consume_string_acct|].
    destruct (N.eqb c 91); [apply acct_cons; eapply (acct_sfx b2 b2 _ (set_path ([91%N] :: path s1) (bump 1 s1))); [apply sfx_refl|reflexivity|apply Hr]|].
    destruct (N.eqb c 123); [apply acct_cons, Hr|].
    destruct (N.eqb c 116); [apply consume_const_acct|].
    destruct (N.eqb c 102); [apply consume_const_acct|].
    destruct (N.eqb c 110); [apply consume_const_acct|].
    apply consume_number_acct.
  Qed.

  Ltac after_space b s :=
    let Hs1 := fresh "Hs1" in let Hs2 := fresh "Hs2" in
    pose proof (consume_space_acct b s) as [Hs1 Hs2]; unfold consume_space in *; cbn in Hs1, Hs2 |- *.

  Lemma any_body_acct rec b lvl s : rec_ok rec -> acct b s (any_body maxrec qs tk rec b lvl s).
  Proof.
    intros Hr. unfold any_body. destruct (negb (Nat.eqb maxrec 0) && Nat.ltb maxrec lvl); [apply acct_none; lia|].
    after_space b (see_lvl lvl s). pose proof (sfx_len _ _ Hs1).
    destruct (skip_space b) as [|c b2] eqn:E; [apply acct_none; cbn in *; lia|].
    pose proof (dispatch_acct rec c b2 lvl (bump (length b - length (c :: b2)) (see_lvl lvl s)) Hr) as Hd.
    destruct (dispatch rec c (c :: b2) b2 lvl _) as [o sd].
    destruct (note_token_eq c lvl o sd) as (sn & -> & Hn).
    eapply acct_sfx; [exact Hs1| |apply after_value_acct; eapply acct_same; [exact Hn|exact Hd]]. cbn in *; lia.
  Qed.

  Lemma arr_sep_acct rec lvl b s r : rec_ok rec -> acct b s r -> acct b s (arr_sep rec lvl r).
  Proof.
    intros Hr. destruct r as [[b3|] s2]; unfold arr_sep; [|auto].
    intros [H1 H2]. pose proof (sfx_len _ _ H1).
    destruct b3 as [|d b4]; [apply acct_none; cbn in *; lia|].
    destruct (N.eqb d 44).
    { eapply acct_sfx; [exact H1| |apply acct_cons, Hr]; cbn in *; lia. }
    destruct (N.eqb d 93); [|apply acct_none; cbn in *; lia].
    unfold acct; cbn in *. split; [eapply sfx_trans; [apply sfx_cons, sfx_refl|exact H1]|lia].
  Qed.

  Lemma arr_body_acct rec b lvl s : rec_ok rec -> acct b s (arr_body rec b lvl s).
  Proof.
    intros Hr. unfold arr_body. after_space b s. pose proof (sfx_len _ _ Hs1).
    destruct (skip_space b) as [|c b2] eqn:E; [apply acct_none; cbn in *; lia|].
    destruct (N.eqb c 93).
    { unfold acct; cbn in *. split; [eapply sfx_trans; [apply sfx_cons, sfx_refl|exact Hs1]|lia]. }
    eapply acct_sfx; [exact Hs1| |apply arr_sep_acct; [exact Hr|apply Hr]]; cbn in *; lia.
  Qed.

  Lemma obj_sep_acct rec lvl b s r : rec_ok rec -> acct b s r -> acct b s (obj_sep rec lvl r).
  Proof.
    intros Hr. destruct r as [[b3|] s2]; unfold obj_sep; [|auto].
    intros [H1 H2]. pose proof (sfx_len _ _ H1).
    destruct b3 as [|d b4]; [apply acct_none; cbn in *; lia|].
    destruct (N.eqb d 44).
    { eapply acct_sfx; [exact H1| |apply acct_cons, Hr]; cbn in *; lia. }
    destruct (N.eqb d 125); [|apply acct_none; cbn in *; lia].
    unfold acct; cbn in *. split; [eapply sfx_trans; [apply sfx_cons, sfx_refl|exact H1]|lia].
  Qed.

  Lemma obj_value_acct rec lvl qm b s r : rec_ok rec -> acct b s r -> acct b s (obj_value rec lvl qm r).
  Proof.
    intros Hr. destruct r as [[b3|] s2]; unfold obj_value; [|auto].
    intros [H1 H2]. pose proof (sfx_len _ _ H1).
    after_space b3 s2. pose proof (sfx_len _ _ Hs1).
    destruct (skip_space b3) as [|d b5] eqn:E; [apply acct_none; cbn in *; lia|].
    destruct (negb (N.eqb d 58)); [apply acct_none; cbn in *; lia|].
    after_space b5 (bump 1 (bump (length b3 - length (d :: b5)) s2)). pose proof (sfx_len _ _ Hs0).
    destruct (skip_space b5) as [|e b7] eqn:E2; [apply acct_none; cbn in *; lia|].
    set (s4 := bump _ (bump 1 _)).
    pose proof (Hr WAny (e :: b7) lvl s4) as Hv.
    destruct (rec WAny (e :: b7) lvl s4) as [o sv].
    destruct (note_value_eq qm (e :: b7) o sv) as (sn & -> & Hn).
    eapply acct_sfx; [| |apply obj_sep_acct; [exact Hr|eapply acct_same; [exact Hn|exact Hv]]].
    - eapply sfx_trans; [exact Hs0|]. eapply sfx_trans; [apply sfx_cons, sfx_refl|]. eapply sfx_trans; [exact Hs1|exact H1].
    - subst s4. cbn in *. lia.
  Qed.

  Lemma obj_body_acct rec b lvl s : rec_ok rec -> acct b s (obj_body qs rec b lvl s).
  Proof.
    intros Hr. unfold obj_body. after_space b s. pose proof (sfx_len _ _ Hs1).
    destruct (skip_space b) as [|c b2] eqn:E; [apply acct_none; cbn in *; lia|].
    destruct (N.eqb c 125).
    { unfold acct; cbn in *. split; [eapply sfx_trans; [apply sfx_cons, sfx_refl|exact Hs1]|lia]. }
    destruct (negb (N.eqb c 34)); [apply acct_none; cbn in *; lia|].
    set (s1 := bump 1 _).
    pose proof (consume_string_acct b2 0 false s1) as Hk.
    destruct (consume_string b2 0 false s1) as [o sk].
    destruct (key_step_eq b2 o sk) as (sn & qm & -> & Hn).
    eapply acct_sfx; [exact Hs1| |apply obj_value_acct; [exact Hr|apply acct_cons; eapply acct_same; [exact Hn|exact Hk]]].
    cbn in *; lia.
  Qed.

  Lemma go_acct : forall fuel, rec_ok (go maxrec qs tk fuel).
  Proof.
    induction fuel as [|f IH]; intros w b lvl s; [apply acct_none; cbn; lia|].
    destruct w; cbn [go]; [apply any_body_acct|apply arr_body_acct|apply obj_body_acct]; exact IH.
  Qed.
End Acct.
