(* C01: vintWidth, isFileTypeNamePresent, isMatroskaFileTypeMatched, Mkv, WebM as translated from the source.
   Re-checked on every run against the freshly translated definitions of Gen/SrcFuncs.v (translator harness/gores.go):
   an edit of the Go function that changes what it computes, or adds a run-time check that can fail, breaks the lemma. *)
From Coq Require Import Lia.
From Verif Require Import Base.Bytes Model.GoLite Model.Zip Model.Ole Model.Mkv Model.Tar Model.Checked Model.GoRes Model.Detect
  Gen.SrcFuncs Proofs.BytesP Proofs.GoLiteP Proofs.CheckedP Proofs.TranslateP Proofs.SrcBaseP.
Local Open Scope Z_scope.

(* ---- Matroska ---- *)
Definition vint_ok_b (n : nat) : bool :=
  match src_vintWidth (Z.of_nat n) with Val w => Z.eqb w (Z.of_nat (vint_width (N.of_nat n))) | Panic => false end.
Lemma vint_all : forallb vint_ok_b (seq 0 256) = true. Proof. vm_compute. reflexivity. Qed.
Lemma src_vintWidth_ok c : (c < 256)%N -> src_vintWidth (Z.of_N c) = Val (Z.of_nat (vint_width c)).
Proof.
  intros H. pose proof vint_all as A. rewrite forallb_forall in A. specialize (A (N.to_nat c)).
  assert (Hin : In (N.to_nat c) (seq 0 256)) by (apply in_seq; lia). specialize (A Hin). unfold vint_ok_b in A.
  rewrite N_nat_Z, N2Nat.id in A. destruct (src_vintWidth (Z.of_N c)) as [w|]; [|discriminate].
  apply Z.eqb_eq in A. rewrite A. reflexivity.
Qed.

Lemma bytes_ok_nthb l i : bytes_ok l = true -> (nthb l i < 256)%N.
Proof.
  unfold bytes_ok, nthb. revert i. induction l as [|c l IH]; intros i H; [destruct i; reflexivity|].
  cbn [forallb] in H. apply andb_prop in H. destruct H as [Hc Hl]. destruct i as [|i]; [apply N.ltb_lt; exact Hc|]. apply IH. exact Hl.
Qed.

Theorem src_isFileTypeNamePresent_ok inp fl : bytes_ok inp = true ->
  has_prefix ebml inp = true -> src_isFileTypeNamePresent inp fl = Val (matroska inp fl).
Proof.
  intros Hok He. unfold src_isFileTypeNamePresent, matroska. cbv beta zeta. rewrite He. cbn [negb].
  assert (Hmin : (if zlen inp <? 4096 then zlen inp else 4096) = Z.of_nat (Nat.min 4096 (length inp))).
  { unfold zlen. destruct (Z.ltb_spec (Z.of_nat (length inp)) 4096); lia. }
  rewrite Hmin. rewrite zto_val by (unfold zlen; lia). cbn [rbind]. rewrite Znat.Nat2Z.id. unfold zindex.
  destruct (index_of [66; 130]%N (firstn (Nat.min 4096 (length inp)) inp)) as [[|i0]|]; try reflexivity.
  replace (0 <? Z.of_nat (S i0)) with true by (symmetry; apply Z.ltb_lt; lia). cbn [andb].
  destruct (Z.ltb_spec (Z.of_nat (S i0) + 2) (zlen inp)) as [H|H], (Nat.ltb_spec (S i0 + 2) (length inp)) as [H'|H']; unfold zlen in *; try lia; [|reflexivity].
  rewrite zget_val by (unfold zlen; lia). cbn [rbind]. replace (Z.to_nat (Z.of_nat (S i0) + 2)) with (S i0 + 2)%nat by lia.
  rewrite src_vintWidth_ok by (apply bytes_ok_nthb; exact Hok). cbn [rbind].
  set (n := vint_width (nthb inp (S i0 + 2))).
  destruct (Z.ltb_spec (Z.of_nat (S i0) + 2 + Z.of_nat n) (Z.of_nat (length inp))) as [Hn|Hn], (Nat.ltb_spec (S i0 + 2 + n) (length inp)) as [Hn'|Hn']; try lia; [|reflexivity].
  rewrite zfrom_val by (unfold zlen; lia). cbn [rbind]. replace (Z.to_nat (Z.of_nat (S i0) + 2 + Z.of_nat n)) with (S i0 + 2 + n)%nat by lia. reflexivity.
Qed.

Theorem src_isMatroskaFileTypeMatched_ok inp fl : bytes_ok inp = true ->
  src_isMatroskaFileTypeMatched inp fl = Val (matroska inp fl).
Proof.
  intros Hok. unfold src_isMatroskaFileTypeMatched. change [26; 69; 223; 163]%N with ebml.
  destruct (has_prefix ebml inp) eqn:He; [apply src_isFileTypeNamePresent_ok; assumption|].
  unfold matroska. rewrite He. reflexivity.
Qed.
Theorem src_Mkv_ok raw l : bytes_ok raw = true -> src_Mkv raw l = Val (mkv_det raw).
Proof. intros H. apply src_isMatroskaFileTypeMatched_ok. exact H. Qed.
Theorem src_WebM_ok raw l : bytes_ok raw = true -> src_WebM raw l = Val (webm_det raw).
Proof. intros H. apply src_isMatroskaFileTypeMatched_ok. exact H. Qed.

