(* C19: the first-entry theorems of the zip family. *)
From Verif Require Import Base.Bytes Model.GoLite Model.Zip Proofs.BytesP Proofs.GoLiteP.
Local Open Scope nat_scope.

Lemma skipn_app_exact {A} (p r : list A) : skipn (length p) (p ++ r) = r.
Proof. induction p; [reflexivity|cbn; assumption]. Qed.

(* a signature that is a prefix of the first entry's name (which starts at offset 30) is found at once *)
Theorem zc_first_entry skip hdr name rest sig mso :
  length hdr = 30 -> has_prefix sig name = true -> zip_contains skip (hdr ++ name ++ rest) sig mso = true.
Proof.
  intros Hl Hp. unfold zip_contains. rewrite app_length, Hl.
  destruct (Nat.ltb_spec (30 + length (name ++ rest)) 30); [lia|].
  replace 30 with (length hdr) at 1 by exact Hl. rewrite skipn_app_exact.
  rewrite has_prefix_app by exact Hp. reflexivity.
Qed.

(* offset-30 detectors (OpenDocument, EPUB): the stored `mimetype` entry's name is directly followed by its content *)
Theorem offset30_first_entry hdr sig rest :
  length hdr = 30 -> sig <> [] -> evalp (offset_term sig 30) (hdr ++ sig ++ rest) = Val true.
Proof.
  intros Hl Hne. unfold offset_term. rewrite evalp_ret, evalb_and. cbn [evalb].
  rewrite !app_length, Hl. unfold cmpnat.
  destruct (Nat.ltb_spec 30 (30 + (length sig + length rest))) as [_|H]; [|destruct sig; [congruence|cbn in H; lia]].
  unfold from. rewrite !app_length, Hl.
  destruct (Nat.leb_spec 30 (30 + (length sig + length rest))); [|lia].
  replace 30 with (length hdr) at 1 by exact Hl. rewrite skipn_app_exact. rewrite has_prefix_refl_app. reflexivity.
Qed.
