(* C10, truncated mode: when the header is cut anywhere behind the value of a top-level member whose status is a
   hit, the sub-type detector still accepts - whatever members precede it, whatever follows the cut. *)
From Coq Require Import Lia.
From Verif Require Import Base.Bytes Model.Json Spec.JsonGrammar Spec.JsonGrammar8259 Spec.JsonQuery
  Proofs.BytesP Proofs.JsonAcct Proofs.JsonSound Proofs.JsonComplete Proofs.JsonOnline Proofs.JsonTrunc
  Proofs.JsonPath Proofs.JsonQueryP Proofs.JsonQsatMono.
Local Open Scope N_scope.

(* a member up to the end of its value *)
Definition member_text (m : member) : bytes :=
  m_w m ++ 34 :: (m_key m ++ [34]) ++ m_w1 m ++ 58 :: m_w2 m ++ m_val m.
(* complete members, each followed by its trailing layout and a comma *)
Fixpoint members_comma (ms : list member) : bytes :=
  match ms with [] => [] | m :: ms' => member_text m ++ m_w3 m ++ 44 :: members_comma ms' end.

Lemma member_text_shape m tl :
  member_text m ++ tl = m_w m ++ 34 :: (m_key m ++ [34]) ++ m_w1 m ++ 58 :: m_w2 m ++ m_val m ++ tl.
Proof. unfold member_text. repeat (rewrite <- app_assoc; cbn [app]). reflexivity. Qed.

Section Trunc.
  Variable maxrec : nat.
  Variable qs : list query.
  Variable tk : N * N * N * N * N * N * N.
  Hypothesis Hqs : qs <> [].
  Notation go := (go maxrec qs tk).

  (* an object tail that starts with complete members ms1 and then holds member m up to some point behind its
     value: querySatisfied is set as soon as m has been scanned, and stays set *)
  Lemma tail_prefix_qsat P d m w3' r : member_ok qs P d m -> member_status qs P m = true -> WS w3' -> sep r ->
    forall ms1, Forall (member_ok qs P d) ms1 ->
    forall fuel lvl s, (lvl + d <= maxrec)%nat -> path s = P ->
      (2 * length (members_comma ms1 ++ member_text m ++ w3' ++ r) + 2 <= fuel)%nat ->
      qsat (snd (go fuel WObj (members_comma ms1 ++ member_text m ++ w3' ++ r) lvl s)) = true.
  Proof.
    intros (Hw & Hk & Hw1 & Hw2 & _ & d1 & Hle & Hq) Hst Hw3' Hr.
    induction ms1 as [|m1 ms1 IH]; intros Hall fuel lvl s Hl Hp Hf; (destruct fuel as [|f]; [lia|]); cbn [Json.go].
    - cbn [members_comma app] in Hf |- *. rewrite member_text_shape in Hf |- *.
      destruct (member_run maxrec qs tk P d d1 (m_key m) (m_val m) (m_hit m) f (m_w m) (m_w1 m) (m_w2 m) w3' r lvl s
                  (proj1 (q_all maxrec qs tk Hqs) _ _ _ _ Hq) (proj1 (Q_erase qs) _ _ _ _ Hq) Hle Hw Hk Hw1 Hw2 Hw3' Hr Hl) as (s6 & -> & Hq6 & _);
        [lia|exact Hp|].
      apply obj_sep_mono; [apply go_mono|]. cbn [snd]. rewrite Hq6. unfold member_status in Hst. rewrite Hst. apply orb_true_r.
    - apply Forall_cons_iff in Hall as [(Hw' & Hk' & Hw1' & Hw2' & Hw3'' & d1' & Hle' & Hq') Hrest].
      cbn [members_comma] in Hf |- *. rewrite <- !app_assoc in Hf |- *. cbn [app] in Hf |- *. rewrite (member_text_shape m1) in Hf |- *.
      set (tl := members_comma ms1 ++ member_text m ++ w3' ++ r) in *.
      destruct (member_run maxrec qs tk P d d1' (m_key m1) (m_val m1) (m_hit m1) f (m_w m1) (m_w1 m1) (m_w2 m1) (m_w3 m1) (44 :: tl) lvl s
                  (proj1 (q_all maxrec qs tk Hqs) _ _ _ _ Hq') (proj1 (Q_erase qs) _ _ _ _ Hq') Hle' Hw' Hk' Hw1' Hw2' Hw3'' (or_introl eq_refl) Hl) as (s6 & -> & _ & Hp6);
        [lia|exact Hp|].
      unfold obj_sep. cbn [N.eqb Pos.eqb].
      apply IH; [exact Hrest|exact Hl|cbn; rewrite Hp6; reflexivity|].
      repeat (rewrite app_length in Hf; cbn [length] in Hf). lia.
  Qed.

  Variable want : N.
  Hypothesis Hobj : N.land (tok_of tk 123) want <> 0.

  (* the detector on a cut header: p is a prefix of an object document (so every byte of p is inspected) and has
     the shape  ws { complete-members  deciding-member-through-its-value  ws  rest-of-the-cut *)
  Theorem json_query_trunc d0 raw q w ms1 m w3' r d limit :
    SDoc d0 raw -> (d0 <= maxrec)%nat -> (S d <= maxrec)%nat ->
    let p := w ++ 123 :: members_comma ms1 ++ member_text m ++ w3' ++ r in
    raw = p ++ q ->
    WS w -> Forall (member_ok qs [] d) ms1 -> member_ok qs [] d m -> member_status qs [] m = true -> WS w3' -> sep r ->
    limit <> 0 -> limit <= N.of_nat (length p) ->
    json_helper maxrec tk qs want p limit = true.
  Proof.
    intros Hdoc Hd0 Hd p Hsplit Hw Hms1 Hm Hst Hw3' Hr Hl0 Hlim.
    (* every byte of the cut is inspected: the whole document is scanned to completion under the same table *)
    destruct Hdoc as (w0 & v & w2 & Eraw & Hw0 & Hw2 & Hv & _).
    destruct (proj1 (Q_total qs) d0 v Hv []) as (h & Hqv).
    destruct (proj1 (q_all maxrec qs tk Hqs) [] d0 v h Hqv (fuel_for raw) w0 w2 [] 0%nat init_st Hw0 Hw2 I) as (s' & Hgo & _).
    { lia. } { unfold fuel_for. rewrite app_nil_r, <- Eraw. lia. } { reflexivity. }
    rewrite app_nil_r, <- Eraw, Hsplit in Hgo.
    pose proof (scan_online maxrec qs tk _ p q 0%nat init_st s' Hgo) as Hib.
    assert (Hlen : (length p <= length raw)%nat) by (rewrite Hsplit, app_length; lia).
    rewrite <- Hsplit in Hib.
    rewrite (go_fuel maxrec qs tk (fuel_for raw) (fuel_for p) WAny p 0%nat init_st) in Hib by (unfold need, fuel_for; lia).
    (* first token, and the query flag set by the deciding member *)
    assert (Esk : skip_space p = 123 :: members_comma ms1 ++ member_text m ++ w3' ++ r) by (unfold p; apply skip_space_ws_app; [exact Hw|reflexivity]).
    assert (Hft : ftok (snd (go (fuel_for p) WAny p 0%nat init_st)) = tok_of tk 123).
    { unfold fuel_for. cbn [Json.go].
      assert (Hg : negb (Nat.eqb maxrec 0) && Nat.ltb maxrec 0 = false) by (apply andb_false_iff; right; apply Nat.ltb_ge; lia).
      exact (proj1 (any_body_flags maxrec qs tk _ p 123 _ init_st Esk Hg)). }
    assert (Hqsat : qsat (snd (go (fuel_for p) WAny p 0%nat init_st)) = true).
    { unfold fuel_for. cbn [Json.go]. unfold any_body.
      replace (negb (Nat.eqb maxrec 0) && Nat.ltb maxrec 0) with false by (symmetry; apply andb_false_iff; right; apply Nat.ltb_ge; lia).
      rewrite consume_space_eq, Esk. unfold dispatch. cbn [N.eqb Pos.eqb].
      apply mono_after_value, mono_note_token.
      match goal with |- context [obj_body qs (Json.go maxrec qs tk ?f) ?b ?l ?st] =>
        change (obj_body qs (Json.go maxrec qs tk f) b l st) with (Json.go maxrec qs tk (S f) WObj b l st) end.
      apply (tail_prefix_qsat [] d m w3' r Hm Hst Hw3' Hr ms1 Hms1); [lia|reflexivity|].
      unfold p. repeat (rewrite app_length; cbn [length]). lia. }
    unfold json_helper.
    assert (Hlook : looks_like_obj_or_arr p = true) by (unfold looks_like_obj_or_arr; rewrite Esk; reflexivity).
    rewrite Hlook. cbn [negb]. unfold parse.
    destruct (go (fuel_for p) WAny p 0%nat init_st) as [o sp]. cbn [snd] in *.
    cbn [p_qsat p_ftok p_parsed p_inspected]. rewrite Hqsat, Hft. cbn [negb orb].
    replace (N.land (tok_of tk 123) want =? 0) with false by (symmetry; apply N.eqb_neq, Hobj).
    replace ((limit =? 0) || (N.of_nat (length p) <? limit)) with false
      by (symmetry; apply orb_false_iff; split; [apply N.eqb_neq, Hl0|apply N.ltb_ge, Hlim]).
    rewrite Hib. cbn [init_st ib Nat.add]. rewrite Nat.eqb_refl. cbn [andb].
    destruct p; [discriminate Hlook|reflexivity].
  Qed.
End Trunc.
