(* C01: matchOleClsid, Doc, Xls, Ppt, Pub, Msg, Msi as translated from the source never reach Panic and compute the total models.
   Re-checked on every run against the freshly translated definitions of Gen/SrcFuncs.v (translator harness/gores.go):
   an edit of the Go function that changes what it computes, or adds a run-time check that can fail, breaks the lemma. *)
From Coq Require Import Lia.
From Verif Require Import Base.Bytes Model.GoLite Model.Zip Model.Ole Model.Mkv Model.Tar Model.Checked Model.GoRes Model.Detect
  Gen.SrcFuncs Proofs.BytesP Proofs.GoLiteP Proofs.CheckedP Proofs.TranslateP Proofs.SrcBaseP.
Local Open Scope Z_scope.

(* ---- matchOleClsid and the OLE family ---- *)
Theorem src_matchOleClsid_ok inp clsid : src_matchOleClsid inp clsid = Val (match_ole_clsid inp clsid).
Proof.
  unfold src_matchOleClsid, match_ole_clsid. cbv zeta.
  destruct (Z.ltb_spec (zlen inp) 512) as [Hlt|Hge], (Nat.ltb_spec (length inp) 512) as [Hlt'|Hge']; unfold zlen in *; try lia; [reflexivity|].
  rewrite zget_val by (unfold zlen; lia). cbn [rbind]. change (Z.to_nat 26) with 26%nat. change 4 with (Z.of_N 4) at 1. rewrite zeqb_N.
  assert (Hsec : forall (A : Type) (k : bool -> res A),
    (t3 <- (if (nthb inp 26 =? 4)%N then (t2 <- zget inp 27 ;; Val (t2 =? 0)) else Val false) ;; k t3)
    = k ((nthb inp 26 =? 4)%N && (nthb inp 27 =? 0)%N)).
  { intros A k. destruct (nthb inp 26 =? 4)%N; [|reflexivity]. rewrite zget_val by (unfold zlen; lia). cbn [rbind andb].
    change (Z.to_nat 27) with 27%nat. change 0 with (Z.of_N 0) at 1. rewrite zeqb_N. reflexivity. }
  rewrite Hsec. clear Hsec.
  rewrite zslice_val by (unfold zlen; lia). cbn [rbind]. change (Z.to_nat (52 - 48)) with 4%nat. change (Z.to_nat 48) with 48%nat.
  rewrite zu32le_val by (rewrite zlen_firstn, skipn_length; lia). cbn [rbind]. rewrite u32le_firstn4.
  set (sec := (nthb inp 26 =? 4)%N && (nthb inp 27 =? 0)%N).
  set (first := u32le (skipn 48 inp)).
  assert (Hoff : (if sec then 4096 else 512) * (1 + Z.of_N first) + 80
                 = Z.of_N ((if sec then 4096 else 512) * (1 + first) + 80)%N) by (destruct sec; lia).
  rewrite Hoff. set (off := ((if sec then 4096 else 512) * (1 + first) + 80)%N).
  destruct (Z.leb_spec (Z.of_nat (length inp)) (Z.of_N off + 16)) as [H|H], (N.leb_spec (N.of_nat (length inp)) (off + 16)) as [H'|H']; try lia; [reflexivity|].
  rewrite zfrom_val by (unfold zlen; lia). cbn [rbind]. replace (Z.to_nat (Z.of_N off)) with (N.to_nat off) by lia. reflexivity.
Qed.

Theorem src_Pub_ok raw l : src_Pub raw l = Val (pub_det raw). Proof. apply src_matchOleClsid_ok. Qed.
Theorem src_Msg_ok raw l : src_Msg raw l = Val (msg_det raw). Proof. apply src_matchOleClsid_ok. Qed.
Theorem src_Msi_ok raw l : src_Msi raw l = Val (msi_det raw). Proof. apply src_matchOleClsid_ok. Qed.

Theorem src_Doc_ok raw l : src_Doc raw l = Val (doc_det raw).
Proof.
  unfold src_Doc, doc_det. cbv zeta. rewrite !src_matchOleClsid_ok. cbn [rbind existsb].
  repeat (match goal with |- context [match_ole_clsid raw ?c] => destruct (match_ole_clsid raw c) end; cbn [orb]; try reflexivity).
Qed.

Lemma win1152_src raw lit :
  (if 1152 <? zlen raw then (t <- zslice raw 1152 (Z.min 4096 (zlen raw)) ;; Val (contains lit t)) else Val false)
  = Val (win1152 raw lit).
Proof.
  unfold win1152, zlen. destruct (Z.ltb_spec 1152 (Z.of_nat (length raw))) as [H|H], (Nat.ltb_spec 1152 (length raw)) as [H'|H']; try lia; [|reflexivity].
  rewrite zslice_val by (unfold zlen; lia). cbn [rbind andb]. change (Z.to_nat 1152) with 1152%nat.
  replace (Z.to_nat (Z.min 4096 (Z.of_nat (length raw)) - 1152)) with (Nat.min 4096 (length raw) - 1152)%nat by lia. reflexivity.
Qed.

Theorem src_Xls_ok raw l : src_Xls raw l = Val (xls_det raw).
Proof.
  unfold src_Xls, xls_det. cbv zeta. rewrite !src_matchOleClsid_ok. cbn [rbind].
  destruct (match_ole_clsid raw [16; 8; 2; 0; 0; 0; 0; 0]%N); cbn [rbind orb]; [reflexivity|].
  rewrite ?src_matchOleClsid_ok. cbn [rbind]. destruct (match_ole_clsid raw _); [reflexivity|].
  destruct (Z.ltb_spec (zlen raw) 520) as [Hlt|Hge], (Nat.ltb_spec (length raw) 520) as [Hlt'|Hge']; unfold zlen in *; try lia; [reflexivity|].
  fold (zlen raw). assert (Hz : zfrom raw 512 = Val (skipn 512 raw)) by (apply zfrom_val; unfold zlen; lia).
  unfold at512. cbn [existsb].
  repeat (rewrite ?Hz; cbn [rbind]; destruct (has_prefix _ (skipn 512 raw)); cbn [orb]; [reflexivity|]).
  rewrite win1152_src. reflexivity.
Qed.

Theorem src_Ppt_ok raw l : src_Ppt raw l = Val (ppt_det raw).
Proof.
  unfold src_Ppt, ppt_det. cbv zeta. rewrite !src_matchOleClsid_ok. cbn [rbind].
  destruct (match_ole_clsid raw [16; 141; 129; 100; 155; 79; 207; 17; 134; 234; 0; 170; 0; 185; 41; 232]%N); cbn [rbind orb]; [reflexivity|].
  rewrite ?src_matchOleClsid_ok. cbn [rbind]. destruct (match_ole_clsid raw _); [reflexivity|].
  destruct (Z.ltb_spec (zlen raw) 520) as [Hlt|Hge], (Nat.ltb_spec (length raw) 520) as [Hlt'|Hge']; unfold zlen in *; try lia; [reflexivity|].
  fold (zlen raw). assert (Hz : zfrom raw 512 = Val (skipn 512 raw)) by (apply zfrom_val; unfold zlen; lia).
  unfold at512. cbn [existsb].
  do 3 (rewrite ?Hz; cbn [rbind]; destruct (has_prefix _ (skipn 512 raw)); cbn [orb]; [reflexivity|]).
  rewrite ?Hz. cbn [rbind]. destruct (has_prefix _ (skipn 512 raw)); cbn [andb rbind]; [|rewrite win1152_src; reflexivity].
  rewrite zget_val by (unfold zlen; lia). cbn [rbind]. change (Z.to_nat 518) with 518%nat. change 0 with (Z.of_N 0) at 1. rewrite zeqb_N.
  destruct (nthb raw 518 =? 0)%N; cbn [andb rbind]; [|rewrite win1152_src; reflexivity].
  rewrite zget_val by (unfold zlen; lia). cbn [rbind]. change (Z.to_nat 519) with 519%nat. change 0 with (Z.of_N 0) at 1. rewrite zeqb_N.
  destruct (nthb raw 519 =? 0)%N; cbn [andb rbind]; [reflexivity|rewrite win1152_src; reflexivity].
Qed.

