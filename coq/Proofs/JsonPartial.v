(* Truncated-mode direction (C09): a failed scan that inspected ALL of its input stopped on a prefix
   of a word of the language: explicit completions are given. *)
From Verif Require Import Base.Bytes Model.Json Spec.JsonGrammar Proofs.JsonAcct Proofs.JsonSound.
Local Open Scope N_scope.

Lemma xd0 : is_xdigit 48 = true. Proof. reflexivity. Qed.
Lemma RStr_q : RStr [34]. Proof. constructor. Qed.

(* ---- strings ---- *)
Lemma consume_string_partial : forall b h e s s', consume_string b h e s = (None, s') ->
  (ib s' = ib s + length b)%nat -> Partial (RStrFrom h e) b.
Proof.
  induction b as [|c b IH]; intros h e s s' H Hib; cbn [consume_string] in H.
  - (* end of input: complete from the automaton state *)
    destruct e.
    + exists [110; 34]. left. exists 110, [34]; repeat split; auto. constructor.
    + exists (repeat 48 h ++ [34]). exists (repeat 48 h), [34]; repeat split; auto.
      * apply repeat_length.
      * apply Forall_forall. intros x Hx. apply repeat_spec in Hx; subst; reflexivity.
      * constructor.
  - assert (Hgo : forall h' e', consume_string b h' e' (bump 1 s) = (None, s') -> Partial (RStrFrom h' e') b).
    { intros h' e' H'. apply (IH h' e' (bump 1 s) s' H'). cbn [length] in Hib. rewrite ib_bump. lia. }
    assert (Hhard : (@None (bytes), s) = (None, s') -> False).
    { intros E; inversion E; subst. cbn [length] in Hib. lia. }
    destruct e.
    + destruct (simple_esc c) eqn:Es in H.
      * apply Hgo in H as (ext & hs & t & Hx & Hl & _ & Ht). destruct hs; [|discriminate]. cbn in Hx.
        exists ext. left. exists c, t; repeat split; auto. cbn. f_equal. exact Hx.
      * destruct (c =? 117) eqn:Eu in H; [|exfalso; auto]. apply N.eqb_eq in Eu; subst c.
        apply Hgo in H as (ext & hs & t & Hx & Hl & Hh & Ht).
        destruct hs as [|h1 [|h2 [|h3 [|h4 [|]]]]]; try discriminate.
        inversion Hh as [|? ? X1 Hh1]; inversion Hh1 as [|? ? X2 Hh2]; inversion Hh2 as [|? ? X3 Hh3]; inversion Hh3 as [|? ? X4 _]; subst.
        exists ext. right. exists h1, h2, h3, h4, t; repeat split; auto. cbn. f_equal. exact Hx.
    + destruct h as [|h].
      * destruct (c =? 92) eqn:Eb in H.
        -- apply N.eqb_eq in Eb; subst c. apply Hgo in H as (ext & Hx). exists ext. exists [], (92 :: b ++ ext); repeat split; auto.
           destruct Hx as [(c & t & -> & Hc & Ht)|(h1 & h2 & h3 & h4 & t & -> & H1 & H2 & H3 & H4 & Ht)]; [apply RS_esc|apply RS_uni]; auto.
        -- destruct (c =? 34) eqn:Eq in H; [discriminate|].
           apply Hgo in H as (ext & hs & t & Hx & Hl & _ & Ht). destruct hs; [|discriminate]. cbn in Hx.
           exists ext. exists [], (c :: b ++ ext); repeat split; auto. rewrite Hx. apply RS_char; auto; intros ->; discriminate.
      * destruct (is_xdigit c) eqn:Ex in H; [|exfalso; auto].
        apply Hgo in H as (ext & hs & t & Hx & Hl & Hh & Ht).
        exists ext. exists (c :: hs), t; repeat split; auto; [cbn; f_equal; exact Hx|cbn; lia].
Qed.

Lemma consume_string_partial0 b s s' : consume_string b 0 false s = (None, s') -> (ib s' = ib s + length b)%nat -> Partial RStr b.
Proof. intros H Hib. destruct (consume_string_partial _ _ _ _ _ H Hib) as (ext & hs & t & Hx & Hl & _ & Ht).
  destruct hs; [|discriminate]. exists ext. cbn in Hx. rewrite Hx. exact Ht. Qed.

(* ---- constants ---- *)
Lemma consume_const_partial cn : forall b s s', consume_const b cn s = (None, s') -> (ib s' = ib s + length b)%nat ->
  exists ext, b ++ ext = cn.
Proof.
  induction cn as [|c cn IH]; intros b s s' H Hib; cbn [consume_const] in H; [discriminate|].
  destruct b as [|x b]; [exists (c :: cn); reflexivity|].
  destruct (x =? c) eqn:E.
  - apply N.eqb_eq in E; subst. apply IH in H as (ext & <-); [exists ext; reflexivity|]. rewrite ib_bump. cbn [length] in Hib. lia.
  - inversion H; subst. cbn [length] in Hib. lia.
Qed.

(* ---- numbers: appending "0" completes every number cut at end of input ---- *)
Lemma Digits_0 : Digits [48]. Proof. repeat constructor. Qed.

Lemma consume_number_partial b s s' : consume_number b s = (None, s') -> (ib s' = ib s + length b)%nat -> Partial RNum b.
Proof.
  unfold consume_number.
  destruct (opt_split 45 b) as (sg & Hb & Hsg). set (b1 := drop_opt 45 b) in *.
  destruct (skip_digits_split b1) as (i & Hb1 & Hi). set (b2 := skip_digits b1) in *.
  destruct (opt_split 46 b2) as (dot & Hb2 & Hdot). set (b3 := drop_opt 46 b2) in *.
  destruct (skip_digits_split b3) as (f & Hb3 & Hf). set (b4 := skip_digits b3) in *.
  set (got2 := _ || _).
  assert (Hgot : got2 = true -> i ++ f <> []).
  { subst got2. intros Hg. apply orb_true_iff in Hg as [Hg|Hg].
    - apply (len_app_diff _ _ _ Hb1) in Hg. destruct i; [congruence|discriminate].
    - apply (len_app_diff _ _ _ Hb3) in Hg. destruct f; [congruence|]. destruct i; discriminate. }
  clearbody got2.
  assert (Hall : b = sg ++ i ++ dot ++ f ++ b4) by (rewrite <- Hb3, <- Hb2, <- Hb1; exact Hb).
  assert (Hlen : (length b4 <= length b)%nat) by (rewrite Hall at 1; rewrite !app_length; lia).
  clearbody b1 b2 b3. destruct b4 as [|c b5] eqn:E4.
  - destruct got2; [discriminate|]. intros _ _. exists [48]. rewrite Hall at 1. rewrite app_nil_r.
    exists sg, i, dot, (f ++ [48]), []. rewrite app_nil_r, <- ?app_assoc. repeat split; auto.
    + apply Forall_app; split; [exact Hf|apply Digits_0].
    + intros E. apply app_eq_nil in E as [_ E]. apply app_eq_nil in E as [_ E]. discriminate.
    + left; reflexivity.
  - destruct (got2 && _) eqn:Eg.
    + apply andb_true_iff in Eg as [Eg Ec]. subst got2. specialize (Hgot eq_refl).
      destruct (sign_split b5) as (sgn & Hb5 & Hsgn). set (b6 := drop_sign b5) in *. clearbody b6.
      destruct (skip_digits_split b6) as (ds & Hb6 & Hds). set (b7 := skip_digits b6) in *.
      destruct (negb _) eqn:Eg3; [discriminate|]. intros H Hib. inversion H; subst s'. rewrite ib_bump in Hib.
      assert (L7 : (length b7 <= length b)%nat) by (rewrite Hall at 1; rewrite Hb5, Hb6, !app_length; cbn [length]; rewrite !app_length; lia).
      assert (E7 : b7 = []) by (destruct b7; [reflexivity|cbn [length] in *; lia]).
      apply negb_false_iff, Nat.eqb_eq in Eg3. rewrite E7 in *.
      assert (Eds : ds = []) by (rewrite Hb6, app_length in Eg3; destruct ds; [reflexivity|cbn [length] in Eg3; lia]).
      subst ds. cbn in Hb6. subst b6. rewrite app_nil_r in Hb5. subst b5.
      exists [48]. rewrite Hall at 1. exists sg, i, dot, f, (c :: sgn ++ [48]). repeat split; auto.
      * rewrite <- ?app_assoc. cbn. rewrite <- ?app_assoc. reflexivity.
      * right. exists c, sgn, [48]. repeat split; auto; [|apply Digits_0|discriminate].
        apply orb_true_iff in Ec as [Ec|Ec]; apply N.eqb_eq in Ec; auto.
    + destruct got2; [discriminate|]. intros H Hib. inversion H; subst s'. rewrite ib_bump in Hib. cbn [length] in *. lia.
Qed.

(* ---- containers ---- *)
Lemma AnyWS_zero w : WS w -> AnyWS (w ++ [48]).
Proof. intros HW. exists w, [48], []. rewrite app_nil_r. repeat split; auto; [|constructor].
  apply RV_num. exists [], [48], [], [], []. cbn. split; [reflexivity|]. split; [left; reflexivity|]. split; [apply Digits_0|].
  split; [left; reflexivity|]. split; [constructor|]. split; [discriminate|left; reflexivity]. Qed.

Lemma space_len b : exists w, b = w ++ skip_space b /\ WS w /\ (length b = length w + length (skip_space b))%nat.
Proof. destruct (skip_space_split b) as (w & Hw & HW). exists w; repeat split; auto. rewrite Hw at 1. apply app_length. Qed.

Lemma RVal_zero : RVal [48].
Proof. apply RV_num. exists [], [48], [], [], []. cbn. split; [reflexivity|]. split; [left; reflexivity|]. split; [apply Digits_0|].
  split; [left; reflexivity|]. split; [constructor|]. split; [discriminate|left; reflexivity]. Qed.

Lemma RO_last' x w k w1 w2 v w3 : x = w ++ 34 :: k ++ w1 ++ 58 :: w2 ++ v ++ w3 ++ [125] ->
  WS w -> RStr k -> WS w1 -> WS w2 -> RVal v -> WS w3 -> RObjTail x.
Proof. intros ->. apply RO_last. Qed.
Lemma RO_more' x w k w1 w2 v w3 t : x = w ++ 34 :: k ++ w1 ++ 58 :: w2 ++ v ++ w3 ++ 44 :: t ->
  WS w -> RStr k -> WS w1 -> WS w2 -> RVal v -> WS w3 -> RObjTail t -> RObjTail x.
Proof. intros ->. apply RO_more. Qed.
Ltac norm_app := repeat (rewrite <- app_assoc || cbn [app]).

Section PartialP.
  Variable maxrec : nat.
  Variable qs : list query.
  Variable tk : N * N * N * N * N * N * N.

  Definition partial_ok (rec : recT) := forall w b lvl s s', rec w b lvl s = (None, s') ->
    (ib s' = ib s + length b)%nat -> Partial (Lang w) b.

  Lemma dispatch_partial rec c b2 lvl s1 s' : partial_ok rec ->
    dispatch rec c (c :: b2) b2 lvl s1 = (None, s') -> (ib s' = ib s1 + length (c :: b2))%nat -> Partial RVal (c :: b2).
  Proof.
    intros Hp. unfold dispatch. cbn [length].
    destruct (c =? 34) eqn:E1.
    { apply N.eqb_eq in E1; subst. intros H Hib. apply consume_string_partial0 in H as (ext & Hx); [|rewrite ib_bump; lia].
      exists ext. cbn. apply RV_str, Hx. }
    destruct (c =? 91) eqn:E2.
    { apply N.eqb_eq in E2; subst. intros H Hib. destruct (Hp _ _ _ _ _ H) as (ext & Hx); [cbn; lia|]. exists ext. cbn. apply RV_arr, Hx. }
    destruct (c =? 123) eqn:E3.
    { apply N.eqb_eq in E3; subst. intros H Hib. destruct (Hp _ _ _ _ _ H) as (ext & Hx); [cbn; lia|]. exists ext. cbn. apply RV_obj, Hx. }
    destruct (c =? 116). { intros H Hib. apply consume_const_partial in H as (ext & Hx); [|cbn [length]; lia]. exists ext. rewrite Hx. apply RV_true. }
    destruct (c =? 102). { intros H Hib. apply consume_const_partial in H as (ext & Hx); [|cbn [length]; lia]. exists ext. rewrite Hx. apply RV_false. }
    destruct (c =? 110). { intros H Hib. apply consume_const_partial in H as (ext & Hx); [|cbn [length]; lia]. exists ext. rewrite Hx. apply RV_null. }
    intros H Hib. apply consume_number_partial in H as (ext & Hx); [|cbn [length]; lia]. exists ext. apply RV_num, Hx.
  Qed.

  Lemma any_body_partial rec b lvl s s' : partial_ok rec ->
    any_body maxrec qs tk rec b lvl s = (None, s') -> (ib s' = ib s + length b)%nat -> Partial AnyWS b.
  Proof.
    intros Hp. unfold any_body.
    destruct (negb (Nat.eqb maxrec 0) && Nat.ltb maxrec lvl).
    { intros H Hib. inversion H; subst. destruct b; [|cbn [length] in Hib; lia]. exists [48]. apply (AnyWS_zero []). constructor. }
    unfold consume_space. destruct (space_len b) as (w & Hw & HW & Hl).
    destruct (skip_space b) as [|c b2] eqn:E.
    { intros _ _. exists [48]. rewrite Hw, app_nil_r. apply AnyWS_zero, HW. }
    destruct (dispatch rec c (c :: b2) b2 lvl _) as [o s0] eqn:Ed.
    destruct (note_token_eq qs tk c lvl o s0) as (sn & -> & Hn).
    destruct o as [r0|]; [cbn; discriminate|].
    cbn [after_value]. intros H Hib. inversion H; subst sn.
    apply dispatch_partial in Ed as (ext & Hx); [|exact Hp|rewrite <- Hn, Hib, ib_bump, ib_see_lvl; lia].
    exists ext. rewrite Hw, <- app_assoc. exists w, ((c :: b2) ++ ext), []. rewrite app_nil_r. repeat split; auto. constructor.
  Qed.

  Lemma arr_body_partial rec b lvl s s' : rec_ok rec -> sound rec -> partial_ok rec ->
    arr_body rec b lvl s = (None, s') -> (ib s' = ib s + length b)%nat -> Partial RArrTail b.
  Proof.
    intros Ha Hs Hp. unfold arr_body, consume_space. destruct (space_len b) as (w & Hw & HW & Hl).
    destruct (skip_space b) as [|c b2] eqn:E.
    { intros _ _. exists [93]. rewrite Hw, app_nil_r. constructor; exact HW. }
    destruct (c =? 93) eqn:E1; [discriminate|].
    set (s1 := bump _ s). assert (Hs1 : ib s1 = (ib s + length w)%nat) by (subst s1; rewrite ib_bump; lia).
    pose proof (Ha WAny (c :: b2) lvl s1) as Hacct.
    destruct (rec WAny (c :: b2) lvl s1) as [[b3|] s2] eqn:Ea; unfold arr_sep.
    - (* value parsed *)
      destruct Hacct as [_ Hacct]. apply Hs in Ea as (xa & Hxa & (w1 & v & w2 & -> & HW1 & HV & HW2)).
      destruct b3 as [|d b4].
      { intros _ _. exists [93]. rewrite Hw, Hxa, app_nil_r. rewrite <- ?app_assoc.
        rewrite (app_assoc w w1). apply RA_last; auto. apply Forall_app; auto. }
      destruct (d =? 44) eqn:E2.
      { apply N.eqb_eq in E2; subst d. intros H Hib. destruct (Hp _ _ _ _ _ H) as (ext & Ht); [rewrite ib_bump; cbn [length] in *; lia|].
        cbn [Lang] in Ht. exists ext. rewrite Hw, Hxa. rewrite <- ?app_assoc. cbn.
        rewrite (app_assoc w w1). apply RA_more; auto. apply Forall_app; auto. }
      destruct (d =? 93); [discriminate|]. intros H Hib. inversion H; subst s2. cbn [length] in *. lia.
    - (* value failed having inspected everything: complete it, then close the array *)
      intros H Hib. inversion H; subst s2.
      assert (Hv : Partial AnyWS (c :: b2)) by (apply (Hp WAny _ lvl s1 s' Ea); lia).
      destruct Hv as (ext & w1 & v & w2 & Hx & HW1 & HV & HW2).
      exists (ext ++ [93]). rewrite Hw. rewrite <- app_assoc. rewrite (app_assoc (c :: b2)), Hx. rewrite <- ?app_assoc.
      rewrite (app_assoc w w1). apply RA_last; auto. apply Forall_app; auto.
  Qed.

  Lemma obj_body_partial rec b lvl s s' : rec_ok rec -> sound rec -> partial_ok rec ->
    obj_body qs rec b lvl s = (None, s') -> (ib s' = ib s + length b)%nat -> Partial RObjTail b.
  Proof.
    intros Ha Hs Hp. unfold obj_body, consume_space. destruct (space_len b) as (w & Hw & HW & Hl).
    destruct (skip_space b) as [|c b2] eqn:E.
    { intros _ _. exists [125]. rewrite Hw, app_nil_r. constructor; exact HW. }
    destruct (c =? 125) eqn:E1; [discriminate|].
    set (s1 := bump _ s). assert (Hs1 : ib s1 = (ib s + length w)%nat) by (subst s1; rewrite ib_bump; lia). clearbody s1.
    destruct (negb (c =? 34)) eqn:E2.
    { intros H Hib. inversion H; subst s'. cbn [length] in *. lia. }
    apply negb_false_iff, N.eqb_eq in E2; subst c.
    pose proof (consume_string_acct b2 0 false (bump 1 s1)) as Hk.
    destruct (consume_string b2 0 false (bump 1 s1)) as [o sk] eqn:Ek.
    destruct (key_step_eq qs b2 o sk) as (s2 & qm & -> & Hn).
    destruct o as [b3|]; unfold obj_value.
    2:{ (* key cut *) intros H Hib. inversion H; subst s2.
        apply consume_string_partial0 in Ek as (ext & Hx); [|rewrite <- Hn, ib_bump; cbn [length] in *; lia].
        exists (ext ++ [58; 48; 125]).
        apply (RO_last' _ w (b2 ++ ext) [] [] [48] []); auto; try apply Forall_nil; try apply RVal_zero.
        rewrite Hw. norm_app. reflexivity. }
    destruct Hk as [_ Hk]. rewrite ib_bump in Hk. rewrite <- Hn in Hk.
    apply consume_string_sound0 in Ek as (k & Hkk & HK).
    unfold consume_space. destruct (space_len b3) as (w1 & Hw1 & HW1 & Hl1).
    assert (Lb : (length b = length w + 1 + length k + length b3)%nat) by (rewrite Hl; cbn [length]; rewrite Hkk, app_length; lia).
    destruct (skip_space b3) as [|d b5] eqn:E3.
    { intros _ _. exists [58; 48; 125].
      apply (RO_last' _ w k w1 [] [48] []); auto; try apply Forall_nil; try apply RVal_zero.
      rewrite Hw, Hkk, Hw1, app_nil_r. norm_app. reflexivity. }
    set (s3 := bump _ s2). assert (Hs3 : ib s3 = (ib s2 + length w1)%nat) by (subst s3; rewrite ib_bump; lia). clearbody s3.
    destruct (negb (d =? 58)) eqn:E4.
    { intros H Hib. inversion H; subst s'. cbn [length] in *. lia. }
    apply negb_false_iff, N.eqb_eq in E4; subst d.
    destruct (space_len b5) as (w2 & Hw2 & HW2 & Hl2).
    destruct (skip_space b5) as [|e b7] eqn:E5.
    { intros _ _. exists [48; 125].
      apply (RO_last' _ w k w1 w2 [48] []); auto; try apply Forall_nil; try apply RVal_zero.
      rewrite Hw, Hkk, Hw1, Hw2, app_nil_r. norm_app. reflexivity. }
    set (s4 := bump _ (bump 1 s3)). assert (Hs4 : ib s4 = (ib s3 + 1 + length w2)%nat) by (subst s4; rewrite !ib_bump; lia). clearbody s4.
    pose proof (Ha WAny (e :: b7) lvl s4) as Hacct.
    destruct (rec WAny (e :: b7) lvl s4) as [o5 sv] eqn:Ea.
    destruct (note_value_eq qm (e :: b7) o5 sv) as (s5 & -> & Hn5).
    destruct o5 as [b8|]; unfold obj_sep.
    - destruct Hacct as [_ Hacct]. rewrite <- Hn5 in Hacct. apply Hs in Ea as (xa & Hxa & (wa & v & w3 & -> & HWa & HV & HW3)).
      assert (Hb : b = w ++ 34 :: k ++ w1 ++ 58 :: (w2 ++ wa) ++ v ++ w3 ++ b8).
      { rewrite Hw, Hkk, Hw1, Hw2, Hxa. norm_app. reflexivity. }
      destruct b8 as [|g b9].
      { intros _ _. exists [125]. apply (RO_last' _ w k w1 (w2 ++ wa) v w3); auto; [|apply Forall_app; auto].
        rewrite Hb. norm_app. reflexivity. }
      destruct (g =? 44) eqn:E6.
      { apply N.eqb_eq in E6; subst g. intros H Hib.
        destruct (Hp _ _ _ _ _ H) as (ext & Ht); [rewrite ib_bump, ib_pop; cbn [length] in *; lia|]. cbn [Lang] in Ht.
        exists ext. apply (RO_more' _ w k w1 (w2 ++ wa) v w3 (b9 ++ ext)); auto; [|apply Forall_app; auto].
        rewrite Hb. norm_app. reflexivity. }
      destruct (g =? 125); [discriminate|]. intros H Hib. inversion H; subst s5. cbn [length] in *. lia.
    - intros H Hib. inversion H; subst s5.
      assert (Hv : Partial AnyWS (e :: b7)) by (apply (Hp WAny _ lvl s4 sv Ea); cbn [length] in *; lia).
      destruct Hv as (ext & wa & v & w3 & Hx & HWa & HV & HW3).
      exists (ext ++ [125]). apply (RO_last' _ w k w1 (w2 ++ wa) v w3); auto; [|apply Forall_app; auto].
      assert (Hx' : (e :: b7) ++ ext ++ [125] = wa ++ v ++ w3 ++ [125]) by (rewrite app_assoc, Hx; norm_app; reflexivity).
      cbn [app] in Hx'. rewrite Hw, Hkk, Hw1, Hw2. norm_app. rewrite Hx'. reflexivity.
  Qed.

  Theorem go_partial : forall fuel, partial_ok (go maxrec qs tk fuel).
  Proof.
    induction fuel as [|f IH]; intros w b lvl s s' H Hib.
    - cbn in H. inversion H; subst. rewrite ib_set_oof in Hib. destruct b; [|cbn [length] in Hib; lia].
      destruct w; cbn [Lang].
      + exists [48]. apply (AnyWS_zero []). constructor.
      + exists [93]. apply (RA_end []). constructor.
      + exists [125]. apply (RO_end []). constructor.
    - destruct w; cbn [go] in H; cbn [Lang].
      + eapply any_body_partial; eauto.
      + eapply arr_body_partial; eauto; [apply go_acct|apply go_sound].
      + eapply obj_body_partial; eauto; [apply go_acct|apply go_sound].
  Qed.
End PartialP.
