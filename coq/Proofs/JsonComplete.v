(* C08, whole mode: the scanner is complete for the documents of Spec/JsonGrammar8259.v (RFC 8259 numbers,
   relaxed structure) whose nesting depth is within the recursion cap. *)
From Verif Require Import Base.Bytes Model.Json Spec.JsonGrammar Spec.JsonGrammar8259 Proofs.JsonAcct Proofs.JsonSound.
Local Open Scope N_scope.

Definition nows (r : list N) : Prop := match r with c :: _ => is_space c = false | [] => True end.
Definition nodigit (r : list N) : Prop := match r with c :: _ => is_digit c = false | [] => True end.
(* what may follow a number without being taken for its continuation *)
Definition nocont (r : list N) : Prop :=
  match r with c :: _ => is_digit c = false /\ c <> 46 /\ c <> 101 /\ c <> 69 | [] => True end.

(* what follows a value inside a document: nothing, or a separator / closer *)
Definition sep (r : list N) : Prop := match r with c :: _ => c = 44 \/ c = 93 \/ c = 125 | [] => True end.
Lemma sep_nows r : sep r -> nows r.
Proof. destruct r as [|c r]; [trivial|]. intros [->|[->| ->]]; reflexivity. Qed.
Lemma ws_nocont w2 rest : WS w2 -> sep rest -> nocont (w2 ++ rest).
Proof.
  intros Hw Hc. destruct w2 as [|c w2'].
  - cbn [app]. destruct rest as [|c r]; [exact I|]. unfold nocont, is_digit. destruct Hc as [->|[->| ->]]; cbn; repeat split; discriminate.
  - inversion Hw as [|? ? Hcs _]; subst. cbn [app nocont]. unfold is_space in Hcs. unfold is_digit.
    repeat match type of Hcs with context [(c =? ?k)] => destruct (N.eqb_spec c k); [subst; cbn; repeat split; discriminate|] end. discriminate.
Qed.

Lemma skip_space_ws_app w x : WS w -> nows x -> skip_space (w ++ x) = x.
Proof.
  induction 1 as [|c w Hc _ IH]; intros Hx; cbn [app].
  - destruct x as [|c x]; [reflexivity|]. cbn [skip_space]. cbn in Hx. rewrite Hx. reflexivity.
  - cbn [skip_space]. rewrite Hc. apply IH, Hx.
Qed.

Lemma consume_space_ws_app w x s : WS w -> nows x -> exists s', consume_space (w ++ x) s = (x, s').
Proof. intros Hw Hx. unfold consume_space. rewrite skip_space_ws_app by assumption. eauto. Qed.

Lemma skip_digits_app d x : Digits d -> nodigit x -> skip_digits (d ++ x) = x.
Proof.
  induction 1 as [|c d Hc _ IH]; intros Hx; cbn [app].
  - destruct x as [|c x]; [reflexivity|]. cbn [skip_digits]. cbn in Hx. rewrite Hx. reflexivity.
  - cbn [skip_digits]. rewrite Hc. apply IH, Hx.
Qed.

(* ---- strings ---- *)
Lemma consume_string_complete body : RStr body -> forall rest s, exists s', consume_string (body ++ rest) 0 false s = (Some rest, s').
Proof.
  induction 1 as [|c b Hq Hb _ IH|e b He _ IH|h1 h2 h3 h4 b H1 H2 H3 H4 _ IH]; intros rest s; cbn [app consume_string].
  - eexists. reflexivity.
  - destruct (N.eqb_spec c 92); [congruence|]. destruct (N.eqb_spec c 34); [congruence|]. apply IH.
  - cbn [N.eqb Pos.eqb]. rewrite He. apply IH.
  - cbn [N.eqb Pos.eqb]. change (simple_esc 117) with false. cbv iota. rewrite H1, H2, H3, H4. apply IH.
Qed.

(* ---- literals ---- *)
Lemma consume_const_complete cn : forall rest s, exists s', consume_const (cn ++ rest) cn s = (Some rest, s').
Proof.
  induction cn as [|c cn IH]; intros rest s; cbn [app consume_const]; [eauto|]. rewrite N.eqb_refl. apply IH.
Qed.

(* ---- numbers ---- *)
Lemma digit_not_minus c : is_digit c = true -> (c =? 45) = false.
Proof. unfold is_digit. intros H. apply andb_true_iff in H as [H1 H2]. apply N.leb_le in H1. apply N.eqb_neq. lia. Qed.
Lemma digit_not_dot c : is_digit c = true -> (c =? 46) = false.
Proof. unfold is_digit. intros H. apply andb_true_iff in H as [H1 H2]. apply N.leb_le in H1. apply N.eqb_neq. lia. Qed.
Lemma nonzero_is_digit c : nonzero_digit c = true -> is_digit c = true.
Proof. unfold nonzero_digit, is_digit. intros H. apply andb_true_iff in H as [H1 H2]. apply N.leb_le in H1. rewrite H2, andb_true_r. apply N.leb_le. lia. Qed.

Lemma SInt_digits i : SInt i -> Digits i /\ i <> [].
Proof.
  intros [->|(d & ds & -> & Hd & Hds)]; split; try discriminate.
  - repeat constructor.
  - constructor; [apply nonzero_is_digit, Hd|exact Hds].
Qed.

Lemma exp_head e rest : RExp e -> nocont rest -> nodigit (e ++ rest) /\ (match e ++ rest with c :: _ => c <> 46 | [] => True end).
Proof.
  intros [->|(m & sg & ds & -> & Hm & _)] Hr.
  - cbn [app]. destruct rest as [|c r]; [split; exact I|]. destruct Hr as (H1 & H2 & _). split; [exact H1|exact H2].
  - cbn [app]. split; [destruct Hm as [->| ->]; reflexivity|destruct Hm as [->| ->]; discriminate].
Qed.

Lemma consume_number_complete x rest s : SNum x -> nocont rest ->
  exists s', consume_number (x ++ rest) s = (Some rest, s').
Proof.
  intros (sg & i & f & e & -> & Hsg & Hi & Hf & He) Hr.
  destruct (SInt_digits i Hi) as [Hid Hine].
  destruct (exp_head e rest He Hr) as [Hend Hnd].
  unfold consume_number. rewrite <- !app_assoc.
  (* sign *)
  assert (E1 : drop_opt 45 (sg ++ i ++ f ++ e ++ rest) = i ++ f ++ e ++ rest).
  { destruct Hsg as [->| ->]; cbn [app drop_opt]; [|reflexivity].
    destruct i as [|c i']; [congruence|]. cbn [app drop_opt]. inversion Hid; subst. rewrite digit_not_minus by assumption. reflexivity. }
  rewrite E1.
  (* integer part *)
  assert (Hfd : nodigit (f ++ e ++ rest)).
  { destruct Hf as [->|(ds & -> & _)]; [exact Hend|reflexivity]. }
  rewrite (skip_digits_app i (f ++ e ++ rest) Hid Hfd).
  assert (Eg1 : negb (Nat.eqb (length (f ++ e ++ rest)) (length (i ++ f ++ e ++ rest))) = true).
  { apply negb_true_iff, Nat.eqb_neq. rewrite (app_length i). destruct i; [congruence|cbn; lia]. }
  rewrite Eg1. cbn [orb].
  (* fraction *)
  assert (E3 : exists fd, Digits fd /\ drop_opt 46 (f ++ e ++ rest) = fd ++ e ++ rest).
  { destruct Hf as [->|(ds & -> & Hds & _)].
    - exists []. split; [constructor|]. cbn [app]. destruct (e ++ rest) as [|c r] eqn:Eer; [reflexivity|].
      unfold drop_opt. destruct (N.eqb_spec c 46); [contradiction|reflexivity].
    - exists ds. split; [exact Hds|]. cbn [app drop_opt N.eqb Pos.eqb]. reflexivity. }
  destruct E3 as (fd & Hfd' & ->).
  rewrite (skip_digits_app fd (e ++ rest) Hfd' Hend).
  (* exponent *)
  destruct He as [->|(m & sgn & ds & -> & Hm & Hsgn & Hds & Hdne)].
  - cbn [app]. destruct rest as [|c r].
    + eexists. reflexivity.
    + destruct Hr as (_ & _ & H101 & H69).
      destruct (N.eqb_spec c 101); [contradiction|]. destruct (N.eqb_spec c 69); [contradiction|]. cbn [orb andb]. eexists. reflexivity.
  - cbn [app]. assert (Em : (m =? 101) || (m =? 69) = true) by (destruct Hm as [->| ->]; reflexivity). rewrite Em. cbn [andb].
    rewrite <- app_assoc.
    assert (E6 : drop_sign (sgn ++ ds ++ rest) = ds ++ rest).
    { destruct Hsgn as [->|[->| ->]]; cbn [app drop_sign N.eqb Pos.eqb orb]; try reflexivity.
      destruct ds as [|d ds']; [congruence|]. cbn [app drop_sign]. inversion Hds; subst.
      assert (Hd43 : (d =? 43) = false) by (unfold is_digit in *; apply N.eqb_neq; intros ->; discriminate).
      rewrite Hd43, digit_not_minus by assumption. reflexivity. }
    rewrite E6.
    assert (Hrd : nodigit rest) by (destruct rest; [exact I|destruct Hr as (H & _); exact H]).
    rewrite (skip_digits_app ds rest Hds Hrd).
    assert (Eg3 : negb (Nat.eqb (length rest) (length (ds ++ rest))) = true).
    { apply negb_true_iff, Nat.eqb_neq. rewrite app_length. destruct ds; [congruence|cbn; lia]. }
    rewrite Eg3. eexists. reflexivity.
Qed.

(* ---- the head of a value ---- *)
Definition value_head (c : N) : Prop :=
  is_space c = false /\ c <> 93 /\ c <> 125 /\ c <> 44 /\ c <> 58.

Lemma digit_head c : is_digit c = true -> value_head c /\ c <> 34 /\ c <> 91 /\ c <> 123 /\ c <> 116 /\ c <> 102 /\ c <> 110.
Proof.
  unfold is_digit, value_head, is_space. intros H. apply andb_true_iff in H as [H1 H2]. apply N.leb_le in H1, H2.
  repeat split; try lia.
  repeat match goal with |- context [(c =? ?k)] => destruct (N.eqb_spec c k); [lia|] end. reflexivity.
Qed.

(* a number starts with '-' or a digit: it is dispatched to consumeNumber *)
Lemma SNum_head x : SNum x -> exists c t, x = c :: t /\ value_head c /\ c <> 34 /\ c <> 91 /\ c <> 123 /\ c <> 116 /\ c <> 102 /\ c <> 110.
Proof.
  intros (sg & i & f & e & -> & Hsg & Hi & _).
  destruct Hsg as [->| ->].
  - destruct (SInt_digits i Hi) as [Hd Hne]. destruct i as [|c i']; [congruence|]. inversion Hd; subst.
    exists c, (i' ++ f ++ e). split; [reflexivity|]. apply digit_head. assumption.
  - exists 45, (i ++ f ++ e). split; [reflexivity|]. unfold value_head, is_space. cbn. repeat split; discriminate.
Qed.

Lemma SVal_head d v : SVal d v -> exists c t, v = c :: t /\ value_head c.
Proof.
  destruct 1 as [body _|x Hx| | | |d t _|d t _]; try (eexists _, _; split; [reflexivity|unfold value_head, is_space; cbn; repeat split; discriminate]).
  destruct (SNum_head x Hx) as (c & t & -> & Hh & _). eauto.
Qed.

Section Complete.
  Variable maxrec : nat.
  Variable qs : list query.
  Variable tk : N * N * N * N * N * N * N.
  Notation go := (go maxrec qs tk).

  (* fuel: 2*len+1 for a value, 2*len+2 for a container tail *)
  Definition complete_any (d : nat) (v : list N) : Prop :=
    forall fuel w w2 rest lvl s, WS w -> WS w2 -> sep rest -> (lvl + d <= maxrec)%nat ->
      (2 * length (w ++ v ++ w2 ++ rest) + 1 <= fuel)%nat ->
      exists s', go fuel WAny (w ++ v ++ w2 ++ rest) lvl s = (Some rest, s') /\
                 (lvl = 0%nat -> complete s' = true /\ ftok s' = tok_of tk (hd 0 v)) /\ (qs = [] -> qsat s' = true).
  Definition complete_arr (d : nat) (t : list N) : Prop :=
    forall fuel rest lvl s, (lvl + d <= maxrec)%nat -> (2 * length (t ++ rest) + 2 <= fuel)%nat ->
      exists s', go fuel WArr (t ++ rest) lvl s = (Some rest, s').
  Definition complete_obj (d : nat) (t : list N) : Prop :=
    forall fuel rest lvl s, (lvl + d <= maxrec)%nat -> (2 * length (t ++ rest) + 2 <= fuel)%nat ->
      exists s', go fuel WObj (t ++ rest) lvl s = (Some rest, s').

  Lemma guard_ok lvl d : (lvl + d <= maxrec)%nat -> negb (Nat.eqb maxrec 0) && Nat.ltb maxrec lvl = false.
  Proof. intros H. apply andb_false_iff. right. apply Nat.ltb_ge. lia. Qed.

  (* after the dispatched scalar / container returned: token bookkeeping, trailing white space, completion flag *)
  Lemma any_finish c lvl w2 rest s0 : WS w2 -> nows rest ->
    exists s', after_value lvl (note_token qs tk c lvl (Some (w2 ++ rest), s0)) = (Some rest, s') /\
               (lvl = 0%nat -> complete s' = true /\ ftok s' = tok_of tk c) /\ (qs = [] -> qsat s' = true).
  Proof.
    intros Hw Hr. unfold note_token, after_value, consume_space. rewrite skip_space_ws_app by assumption.
    eexists. split; [reflexivity|]. split.
    - intros ->. cbn. destruct qs; cbn; split; reflexivity.
    - intros ->. destruct (Nat.eqb lvl 0); cbn; reflexivity.
  Qed.

  (* a scalar whose consumer succeeds on (v ++ anything) *)
  Lemma any_scalar v c t :
    v = c :: t -> value_head c ->
    (forall rest s, nocont rest -> exists s', dispatch (go 0) c (v ++ rest) (t ++ rest) 0 s = (Some rest, s')) ->
    (forall rec lvl rest s, dispatch rec c (v ++ rest) (t ++ rest) lvl s = dispatch (go 0) c (v ++ rest) (t ++ rest) 0 s) ->
    complete_any 0 v.
  Proof.
    intros -> Hh Hd Hindep fuel w w2 rest lvl s Hw Hw2 Hr Hl Hf.
    destruct fuel as [|f]; [cbn [app length] in Hf; rewrite app_length in Hf; cbn in Hf; lia|].
    cbn [Json.go]. unfold any_body. rewrite (guard_ok lvl 0 Hl).
    unfold consume_space. rewrite (skip_space_ws_app w ((c :: t) ++ w2 ++ rest) Hw) by (cbn; apply Hh).
    cbn [app]. change (c :: t ++ w2 ++ rest) with ((c :: t) ++ w2 ++ rest).
    rewrite Hindep. destruct (Hd (w2 ++ rest) (bump (length (w ++ (c :: t) ++ w2 ++ rest) - length ((c :: t) ++ w2 ++ rest)) (see_lvl lvl s)) (ws_nocont _ _ Hw2 Hr)) as (s0 & ->).
    apply any_finish; [assumption|apply sep_nows, Hr].
  Qed.

  Lemma str_complete body : RStr body -> complete_any 0 (34 :: body).
  Proof.
    intros Hb. apply (any_scalar (34 :: body) 34 body eq_refl).
    - unfold value_head, is_space. cbn. repeat split; discriminate.
    - intros rest s _. unfold dispatch. cbn [N.eqb Pos.eqb]. apply consume_string_complete, Hb.
    - intros rec lvl rest s. reflexivity.
  Qed.


  Lemma lit_complete (cn : list N) c t : cn = c :: t -> (c = 116 \/ c = 102 \/ c = 110) ->
    (forall rec b2 lvl s, dispatch rec c (cn ++ b2) (t ++ b2) lvl s = consume_const (cn ++ b2) cn s) -> complete_any 0 cn.
  Proof.
    intros -> Hc Hdisp. apply (any_scalar (c :: t) c t eq_refl).
    - unfold value_head, is_space. destruct Hc as [->|[->| ->]]; cbn; repeat split; discriminate.
    - intros rest s _. rewrite Hdisp. apply consume_const_complete.
    - intros rec lvl rest s. rewrite !Hdisp. reflexivity.
  Qed.

  Lemma num_complete x : SNum x -> complete_any 0 x.
  Proof.
    intros Hx. destruct (SNum_head x Hx) as (c & t & -> & Hh & H34 & H91 & H123 & H116 & H102 & H110).
    assert (Hdisp : forall rec b2 lvl s, dispatch rec c ((c :: t) ++ b2) (t ++ b2) lvl s = consume_number ((c :: t) ++ b2) s).
    { intros. unfold dispatch.
      destruct (N.eqb_spec c 34); [contradiction|]. destruct (N.eqb_spec c 91); [contradiction|]. destruct (N.eqb_spec c 123); [contradiction|].
      destruct (N.eqb_spec c 116); [contradiction|]. destruct (N.eqb_spec c 102); [contradiction|]. destruct (N.eqb_spec c 110); [contradiction|]. reflexivity. }
    apply (any_scalar (c :: t) c t eq_refl Hh).
    - intros rest s Hr. rewrite Hdisp. apply consume_number_complete; assumption.
    - intros rec lvl rest s. rewrite !Hdisp. reflexivity.
  Qed.

  Lemma head_nows c x : value_head c -> nows (c :: x).
  Proof. intros (H & _). exact H. Qed.

  Lemma len_app3 {A} (a b c : list A) : length (a ++ b ++ c) = (length a + length b + length c)%nat.
  Proof. rewrite !app_length. lia. Qed.

  Ltac napp := repeat first [rewrite <- app_assoc | progress cbn [app]].
  Ltac len_norm H := repeat first [rewrite app_length in H | progress cbn [length] in H].
  Ltac len_goal := repeat first [rewrite app_length | progress cbn [length]].

  Theorem complete_all :
    (forall d v, SVal d v -> complete_any d v) /\
    (forall d t, SArrTail d t -> complete_arr d t) /\
    (forall d t, SObjTail d t -> complete_obj d t).
  Proof.
    apply SVal_mutind.
    - (* string *) intros body Hb. apply str_complete, Hb.
    - (* number *) intros x Hx. apply num_complete, Hx.
    - apply (lit_complete [116;114;117;101] 116 [114;117;101] eq_refl); [left; reflexivity|intros; reflexivity].
    - apply (lit_complete [102;97;108;115;101] 102 [97;108;115;101] eq_refl); [right; left; reflexivity|intros; reflexivity].
    - apply (lit_complete [110;117;108;108] 110 [117;108;108] eq_refl); [right; right; reflexivity|intros; reflexivity].
    - (* array value *)
      intros d t _ IH fuel w w2 rest lvl s Hw Hw2 Hr Hl Hf.
      destruct fuel as [|f]; [lia|]. cbn [Json.go]. unfold any_body. rewrite (guard_ok lvl (S d) Hl).
      unfold consume_space. rewrite (skip_space_ws_app w ((91 :: t) ++ w2 ++ rest) Hw) by reflexivity.
      cbn [app]. unfold dispatch. cbn [N.eqb Pos.eqb].
      len_norm Hf.
      match goal with |- context [go f WArr (t ++ w2 ++ rest) (S lvl) ?st] => destruct (IH f (w2 ++ rest) (S lvl) st) as (s0 & E) end;
        [lia|len_goal; lia|].
      rewrite E. apply any_finish; [assumption|apply sep_nows, Hr].
    - (* object value *)
      intros d t _ IH fuel w w2 rest lvl s Hw Hw2 Hr Hl Hf.
      destruct fuel as [|f]; [lia|]. cbn [Json.go]. unfold any_body. rewrite (guard_ok lvl (S d) Hl).
      unfold consume_space. rewrite (skip_space_ws_app w ((123 :: t) ++ w2 ++ rest) Hw) by reflexivity.
      cbn [app]. unfold dispatch. cbn [N.eqb Pos.eqb].
      len_norm Hf.
      match goal with |- context [go f WObj (t ++ w2 ++ rest) (S lvl) ?st] => destruct (IH f (w2 ++ rest) (S lvl) st) as (s0 & E) end;
        [lia|len_goal; lia|].
      rewrite E. apply any_finish; [assumption|apply sep_nows, Hr].
    - (* [ ws ] *)
      intros d w Hw fuel rest lvl s Hl Hf. destruct fuel as [|f]; [lia|]. cbn [Json.go]. napp. unfold arr_body, consume_space.
      rewrite (skip_space_ws_app w (93 :: rest) Hw) by reflexivity. cbn [N.eqb Pos.eqb]. eauto.
    - (* last element *)
      intros d d1 w v w2 Hw Hv IHv Hle Hw2 fuel rest lvl s Hl Hf. destruct fuel as [|f]; [lia|]. cbn [Json.go]. napp. unfold arr_body, consume_space.
      destruct (SVal_head _ _ Hv) as (c & vt & Ev & Hh).
      rewrite (skip_space_ws_app w (v ++ w2 ++ 93 :: rest) Hw) by (rewrite Ev; apply head_nows, Hh).
      subst v. cbn [app]. destruct Hh as (Hsp & H93 & Hrest). destruct (N.eqb_spec c 93); [contradiction|].
      len_norm Hf.
      match goal with |- context [go f WAny ?inp lvl ?st] =>
        destruct (IHv f [] w2 (93 :: rest) lvl st (Forall_nil _) Hw2 (or_intror (or_introl eq_refl))) as (s2 & E & _) end;
        [lia|cbn [app]; len_goal; lia|].
      cbn [app] in E. rewrite E. unfold arr_sep. cbn [N.eqb Pos.eqb]. eauto.
    - (* element, comma, tail *)
      intros d d1 w v w2 t Hw Hv IHv Hle Hw2 _ IHt fuel rest lvl s Hl Hf. destruct fuel as [|f]; [lia|]. cbn [Json.go]. napp. unfold arr_body, consume_space.
      destruct (SVal_head _ _ Hv) as (c & vt & Ev & Hh).
      rewrite (skip_space_ws_app w (v ++ w2 ++ 44 :: t ++ rest) Hw) by (rewrite Ev; apply head_nows, Hh).
      subst v. cbn [app]. destruct Hh as (Hsp & H93 & Hrest). destruct (N.eqb_spec c 93); [contradiction|].
      len_norm Hf.
      match goal with |- context [go f WAny ?inp lvl ?st] =>
        destruct (IHv f [] w2 (44 :: t ++ rest) lvl st (Forall_nil _) Hw2 (or_introl eq_refl)) as (s2 & E & _) end;
        [lia|cbn [app]; len_goal; lia|].
      cbn [app] in E. rewrite E. unfold arr_sep. cbn [N.eqb Pos.eqb].
      apply IHt; [exact Hl|len_goal; lia].
    - (* { ws } *)
      intros d w Hw fuel rest lvl s Hl Hf. destruct fuel as [|f]; [lia|]. cbn [Json.go]. napp. unfold obj_body, consume_space.
      rewrite (skip_space_ws_app w (125 :: rest) Hw) by reflexivity. cbn [N.eqb Pos.eqb]. eauto.
    - (* last member *)
      intros d d1 w k w1 w2 v w3 Hw Hk Hw1 Hw2 Hv IHv Hle Hw3 fuel rest lvl s Hl Hf.
      destruct fuel as [|f]; [lia|]. cbn [Json.go]. napp. unfold obj_body, consume_space.
      rewrite (skip_space_ws_app w (34 :: k ++ w1 ++ 58 :: w2 ++ v ++ w3 ++ 125 :: rest) Hw) by reflexivity.
      cbn [N.eqb Pos.eqb negb].
      match goal with |- context [consume_string (k ++ ?r) 0 false ?st] => destruct (consume_string_complete k Hk r st) as (sk & Ek) end.
      rewrite Ek. unfold key_step. unfold obj_value, consume_space.
      rewrite (skip_space_ws_app w1 (58 :: w2 ++ v ++ w3 ++ 125 :: rest) Hw1) by reflexivity.
      cbn [N.eqb Pos.eqb negb].
      destruct (SVal_head _ _ Hv) as (c & vt & Ev & Hh).
      rewrite (skip_space_ws_app w2 (v ++ w3 ++ 125 :: rest) Hw2) by (rewrite Ev; apply head_nows, Hh).
      subst v. cbn [app].
      len_norm Hf.
      match goal with |- context [go f WAny ?inp lvl ?st] =>
        destruct (IHv f [] w3 (125 :: rest) lvl st (Forall_nil _) Hw3 (or_intror (or_intror eq_refl))) as (s2 & E & _) end;
        [lia|cbn [app]; len_goal; lia|].
      cbn [app] in E. rewrite E.
      match goal with |- context [note_value ?qm ?b6 (Some ?r, s2)] => destruct (note_value_eq qm b6 (Some r) s2) as (sv & -> & _) end.
      unfold obj_sep. cbn [N.eqb Pos.eqb]. eauto.
    - (* member, comma, tail *)
      intros d d1 w k w1 w2 v w3 t Hw Hk Hw1 Hw2 Hv IHv Hle Hw3 _ IHt fuel rest lvl s Hl Hf.
      destruct fuel as [|f]; [lia|]. cbn [Json.go]. napp. unfold obj_body, consume_space.
      rewrite (skip_space_ws_app w (34 :: k ++ w1 ++ 58 :: w2 ++ v ++ w3 ++ 44 :: t ++ rest) Hw) by reflexivity.
      cbn [N.eqb Pos.eqb negb].
      match goal with |- context [consume_string (k ++ ?r) 0 false ?st] => destruct (consume_string_complete k Hk r st) as (sk & Ek) end.
      rewrite Ek. unfold key_step. unfold obj_value, consume_space.
      rewrite (skip_space_ws_app w1 (58 :: w2 ++ v ++ w3 ++ 44 :: t ++ rest) Hw1) by reflexivity.
      cbn [N.eqb Pos.eqb negb].
      destruct (SVal_head _ _ Hv) as (c & vt & Ev & Hh).
      rewrite (skip_space_ws_app w2 (v ++ w3 ++ 44 :: t ++ rest) Hw2) by (rewrite Ev; apply head_nows, Hh).
      subst v. cbn [app].
      len_norm Hf.
      match goal with |- context [go f WAny ?inp lvl ?st] =>
        destruct (IHv f [] w3 (44 :: t ++ rest) lvl st (Forall_nil _) Hw3 (or_introl eq_refl)) as (s2 & E & _) end;
        [lia|cbn [app]; len_goal; lia|].
      cbn [app] in E. rewrite E.
      match goal with |- context [note_value ?qm ?b6 (Some ?r, s2)] => destruct (note_value_eq qm b6 (Some r) s2) as (sv & -> & _) end.
      unfold obj_sep. cbn [N.eqb Pos.eqb].
      apply IHt; [exact Hl|len_goal; lia].
  Qed.
End Complete.

(* ---- the detector, whole mode ---- *)
Section Whole.
  Variable maxrec : nat.
  Variable tk : N * N * N * N * N * N * N.
  Variable want : N.
  Hypothesis Harr : N.land (tok_of tk 91) want <> 0.
  Hypothesis Hobj : N.land (tok_of tk 123) want <> 0.

  (* every document of depth within the cap, examined in full, is accepted by the JSON detector (no query) *)
  Theorem json_complete_whole d raw limit :
    SDoc d raw -> (d <= maxrec)%nat -> (limit = 0 \/ N.of_nat (length raw) < limit) ->
    json_helper maxrec tk [] want raw limit = true.
  Proof.
    intros (w & v & w2 & -> & Hw & Hw2 & Hv & (t & Ht)) Hd Hlim.
    destruct (proj1 (complete_all maxrec [] tk) d v Hv (fuel_for (w ++ v ++ w2)) w w2 [] 0%nat init_st Hw Hw2 I)
      as (s' & Hgo & Hflags & Hq).
    { lia. }
    { unfold fuel_for. rewrite app_nil_r. lia. }
    rewrite app_nil_r in Hgo. destruct (Hflags eq_refl) as (Hc & Hft). specialize (Hq eq_refl).
    unfold json_helper.
    assert (Hlook : looks_like_obj_or_arr (w ++ v ++ w2) = true).
    { unfold looks_like_obj_or_arr. rewrite skip_space_ws_app; [|exact Hw|destruct Ht as [->| ->]; reflexivity].
      destruct Ht as [->| ->]; reflexivity. }
    rewrite Hlook. cbn [negb]. unfold parse. rewrite Hgo. cbn [p_qsat p_ftok p_parsed p_inspected length].
    rewrite Hq, Hc, Hft. cbn [negb orb].
    assert (Hland : (N.land (tok_of tk (hd 0 v)) want =? 0) = false).
    { apply N.eqb_neq. destruct Ht as [->| ->]; assumption. }
    rewrite Hland.
    assert (Hm : (limit =? 0) || (N.of_nat (length (w ++ v ++ w2)) <? limit) = true).
    { destruct Hlim as [->|Hlt]; [reflexivity|]. apply orb_true_iff. right. apply N.ltb_lt. exact Hlt. }
    rewrite Hm. apply Nat.eqb_eq. lia.
  Qed.
End Whole.
