(* C01 / C17 / C19: CRX, zipContains, Docx, Xlsx, Pptx, Jar, APK as translated from the source never reach Panic and compute the total models.
   Re-checked on every run against the freshly translated definitions of Gen/SrcFuncs.v (translator harness/gores.go):
   an edit of the Go function that changes what it computes, or adds a run-time check that can fail, breaks the lemma. *)
From Coq Require Import Lia.
From Verif Require Import Base.Bytes Model.GoLite Model.Zip Model.Ole Model.Mkv Model.Tar Model.Checked Model.GoRes Model.Detect
  Gen.SrcFuncs Proofs.BytesP Proofs.GoLiteP Proofs.CheckedP Proofs.TranslateP Proofs.SrcBaseP.
Local Open Scope Z_scope.

(* ---- CRX ---- *)
Lemma srcp_Zip_val r : evalp srcp_Zip r = Val (zip_simple r).
Proof.
  rewrite <- (normp_sound srcp_Zip). replace (normp srcp_Zip) with (normp (PRet zip_bexp)) by (vm_compute; reflexivity).
  rewrite normp_sound. cbn [evalp]. apply zip_bexp_val.
Qed.

Lemma u32_of_N a : u32 (Z.of_N a) = Z.of_N (a mod two32).
Proof. unfold u32, two32. rewrite N2Z.inj_mod. reflexivity. Qed.

Theorem src_CRX_ok raw l : src_CRX raw l = Val (crx_det raw).
Proof.
  unfold src_CRX, crx_det. cbv zeta.
  destruct (Z.ltb_spec (zlen raw) 16) as [Hlt|Hge], (Nat.ltb_spec (length raw) 16) as [Hlt'|Hge']; unfold zlen in *; try lia; [reflexivity|].
  cbn [orb]. destruct (negb (has_prefix _ raw)); [reflexivity|].
  rewrite !zslice_val by (unfold zlen; lia). cbn [rbind].
  change (Z.to_nat (12 - 8)) with 4%nat. change (Z.to_nat (16 - 12)) with 4%nat. change (Z.to_nat 8) with 8%nat. change (Z.to_nat 12) with 12%nat.
  rewrite !zu32le_val by (rewrite zlen_firstn, skipn_length; lia). cbn [rbind]. rewrite !u32le_firstn4.
  set (a := u32le (skipn 8 raw)). set (c := u32le (skipn 12 raw)).
  assert (Hzo : u32 (u32 (16 + Z.of_N a) + Z.of_N c) = Z.of_N ((16 + a + c) mod two32)).
  { rewrite <- u32_of_N. unfold u32. rewrite Zplus_mod_idemp_l. f_equal. lia. }
  rewrite Hzo. set (zo := ((16 + a + c) mod two32)%N).
  assert (Hl : u32 (Z.of_nat (length raw)) = Z.of_N (N.of_nat (length raw) mod two32)).
  { rewrite <- u32_of_N. f_equal. lia. }
  fold (zlen raw). unfold zlen. rewrite Hl.
  destruct (Z.ltb_spec (Z.of_N (N.of_nat (length raw) mod two32)) (Z.of_N zo)) as [H|H],
           (N.ltb_spec (N.of_nat (length raw) mod two32) zo) as [H'|H']; try lia; [reflexivity|].
  assert (Hzo2 : (zo < two32)%N) by (apply N.mod_lt; discriminate).
  assert (Hle : (N.to_nat zo <= length raw)%nat).
  { destruct (N.lt_ge_cases (N.of_nat (length raw)) two32) as [Hs|Hs]; [rewrite N.mod_small in H' by exact Hs|]; lia. }
  rewrite zfrom_val by (unfold zlen; lia). cbn [rbind]. replace (Z.to_nat (Z.of_N zo)) with (N.to_nat zo) by lia.
  apply srcp_Zip_val.
Qed.

(* ---- zipContains, the OOXML / JAR / APK detectors ---- *)
Ltac zip_hop sig :=
  rewrite zadvance_spec by lia; change (Z.to_nat 26) with 26%nat;
  match goal with |- context [(length ?c <? 26)%nat] => destruct (length c <? 26)%nat; [reflexivity|] end;
  unfold zindex;
  match goal with |- context [index_of ?p (skipn 26 ?c)] => destruct (index_of p (skipn 26 c)) as [?nh|]; [|reflexivity] end;
  match goal with |- context [Z.of_nat ?n =? -1] =>
    replace (Z.of_nat n =? -1) with false by (symmetry; apply Z.eqb_neq; lia);
    rewrite zadvance_spec by lia; replace (Z.to_nat (Z.of_nat n + 30)) with (n + 30)%nat by lia end;
  match goal with |- context [(length ?c <? ?n + 30)%nat] => destruct (length c <? n + 30)%nat; [reflexivity|] end;
  match goal with |- context [has_prefix sig ?c] => destruct (has_prefix sig c); [reflexivity|] end.

Ltac zip_tail raw sig :=
  cbv zeta; rewrite zfrom_val by (unfold zlen; lia); cbn [rbind]; change (Z.to_nat 18) with 18%nat;
  rewrite zu32le_val by (rewrite zlen_skipn; lia); cbn [rbind];
  let Hso := fresh "Hso" in
  assert (Hso : u32 (Z.of_N (u32le (skipn 18 raw)) + 49) = Z.of_N ((u32le (skipn 18 raw) + 49) mod two32))
    by (rewrite <- u32_of_N; f_equal; lia);
  rewrite Hso; set (so := ((u32le (skipn 18 raw) + 49) mod two32)%N);
  rewrite zadvance_spec by lia; replace (Z.to_nat (Z.of_N so)) with (N.to_nat so) by lia;
  let Hs := fresh "Hs" in let Hs' := fresh "Hs'" in
  destruct (Nat.ltb_spec (length (skipn 30 raw)) (N.to_nat so)) as [Hs|Hs], (N.ltb_spec (N.of_nat (length (skipn 30 raw))) so) as [Hs'|Hs']; try lia; [reflexivity|];
  rewrite skipn_length in Hs; rewrite zfrom_val by (unfold zlen; lia); cbn [rbind]; replace (Z.to_nat (Z.of_N so)) with (N.to_nat so) by lia;
  unfold zindex at 1;
  destruct (index_of [80; 75; 3; 4]%N (skipn (N.to_nat so) raw)) as [nh|]; [|reflexivity];
  rewrite zadvance_spec by lia; rewrite Znat.Nat2Z.id;
  destruct (length (skipn (N.to_nat so) (skipn 30 raw)) <? nh)%nat; [reflexivity|];
  match goal with |- context [has_prefix sig ?c] => destruct (has_prefix sig c); [reflexivity|] end;
  cbn [zip_hops]; unfold pk34; cbv zeta;
  do 4 (zip_hop sig); reflexivity.

Theorem src_zipContains_ok raw sig mso : src_zipContains raw sig mso = Val (zip_contains skip_files raw sig mso).
Proof.
  set (sk := skip_files). vm_compute in sk. subst sk.
  unfold src_zipContains, zip_contains. cbv beta zeta. unfold pk34.
  destruct (Z.ltb_spec (zlen raw) 30) as [Hlt|Hge], (Nat.ltb_spec (length raw) 30) as [Hlt'|Hge']; unfold zlen in *; try lia; [reflexivity|].
  rewrite zadvance_spec by lia. change (Z.to_nat 30) with 30%nat.
  replace (length raw <? 30)%nat with false by (symmetry; apply Nat.ltb_ge; exact Hge').
  destruct (has_prefix sig (skipn 30 raw)); [reflexivity|].
  destruct mso.
  - cbn [andb existsb].
    repeat (match goal with |- context [has_prefix ?s (skipn 30 raw)] => destruct (has_prefix s (skipn 30 raw)); cbn [orb negb] end;
            [zip_tail raw sig|]).
    reflexivity.
  - cbn [andb]. zip_tail raw sig.
Qed.

Theorem src_Docx_ok raw l : src_Docx raw l = Val (zc raw (first_lit "Docx") true).
Proof. unfold src_Docx, zc. rewrite src_zipContains_ok. reflexivity. Qed.
Theorem src_Xlsx_ok raw l : src_Xlsx raw l = Val (zc raw (first_lit "Xlsx") true).
Proof. unfold src_Xlsx, zc. rewrite src_zipContains_ok. reflexivity. Qed.
Theorem src_Pptx_ok raw l : src_Pptx raw l = Val (zc raw (first_lit "Pptx") true).
Proof. unfold src_Pptx, zc. rewrite src_zipContains_ok. reflexivity. Qed.
Theorem src_Jar_ok raw l : src_Jar raw l = Val (zc raw (first_lit "Jar") false).
Proof. unfold src_Jar, zc. rewrite src_zipContains_ok. reflexivity. Qed.
Theorem src_APK_ok raw l : src_APK raw l = Val (existsb (fun s => zc raw s false) (lits_of "APK")).
Proof.
  set (ls := lits_of "APK"). vm_compute in ls. subst ls.
  unfold src_APK, zc. cbv beta zeta. rewrite !src_zipContains_ok. cbn [rbind existsb].
  repeat (match goal with |- context [zip_contains skip_files raw ?s false] => destruct (zip_contains skip_files raw s false) end; cbn [orb]; try reflexivity).
Qed.

