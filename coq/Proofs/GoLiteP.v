(* Soundness of the GoLite analysis: panic-freedom under the computed length bounds and
   persistence of verdicts under extension of the header. *)
From Verif Require Import Base.Bytes Model.GoLite Proofs.BytesP.
Local Open Scope nat_scope.

Definition sound1 (e : bexp) (i : info) (raw : bytes) : Prop :=
  exists v, evalb e raw = Val v
    /\ (v = true -> i_t i <= length raw) /\ (v = false -> i_f i <= length raw)
    /\ (i_up i = true -> v = true -> forall ext, evalb e (raw ++ ext) = Val true)
    /\ (i_dn i = true -> v = false -> forall ext, evalb e (raw ++ ext) = Val false).

Lemma stable_sound e lb raw v :
  evalb e raw = Val v -> (forall ext, evalb e (raw ++ ext) = evalb e raw) -> lb <= length raw ->
  sound1 e (mk_info lb lb true true) raw.
Proof.
  intros Hv Hs Hl. exists v. repeat split; simpl; auto; intros _ -> ext; rewrite Hs; exact Hv.
Qed.

Lemma evalb_not a raw : evalb (BNot a) raw = match evalb a raw with Val v => Val (negb v) | Panic => Panic end.
Proof. reflexivity. Qed.
Lemma evalb_and a c raw : evalb (BAnd a c) raw = match evalb a raw with Val true => evalb c raw | Val false => Val false | Panic => Panic end.
Proof. reflexivity. Qed.
Lemma evalb_or a c raw : evalb (BOr a c) raw = match evalb a raw with Val true => Val true | Val false => evalb c raw | Panic => Panic end.
Proof. reflexivity. Qed.
Lemma evalp_if c v rest raw : evalp (PIfRet c v rest) raw = match evalb c raw with Val true => Val v | Val false => evalp rest raw | Panic => Panic end.
Proof. reflexivity. Qed.
Lemma evalp_ret e raw : evalp (PRet e) raw = evalb e raw.
Proof. reflexivity. Qed.

Lemma cmpnat_CGe a k : cmpnat CGe a k = (k <=? a). Proof. reflexivity. Qed.

Ltac nat_bools :=
  repeat match goal with
  | H : (_ =? _) = true |- _ => apply Nat.eqb_eq in H
  | H : (_ =? _) = false |- _ => apply Nat.eqb_neq in H
  | H : (_ <? _) = true |- _ => apply Nat.ltb_lt in H
  | H : (_ <? _) = false |- _ => apply Nat.ltb_ge in H
  | H : (_ <=? _) = true |- _ => apply Nat.leb_le in H
  | H : (_ <=? _) = false |- _ => apply Nat.leb_gt in H
  | H : negb _ = true |- _ => apply negb_true_iff in H
  | H : negb _ = false |- _ => apply negb_false_iff in H
  | H : _ && _ = true |- _ => apply andb_true_iff in H; destruct H
  end.

Lemma len_sound c k lb raw : lb <= length raw -> sound1 (BLen c k) (an_len c k lb) raw.
Proof.
  intros Hl. exists (cmpnat c (length raw) k). split; [reflexivity|].
  destruct c; cbn [an_len i_t i_f i_up i_dn cmpnat evalb]; repeat split; intros; nat_bools; try lia;
    rewrite ?app_length; f_equal;
    repeat match goal with
    | |- (_ =? _) = true => apply Nat.eqb_eq | |- (_ =? _) = false => apply Nat.eqb_neq
    | |- (_ <? _) = true => apply Nat.ltb_lt | |- (_ <? _) = false => apply Nat.ltb_ge
    | |- (_ <=? _) = true => apply Nat.leb_le | |- (_ <=? _) = false => apply Nat.leb_gt
    | |- negb _ = true => apply negb_true_iff | |- negb _ = false => apply negb_false_iff
    end; lia.
Qed.

Lemma get_app raw ext i : i < length raw -> get (raw ++ ext) i = get raw i.
Proof. intros H. unfold get. rewrite nth_error_app1 by exact H. reflexivity. Qed.

Lemma get_val raw i : i < length raw -> exists x, get raw i = Val x.
Proof.
  intros H. unfold get. destruct (nth_error raw i) eqn:E; [eauto|]. apply nth_error_None in E. lia.
Qed.

Lemma slice_app raw ext lo hi : lo <= hi -> hi <= length raw -> slice (raw ++ ext) lo hi = slice raw lo hi.
Proof.
  intros H1 H2. unfold slice. rewrite app_length.
  destruct (Nat.leb_spec lo hi); [|lia]. destruct (Nat.leb_spec hi (length raw)); [|lia].
  destruct (Nat.leb_spec hi (length raw + length ext)); [|lia]. simpl.
  rewrite skipn_app_le by lia. rewrite firstn_app_le; [reflexivity|]. rewrite skipn_length. lia.
Qed.

Lemma slice_val raw lo hi : lo <= hi -> hi <= length raw -> slice raw lo hi = Val (firstn (hi - lo) (skipn lo raw)).
Proof.
  intros H1 H2. unfold slice. destruct (Nat.leb_spec lo hi); [|lia]. destruct (Nat.leb_spec hi (length raw)); [|lia]. reflexivity.
Qed.

Theorem an_sound : forall e lb i raw, an lb e = Some i -> lb <= length raw -> sound1 e i raw.
Proof.
  induction e as [v|c k|ix c v|off lit|lo hi lit|en off c v|en off c v|lo cap lit|a IH|a IHa c IHc|a IHa c IHc];
    intros lb i raw Hs Hl; cbn [an] in Hs.
  - (* BConst *) inversion Hs; subst. exists v. repeat split; simpl; auto; intros; subst; reflexivity.
  - (* BLen *) inversion Hs; subst. apply len_sound, Hl.
  - (* BByte *)
    destruct (Nat.ltb_spec ix lb); [|discriminate]. inversion Hs; subst.
    destruct (get_val raw ix) as [x Hx]; [lia|].
    eapply stable_sound; [cbn [evalb]; rewrite Hx; reflexivity| |exact Hl].
    intros ext. cbn [evalb]. rewrite get_app by lia. reflexivity.
  - (* BPrefixAt *)
    destruct (Nat.leb_spec off lb); [|discriminate]. inversion Hs; subst. clear Hs.
    assert (Hf : from raw off = Val (skipn off raw)) by (unfold from; destruct (Nat.leb_spec off (length raw)); [reflexivity|lia]).
    assert (Hfe : forall ext, from (raw ++ ext) off = Val (skipn off raw ++ ext)).
    { intros ext. unfold from. rewrite app_length. destruct (Nat.leb_spec off (length raw + length ext)); [|lia].
      rewrite skipn_app_le by lia. reflexivity. }
    exists (has_prefix lit (skipn off raw)). cbn [evalb i_t i_f i_up i_dn]. rewrite Hf. split; [reflexivity|].
    repeat split.
    + intros Hv. apply has_prefix_len in Hv. rewrite skipn_length in Hv. lia.
    + intros; lia.
    + intros _ Hv ext. rewrite Hfe. rewrite has_prefix_app by exact Hv. reflexivity.
    + intros Hd Hv ext. nat_bools. rewrite Hfe. rewrite has_prefix_app_long; [rewrite Hv; reflexivity|].
      rewrite skipn_length. lia.
  - (* BEqualSlice *)
    destruct (Nat.leb_spec lo hi); [|discriminate]. destruct (Nat.leb_spec hi lb); [|discriminate].
    cbn in Hs. inversion Hs; subst.
    eapply stable_sound; [cbn [evalb]; rewrite slice_val by lia; reflexivity| |exact Hl].
    intros ext. cbn [evalb]. rewrite slice_app by lia. reflexivity.
  - (* BU16 *)
    destruct (Nat.leb_spec (off + 2) lb); [|discriminate]. inversion Hs; subst.
    eapply stable_sound; [cbn [evalb]; rewrite slice_val by lia; reflexivity| |exact Hl].
    intros ext. cbn [evalb]. rewrite slice_app by lia. reflexivity.
  - (* BU32 *)
    destruct (Nat.leb_spec (off + 4) lb); [|discriminate]. inversion Hs; subst.
    eapply stable_sound; [cbn [evalb]; rewrite slice_val by lia; reflexivity| |exact Hl].
    intros ext. cbn [evalb]. rewrite slice_app by lia. reflexivity.
  - (* BContainsWin *)
    destruct (Nat.leb_spec lo lb); [|discriminate]. destruct (Nat.leb_spec lo cap); [|discriminate].
    cbn in Hs. inversion Hs; subst. clear Hs.
    set (w := firstn (Nat.min cap (length raw) - lo) (skipn lo raw)).
    assert (Hw : slice raw lo (Nat.min cap (length raw)) = Val w) by (apply slice_val; lia).
    assert (Hwe : forall ext, exists t, slice (raw ++ ext) lo (Nat.min cap (length (raw ++ ext))) = Val (w ++ t)
                                   /\ (cap <= length raw -> t = [])).
    { intros ext. rewrite slice_val by (rewrite ?app_length; lia). rewrite app_length.
      rewrite skipn_app_le by lia. subst w.
      destruct (Nat.le_gt_cases cap (length raw)) as [Hc|Hc].
      - exists []. split; [|reflexivity]. rewrite app_nil_r. rewrite !Nat.min_l by lia.
        rewrite firstn_app_le; [reflexivity|]. rewrite skipn_length. lia.
      - rewrite (Nat.min_r cap (length raw)) by lia.
        rewrite (firstn_all2 (n := length raw - lo)) by (rewrite skipn_length; lia).
        rewrite firstn_app. rewrite skipn_length.
        rewrite (firstn_all2 (n := Nat.min cap (length raw + length ext) - lo)) by (rewrite skipn_length; lia).
        eexists; split; [reflexivity|lia]. }
    exists (contains lit w). cbn [evalb i_t i_f i_up i_dn]. rewrite Hw. split; [reflexivity|].
    repeat split; try (intros; lia).
    + intros _ Hv ext. destruct (Hwe ext) as (t & -> & _). rewrite contains_app by exact Hv. reflexivity.
    + intros Hd Hv ext. nat_bools. destruct (Hwe ext) as (t & -> & Ht). rewrite (Ht ltac:(lia)), app_nil_r, Hv. reflexivity.
  - (* BNot *)
    destruct (an lb a) as [ia|] eqn:Ea; [|discriminate]. inversion Hs; subst. clear Hs.
    destruct (IH _ _ raw Ea Hl) as (v & Hv & Ht & Hf & Hu & Hd).
    exists (negb v). cbn [i_t i_f i_up i_dn]. rewrite evalb_not, Hv. split; [reflexivity|].
    destruct v; cbn [negb]; repeat split; intros; try discriminate; auto; rewrite evalb_not.
    + rewrite Hu by auto. reflexivity.
    + rewrite Hd by auto. reflexivity.
  - (* BAnd *)
    destruct (an lb a) as [ia|] eqn:Ea; [|discriminate].
    destruct (an (i_t ia) c) as [ic|] eqn:Ec; [|discriminate]. inversion Hs; subst. clear Hs.
    destruct (IHa _ _ raw Ea Hl) as (va & Hva & Hta & Hfa & Hua & Hda).
    unfold sound1. cbn [i_t i_f i_up i_dn]. setoid_rewrite evalb_and. rewrite Hva. destruct va.
    + destruct (IHc _ _ raw Ec (Hta eq_refl)) as (vc & Hvc & Htc & Hfc & Huc & Hdc).
      exists vc. split; [exact Hvc|]. repeat split.
      * auto.
      * intros Hv. specialize (Hfc Hv). lia.
      * intros Hu Hv ext. nat_bools. rewrite Hua by auto. auto.
      * intros Hd Hv ext. nat_bools.
        assert (Hle : lb <= length (raw ++ ext)) by (rewrite app_length; lia).
        destruct (IHa _ _ (raw ++ ext) Ea Hle) as (va' & Hva' & Hta' & _).
        rewrite Hva'. destruct va'; [|reflexivity]. auto.
    + exists false. split; [reflexivity|]. repeat split; try discriminate.
      * intros _. specialize (Hfa eq_refl). lia.
      * intros Hd _ ext. nat_bools. rewrite Hda by auto. reflexivity.
  - (* BOr *)
    destruct (an lb a) as [ia|] eqn:Ea; [|discriminate].
    destruct (an (i_f ia) c) as [ic|] eqn:Ec; [|discriminate]. inversion Hs; subst. clear Hs.
    destruct (IHa _ _ raw Ea Hl) as (va & Hva & Hta & Hfa & Hua & Hda).
    unfold sound1. cbn [i_t i_f i_up i_dn]. setoid_rewrite evalb_or. rewrite Hva. destruct va.
    + exists true. split; [reflexivity|]. repeat split; try discriminate.
      * intros _. specialize (Hta eq_refl). lia.
      * intros Hu _ ext. nat_bools. rewrite Hua by auto. reflexivity.
    + destruct (IHc _ _ raw Ec (Hfa eq_refl)) as (vc & Hvc & Htc & Hfc & Huc & Hdc).
      exists vc. split; [exact Hvc|]. repeat split.
      * intros Hv. specialize (Htc Hv). lia.
      * auto.
      * intros Hu Hv ext. nat_bools.
        assert (Hle : lb <= length (raw ++ ext)) by (rewrite app_length; lia).
        destruct (IHa _ _ (raw ++ ext) Ea Hle) as (va' & Hva' & _).
        rewrite Hva'. destruct va'; [reflexivity|]. auto.
      * intros Hd Hv ext. nat_bools. rewrite Hda by auto. auto.
Qed.

Theorem anp_sound : forall p lb u raw, anp lb p = Some u -> lb <= length raw ->
  exists v, evalp p raw = Val v /\ (u = true -> v = true -> forall ext, evalp p (raw ++ ext) = Val true).
Proof.
  induction p as [e|c v rest IH]; intros lb u raw Hs Hl; cbn [anp] in Hs.
  - destruct (an lb e) as [i|] eqn:E; [|discriminate]. inversion Hs; subst.
    destruct (an_sound _ _ _ raw E Hl) as (x & Hx & _ & _ & Hu & _).
    exists x. split; [exact Hx|]. intros; rewrite evalp_ret; auto.
  - destruct (an lb c) as [ic|] eqn:Ec; [|discriminate].
    destruct (anp (i_f ic) rest) as [ur|] eqn:Er; [|discriminate]. inversion Hs; subst. clear Hs.
    destruct (an_sound _ _ _ raw Ec Hl) as (x & Hx & _ & Hf & Hu & Hd).
    setoid_rewrite evalp_if. rewrite Hx. destruct x.
    + exists v. split; [reflexivity|]. intros Hb -> ext.
      nat_bools. rewrite Hu by auto. reflexivity.
    + destruct (IH _ _ raw Er (Hf eq_refl)) as (y & Hy & Huy).
      exists y. split; [exact Hy|]. intros Hb -> ext. nat_bools.
      assert (Hle : lb <= length (raw ++ ext)) by (rewrite app_length; lia).
      destruct (an_sound _ _ _ (raw ++ ext) Ec Hle) as (x' & Hx' & _).
      rewrite Hx'. destruct x'.
      * destruct v; [reflexivity|]. rewrite Hd in Hx' by auto. discriminate.
      * auto.
Qed.

Theorem safe_sound p raw : safe p = true -> evalp p raw <> Panic.
Proof.
  unfold safe. destruct (anp 0 p) as [u|] eqn:E; [|discriminate]. intros _.
  destruct (anp_sound _ _ _ raw E (Nat.le_0_l _)) as (v & Hv & _). rewrite Hv. discriminate.
Qed.

Theorem mono_sound p raw ext : mono p = true -> evalp p raw = Val true -> evalp p (raw ++ ext) = Val true.
Proof.
  unfold mono. destruct (anp 0 p) as [u|] eqn:E; [|discriminate]. intros -> Hv.
  destruct (anp_sound _ _ _ raw E (Nat.le_0_l _)) as (v & Hv' & Hu). rewrite Hv in Hv'. inversion Hv'; subst. auto.
Qed.
