(* C14: Extend = insert a new leaf immediately in front of the existing children of its parent.
   Priority, containment and non-interference on the abstract tree, for arbitrary verdict functions. *)
From Verif Require Import Base.Bytes Model.Types Model.Tree Proofs.TreeP.
Local Open Scope nat_scope.

Lemma NoDup_app_l {A} (l1 l2 : list A) : NoDup (l1 ++ l2) -> NoDup l1.
Proof. induction l1 as [|a l1 IH]; [constructor|]. cbn. intros H. inversion H; subst. constructor; [intros Hi; apply H2, in_or_app; auto|auto]. Qed.
Lemma NoDup_app_r {A} (l1 l2 : list A) : NoDup (l1 ++ l2) -> NoDup l2.
Proof. induction l1 as [|a l1 IH]; [auto|]. cbn. intros H. inversion H; auto. Qed.

Lemma t_id_insert p k t : t_id (insert_first p k t) = t_id t.
Proof. destruct t as [n cs]. cbn [insert_first]. destruct (n =? p); reflexivity. Qed.

Section Ext.
  Variable acc : nat -> bool.

  Lemma first_kid_map_insert p k cs :
    Forall (fun c => walk acc (insert_first p k c) = walk acc c) cs ->
    first_kid acc (map (insert_first p k) cs) = first_kid acc cs.
  Proof.
    induction 1 as [|c l Hc _ IH]; [reflexivity|]. cbn [map]. rewrite !first_kid_cons, t_id_insert, Hc, IH. reflexivity.
  Qed.

  (* inputs the new detector rejects are classified exactly as before *)
  Theorem ext_noninterference p k : acc k = false -> forall t, walk acc (insert_first p k t) = walk acc t.
  Proof.
    intros Hk. induction t as [n cs IH] using tree_ind'.
    cbn [insert_first]. destruct (n =? p).
    - rewrite !walk_eq, first_kid_cons. cbn [t_id]. rewrite Hk. rewrite first_kid_map_insert by exact IH. reflexivity.
    - rewrite !walk_eq. rewrite first_kid_map_insert by exact IH. reflexivity.
  Qed.

  (* an input that reaches the parent and satisfies the new detector is classified under the extension,
     with the parent's chain as its ancestors, whatever the older siblings say *)
  Theorem ext_priority p k : acc k = true -> forall t,
    NoDup (flatten t) -> In p (walk acc t) ->
    exists pre rest, walk acc t = pre ++ p :: rest /\ walk acc (insert_first p k t) = pre ++ [p; k].
  Proof.
    intros Hk. induction t as [n cs IH] using tree_ind'. intros Hnd Hin.
    cbn [insert_first]. destruct (Nat.eqb_spec n p) as [->|Hne].
    - exists [], (first_kid acc cs). split; [apply walk_eq|].
      rewrite walk_eq, first_kid_cons. cbn [t_id]. rewrite Hk. reflexivity.
    - rewrite walk_eq in Hin. destruct Hin as [E|Hin]; [congruence|].
      (* p lies on the walk of the first accepting child *)
      cbn [flatten] in Hnd. inversion Hnd as [|? ? Hn Hnd']; subst.
      assert (Hgen : forall l, Forall (fun c => NoDup (flatten c) -> In p (walk acc c) ->
                  exists pre rest, walk acc c = pre ++ p :: rest /\ walk acc (insert_first p k c) = pre ++ [p; k]) l ->
                NoDup (flat_map flatten l) -> In p (first_kid acc l) ->
                exists pre rest, first_kid acc l = pre ++ p :: rest /\ first_kid acc (map (insert_first p k) l) = pre ++ [p; k]).
      { induction l as [|c l IHl]; intros Hall Hd Hi; [destruct Hi|].
        inversion Hall as [|? ? Hc Hl]; subst. cbn [flat_map] in Hd.
        pose proof (NoDup_app_l _ _ Hd) as Hdc.
        rewrite first_kid_cons in Hi. destruct (acc (t_id c)) eqn:Ea.
        - destruct (Hc Hdc Hi) as (pre & rest & H1 & H2). exists pre, rest.
          cbn [map]. rewrite !first_kid_cons, t_id_insert, Ea. split; assumption.
        - destruct (IHl Hl (NoDup_app_r _ _ Hd) Hi) as (pre & rest & H1 & H2). exists pre, rest.
          cbn [map]. rewrite !first_kid_cons, t_id_insert, Ea. split; assumption. }
      destruct (Hgen cs IH Hnd' Hin) as (pre & rest & H1 & H2).
      exists (n :: pre), rest. rewrite !walk_eq. rewrite H1, H2. split; reflexivity.
  Qed.
End Ext.

(* Lookup finds the extension under its parent: the new leaf is the first child of p *)
Theorem insert_first_child p k n cs : n = p -> insert_first p k (T n cs) = T n (T k [] :: map (insert_first p k) cs).
Proof. intros ->. cbn [insert_first]. rewrite Nat.eqb_refl. reflexivity. Qed.

(* histories: any finite sequence of Extend calls *)
Fixpoint extend_all (ops : list (nat * nat)) (t : tree) : tree :=     (* (parent, new id) *)
  match ops with [] => t | (p, k) :: ops' => extend_all ops' (insert_first p k t) end.

Theorem extends_noninterference acc ops : Forall (fun o => acc (snd o) = false) ops ->
  forall t, walk acc (extend_all ops t) = walk acc t.
Proof.
  induction 1 as [|[p k] ops Hk _ IH]; intros t; [reflexivity|].
  cbn [extend_all]. rewrite IH. apply ext_noninterference. exact Hk.
Qed.
