(* C06 - safe for concurrent use.
   PARTIAL by nature: proved is the lock discipline on a model of the RWMutex, and that the programs extracted
   from the source on every run (mutex calls incl. defer, sync/atomic calls, reads and writes of the shared
   locations, with same-package calls inlined; append on a shared slice counts as a write to its backing array)
   obey it.  The Go memory model, sync.Pool internals and the scheduler are not modelled; the runtime part is
   exercised by the race-detector stress run, whose results must also be explainable by a sequential
   execution (oracle table from a fresh sequential process). *)
From Verif Require Import Base.Bytes Model.Conc Gen.Access Proofs.ConcP.

(* a thread in write mode excludes every other holder of the mutex *)
Theorem C06_mutual_exclusion :
  forall g t u, ginv g -> holds g t = HW -> u <> t -> holds g u = HNone.
Proof. exact mutual_exclusion. Qed.
Print Assumptions C06_mutual_exclusion.

(* in every interleaving the mutex admits, of any number of threads that follow the discipline: a write to a
   guarded location happens while its thread holds the lock exclusively and nobody else holds it at all; a read
   happens while nobody else holds it in write mode *)
Theorem C06_discipline_excludes :
  forall pre t a post g,
    grun g0 (pre ++ (t, a) :: post) <> None -> all_disciplined (pre ++ (t, a) :: post) ->
    grun g0 pre = Some g -> exclusive g t a.
Proof. exact discipline_excludes. Qed.
Print Assumptions C06_discipline_excludes.

(* the regenerated obligation: every exported entry point of the package, as extracted from the source now,
   obeys the discipline (guarded: children slices under mu; atomic: readLimit; frozen: node fields and the
   aliases backing array are never written after publication) *)
Theorem C06_entry_points_disciplined : disciplined programs = true.
Proof. vm_compute. reflexivity. Qed.
Print Assumptions C06_entry_points_disciplined.

(* threads that call entry points one after the other follow the discipline *)
Theorem C06_sequences_of_calls :
  forall progs, forallb disciplined_prog progs = true -> lrun HNone (concat progs) = Some HNone.
Proof. exact lrun_programs. Qed.
Print Assumptions C06_sequences_of_calls.

(* the pinned lookup (append(m.aliases, m.mime) under the read lock) breaks the discipline: D5 *)
Example C06_pinned_lookup_refuted :
  disciplined_prog [RLock; Write LAliases; Read LMime; Read LChildren; RUnlock] = false.
Proof. reflexivity. Qed.
Example C06_unlocked_lookup_refuted : disciplined_prog [Read LMime; Read LAliases; Read LChildren] = false.
Proof. reflexivity. Qed.
