(* C19 - zip-based formats are identified from their leading entry names.
   PARTIAL: proved are the first-entry clauses (a signature that is a prefix of the first entry's name is
   found immediately: JAR; the offset-30 OpenDocument / EPUB signatures) and the structure of the zip
   sub-tree on the regenerated data (every zip-based format has application/zip as parent; apk is tried
   before jar - the source of known finding K3).  The five-hop walk over later entries (OOXML markers at
   entries 2..6, the converse) is decided on the implementation: archives written by archive/zip, the entry
   list read back with archive/zip as oracle, judged by the extracted predicates c19_forward / c19_converse /
   no_marker; K2 (an entry of footprint < 26 bytes before the marker) and K3 are known findings. *)
From Verif Require Import Base.Bytes Model.Types Model.GoLite Model.Zip Model.Detect Gen.TreeData Gen.SigData
  Spec.SpecZip Proofs.ZipP.

Theorem C19_first_entry_signature_found :
  forall skip hdr name rest sig mso,
    length hdr = 30 -> has_prefix sig name = true -> zip_contains skip (hdr ++ name ++ rest) sig mso = true.
Proof. exact zc_first_entry. Qed.
Print Assumptions C19_first_entry_signature_found.

Theorem C19_offset30_signature_found :
  forall hdr sig rest, length hdr = 30 -> sig <> [] -> evalp (offset_term sig 30) (hdr ++ sig ++ rest) = Val true.
Proof. exact offset30_first_entry. Qed.
Print Assumptions C19_offset30_signature_found.

Definition zip_id : nat := id_of_var "zip"%string.
Definition zip_kid_vars : list string :=
  match nth_error nodes zip_id with
  | Some n => map (fun i => match nth_error nodes i with Some c => n_var c | None => ""%string end) (n_children n)
  | None => [] end.

(* the zip sub-tree of the regenerated data: children (priority order), all with parent zip; apk before jar *)
Theorem C19_zip_subtree :
  zip_kid_vars = ["xlsx"; "docx"; "pptx"; "epub"; "apk"; "jar"; "odt"; "ods"; "odp"; "odg"; "odf"; "odc"; "sxc"]%string
  /\ forallb (fun n => match n_parent n with
                       | Some p => negb (existsb (String.eqb (n_var n)) zip_kid_vars) || Nat.eqb p zip_id
                       | None => true end) nodes = true.
Proof. vm_compute. split; reflexivity. Qed.
Print Assumptions C19_zip_subtree.

(* the marker literals of the implementation are the specification's *)
Theorem C19_markers_are_spec :
  first_lit "Docx"%string = b "word/" /\ first_lit "Xlsx"%string = b "xl/" /\ first_lit "Pptx"%string = b "ppt/"
  /\ first_lit "Jar"%string = manifest_name /\ lits_of "APK"%string = apk_markers
  /\ hd [] (lits_of "zipContains"%string) = pk34 /\ hd [] skip_files = ct_name.
Proof. vm_compute. repeat split. Qed.
Print Assumptions C19_markers_are_spec.

Example C19_jar_example :
  zc ([80;75;3;4]%N ++ repeat 0%N 26 ++ b "META-INF/MANIFEST.MF" ++ b "Manifest-Version: 1.0") manifest_name false = true.
Proof. vm_compute. reflexivity. Qed.
