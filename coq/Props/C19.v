(* C19 - zip-based formats are identified from their leading entry names.
   Proved: the first-entry clauses (JAR; the offset-30 OpenDocument / EPUB signatures); the structure of the zip
   sub-tree on the regenerated data (every zip-based format has application/zip as parent; apk is tried before
   jar - the source of known finding K3); and the five-hop walk (C19_walk): for an archive laid out as local
   entries (30-byte header, name, tail) followed by the central directory, under the layout conditions a standard
   writer guarantees - after offset 26 of an entry's footprint the next local-header signature is the next entry's
   header (footprint >= 26 bytes: K2 otherwise; no embedded signature), the first entry's compressed-size field
   points into or right behind its own footprint - and when the signature test at a name start is decided by the
   name (K5 otherwise), zipContains answers exactly "the signature is a prefix of one of the first six entry names,
   and for OOXML the first entry is one of the bookkeeping parts".  C19_hop_condition derives the hop condition
   from byte-level facts.  That archive/zip produces such layouts (data descriptors, zero size fields when
   streaming, no signature in deflated data of the generated bodies) is established on archives written by
   archive/zip with the entry list read back as oracle (c19 channel, predicates c19_forward / c19_converse). *)
From Verif Require Import Base.Bytes Model.Types Model.GoLite Model.Zip Model.Detect Gen.TreeData Gen.SigData
  Spec.SpecZip Proofs.ZipP Proofs.ZipWalkP Model.Detectors Gen.FuncTerms Proofs.TranslateP
  Model.GoRes Gen.SrcFuncs Proofs.SrcZipP.

Theorem C19_first_entry_signature_found :
  forall skip hdr name rest sig mso,
    length hdr = 30 -> has_prefix sig name = true -> zip_contains skip (hdr ++ name ++ rest) sig mso = true.
Proof. exact zc_first_entry. Qed.
Print Assumptions C19_first_entry_signature_found.

Theorem C19_offset30_signature_found :
  forall hdr sig rest, length hdr = 30 -> sig <> [] -> evalp (offset_term sig 30) (hdr ++ sig ++ rest) = Val true.
Proof. exact offset30_first_entry. Qed.
Print Assumptions C19_offset30_signature_found.

Definition zip_id : nat := id_of_var "zip"%string.
Definition zip_kid_vars : list string :=
  match nth_error nodes zip_id with
  | Some n => map (fun i => match nth_error nodes i with Some c => n_var c | None => ""%string end) (n_children n)
  | None => [] end.

(* the zip sub-tree of the regenerated data: children (priority order), all with parent zip; apk before jar *)
Theorem C19_zip_subtree :
  zip_kid_vars = ["xlsx"; "docx"; "pptx"; "epub"; "apk"; "jar"; "odt"; "ods"; "odp"; "odg"; "odf"; "odc"; "sxc"]%string
  /\ forallb (fun n => match n_parent n with
                       | Some p => negb (existsb (String.eqb (n_var n)) zip_kid_vars) || Nat.eqb p zip_id
                       | None => true end) nodes = true.
Proof. vm_compute. split; reflexivity. Qed.
Print Assumptions C19_zip_subtree.

(* the marker literals of the implementation are the specification's *)
Theorem C19_markers_are_spec :
  first_lit "Docx"%string = b "word/" /\ first_lit "Xlsx"%string = b "xl/" /\ first_lit "Pptx"%string = b "ppt/"
  /\ first_lit "Jar"%string = manifest_name /\ lits_of "APK"%string = apk_markers
  /\ hd [] (lits_of "zipContains"%string) = pk34 /\ hd [] skip_files = ct_name.
Proof. vm_compute. repeat split. Qed.
Print Assumptions C19_markers_are_spec.

(* the walk over a laid-out archive *)
Theorem C19_walk :
  forall skip sig mso central e1 es',
    walkable sig (e1 :: es') central -> first_ok e1 es' central ->
    (forall sf, In sf skip -> has_prefix sf (at_name e1 es' central) = has_prefix sf (e_name e1)) ->
    zip_contains skip (layout (e1 :: es') central) sig mso =
      has_prefix sig (e_name e1) ||
      ((negb mso || existsb (fun sf => has_prefix sf (e_name e1)) skip) &&
       existsb (fun x => has_prefix sig (e_name x)) (firstn 5 es')).
Proof. exact zip_contains_layout. Qed.
Print Assumptions C19_walk.

(* where the hop condition comes from: footprint >= 26, the next header starts with the signature, and no
   signature occurs from offset 26 of the footprint up to that header *)
Theorem C19_hop_condition :
  forall e e2 es2 central,
    26 <= length (gap e) -> has_prefix pk34 (e_hdr e2) = true ->
    (forall j, 26 <= j < length (gap e) -> ~ occurs_at (at_name e (e2 :: es2) central) j) ->
    hop_ok e (e2 :: es2) central.
Proof. exact hop_ok_intro. Qed.
Print Assumptions C19_hop_condition.

(* non-vacuity: a three-entry OOXML package (sizes zero in the local headers, as a streaming writer leaves them) *)
Definition ex_hdr : bytes := pk34 ++ repeat 0%N 26.
Definition ex_entries : list entry :=
  [mk_entry ex_hdr (b "[Content_Types].xml") (repeat 65%N 40);
   mk_entry ex_hdr (b "docProps/app.xml") (repeat 66%N 30);
   mk_entry ex_hdr (b "word/document.xml") (repeat 67%N 30)].
Example C19_walk_example :
  walkable (b "word/") ex_entries [80;75;1;2]%N /\
  first_ok (hd (mk_entry [] [] []) ex_entries) (tl ex_entries) [80;75;1;2]%N /\
  zip_contains skip_files (layout ex_entries [80;75;1;2]%N) (b "word/") true = true.
Proof. vm_compute. repeat split; try reflexivity; try lia. Qed.

Example C19_jar_example :
  zc ([80;75;3;4]%N ++ repeat 0%N 26 ++ b "META-INF/MANIFEST.MF" ++ b "Manifest-Version: 1.0") manifest_name false = true.
Proof. vm_compute. reflexivity. Qed.

(* regenerated obligation: the signature test of application/zip itself (func Zip) in the CURRENT source is the term
   the model evaluates (equal up to the normalisation proved to preserve result and Panic, TranslateP.normp_sound),
   and that term is the zip_bexp the walk theorems use *)
Theorem C19_zip_signature_is_the_source :
  match assoc "Zip" gen_func_terms, assoc "Zip" func_terms with
  | Some g, Some h => bexp_eqb (normp h) (normp g) && bexp_eqb (normp h) (norm zip_bexp)
  | _, _ => false
  end = true.
Proof. vm_compute. reflexivity. Qed.
Print Assumptions C19_zip_signature_is_the_source.

(* regenerated obligation: in the CURRENT source Docx / Xlsx / Pptx / Jar are single calls of zipContains with the
   marker and the OOXML flag the model uses *)
Theorem C19_zip_calls_are_the_source : call_shapes_agree_for ["Docx"; "Xlsx"; "Pptx"; "Jar"]%string = true.
Proof. vm_compute. reflexivity. Qed.
Print Assumptions C19_zip_calls_are_the_source.

(* the walk the theorems above are about IS the current source: zipContains as translated from
   /repo/internal/magic/zip.go on this run (readBuf.advance, the skip list, the uint32 search offset, the second hop
   indexed relative to raw[searchOffset:], four further hops) never reaches Panic and returns zip_contains, for every
   input, marker and msoCheck; the five detectors built on it return the models of their nodes *)
Theorem C19_zip_walk_is_the_source :
  forall raw sig mso, src_zipContains raw sig mso = Val (zip_contains skip_files raw sig mso).
Proof. exact src_zipContains_ok. Qed.
Print Assumptions C19_zip_walk_is_the_source.

Theorem C19_zip_detectors_are_the_source : forall raw l,
  src_Docx raw l = Val (zc raw (first_lit "Docx") true) /\ src_Xlsx raw l = Val (zc raw (first_lit "Xlsx") true) /\
  src_Pptx raw l = Val (zc raw (first_lit "Pptx") true) /\ src_Jar raw l = Val (zc raw (first_lit "Jar") false) /\
  src_APK raw l = Val (existsb (fun s => zc raw s false) (lits_of "APK")).
Proof. intros raw l. repeat split. - apply src_Docx_ok. - apply src_Xlsx_ok. - apply src_Pptx_ok. - apply src_Jar_ok. - apply src_APK_ok. Qed.
Print Assumptions C19_zip_detectors_are_the_source.
