(* C07 - text versus binary is decided by binary-data bytes. *)
From Verif Require Import Base.Bytes Model.Types Model.Text Model.Detect Gen.TreeData Gen.Tables
  Spec.SpecText Proofs.TextP Proofs.DetectP
  Model.GoRes Gen.SrcFuncs Gen.Tables Proofs.SrcTextP.

(* the implementation's BOM table is the specification's (regenerated data obligation) *)
Theorem C07_bom_table_is_spec : boms = spec_boms.
Proof. exact ob_boms. Qed.
Print Assumptions C07_bom_table_is_spec.

(* magic.Text = BOM or no WHATWG binary data byte, for every byte string *)
Theorem C07_text_detector_spec : forall raw, text_det spec_boms raw = text_spec raw.
Proof. exact text_det_spec. Qed.
Print Assumptions C07_text_detector_spec.

(* text/plain anywhere in the reported hierarchy only if the examined header has a BOM or no binary byte *)
Theorem C07_text_only_if :
  forall orc l x i, In i (detect_path orc l x) -> has_mime i (b "text/plain") -> text_spec (hdr l x) = true.
Proof. exact text_only_if. Qed.
Print Assumptions C07_text_only_if.

(* conversely such a header (the empty input included) is never the bare root *)
Theorem C07_text_if :
  forall orc l x, text_spec (hdr l x) = true -> 2 <= length (detect_path orc l x).
Proof. exact text_if. Qed.
Print Assumptions C07_text_if.

Example C07_empty_is_text : text_spec [] = true. Proof. reflexivity. Qed.
Example C07_vt_is_binary : text_spec (b "a" ++ [11%N] ++ b "b") = false. Proof. reflexivity. Qed.
Example C07_bom_wins : text_spec [255;254;0;0]%N = true. Proof. reflexivity. Qed.

(* the detector the clauses above are about IS the current source: magic.Text as translated on this run (the BOM test
   through charset.FromBOM read as from_bom over the regenerated table, the loop over every byte of the header with its
   four-range test) never reaches Panic and returns text_det, for every input *)
Theorem C07_text_is_the_source : forall raw l, src_Text raw l = Val (text_det boms raw).
Proof. exact src_Text_ok. Qed.
Print Assumptions C07_text_is_the_source.
