(* C01 - detection never crashes and always answers (the part that is logic: length guards).
   Proved: (1) for every detector in the GoLite fragment (regenerated combinator instances + function terms):
   index and slice expressions carry a Panic semantics that is stricter than Go's (bound len, not cap) and a
   verified bounds analysis accepts them all; (2) for the offset-computing detectors - zipContains (Xlsx, Docx,
   Pptx, Jar, APK), CRX, matchOleClsid (Doc, Xls, Pub, Msg, Msi, Ppt), Ppt's fixed offsets, Matroska (WebM, Mkv),
   Tar - "checked" transliterations in which every index / slice expression of the Go function carries its
   run-time check never reach Panic, for any input, and compute the total models the other properties use
   (uint32 wrap-around and 64-bit int arithmetic as in the code); (3) the walk always answers.
   Not proved: the JSON scanner, NDJSON / CSV readers and the charset sniffers are modelled as total list
   functions in suffix-passing style (no index expressions to check); stdlib calls are assumed not to panic; the
   crash- and hang-freedom of the real code is exercised (recover, poisoned capacity, hostile length fields,
   watchdog). *)
From Verif Require Import Base.Bytes Model.Types Model.GoLite Model.Detect Gen.TreeData Gen.SigData
  Model.Zip Model.Ole Model.Mkv Model.Tar Model.Checked Proofs.GoLiteP Proofs.SafeP Proofs.CheckedP Gen.FuncTerms Model.Detectors Proofs.TranslateP
  Model.GoRes Model.SrcDetect Gen.SrcFuncs Proofs.SrcOleP Proofs.SrcZipP Proofs.SrcMkvP Proofs.SrcTarP Proofs.SrcAllP Model.Sigs Proofs.SrcTextP.

(* the bounds analysis is sound: a term it accepts never indexes or slices outside the header *)
Theorem C01_bounds_analysis_sound : forall p raw, safe p = true -> evalp p raw <> Panic.
Proof. exact safe_sound. Qed.
Print Assumptions C01_bounds_analysis_sound.

(* data obligation on the regenerated tree: every combinator instance and every GoLite function term is accepted *)
Theorem C01_all_detectors_guarded :
  forallb (fun o => match o with Some d => safe_ok d | None => true end) node_dets = true.
Proof. exact ob_all_safe. Qed.
Print Assumptions C01_all_detectors_guarded.

(* every node of the regenerated tree has a model (or is one of Srt, Csv, Tsv) *)
Theorem C01_all_nodes_modelled :
  forallb (fun n => match node_det n with
                    | Some d => match compile_det d with Some _ => true | None => existsb (String.eqb (n_det n)) opaque_names end
                    | None => false end) nodes = true.
Proof. exact ob_all_modelled. Qed.
Print Assumptions C01_all_nodes_modelled.

(* hence no registered signature check panics, on any header at any limit *)
Theorem C01_partial_no_detector_panics :
  forall id d raw lim, nth_error node_dets id = Some (Some d) -> eval_det d raw lim <> Some Panic.
Proof. exact node_never_panics. Qed.
Print Assumptions C01_partial_no_detector_panics.

(* and Detect always answers with a path that starts at the root *)
Theorem C01_detect_total : forall orc l x, exists p, detect_path orc l x = 0 :: p.
Proof. exact detect_total. Qed.
Print Assumptions C01_detect_total.

(* regenerated obligation: the bodies of the loop-free function detectors, translated from the CURRENT source
   (Gen/FuncTerms.v: straight-line code, loops over literal tables and constant ranges unrolled, switches on constants,
   masked comparisons, helper functions inlined), equal the hand-written terms up to a normalisation proved to
   preserve the result and the Panic behaviour (TranslateP.normp_sound) ... *)
Theorem C01_function_terms_are_the_source : translation_agrees = true.
Proof. vm_compute. reflexivity. Qed.
Print Assumptions C01_function_terms_are_the_source.

(* ... and every hand-written term is tied this way: none is left to behavioural correspondence alone ... *)
Theorem C01_every_hand_term_is_translated :
  forallb (fun nh => match assoc (fst nh) gen_func_terms with Some _ => true | None => false end) func_terms = true.
Proof. vm_compute. reflexivity. Qed.
Print Assumptions C01_every_hand_term_is_translated.

(* ... hence compute the same result, Panic included, on every input ... *)
Theorem C01_source_terms_equal_hand_terms :
  forall name g h raw, In (name, g) gen_func_terms -> assoc name func_terms = Some h -> evalp h raw = evalp g raw.
Proof. exact (translated_terms_equal C01_function_terms_are_the_source). Qed.
Print Assumptions C01_source_terms_equal_hand_terms.

(* ... and every translated body passes the verified bounds analysis directly *)
Theorem C01_source_terms_guarded : forallb (fun ng => safe (snd ng)) gen_func_terms = true.
Proof. vm_compute. reflexivity. Qed.
Print Assumptions C01_source_terms_guarded.

(* the same for the signatures built by the combinators prefix / offset / ftyp / jpeg2k: the closure body in the current
   source, instantiated with the literal arguments of each of the registered uses, is the term the model evaluates *)
Theorem C01_combinator_terms_are_the_source : comb_translation_agrees = true.
Proof. vm_compute. reflexivity. Qed.
Print Assumptions C01_combinator_terms_are_the_source.

Theorem C01_combinator_terms_equal_model_terms :
  forall name d h raw, assoc name sigs = Some d -> comb_hand d = Some h ->
    exists g, assoc name gen_comb_terms = Some g /\ evalp h raw = evalp g raw.
Proof. exact (comb_terms_equal C01_combinator_terms_are_the_source). Qed.
Print Assumptions C01_combinator_terms_equal_model_terms.

Theorem C01_combinator_source_terms_guarded : forallb (fun ng => safe (snd ng)) gen_comb_terms = true.
Proof. vm_compute. reflexivity. Qed.
Print Assumptions C01_combinator_source_terms_guarded.

(* the offset-computing detectors: every index / slice expression is in bounds, whatever the length fields say *)
Theorem C01_offset_detectors_never_panic :
  (forall skip raw sig mso, zip_contains_chk skip raw sig mso = Val (zip_contains skip raw sig mso)) /\
  (forall raw, crx_chk raw = Val (crx_det raw)) /\
  (forall inp clsid, match_ole_clsid_chk inp clsid = Val (match_ole_clsid inp clsid)) /\
  (forall raw, ppt_chk raw = Val (ppt_det raw)) /\
  (forall inp fl, matroska_chk inp fl = Val (matroska inp fl)) /\
  (forall raw, tar_chk raw = Val (tar_det raw)).
Proof.
  repeat split; intros.
  - apply zip_contains_ok. - apply crx_ok. - apply match_ole_clsid_ok. - apply ppt_ok. - apply matroska_ok. - apply tar_ok.
Qed.
Print Assumptions C01_offset_detectors_never_panic.

(* the same detectors AS TRANSLATED FROM THE CURRENT SOURCE (Gen/SrcFuncs.v, translator harness/gores.go: each Go
   statement one binding, every index / slice expression and binary.X.Uint32 call with its run-time check, Go's
   evaluation order, uint32 / uint8 wrap-around, loops over the input as range_loop, `for cond` as while_loop with
   fuel): all thirty-seven functions are inside the translator's fragment ... *)
Theorem C01_offset_detectors_all_translated : src_untranslated = [].
Proof. reflexivity. Qed.
Print Assumptions C01_offset_detectors_all_translated.

(* ... and for every input made of bytes, at every limit, none of the eighteen detectors of the table src_dets (the offset-computing ones, Text, Svg, Php) reaches Panic (an index or
   slice out of range, a Uint32 on fewer than four bytes, exhausted loop fuel), and each computes exactly the model
   that the tree walk evaluates for its node *)
Theorem C01_source_offset_detectors_never_panic : forall name f raw (l : N), bytes_ok raw = true -> In (name, f) src_dets ->
  exists h, assoc name hand_models = Some h /\ f raw (Z.of_N l) = Val (h raw l).
Proof. exact src_dets_equal_models. Qed.
Print Assumptions C01_source_offset_detectors_never_panic.

(* the helpers on which no byte-range hypothesis is needed: any list of numbers *)
Theorem C01_source_helpers_never_panic :
  (forall inp clsid, src_matchOleClsid inp clsid = Val (match_ole_clsid inp clsid)) /\
  (forall raw sig mso, src_zipContains raw sig mso = Val (zip_contains skip_files raw sig mso)) /\
  (forall raw l, src_CRX raw l = Val (crx_det raw)) /\
  (forall fld, src_tarParseOctal fld = Val (match tar_parse_octal fld with Some r => Z.of_N r | None => (-1)%Z end)).
Proof.
  repeat split; intros.
  - apply src_matchOleClsid_ok. - apply src_zipContains_ok. - apply src_CRX_ok. - apply src_tarParseOctal_ok.
Qed.
Print Assumptions C01_source_helpers_never_panic.

(* the four combinators that loop over the input - ciPrefix, markup, xml, shebang (24 registered signatures) - and their
   helpers, as translated from the current source: the index-driven loops `for ; i < len(in) && isWS(in[i]); i++ {}`
   (forwards in trimLWS / firstLine, backwards in trimRWS), the loop over the signature reading raw[i], raw[len(sig)],
   and the loops over the signature lists never index out of range, never exhaust their fuel (S (len in) rounds) and
   compute the list models, for EVERY signature list and every input *)
Theorem C01_source_text_combinators_never_panic :
  (forall sigs raw l, src_ciPrefix sigs raw l = Val (ci_prefix sigs raw)) /\
  (forall sigs raw l, src_markup sigs raw l = Val (markup sigs raw)) /\
  (forall sigs raw l, src_xml sigs raw l = Val (xml_det sigs raw)) /\
  (forall sigs raw l, src_shebang sigs raw l = Val (shebang sigs raw)) /\
  (forall l, src_trimLWS l = Val (trim_lws l)) /\ (forall l, src_trimRWS l = Val (trim_rws l)) /\
  (forall l, src_firstLine l = Val (first_line l)).
Proof.
  repeat split; intros.
  - apply src_ciPrefix_ok. - apply src_markup_ok. - apply src_xml_ok. - apply src_shebang_ok.
  - apply src_trimLWS_ok. - apply src_trimRWS_ok. - apply src_firstLine_ok.
Qed.
Print Assumptions C01_source_text_combinators_never_panic.

(* non-vacuity of the translation: the translated CRX really evaluates its slices (a 15-byte input is refused by the
   guard, not by luck), and the partial operations do panic when unguarded *)
Example C01_source_crx_runs :
  src_CRX [67;114;50;52;0;0;0;0;0;0;0;0;0;0;0;0;80;75;3;4]%N 0%Z = Val true /\ zslice [1;2;3]%N 2 5 = @Panic bytes /\ zu32le [1;2;3]%N = Panic.
Proof. vm_compute. repeat split; reflexivity. Qed.

(* non-vacuity: the same transliteration with CRX's guard weakened (seeded change C01-1 compares against len+1)
   does reach Panic on a 16-byte input whose length fields sum to 1 *)
Example C01_crx_weak_guard_panics :
  (let raw := [67;114;50;52;0;0;0;0;1;0;0;0;0;0;0;0]%N in
   rbind (from raw (N.to_nat ((16 + u32le (skipn 8 raw) + u32le (skipn 12 raw)) mod two32))) (fun r => evalb zip_bexp r)) = Panic.
Proof. vm_compute. reflexivity. Qed.

(* the analysis is not vacuous: a weakened guard is rejected, and the offending input panics *)
Example C01_weak_guard_rejected :
  safe (PRet (BAnd (BLen CGt 127) (BEqualSlice 128 132 [68;73;67;77]%N))) = false.
Proof. reflexivity. Qed.
Example C01_weak_guard_panics :
  evalp (PRet (BAnd (BLen CGt 127) (BEqualSlice 128 132 [68;73;67;77]%N))) (repeat 0%N 130) = Panic.
Proof. vm_compute. reflexivity. Qed.
