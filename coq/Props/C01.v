(* C01 - detection never crashes and always answers (the part that is logic: length guards).
   PARTIAL: proved for every detector in the GoLite fragment (index and slice expressions carry a
   Panic semantics that is stricter than Go's: bound len, not cap) and for the walk.  The hand models
   of the offset-computing detectors (zip walk, CRX, OLE CLSID, matroska, tar), the JSON scanner, the
   CSV reader and the charset sniffers are total Gallina functions over lists; their crash-freedom on
   the real code is established by the correspondence run (recover, poisoned capacity, watchdog). *)
From Verif Require Import Base.Bytes Model.Types Model.GoLite Model.Detect Gen.TreeData
  Proofs.GoLiteP Proofs.SafeP.

(* the bounds analysis is sound: a term it accepts never indexes or slices outside the header *)
Theorem C01_bounds_analysis_sound : forall p raw, safe p = true -> evalp p raw <> Panic.
Proof. exact safe_sound. Qed.
Print Assumptions C01_bounds_analysis_sound.

(* data obligation on the regenerated tree: every combinator instance and every GoLite function term is accepted *)
Theorem C01_all_detectors_guarded :
  forallb (fun o => match o with Some d => safe_ok d | None => true end) node_dets = true.
Proof. exact ob_all_safe. Qed.
Print Assumptions C01_all_detectors_guarded.

(* every node of the regenerated tree has a model (or is one of Srt, Csv, Tsv) *)
Theorem C01_all_nodes_modelled :
  forallb (fun n => match node_det n with
                    | Some d => match compile_det d with Some _ => true | None => existsb (String.eqb (n_det n)) opaque_names end
                    | None => false end) nodes = true.
Proof. exact ob_all_modelled. Qed.
Print Assumptions C01_all_nodes_modelled.

(* hence no registered signature check panics, on any header at any limit *)
Theorem C01_partial_no_detector_panics :
  forall id d raw lim, nth_error node_dets id = Some (Some d) -> eval_det d raw lim <> Some Panic.
Proof. exact node_never_panics. Qed.
Print Assumptions C01_partial_no_detector_panics.

(* and Detect always answers with a path that starts at the root *)
Theorem C01_detect_total : forall orc l x, exists p, detect_path orc l x = 0 :: p.
Proof. exact detect_total. Qed.
Print Assumptions C01_detect_total.

(* the analysis is not vacuous: a weakened guard is rejected, and the offending input panics *)
Example C01_weak_guard_rejected :
  safe (PRet (BAnd (BLen CGt 127) (BEqualSlice 128 132 [68;73;67;77]%N))) = false.
Proof. reflexivity. Qed.
Example C01_weak_guard_panics :
  evalp (PRet (BAnd (BLen CGt 127) (BEqualSlice 128 132 [68;73;67;77]%N))) (repeat 0%N 130) = Panic.
Proof. vm_compute. reflexivity. Qed.
