(* C09 - malformed JSON is not reported as JSON. *)
From Verif Require Import Base.Bytes Model.Json Model.Detect Spec.JsonGrammar Proofs.JsonAcct Proofs.JsonSound Proofs.JsonPartial Proofs.JsonTop
  Gen.Tables.

(* no byte is counted twice: the supporting accounting invariant of the whole scanner *)
Theorem C09_accounting :
  forall maxrec qs tk fuel w b lvl s, acct b s (go maxrec qs tk fuel w b lvl s).
Proof. intros. apply go_acct. Qed.
Print Assumptions C09_accounting.

(* every successful scan consumed a word of the relaxed language of its entry point *)
Theorem C09_scanner_sound :
  forall maxrec qs tk fuel w b lvl s r s', go maxrec qs tk fuel w b lvl s = (Some r, s') -> exists x, b = x ++ r /\ Lang w x.
Proof. intros maxrec qs tk fuel. exact (go_sound maxrec qs tk fuel). Qed.
Print Assumptions C09_scanner_sound.

(* a failed scan that inspected all of its input stopped on a prefix of a word *)
Theorem C09_scanner_partial :
  forall maxrec qs tk fuel w b lvl s s', go maxrec qs tk fuel w b lvl s = (None, s') ->
    (ib s' = ib s + length b)%nat -> exists ext, Lang w (b ++ ext).
Proof. intros maxrec qs tk fuel. exact (go_partial maxrec qs tk fuel). Qed.
Print Assumptions C09_scanner_partial.

(* the property, whole mode: any JSON-family verdict (any query, any wanted token set, any recursion cap)
   on a wholly examined input implies a single relaxed document *)
Theorem C09_whole :
  forall maxrec qs tk want raw limit,
    json_helper maxrec tk qs want raw limit = true -> (limit = 0 \/ N.of_nat (length raw) < limit)%N -> RDoc raw.
Proof. exact json_sound_whole. Qed.
Print Assumptions C09_whole.

(* the property, truncated mode: the examined bytes are a prefix of some relaxed document *)
Theorem C09_truncated :
  forall maxrec qs tk want raw limit,
    json_helper maxrec tk qs want raw limit = true -> limit <> 0%N -> (limit <= N.of_nat (length raw))%N ->
    exists ext, RDoc (raw ++ ext).
Proof. exact json_sound_truncated. Qed.
Print Assumptions C09_truncated.

(* instance: the four JSON-family detectors of the regenerated tables *)
Theorem C09_detectors :
  forall q want raw limit, json_family q want raw limit = true ->
    ((limit = 0 \/ N.of_nat (length raw) < limit)%N -> RDoc raw) /\
    (limit <> 0%N -> (limit <= N.of_nat (length raw))%N -> exists ext, RDoc (raw ++ ext)).
Proof.
  intros q want raw limit H. unfold json_family in H. split.
  - intros Hl. eapply json_sound_whole; eauto.
  - intros Hn Hle. eapply json_sound_truncated; eauto.
Qed.
Print Assumptions C09_detectors.

(* non-vacuity and the legacy refutation are in Legacy/JsonLegacyRefute.v; here: accepted / rejected samples *)
Example C09_accepts : json_family "none"%string (N.lor tok_object tok_array) (b "[1,{""a"":null}]") 0 = true.
Proof. vm_compute. reflexivity. Qed.
Example C09_rejects_lone_bracket : json_family "none"%string (N.lor tok_object tok_array) (b "[") 0 = false.
Proof. vm_compute. reflexivity. Qed.
Example C09_rejects_nested_failure : json_family "none"%string (N.lor tok_object tok_array) (b "[{]") 0 = false.
Proof. vm_compute. reflexivity. Qed.
