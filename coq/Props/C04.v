(* C04 - detection is a pure function of the examined header.
   The pooled scratch state of the JSON scanner is modelled explicitly (the pool may hand out any recycled
   state or a fresh one); the bufio.Reader pool of the CSV check is covered by the hypothesis that
   Reset discards all state.  That the caller's buffer is never written is not expressible over immutable
   lists: it is established on the implementation (hash before / after, poisoned capacity) and by the regenerated
   obligation at the end of this file (no statement of the library writes through a []byte parameter). *)
From Verif Require Import Base.Bytes Model.Json Model.Pool Model.Detect Proofs.BytesP Proofs.PoolP Gen.InputWrites.
From Coq Require Import Lia.

(* the model's Detect looks at the header only: inputs with the same first `limit` bytes get the same result,
   whatever the oracle answers for opaque detectors; in particular the bytes behind the limit are irrelevant *)
Theorem C04_depends_on_header_only :
  forall orc l x y, hdr l x = hdr l y -> detect_path orc l x = detect_path orc l y.
Proof. intros orc l x y H. unfold detect_path. rewrite H. reflexivity. Qed.
Print Assumptions C04_depends_on_header_only.

Theorem C04_bytes_past_the_limit_do_not_matter :
  forall orc (l : N) p t1 t2, l <> 0%N -> (l <= N.of_nat (length p))%N ->
    detect_path orc l (p ++ t1) = detect_path orc l (p ++ t2).
Proof.
  intros orc l p t1 t2 Hl Hle. apply C04_depends_on_header_only. unfold hdr.
  destruct (N.eqb_spec l 0); [contradiction|]. rewrite !take_firstn, !firstn_app.
  replace (N.to_nat l - length p) with 0 by lia. reflexivity.
Qed.
Print Assumptions C04_bytes_past_the_limit_do_not_matter.

Theorem C04_reset_erases : forall s s', reset s = reset s'.
Proof. exact reset_erases. Qed.
Print Assumptions C04_reset_erases.

(* whatever state the pool hands out, Parse returns what a fresh state of the same cap returns *)
Theorem C04_parse_independent_of_recycled_state :
  forall tk p qs raw, fst (parse_on tk p qs raw) = parse (ps_maxrec p) tk qs raw.
Proof. exact parse_on_pure. Qed.
Print Assumptions C04_parse_independent_of_recycled_state.

(* every finite history of parses (successful, failed, truncated, huge), every pool behaviour: each result is
   the pure function of its own query and input *)
Theorem C04_history_pure :
  forall tk cap ops choices pool, PoolInv cap pool ->
    run tk cap ops choices pool = map (fun o => parse cap tk (fst o) (snd o)) ops.
Proof. exact history_pure. Qed.
Print Assumptions C04_history_pure.

Example C04_example :
  let tk := (2,4,8,16,32,64,128)%N in
  run tk 4096 [([], b "{""a"":{""b"":[{""c"":"); ([], b "{""a"":1}")] [None; Some 0] [] =
  [parse 4096 tk [] (b "{""a"":{""b"":[{""c"":"); parse 4096 tk [] (b "{""a"":1}")].
Proof. vm_compute. reflexivity. Qed.

(* regenerated obligation (harness/inwrites.go, conservative syntactic taint analysis over the CURRENT source of mimetype.go,
   mime.go, tree.go, internal/magic, internal/json, internal/charset): no element assignment, copy, append or
   buffer-filling call whose target is a []byte / readBuf parameter or a local derived from one *)
Theorem C04_no_statement_writes_through_an_input_slice : input_writes = [].
Proof. reflexivity. Qed.
Print Assumptions C04_no_statement_writes_through_an_input_slice.

Example C04_write_scan_is_not_empty : 100 <= input_write_functions_scanned /\ In "internal/magic/archive.go"%string input_write_scope.
Proof. split; [vm_compute; repeat constructor|vm_compute; tauto]. Qed.
