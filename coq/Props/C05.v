(* C05 - bytes, reader and file entry points agree; reads stop at the limit; errors surface.
   The reader is a script (chunk sizes incl. zero-length reads, data returned together with EOF, injected
   errors); io.ReadFull / io.ReadAll are transliterated.  os.File is assumed to be a conforming reader. *)
From Verif Require Import Base.Bytes Model.Reader Proofs.ReaderP.

(* for every input, every limit and every failure-free script: the header handed to the tree walk is exactly
   the header Detect examines (so the results agree), no error is reported, and at most `limit` bytes are
   taken from the reader (everything when the limit is 0) *)
Theorem C05_reader_agrees :
  forall limit x sc, no_fail sc ->
    exists r', detect_reader_read limit (mk_reader x sc) = (Some (hdr limit x), RNil, r')
               /\ (limit <> 0%N -> (N.of_nat (reader_consumed (mk_reader x sc) r') <= limit)%N)
               /\ (limit = 0%N -> reader_consumed (mk_reader x sc) r' = length x).
Proof. exact reader_agrees. Qed.
Print Assumptions C05_reader_agrees.

(* io.ReadFull over a failure-free reader returns exactly the first `size` bytes *)
Theorem C05_read_full :
  forall fuel r size acc x,
    no_fail (script r) -> x = acc ++ rem r -> length acc <= size -> length (script r) + length (rem r) + 1 <= fuel ->
    exists got e r', read_full_f fuel r size acc = (got, e, r') /\ got = firstn size x /\
      (e = RNil \/ e = REOF \/ e = RUnexpectedEOF) /\ x = got ++ rem r' /\ no_fail (script r').
Proof. exact read_full_ok. Qed.
Print Assumptions C05_read_full.

(* special case kept for reference: a reader that fails at once yields errMIME (no header is matched) together with that error *)
Theorem C05_partial_error_at_start :
  forall limit x e sc, exists r', detect_reader_read limit (mk_reader x (Fail e :: sc)) = (None, RErr e, r').
Proof. exact reader_error_at_start. Qed.
Print Assumptions C05_partial_error_at_start.

(* a failure after ANY failure-free prefix of reads: the outcome is either that of the failure-free case (the
   header was complete before the failing read was reached) or errMIME with exactly that error - never another
   error, never a partial header *)
Theorem C05_error_anywhere :
  forall limit x pre e post, no_fail pre ->
    (exists r', detect_reader_read limit (mk_reader x (pre ++ Fail e :: post)) = (Some (hdr limit x), RNil, r')) \/
    (exists r', detect_reader_read limit (mk_reader x (pre ++ Fail e :: post)) = (None, RErr e, r')).
Proof. exact reader_error_anywhere. Qed.
Print Assumptions C05_error_anywhere.

(* "before the header is complete": when the reads preceding the failure offer fewer bytes than the input holds
   and than the limit asks for, the error surfaces - however many bytes were delivered before it *)
Theorem C05_error_before_header :
  forall limit x pre e post, no_fail pre -> offered pre < length x -> (limit = 0 \/ N.of_nat (offered pre) < limit)%N ->
    exists r', detect_reader_read limit (mk_reader x (pre ++ Fail e :: post)) = (None, RErr e, r').
Proof. exact reader_error_before_header. Qed.
Print Assumptions C05_error_before_header.

Example C05_one_byte_chunks :
  fst (detect_reader_read 4 (mk_reader [1;2;3;4;5;6]%N [Chunk 1 false; Chunk 0 false; Chunk 1 false; Chunk 1 true])) = (Some [1;2;3;4]%N, RNil).
Proof. vm_compute. reflexivity. Qed.
Example C05_error_mid_stream :
  fst (detect_reader_read 4 (mk_reader [1;2;3;4;5;6]%N [Chunk 2 false; Fail 9])) = (None, RErr 9).
Proof. vm_compute. reflexivity. Qed.
