(* C18 - tar detection tracks header checksum validity.  K1 (Gentoo gpkg names) is an explicit hypothesis. *)
From Verif Require Import Base.Bytes Model.Types Model.Tar Model.Detect Gen.TreeData Spec.SpecTar Proofs.TarP
  Model.GoRes Gen.SrcFuncs Proofs.SrcTarP.

(* the arithmetic heart: after corrupting one byte outside the checksum field the recorded sum (unsigned or
   signed convention) equals neither recomputed sum *)
Theorem C18_corruption_breaks_both :
  forall h p v rec,
    (p < length h)%nat -> in_field p = false -> (v < 256)%N -> (nth p h 0 < 256)%N -> v <> nth p h 0%N ->
    (rec = usum h \/ rec = ssum h) -> rec <> usum (upd h p v) /\ rec <> ssum (upd h p v).
Proof. exact corruption_breaks_both. Qed.
Print Assumptions C18_corruption_breaks_both.

(* every header block a conforming writer emits (tar_header_ok: 512 bytes, octal checksum field recording the
   unsigned or signed sum with the field taken as spaces) is accepted, whatever follows, at any limit *)
Theorem C18_tar_accepts :
  forall h rest, tar_header_ok h = true -> gpkg_name h = false -> tar_det (h ++ rest) = true.
Proof. exact tar_accepts. Qed.
Print Assumptions C18_tar_accepts.

(* corrupting any single byte of the first block outside the checksum field: no longer tar *)
Theorem C18_tar_corruption :
  forall h rest p v,
    tar_header_ok h = true -> (p < 512)%nat -> in_field p = false ->
    (v < 256)%N -> (nth p h 0 < 256)%N -> v <> nth p h 0%N ->
    tar_det (upd h p v ++ rest) = false.
Proof. exact tar_corruption. Qed.
Print Assumptions C18_tar_corruption.

(* the formats that take precedence over tar (the property's "higher-priority signature") are exactly the root
   formats listed before it in the specification: tar sits right after exe, elf and ar *)
Fixpoint take_until (v : string) (l : list string) : list string :=
  match l with [] => [] | x :: l' => if String.eqb x v then [] else x :: take_until v l' end.
Definition root_kid_vars : list string :=
  map (fun i => match nth_error nodes i with Some n => n_var n | None => ""%string end) root_kids.
Theorem C18_tar_priority : take_until "tar"%string root_kid_vars = before_tar_spec.
Proof. vm_compute. reflexivity. Qed.
Print Assumptions C18_tar_priority.

(* the model the theorems above are about IS the current source: Tar, tarParseOctal and tarChksum as translated from
   /repo/internal/magic/archive.go on this run (Gen/SrcFuncs.v: the loops over the header as range_loop, the octal
   accumulation `ret<<3 | int64(b-'0')` and the int8 conversion as written) never reach Panic and return tar_det,
   for every input made of bytes *)
Theorem C18_tar_is_the_source : forall raw l, bytes_ok raw = true -> src_Tar raw l = Val (tar_det raw).
Proof. exact src_Tar_ok. Qed.
Print Assumptions C18_tar_is_the_source.

Theorem C18_checksum_helpers_are_the_source :
  (forall fld, src_tarParseOctal fld = Val (match tar_parse_octal fld with Some r => Z.of_N r | None => (-1)%Z end)) /\
  (forall h, bytes_ok h = true -> src_tarChksum h = Val (usum h, ssum h)).
Proof. split; [exact src_tarParseOctal_ok|exact src_tarChksum_ok]. Qed.
Print Assumptions C18_checksum_helpers_are_the_source.

(* K1: the known finding, on the model *)
Theorem C18_gpkg_refuted :
  exists h, tar_header_ok h = true /\ gpkg_name h = true /\ tar_det h = false.
Proof.
  exists (b "x/gpkg-1" ++ repeat 0%N 140 ++ b "001656" ++ [0;32]%N ++ repeat 0%N 356).
  vm_compute. repeat split.
Qed.
Print Assumptions C18_gpkg_refuted.

Example C18_ok_header : tar_header_ok (b "a" ++ repeat 0%N 147 ++ b "000541" ++ [0;32]%N ++ repeat 0%N 356) = true.
Proof. vm_compute. reflexivity. Qed.
