(* C10 - JSON sub-types are decided by top-level members.
   PARTIAL in this revision: proved are the data obligations that tie the implementation's query tables
   and child order to the hand-written specification constants; the path/query equation over the value
   tree is not yet mechanised.  The property is decided on the implementation by the extracted
   specification predicate subtype_spec (independent member splitter) on generated objects. *)
From Verif Require Import Base.Bytes Model.Types Model.Json Model.Detect Gen.TreeData Gen.Tables
  Spec.JsonSubtype Spec.SpecQueries.

Theorem C10_queries_realise_spec :
  queries_of "geo"%string = spec_geo /\ queries_of "har"%string = spec_har /\ queries_of "gltf"%string = spec_gltf
  /\ queries_of "none"%string = [].
Proof. vm_compute. repeat split. Qed.
Print Assumptions C10_queries_realise_spec.

Definition json_id : nat := id_of_var "json"%string.
Definition kids_of (i : nat) : list (list N * list N * string) :=
  match nth_error nodes i with
  | Some n => map (fun c => match nth_error nodes c with Some k => (n_mime k, n_ext k, n_det k) | None => ([], [], ""%string) end) (n_children n)
  | None => [] end.

(* geojson, har, gltf are the children of json, in this priority order, with these detectors *)
Theorem C10_children_of_json :
  kids_of json_id = [(b "application/geo+json", b ".geojson", "GeoJSON"%string);
                     (b "application/json", b ".har", "HAR"%string);
                     (b "model/gltf+json", b ".gltf", "GLTF"%string)].
Proof. vm_compute. reflexivity. Qed.
Print Assumptions C10_children_of_json.

Example C10_sibling_array_then_gltf :
  json_family "gltf"%string tok_object (b "{""accessors"":[1],""asset"":{""version"":""2.0""}}") 0 = true
  /\ subtype_spec (b "{""accessors"":[1],""asset"":{""version"":""2.0""}}") = (b "model/gltf+json", b ".gltf").
Proof. vm_compute. split; reflexivity. Qed.
Example C10_nested_type_is_not_geo :
  json_family "geo"%string tok_object (b "{""a"":{""type"":""Feature""}}") 0 = false.
Proof. vm_compute. reflexivity. Qed.
