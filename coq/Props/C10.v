(* C10 - JSON sub-types are decided by top-level members, wherever they appear.
   Proved on the model, for every query table (C10_query_equation): scanning any value of the grammar within the
   recursion cap succeeds, leaves the key-path stack as it found it (C10_path_balanced: the invariant whose
   violation was defect D2) and sets querySatisfied to exactly the value's query-hit status, an attribute defined
   over the grammar (Spec/JsonQuery.v): "some member at a query path has a listed text", a disjunction over
   members and elements - hence independent of member order, of what siblings contain and of layout.
   Instances for the three regenerated tables, on an object given as an arbitrary list of members (any layout,
   any sibling values, any order): GeoJSON iff some top-level member is "type" with one of the nine names; HAR iff
   some top-level "log" member is an object with a version / creator / entries member; glTF iff some top-level
   "asset" member is an object whose "version" member is "1.0" or "2.0".  Child order under json gives the
   priority geojson > har > gltf > plain json.  Truncated mode (C10_truncated): when the header is cut anywhere
   behind the value of a top-level member whose status is a hit, the detector still accepts, whatever members
   precede it and wherever the cut falls afterwards ("as long as the deciding member lies within the header").
   Tie to Go: json / c10 correspondence channels; subtype_spec (an independent member splitter) judges Detect. *)
From Verif Require Import Base.Bytes Model.Types Model.Detectors Gen.FuncTerms Proofs.TranslateP Model.Json Model.Detect Gen.TreeData Gen.Tables
  Spec.JsonSubtype Spec.SpecQueries Spec.JsonGrammar Spec.JsonGrammar8259 Spec.JsonQuery
  Proofs.JsonPath Proofs.JsonQueryP Proofs.JsonQsatMono Proofs.JsonQueryTrunc.
From Coq Require Import Lia.

Theorem C10_queries_realise_spec :
  queries_of "geo"%string = spec_geo /\ queries_of "har"%string = spec_har /\ queries_of "gltf"%string = spec_gltf
  /\ queries_of "none"%string = [].
Proof. vm_compute. repeat split. Qed.
Print Assumptions C10_queries_realise_spec.

Definition json_id : nat := id_of_var "json"%string.
Definition kids_of (i : nat) : list (list N * list N * string) :=
  match nth_error nodes i with
  | Some n => map (fun c => match nth_error nodes c with Some k => (n_mime k, n_ext k, n_det k) | None => ([], [], ""%string) end) (n_children n)
  | None => [] end.

(* geojson, har, gltf are the children of json, in this priority order, with these detectors *)
Theorem C10_children_of_json :
  kids_of json_id = [(b "application/geo+json", b ".geojson", "GeoJSON"%string);
                     (b "application/json", b ".har", "HAR"%string);
                     (b "model/gltf+json", b ".gltf", "GLTF"%string)].
Proof. vm_compute. reflexivity. Qed.
Print Assumptions C10_children_of_json.

(* the key-path stack is balanced over every successful scan (any table, cap, fuel, input) *)
Theorem C10_path_balanced :
  forall maxrec qs tk fuel w b lvl s r s', go maxrec qs tk fuel w b lvl s = (Some r, s') ->
    match w with WAny => path s' = path s | WArr => path s' = tl (path s) | WObj => path s' = path s end /\
    (qsat s = true -> qsat s' = true).
Proof. exact go_path. Qed.
Print Assumptions C10_path_balanced.

(* querySatisfied after scanning a value = the value's query-hit status (or it was set before) *)
Theorem C10_query_equation :
  forall maxrec qs tk, qs <> [] ->
  forall P d v h, QVal qs P d v h -> q_any maxrec qs tk P d v h.
Proof. intros maxrec qs tk Hqs. exact (proj1 (q_all maxrec qs tk Hqs)). Qed.
Print Assumptions C10_query_equation.

(* every value of the grammar has a status at every path, and only one *)
Theorem C10_status_total_functional :
  forall qs, qs <> [] ->
    (forall d v P, SVal d v -> exists h, QVal qs P d v h) /\
    (forall P d1 d2 v h1 h2, QVal qs P d1 v h1 -> QVal qs P d2 v h2 -> h1 = h2).
Proof.
  intros qs Hqs. split.
  - intros d v P Hv. exact (proj1 (Q_total qs) d v Hv P).
  - intros. eapply Q_functional; eassumption.
Qed.
Print Assumptions C10_status_total_functional.

(* ---- the three tables, on an object given as its list of members ---- *)
Definition obj_doc (w endw : bytes) (ms : list member) (w2 : bytes) : bytes := w ++ (123%N :: render_tail endw ms) ++ w2.

Lemma C10_family_is_status q qs :
  queries_of q = qs -> qs <> [] ->
  forall w endw ms w2 d limit, WS w -> WS endw -> WS w2 -> Forall (member_ok qs [] d) ms -> S d <= 4096 ->
    (limit = 0 \/ N.of_nat (length (obj_doc w endw ms w2)) < limit)%N ->
    json_family q tok_object (obj_doc w endw ms w2) limit = existsb (member_status qs []) ms.
Proof.
  intros Eq Hne w endw ms w2 d limit Hw He Hw2 Hms Hd Hlim. unfold json_family. rewrite Eq.
  apply (json_query_whole maxrec qs tokens tok_object Hne) with (d := d); try assumption.
  - vm_compute. discriminate.
  - apply render_tail_Q; assumption.
Qed.
Print Assumptions C10_family_is_status.

Lemma member_hit_false qs d m : member_ok qs [] d m -> (forall q, In q qs -> length (fst q) <= 1) -> m_hit m = false.
Proof.
  intros (_ & _ & _ & _ & _ & d1 & _ & Hq) Hlen. exact (proj1 (Q_deep qs) _ _ _ _ Hq Hlen).
Qed.
Print Assumptions member_hit_false.

Theorem C10_geojson :
  forall w endw ms w2 d limit, WS w -> WS endw -> WS w2 -> Forall (member_ok spec_geo [] d) ms -> S d <= 4096 ->
    (limit = 0 \/ N.of_nat (length (obj_doc w endw ms w2)) < limit)%N ->
    json_family "geo"%string tok_object (obj_doc w endw ms w2) limit =
    existsb (fun m => beq (b "type") (m_key m) && existsb (fun name => beq (quoted name) (m_val m)) geo_types) ms.
Proof.
  intros w endw ms w2 d limit Hw He Hw2 Hms Hd Hlim.
  rewrite (C10_family_is_status "geo"%string spec_geo) with (d := d); try assumption; [|vm_compute; reflexivity|discriminate].
  clear Hlim. induction ms as [|m ms IH]; [reflexivity|]. inversion Hms as [|? ? Hm Hrest]; subst. cbn [existsb].
  rewrite (IH Hrest). f_equal. unfold member_status.
  rewrite (member_hit_false spec_geo d m Hm) by (intros q [<-|[]]; cbn; lia). rewrite orb_false_r.
  unfold direct, spec_geo. cbn [query_path_match fst rev app lbeq].
  destruct (beq (b "type") (m_key m)); [|reflexivity]. cbn [andb]. unfold text_hit. cbn [snd].
  unfold geo_types. cbn [map existsb]. reflexivity.
Qed.
Print Assumptions C10_geojson.

(* HAR: a top-level "log" member whose value is an object with a version, creator or entries member *)
Theorem C10_har :
  forall w endw ms w2 d limit, WS w -> WS endw -> WS w2 -> Forall (member_ok spec_har [] d) ms -> S d <= 4096 ->
    (limit = 0 \/ N.of_nat (length (obj_doc w endw ms w2)) < limit)%N ->
    json_family "har"%string tok_object (obj_doc w endw ms w2) limit =
    existsb (fun m => beq (b "log") (m_key m) && m_hit m) ms.
Proof.
  intros w endw ms w2 d limit Hw He Hw2 Hms Hd Hlim.
  rewrite (C10_family_is_status "har"%string spec_har) with (d := d); try assumption; [|vm_compute; reflexivity|discriminate].
  clear Hlim. induction ms as [|m ms IH]; [reflexivity|]. inversion Hms as [|? ? Hm Hrest]; subst. cbn [existsb].
  rewrite (IH Hrest). f_equal. unfold member_status.
  rewrite direct_top_false by (intros q [<-|[<-|[<-|[]]]]; reflexivity). cbn [orb].
  destruct (beq (b "log") (m_key m)) eqn:E; [reflexivity|]. cbn [andb].
  destruct Hm as (_ & _ & _ & _ & _ & d1 & _ & Hq).
  apply (second_level_other spec_har (m_key m)) with (d := d1) (v := m_val m); [|exact Hq].
  intros q [<-|[<-|[<-|[]]]]; eexists _, _; (split; [reflexivity|exact E]).
Qed.
Print Assumptions C10_har.

Theorem C10_har_log_value :
  (forall d d' e2 ms2 h, WS e2 -> Forall (member_ok spec_har [b "log"] d) ms2 ->
     QVal spec_har [b "log"] d' (123 :: render_tail e2 ms2)%N h ->
     h = existsb (fun m2 => existsb (beq (m_key m2)) har_members) ms2) /\
  (forall d v h, QVal spec_har [b "log"] d v h -> (forall t, v <> (123 :: t)%N) -> h = false).
Proof.
  split.
  - intros d d' e2 ms2 h He Hms Hq. rewrite (inner_status spec_har [b "log"] d d' e2 ms2 h ltac:(discriminate) He Hms Hq).
    clear Hq. induction ms2 as [|m ms IH]; [reflexivity|]. inversion Hms as [|? ? Hm Hrest]; subst. cbn [existsb].
    rewrite (IH Hrest). f_equal. unfold member_status.
    destruct Hm as (_ & _ & _ & _ & _ & d1 & _ & Hq).
    rewrite (proj1 (Q_deep spec_har) _ _ _ _ Hq) by (intros q [<-|[<-|[<-|[]]]]; cbn; lia). rewrite orb_false_r.
    unfold direct, spec_har, har_members. cbn [map query_path_match fst snd rev app lbeq existsb].
    rewrite !andb_true_r. change (beq (b "log") (b "log")) with true. cbn [andb].
    rewrite !(beq_sym _ (m_key m)).
    destruct (beq (m_key m) (b "version")); [reflexivity|].
    destruct (beq (m_key m) (b "creator")); [reflexivity|].
    destruct (beq (m_key m) (b "entries")); reflexivity.
  - intros d v h Hq Hno. eapply non_object_status; [|exact Hq|exact Hno]. intros q [<-|[<-|[<-|[]]]]; cbn; lia.
Qed.
Print Assumptions C10_har_log_value.

(* glTF: a top-level "asset" member whose value is an object whose "version" member is "1.0" or "2.0" *)
Theorem C10_gltf :
  forall w endw ms w2 d limit, WS w -> WS endw -> WS w2 -> Forall (member_ok spec_gltf [] d) ms -> S d <= 4096 ->
    (limit = 0 \/ N.of_nat (length (obj_doc w endw ms w2)) < limit)%N ->
    json_family "gltf"%string tok_object (obj_doc w endw ms w2) limit =
    existsb (fun m => beq (b "asset") (m_key m) && m_hit m) ms.
Proof.
  intros w endw ms w2 d limit Hw He Hw2 Hms Hd Hlim.
  rewrite (C10_family_is_status "gltf"%string spec_gltf) with (d := d); try assumption; [|vm_compute; reflexivity|discriminate].
  clear Hlim. induction ms as [|m ms IH]; [reflexivity|]. inversion Hms as [|? ? Hm Hrest]; subst. cbn [existsb].
  rewrite (IH Hrest). f_equal. unfold member_status.
  rewrite direct_top_false by (intros q [<-|[]]; reflexivity). cbn [orb].
  destruct (beq (b "asset") (m_key m)) eqn:E; [reflexivity|]. cbn [andb].
  destruct Hm as (_ & _ & _ & _ & _ & d1 & _ & Hq).
  apply (second_level_other spec_gltf (m_key m)) with (d := d1) (v := m_val m); [|exact Hq].
  intros q [<-|[]]; eexists _, _; (split; [reflexivity|exact E]).
Qed.
Print Assumptions C10_gltf.

Theorem C10_gltf_asset_value :
  (forall d d' e2 ms2 h, WS e2 -> Forall (member_ok spec_gltf [b "asset"] d) ms2 ->
     QVal spec_gltf [b "asset"] d' (123 :: render_tail e2 ms2)%N h ->
     h = existsb (fun m2 => beq (b "version") (m_key m2) && existsb (fun ver => beq (quoted ver) (m_val m2)) gltf_versions) ms2) /\
  (forall d v h, QVal spec_gltf [b "asset"] d v h -> (forall t, v <> (123 :: t)%N) -> h = false).
Proof.
  split.
  - intros d d' e2 ms2 h He Hms Hq. rewrite (inner_status spec_gltf [b "asset"] d d' e2 ms2 h ltac:(discriminate) He Hms Hq).
    clear Hq. induction ms2 as [|m ms IH]; [reflexivity|]. inversion Hms as [|? ? Hm Hrest]; subst. cbn [existsb].
    rewrite (IH Hrest). f_equal. unfold member_status.
    destruct Hm as (_ & _ & _ & _ & _ & d1 & _ & Hq).
    rewrite (proj1 (Q_deep spec_gltf) _ _ _ _ Hq) by (intros q [<-|[]]; cbn; lia). rewrite orb_false_r.
    unfold direct, spec_gltf. cbn [query_path_match fst snd rev app lbeq].
    rewrite !andb_true_r. change (beq (b "asset") (b "asset")) with true. cbn [andb].
    destruct (beq (b "version") (m_key m)); [|reflexivity]. cbn [andb]. unfold text_hit, gltf_versions. cbn [snd map existsb]. reflexivity.
  - intros d v h Hq Hno. eapply non_object_status; [|exact Hq|exact Hno]. intros q [<-|[]]; cbn; lia.
Qed.
Print Assumptions C10_gltf_asset_value.

(* querySatisfied is never reset, whatever a scan returns *)
Theorem C10_flag_monotone :
  forall maxrec qs tk fuel w b lvl s, qsat s = true -> qsat (snd (go maxrec qs tk fuel w b lvl s)) = true.
Proof. intros maxrec qs tk fuel. exact (go_mono maxrec qs tk fuel). Qed.
Print Assumptions C10_flag_monotone.

(* truncated mode: p is a cut of an object document raw = p ++ rest, of the shape
     ws { complete-members , ... deciding-member-through-its-value ws anything-the-cut-left
   and the limit does not exceed its length *)
Theorem C10_truncated :
  forall q qs, queries_of q = qs -> qs <> [] ->
  forall d0 raw rest w ms1 m w3' r d limit,
    SDoc d0 raw -> d0 <= 4096 -> S d <= 4096 ->
    raw = (w ++ 123%N :: members_comma ms1 ++ member_text m ++ w3' ++ r) ++ rest ->
    WS w -> Forall (member_ok qs [] d) ms1 -> member_ok qs [] d m -> member_status qs [] m = true -> WS w3' ->
    Proofs.JsonComplete.sep r -> limit <> 0%N ->
    (limit <= N.of_nat (length (w ++ 123%N :: members_comma ms1 ++ member_text m ++ w3' ++ r)))%N ->
    json_family q tok_object (w ++ 123%N :: members_comma ms1 ++ member_text m ++ w3' ++ r) limit = true.
Proof.
  intros q qs Eq Hne d0 raw rest w ms1 m w3' r d limit Hdoc Hd0 Hd Hsplit Hw Hms1 Hm Hst Hw3 Hr Hl0 Hlim.
  unfold json_family. rewrite Eq.
  apply (json_query_trunc maxrec qs tokens Hne tok_object) with (d0 := d0) (raw := raw) (q := rest) (d := d); try assumption.
  vm_compute. discriminate.
Qed.
Print Assumptions C10_truncated.

(* for GeoJSON the status of a top-level member is decided by its key and text *)
Theorem C10_geo_member_status :
  forall m, beq (b "type") (m_key m) = true -> existsb (fun name => beq (quoted name) (m_val m)) geo_types = true ->
    member_status spec_geo [] m = true.
Proof.
  intros m Hk Hv. unfold member_status, direct, spec_geo. cbn [query_path_match fst rev app lbeq]. rewrite Hk. cbn [andb].
  unfold text_hit. cbn [snd]. unfold geo_types in *. cbn [map existsb] in *. rewrite Hv. reflexivity.
Qed.
Print Assumptions C10_geo_member_status.

(* non-vacuity: a member list with siblings of every shape before the deciding member *)
Example C10_members_example :
  obj_doc [] [] [mk_member [] (b "accessors") [] [] (b "[1]") [] false;
                 mk_member [32%N] (b "asset") [] [32%N] (b "{""version"":""2.0""}") [10%N] true] []
  = b "{""accessors"":[1], ""asset"": {""version"":""2.0""}
}".
Proof. vm_compute. reflexivity. Qed.

Example C10_sibling_array_then_gltf :
  json_family "gltf"%string tok_object (b "{""accessors"":[1],""asset"":{""version"":""2.0""}}") 0 = true
  /\ subtype_spec (b "{""accessors"":[1],""asset"":{""version"":""2.0""}}") = (b "model/gltf+json", b ".gltf").
Proof. vm_compute. split; reflexivity. Qed.
Example C10_nested_type_is_not_geo :
  json_family "geo"%string tok_object (b "{""a"":{""type"":""Feature""}}") 0 = false.
Proof. vm_compute. reflexivity. Qed.

(* regenerated obligation: in the CURRENT source the four detectors of the JSON family are single calls of jsonHelper with
   the query and the first-token mask the model dispatches them with (Model/Detect.hand_models) *)
Theorem C10_json_family_calls_are_the_source : call_shapes_agree_for ["JSON"; "GeoJSON"; "HAR"; "GLTF"]%string = true.
Proof. vm_compute. reflexivity. Qed.
Print Assumptions C10_json_family_calls_are_the_source.
