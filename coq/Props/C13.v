(* C13 - line-oriented formats survive truncation and require well-formed lines.
   PARTIAL: the converse direction is proved (NDJSON in full; CSV/TSV on the quote-free fragment of
   encoding/csv, which is a hand model validated by correspondence); dropLastLine is characterised; the
   forward direction (every cut after the second complete line keeps the type) is decided on the
   implementation at every limit from the end of line 2 to len+2, for LF and CRLF files. *)
From Verif Require Import Base.Bytes Model.Json Model.Lines Spec.JsonGrammar Proofs.LinesP.

Theorem C13_drop_last_line_whole :
  forall raw limit, (limit = 0 \/ N.of_nat (length raw) < limit)%N -> (N.of_nat (length raw) < 4294967296)%N ->
    drop_last_line raw limit = raw.
Proof. exact drop_last_line_whole. Qed.
Print Assumptions C13_drop_last_line_whole.

Theorem C13_drop_last_line_cut :
  forall raw limit, exists i, drop_last_line raw limit = firstn i raw /\
    (i = length raw \/ (0 < i < length raw /\ nth i raw 0%N = 10%N)).
Proof. exact drop_last_line_cut. Qed.
Print Assumptions C13_drop_last_line_cut.

Theorem C13_ndjson_only_if :
  forall maxrec tk raw limit, ndjson maxrec tk true raw limit = true ->
    let ls := scan_lines (drop_last_line raw limit) in
    2 <= length ls /\ Forall (line_ok maxrec tk) ls /\
    exists l, In l ls /\ (p_ftok (parse maxrec tk [] l) = tk_arr tk \/ p_ftok (parse maxrec tk [] l) = tk_obj tk).
Proof. exact ndjson_only_if. Qed.
Print Assumptions C13_ndjson_only_if.

Theorem C13_parsed_line_is_value :
  forall maxrec tk l, l <> [] -> p_parsed (parse maxrec tk [] l) = length l -> AnyWS l.
Proof. exact line_parsed_is_value. Qed.
Print Assumptions C13_parsed_line_is_value.

Theorem C13_csv_only_if :
  forall sep inp limit, sv_model sep inp limit = Some true ->
    exists n rest, csv_records sep (drop_last_line inp limit) = n :: rest /\ 2 <= n /\ rest <> [] /\ Forall (eq n) rest.
Proof. exact csv_only_if. Qed.
Print Assumptions C13_csv_only_if.

Example C13_cut_lines_rejected :
  ndjson 4096 (2,4,8,16,32,64,128)%N true (b "{""a"":" ++ [10%N] ++ b "{""b"":" ++ [10%N]) 0 = false.
Proof. vm_compute. reflexivity. Qed.
Example C13_crlf_table : sv_model 44 (b "a,b" ++ [13;10]%N ++ b "1,2" ++ [13;10]%N ++ b "3,") 13 = Some true.
Proof. vm_compute. reflexivity. Qed.
