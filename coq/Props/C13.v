(* C13 - line-oriented formats survive truncation and require well-formed lines.
   Proved on the model, both directions.  Forward: a header made of at least two complete lines followed by an
   incomplete last line - anything without a newline - is recognised exactly as if the incomplete line were not
   there (C13_ndjson_forward, C13_csv_forward), and every cut of a file of lines at or after the end of its second
   line has that shape (C13_ndjson_any_cut, C13_csv_any_cut: every limit from the end of line 2 to the end of the
   file; LF and CRLF).  Converse: NDJSON only if >= 2 lines, every complete line blank or a complete JSON value,
   one an object or array; CSV/TSV only if all complete non-comment lines have the same number >= 2 of fields.
   CSV/TSV are on the quote-free fragment of encoding/csv (a hand model; quoted fields are an oracle); the tie to
   Go is the c13 correspondence channel. *)
From Verif Require Import Base.Bytes Model.Types Model.Detectors Gen.FuncTerms Proofs.TranslateP Model.Json Model.Lines Spec.JsonGrammar Spec.JsonGrammar8259 Proofs.LinesP Proofs.LinesFwd.

Theorem C13_drop_last_line_whole :
  forall raw limit, (limit = 0 \/ N.of_nat (length raw) < limit)%N -> (N.of_nat (length raw) < 4294967296)%N ->
    drop_last_line raw limit = raw.
Proof. exact drop_last_line_whole. Qed.
Print Assumptions C13_drop_last_line_whole.

Theorem C13_drop_last_line_cut :
  forall raw limit, exists i, drop_last_line raw limit = firstn i raw /\
    (i = length raw \/ (0 < i < length raw /\ nth i raw 0%N = 10%N)).
Proof. exact drop_last_line_cut. Qed.
Print Assumptions C13_drop_last_line_cut.

Theorem C13_ndjson_only_if :
  forall maxrec tk raw limit, ndjson maxrec tk true raw limit = true ->
    let ls := scan_lines (drop_last_line raw limit) in
    2 <= length ls /\ Forall (line_ok maxrec tk) ls /\
    exists l, In l ls /\ (p_ftok (parse maxrec tk [] l) = tk_arr tk \/ p_ftok (parse maxrec tk [] l) = tk_obj tk).
Proof. exact ndjson_only_if. Qed.
Print Assumptions C13_ndjson_only_if.

Theorem C13_parsed_line_is_value :
  forall maxrec tk l, l <> [] -> p_parsed (parse maxrec tk [] l) = length l -> AnyWS l.
Proof. exact line_parsed_is_value. Qed.
Print Assumptions C13_parsed_line_is_value.

Theorem C13_csv_only_if :
  forall sep inp limit, sv_model sep inp limit = Some true ->
    exists n rest, csv_records sep (drop_last_line inp limit) = n :: rest /\ 2 <= n /\ rest <> [] /\ Forall (eq n) rest.
Proof. exact csv_only_if. Qed.
Print Assumptions C13_csv_only_if.

(* ---- forward direction ---- *)
(* header = complete lines ++ incomplete line: the lines visited are the complete ones *)
Theorem C13_incomplete_line_ignored :
  forall ls p limit, ls <> [] -> Forall no_nl ls -> Forall (fun l => l <> []) ls -> no_nl p ->
    limit <> 0%N -> (limit <= N.of_nat (length (join_lines ls ++ p)))%N -> (N.of_nat (length (join_lines ls ++ p)) < 4294967296)%N ->
    scan_lines (drop_last_line (join_lines ls ++ p) limit) = map drop_cr ls.
Proof. exact lines_visited. Qed.
Print Assumptions C13_incomplete_line_ignored.

Theorem C13_ndjson_forward :
  forall maxrec tk ls p limit,
    2 <= length ls -> Forall no_nl ls -> Forall (fun l => exists v, line_val maxrec l v) ls ->
    Exists (fun l => exists v, line_val maxrec l v /\ is_container v) ls -> no_nl p ->
    limit <> 0%N -> (limit <= N.of_nat (length (join_lines ls ++ p)))%N -> (N.of_nat (length (join_lines ls ++ p)) < 4294967296)%N ->
    ndjson maxrec tk true (join_lines ls ++ p) limit = true.
Proof. exact ndjson_forward_trunc. Qed.
Print Assumptions C13_ndjson_forward.

Theorem C13_ndjson_any_cut :
  forall maxrec tk ls limit,
    2 <= length ls -> Forall no_nl ls -> Forall (fun l => exists v, line_val maxrec l v) ls ->
    (exists l0 rest v, ls = l0 :: rest /\ line_val maxrec l0 v /\ is_container v) ->
    (N.of_nat (length (join_lines (firstn 2 ls))) <= limit)%N -> (limit <= N.of_nat (length (join_lines ls)))%N ->
    (N.of_nat (length (join_lines ls)) < 4294967296)%N ->
    ndjson maxrec tk true (hdr limit (join_lines ls)) limit = true.
Proof. exact ndjson_any_cut. Qed.
Print Assumptions C13_ndjson_any_cut.

Theorem C13_ndjson_whole :
  forall maxrec tk ls limit,
    2 <= length ls -> Forall no_nl ls -> Forall (fun l => exists v, line_val maxrec l v) ls ->
    Exists (fun l => exists v, line_val maxrec l v /\ is_container v) ls ->
    (limit = 0 \/ N.of_nat (length (join_lines ls)) < limit)%N -> (N.of_nat (length (join_lines ls)) < 4294967296)%N ->
    ndjson maxrec tk true (join_lines ls) limit = true.
Proof. exact ndjson_forward_whole. Qed.
Print Assumptions C13_ndjson_whole.

Theorem C13_csv_forward :
  forall sep n rows p limit,
    2 <= length rows -> 2 <= n -> Forall (row_ok sep n) rows -> Forall (fun r => r <> []) rows ->
    Forall (fun r => existsb (N.eqb 34) r = false) rows -> existsb (N.eqb 34) p = false -> no_nl p ->
    limit <> 0%N -> (limit <= N.of_nat (length (join_lines rows ++ p)))%N -> (N.of_nat (length (join_lines rows ++ p)) < 4294967296)%N ->
    sv_model sep (join_lines rows ++ p) limit = Some true.
Proof. exact csv_forward_trunc. Qed.
Print Assumptions C13_csv_forward.

Theorem C13_csv_any_cut :
  forall sep n rows limit,
    2 <= length rows -> 2 <= n -> Forall (row_ok sep n) rows -> Forall (fun r => r <> []) rows ->
    Forall (fun r => existsb (N.eqb 34) r = false) rows ->
    (N.of_nat (length (join_lines (firstn 2 rows))) <= limit)%N -> (limit <= N.of_nat (length (join_lines rows)))%N ->
    (N.of_nat (length (join_lines rows)) < 4294967296)%N ->
    sv_model sep (hdr limit (join_lines rows)) limit = Some true.
Proof. exact csv_any_cut. Qed.
Print Assumptions C13_csv_any_cut.

Theorem C13_csv_whole :
  forall sep n rows limit,
    2 <= length rows -> 2 <= n -> Forall (row_ok sep n) rows -> Forall (fun r => existsb (N.eqb 34) r = false) rows ->
    (limit = 0 \/ N.of_nat (length (join_lines rows)) < limit)%N -> (N.of_nat (length (join_lines rows)) < 4294967296)%N ->
    sv_model sep (join_lines rows) limit = Some true.
Proof. exact csv_forward_whole. Qed.
Print Assumptions C13_csv_whole.

(* non-vacuity *)
Example C13_forward_example :
  ndjson 4096 (2,4,8,16,32,64,128)%N true (join_lines [b "{""a"":1}"; b "[2]" ++ [13%N]; b "3"] ++ b "{""trunc") 20 = true.
Proof. vm_compute. reflexivity. Qed.

Example C13_cut_lines_rejected :
  ndjson 4096 (2,4,8,16,32,64,128)%N true (b "{""a"":" ++ [10%N] ++ b "{""b"":" ++ [10%N]) 0 = false.
Proof. vm_compute. reflexivity. Qed.
Example C13_crlf_table : sv_model 44 (b "a,b" ++ [13;10]%N ++ b "1,2" ++ [13;10]%N ++ b "3,") 13 = Some true.
Proof. vm_compute. reflexivity. Qed.

(* regenerated obligation: in the CURRENT source Csv and Tsv are single calls of sv with their separator and the limit
   they were given (a constant limit would switch the truncation handling off) *)
Theorem C13_sv_calls_are_the_source : call_shapes_agree_for ["Csv"; "Tsv"]%string = true.
Proof. vm_compute. reflexivity. Qed.
Print Assumptions C13_sv_calls_are_the_source.
