(* C08 - well-formed JSON is recognised, whole or truncated.
   PARTIAL in this revision: the completeness induction (RFC 8259 document => accepted, at every cut)
   is not yet mechanised; what is proved here is the priority structure the property's exception clause
   refers to, on the regenerated tree, and the whole/truncated decision of jsonHelper.  The property
   itself is decided on the implementation by the generator-driven correspondence (every cut of
   generated RFC 8259 documents, confirmed valid by encoding/json) and the exhaustive comparison
   with the verified-sound model. *)
From Verif Require Import Base.Bytes Model.Types Model.Json Model.Detect Gen.TreeData Gen.Tables.

Definition text_kids : list string :=
  match nth_error nodes text_id with Some n => map (fun i => match nth_error nodes i with Some c => n_var c | None => ""%string end) (n_children n) | None => [] end.

(* the formats consulted before json among the children of text/plain *)
Theorem C08_priority_before_json :
  firstn 9 text_kids = ["html"; "svg"; "xml"; "php"; "js"; "lua"; "perl"; "python"; "json"]%string.
Proof. vm_compute. reflexivity. Qed.
Print Assumptions C08_priority_before_json.

(* the whole / truncated split of the acceptance decision: a scan that consumed everything is accepted in
   whole mode exactly when it is complete; in truncated mode exactly when every byte was inspected *)
Theorem C08_decision :
  forall maxrec tk qs want raw limit,
    json_helper maxrec tk qs want raw limit = true ->
    let r := parse maxrec tk qs raw in
    p_qsat r = true /\
    (if ((limit =? 0) || (N.of_nat (length raw) <? limit))%N then p_parsed r = length raw else p_inspected r = length raw).
Proof.
  intros maxrec tk qs want raw limit H. unfold json_helper in H.
  destruct (looks_like_obj_or_arr raw); [|discriminate]. cbn [negb] in H.
  destruct (p_qsat (parse maxrec tk qs raw)) eqn:Eq; [|discriminate]. cbn [negb orb] in H.
  destruct (N.land _ want =? 0)%N; [discriminate|]. cbv zeta. rewrite Eq. split; [reflexivity|].
  destruct ((limit =? 0) || (N.of_nat (length raw) <? limit))%N.
  - apply Nat.eqb_eq, H.
  - apply andb_true_iff in H as [H _]. apply Nat.eqb_eq, H.
Qed.
Print Assumptions C08_decision.

Example C08_cut_inside_string : json_family "none"%string (N.lor tok_object tok_array) (b "["",") 3 = true.
Proof. vm_compute. reflexivity. Qed.
Example C08_cut_inside_escape : json_family "none"%string (N.lor tok_object tok_array) (b "{""a"":""\u00") 10 = true.
Proof. vm_compute. reflexivity. Qed.
