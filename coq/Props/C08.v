(* C08 - well-formed JSON is recognised, whole or truncated.
   PARTIAL: proved is completeness in WHOLE mode - every document of Spec/JsonGrammar8259.v (RFC 8259
   numbers, strings with all escapes, literals, arbitrary white space, arrays and objects; a superset of
   RFC 8259 texts that are arrays or objects) whose nesting depth is within the recursion cap is accepted by
   the JSON detector when examined in full - together with the whole/truncated decision and the priority
   structure the exception clause refers to.  The TRUNCATED case (every cut after the opening bracket) is
   decided on the implementation: generator-produced documents confirmed by encoding/json, every cut,
   plus exhaustive agreement implementation = model = grammar judge on all short strings. *)
From Verif Require Import Base.Bytes Model.Types Model.Json Model.Detect Gen.TreeData Gen.Tables
  Spec.JsonGrammar Spec.JsonGrammar8259 Proofs.JsonComplete.

Definition text_kids : list string :=
  match nth_error nodes text_id with Some n => map (fun i => match nth_error nodes i with Some c => n_var c | None => ""%string end) (n_children n) | None => [] end.

(* the formats consulted before json among the children of text/plain *)
Theorem C08_priority_before_json :
  firstn 9 text_kids = ["html"; "svg"; "xml"; "php"; "js"; "lua"; "perl"; "python"; "json"]%string.
Proof. vm_compute. reflexivity. Qed.
Print Assumptions C08_priority_before_json.

(* the whole / truncated split of the acceptance decision: a scan that consumed everything is accepted in
   whole mode exactly when it is complete; in truncated mode exactly when every byte was inspected *)
Theorem C08_decision :
  forall maxrec tk qs want raw limit,
    json_helper maxrec tk qs want raw limit = true ->
    let r := parse maxrec tk qs raw in
    p_qsat r = true /\
    (if ((limit =? 0) || (N.of_nat (length raw) <? limit))%N then p_parsed r = length raw else p_inspected r = length raw).
Proof.
  intros maxrec tk qs want raw limit H. unfold json_helper in H.
  destruct (looks_like_obj_or_arr raw); [|discriminate]. cbn [negb] in H.
  destruct (p_qsat (parse maxrec tk qs raw)) eqn:Eq; [|discriminate]. cbn [negb orb] in H.
  destruct (N.land _ want =? 0)%N; [discriminate|]. cbv zeta. rewrite Eq. split; [reflexivity|].
  destruct ((limit =? 0) || (N.of_nat (length raw) <? limit))%N.
  - apply Nat.eqb_eq, H.
  - apply andb_true_iff in H as [H _]. apply Nat.eqb_eq, H.
Qed.
Print Assumptions C08_decision.

(* completeness of the scanner: values, array tails and object tails of any depth within the cap, for every
   query table, at every level, followed by anything a document may continue with *)
Theorem C08_scanner_complete :
  forall maxrec qs tk,
    (forall d v, SVal d v -> complete_any maxrec qs tk d v) /\
    (forall d t, SArrTail d t -> complete_arr maxrec qs tk d t) /\
    (forall d t, SObjTail d t -> complete_obj maxrec qs tk d t).
Proof. exact complete_all. Qed.
Print Assumptions C08_scanner_complete.

(* the property, whole mode: every document of depth <= cap examined in full (limit 0 or shorter than the
   limit) is reported by the JSON detector *)
Theorem C08_whole :
  forall maxrec tk want, N.land (tok_of tk 91) want <> 0%N -> N.land (tok_of tk 123) want <> 0%N ->
  forall d raw limit, SDoc d raw -> d <= maxrec -> (limit = 0 \/ N.of_nat (length raw) < limit)%N ->
    json_helper maxrec tk [] want raw limit = true.
Proof. exact json_complete_whole. Qed.
Print Assumptions C08_whole.

(* instance: magic.JSON of the regenerated tables (cap 4096, QueryNone, TokObject|TokArray) *)
Theorem C08_whole_detector :
  forall d raw limit, SDoc d raw -> d <= 4096 -> (limit = 0 \/ N.of_nat (length raw) < limit)%N ->
    json_family "none"%string (N.lor tok_object tok_array) raw limit = true.
Proof.
  intros d raw limit Hd Hle Hl. unfold json_family.
  change (queries_of "none"%string) with (@nil query).
  apply (json_complete_whole maxrec tokens (N.lor tok_object tok_array)) with (d := d); try assumption; try (vm_compute; discriminate).
Qed.
Print Assumptions C08_whole_detector.

Example C08_doc_example : SDoc 1 [91;49;93]%N.    (* the document [1] *)
Proof.
  exists [], [91;49;93]%N, []. split; [reflexivity|]. split; [constructor|]. split; [constructor|]. split.
  - apply (SV_arr 0 [49;93]%N). apply (SA_last 0 0 [] [49]%N []); [constructor| |lia|constructor].
    apply SV_num. exists [], [49]%N, [], []. split; [reflexivity|]. split; [left; reflexivity|].
    split; [right; exists 49%N, []; split; [reflexivity|split; [reflexivity|constructor]]|]. split; left; reflexivity.
  - exists [49;93]%N. left. reflexivity.
Qed.

Example C08_cut_inside_string : json_family "none"%string (N.lor tok_object tok_array) (b "["",") 3 = true.
Proof. vm_compute. reflexivity. Qed.
Example C08_cut_inside_escape : json_family "none"%string (N.lor tok_object tok_array) (b "{""a"":""\u00") 10 = true.
Proof. vm_compute. reflexivity. Qed.
