(* C08 - well-formed JSON is recognised, whole or truncated.
   Proved, for every document of Spec/JsonGrammar8259.v (RFC 8259 numbers, strings with all escapes,
   literals, arbitrary white space, arrays and objects; a superset of the RFC 8259 texts that are arrays
   or objects) whose nesting depth is within the recursion cap, for every limit:
     - whole mode (limit 0 or document shorter than the limit): the JSON detector accepts   (C08_whole)
     - truncated mode: EVERY cut that includes the opening bracket is accepted              (C08_truncated)
       [scanner completeness + the scanner is online + fuel irrelevance]
     - both over the header Detect examines                                                 (C08_every_cut)
     - Detect: the hierarchy of the result contains application/json unless a format consulted earlier
       (a root child before text/plain, or html, svg, xml, php, js, lua, perl, python) accepts (C08_detect)
   The tie to the Go scanner is the correspondence (json / jexh / jdeep channels); that generator-produced
   documents lie inside the grammar is checked against encoding/json.Valid by the harness. *)
From Verif Require Import Base.Bytes Model.Types Model.Detectors Gen.FuncTerms Proofs.TranslateP Model.Json Model.Detect Gen.TreeData Gen.Tables
  Model.Tree Spec.SpecText Spec.JsonGrammar Spec.JsonGrammar8259 Proofs.TreeP Proofs.DetectP Proofs.JsonComplete Proofs.JsonOnline Proofs.JsonTrunc.

Definition text_kids : list string :=
  match nth_error nodes text_id with Some n => map (fun i => match nth_error nodes i with Some c => n_var c | None => ""%string end) (n_children n) | None => [] end.

(* the formats consulted before json among the children of text/plain *)
Theorem C08_priority_before_json :
  firstn 9 text_kids = ["html"; "svg"; "xml"; "php"; "js"; "lua"; "perl"; "python"; "json"]%string.
Proof. vm_compute. reflexivity. Qed.
Print Assumptions C08_priority_before_json.

(* the whole / truncated split of the acceptance decision: a scan that consumed everything is accepted in
   whole mode exactly when it is complete; in truncated mode exactly when every byte was inspected *)
Theorem C08_decision :
  forall maxrec tk qs want raw limit,
    json_helper maxrec tk qs want raw limit = true ->
    let r := parse maxrec tk qs raw in
    p_qsat r = true /\
    (if ((limit =? 0) || (N.of_nat (length raw) <? limit))%N then p_parsed r = length raw else p_inspected r = length raw).
Proof.
  intros maxrec tk qs want raw limit H. unfold json_helper in H.
  destruct (looks_like_obj_or_arr raw); [|discriminate]. cbn [negb] in H.
  destruct (p_qsat (parse maxrec tk qs raw)) eqn:Eq; [|discriminate]. cbn [negb orb] in H.
  destruct (N.land _ want =? 0)%N; [discriminate|]. cbv zeta. rewrite Eq. split; [reflexivity|].
  destruct ((limit =? 0) || (N.of_nat (length raw) <? limit))%N.
  - apply Nat.eqb_eq, H.
  - apply andb_true_iff in H as [H _]. apply Nat.eqb_eq, H.
Qed.
Print Assumptions C08_decision.

(* completeness of the scanner: values, array tails and object tails of any depth within the cap, for every
   query table, at every level, followed by anything a document may continue with *)
Theorem C08_scanner_complete :
  forall maxrec qs tk,
    (forall d v, SVal d v -> complete_any maxrec qs tk d v) /\
    (forall d t, SArrTail d t -> complete_arr maxrec qs tk d t) /\
    (forall d t, SObjTail d t -> complete_obj maxrec qs tk d t).
Proof. exact complete_all. Qed.
Print Assumptions C08_scanner_complete.

(* the property, whole mode: every document of depth <= cap examined in full (limit 0 or shorter than the
   limit) is reported by the JSON detector *)
Theorem C08_whole :
  forall maxrec tk want, N.land (tok_of tk 91) want <> 0%N -> N.land (tok_of tk 123) want <> 0%N ->
  forall d raw limit, SDoc d raw -> d <= maxrec -> (limit = 0 \/ N.of_nat (length raw) < limit)%N ->
    json_helper maxrec tk [] want raw limit = true.
Proof. exact json_complete_whole. Qed.
Print Assumptions C08_whole.

(* instance: magic.JSON of the regenerated tables (cap 4096, QueryNone, TokObject|TokArray) *)
Theorem C08_whole_detector :
  forall d raw limit, SDoc d raw -> d <= 4096 -> (limit = 0 \/ N.of_nat (length raw) < limit)%N ->
    json_family "none"%string (N.lor tok_object tok_array) raw limit = true.
Proof.
  intros d raw limit Hd Hle Hl. unfold json_family.
  change (queries_of "none"%string) with (@nil query).
  apply (json_complete_whole maxrec tokens (N.lor tok_object tok_array)) with (d := d); try assumption; try (vm_compute; discriminate).
Qed.
Print Assumptions C08_whole_detector.

Example C08_doc_example : SDoc 1 [91;49;93]%N.    (* the document [1] *)
Proof.
  exists [], [91;49;93]%N, []. split; [reflexivity|]. split; [constructor|]. split; [constructor|]. split.
  - apply (SV_arr 0 [49;93]%N). apply (SA_last 0 0 [] [49]%N []); [constructor| |lia|constructor].
    apply SV_num. exists [], [49]%N, [], []. split; [reflexivity|]. split; [left; reflexivity|].
    split; [right; exists 49%N, []; split; [reflexivity|split; [reflexivity|constructor]]|]. split; left; reflexivity.
  - exists [49;93]%N. left. reflexivity.
Qed.

Example C08_cut_inside_string : json_family "none"%string (N.lor tok_object tok_array) (b "["",") 3 = true.
Proof. vm_compute. reflexivity. Qed.
Example C08_cut_inside_escape : json_family "none"%string (N.lor tok_object tok_array) (b "{""a"":""\u00") 10 = true.
Proof. vm_compute. reflexivity. Qed.

(* the scanner is online: a prefix of an input that is scanned to completion is inspected to its last byte
   (any query table, cap, fuel) *)
Theorem C08_scanner_online :
  forall maxrec qs tk fuel p q lvl s s',
    go maxrec qs tk fuel WAny (p ++ q) lvl s = (Some [], s') ->
    ib (snd (go maxrec qs tk fuel WAny p lvl s)) = ib s + length p.
Proof. exact scan_online. Qed.
Print Assumptions C08_scanner_online.

(* the property, truncated mode: every cut p of a document p ++ q that includes the opening bracket, examined
   under a limit that does not exceed its length *)
Theorem C08_truncated :
  forall maxrec tk want, N.land (tok_of tk 91) want <> 0%N -> N.land (tok_of tk 123) want <> 0%N ->
  forall d raw p q limit, SDoc d raw -> d <= maxrec -> raw = p ++ q ->
    looks_like_obj_or_arr p = true -> limit <> 0%N -> (limit <= N.of_nat (length p))%N ->
    json_helper maxrec tk [] want p limit = true.
Proof. exact json_complete_trunc. Qed.
Print Assumptions C08_truncated.

(* whole and truncated together, on the header Detect hands to the detector: any limit that leaves the
   opening bracket inside the header *)
Theorem C08_every_cut :
  forall d raw limit, SDoc d raw -> d <= 4096 ->
    (limit = 0 \/ N.of_nat (bracket_pos raw) < limit)%N ->
    json_family "none"%string (N.lor tok_object tok_array) (hdr limit raw) limit = true.
Proof.
  intros d raw limit Hd Hle Hl. unfold json_family.
  change (queries_of "none"%string) with (@nil query).
  apply (json_complete_every_cut maxrec tokens (N.lor tok_object tok_array)) with (d := d); try assumption; try (vm_compute; discriminate).
Qed.
Print Assumptions C08_every_cut.

(* ---- Detect ---- *)
Definition json_id : nat := id_of_var "json"%string.
Definition text_tree : tree := last (t_kids tree0) (T 0 []).
Definition var_of (t : tree) : string := match nth_error nodes (t_id t) with Some n => n_var n | None => ""%string end.
Fixpoint elders (id : nat) (l : list tree) : list tree :=
  match l with [] => [] | c :: l' => if Nat.eqb (t_id c) id then [] else c :: elders id l' end.
Fixpoint find_kid (id : nat) (l : list tree) : option tree :=
  match l with [] => None | c :: l' => if Nat.eqb (t_id c) id then Some c else find_kid id l' end.
Fixpoint youngers (id : nat) (l : list tree) : list tree :=
  match l with [] => [] | c :: l' => if Nat.eqb (t_id c) id then l' else youngers id l' end.

(* regenerated obligation: where json sits *)
Lemma ob_json_position :
  exists jt, find_kid json_id (t_kids text_tree) = Some jt /\ t_id jt = json_id /\
    t_kids tree0 = removelast (t_kids tree0) ++ [text_tree] /\ t_id text_tree = text_id /\
    t_kids text_tree = elders json_id (t_kids text_tree) ++ jt :: youngers json_id (t_kids text_tree) /\
    map var_of (elders json_id (t_kids text_tree)) = ["html"; "svg"; "xml"; "php"; "js"; "lua"; "perl"; "python"]%string /\
    nth_error node_dets json_id = Some (Some (DFunc "JSON"%string)).
Proof. vm_compute. eexists. repeat split. Qed.
Print Assumptions ob_json_position.

Lemma verdict_json orc raw lim :
  verdict orc raw lim json_id = json_family "none"%string (N.lor tok_object tok_array) raw lim.
Proof.
  destruct ob_json_position as (_ & _ & _ & _ & _ & _ & _ & Hd).
  unfold verdict. rewrite Hd. reflexivity.
Qed.
Print Assumptions verdict_json.

(* Detect at any limit on any document: unless a format consulted earlier accepts, the reported hierarchy
   contains application/json - i.e. the result is application/json or one of its sub-types *)
Theorem C08_detect :
  forall orc d raw limit, SDoc d raw -> d <= 4096 ->
    (limit = 0 \/ N.of_nat (bracket_pos raw) < limit)%N ->
    let acc := verdict orc (hdr limit raw) limit in
    text_spec (hdr limit raw) = true ->                                       (* no binary data byte in the header *)
    Forall (fun c => acc (t_id c) = false) (removelast (t_kids tree0)) ->     (* no earlier root format accepts *)
    Forall (fun c => acc (t_id c) = false) (elders json_id (t_kids text_tree)) ->  (* nor html ... python *)
    exists rest, detect_path orc limit raw = 0 :: text_id :: json_id :: rest.
Proof.
  intros orc d raw limit Hd Hle Hl acc Htext Hroot Htk.
  destruct ob_json_position as (jt & _ & Hjid & Hsplit0 & Htid & Hsplit1 & _ & _).
  unfold detect_path. fold acc. rewrite tree0_shape, Hsplit0.
  assert (Hat : acc (t_id text_tree) = true) by (rewrite Htid; unfold acc; rewrite verdict_text; exact Htext).
  rewrite walk_eq, (first_kid_skip acc _ text_tree [] Hroot Hat).
  destruct text_tree as [tn tcs] eqn:Ett. cbn [t_id t_kids] in *. subst tn.
  rewrite walk_eq, Hsplit1.
  assert (Haj : acc (t_id jt) = true).
  { rewrite Hjid. unfold acc. rewrite verdict_json. apply (C08_every_cut d); assumption. }
  rewrite (first_kid_skip acc _ jt _ Htk Haj).
  destruct (walk_head acc jt) as [p ->]. rewrite Hjid. eauto.
Qed.
Print Assumptions C08_detect.

(* regenerated obligation: in the CURRENT source JSON is a single call of jsonHelper with no query, for objects and arrays *)
Theorem C08_json_call_is_the_source : call_shapes_agree_for ["JSON"]%string = true.
Proof. vm_compute. reflexivity. Qed.
Print Assumptions C08_json_call_is_the_source.
