(* C03 - the reported hierarchy is the first-match deepest path of the detector tree.
   Stated for every tree and every verdict function (hence for the built-in tree, for trees
   enlarged by Extend, and for arbitrary detector predicates), then instantiated on Detect. *)
From Verif Require Import Base.Bytes Model.Types Model.Tree Model.Detect Gen.TreeData Proofs.TreeP Spec.SpecOrder Model.Order.

(* the walk computes exactly the declarative first-match path *)
Theorem C03_walk_is_first_match_path :
  forall (acc : nat -> bool) (t : tree) (p : list nat), Path acc t p <-> walk acc t = p.
Proof. exact walk_spec. Qed.
Print Assumptions C03_walk_is_first_match_path.

(* every ancestor's (and the result's own) signature check accepted *)
Theorem C03_ancestors_match :
  forall (acc : nat -> bool) (t : tree) (i : nat), In i (tl (walk acc t)) -> acc i = true.
Proof. exact ancestors_match. Qed.
Print Assumptions C03_ancestors_match.

(* no sub-format of the reported node accepts *)
Theorem C03_no_child_matches :
  forall (acc : nat -> bool) (t : tree), exists r rcs,
    Ends acc t r rcs /\ last (walk acc t) 0 = r /\ Forall (fun c => acc (t_id c) = false) rcs.
Proof. exact no_child_matches. Qed.
Print Assumptions C03_no_child_matches.

(* a format is consulted only as a child of a node on the path (all of whose ancestors matched) *)
Theorem C03_consulted_only_below_matching :
  forall (acc : nat -> bool) (t : tree) (i : nat), In i (walk_log acc t) ->
    exists s, Subtree t s /\ In (t_id s) (walk acc t) /\ In i (child_ids s).
Proof. exact consulted_only_below_matching. Qed.
Print Assumptions C03_consulted_only_below_matching.

(* instance: Detect on the regenerated built-in tree, for every input, limit and oracle *)
Theorem C03_detect_is_path :
  forall orc l x, Path (verdict orc (hdr l x) l) tree0 (detect_path orc l x).
Proof. intros orc l x. apply walk_sound. Qed.
Print Assumptions C03_detect_is_path.

(* "in priority order": the order of the sub-formats is a specification constant (Spec/SpecOrder.v, hand-maintained).
   Regenerated obligation: the tree of the current source lists the formats the specification names in the specified
   relative order under every parent (formats may be added or removed; two named siblings may not change places) ... *)
Theorem C03_priority_order_is_the_specified_one : order_respected = true.
Proof. vm_compute. reflexivity. Qed.
Print Assumptions C03_priority_order_is_the_specified_one.

(* ... so that Detect's path is the first-match path in the SPECIFIED order, for every input, limit and oracle *)
Theorem C03_detect_is_path_in_specified_order :
  forall orc l x, Path (verdict orc (hdr l x) l) tree_pinned (detect_path orc l x).
Proof.
  assert (E : tree_pinned = tree0) by (vm_compute; reflexivity).
  intros orc l x. rewrite E. apply walk_sound.
Qed.
Print Assumptions C03_detect_is_path_in_specified_order.

(* the re-ordering is not vacuous: two named siblings that changed places are put back *)
Example C03_pin_example :
  let t := id_of_var "tar" in let x := id_of_var "xar" in
  reorder "root" [T x []; T 4000 []; T t []] = [T t []; T 4000 []; T x []] /\ t <> x.
Proof. vm_compute. split; [reflexivity|discriminate]. Qed.

(* non-vacuity: a concrete three-level path *)
Example C03_example :
  walk (fun i => Nat.eqb i 3 || Nat.eqb i 9) (T 0 [T 1 []; T 3 [T 4 []; T 9 [T 10 []]]; T 5 []]) = [0; 3; 9].
Proof. reflexivity. Qed.
