(* C16 - nesting bombs cannot exhaust the stack (the part that is logic: depth, not bytes of stack).
   The scanner state carries a ghost high-water mark of the recursion level; the Go call depth is two
   frames (consumeAny + consumeArray/consumeObject) per level. *)
From Verif Require Import Base.Bytes Model.Json Model.Detect Gen.Tables Spec.JsonGrammar Proofs.JsonDepth Proofs.JsonBomb.

(* for every input, query and token table: the recursion level never exceeds the cap of the state in use *)
Theorem C16_depth_bounded :
  forall maxrec qs tk, maxrec <> 0 -> forall raw, p_hw (parse maxrec tk qs raw) <= maxrec.
Proof. exact depth_bounded. Qed.
Print Assumptions C16_depth_bounded.

(* the state Detect actually uses: the pool constructor installs the cap (regenerated runtime dump of a
   pooled state), and the cap is the documented constant 4096 *)
Theorem C16_pool_installs_cap : pool_max_recursion = max_recursion /\ max_recursion = 4096%N /\ maxrec = 4096.
Proof. vm_compute. repeat split. Qed.
Print Assumptions C16_pool_installs_cap.

(* hence every JSON-family detector of the tree runs at depth <= 4096, independent of input size and limit *)
Theorem C16_detectors_bounded : forall q raw, p_hw (parse maxrec tokens (queries_of q) raw) <= 4096.
Proof. intros q raw. apply (depth_bounded maxrec (queries_of q) tokens). discriminate. Qed.
Print Assumptions C16_detectors_bounded.

(* an input opening more than cap+1 arrays in a row is not reported as JSON: whole and truncated mode, any
   continuation, any limit *)
Theorem C16_array_bomb_rejected :
  forall maxrec qs tk, maxrec <> 0 -> forall want n rest limit, maxrec + 2 <= n ->
    json_helper maxrec tk qs want (repeat 91%N n ++ rest) limit = false.
Proof. exact array_bomb_rejected. Qed.
Print Assumptions C16_array_bomb_rejected.

(* bombs of any shape: more than cap+1 containers opened in a row - arrays and objects in any mixture, any keys,
   any layout - are not reported as JSON, whole or truncated, whatever follows *)
Theorem C16_bomb_rejected :
  forall maxrec qs tk, maxrec <> 0 -> forall want w0 os rest limit,
    WS w0 -> Forall Opener os -> maxrec + 2 <= length os ->
    json_helper maxrec tk qs want (w0 ++ concat os ++ rest) limit = false.
Proof. exact bomb_rejected. Qed.
Print Assumptions C16_bomb_rejected.

(* the detectors of the tree: 4098 openers suffice *)
Theorem C16_detectors_reject_bombs :
  forall q want w0 os rest limit, WS w0 -> Forall Opener os -> 4098 <= length os ->
    json_family q want (w0 ++ concat os ++ rest) limit = false.
Proof.
  intros q want w0 os rest limit Hw Hos Hn. unfold json_family.
  apply (bomb_rejected maxrec (queries_of q) tokens); try assumption. discriminate.
Qed.
Print Assumptions C16_detectors_reject_bombs.

Example C16_openers : Forall Opener [b "["; b "{""k"": "; b "[ "; b "{ ""a\""b"" :"].
Proof.
  repeat constructor.
  - apply (Op_obj [] (b "k""") [] [32%N]); repeat constructor; discriminate.
  - apply (Op_obj [32%N] (b "a\""b""") [32%N] []); try (repeat constructor; fail).
    apply RS_char; [discriminate|discriminate|]. apply RS_esc; [reflexivity|]. apply RS_char; [discriminate|discriminate|]. constructor.
Qed.

Example C16_small_cap : p_hw (parse 3 tokens [] (b "[[[[[[[[1]]]]]]]]")) = 3. Proof. vm_compute. reflexivity. Qed.
