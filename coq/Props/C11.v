(* C11 - sniffed charset is truthful for undeclared text.
   Proved for every byte string: the BOM clause, both UTF-8 clauses (utf-8 only if the bytes are valid UTF-8
   apart from a multi-byte sequence cut off at the very end; always for such text that is ASCII text only or
   has a complete non-ASCII character), and the windows-1252 / iso-8859-1 split.  "Valid UTF-8" is
   Unicode Table 3-7 as written in Spec/SpecCharset.v (well_formed), shown equal to the model of utf8.Valid.
   The tie to charset.FromPlain / utf8.Valid / utf8.FullRune in Go is the c11 correspondence channel
   (exhaustive over a 23-symbol byte-class alphabet) with c11_judge judging the implementation directly. *)
From Verif Require Import Base.Bytes Model.Text Model.Charset Gen.Tables Spec.SpecText Spec.SpecCharset
  Proofs.DetectP Proofs.CharsetP Proofs.Utf8P.
From Coq Require Import Lia.

Theorem C11_bom_table_is_spec : boms = spec_boms.
Proof. exact ob_boms. Qed.
Print Assumptions C11_bom_table_is_spec.

Theorem C11_bom_wins :
  forall tchars cT cI rep s cs, from_bom spec_boms s = cs -> cs <> [] -> from_plain spec_boms tchars cT cI rep s = cs.
Proof. exact bom_wins. Qed.
Print Assumptions C11_bom_wins.

Theorem C11_latin_split :
  forall tchars cT cI rep s,
    (from_plain spec_boms tchars cT cI rep s = b "windows-1252" -> has_c1 s = true) /\
    (from_plain spec_boms tchars cT cI rep s = b "iso-8859-1" -> has_c1 s = false).
Proof. exact latin_split. Qed.
Print Assumptions C11_latin_split.

(* the byte-class table of the implementation: ASCII text characters of the specification are class T *)
Theorem C11_text_chars_table :
  length text_chars = 256 /\
  forallb (fun c => Bool.eqb (ascii_text c) ((nth (N.to_nat c) text_chars 0 =? tc_T)%N && (c <? 128)%N)) (map N.of_nat (seq 0 256)) = true.
Proof. vm_compute. split; reflexivity. Qed.
Print Assumptions C11_text_chars_table.

(* the table obligation, for every byte value *)
Lemma C11_table_all : forall c : N, ascii_text c = ((Charset.tc text_chars c =? tc_T) && (c <? 128))%N.
Proof.
  intros c. destruct (N.ltb_spec c 128) as [Hlt|Hge].
  - destruct C11_text_chars_table as [_ Hall]. rewrite forallb_forall in Hall.
    specialize (Hall c). rewrite andb_true_r.
    assert (Hin : In c (map N.of_nat (seq 0 256))).
    { apply in_map_iff. exists (N.to_nat c). split; [apply Nnat.N2Nat.id|]. apply in_seq. lia. }
    specialize (Hall Hin). apply Bool.eqb_prop in Hall. rewrite Hall.
    unfold Charset.tc. replace (c <? 128)%N with true by (symmetry; apply N.ltb_lt; exact Hlt). rewrite andb_true_r. reflexivity.
  - rewrite andb_false_r. unfold ascii_text, inr.
    replace (c <=? 13)%N with false by (symmetry; apply N.leb_gt; lia).
    replace (c =? 27)%N with false by (symmetry; apply N.eqb_neq; lia).
    replace (c <=? 126)%N with false by (symmetry; apply N.leb_gt; lia).
    rewrite !andb_false_r. reflexivity.
Qed.
Print Assumptions C11_table_all.

(* well-formedness of the specification = the model of utf8.Valid, for every byte string *)
Theorem C11_valid_is_table_3_7 : forall l, well_formed l = utf8_valid l.
Proof. exact well_formed_valid. Qed.
Print Assumptions C11_valid_is_table_3_7.

Theorem C11_utf8_only_if :
  forall s, from_bom spec_boms s = [] ->
    from_plain spec_boms text_chars tc_T tc_I true s = b "utf-8" -> up_to_trunc s = true.
Proof. exact (utf8_only_if text_chars tc_T tc_I C11_table_all). Qed.
Print Assumptions C11_utf8_only_if.

Theorem C11_utf8_if :
  forall s, s <> [] -> from_bom spec_boms s = [] ->
    (all_ascii_text s = true \/ has_complete_non_ascii s = true) ->
    from_plain spec_boms text_chars tc_T tc_I true s = b "utf-8".
Proof. exact (utf8_if text_chars tc_T tc_I C11_table_all). Qed.
Print Assumptions C11_utf8_if.

(* non-vacuity: a text with a complete non-ASCII character cut inside the next one *)
Example C11_cut_inside : has_complete_non_ascii [99;195;169;226;130]%N = true /\ up_to_trunc [99;195;169;226;130]%N = true /\
  from_plain boms text_chars tc_T tc_I true [99;195;169;226;130]%N = b "utf-8".
Proof. vm_compute. repeat split. Qed.

Example C11_cafe : from_plain boms text_chars tc_T tc_I true [99;97;102;195;169]%N = b "utf-8". Proof. vm_compute. reflexivity. Qed.
Example C11_nel : from_plain boms text_chars tc_T tc_I true [87;97;105;116;133]%N = b "windows-1252". Proof. vm_compute. reflexivity. Qed.
Example C11_legacy_cafe : from_plain boms text_chars tc_T tc_I false [99;97;102;195;169]%N = b "iso-8859-1". Proof. vm_compute. reflexivity. Qed.
Example C11_legacy_nel : from_plain boms text_chars tc_T tc_I false [87;97;105;116;133]%N = b "utf-8". Proof. vm_compute. reflexivity. Qed.
