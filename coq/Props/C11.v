(* C11 - sniffed charset is truthful for undeclared text.
   PARTIAL in this revision: proved are the BOM clause and the windows-1252 / iso-8859-1 split for every
   byte string; the two UTF-8 clauses (utf-8 only if valid up to a truncated final sequence; always for
   such text that is ASCII-only or has a complete non-ASCII character) are decided on the implementation
   by the extracted specification predicate c11_judge, exhaustively over a 23-symbol byte-class alphabet. *)
From Verif Require Import Base.Bytes Model.Text Model.Charset Gen.Tables Spec.SpecText Spec.SpecCharset
  Proofs.DetectP Proofs.CharsetP.

Theorem C11_bom_table_is_spec : boms = spec_boms.
Proof. exact ob_boms. Qed.
Print Assumptions C11_bom_table_is_spec.

Theorem C11_bom_wins :
  forall tchars cT cI rep s cs, from_bom spec_boms s = cs -> cs <> [] -> from_plain spec_boms tchars cT cI rep s = cs.
Proof. exact bom_wins. Qed.
Print Assumptions C11_bom_wins.

Theorem C11_latin_split :
  forall tchars cT cI rep s,
    (from_plain spec_boms tchars cT cI rep s = b "windows-1252" -> has_c1 s = true) /\
    (from_plain spec_boms tchars cT cI rep s = b "iso-8859-1" -> has_c1 s = false).
Proof. exact latin_split. Qed.
Print Assumptions C11_latin_split.

(* the byte-class table of the implementation: ASCII text characters of the specification are class T *)
Theorem C11_text_chars_table :
  length text_chars = 256 /\
  forallb (fun c => Bool.eqb (ascii_text c) ((nth (N.to_nat c) text_chars 0 =? tc_T)%N && (c <? 128)%N)) (map N.of_nat (seq 0 256)) = true.
Proof. vm_compute. split; reflexivity. Qed.
Print Assumptions C11_text_chars_table.

Example C11_cafe : from_plain boms text_chars tc_T tc_I true [99;97;102;195;169]%N = b "utf-8". Proof. vm_compute. reflexivity. Qed.
Example C11_nel : from_plain boms text_chars tc_T tc_I true [87;97;105;116;133]%N = b "windows-1252". Proof. vm_compute. reflexivity. Qed.
Example C11_legacy_cafe : from_plain boms text_chars tc_T tc_I false [99;97;102;195;169]%N = b "iso-8859-1". Proof. vm_compute. reflexivity. Qed.
Example C11_legacy_nel : from_plain boms text_chars tc_T tc_I false [87;97;105;116;133]%N = b "utf-8". Proof. vm_compute. reflexivity. Qed.
