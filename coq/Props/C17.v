(* C17 - raising the read limit never loses a binary identification. *)
From Verif Require Import Base.Bytes Model.Types Model.GoLite Model.Zip Model.Detect Gen.TreeData
  Proofs.GoLiteP Proofs.MonoP Proofs.DetectP Gen.SigData Model.Detectors Gen.FuncTerms Proofs.TranslateP
  Model.Tar Model.Mkv Model.GoRes Gen.SrcFuncs Proofs.SrcZipP Proofs.SrcMkvP Proofs.SrcTarP.

(* the analysis behind the data obligation: a term classified monotone keeps a positive verdict
   under every extension of the header *)
Theorem C17_mono_analysis_sound :
  forall p raw ext, mono p = true -> evalp p raw = Val true -> evalp p (raw ++ ext) = Val true.
Proof. intros p raw ext. apply mono_sound. Qed.
Print Assumptions C17_mono_analysis_sound.

(* data obligation on the regenerated tree: every root format but text/plain is monotone, or is ttf *)
Theorem C17_root_formats_monotone :
  forallb (fun id => Nat.eqb id ttf_id || det_mono_ok id) (removelast root_kids) = true.
Proof. exact ob_root_mono. Qed.
Print Assumptions C17_root_formats_monotone.

(* the one non-monotone check hands over to another binary root format *)
Theorem C17_ttf_handover :
  forall raw e, evalp ttf_term raw = Val true ->
    evalp ttf_term (raw ++ e) = Val true \/ evalb Model.Detectors.ace (raw ++ e) = Val true \/ evalb Model.Detectors.mdb (raw ++ e) = Val true.
Proof. exact ttf_handover. Qed.
Print Assumptions C17_ttf_handover.

(* the property: for every input shorter than 4 GiB, every oracle for the (text-level) opaque
   detectors, and every pair of limits 0 < L, (L' = 0 or L <= L') *)
Theorem C17_limit_monotone :
  forall orc x (L L' : N),
    (N.of_nat (length x) < two32)%N -> (0 < L)%N -> (L' = 0 \/ L <= L')%N ->
    binary_path (detect_path orc L x) = true -> binary_path (detect_path orc L' x) = true.
Proof. exact limit_monotone. Qed.
Print Assumptions C17_limit_monotone.

(* non-vacuity: a PNG header is binary at limit 8 *)
Example C17_png_binary : binary_path (detect_path (fun _ _ _ => false) 8 ([137;80;78;71;13;10;26;10;0;0]%N)) = true.
Proof. vm_compute. reflexivity. Qed.

(* regenerated obligation: the terms the monotonicity analysis classifies are the bodies in the CURRENT source - every
   hand-written function term and every prefix / offset / ftyp / jpeg2k signature (equal up to the normalisation proved
   to preserve result and Panic) *)
Theorem C17_analysed_terms_are_the_source : translation_agrees && comb_translation_agrees = true.
Proof. vm_compute. reflexivity. Qed.
Print Assumptions C17_analysed_terms_are_the_source.

(* the three root formats whose monotonicity is proved on hand-written models (tar / crx / matroska_monotone): the
   models are the current source (translated on this run, Gen/SrcFuncs.v) *)
Theorem C17_hand_models_are_the_source : forall raw l, bytes_ok raw = true ->
  src_Tar raw l = Val (tar_det raw) /\ src_CRX raw l = Val (crx_det raw) /\
  src_Mkv raw l = Val (mkv_det raw) /\ src_WebM raw l = Val (webm_det raw).
Proof. intros raw l H. repeat split. - apply src_Tar_ok; exact H. - apply src_CRX_ok. - apply src_Mkv_ok; exact H. - apply src_WebM_ok; exact H. Qed.
Print Assumptions C17_hand_models_are_the_source.
