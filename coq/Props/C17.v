(* C17 - raising the read limit never loses a binary identification. *)
From Verif Require Import Base.Bytes Model.Types Model.GoLite Model.Zip Model.Detect Gen.TreeData
  Proofs.GoLiteP Proofs.MonoP Proofs.DetectP Gen.SigData Model.Detectors Gen.FuncTerms Proofs.TranslateP.

(* the analysis behind the data obligation: a term classified monotone keeps a positive verdict
   under every extension of the header *)
Theorem C17_mono_analysis_sound :
  forall p raw ext, mono p = true -> evalp p raw = Val true -> evalp p (raw ++ ext) = Val true.
Proof. intros p raw ext. apply mono_sound. Qed.
Print Assumptions C17_mono_analysis_sound.

(* data obligation on the regenerated tree: every root format but text/plain is monotone, or is ttf *)
Theorem C17_root_formats_monotone :
  forallb (fun id => Nat.eqb id ttf_id || det_mono_ok id) (removelast root_kids) = true.
Proof. exact ob_root_mono. Qed.
Print Assumptions C17_root_formats_monotone.

(* the one non-monotone check hands over to another binary root format *)
Theorem C17_ttf_handover :
  forall raw e, evalp ttf_term raw = Val true ->
    evalp ttf_term (raw ++ e) = Val true \/ evalb Model.Detectors.ace (raw ++ e) = Val true \/ evalb Model.Detectors.mdb (raw ++ e) = Val true.
Proof. exact ttf_handover. Qed.
Print Assumptions C17_ttf_handover.

(* the property: for every input shorter than 4 GiB, every oracle for the (text-level) opaque
   detectors, and every pair of limits 0 < L, (L' = 0 or L <= L') *)
Theorem C17_limit_monotone :
  forall orc x (L L' : N),
    (N.of_nat (length x) < two32)%N -> (0 < L)%N -> (L' = 0 \/ L <= L')%N ->
    binary_path (detect_path orc L x) = true -> binary_path (detect_path orc L' x) = true.
Proof. exact limit_monotone. Qed.
Print Assumptions C17_limit_monotone.

(* non-vacuity: a PNG header is binary at limit 8 *)
Example C17_png_binary : binary_path (detect_path (fun _ _ _ => false) 8 ([137;80;78;71;13;10;26;10;0;0]%N)) = true.
Proof. vm_compute. reflexivity. Qed.

(* regenerated obligation: the terms the monotonicity analysis classifies are the bodies in the CURRENT source - every
   hand-written function term and every prefix / offset / ftyp / jpeg2k signature (equal up to the normalisation proved
   to preserve result and Panic) *)
Theorem C17_analysed_terms_are_the_source : translation_agrees && comb_translation_agrees = true.
Proof. vm_compute. reflexivity. Qed.
Print Assumptions C17_analysed_terms_are_the_source.
