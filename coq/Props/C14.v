(* C14 - extensions take priority, stay inside their parent, and disturb nothing else.
   Stated for arbitrary trees, arbitrary (pure, total) detector verdicts and arbitrary histories. *)
From Verif Require Import Base.Bytes Model.Types Model.Tree Proofs.TreeP Proofs.HeapP Proofs.LookupP.

(* Extend prepends: the new leaf is the first child of its parent *)
Theorem C14_extend_prepends :
  forall p k n cs, n = p -> insert_first p k (T n cs) = T n (T k [] :: map (insert_first p k) cs).
Proof. exact insert_first_child. Qed.
Print Assumptions C14_extend_prepends.

(* priority and containment: an input that reaches the parent and satisfies the extension's detector is
   classified under the extension, with the parent's chain as its ancestors - never under an older sibling *)
Theorem C14_priority_and_containment :
  forall acc p k, acc k = true -> forall t, NoDup (flatten t) -> In p (walk acc t) ->
    exists pre rest, walk acc t = pre ++ p :: rest /\ walk acc (insert_first p k t) = pre ++ [p; k].
Proof. exact ext_priority. Qed.
Print Assumptions C14_priority_and_containment.

(* non-interference: inputs the extension's detector rejects are classified exactly as before *)
Theorem C14_noninterference :
  forall acc p k, acc k = false -> forall t, walk acc (insert_first p k t) = walk acc t.
Proof. exact ext_noninterference. Qed.
Print Assumptions C14_noninterference.

(* ... after any finite sequence of Extend calls (on the root, on built-ins, on earlier extensions) *)
Theorem C14_histories :
  forall acc ops, Forall (fun o => acc (snd o) = false) ops -> forall t, walk acc (extend_all ops t) = walk acc t.
Proof. exact extends_noninterference. Qed.
Print Assumptions C14_histories.

(* ---- Lookup over the enlarged tree ---- *)
(* Lookup is the first node in flatten() order that carries the name (as type or alias) *)
Theorem C14_lookup_is_first :
  forall names name t, lookup names name t = find (has_name names name) (flatten t).
Proof. exact lookup_is_first. Qed.
Print Assumptions C14_lookup_is_first.

(* in that order the extension sits directly behind its parent *)
Theorem C14_extension_follows_parent :
  forall p k t, NoDup (flatten t) -> In p (flatten t) ->
    exists pre post, flatten t = pre ++ p :: post /\ flatten (insert_first p k t) = pre ++ p :: k :: post.
Proof. exact flatten_insert_at. Qed.
Print Assumptions C14_extension_follows_parent.

(* an extension name or alias that no older format carries is found, and it is the extension (whose parent is p by
   C14_extend_prepends) *)
Theorem C14_lookup_finds_extension :
  forall names p k name t, NoDup (flatten t) -> In p (flatten t) -> has_name names name k = true ->
    (forall i, In i (flatten t) -> has_name names name i = false) ->
    lookup names name (insert_first p k t) = Some k.
Proof. exact lookup_extension. Qed.
Print Assumptions C14_lookup_finds_extension.

(* every other name resolves exactly as before the call *)
Theorem C14_lookup_undisturbed :
  forall names p k name t, NoDup (flatten t) -> In p (flatten t) -> has_name names name k = false ->
    lookup names name (insert_first p k t) = lookup names name t.
Proof. exact lookup_other_names. Qed.
Print Assumptions C14_lookup_undisturbed.

Example C14_example :
  walk (fun i => Nat.eqb i 2 || Nat.eqb i 9) (insert_first 2 9 (T 0 [T 1 []; T 2 [T 3 []]])) = [0; 2; 9].
Proof. reflexivity. Qed.
