(* C15 - equality helpers ignore case, whitespace and parameters and know aliases.
   The normalisation itself is mime.ParseMediaType (Go standard library: an oracle whose first result the
   harness supplies); proved here is everything the repository adds on top of it. *)
From Verif Require Import Base.Bytes Model.Types Model.Tree Model.Mime Model.Detect Gen.TreeData Proofs.MimeP Proofs.BytesP.

(* m.Is(s) holds exactly when the normalised s equals m's type or one of its registered aliases *)
Theorem C15_is_spec :
  forall found aliases norm, is_model found aliases norm = true <-> norm = found \/ In norm aliases.
Proof.
  intros found aliases norm. unfold is_model. rewrite orb_true_iff, beq_spec. split.
  - intros [H|H]; [left; exact H|right]. apply existsb_exists in H as (a & Ha & Hb). apply beq_spec in Hb. subst. exact Ha.
  - intros [H|H]; [left; exact H|right]. apply existsb_exists. exists norm. split; [exact H|apply beq_refl].
Qed.
Print Assumptions C15_is_spec.

(* registered names are already normalised (lower-case token "/" token, no parameters) *)
Theorem C15_names_normalised :
  forallb (fun n => normal_media_type (n_mime n) && forallb normal_media_type (n_aliases n)) nodes = true.
Proof. exact ob_names_normal. Qed.
Print Assumptions C15_names_normalised.

(* every registered type and alias resolves through Lookup to a format that Is that name *)
Theorem C15_every_name_resolves :
  forallb (fun n => forallb (fun name =>
     match lookup node_names name tree0 with
     | Some id => match nth_error nodes id with Some m => is_model (n_mime m) (n_aliases m) name | None => false end
     | None => false end) (names_of n)) nodes = true.
Proof. exact ob_names_resolve. Qed.
Print Assumptions C15_every_name_resolves.

(* a result is itself: whatever normalisation yields for d.String(), d.Is(d.String()) holds *)
Theorem C15_result_is_itself : forall found aliases, is_model found aliases found = true.
Proof. intros. unfold is_model. rewrite beq_refl. reflexivity. Qed.
Print Assumptions C15_result_is_itself.
