(* C12 - declared charsets are honoured.
   PARTIAL by design: the repository's own logic (fromMetaElement, xmlEncoding, the meta attribute loop and
   prescan, BOM precedence) is proved for all labels; the two tokenizers (x/net/html, encoding/xml) are
   oracles: the token streams they deliver are data to the prescan model, and the correspondence run
   checks on every generated document that the model fed with the real token stream reproduces fromHTML,
   and that Detect reports the declared label. *)
From Verif Require Import Base.Bytes Model.Text Model.Meta Spec.SpecText Proofs.MetaP.

Theorem C12_xml_encoding_honoured :
  forall pre ws1 ws2 q L post,
    (q = 34 \/ q = 39)%N -> ~ In q L ->
    Forall (fun c => xml_ws c = true) ws1 -> Forall (fun c => xml_ws c = true) ws2 ->
    index_of (b "encoding") (pre ++ b "encoding" ++ ws1 ++ 61%N :: ws2 ++ q :: L ++ q :: post) = Some (length pre) ->
    xml_encoding (pre ++ b "encoding" ++ ws1 ++ 61%N :: ws2 ++ q :: L ++ q :: post) = L.
Proof. exact xml_encoding_honoured. Qed.
Print Assumptions C12_xml_encoding_honoured.

Theorem C12_pragma_quoted_honoured :
  forall pre ws1 ws2 q L post,
    (q = 34 \/ q = 39)%N -> ~ In q L ->
    Forall (fun c => meta_ws c = true) ws1 -> Forall (fun c => meta_ws c = true) ws2 ->
    index_of str_charset (pre ++ str_charset ++ ws1 ++ 61%N :: ws2 ++ q :: L ++ q :: post) = Some (length pre) ->
    from_meta_element (pre ++ str_charset ++ ws1 ++ 61%N :: ws2 ++ q :: L ++ q :: post) = L.
Proof. exact pragma_quoted_honoured. Qed.
Print Assumptions C12_pragma_quoted_honoured.

Theorem C12_pragma_unquoted_honoured :
  forall pre ws1 ws2 L post,
    sep_free L -> L <> [] -> (match L with c :: _ => c <> 34%N /\ c <> 39%N | [] => True end) ->
    (match post with c :: _ => ((c =? 59)%N || meta_ws c = true) | [] => True end) ->
    Forall (fun c => meta_ws c = true) ws1 -> Forall (fun c => meta_ws c = true) ws2 ->
    index_of str_charset (pre ++ str_charset ++ ws1 ++ 61%N :: ws2 ++ L ++ post) = Some (length pre) ->
    from_meta_element (pre ++ str_charset ++ ws1 ++ 61%N :: ws2 ++ L ++ post) = L.
Proof. exact pragma_unquoted_honoured. Qed.
Print Assumptions C12_pragma_unquoted_honoured.

Theorem C12_meta_charset_honoured :
  forall pre v post rest,
    Forall (fun kv => plain_key (fst kv)) pre -> Forall (fun kv => plain_key (fst kv)) post ->
    html_prescan (mk_token (b "meta") (pre ++ (b "charset", v) :: post) :: rest) =
    if has_prefix (b "utf-16") (ascii_lower_bytes v) then b "utf-8" else ascii_lower_bytes v.
Proof. exact prescan_meta_charset. Qed.
Print Assumptions C12_meta_charset_honoured.

Theorem C12_prescan_skips_other_tags :
  forall t rest, tk_name t <> b "meta" -> html_prescan (t :: rest) = html_prescan rest.
Proof. exact prescan_skips. Qed.
Print Assumptions C12_prescan_skips_other_tags.

Theorem C12_bom_beats_meta :
  forall content prescan plain cs, from_bom spec_boms content = cs -> cs <> [] -> from_html spec_boms content prescan plain = cs.
Proof. exact bom_beats_meta. Qed.
Print Assumptions C12_bom_beats_meta.

Theorem C12_lowercase_idempotent : forall v, ascii_lower_bytes (ascii_lower_bytes v) = ascii_lower_bytes v.
Proof. exact lower_idempotent. Qed.
Print Assumptions C12_lowercase_idempotent.

Example C12_xml_example :
  xml_encoding (b "xml version=""1.0"" encoding = 'KOI8-R' standalone=""yes""") = b "KOI8-R".
Proof. vm_compute. reflexivity. Qed.
Example C12_pragma_example : from_meta_element (b "text/html; charset=shift_jis") = b "shift_jis".
Proof. vm_compute. reflexivity. Qed.
