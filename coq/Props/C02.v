(* C02 - the result is a valid, registered MIME type with a rooted hierarchy.
   PARTIAL: proved on the model are the structural clauses (the reported chain consists of registered formats,
   is at most four long and ends at application/octet-stream; every registered name is a lower-case
   token "/" token; the error value is the bare root).  That mime.FormatMediaType followed by
   mime.ParseMediaType returns every charset label unchanged (so that String() always parses and carries
   only `charset`) is a property of the Go standard library: it is checked on the implementation for every
   1-byte label and tens of thousands of hostile labels, and end to end through Detect by the extracted
   predicate c02_judge. *)
From Verif Require Import Base.Bytes Model.Types Model.Tree Model.Mime Model.Detect Gen.TreeData Proofs.MimeP.

Theorem C02_chain_registered_and_rooted :
  forall acc, let ch := chain_of acc tree0 in
    Forall (fun p => exists n, In n nodes /\ p = (n_mime n, n_ext n)) ch /\
    last ch ([], []) = (b "application/octet-stream", []) /\ 1 <= length ch <= 4.
Proof. exact chain_registered. Qed.
Print Assumptions C02_chain_registered_and_rooted.

Theorem C02_registered_names_are_media_types :
  forallb (fun n => normal_media_type (n_mime n) && forallb normal_media_type (n_aliases n)) nodes = true.
Proof. exact ob_names_normal. Qed.
Print Assumptions C02_registered_names_are_media_types.

Theorem C02_error_value_is_bare_root :
  n_mime err_node = b "application/octet-stream" /\ n_ext err_node = [] /\ n_parent err_node = None /\ n_children err_node = [].
Proof. exact ob_err_node. Qed.
Print Assumptions C02_error_value_is_bare_root.

Example C02_chain_example :
  chain_of (fun i => Nat.eqb i text_id) tree0 = [(b "text/plain", b ".txt"); (b "application/octet-stream", [])].
Proof. vm_compute. reflexivity. Qed.
