(* The pinned (pre-repair) scanner violates C09 and C08: refutation witnesses, by computation.
   Kept so that the findings D1 / D2 stay reproducible on the model of the code as it was. *)
From Verif Require Import Base.Bytes Legacy.JsonLegacy Gen.Tables.

Definition tokens : N * N * N * N * N * N * N :=
  (tok_null, tok_true, tok_false, tok_number, tok_string, tok_array, tok_object).
Definition legacy_json (raw : list N) (lim : N) : bool :=
  json_helper 4096 tokens [] (N.lor tok_object tok_array) raw lim.

(* C09: inputs that are not JSON documents were reported as application/json *)
Theorem legacy_c09_refuted :
  legacy_json (b "[") 0 = true /\ legacy_json (b "{") 0 = true /\ legacy_json (b "[{]") 0 = true
  /\ legacy_json (b "{""a"":[}") 0 = true.
Proof. vm_compute. repeat split. Qed.

(* C08: a valid document cut inside a string that starts with ',' was not recognised (double count) *)
Theorem legacy_c08_refuted : legacy_json (b "["",") 3 = false.
Proof. vm_compute. reflexivity. Qed.

(* C10: the array marker was not popped after a non-empty array, so a later query path never matched *)
Definition gltf_q : list (list (list N) * list (list N)) :=
  [([b "asset"; b "version"], [b """1.0"""; b """2.0"""])].
Theorem legacy_c10_refuted :
  json_helper 4096 tokens gltf_q tok_object (b "{""accessors"":[1],""asset"":{""version"":""2.0""}}") 0 = false.
Proof. vm_compute. reflexivity. Qed.
