(* LEGACY (pinned, pre-repair) variant of Model/Json.v: consumeAny returns the bytes consumed before a failed
   value (D1), consumeArray does not pop its marker after a non-empty array (D2), Parse returns consumeAny's
   result unconditionally.  Derived mechanically from Model/Json.v by tools/mk_legacy.py.
   internal/json: the truncation-aware recursive-descent scanner (consumeAny / consumeArray /
   consumeObject / consumeString / consumeNumber / consumeConst / consumeSpace), Parse, and the
   acceptance decision of magic.jsonHelper.  Suffix-passing style: a scanner function returns
   the rest of the input (Some rest) on success, None where the Go function returns 0.
   Open recursion: *_body take the recursive call as a parameter; `go` ties the knot on fuel;
   running out of fuel raises the ghost flag `oof` (excluded by theorem for fuel 2*len+2). *)
From Verif Require Import Base.Bytes.
Local Open Scope N_scope.

Definition is_space (c : byte) : bool := (c =? 32) || (c =? 9) || (c =? 13) || (c =? 10).
Definition is_digit (c : byte) : bool := (48 <=? c) && (c <=? 57).
Definition is_xdigit (c : byte) : bool :=
  is_digit c || ((97 <=? c) && (c <=? 102)) || ((65 <=? c) && (c <=? 70)).

Definition query := (list bytes * list bytes)%type.     (* SearchPath, SearchVals *)

Record pst := mk_pst {
  ib : nat;                 (* inspected bytes *)
  path : list bytes;        (* currPath, innermost element first *)
  ftok : N;                 (* firstToken *)
  qsat : bool;              (* querySatisfied *)
  complete : bool;          (* top-level value completed *)
  hw : nat;                 (* ghost: high-water mark of lvl *)
  oof : bool }.             (* ghost: fuel ran out *)

Definition bump (k : nat) (s : pst) :=
  mk_pst (ib s + k) (path s) (ftok s) (qsat s) (complete s) (hw s) (oof s).
Definition set_path p (s : pst) :=
  mk_pst (ib s) p (ftok s) (qsat s) (complete s) (hw s) (oof s).
Definition set_ftok t (s : pst) :=
  mk_pst (ib s) (path s) t (qsat s) (complete s) (hw s) (oof s).
Definition set_qsat q (s : pst) :=
  mk_pst (ib s) (path s) (ftok s) q (complete s) (hw s) (oof s).
Definition set_complete (s : pst) :=
  mk_pst (ib s) (path s) (ftok s) (qsat s) true (hw s) (oof s).
Definition see_lvl (lvl : nat) (s : pst) :=
  mk_pst (ib s) (path s) (ftok s) (qsat s) (complete s) (Nat.max (hw s) lvl) (oof s).
Definition set_oof (s : pst) :=
  mk_pst (ib s) (path s) (ftok s) (qsat s) (complete s) (hw s) true.

Fixpoint skip_space (b : bytes) : bytes :=
  match b with c :: b' => if is_space c then skip_space b' else b | [] => [] end.
Definition consume_space (b : bytes) (s : pst) : bytes * pst :=
  let r := skip_space b in (r, bump (length b - length r) s).

Definition jres := (option bytes * pst)%type.

Fixpoint consume_const (b cnst : bytes) (s : pst) {struct cnst} : jres :=
  match cnst with
  | [] => (Some b, s)
  | c :: cn' => match b with
                | x :: b' => if x =? c then consume_const b' cn' (bump 1 s) else (None, s)
                | [] => (None, s)
                end
  end.

Definition simple_esc (c : byte) : bool :=
  (c =? 34) || (c =? 92) || (c =? 47) || (c =? 98) || (c =? 102) || (c =? 110) || (c =? 114) || (c =? 116).

(* after the opening quote; hexleft: hex digits still expected after \u; esc: just saw a backslash *)
Fixpoint consume_string (b : bytes) (hexleft : nat) (esc : bool) (s : pst) : jres :=
  match b with
  | [] => (None, s)
  | c :: b' =>
    if esc then
      if simple_esc c then consume_string b' 0 false (bump 1 s)
      else if c =? 117 then consume_string b' 4 false (bump 1 s)
      else (None, s)
    else match hexleft with
      | S h => if is_xdigit c then consume_string b' h false (bump 1 s) else (None, s)
      | O => if c =? 92 then consume_string b' 0 true (bump 1 s)
             else if c =? 34 then (Some b', bump 1 s)
             else consume_string b' 0 false (bump 1 s)
      end
  end.

Fixpoint skip_digits (b : bytes) : bytes :=
  match b with c :: b' => if is_digit c then skip_digits b' else b | [] => [] end.

Definition drop_opt (k : byte) (b : bytes) : bytes :=
  match b with c :: b' => if c =? k then b' else b | [] => b end.
Definition drop_sign (b : bytes) : bytes :=
  match b with d :: b' => if (d =? 43) || (d =? 45) then b' else b | [] => b end.

Definition consume_number (b : bytes) (s : pst) : jres :=
  let b1 := drop_opt 45 b in
  let b2 := skip_digits b1 in
  let got1 := negb (Nat.eqb (length b2) (length b1)) in
  let b3 := drop_opt 46 b2 in
  let b4 := skip_digits b3 in
  let got2 := got1 || negb (Nat.eqb (length b4) (length b3)) in
  match b4 with
  | c :: b5 =>
    if got2 && ((c =? 101) || (c =? 69)) then
      let b6 := drop_sign b5 in
      let b7 := skip_digits b6 in
      let got3 := negb (Nat.eqb (length b7) (length b6)) in
      let s' := bump (length b - length b7) s in
      if got3 then (Some b7, s') else (None, s')
    else let s' := bump (length b - length b4) s in if got2 then (Some b4, s') else (None, s')
  | [] => let s' := bump (length b) s in if got2 then (Some [], s') else (None, s')
  end.

(* ---- queries ---- *)
Fixpoint lbeq (x y : list bytes) : bool :=
  match x, y with
  | [], [] => true
  | a :: x', c :: y' => beq a c && lbeq x' y'
  | _, _ => false
  end.
(* queryPathMatch: first query whose SearchPath equals the current path *)
Fixpoint query_path_match (qs : list query) (p : list bytes) : option query :=
  match qs with
  | [] => None
  | q :: qs' => if lbeq (fst q) (rev p) then Some q else query_path_match qs' p
  end.
(* strip trailing JSON whitespace (what bytes.TrimSpace removes from a scanned value) *)
Definition rstrip_ws (v : bytes) : bytes := rev (skip_space (rev v)).
(* effect of a completed member value on querySatisfied *)
Definition query_hit (q : query) (vtext : bytes) : bool :=
  match snd q with
  | [] => true
  | vals => existsb (fun v => beq v (rstrip_ws vtext)) vals
  end.

Inductive which := WAny | WArr | WObj.
Definition recT := which -> bytes -> nat -> pst -> jres.

Section Scanner.
  Variable maxrec : nat.          (* parserState.maxRecursion; 0 = unlimited *)
  Variable qs : list query.
  Variable tk : N * N * N * N * N * N * N.   (* TokNull,True,False,Number,String,Array,Object *)

  Definition tok_of (c : byte) : N :=
    let '(tnull, ttrue, tfalse, tnum, tstr, tarr, tobj) := tk in
    if c =? 34 then tstr else if c =? 91 then tarr else if c =? 123 then tobj
    else if c =? 116 then ttrue else if c =? 102 then tfalse else if c =? 110 then tnull else tnum.

  (* legacy: `if rv <= 0 { return n }` - n bytes (leading space, plus the opening quote/bracket) count as consumed *)
  Definition after_value (lvl : nat) (b b1 : bytes) (c : byte) (r : jres) : jres :=
    match r with
    | (None, s2) =>
        let n := (length b - length b1 + (if ((c =? 34) || (c =? 91) || (c =? 123))%N then 1 else 0))%nat in
        if Nat.eqb n 0 then (None, s2) else (Some (skipn n b), s2)
    | (Some b3, s2) =>
        let (b4, s3) := consume_space b3 s2 in
        (Some b4, if Nat.eqb lvl 0 then set_complete s3 else s3)
    end.

  Definition dispatch (rec : recT) (c : byte) (b1 b2 : bytes) (lvl : nat) (s1 : pst) : jres :=
    if c =? 34 then consume_string b2 0 false (bump 1 s1)
    else if c =? 91 then rec WArr b2 (S lvl) (set_path ([91] :: path s1) (bump 1 s1))
    else if c =? 123 then rec WObj b2 (S lvl) (bump 1 s1)
    else if c =? 116 then consume_const b1 [116;114;117;101] s1
    else if c =? 102 then consume_const b1 [102;97;108;115;101] s1
    else if c =? 110 then consume_const b1 [110;117;108;108] s1
    else consume_number b1 s1.

  (* bookkeeping done by consumeAny after the dispatched call returned *)
  Definition note_token (c : byte) (lvl : nat) (r : jres) : jres :=
    let (o, s) := r in
    let s1 := if Nat.eqb lvl 0 then set_ftok (tok_of c) s else s in
    let s2 := match qs with [] => set_qsat true s1 | _ => s1 end in
    (o, s2).

  Definition any_body (rec : recT) (b : bytes) (lvl : nat) (s : pst) : jres :=
    if negb (Nat.eqb maxrec 0) && Nat.ltb maxrec lvl then (None, s) else
    let (b1, s1) := consume_space b (see_lvl lvl s) in
    match b1 with
    | [] => (None, s1)
    | c :: b2 => after_value lvl b b1 c (note_token c lvl (dispatch rec c b1 b2 lvl s1))
    end.

  Definition pop (s : pst) : pst := set_path (tl (path s)) s.

  Definition arr_sep (rec : recT) (lvl : nat) (r : jres) : jres :=
    match r with
    | (None, s2) => (None, s2)
    | (Some b3, s2) =>
      match b3 with
      | [] => (None, s2)
      | d :: b4 => if d =? 44 then rec WArr b4 lvl (bump 1 s2)
                   else if d =? 93 then (Some b4, bump 1 s2)
                   else (None, s2)
      end
    end.

  Definition arr_body (rec : recT) (b : bytes) (lvl : nat) (s : pst) : jres :=
    let (b1, s1) := consume_space b s in
    match b1 with
    | [] => (None, s1)
    | c :: b2 =>
      if c =? 93 then (Some b2, pop (bump 1 s1))
      else arr_sep rec lvl (rec WAny b1 lvl s1)
    end.

  Definition obj_sep (rec : recT) (lvl : nat) (r : jres) : jres :=
    match r with
    | (None, s5) => (None, s5)
    | (Some b7, s5) =>
      match b7 with
      | [] => (None, s5)
      | e :: b8 => if e =? 44 then rec WObj b8 lvl (bump 1 (pop s5))
                   else if e =? 125 then (Some b8, bump 1 (pop s5))
                   else (None, s5)
      end
    end.

  (* after the member value: the query bookkeeping of consumeObject *)
  Definition note_value (qm : option query) (b6 : bytes) (r : jres) : jres :=
    match r with
    | (None, s) => (None, s)
    | (Some b7, s) =>
        match qm with
        | None => (Some b7, s)
        | Some q => let vtext := firstn (length b6 - length b7) b6 in
                    (Some b7, if query_hit q vtext then set_qsat true s else s)
        end
    end.

  Definition obj_value (rec : recT) (lvl : nat) (qm : option query) (r : jres) : jres :=
    match r with
    | (None, s2) => (None, s2)
    | (Some b3, s2) =>
      let (b4, s3) := consume_space b3 s2 in
      match b4 with
      | [] => (None, s3)
      | d :: b5 => if negb (d =? 58) then (None, s3) else
        let (b6, s4) := consume_space b5 (bump 1 s3) in
        match b6 with
        | [] => (None, s4)
        | _ => obj_sep rec lvl (note_value qm b6 (rec WAny b6 lvl s4))
        end
      end
    end.

  (* push the key (raw bytes between the quotes) and look the path up *)
  Definition key_step (b2 : bytes) (r : jres) : jres * option query :=
    match r with
    | (None, s) => ((None, s), None)
    | (Some b3, s) =>
        let key := firstn (length b2 - length b3 - 1) b2 in
        let s' := set_path (key :: path s) s in
        ((Some b3, s'), if qsat s' then None else query_path_match qs (path s'))
    end.

  Definition obj_body (rec : recT) (b : bytes) (lvl : nat) (s : pst) : jres :=
    let (b1, s1) := consume_space b s in
    match b1 with
    | [] => (None, s1)
    | c :: b2 =>
      if c =? 125 then (Some b2, bump 1 s1) else
      if negb (c =? 34) then (None, s1) else
      let (r, qm) := key_step b2 (consume_string b2 0 false (bump 1 s1)) in
      obj_value rec lvl qm r
    end.

  Fixpoint go (fuel : nat) (w : which) (b : bytes) (lvl : nat) (s : pst) {struct fuel} : jres :=
    match fuel with
    | O => (None, set_oof s)
    | S f => match w with
             | WAny => any_body (go f) b lvl s
             | WArr => arr_body (go f) b lvl s
             | WObj => obj_body (go f) b lvl s
             end
    end.
End Scanner.

Definition init_st : pst := mk_pst 0 [] 0 false false 0 false.
(* reset(): ib, currPath, firstToken, querySatisfied; (complete is cleared as well) *)
Definition reset (s : pst) : pst := mk_pst 0 [] 0 false false 0 false.

Definition fuel_for (raw : bytes) : nat := S (S (length raw + length raw)).

Record parse_out := mk_out { p_parsed : nat; p_inspected : nat; p_ftok : N; p_qsat : bool; p_oof : bool; p_hw : nat }.

(* Parse(queryType, raw) on a state with recursion cap maxrec *)
Definition parse (maxrec : nat) (tk : N * N * N * N * N * N * N) (qs : list query) (raw : bytes) : parse_out :=
  let '(o, s) := go maxrec qs tk (fuel_for raw) WAny raw 0 init_st in
  let n := match o with Some rest => (length raw - length rest)%nat | None => 0%nat end in
  mk_out n (ib s) (ftok s) (qsat s) (oof s) (hw s).

Definition looks_like_obj_or_arr (raw : bytes) : bool :=
  match skip_space raw with c :: _ => (c =? 123) || (c =? 91) | [] => false end.

(* magic.jsonHelper *)
Definition json_helper (maxrec : nat) tk (qs : list query) (want : N) (raw : bytes) (limit : N) : bool :=
  if negb (looks_like_obj_or_arr raw) then false else
  let r := parse maxrec tk qs raw in
  if negb (p_qsat r) || (N.land (p_ftok r) want =? 0) then false else
  if (limit =? 0) || (N.of_nat (length raw) <? limit) then Nat.eqb (p_parsed r) (length raw)
  else Nat.eqb (p_inspected r) (length raw) && negb (Nat.eqb (length raw) 0).
