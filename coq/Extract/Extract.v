(* Extraction of the executable model to OCaml. ExtrOcamlBasic only: bool, option, prod, list, unit,
   sumbool map to OCaml's; nat, N, Z, positive, ascii and string stay Coq inductives. *)
From Verif Require Import Base.Bytes Model.Types Model.GoLite Model.Sigs Model.Detectors Model.Text Model.Tree
  Model.Tar Model.Zip Model.Ole Model.Mkv Model.Json Model.Lines Model.Charset Model.Meta Model.Reader Model.Mime Model.Detect Model.SrcDetect Model.Order
  Gen.TreeData Gen.SigData Gen.Tables Spec.SpecText Spec.JsonJudge Spec.JsonSubtype Spec.SpecCharset Spec.SpecTar Spec.SpecZip Spec.SpecMime.
From Verif Require Legacy.JsonLegacy.
Require Import ExtrOcamlBasic.

Definition legacy_parse := Legacy.JsonLegacy.parse.
Definition legacy_json_helper := Legacy.JsonLegacy.json_helper.

Extraction "model.ml"
  hdr take verdicts chain_of walk tree0 nodes err_node default_limit obs_of
  parse legacy_parse json_helper legacy_json_helper queries_of tokens maxrec
  ndjson drop_last_line scan_lines sv_model csv_records
  from_bom from_plain latin ascii utf8_valid full_rune boms text_chars tc_T tc_I
  c02_judge is_model normal_media_type names_of
  detect_reader_read reader_consumed
  from_meta_element xml_encoding html_prescan from_html lower_bytes
  c11_judge up_to_trunc well_formed
  subtype_spec top_members is_geo is_har is_gltf
  judge_whole judge_prefix json_family looks_like_obj_or_arr
  text_det bin_byte_impl text_spec has_bom no_binary binary_byte text_id binary_path
  c19_forward c19_converse no_marker has_apk_marker ooxml_expected any_with_prefix
  before_tar_spec
  tar_det tar_parse_octal usum ssum tar_header_ok gpkg_name root_kids id_of_var
  zc skip_files crx_det match_ole_clsid matroska
  lookup insert_first flatten height
  src_verdicts tree_pinned order_respected
  b.
