(* C01: "checked" transliterations of the offset-computing detectors.  Every index and slice expression of the
   Go function appears as get / from / slice with Go's run-time check made explicit (Panic; bound len, stricter
   than Go's cap); the arithmetic is the Go arithmetic (uint32 wrap-around where the code uses uint32, 64-bit int
   otherwise).  Proofs/CheckedP.v shows that none of them can reach Panic, and that they compute the total models
   the other properties are proved about. *)
From Verif Require Import Base.Bytes Model.GoLite Model.Zip Model.Ole Model.Mkv Model.Tar.
Local Open Scope N_scope.

Notation "x <- e ;; k" := (rbind e (fun x => k)) (at level 61, e at next level, right associativity).

(* readBuf.advance(n): false (None) when n < 0 or len(b) < n - never a panic *)
Definition advance (cur : bytes) (n : Z) : option bytes :=
  if (n <? 0)%Z || (Z.of_nat (length cur) <? n)%Z then None else Some (skipn (Z.to_nat n) cur).

(* bytes.Index as an int *)
Definition indexZ (needle hay : bytes) : Z := match index_of needle hay with Some i => Z.of_nat i | None => (-1)%Z end.

Section ZipChk.
  Variable skip_files : list bytes.

  Fixpoint zip_hops_chk (k : nat) (sig cur : bytes) : res bool :=
    match k with
    | O => Val false
    | S k' =>
      match advance cur 26 with
      | None => Val false
      | Some c1 =>
        let nh := indexZ pk34 c1 in
        if (nh =? -1)%Z then Val false else
        match advance c1 (nh + 30) with
        | None => Val false
        | Some c2 => if has_prefix sig c2 then Val true else zip_hops_chk k' sig c2
        end
      end
    end.

  Definition zip_contains_chk (raw sig : bytes) (mso : bool) : res bool :=
    if (length raw <? 30)%nat then Val false else
    match advance raw 30 with
    | None => Val false
    | Some b0 =>
      if has_prefix sig b0 then Val true else
      if mso && negb (existsb (fun sf => has_prefix sf b0) skip_files) then Val false else
      r18 <- from raw 18 ;;                                     (* raw[18:] *)
      let so := (u32le r18 + 49) mod two32 in                   (* uint32 arithmetic *)
      match advance b0 (Z.of_N so) with
      | None => Val false
      | Some b1 =>
        rso <- from raw (N.to_nat so) ;;                        (* raw[searchOffset:] *)
        match advance b1 (indexZ pk34 rso) with
        | None => Val false
        | Some b2 => if has_prefix sig b2 then Val true else zip_hops_chk 4 sig b2
        end
      end
    end.
End ZipChk.

Definition crx_chk (raw : bytes) : res bool :=
  if (length raw <? 16)%nat || negb (has_prefix [67;114;50;52] raw) then Val false else
  s1 <- slice raw 8 12 ;;
  s2 <- slice raw 12 16 ;;
  let zo := (16 + u32le s1 + u32le s2) mod two32 in
  if (N.of_nat (length raw) mod two32) <? zo then Val false else
  r <- from raw (N.to_nat zo) ;;
  evalb zip_bexp r.

Definition match_ole_clsid_chk (inp clsid : bytes) : res bool :=
  if (length inp <? 512)%nat then Val false else
  c26 <- get inp 26 ;; c27 <- get inp 27 ;;
  let sector := if (c26 =? 4) && (c27 =? 0) then 4096 else 512 in
  s <- slice inp 48 52 ;;
  let off := sector * (1 + u32le s) + 80 in                     (* 64-bit int: no overflow below 2^45 *)
  if N.of_nat (length inp) <=? off + 16 then Val false else
  r <- from inp (N.to_nat off) ;;
  Val (has_prefix clsid r).

Definition matroska_chk (inp fl : bytes) : res bool :=
  if negb (has_prefix ebml inp) then Val false else
  let len := length inp in
  w <- slice inp 0 (Nat.min 4096 len) ;;                        (* in[:maxInd] *)
  let ind := indexZ [66;130] w in
  if (0 <? ind)%Z && (ind + 2 <? Z.of_nat len)%Z then
    let p := Z.to_nat (ind + 2) in
    c <- get inp p ;;                                           (* in[ind] *)
    let n := vint_width c in
    if (p + n <? len)%nat then r <- from inp (p + n) ;; Val (has_prefix fl r) else Val false
  else Val false.

Definition tar_chk (raw : bytes) : res bool :=
  if (length raw <? 512)%nat then Val false else
  h <- slice raw 0 512 ;;                                       (* raw[:sizeRecord] *)
  nm <- slice h 0 100 ;;                                        (* raw[:100] *)
  if contains gpkg nm then Val false else
  f <- slice h 148 156 ;;                                       (* raw[148:156] *)
  match tar_parse_octal f with
  | None => Val false
  | Some r => Val (Z.eqb (Z.of_N r) (usum h) || Z.eqb (Z.of_N r) (ssum h))
  end.

(* Ppt / Xls: raw[512:], raw[518], raw[519], raw[1152:min(4096, len)] after the length tests of the code *)
Definition at512_chk (raw h : bytes) : res bool := r <- from raw 512 ;; Val (has_prefix h r).
Definition win1152_chk (raw lit : bytes) : res bool :=
  if (1152 <? length raw)%nat then w <- slice raw 1152 (Nat.min 4096 (length raw)) ;; Val (contains lit w) else Val false.
Fixpoint any_chk (l : list (res bool)) : res bool :=       (* for _, h := range ... { if ... { return true } } *)
  match l with [] => Val false | r :: l' => v <- r ;; if v then Val true else any_chk l' end.

Definition ppt_chk (raw : bytes) : res bool :=
  a <- match_ole_clsid_chk raw [16;141;129;100;155;79;207;17;134;234;0;170;0;185;41;232] ;;
  c <- (if a then Val true else match_ole_clsid_chk raw [112;174;123;234;59;251;205;17;169;3;0;170;0;81;14;163]) ;;
  if c then Val true else
  if (length raw <? 520)%nat then Val false else
  s <- any_chk (map (at512_chk raw) [[160;70;29;240]; [0;110;30;240]; [15;0;232;3]]) ;;
  if s then Val true else
  f <- at512_chk raw [253;255;255;255] ;;
  g <- (if f then c518 <- get raw 518 ;; if c518 =? 0 then c519 <- get raw 519 ;; Val (c519 =? 0) else Val false else Val false) ;;
  if g then Val true else
  win1152_chk raw (utf16ish (b "PowerPoint") ++ [0; 32] ++ utf16ish (b "Document")).
