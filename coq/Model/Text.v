(* magic.Text and charset.FromBOM, parameterised by the BOM table (Gen/Tables.boms). *)
From Verif Require Import Base.Bytes.
Local Open Scope N_scope.

(* charset.FromBOM: first row whose BOM is a prefix; "" (= []) when none *)
Fixpoint from_bom (tbl : list (bytes * bytes)) (raw : bytes) : bytes :=
  match tbl with
  | [] => []
  | (bom, enc) :: tbl' => if has_prefix bom raw then enc else from_bom tbl' raw
  end.

(* the binary-data-byte test as written in text.go *)
Definition bin_byte_impl (c : byte) : bool :=
  (c <=? 8) || (c =? 11) || ((14 <=? c) && (c <=? 26)) || ((28 <=? c) && (c <=? 31)).

Definition text_det (tbl : list (bytes * bytes)) (raw : bytes) : bool :=
  match from_bom tbl raw with
  | _ :: _ => true
  | [] => forallb (fun c => negb (bin_byte_impl c)) raw
  end.
