(* matchOleClsid and the OLE sub-format detectors. *)
From Verif Require Import Base.Bytes.
Local Open Scope N_scope.

Definition match_ole_clsid (inp clsid : bytes) : bool :=
  if (length inp <? 512)%nat then false else
  let sector := if (nthb inp 26 =? 4) && (nthb inp 27 =? 0) then 4096 else 512 in
  let first := u32le (skipn 48 inp) in
  let off := sector * (1 + first) + 80 in
  if N.of_nat (length inp) <=? off + 16 then false else
  has_prefix clsid (skipn (N.to_nat off) inp).

Definition at512 (raw h : bytes) : bool := has_prefix h (skipn 512 raw).
Definition win1152 (raw lit : bytes) : bool :=
  (1152 <? length raw)%nat && contains lit (firstn (Nat.min 4096 (length raw) - 1152) (skipn 1152 raw)).

Fixpoint utf16ish (s : bytes) : bytes :=   (* "P\x00o\x00..." helper: interleave NULs, no trailing NUL *)
  match s with [] => [] | [c] => [c] | c :: s' => c :: 0 :: utf16ish s' end.

Definition ppt_det (raw : bytes) : bool :=
  if match_ole_clsid raw [16;141;129;100;155;79;207;17;134;234;0;170;0;185;41;232]
     || match_ole_clsid raw [112;174;123;234;59;251;205;17;169;3;0;170;0;81;14;163] then true else
  if (length raw <? 520)%nat then false else
  if existsb (at512 raw) [[160;70;29;240]; [0;110;30;240]; [15;0;232;3]] then true else
  if at512 raw [253;255;255;255] && (nthb raw 518 =? 0) && (nthb raw 519 =? 0) then true else
  win1152 raw (utf16ish (b "PowerPoint") ++ [0; 32] ++ utf16ish (b "Document")).

Definition xls_det (raw : bytes) : bool :=
  if match_ole_clsid raw [16;8;2;0;0;0;0;0] || match_ole_clsid raw [32;8;2;0;0;0;0;0] then true else
  if (length raw <? 520)%nat then false else
  if existsb (at512 raw) [[9;8;16;0;0;6;5;0]; [253;255;255;255;16]; [253;255;255;255;31]; [253;255;255;255;34];
                          [253;255;255;255;35]; [253;255;255;255;40]; [253;255;255;255;41]] then true else
  win1152 raw (utf16ish (b "WksSSWorkBook")).

Definition doc_det (raw : bytes) : bool :=
  existsb (match_ole_clsid raw)
    [[6;9;2;0;0;0;0;0;192;0;0;0;0;0;0;70]; [0;9;2;0;0;0;0;0;192;0;0;0;0;0;0;70]; [7;9;2;0;0;0;0;0;192;0;0;0;0;0;0;70]].
Definition pub_det raw := match_ole_clsid raw [1;18;2;0;0;0;0;0;0;192;0;0;0;0;0;70].
Definition msg_det raw := match_ole_clsid raw [11;13;2;0;0;0;0;0;192;0;0;0;0;0;0;70].
Definition msi_det raw := match_ole_clsid raw [132;16;12;0;0;0;0;0;192;0;0;0;0;0;0;70].
