(* Assembly: evaluation of every node's detector, the examined header, Detect. *)
From Verif Require Import Base.Bytes Model.Types Model.GoLite Model.Sigs Model.Detectors Model.Text Model.Tree
  Model.Tar Model.Zip Model.Ole Model.Mkv Model.Json Model.Lines Model.Charset
  Gen.TreeData Gen.SigData Gen.Tables.
Local Open Scope string_scope.

Definition lits_of (f : string) : list bytes := match assoc f func_lits with Some l => l | None => [] end.

Definition tokens : N * N * N * N * N * N * N :=
  (tok_null, tok_true, tok_false, tok_number, tok_string, tok_array, tok_object).
Definition queries_of (name : string) : list query :=
  match assoc name query_names with
  | Some key => match find (fun p => beq (b (fst p)) key) queries with Some p => snd p | None => [] end
  | None => []
  end.
Definition maxrec : nat := N.to_nat pool_max_recursion.

(* skip list and markers come from the literals of the Go function bodies *)
Definition skip_files : list bytes := tl (lits_of "zipContains").
Definition zc raw sig mso := zip_contains skip_files raw sig mso.
Definition first_lit (f : string) : bytes := hd [] (lits_of f).

Definition json_family (q : string) (want : N) (raw : bytes) (lim : N) : bool :=
  json_helper maxrec tokens (queries_of q) want raw lim.

(* function detectors outside GoLite: name -> model *)
Definition hand_models : list (string * (bytes -> N -> bool)) := [
  ("Text", fun raw _ => text_det boms raw);
  ("Tar", fun raw _ => tar_det raw);
  ("CRX", fun raw _ => crx_det raw);
  ("WebM", fun raw _ => webm_det raw);
  ("Mkv", fun raw _ => mkv_det raw);
  ("Doc", fun raw _ => doc_det raw);
  ("Ppt", fun raw _ => ppt_det raw);
  ("Xls", fun raw _ => xls_det raw);
  ("Pub", fun raw _ => pub_det raw);
  ("Msg", fun raw _ => msg_det raw);
  ("Msi", fun raw _ => msi_det raw);
  ("Xlsx", fun raw _ => zc raw (first_lit "Xlsx") true);
  ("Docx", fun raw _ => zc raw (first_lit "Docx") true);
  ("Pptx", fun raw _ => zc raw (first_lit "Pptx") true);
  ("Jar", fun raw _ => zc raw (first_lit "Jar") false);
  ("APK", fun raw _ => existsb (fun s => zc raw s false) (lits_of "APK"));
  ("Svg", fun raw _ => contains (first_lit "Svg") raw);
  ("Php", fun raw _ =>
     match assoc "phpPageF" sigs, assoc "phpScriptF" sigs with
     | Some (DCiPrefix a), Some (DShebang c) => ci_prefix a raw || shebang c raw
     | _, _ => false
     end);
  ("JSON", json_family "none" (N.lor tok_object tok_array));
  ("GeoJSON", json_family "geo" tok_object);
  ("HAR", json_family "har" tok_object);
  ("GLTF", json_family "gltf" tok_object);
  ("NdJSON", fun raw lim => ndjson maxrec tokens true raw lim)
].

(* None: no model (opaque detector: Srt, Csv, Tsv).  Name resolution happens once, outside the
   returned closure. *)
Definition compile_det (d : det) : option (bytes -> N -> res bool) :=
  match d with
  | DPrefix sg => let p := prefix_term sg in Some (fun raw _ => evalp p raw)
  | DOffset sg off => let p := offset_term sg off in Some (fun raw _ => evalp p raw)
  | DFtyp sg => let p := ftyp_term sg in Some (fun raw _ => evalp p raw)
  | DJpeg2k sg => let p := jpeg2k_term sg in Some (fun raw _ => evalp p raw)
  | DCiPrefix sg => Some (fun raw _ => Val (ci_prefix sg raw))
  | DMarkup sg => Some (fun raw _ => Val (markup sg raw))
  | DXml sg => Some (fun raw _ => Val (xml_det sg raw))
  | DShebang sg => Some (fun raw _ => Val (shebang sg raw))
  | DFunc name =>
      match assoc name func_terms with
      | Some p => Some (fun raw _ => evalp p raw)
      | None => match assoc name hand_models with
                | Some f => Some (fun raw lim => Val (f raw lim))
                | None => None
                end
      end
  end.
Definition eval_det (d : det) (raw : bytes) (lim : N) : option (res bool) :=
  match compile_det d with Some f => Some (f raw lim) | None => None end.

Definition det_of (name : string) : option det :=
  if String.eqb name "RootTrue" then Some (DPrefix [[]]) else assoc name sigs.

Definition node_det (n : node) : option det := det_of (n_det n).
Definition node_dets : list (option det) := map node_det nodes.
Definition node_evals : list (option (bytes -> N -> res bool)) :=
  map (fun o => match o with Some d => compile_det d | None => None end) node_dets.

(* verdict vector: one entry per node in flatten order; None = opaque *)
Definition verdicts (raw : bytes) (lim : N) : list (option (res bool)) :=
  map (fun o => match o with Some f => Some (f raw lim) | None => None end) node_evals.

(* (mime, extension) of a node id *)
Definition node_of (id : nat) : option node := nth_error nodes id.
Definition obs_of (id : nat) : bytes * bytes :=
  match node_of id with Some n => (n_mime n, n_ext n) | None => ([], []) end.

(* Detect's chain (result first, root last) given a verdict function on ids *)
Definition chain_of (acc : nat -> bool) (t : tree) : list (bytes * bytes) :=
  map obs_of (rev (walk acc t)).

(* ---- Detect on the model ------------------------------------------------------------------
   verdict of node id on (header, limit); opaque detectors (no model) are answered by the oracle;
   a Panic counts as rejection here and is excluded separately (C01). *)
Definition verdict (orc : nat -> bytes -> N -> bool) (raw : bytes) (lim : N) (id : nat) : bool :=
  match nth_error node_dets id with
  | Some (Some d) => match eval_det d raw lim with
                     | Some (Val v) => v
                     | Some Panic => false
                     | None => orc id raw lim
                     end
  | _ => orc id raw lim
  end.

(* path root..result of Detect at limit l on input x *)
Definition detect_path (orc : nat -> bytes -> N -> bool) (l : N) (x : bytes) : list nat :=
  walk (verdict orc (hdr l x) l) tree0.

Definition root_kids : list nat := map t_id (t_kids tree0).
Definition text_id : nat := last root_kids 0%nat.
Definition ids_with_mime (m : bytes) : list nat := map n_id (filter (fun n => beq (n_mime n) m) nodes).
Definition id_of_var (v : string) : nat :=
  match find (fun n => String.eqb (n_var n) v) nodes with Some n => n_id n | None => 0%nat end.

(* the root child on the path, if any, is not text/plain *)
Definition binary_path (p : list nat) : bool :=
  match nth_error p 1 with Some c => negb (Nat.eqb c text_id) | None => false end.
