(* internal/charset: fromMetaElement, xmlEncoding, and the WHATWG-style meta prescan of fromHTML over an
   abstract token stream (the x/net/html tokenizer is an oracle: tokens are data here). *)
From Verif Require Import Base.Bytes Model.Text.
Local Open Scope N_scope.

Definition meta_ws (c : byte) : bool := (c =? 32) || (c =? 9) || (c =? 10) || (c =? 12) || (c =? 13).
Fixpoint trim_left_ws (l : bytes) : bytes :=
  match l with c :: l' => if meta_ws c then trim_left_ws l' else l | [] => [] end.

Definition str_charset : bytes := b "charset".

(* strings.IndexAny(s, "; \t\n\f\r") *)
Fixpoint take_until_sep (l : bytes) : bytes :=
  match l with
  | [] => []
  | c :: l' => if (c =? 59) || meta_ws c then [] else c :: take_until_sep l'
  end.
(* s[:IndexRune(s, q)] or None *)
Fixpoint take_until_byte (q : byte) (l : bytes) : option bytes :=
  match l with
  | [] => None
  | c :: l' => if c =? q then Some [] else match take_until_byte q l' with Some r => Some (c :: r) | None => None end
  end.

Fixpoint from_meta_element_f (fuel : nat) (s : bytes) : bytes :=
  match fuel with
  | O => []
  | S f =>
    match s with
    | [] => []
    | _ =>
      match index_of str_charset s with
      | None => []
      | Some i =>
        let s1 := trim_left_ws (skipn (i + 7) s) in
        match s1 with
        | 61 :: s2 =>
          match trim_left_ws s2 with
          | [] => []
          | (q :: s3) as s2' =>
            if (q =? 34) || (q =? 39) then
              match take_until_byte q s3 with Some r => r | None => [] end
            else take_until_sep s2'
          end
        | _ => from_meta_element_f f s1
        end
      end
    end
  end.
Definition from_meta_element (s : bytes) : bytes := from_meta_element_f (S (length s)) s.

Definition xml_ws (c : byte) : bool := (c =? 32) || (c =? 9) || (c =? 13) || (c =? 10).
Fixpoint trim_left_xml (l : bytes) : bytes :=
  match l with c :: l' => if xml_ws c then trim_left_xml l' else l | [] => [] end.

Definition xml_encoding (s : bytes) : bytes :=
  match index_of (b "encoding") s with
  | None => []
  | Some i =>
    match trim_left_xml (skipn (i + 8) s) with
    | 61 :: v1 =>
      match trim_left_xml v1 with
      | [] => []
      | q :: v =>
        if (q =? 39) || (q =? 34) then
          match take_until_byte q v with Some r => r | None => [] end
        else []
      end
    | _ => []
    end
  end.

(* a start or self-closing tag token as the tokenizer delivers it: lower-cased name and keys *)
Record token := mk_token { tk_name : bytes; tk_attrs : list (bytes * bytes) }.

Inductive need := DontKnow | DoNeed | DoNotNeed.

Definition ascii_lower_bytes (v : bytes) : bytes := map lower v.

(* the attribute loop of one <meta> element: (seen keys, gotPragma, needPragma, name) *)
Fixpoint meta_attrs (attrs : list (bytes * bytes)) (seen : list bytes) (got : bool) (np : need) (name : bytes)
  : bool * need * bytes :=
  match attrs with
  | [] => (got, np, name)
  | (k, v0) :: rest =>
    if existsb (beq k) seen then meta_attrs rest seen got np name else
    let v := ascii_lower_bytes v0 in
    let seen' := k :: seen in
    if beq k (b "http-equiv") then meta_attrs rest seen' (got || beq v (b "content-type")) np name
    else if beq k (b "content") then
      let nm := from_meta_element v in
      meta_attrs rest seen' got (match nm with [] => np | _ => DoNeed end) nm
    else if beq k (b "charset") then meta_attrs rest seen' got DoNotNeed v
    else meta_attrs rest seen' got np name
  end.

(* fromHTML: first meta element that settles the question; None when the token stream ends *)
Fixpoint html_prescan (toks : list token) : bytes :=
  match toks with
  | [] => []
  | t :: rest =>
    if negb (beq (tk_name t) (b "meta")) then html_prescan rest else
    let '(got, np, name) := meta_attrs (tk_attrs t) [] false DontKnow [] in
    match np with
    | DontKnow => html_prescan rest
    | DoNeed => if got then (if has_prefix (b "utf-16") name then b "utf-8" else name) else html_prescan rest
    | DoNotNeed => if has_prefix (b "utf-16") name then b "utf-8" else name
    end
  end.

(* charset.FromHTML given the BOM table, the prescan result and the plain-text fallback *)
Definition from_html (boms : list (bytes * bytes)) (content : bytes) (prescan plain : bytes) : bytes :=
  match from_bom boms content with
  | (_ :: _) as cs => cs
  | [] => match prescan with (_ :: _) as cs => cs | [] => plain end
  end.
