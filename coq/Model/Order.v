(* The regenerated tree re-ordered to the specified priority order (Spec/SpecOrder.v): the sub-formats that the
   specification names keep the slots they occupy but are put into the specified relative order; formats the
   specification does not know stay where they are. *)
From Verif Require Import Base.Bytes Model.Types Gen.TreeData Spec.SpecOrder.
Local Open Scope nat_scope.

Definition var_of (id : nat) : string :=
  match nth_error nodes id with Some n => n_var n | None => EmptyString end.

Fixpoint str_index (v : string) (l : list string) (i : nat) : option nat :=
  match l with
  | [] => None
  | x :: l' => if String.eqb x v then Some i else str_index v l' (S i)
  end.

Definition pin_rank (p v : string) : option nat :=
  match assoc p pinned_children with Some l => str_index v l 0 | None => None end.

Fixpoint insert_ranked (x : nat * tree) (l : list (nat * tree)) : list (nat * tree) :=
  match l with
  | [] => [x]
  | y :: l' => if fst x <=? fst y then x :: l else y :: insert_ranked x l'
  end.
Definition sort_ranked (l : list (nat * tree)) : list (nat * tree) := fold_right insert_ranked [] l.

(* walk the slots: a ranked kid's slot takes the next of the sorted ranked kids *)
Fixpoint refill (p : string) (cs : list tree) (sorted : list tree) : list tree :=
  match cs with
  | [] => []
  | c :: cs' =>
    match pin_rank p (var_of (t_id c)) with
    | Some _ => match sorted with s :: sorted' => s :: refill p cs' sorted' | [] => c :: refill p cs' [] end
    | None => c :: refill p cs' sorted
    end
  end.

Definition reorder (p : string) (cs : list tree) : list tree :=
  let ranked := flat_map (fun c => match pin_rank p (var_of (t_id c)) with Some r => [(r, c)] | None => [] end) cs in
  refill p cs (map snd (sort_ranked ranked)).

Fixpoint pin_tree (t : tree) : tree :=
  match t with T n cs => T n (reorder (var_of n) (map pin_tree cs)) end.

Fixpoint tree_eqb (a c : tree) {struct a} : bool :=
  match a, c with
  | T n cs, T m ds =>
    (n =? m) && (fix all2 (l : list tree) (r : list tree) {struct l} : bool :=
                   match l, r with
                   | [], [] => true
                   | x :: l', y :: r' => tree_eqb x y && all2 l' r'
                   | _, _ => false
                   end) cs ds
  end.

Definition tree_pinned : tree := pin_tree tree0.
(* the regenerated tree lists the formats the specification names in the specified relative order *)
Definition order_respected : bool := tree_eqb tree_pinned tree0.
