(* The pooled JSON scanner state: sync.Pool holds recycled parserStates; Get returns any of them or a fresh
   one (New); Parse resets the state before use and puts it back afterwards. *)
From Verif Require Import Base.Bytes Model.Json.
Local Open Scope nat_scope.

Record pstate := mk_pstate { ps_maxrec : nat; ps_st : pst }.   (* parserState: the cap and everything else *)

Definition fresh (cap : nat) : pstate := mk_pstate cap init_st.

(* Parse on a state taken from the pool: reset, scan, return the state to the pool *)
Definition parse_on (tk : N * N * N * N * N * N * N) (p : pstate) (qs : list query) (raw : bytes) : parse_out * pstate :=
  let s0 := reset (ps_st p) in
  let '(o, s) := go (ps_maxrec p) qs tk (fuel_for raw) WAny raw 0 s0 in
  let n := match o with Some rest => length raw - length rest | None => 0 end in
  (mk_out (if complete s then n else 0) (ib s) (ftok s) (qsat s) (oof s) (hw s),
   mk_pstate (ps_maxrec p) (if Nat.ltb 128 (length (path s)) then set_path [] s else s)).

(* a history: each operation is a Parse (query, input); `choice` says which pooled state Get hands out:
   None = New(), Some i = the i-th state currently in the pool (removed from it) *)
Definition op := (list query * bytes)%type.

Fixpoint remove_nth {A} (i : nat) (l : list A) : list A :=
  match i, l with
  | _, [] => []
  | O, _ :: l' => l'
  | S i', x :: l' => x :: remove_nth i' l'
  end.

Fixpoint run (tk : N * N * N * N * N * N * N) (cap : nat) (ops : list op) (choices : list (option nat)) (pool : list pstate)
  : list parse_out :=
  match ops with
  | [] => []
  | (qs, raw) :: ops' =>
    let ch := match choices with c :: _ => c | [] => None end in
    let '(p, pool') := match ch with
                       | Some i => match nth_error pool i with Some p => (p, remove_nth i pool) | None => (fresh cap, pool) end
                       | None => (fresh cap, pool)
                       end in
    let '(out, p') := parse_on tk p qs raw in
    out :: run tk cap ops' (tl choices) (p' :: pool')
  end.
