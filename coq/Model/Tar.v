(* magic.Tar with tarParseOctal and tarChksum. *)
From Verif Require Import Base.Bytes.
Local Open Scope N_scope.

Definition tar_cut (c : byte) : bool := (c =? 32) || (c =? 0).
Fixpoint drop_cut (l : bytes) : bytes :=
  match l with c :: l' => if tar_cut c then drop_cut l' else l | [] => [] end.
(* bytes.Trim(b, " \x00") *)
Definition tar_trim (l : bytes) : bytes := rev (drop_cut (rev (drop_cut l))).

Fixpoint octal_loop (l : bytes) (acc : N) : option N :=
  match l with
  | [] => Some acc
  | c :: l' => if c =? 0 then Some acc
               else if (c <? 48) || (55 <? c) then None
               else octal_loop l' (acc * 8 + (c - 48))
  end.
(* tarParseOctal: None models -1 *)
Definition tar_parse_octal (fld : bytes) : option N :=
  match tar_trim fld with
  | [] => None
  | t => octal_loop t 0
  end.

Definition in_field (i : nat) : bool := (148 <=? i)%nat && (i <? 156)%nat.
Definition u8 (c : N) : Z := Z.of_N c.
Definition s8 (c : N) : Z := if c <? 128 then Z.of_N c else (Z.of_N c - 256)%Z.

(* tarChksum: positional sum, the checksum field read as spaces *)
Fixpoint sumf (f : N -> Z) (i : nat) (h : bytes) : Z :=
  match h with
  | [] => 0%Z
  | c :: t => ((if in_field i then 32 else f c) + sumf f (S i) t)%Z
  end.
Definition usum h := sumf u8 0 h.
Definition ssum h := sumf s8 0 h.

Definition gpkg : bytes := [47;103;112;107;103;45;49;0].   (* "/gpkg-1\x00" *)

Definition tar_det (raw : bytes) : bool :=
  if (length raw <? 512)%nat then false else
  let h := firstn 512 raw in
  if contains gpkg (firstn 100 h) then false else
  match tar_parse_octal (firstn 8 (skipn 148 h)) with
  | None => false
  | Some r => Z.eqb (Z.of_N r) (usum h) || Z.eqb (Z.of_N r) (ssum h)
  end.
