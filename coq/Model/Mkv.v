(* isMatroskaFileTypeMatched / isFileTypeNamePresent / vintWidth. *)
From Verif Require Import Base.Bytes.
Local Open Scope N_scope.

Definition vint_width (v : N) : nat :=
  if 128 <=? v then 1 else if 64 <=? v then 2 else if 32 <=? v then 3 else if 16 <=? v then 4
  else if 8 <=? v then 5 else if 4 <=? v then 6 else if 2 <=? v then 7 else 8.

Definition ebml : bytes := [26;69;223;163].

Definition matroska (inp fl : bytes) : bool :=
  if negb (has_prefix ebml inp) then false else
  let len := length inp in
  match index_of [66;130] (firstn (Nat.min 4096 len) inp) with
  | Some (S i0) =>
    let ind := S i0 in
    if (ind + 2 <? len)%nat then
      let p := (ind + 2)%nat in
      let n := vint_width (nthb inp p) in
      if (p + n <? len)%nat then has_prefix fl (skipn (p + n) inp) else false
    else false
  | _ => false
  end.
Definition webm_det raw := matroska raw (b "webm").
Definition mkv_det raw := matroska raw (b "matroska").
