(* C06: the lock discipline of package mimetype.  Actions of a thread, the RWMutex as a transition system,
   and the static discipline checked on the programs extracted from the source (Gen/Access.v). *)
From Verif Require Import Base.Bytes.
Local Open Scope nat_scope.

Inductive loc := LChildren | LLimit | LAliases | LMime | LExtension | LDetector | LParent.
(* location classes: guarded by mu (children slices); atomic (readLimit); frozen (written only before the node
   is published into a children slice, read-only afterwards: mime, extension, detector, parent, aliases and the
   aliases' backing array) *)
Inductive lclass := Guarded | Atomic | Frozen.
Definition class_of (l : loc) : lclass :=
  match l with LChildren => Guarded | LLimit => Atomic | _ => Frozen end.

Inductive action :=
| Lock | Unlock | RLock | RUnlock
| Read (l : loc) | Write (l : loc)        (* plain accesses (post-publication for frozen locations) *)
| ARead (l : loc) | AWrite (l : loc).     (* sync/atomic accesses *)

Inductive held := HNone | HR | HW.

(* one step of the per-thread discipline: None = the action breaks the discipline *)
Definition lstep (h : held) (a : action) : option held :=
  match a with
  | Lock => match h with HNone => Some HW | _ => None end
  | Unlock => match h with HW => Some HNone | _ => None end
  | RLock => match h with HNone => Some HR | _ => None end
  | RUnlock => match h with HR => Some HNone | _ => None end
  | Read l => match class_of l with
              | Guarded => match h with HNone => None | _ => Some h end
              | Atomic => None
              | Frozen => Some h
              end
  | Write l => match class_of l with
               | Guarded => match h with HW => Some h | _ => None end
               | _ => None
               end
  | ARead l | AWrite l => match class_of l with Atomic => Some h | _ => None end
  end.

Fixpoint lrun (h : held) (p : list action) : option held :=
  match p with
  | [] => Some h
  | a :: p' => match lstep h a with Some h' => lrun h' p' | None => None end
  end.

(* a program (one call of an entry point) is disciplined when it runs from "no lock held" back to it *)
Definition disciplined_prog (p : list action) : bool :=
  match lrun HNone p with Some HNone => true | _ => false end.
(* "the limit in force at some instant during the call": an entry point takes one snapshot of the limit *)
Definition is_limit_load (a : action) : bool := match a with ARead LLimit => true | _ => false end.
Definition single_snapshot (p : list action) : bool := Nat.leb (length (filter is_limit_load p)) 1.
Definition disciplined (progs : list (string * list action)) : bool :=
  forallb (fun np => disciplined_prog (snd np) && single_snapshot (snd np)) progs.

(* ---- the mutex ---- *)
Record gstate := mk_g { writer : option nat; readers : list nat }.
Definition g0 : gstate := mk_g None [].

Fixpoint remove1 (t : nat) (l : list nat) : list nat :=
  match l with [] => [] | x :: l' => if Nat.eqb x t then l' else x :: remove1 t l' end.

Definition gstep (g : gstate) (t : nat) (a : action) : option gstate :=
  match a with
  | Lock => match writer g, readers g with None, [] => Some (mk_g (Some t) []) | _, _ => None end
  | Unlock => match writer g with Some w => if Nat.eqb w t then Some (mk_g None (readers g)) else None | None => None end
  | RLock => match writer g with None => Some (mk_g None (t :: readers g)) | Some _ => None end
  | RUnlock => if existsb (Nat.eqb t) (readers g) then Some (mk_g (writer g) (remove1 t (readers g))) else None
  | _ => Some g
  end.

(* a global trace: interleaving of thread actions accepted by the mutex *)
Fixpoint grun (g : gstate) (tr : list (nat * action)) : option gstate :=
  match tr with
  | [] => Some g
  | (t, a) :: tr' => match gstep g t a with Some g' => grun g' tr' | None => None end
  end.

Definition proj (t : nat) (tr : list (nat * action)) : list action :=
  map snd (filter (fun e => Nat.eqb (fst e) t) tr).
