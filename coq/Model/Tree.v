(* The first-match depth-first walk of MIME.match over the nested tree, and lookup. *)
From Verif Require Import Base.Bytes Model.Types.
Local Open Scope nat_scope.

Section Walk.
  Variable acc : nat -> bool.      (* verdict of each node's detector on the fixed (header, limit) *)

  (* path from the root down to the reported node *)
  Fixpoint walk (t : tree) : list nat :=
    match t with
    | T n cs => n :: (fix first (l : list tree) : list nat :=
                        match l with
                        | [] => []
                        | c :: l' => if acc (t_id c) then walk c else first l'
                        end) cs
    end.
  Definition first_kid := fix first (l : list tree) : list nat :=
    match l with [] => [] | c :: l' => if acc (t_id c) then walk c else first l' end.

  (* instrumented walk: the ids whose detector was called, in order *)
  Fixpoint walk_log (t : tree) : list nat :=
    match t with
    | T n cs => (fix first (l : list tree) : list nat :=
                   match l with
                   | [] => []
                   | c :: l' => t_id c :: (if acc (t_id c) then walk_log c else first l')
                   end) cs
    end.
End Walk.

(* all ids of a tree in flatten() order *)
Fixpoint flatten (t : tree) : list nat :=
  match t with T n cs => n :: flat_map flatten cs end.

Fixpoint height (t : tree) : nat :=
  match t with T _ cs => S (fold_right (fun c m => Nat.max (height c) m) 0 cs) end.

(* MIME.lookup on names: depth-first, node name and aliases *)
Section Lookup.
  Variable names : nat -> list bytes.     (* aliases ++ [mime], as lookup builds it *)
  Fixpoint lookup (name : bytes) (t : tree) : option nat :=
    match t with
    | T n cs => if existsb (beq name) (names n) then Some n else
                (fix first (l : list tree) : option nat :=
                   match l with
                   | [] => None
                   | c :: l' => match lookup name c with Some r => Some r | None => first l' end
                   end) cs
    end.
End Lookup.

(* Extend: prepend a new leaf under parent p *)
Fixpoint insert_first (p newid : nat) (t : tree) : tree :=
  match t with
  | T n cs => let cs' := map (insert_first p newid) cs in
              if n =? p then T n (T newid [] :: cs') else T n cs'
  end.
