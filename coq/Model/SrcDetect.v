(* The detectors translated from the current source (Gen/SrcFuncs.v) as a verdict vector over the regenerated tree:
   the correspondence channel `det` runs them next to the hand-written models against the Go code (a Panic of the
   translated function against a Go panic or verdict included), which validates the translator itself. *)
From Verif Require Import Base.Bytes Model.Types Model.GoRes Model.Detect Gen.SrcFuncs Gen.SigData.
Local Open Scope string_scope.

Definition src_dets : list (string * (bytes -> Z -> res bool)) := [
  ("Tar", src_Tar); ("CRX", src_CRX); ("WebM", src_WebM); ("Mkv", src_Mkv);
  ("Doc", src_Doc); ("Ppt", src_Ppt); ("Xls", src_Xls); ("Pub", src_Pub); ("Msg", src_Msg); ("Msi", src_Msi);
  ("Xlsx", src_Xlsx); ("Docx", src_Docx); ("Pptx", src_Pptx); ("Jar", src_Jar); ("APK", src_APK);
  ("Text", src_Text); ("Svg", src_Svg); ("Php", src_Php)].

(* true: the function walks the input with index-driven loops (each raw[i] costs O(i) on lists), so the correspondence
   runs it on headers of at most 128 bytes, and the other translated functions on headers of at most 640 bytes (a tar
   block and its neighbourhood); the theorems about them hold for every input *)
Definition src_evals : list (option (bool * (bytes -> Z -> res bool))) :=
  map (fun o => match o with
                | Some (DFunc name) => match assoc name src_dets with Some f => Some (false, f) | None => None end
                | Some (DCiPrefix sg) => Some (true, src_ciPrefix sg)
                | Some (DMarkup sg) => Some (true, src_markup sg)
                | Some (DXml sg) => Some (true, src_xml sg)
                | Some (DShebang sg) => Some (true, src_shebang sg)
                | _ => None
                end) node_dets.

Definition src_verdicts (raw : bytes) (lim : N) : list (option (res bool)) :=
  let small := (length raw <=? 128)%nat in
  let medium := (length raw <=? 640)%nat in   (* zlen is O(n) on lists and the translated functions call it often *)
  map (fun o => match o with
                | Some (costly, f) => if (costly && negb small) || negb medium then None else Some (f raw (Z.of_N lim))
                | None => None
                end) src_evals.
